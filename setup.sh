#!/bin/bash
# Build (and thereby cache) every harness test binary from the files on disk; offline.
set -u
cd /verif
. ./env.sh
mkdir -p bin out evidence/replays
rc=0
for pkg in $(cd harness && ls -d */ | tr -d / | grep -v '^kit$'); do
  if ls harness/$pkg/*_test.go >/dev/null 2>&1; then
    ( cd harness && go test -c -tags verif -o /verif/bin/setup.$pkg.test ./$pkg ) || rc=1
    rm -f /verif/bin/setup.$pkg.test
  fi
done
if [ -d harness-wasm ]; then
  ( cd harness-wasm && go test -c -tags verif -o /verif/bin/setup.wasm.test ./wasm ) || rc=1
  rm -f /verif/bin/setup.wasm.test
fi
exit $rc
