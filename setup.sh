#!/bin/bash
# Build (and thereby cache) the harness test binaries of every claimed check from the files on disk; offline.
set -u
cd "$(dirname "$(readlink -f "$0")")"
VROOT=$(pwd)
. ./env.sh
mkdir -p bin out evidence/replays
declare -A seen
rc=0
for P in $(jq -r '.checks[].property_id' MANIFEST.json); do
  pkg=$(grep -o "\[$P\]=[a-z]*" run.sh | head -1 | cut -d= -f2)
  [ -z "$pkg" ] && continue
  [ -n "${seen[$pkg]:-}" ] && continue
  seen[$pkg]=1
  dir=harness; [ "$pkg" = wasm ] && dir=harness-wasm
  echo "building $dir/$pkg"
  ( cd $dir && go test -c -tags verif -o $VROOT/bin/setup.$pkg.test ./$pkg ) || rc=1
  rm -f $VROOT/bin/setup.$pkg.test
done
exit $rc
