#!/usr/bin/env python3
"""Fold the per-shard partial results of one check into evidence/<id>.json, apply observation floors and the
known-findings file, print VIOLATION / KNOWN-FINDING / BROKEN-CHECK lines and decide the exit code.
exit 0 = held on everything observed; 1 = unknown violation; 3 = the check itself is broken/inconclusive."""
import glob, json, os, re, sys

prop, tier, seed, out, build_s, run_s = sys.argv[1], sys.argv[2], int(sys.argv[3]), sys.argv[4], float(sys.argv[5]), float(sys.argv[6])
replay_mode = len(sys.argv) > 7 and sys.argv[7] == "replay"
V = os.path.dirname(os.path.abspath(__file__))
EVD = os.environ.get("VERIF_EVIDENCE_DIR", os.path.join(V, "evidence"))

parts = []
for f in sorted(glob.glob(os.path.join(out, f"{prop}.shard*.json"))):
    try:
        parts.append(json.load(open(f)))
    except Exception as e:
        print(f"BROKEN-CHECK: property={prop} unreadable partial {f}: {e}")
        sys.exit(3)
logs = sorted(glob.glob(os.path.join(out, "shard*.log")))
if not parts or len(parts) != len(logs) or not all(p.get("completed") for p in parts):
    print(f"BROKEN-CHECK: property={prop} {len(parts)}/{len(logs)} shards completed (crash, timeout or missing test); logs in {out}")
    for lf in logs:
        tail = open(lf, errors="replace").read().splitlines()[-25:]
        print(f"--- {lf}")
        print("\n".join(tail))
    sys.exit(3)

known = []
kf = os.path.join(V, "known_findings.jsonl")
if os.path.exists(kf):
    for line in open(kf):
        line = line.strip()
        if line and not line.startswith("#"):
            known.append(json.loads(line))

def match_known(v):
    for k in known:
        if k.get("property") != v["property"] or k.get("status") != "known":
            continue
        if k.get("signature") == v["signature"]:
            return k
        if k.get("signature_re") and re.fullmatch(k["signature_re"], v["signature"]):
            return k
    return None

evals = sum(p["evaluations"] for p in parts)
distinct = set()
observed, floors = {}, {}
samples, assumptions, notes, inconcl, viol = [], [], [], [], []
for p in parts:
    distinct.update(p["distinct"])
    for k, n in p["observed"].items():
        observed[k] = observed.get(k, 0) + n
    for k, n in p["floors"].items():
        floors[k] = max(floors.get(k, 0), n)
    samples += p["samples"] or []
    for a in p.get("assumptions") or []:
        if a not in assumptions: assumptions.append(a)
    for a in p.get("notes") or []:
        if a not in notes: notes.append(a)
    inconcl += p.get("inconclusive") or []
    for v in p["violations"]:
        v["shard"], v["shards"] = p["shard"], p["shards"]
        viol.append(v)

unknown, hits = [], {}
for v in viol:
    k = match_known(v)
    if k is not None:
        hits.setdefault(k["signature"], (k, 0))
        hits[k["signature"]] = (k, hits[k["signature"]][1] + 1)
    else:
        unknown.append(v)

os.makedirs(os.path.join(EVD, "replays"), exist_ok=True)
lines = []
for k, n in hits.values():
    lines.append(f"KNOWN-FINDING: property={prop} {k.get('what','')} [signature={k['signature']} observed={n}x]")
seen_sig = set()
for i, v in enumerate(unknown):
    if v["signature"] in seen_sig:
        continue
    seen_sig.add(v["signature"])
    rp = os.path.join(EVD, "replays", f"{prop}-{tier}-{seed}-{len(seen_sig)}.json")
    json.dump({"property": prop, "seed": seed, "tier": tier, "shard": v["shard"], "shards": v["shards"], "case": v["case"],
               "signature": v["signature"], "what": v["what"], "witness": v.get("witness")}, open(rp, "w"), indent=1, default=str)
    lines.append(f"VIOLATION property={prop} replay={rp}")
    lines.append(f"  what: {v['what'][:600]}")

broken = []
if not replay_mode:
    for k, m in floors.items():
        if observed.get(k, 0) < m:
            broken.append(f"{k}={observed.get(k,0)} < floor {m}")
    if len(distinct) < 2:
        broken.append(f"distinct_nontrivial={len(distinct)} < 2")
    if evals and len(inconcl) * 5 > max(evals, 1) and observed.get("inconclusive_cases", 0) * 5 > observed.get("cases", 10**9):
        broken.append(f"{len(inconcl)} inconclusive cases")

level = parts[0]["level"]
ev = {
    "property_id": prop, "tier": tier, "seed": seed, "level": level,
    "coverage": {
        "evaluations": evals, "distinct_nontrivial": len(distinct), "rule": parts[0]["rule"],
        "samples": samples[:8] if samples else [], "observed": observed, "floors": floors,
        "shards": len(parts), "inconclusive": inconcl[:20], "known_findings_hit": [k["signature"] for k, _ in hits.values()],
        "exhaustive": all(p.get("exhaustive") for p in parts), "notes": notes,
    },
    "assumptions": assumptions, "wall_s": round(build_s + run_s, 1), "build_s": build_s, "run_s": run_s,
    "violations": len(unknown),
    "verdict": "violated" if unknown else ("inconclusive" if broken else "held on what was observed"),
}
if not replay_mode:
    json.dump(ev, open(os.path.join(EVD, f"{prop}.json"), "w"), indent=1, default=str)

obs = " ".join(f"{k}={observed[k]}" for k in sorted(observed))
print(f"{prop} {tier} seed={seed}: evaluations={evals} distinct_nontrivial={len(distinct)} violations={len(unknown)} known={sum(n for _, n in hits.values())} inconclusive={len(inconcl)} build={build_s:.0f}s run={run_s:.0f}s")
print(f"  observed: {obs}")
for l in lines:
    print(l)
if unknown:
    sys.exit(1)
if broken:
    print(f"BROKEN-CHECK: property={prop} observation floors missed: " + "; ".join(broken))
    sys.exit(3)
sys.exit(0)
