#!/bin/bash
# usage: tools/sweep.sh "<seeds>" "<props>" [tier]   — silence sweep: every check at several seeds, evidence kept out of the way
VROOT=$(cd "$(dirname "$(readlink -f "$0")")/.." && pwd)
cd "$VROOT"
tier=${3:-quick}
export VERIF_EVIDENCE_DIR=$VROOT/out/sweep-evidence
mkdir -p $VERIF_EVIDENCE_DIR
for seed in $1; do
  for p in $2; do
    out=$(VERIF_SEED=$seed ./run.sh $p $tier 2>&1); rc=$?
    echo "SWEEP seed=$seed $p $tier exit=$rc $(echo "$out" | grep -E "^$p $tier" | cut -c1-160)"
    echo "$out" | grep -E "^(VIOLATION|BROKEN-CHECK|  what)" | cut -c1-400
  done
done
