BASELINE_OFF = "for m in . modules/light-clients/08-wasm simapp e2e; do (cd /repo/$m && go test -json -vet=off -count=1 -timeout 25m ./...); done"
HOOK_COMMITS = []
NOTES = ("Runtime monitoring of real SimApp chains: every check rebuilds a Go test binary of the harness against /repo's working tree "
         "(replace directive), drives PRNG-determined hostile workloads through real signed transactions and lets monitors compare what was "
         "observed (application callbacks, per-block state diffs, tx results, balances) with independent reference models / harness ground truth. "
         "Exit 0 = held on everything observed, 1 = VIOLATION, 3 = BROKEN-CHECK (check crashed, did not build, or observed fewer events than its floor).")
ENGINES = [
 {"name": "harness", "path": "/verif/harness", "kind_free_text": "Go test binaries (one package per workload family) + kit (world, taps, verdicts); merge.py folds shard results into evidence",
  "serves_properties": []},
]
PKT_NOTE = "trusted base: CometBFT/IAVL/ics23 proof verification, SDK baseapp tx atomicity, the ibctesting chain scaffolding used to produce blocks and headers; only app stacks wired in testing/simapp are driven"
def pkt(text): return {"level": "exploration", "technique": "runtime monitoring: hostile-relayer workload on real chains + callback/state-diff monitors vs truth log", "text": text, "note": PKT_NOTE}
CLAIMS = {
 "C01": pkt("held on K PRNG-determined hostile relay histories (duplicates, replays, mutants, out-of-order, v1/v2/alias mix): monitor counts persisted receive callbacks per (destination id, sequence) and checks NOOP relays have empty state diff and no callback"),
 "C02": pkt("ordered-lane monitor: persisted receive / acknowledgement callbacks must carry sequences 1,2,3… per channel end under out-of-order, duplicate and replayed relays"),
 "C03": pkt("terminal-outcome monitor: at most one ack/timeout callback transaction per sent packet, commitment gone afterwards, later ack/timeout relays are NOOP with empty diff; races of ack vs timeout vs duplicates are driven"),
 "C04": pkt("timeout soundness monitor: no packet both received (persisted callback) and timed out; every accepted timeout is compared with the destination chain's real header time/height at the proof height (v1 ns, v2 seconds)"),
 "C05": pkt("receive monitor: every persisted receive callback must carry a packet byte-identical to one the counterparty really committed (truth log), before its timeout, through OPEN channel/connection and Active client; every rejected (mutated/replayed) message must leave an empty state diff"),
 "C06": pkt("ack monitor: every persisted ack callback must be for a truth packet and carry exactly the acknowledgement the destination stored (checked against the spec formula of the ack commitment in the destination store); forged/mutated acks must fail with empty diff"),
 "C08": pkt("send monitor: each successful send (v1 keeper send, MsgTransfer, v2 MsgSendPacket, alias) must get previous+1 per source id (v1 and alias share the counter), write exactly the commitment key and the counter, and respect the v2 timeout window; live commitments equal the spec formula"),
 "C11": pkt("ack-immutability monitor on raw state diffs: an acknowledgement key is written at most once and never changes or disappears; v2 ack keys require a receipt; async WriteAcknowledgement is called 0..n times per packet"),
 "C14": pkt("ordered-timeout monitor: after a timeout callback on an ORDERED end the stored channel state is CLOSED after every later transaction and no later send/recv/ack is accepted on that end"),
}
XFER_NOTE = "trusted base: bank module, SDK tx atomicity, light-client proof verification, ibctesting scaffolding; forward middleware exists only on the v1 transfer stack of testing/simapp; ledger model covers slash-free base denominations (C33 covers the others)"
def xfer(level, text): return {"level": level, "technique": "runtime monitoring: multi-chain ICS-20 workload + independent ledger model and per-channel conservation identity checked after every block", "text": text, "note": XFER_NOTE}
CLAIMS.update({
 "C30": xfer("exploration", "after every transaction of every chain the per-channel identity escrow_X(ch)[D] = supply_Y(voucher) + in-flight(both directions) is evaluated from real balances and the truth log, plus native-supply constancy, over PRNG histories on 3 chains (v1, v2, alias, forwarding, failures, timeouts, duplicates)"),
 "C31": xfer("exploration", "after every transaction the tracked total escrow of every denomination is compared with the sum of the real balances of all transfer escrow accounts of that chain (incl. forward-middleware refund moves); never negative"),
 "C32": xfer("fault_enumeration", "failure matrix {error ack by invalid/blocked receiver/disabled receive, timeout by height/time} x {native, voucher} x {v1, v2 pair, alias}: an independent ledger model (debit on send, credit on successful receive, refund exactly once on failure) is compared with every tracked account's real balances after every transaction"),
 "C33": xfer("exploration", "generated base denominations with '/' segments shaped like ports/channels/clients/numbers: A->B then the received voucher back over the same channel; the origin must release exactly the original denomination from that channel's escrow"),
 "C43": xfer("fault_enumeration", "forward routes of depth 1-2 over a 3-chain triangle (incl. back over the arrival channel), each hop ending in success / error ack / timeout with 0-2 retries: ledger model + conservation identity after every block; at quiescence every route is either delivered or refunded exactly once and no intermediate account holds funds"),
 "C49": xfer("exploration", "every committed packet must debit an account that signed the transaction (hostile sends naming another account as sender on v1/v2/alias); relays by arbitrary accounts may only credit the named receiver / refund the sender: enforced by comparing all tracked balances with the ledger model after every transaction"),
})
CLAIMS.update({
 "C09": {"level": "fault_enumeration", "technique": "runtime monitoring: injected application faults at every point of the v1 receive path, oracle on exact per-block state diff", "note": PKT_NOTE,
         "text": "complete matrix {mock app success / error / write-k-keys(+bank send)-then-error / write-then-async} x {ORDERED, UNORDERED} and the real transfer stack with each receive-side failure (undecodable or blocked receiver, receive disabled, bank send restriction failing after the voucher mint): after an error ack nothing but receipt/counter + the error acknowledgement may differ; success/async state must persist"},
 "C10": {"level": "fault_enumeration", "technique": "runtime monitoring: complete status-vector matrix for v2 multi-payload receives, oracle on tx result, stored ack commitment and state diff", "note": PKT_NOTE,
         "text": "every vector over {success, fail, write-then-fail, async, success-carrying-the-sentinel}^N for N=1..3 (N=4 sampled), on a v2 client pair and over a channel alias: all-success => per-payload acks in payload order and all app state; any failure => single sentinel ack and no app state; async only for N=1; sentinel never inside a success ack"},
})
NOT_APPLICABLE = {}
