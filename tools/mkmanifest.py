#!/usr/bin/env python3
"""Regenerate MANIFEST.json from tools/claims.py (one entry per claimed property)."""
import json, importlib.util
spec = importlib.util.spec_from_file_location("claims", "/verif/tools/claims.py"); cl = importlib.util.module_from_spec(spec); spec.loader.exec_module(cl)
props = [json.loads(l)["id"] for l in open("/verif/properties.jsonl")]
checks = []
for pid in props:
    c = cl.CLAIMS.get(pid)
    if not c: continue
    checks.append({
        "property_id": pid,
        "quick_cmd": f"./run.sh {pid} quick",
        "thorough_cmd": f"./run.sh {pid} thorough",
        "evidence_file": f"/verif/evidence/{pid}.json",
        "replay_cmd_template": f"./run.sh {pid} replay {{path}}",
        "engine": c.get("engine", "harness"),
        "level_claimed": {"category": c["level"], "text": c["text"], "design_ref": c.get("ref", f"DESIGN.md §7 {pid}")},
        "level_note": c["note"],
        "technique": c["technique"],
    })
na = [{"property_id": p, "reason": cl.NOT_APPLICABLE.get(p, "check not built yet in this round (planned: see DESIGN.md §7); not claimed until its monitor exists and has been validated")} for p in props if p not in cl.CLAIMS]
m = {
    "version": 1,
    "setup_cmd": "./setup.sh",
    "hooks": {
        "guard": "verif",
        "enable": "go test -c -tags verif (harness modules with `replace github.com/cosmos/ibc-go/v11 => /repo`); no source hooks are needed so far, all taps use exported extension points",
        "baseline_off_cmd": cl.BASELINE_OFF,
        "source_commits": cl.HOOK_COMMITS,
        "add_only": True,
    },
    "engines": cl.ENGINES,
    "checks": checks,
    "notes": cl.NOTES,
    "not_applicable": na,
}
json.dump(m, open("/verif/MANIFEST.json", "w"), indent=1)
print(len(checks), "checks;", len(na), "not claimed")
