#!/bin/bash
# usage: tools/seedverify.sh <id> <worktree> <pkg> <run-regex>
# Confirms an independently seeded change: extracts the patch (non-test files), copies the demonstration test, runs the demo with the
# change (must fail) and without it (must pass), restores the worktree. Results go to /verif/seeded/<id>/.
set -u
id=$1; W=$2; pkg=$3; re=$4
. /verif/env.sh
D=/verif/seeded/$id; mkdir -p $D
cd $W
git diff > $D/patch.diff
demo=$(git status --short | grep '^??' | awk '{print $2}' | grep _test.go | head -5)
for f in $demo; do mkdir -p $D/demo/$(dirname $f); cp $f $D/demo/$f; done
echo "patch: $(wc -l < $D/patch.diff) lines; demo files: $demo"
go test -count=1 $pkg -run "$re" > $D/demo_with_change.log 2>&1; rc1=$?
git apply -R $D/patch.diff
go test -count=1 $pkg -run "$re" > $D/demo_without_change.log 2>&1; rc2=$?
git apply $D/patch.diff
echo "demo with change: exit=$rc1 (want !=0); without change: exit=$rc2 (want 0)"
tail -3 $D/demo_with_change.log | cut -c1-200; tail -2 $D/demo_without_change.log | cut -c1-200
