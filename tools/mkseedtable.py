#!/usr/bin/env python3
# regenerates the table of independently seeded changes in DESIGN.md (between the SEEDED markers) from seeded/*/meta.json
import json, glob, os, re
V = os.path.dirname(os.path.dirname(os.path.abspath(__file__)))
rows = ["| id | change (needs) | caught by |", "|---|---|---|"]
n = 0
for f in sorted(glob.glob(V + "/seeded/*/meta.json")):
    m = json.load(open(f)); sid = os.path.basename(os.path.dirname(f)); n += 1
    esc = lambda s: s.replace("|", "\\|").replace("\n", " ")
    checks = "; ".join(f"**{k}** {esc(v)}" for k, v in m["checks"].items())
    rows.append(f"| {sid} | {esc(m['change'])} (*needs:* {esc(m['needs'])}) | {checks} |")
txt = open(V + "/DESIGN.md").read()
new = "<!-- SEEDED:BEGIN -->\n" + "\n".join(rows) + "\n<!-- SEEDED:END -->"
if "<!-- SEEDED:BEGIN -->" in txt:
    txt = re.sub(r"<!-- SEEDED:BEGIN -->.*?<!-- SEEDED:END -->", lambda _: new, txt, flags=re.S)
else:
    raise SystemExit("markers missing")
open(V + "/DESIGN.md", "w").write(txt)
print(n, "seeded changes")
