#!/usr/bin/env python3
"""Build the hand-written mutation catalogue as patch files: each entry = (id, file, old, new[, count]).
Usage: tools/mkmut.py  (writes mutants/<id>.diff from /repo HEAD using a scratch worktree under /tmp)"""
import subprocess, sys, os, importlib.util
spec = importlib.util.spec_from_file_location("cat", "/verif/tools/mutcat.py"); cat = importlib.util.module_from_spec(spec); spec.loader.exec_module(cat)
only = set(sys.argv[1:])
W = "/tmp/mkmut"
subprocess.run(["git", "-C", "/repo", "worktree", "remove", "--force", W], capture_output=True)
subprocess.check_call(["git", "-C", "/repo", "worktree", "add", "--detach", W, "HEAD"], stdout=subprocess.DEVNULL, stderr=subprocess.DEVNULL)
try:
    for m in cat.MUTANTS:
        mid, edits = m[0], m[1:]
        if only and mid not in only: continue
        subprocess.check_call(["git", "-C", W, "checkout", "-q", "--", "."])
        ok = True
        for (f, old, new) in edits:
            p = os.path.join(W, f); s = open(p).read()
            if s.count(old) != 1:
                print(f"{mid}: pattern occurs {s.count(old)}x in {f}"); ok = False; break
            open(p, "w").write(s.replace(old, new))
        if not ok: continue
        d = subprocess.run(["git", "-C", W, "diff"], capture_output=True, text=True).stdout
        open(f"/verif/mutants/{mid}.diff", "w").write(d)
        print(mid, "ok", len(d.splitlines()), "lines")
finally:
    subprocess.run(["git", "-C", "/repo", "worktree", "remove", "--force", W], capture_output=True)
