#!/bin/bash
# usage: tools/mutbatch.sh <parallelism> "<mut> <PROP>..." ...   runs mutrun for each spec, in parallel
par=$1; shift
printf '%s\n' "$@" | xargs -P "$par" -I{} bash -c 'set -- {}; m=$1; shift; /verif/tools/mutrun.sh /verif/mutants/$m.diff "$@" 2>&1 | grep "^MUT"'
