#!/bin/bash
# usage: tools/mutregress.sh <parallelism> [<name-regex>]  — every mutants/*.diff and seeded/*/patch.diff against the check of its own property (quick, seed 1)
par=${1:-4}; re=${2:-.}
{
 for f in /verif/mutants/*.diff; do n=$(basename $f .diff); echo "$f ${n%%-*}"; done
 for f in /verif/seeded/*/patch.diff; do n=$(basename $(dirname $f)); mkdir -p /tmp/seedp; cp $f /tmp/seedp/S$n.diff; echo "/tmp/seedp/S$n.diff ${n%%-*}"; done
} | grep -E "$re" | xargs -P "$par" -L1 bash -c '/verif/tools/mutrun.sh "$0" "$1" 2>&1 | grep "^MUT"'
