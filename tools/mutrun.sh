#!/bin/bash
# usage: tools/mutrun.sh <patch.diff> <PROP> [<PROP>...]   — apply a patch to a scratch worktree of /repo and run checks against it
# prints one line per property: <patch> <PROP> exit=<rc> <first VIOLATION/KNOWN/BROKEN line>
set -u
patch=$(readlink -f "$1"); shift
name=$(basename "$patch" .diff)
W=/tmp/mw.$name.$$
git -C /repo worktree add --detach "$W" HEAD >/dev/null 2>&1 || { echo "$name: cannot create worktree"; exit 2; }
trap 'git -C /repo worktree remove --force "$W" >/dev/null 2>&1; rm -rf "$W" /tmp/mev.$name.$$' EXIT
git -C "$W" apply "$patch" || { echo "$name: patch does not apply"; exit 2; }
export VERIF_EVIDENCE_DIR=/tmp/mev.$name.$$; mkdir -p $VERIF_EVIDENCE_DIR
for P in "$@"; do
  tier=${MUT_TIER:-quick}
  out=$(VERIF_REPO="$W" /verif/run.sh "$P" "$tier" 2>&1); rc=$?
  line=$(echo "$out" | grep -E "^VIOLATION" | head -1)
  [ -z "$line" ] && line=$(echo "$out" | grep -E "^(BROKEN-CHECK|KNOWN-FINDING)" | head -1)
  what=$(echo "$out" | grep -E "^  what:" | head -1 | cut -c1-200)
  echo "MUT $name $P exit=$rc $line $what"
done
