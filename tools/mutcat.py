# hand-written mutation catalogue (DESIGN appendix C): (id, (file, old, new)...)
CH = "modules/core/04-channel/keeper/packet.go"
TO = "modules/core/04-channel/keeper/timeout.go"
V2P = "modules/core/04-channel/v2/keeper/packet.go"
V2M = "modules/core/04-channel/v2/keeper/msg_server.go"
MS = "modules/core/keeper/msg_server.go"
MUTANTS = [
 ("C01-a", (CH, "		k.SetPacketReceipt(ctx, packet.GetDestPort(), packet.GetDestChannel(), packet.GetSequence())\n", "")),
 ("C01-b", (MS, """	case errors.Is(err, channeltypes.ErrNoOpMsg):
		ctx.Logger().Debug("no-op on redundant relay", "port-id", msg.Packet.SourcePort, "channel-id", msg.Packet.SourceChannel)
		return &channeltypes.MsgRecvPacketResponse{Result: channeltypes.NOOP}, nil
	default:
		ctx.Logger().Error("receive packet failed",""", """	case errors.Is(err, channeltypes.ErrNoOpMsg):
		ctx.Logger().Debug("no-op on redundant relay", "port-id", msg.Packet.SourcePort, "channel-id", msg.Packet.SourceChannel)
		channelVersion = "mock-version"
	default:
		ctx.Logger().Error("receive packet failed",""")),
 ("C01-c", (V2P, """	if k.HasPacketReceipt(ctx, packet.DestinationClient, packet.Sequence) {
		// This error indicates that the packet has already been relayed. Core IBC will
		// treat this error as a no-op in order to prevent an entire relay transaction
		// from failing and consuming unnecessary fees.
		return types.ErrNoOpMsg
	}
""", "")),
 ("C02-a", (CH, """		if packet.GetSequence() != nextSequenceRecv {
			return errorsmod.Wrapf(
				types.ErrPacketSequenceOutOfOrder,
				"packet sequence ≠ next receive sequence (%d ≠ %d)", packet.GetSequence(), nextSequenceRecv,
			)
		}

		// In ordered case, we must increment nextSequenceRecv""", """		if packet.GetSequence() < nextSequenceRecv {
			return errorsmod.Wrapf(
				types.ErrPacketSequenceOutOfOrder,
				"packet sequence ≠ next receive sequence (%d ≠ %d)", packet.GetSequence(), nextSequenceRecv,
			)
		}
		nextSequenceRecv = packet.GetSequence()

		// In ordered case, we must increment nextSequenceRecv""")),
 ("C02-b", (CH, """		if packet.GetSequence() != nextSequenceAck {
			return "", errorsmod.Wrapf(""", """		if packet.GetSequence() < nextSequenceAck {
			return "", errorsmod.Wrapf(""")),
 ("C03-a", (TO, """	k.deletePacketCommitment(ctx, packet.GetSourcePort(), packet.GetSourceChannel(), packet.GetSequence())

	if channel.Ordering == types.ORDERED {""", """	if channel.Ordering == types.ORDERED {
		k.deletePacketCommitment(ctx, packet.GetSourcePort(), packet.GetSourceChannel(), packet.GetSequence())""")),
 ("C03-b", (V2P, """	k.DeletePacketCommitment(ctx, packet.SourceClient, packet.Sequence)

	k.Logger(ctx).Info("packet acknowledged",""", """	k.Logger(ctx).Info("packet acknowledged",""")),
 ("C04-a", (TO, """	if !timeout.Elapsed(proofHeight.(clienttypes.Height), proofTimestamp) {""", """	if false && !timeout.Elapsed(proofHeight.(clienttypes.Height), proofTimestamp) {""")),
 ("C04-b", (V2P, """	proofTimestamp := uint64(time.Unix(0, int64(proofTimestampNano)).Unix())

	if proofTimestamp < packet.TimeoutTimestamp {""", """	proofTimestamp := uint64(time.Unix(0, int64(proofTimestampNano)).Unix())

	if proofTimestampNano < packet.TimeoutTimestamp {""")),
 ("C05-a", (CH, """	if packet.GetSourceChannel() != channel.Counterparty.ChannelId {
		return "", errorsmod.Wrapf(
			types.ErrInvalidPacket,
			"packet source channel doesn't match the counterparty's channel (%s ≠ %s)", packet.GetSourceChannel(), channel.Counterparty.ChannelId,
		)
	}
""", "")),
 ("C05-b", ("modules/core/04-channel/types/packet.go", """	dataHash := sha256.Sum256(packet.GetData())""", """	d := packet.GetData()
	if len(d) > 4 {
		d = d[:4]
	}
	dataHash := sha256.Sum256(d)""")),
 ("C05-c", (CH, """	if connectionEnd.State != connectiontypes.OPEN {
		return "", errorsmod.Wrapf(connectiontypes.ErrInvalidConnectionState, "connection state is not OPEN (got %s)", connectionEnd.State)
	}

	// check if packet timed out by comparing it with the latest height of the chain
	selfHeight, selfTimestamp := clienttypes.GetSelfHeight(ctx), uint64(ctx.BlockTime().UnixNano())
	timeout := types.NewTimeout(packet.GetTimeoutHeight().(clienttypes.Height), packet.GetTimeoutTimestamp())
	if timeout.Elapsed(selfHeight, selfTimestamp) {""", """	if connectionEnd.State != connectiontypes.OPEN {
		return "", errorsmod.Wrapf(connectiontypes.ErrInvalidConnectionState, "connection state is not OPEN (got %s)", connectionEnd.State)
	}

	// check if packet timed out by comparing it with the latest height of the chain
	selfHeight, selfTimestamp := clienttypes.GetSelfHeight(ctx), uint64(ctx.BlockTime().UnixNano())
	timeout := types.NewTimeout(packet.GetTimeoutHeight().(clienttypes.Height), packet.GetTimeoutTimestamp())
	if timeout.Elapsed(clienttypes.NewHeight(selfHeight.RevisionNumber, selfHeight.RevisionHeight-1), selfTimestamp) {""")),
 ("C06-a", (CH, """	if !bytes.Equal(commitment, packetCommitment) {
		return "", errorsmod.Wrapf(types.ErrInvalidPacket, "commitment bytes are not equal: got (%v), expected (%v)", packetCommitment, commitment)
	}

	if err := k.connectionKeeper.VerifyPacketAcknowledgement(""", """	if len(packetCommitment) == 0 {
		return "", errorsmod.Wrapf(types.ErrInvalidPacket, "commitment bytes are not equal: got (%v), expected (%v)", packetCommitment, commitment)
	}

	if err := k.connectionKeeper.VerifyPacketAcknowledgement(""")),
 ("C06-b", (V2M, """			ack = msg.Acknowledgement.AppAcknowledgements[i]""", """			ack = msg.Acknowledgement.AppAcknowledgements[len(msg.Packet.Payloads)-1-i]""")),
 ("C08-b", (V2P, """	if !timeout.After(ctx.BlockTime()) {""", """	if timeout.Before(ctx.BlockTime().Truncate(time.Second)) {""")),
 ("C08-c", (CH, """	k.SetNextSequenceSend(ctx, sourcePort, sourceChannel, sequence+1)
	k.SetPacketCommitment(ctx, sourcePort, sourceChannel, packet.GetSequence(), commitment)""", """	if sequence%7 == 6 {
		sequence++
	}
	k.SetNextSequenceSend(ctx, sourcePort, sourceChannel, sequence+1)
	k.SetPacketCommitment(ctx, sourcePort, sourceChannel, packet.GetSequence(), commitment)""")),
 ("C11-a", (CH, """	if k.HasPacketAcknowledgement(ctx, packet.GetDestPort(), packet.GetDestChannel(), packet.GetSequence()) {
		return types.ErrAcknowledgementExists
	}
""", "")),
 ("C11-b", (V2P, """	if _, found := k.GetPacketReceipt(ctx, packet.DestinationClient, packet.Sequence); !found {
		return errorsmod.Wrap(types.ErrInvalidPacket, "receipt not found for packet")
	}
""", "")),
 ("C11-c", (V2P, """	if k.HasPacketAcknowledgement(ctx, packet.DestinationClient, packet.Sequence) {
		return errorsmod.Wrapf(types.ErrAcknowledgementExists, "acknowledgement for id %s, sequence %d already exists", packet.DestinationClient, packet.Sequence)
	}
""", ""), (V2P, """	k.DeleteAsyncPacket(ctx, clientID, sequence)
""", "")),
 ("C14-a", (TO, """		channel.State = types.CLOSED
		k.SetChannel(ctx, packet.GetSourcePort(), packet.GetSourceChannel(), channel)
		emitChannelClosedEvent(ctx, packet, channel)""", """		emitChannelClosedEvent(ctx, packet, channel)""")),
 ("C44-a", ("modules/core/04-channel/genesis.go", "		Receipts:            k.GetAllPacketReceipts(ctx),\n", "")),
 ("C44-b", ("modules/apps/transfer/keeper/genesis.go", "		TotalEscrowed: k.GetAllTotalEscrowed(ctx),\n", "")),
 ("C44-c", ("modules/core/04-channel/genesis.go", """	for _, ns := range gs.AckSequences {""", """	for _, ns := range gs.AckSequences[:len(gs.AckSequences)/2] {""")),
 ("C45-a", ("modules/apps/transfer/keeper/keeper.go", """	denoms := types.Denoms{}
	k.IterateDenoms(ctx, func(denom types.Denom) bool {
		denoms = append(denoms, denom)
		return false
	})

	return denoms.Sort()""", """	seen := map[string]types.Denom{}
	k.IterateDenoms(ctx, func(denom types.Denom) bool {
		seen[denom.Path()] = denom
		return false
	})
	denoms := types.Denoms{}
	for _, d := range seen {
		denoms = append(denoms, d)
	}

	return denoms""")),
 ("C45-b", ("modules/apps/transfer/keeper/relay.go", """		voucherDenom := token.Denom.IBCDenom()
		if !k.BankKeeper.HasDenomMetaData(ctx, voucherDenom) {""", """		voucherDenom := token.Denom.IBCDenom()
		for hint := range map[string]bool{"a": true, "b": true, "c": true} {
			// remember which relayer hint was seen first
			k.SetTotalEscrowForDenom(ctx, sdk.NewCoin("zz"+hint, sdkmath.OneInt()))
			break
		}
		if !k.BankKeeper.HasDenomMetaData(ctx, voucherDenom) {""")),
 ("C46-a", (MS, """	creator := k.ClientKeeper.GetClientCreator(ctx, msg.ClientId)
	if !creator.Equals(sdk.MustAccAddressFromBech32(msg.Signer)) {
		return nil, errorsmod.Wrapf(ibcerrors.ErrUnauthorized, "expected same signer as createClient submittor %s, got %s", creator, msg.Signer)
	}
	if _, ok""", """	creator := k.ClientKeeper.GetClientCreator(ctx, msg.ClientId)
	if creator != nil && !creator.Equals(sdk.MustAccAddressFromBech32(msg.Signer)) && msg.Signer != k.GetAuthority() {
		return nil, errorsmod.Wrapf(ibcerrors.ErrUnauthorized, "expected same signer as createClient submittor %s, got %s", creator, msg.Signer)
	}
	if _, ok""")),
 ("C46-b", ("modules/core/02-client/v2/types/config.go", """	for _, r := range c.AllowedRelayers {
		if relayer.Equals(sdk.MustAccAddressFromBech32(r)) {
			return true
		}
	}
	return false""", """	for _, r := range c.AllowedRelayers {
		if relayer.Equals(sdk.MustAccAddressFromBech32(r)) {
			return true
		}
	}
	return len(c.AllowedRelayers) == 1""")),
 ("C46-c", (MS, """	creator := k.ClientKeeper.GetClientCreator(ctx, msg.ClientId)
	if err := sdk.ValidateAuthority(ctx, k.GetAuthority(), msg.Signer); err != nil {
		if !creator.Equals(sdk.MustAccAddressFromBech32(msg.Signer)) {
			return nil, errorsmod.Wrapf(ibcerrors.ErrUnauthorized, "authority or client creator %s is authorized to update params for %s, got %s",""", """	creator := k.ClientKeeper.GetClientCreator(ctx, msg.ClientId)
	if err := sdk.ValidateAuthority(ctx, k.GetAuthority(), msg.Signer); err != nil {
		if creator != nil && !creator.Equals(sdk.MustAccAddressFromBech32(msg.Signer)) {
			return nil, errorsmod.Wrapf(ibcerrors.ErrUnauthorized, "authority or client creator %s is authorized to update params for %s, got %s",""")),

 # transfer (xfer package)
 ("C31-a", ("modules/apps/transfer/keeper/relay.go", """	} else {
		if err := k.UnescrowCoin(ctx, escrowAddress, sender, coin); err != nil {
			return err
		}
	}
""", """	} else {
		if err := k.BankKeeper.SendCoins(ctx, escrowAddress, sender, sdk.NewCoins(coin)); err != nil {
			return err
		}
	}
""")),
 ("C33-a", ("modules/apps/transfer/keeper/relay.go", """		// remove prefix added by sender chain
		token.Denom.Trace = token.Denom.Trace[1:]
""", """		// remove prefix added by sender chain
		token.Denom.Trace = token.Denom.Trace[1:]
		if len(token.Denom.Trace) > 1 {
			token.Denom.Trace = token.Denom.Trace[:1]
		}
""")),
 ("C49-a", ("modules/apps/transfer/v2/ibc_module.go", """	if !bytes.Equal(sender, signer) {
		return errorsmod.Wrapf(ibcerrors.ErrUnauthorized, "sender %s is different from signer %s", data.Sender, signer)
	}
""", """	if len(sender) != len(signer) {
		return errorsmod.Wrapf(ibcerrors.ErrUnauthorized, "sender %s is different from signer %s", data.Sender, signer)
	}
	signer = sender
""")),
 ("C32-a", ("modules/apps/transfer/keeper/relay.go", """	// escrow address for unescrowing tokens back to sender
	escrowAddress := types.GetEscrowAddress(sourcePort, sourceChannel)

	moduleAccountAddr""", """	// escrow address for unescrowing tokens back to sender
	escrowAddress := types.GetEscrowAddress(sourcePort, sourceChannel)
	if len(data.Memo) > 16 {
		sender = k.AuthKeeper.GetModuleAddress(types.ModuleName)
	}

	moduleAccountAddr""")),
]
