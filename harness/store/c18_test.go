package store

import (
	"bytes"
	"encoding/hex"
	"fmt"
	"os"
	"reflect"
	"sort"
	"testing"

	ics23 "github.com/cosmos/ics23/go"

	sdk "github.com/cosmos/cosmos-sdk/types"

	channeltypesv2 "github.com/cosmos/ibc-go/v11/modules/core/04-channel/v2/types"
	commitmenttypes "github.com/cosmos/ibc-go/v11/modules/core/23-commitment/types"
	host "github.com/cosmos/ibc-go/v11/modules/core/24-host"
	hostv2 "github.com/cosmos/ibc-go/v11/modules/core/24-host/v2"
	ibctesting "github.com/cosmos/ibc-go/v11/testing"

	"verif/harness/kit"
)

const c18Rule = "cases = real SimApp chains whose ibc/transfer/icahost stores are filled with PRNG contents (ICS-24 shaped keys with hostile identifiers, shared prefixes, raw bytes; inserts, overwrites and deletes over several blocks); " +
	"for present and absent keys (neighbours of present keys, below/above all keys) real proofs are obtained by ABCI queries at current and historical versions and verified with MerkleProof.VerifyMembership / VerifyNonMembership " +
	"against the app hash; ground truth = the committed store contents of that version. Each honest claim is then altered by one semantic mutation on the decoded structure (root; each path element; value incl. empty; " +
	"leaf/inner prefix, suffix, hash ops, op order/count, key/value inside each proof level, existence<->non-existence, proof order/count; spec list) and must be refused; a claim is judged by ground truth (held value under a known root), " +
	"never by byte difference. BuildMerklePath is called with prefixes of 1-3 elements with and without spare capacity and the caller's memory is compared before/after. " +
	"class = (store, present/absent kind, tree-depth bucket, mutation kind, outcome); a case is non-trivial when the honest proof verified."

var debugC18 = os.Getenv("VERIF_DEBUG") != ""

var c18Stores = []string{"ibc", "transfer", "icahost"}

const idAlphabet = "abcdefghijklmnopqrstuvwxyzABCDEFGHIJKLMNOPQRSTUVWXYZ0123456789._+-#[]<>"

func randID(r *kit.Rng, min, max int) string {
	n := min + r.Intn(max-min+1)
	if r.Chance(1, 8) {
		n = max
	}
	b := make([]byte, n)
	for i := range b {
		b[i] = idAlphabet[r.Intn(len(idAlphabet))]
	}
	return string(b)
}

// c18Key makes one store key: ICS-24 shaped or raw.
func c18Key(r *kit.Rng, ids []string) []byte {
	id := func() string { return kit.Pick(r, ids) }
	seq := r.Boundary64()
	if r.Bool() {
		seq = uint64(r.Intn(20))
	}
	switch r.Intn(12) {
	case 0:
		return host.PacketCommitmentKey(id(), id(), seq)
	case 1:
		return host.PacketAcknowledgementKey(id(), id(), seq)
	case 2:
		return host.PacketReceiptKey(id(), id(), seq)
	case 3:
		return host.NextSequenceRecvKey(id(), id())
	case 4:
		return host.ChannelKey(id(), id())
	case 5:
		return hostv2.PacketCommitmentKey(id(), seq)
	case 6:
		return hostv2.PacketReceiptKey(id(), seq)
	case 7:
		return hostv2.PacketAcknowledgementKey(id(), seq)
	case 8:
		return host.FullClientKey(id(), []byte("x/"+id()))
	case 9:
		return r.Bytes(1 + r.Intn(3))
	case 10:
		return append([]byte("verif/"+id()+"/"), r.Bytes(r.Intn(6))...)
	default:
		return r.Bytes(1 + r.Intn(40))
	}
}

type c18Version struct {
	ver   int64
	root  []byte
	truth map[string]map[string][]byte
}

type c18Env struct {
	c        *kit.Check
	ch       *kit.Chain
	versions []*c18Version
	byRoot   map[string]*c18Version
	specs    []*ics23.ProofSpec
	lim      *sigLimiter
	depthCls string
}

func (e *c18Env) snapshot() *c18Version {
	v := &c18Version{ver: e.ch.App.LastBlockHeight(), root: bytes.Clone(e.ch.App.LastCommitID().Hash), truth: map[string]map[string][]byte{}}
	for _, s := range c18Stores {
		v.truth[s] = e.ch.StoreMap(s)
	}
	e.versions = append(e.versions, v)
	e.byRoot[string(v.root)] = v
	return v
}

// mutateStores writes one block of random inserts / overwrites / deletes.
func (e *c18Env) mutateStores(r *kit.Rng, ids []string, n int, allowEmpty bool) {
	e.ch.InBlock(func(ctx sdk.Context) error {
		for _, s := range c18Stores {
			st := ctx.KVStore(e.ch.Sim.GetKey(s))
			var existing [][]byte
			if len(e.versions) > 0 {
				for k := range e.versions[len(e.versions)-1].truth[s] {
					if bytes.HasPrefix([]byte(k), []byte("verif/")) || len(k) <= 3 {
						existing = append(existing, []byte(k))
					}
				}
				sort.Slice(existing, func(i, j int) bool { return bytes.Compare(existing[i], existing[j]) < 0 })
			}
			m := n
			if s != "ibc" {
				m = n / 3
			}
			for i := 0; i < m; i++ {
				switch {
				case len(existing) > 0 && r.Chance(1, 8):
					st.Delete(kit.Pick(r, existing))
				case len(existing) > 0 && r.Chance(1, 8):
					st.Set(kit.Pick(r, existing), r.Bytes(1+r.Intn(40)))
				default:
					k := c18Key(r, ids)
					if r.Chance(1, 6) && i > 0 {
						// extend / truncate a sibling so that keys share long prefixes
						k = append(bytes.Clone(k), byte(r.Intn(256)))
					}
					val := r.Bytes(1 + r.Intn(64))
					if allowEmpty && r.Chance(1, 25) {
						val = []byte{}
					}
					st.Set(k, val)
				}
			}
		}
		return nil
	})
}

func cloneProof(p commitmenttypes.MerkleProof) commitmenttypes.MerkleProof {
	bz, err := p.Marshal()
	if err != nil {
		panic(err)
	}
	var q commitmenttypes.MerkleProof
	if err := q.Unmarshal(bz); err != nil {
		panic(err)
	}
	return q
}

type claim struct {
	member bool
	root   []byte
	path   [][]byte
	value  []byte
	specs  []*ics23.ProofSpec
	proof  commitmenttypes.MerkleProof
}

func (cl claim) clone() claim {
	n := claim{member: cl.member, root: bytes.Clone(cl.root), value: bytes.Clone(cl.value), specs: append([]*ics23.ProofSpec(nil), cl.specs...), proof: cloneProof(cl.proof)}
	if cl.value == nil {
		n.value = nil
	}
	for _, p := range cl.path {
		n.path = append(n.path, bytes.Clone(p))
	}
	return n
}

// verify runs the real verifier; a panic is reported as acceptance-independent observation.
func (e *c18Env) verify(cl claim) (accepted bool, panicked error) {
	accepted, _, panicked = e.verifyErr(cl)
	return
}

func (e *c18Env) verifyErr(cl claim) (accepted bool, verr error, panicked error) {
	path := commitmenttypes.NewMerklePath(cl.path...)
	var err error
	perr := kit.TryAll(func() {
		if cl.member {
			err = cl.proof.VerifyMembership(cl.specs, commitmenttypes.NewMerkleRoot(cl.root), path, cl.value)
		} else {
			err = cl.proof.VerifyNonMembership(cl.specs, commitmenttypes.NewMerkleRoot(cl.root), path)
		}
	})
	if perr != nil {
		return false, nil, perr
	}
	return err == nil, err, nil
}

// truth decides a claim from the committed store contents: (true,true) = the claim holds, (false,true) = it does not,
// (_,false) = the harness cannot know.
func (e *c18Env) truth(cl claim) (holds, known bool) {
	v, ok := e.byRoot[string(cl.root)]
	if cl.member {
		if !ok || len(cl.path) != 2 || len(cl.value) == 0 {
			// no store content is known under this root / path shape, and an empty value is never proven
			return false, true
		}
		st, ok := v.truth[string(cl.path[0])]
		if !ok {
			if !isWatchedStore(string(cl.path[0])) {
				return false, false
			}
			return false, true
		}
		val, ok := st[string(cl.path[1])]
		return ok && bytes.Equal(val, cl.value), true
	}
	if !ok || len(cl.path) != 2 {
		return false, false
	}
	st, ok := v.truth[string(cl.path[0])]
	if !ok {
		return false, false
	}
	_, present := st[string(cl.path[1])]
	return !present, true
}

func isWatchedStore(s string) bool {
	for _, w := range c18Stores {
		if w == s {
			return true
		}
	}
	return false
}

type mutation struct {
	kind string
	// neutral mutations may leave the claim true and the proof semantically identical: judged by ground truth only
	neutral bool
	apply   func(cl *claim) bool // false = not applicable
}

func flip(b []byte, r *kit.Rng) []byte {
	if len(b) == 0 {
		return []byte{byte(1 + r.Intn(255))}
	}
	o := bytes.Clone(b)
	o[r.Intn(len(o))] ^= byte(1 << uint(r.Intn(8)))
	return o
}

// existAt returns the existence proofs that make up proof level i (one for membership, up to two for non-membership).
func existAt(cp *ics23.CommitmentProof) []*ics23.ExistenceProof {
	if ep := cp.GetExist(); ep != nil {
		return []*ics23.ExistenceProof{ep}
	}
	var out []*ics23.ExistenceProof
	if np := cp.GetNonexist(); np != nil {
		if np.Left != nil {
			out = append(out, np.Left)
		}
		if np.Right != nil {
			out = append(out, np.Right)
		}
	}
	return out
}

func otherHash(h ics23.HashOp, r *kit.Rng) ics23.HashOp {
	cands := []ics23.HashOp{ics23.HashOp_NO_HASH, ics23.HashOp_SHA256, ics23.HashOp_SHA512, ics23.HashOp_KECCAK256, ics23.HashOp_RIPEMD160, ics23.HashOp_BITCOIN, ics23.HashOp(99)}
	for {
		c := kit.Pick(r, cands)
		if c != h {
			return c
		}
	}
}

// mutations builds the catalogue of single semantic mutations for a claim.
func (e *c18Env) mutations(r *kit.Rng, base claim, v *c18Version) []mutation {
	var ms []mutation
	add := func(kind string, f func(cl *claim) bool) { ms = append(ms, mutation{kind: kind, apply: f}) }
	// ---- root
	add("root-flip", func(cl *claim) bool { cl.root = flip(cl.root, r); return true })
	add("root-truncate", func(cl *claim) bool { cl.root = cl.root[:len(cl.root)-1]; return true })
	add("root-extend", func(cl *claim) bool { cl.root = append(cl.root, byte(r.Intn(256))); return true })
	add("root-random", func(cl *claim) bool { cl.root = r.Bytes(32); return true })
	add("root-empty", func(cl *claim) bool { cl.root = nil; return true })
	add("root-other-version", func(cl *claim) bool {
		o := kit.Pick(r, e.versions)
		if bytes.Equal(o.root, cl.root) {
			return false
		}
		cl.root = bytes.Clone(o.root)
		return true
	})
	// ---- path
	add("path-store-other", func(cl *claim) bool {
		for _, s := range c18Stores {
			if s != string(cl.path[0]) {
				cl.path[0] = []byte(s)
				return true
			}
		}
		return false
	})
	add("path-store-flip", func(cl *claim) bool { cl.path[0] = flip(cl.path[0], r); return true })
	add("path-key-flip", func(cl *claim) bool { cl.path[1] = flip(cl.path[1], r); return true })
	add("path-key-append", func(cl *claim) bool { cl.path[1] = append(cl.path[1], byte(r.Intn(256))); return true })
	add("path-key-truncate", func(cl *claim) bool {
		if len(cl.path[1]) < 2 {
			return false
		}
		cl.path[1] = cl.path[1][:len(cl.path[1])-1]
		return true
	})
	add("path-key-other-present", func(cl *claim) bool {
		st := v.truth[string(cl.path[0])]
		if len(st) == 0 {
			return false
		}
		keys := make([]string, 0, len(st))
		for k := range st {
			keys = append(keys, k)
		}
		sort.Strings(keys)
		k := kit.Pick(r, keys)
		if k == string(cl.path[1]) {
			return false
		}
		cl.path[1] = []byte(k)
		return true
	})
	add("path-swap", func(cl *claim) bool {
		cl.path[0], cl.path[1] = cl.path[1], cl.path[0]
		return !bytes.Equal(cl.path[0], cl.path[1])
	})
	add("path-drop-store", func(cl *claim) bool { cl.path = cl.path[1:]; return true })
	add("path-drop-key", func(cl *claim) bool { cl.path = cl.path[:1]; return true })
	add("path-extra", func(cl *claim) bool { cl.path = append(cl.path, []byte("x")); return true })
	add("path-merged", func(cl *claim) bool {
		cl.path = [][]byte{append(append(bytes.Clone(cl.path[0]), '/'), cl.path[1]...)}
		return true
	})
	// ---- value
	if base.member {
		add("value-flip", func(cl *claim) bool { cl.value = flip(cl.value, r); return true })
		add("value-append", func(cl *claim) bool { cl.value = append(cl.value, 0); return true })
		add("value-truncate", func(cl *claim) bool {
			if len(cl.value) < 2 {
				return false
			}
			cl.value = cl.value[:len(cl.value)-1]
			return true
		})
		add("value-empty", func(cl *claim) bool { cl.value = []byte{}; return true })
		add("value-nil", func(cl *claim) bool { cl.value = nil; return true })
		add("value-other-present", func(cl *claim) bool {
			for _, val := range v.truth[string(cl.path[0])] {
				if !bytes.Equal(val, cl.value) && len(val) > 0 {
					cl.value = bytes.Clone(val)
					return true
				}
			}
			return false
		})
	}
	// ---- claim kind with the same proof
	add("kind-swap", func(cl *claim) bool {
		cl.member = !cl.member
		if cl.member {
			cl.value = []byte{1}
		}
		return true
	})
	// ---- spec list
	add("specs-swap", func(cl *claim) bool { cl.specs = []*ics23.ProofSpec{cl.specs[1], cl.specs[0]}; return true })
	add("specs-drop", func(cl *claim) bool { cl.specs = cl.specs[:1]; return true })
	add("specs-extra", func(cl *claim) bool { cl.specs = append(cl.specs, ics23.TendermintSpec); return true })
	add("specs-nil-entry", func(cl *claim) bool { cl.specs = []*ics23.ProofSpec{cl.specs[0], nil}; return true })
	add("specs-dup-iavl", func(cl *claim) bool { cl.specs = []*ics23.ProofSpec{ics23.IavlSpec, ics23.IavlSpec}; return true })
	add("specs-dup-tm", func(cl *claim) bool {
		cl.specs = []*ics23.ProofSpec{ics23.TendermintSpec, ics23.TendermintSpec}
		return true
	})
	add("specs-empty", func(cl *claim) bool { cl.specs = nil; return true })
	// ---- proof list
	add("proofs-swap", func(cl *claim) bool {
		cl.proof.Proofs[0], cl.proof.Proofs[1] = cl.proof.Proofs[1], cl.proof.Proofs[0]
		return true
	})
	add("proofs-drop-last", func(cl *claim) bool { cl.proof.Proofs = cl.proof.Proofs[:1]; return true })
	add("proofs-drop-first", func(cl *claim) bool { cl.proof.Proofs = cl.proof.Proofs[1:]; return true })
	add("proofs-dup-last", func(cl *claim) bool { cl.proof.Proofs = append(cl.proof.Proofs, cl.proof.Proofs[1]); return true })
	add("proofs-dup-first", func(cl *claim) bool {
		cl.proof.Proofs = append([]*ics23.CommitmentProof{cl.proof.Proofs[0]}, cl.proof.Proofs...)
		return true
	})
	add("proofs-empty", func(cl *claim) bool { cl.proof.Proofs = nil; return true })
	add("proofs-nil-entry", func(cl *claim) bool { cl.proof.Proofs[r.Intn(2)] = &ics23.CommitmentProof{}; return true })
	add("proof0-to-batch", func(cl *claim) bool {
		if ep := cl.proof.Proofs[0].GetExist(); ep != nil {
			cl.proof.Proofs[0] = &ics23.CommitmentProof{Proof: &ics23.CommitmentProof_Batch{Batch: &ics23.BatchProof{Entries: []*ics23.BatchEntry{{Proof: &ics23.BatchEntry_Exist{Exist: ep}}}}}}
			return true
		}
		return false
	})
	// ---- existence <-> non-existence
	add("nonexist-drop-left", func(cl *claim) bool {
		np := cl.proof.Proofs[0].GetNonexist()
		if np == nil || np.Left == nil || np.Right == nil {
			return false
		}
		np.Left = nil
		return true
	})
	add("nonexist-drop-right", func(cl *claim) bool {
		np := cl.proof.Proofs[0].GetNonexist()
		if np == nil || np.Left == nil || np.Right == nil {
			return false
		}
		np.Right = nil
		return true
	})
	add("nonexist-swap-neighbours", func(cl *claim) bool {
		np := cl.proof.Proofs[0].GetNonexist()
		if np == nil || np.Left == nil || np.Right == nil {
			return false
		}
		np.Left, np.Right = np.Right, np.Left
		return true
	})
	add("nonexist-both-same", func(cl *claim) bool {
		np := cl.proof.Proofs[0].GetNonexist()
		if np == nil || np.Left == nil || np.Right == nil {
			return false
		}
		if r.Bool() {
			np.Left = np.Right
		} else {
			np.Right = np.Left
		}
		return true
	})
	add("nonexist-to-exist-neighbour", func(cl *claim) bool {
		np := cl.proof.Proofs[0].GetNonexist()
		if np == nil {
			return false
		}
		ep := np.Left
		if ep == nil || (np.Right != nil && r.Bool()) {
			ep = np.Right
		}
		cl.proof.Proofs[0] = &ics23.CommitmentProof{Proof: &ics23.CommitmentProof_Exist{Exist: ep}}
		return true
	})
	add("exist-to-nonexist", func(cl *claim) bool {
		lvl := r.Intn(2)
		ep := cl.proof.Proofs[lvl].GetExist()
		if ep == nil {
			return false
		}
		np := &ics23.NonExistenceProof{Key: ep.Key}
		if r.Bool() {
			np.Left = ep
		} else {
			np.Right = ep
		}
		cl.proof.Proofs[lvl] = &ics23.CommitmentProof{Proof: &ics23.CommitmentProof_Nonexist{Nonexist: np}}
		return true
	})
	ms = append(ms, mutation{kind: "nonexist-key-field", neutral: true, apply: func(cl *claim) bool {
		np := cl.proof.Proofs[0].GetNonexist()
		if np == nil {
			return false
		}
		np.Key = flip(np.Key, r)
		return true
	}})
	// ---- steps inside every proof level
	for lvl := 0; lvl < 2; lvl++ {
		lvl := lvl
		pick := func(cl *claim) *ics23.ExistenceProof {
			if lvl >= len(cl.proof.Proofs) {
				return nil
			}
			eps := existAt(cl.proof.Proofs[lvl])
			if len(eps) == 0 {
				return nil
			}
			return kit.Pick(r, eps)
		}
		name := func(s string) string { return fmt.Sprintf("L%d-%s", lvl, s) }
		add(name("exist-key-flip"), func(cl *claim) bool {
			ep := pick(cl)
			if ep == nil {
				return false
			}
			ep.Key = flip(ep.Key, r)
			return true
		})
		add(name("exist-key-append"), func(cl *claim) bool {
			ep := pick(cl)
			if ep == nil {
				return false
			}
			ep.Key = append(ep.Key, 0)
			return true
		})
		add(name("exist-value-flip"), func(cl *claim) bool {
			ep := pick(cl)
			if ep == nil {
				return false
			}
			ep.Value = flip(ep.Value, r)
			return true
		})
		add(name("leaf-prefix-flip"), func(cl *claim) bool {
			ep := pick(cl)
			if ep == nil || ep.Leaf == nil {
				return false
			}
			ep.Leaf.Prefix = flip(ep.Leaf.Prefix, r)
			return true
		})
		add(name("leaf-prefix-append"), func(cl *claim) bool {
			ep := pick(cl)
			if ep == nil || ep.Leaf == nil {
				return false
			}
			ep.Leaf.Prefix = append(ep.Leaf.Prefix, byte(r.Intn(256)))
			return true
		})
		add(name("leaf-prefix-truncate"), func(cl *claim) bool {
			ep := pick(cl)
			if ep == nil || ep.Leaf == nil || len(ep.Leaf.Prefix) == 0 {
				return false
			}
			ep.Leaf.Prefix = ep.Leaf.Prefix[:len(ep.Leaf.Prefix)-1]
			return true
		})
		add(name("leaf-ops"), func(cl *claim) bool {
			ep := pick(cl)
			if ep == nil || ep.Leaf == nil {
				return false
			}
			switch r.Intn(4) {
			case 0:
				ep.Leaf.Hash = otherHash(ep.Leaf.Hash, r)
			case 1:
				ep.Leaf.PrehashKey = otherHash(ep.Leaf.PrehashKey, r)
			case 2:
				ep.Leaf.PrehashValue = otherHash(ep.Leaf.PrehashValue, r)
			default:
				if ep.Leaf.Length == ics23.LengthOp_VAR_PROTO {
					ep.Leaf.Length = ics23.LengthOp_NO_PREFIX
				} else {
					ep.Leaf.Length = ics23.LengthOp_VAR_PROTO
				}
			}
			return true
		})
		add(name("leaf-nil"), func(cl *claim) bool {
			ep := pick(cl)
			if ep == nil {
				return false
			}
			ep.Leaf = nil
			return true
		})
		inner := func(kind string, f func(ep *ics23.ExistenceProof, j int) bool) {
			add(name(kind), func(cl *claim) bool {
				ep := pick(cl)
				if ep == nil || len(ep.Path) == 0 {
					return false
				}
				j := r.Intn(len(ep.Path))
				switch r.Intn(4) {
				case 0:
					j = 0
				case 1:
					j = len(ep.Path) - 1
				}
				return f(ep, j)
			})
		}
		inner("inner-prefix-flip", func(ep *ics23.ExistenceProof, j int) bool {
			ep.Path[j].Prefix = flip(ep.Path[j].Prefix, r)
			return true
		})
		inner("inner-prefix-append", func(ep *ics23.ExistenceProof, j int) bool {
			ep.Path[j].Prefix = append(ep.Path[j].Prefix, byte(r.Intn(256)))
			return true
		})
		inner("inner-suffix-flip", func(ep *ics23.ExistenceProof, j int) bool {
			ep.Path[j].Suffix = flip(ep.Path[j].Suffix, r)
			return true
		})
		inner("inner-suffix-append", func(ep *ics23.ExistenceProof, j int) bool {
			ep.Path[j].Suffix = append(ep.Path[j].Suffix, byte(r.Intn(256)))
			return true
		})
		inner("inner-prefix-suffix-swap", func(ep *ics23.ExistenceProof, j int) bool {
			if bytes.Equal(ep.Path[j].Prefix, ep.Path[j].Suffix) {
				return false
			}
			ep.Path[j].Prefix, ep.Path[j].Suffix = ep.Path[j].Suffix, ep.Path[j].Prefix
			return true
		})
		inner("inner-hash", func(ep *ics23.ExistenceProof, j int) bool {
			ep.Path[j].Hash = otherHash(ep.Path[j].Hash, r)
			return true
		})
		inner("inner-drop", func(ep *ics23.ExistenceProof, j int) bool {
			ep.Path = append(ep.Path[:j:j], ep.Path[j+1:]...)
			return true
		})
		inner("inner-dup", func(ep *ics23.ExistenceProof, j int) bool {
			n := append([]*ics23.InnerOp{}, ep.Path[:j+1]...)
			n = append(n, ep.Path[j])
			ep.Path = append(n, ep.Path[j+1:]...)
			return true
		})
		inner("inner-swap", func(ep *ics23.ExistenceProof, j int) bool {
			if j+1 >= len(ep.Path) || reflect.DeepEqual(ep.Path[j], ep.Path[j+1]) {
				return false
			}
			ep.Path[j], ep.Path[j+1] = ep.Path[j+1], ep.Path[j]
			return true
		})
		inner("inner-reverse", func(ep *ics23.ExistenceProof, j int) bool {
			if len(ep.Path) < 2 {
				return false
			}
			before := append([]*ics23.InnerOp{}, ep.Path...)
			for a, b := 0, len(ep.Path)-1; a < b; a, b = a+1, b-1 {
				ep.Path[a], ep.Path[b] = ep.Path[b], ep.Path[a]
			}
			return !reflect.DeepEqual(before, ep.Path)
		})
		add(name("inner-extra-top"), func(cl *claim) bool {
			ep := pick(cl)
			if ep == nil {
				return false
			}
			op := &ics23.InnerOp{Hash: ics23.HashOp_SHA256, Prefix: []byte{1}, Suffix: r.Bytes(32)}
			if len(ep.Path) > 0 {
				op = &ics23.InnerOp{Hash: ep.Path[0].Hash, Prefix: bytes.Clone(ep.Path[0].Prefix), Suffix: r.Bytes(len(ep.Path[0].Suffix))}
			}
			ep.Path = append(ep.Path, op)
			return true
		})
		add(name("inner-clear"), func(cl *claim) bool {
			ep := pick(cl)
			if ep == nil || len(ep.Path) == 0 {
				return false
			}
			ep.Path = nil
			return true
		})
	}
	return ms
}

func depthClass(p commitmenttypes.MerkleProof) string {
	if len(p.Proofs) == 0 {
		return "d?"
	}
	eps := existAt(p.Proofs[0])
	if len(eps) == 0 {
		return "d-"
	}
	n := len(eps[0].Path)
	switch {
	case n == 0:
		return "d0"
	case n < 4:
		return "d1-3"
	case n < 8:
		return "d4-7"
	default:
		return "d8+"
	}
}

// probe takes one (store, key) at a version: honest verification, then a sample of single mutations.
func (e *c18Env) probe(r *kit.Rng, v *c18Version, store string, key []byte, keyKind string, nMut int) {
	c := e.c
	var proofBz []byte
	if err := kit.Try(func() { proofBz, _ = e.ch.QueryProofForStore(store, key, v.ver+1) }); err != nil {
		c.Inc("query_failed")
		return
	}
	var mp commitmenttypes.MerkleProof
	if err := e.ch.App.AppCodec().Unmarshal(proofBz, &mp); err != nil {
		c.Inc("proof_decode_failed")
		return
	}
	val, present := v.truth[store][string(key)]
	base := claim{member: present, root: v.root, path: [][]byte{[]byte(store), key}, value: val, specs: e.specs, proof: mp}
	c.Inc("proofs_obtained")
	honestOK, herr, perr := e.verifyErr(base.clone())
	dc := depthClass(mp)
	kindName := "absent"
	if present {
		kindName = "present"
	}
	if perr != nil {
		e.lim.violate("C18|verifier-panics|honest", fmt.Sprintf("verifier panicked on an honest proof: %v", perr), map[string]any{"store": store, "key": hex.EncodeToString(key)})
		return
	}
	if present && len(val) == 0 {
		// a stored empty value: the statement allows membership of non-empty values only
		c.Inc("stored_empty_value_probed")
		if honestOK {
			e.lim.violate("C18|empty-value-accepted", fmt.Sprintf("membership of key %x in store %s verified with an empty value", key, store), map[string]any{"store": store, "key": hex.EncodeToString(key)})
		}
		// the same proof must not prove absence either
		nb := base.clone()
		nb.member = false
		if acc, _ := e.verify(nb); acc {
			e.lim.violate("C18|present-key-proven-absent", fmt.Sprintf("non-membership verified for present key %x (empty value) in store %s", key, store), nil)
		}
		c.Eval(fmt.Sprintf("%s|empty-value|%s|acc=%v", store, dc, honestOK))
		return
	}
	if !honestOK {
		c.Inc("honest_rejected_" + kindName)
		if debugC18 {
			c.T.Logf("honest rejected: store=%s key=%x kind=%s n=%d err=%v", store, key, keyKind, len(v.truth[store]), herr)
		}
		c.Eval("")
		return
	}
	c.Inc("honest_accepted_" + kindName)
	c.Eval(fmt.Sprintf("%s|%s|%s|%s|honest", store, kindName, keyKind, dc))
	if len(c.Samples) < 4 {
		c.Sample(map[string]any{"store": store, "key": hex.EncodeToString(key), "present": present, "version": v.ver, "root": hex.EncodeToString(v.root), "iavl_depth": dc, "honest": "verified"})
	}

	e.singleTree(r, base, store, key, kindName)

	ms := e.mutations(r, base, v)
	kit.Shuffle(r, ms)
	done := 0
	for _, m := range ms {
		if done >= nMut {
			break
		}
		cl := base.clone()
		applicable := false
		if err := kit.TryAll(func() { applicable = m.apply(&cl) }); err != nil || !applicable {
			continue
		}
		done++
		acc, perr := e.verify(cl)
		c.Inc("mutants_verified")
		if perr != nil {
			c.Inc("verifier_panics")
			e.lim.violate("C18|verifier-panics|"+m.kind, fmt.Sprintf("verifier panicked on mutation %s: %v", m.kind, perr), map[string]any{"store": store, "key": hex.EncodeToString(key), "mutation": m.kind})
			continue
		}
		holds, known := e.truth(cl)
		c.Eval(fmt.Sprintf("%s|%s|%s|%s|acc=%v", store, kindName, dc, m.kind, acc))
		if !acc {
			c.Inc("mutants_refused")
			continue
		}
		c.Inc("mutants_accepted")
		w := map[string]any{"store": store, "key": hex.EncodeToString(key), "present": present, "version": v.ver, "mutation": m.kind,
			"claim_member": cl.member, "claim_root": hex.EncodeToString(cl.root), "claim_path": pathHex(cl.path), "claim_value": hex.EncodeToString(cl.value)}
		switch {
		case known && holds:
			// the altered claim is itself true (e.g. another absent key in the same gap of a non-membership proof)
			c.Inc("true_mutated_claims_accepted")
		case known && !holds:
			e.lim.violate("C18|false-claim-verified|"+m.kind, fmt.Sprintf("mutation %s of an honest %s-key proof verified although the store contents refute the claim", m.kind, kindName), w)
		case m.neutral:
			c.Inc("neutral_mutants_accepted")
		default:
			e.lim.violate("C18|mutated-proof-verified|"+m.kind, fmt.Sprintf("single mutation %s of an honest %s-key proof still verified", m.kind, kindName), w)
		}
	}
}

// singleTree re-uses the store-level half of an honest proof as the proof of a counterparty whose provable store is ONE Merkle
// tree (one proof spec, a one-element key path, root = that tree's root, which the multistore half of the honest proof commits to):
// it must verify under the tree's root and under no other root.
func (e *c18Env) singleTree(r *kit.Rng, base claim, store string, key []byte, kindName string) {
	c := e.c
	if len(base.proof.Proofs) != 2 || base.proof.Proofs[1].GetExist() == nil || len(e.specs) != 2 {
		return
	}
	sub := claim{member: base.member, root: bytes.Clone(base.proof.Proofs[1].GetExist().Value), path: [][]byte{bytes.Clone(key)}, value: bytes.Clone(base.value),
		specs: e.specs[:1], proof: commitmenttypes.MerkleProof{Proofs: cloneProof(base.proof).Proofs[:1]}}
	ok, perr := e.verify(sub.clone())
	if perr != nil {
		e.lim.violate("C18|verifier-panics|single-tree-honest", fmt.Sprintf("verifier panicked on an honest single-tree proof: %v", perr), map[string]any{"store": store, "key": hex.EncodeToString(key)})
		return
	}
	if !ok {
		c.Inc("single_tree_honest_rejected")
		return
	}
	c.Inc("single_tree_honest_accepted_" + kindName)
	for _, kind := range []string{"root-bit-flipped", "unrelated-root", "empty-tail-root"} {
		cl := sub.clone()
		switch kind {
		case "root-bit-flipped":
			cl.root = flip(cl.root, r)
		case "unrelated-root":
			cl.root = make([]byte, 32)
			for i := range cl.root {
				cl.root[i] = byte(r.Intn(256))
			}
		case "empty-tail-root":
			cl.root = append(bytes.Clone(cl.root), 0)
		}
		acc, perr := e.verify(cl)
		c.Inc("single_tree_wrong_root_checks")
		c.Eval(fmt.Sprintf("%s|%s|single-tree|%s|acc=%v", store, kindName, kind, acc))
		if perr != nil {
			e.lim.violate("C18|verifier-panics|single-tree-"+kind, fmt.Sprintf("verifier panicked: %v", perr), nil)
			continue
		}
		if acc {
			e.lim.violate("C18|mutated-proof-verified|single-tree-"+kind, fmt.Sprintf("%s-key proof of a single-tree store verified under a root that is not the tree's root (%s)", kindName, kind),
				map[string]any{"store": store, "key": hex.EncodeToString(key), "member": cl.member, "tree_root": hex.EncodeToString(sub.root), "claimed_root": hex.EncodeToString(cl.root)})
		}
	}
}

func pathHex(p [][]byte) []string {
	var o []string
	for _, x := range p {
		o = append(o, hex.EncodeToString(x))
	}
	return o
}

// absentKeys derives absent keys around the present ones.
func absentKey(r *kit.Rng, st map[string][]byte, ids []string) ([]byte, string) {
	keys := make([]string, 0, len(st))
	for k := range st {
		keys = append(keys, k)
	}
	sort.Strings(keys)
	for tries := 0; tries < 20; tries++ {
		var k []byte
		kind := ""
		switch c := r.Intn(8); {
		case c == 0 || len(keys) == 0:
			k, kind = c18Key(r, ids), "fresh"
		case c == 1:
			k, kind = append([]byte(kit.Pick(r, keys)), 0), "succ"
		case c == 2:
			p := []byte(kit.Pick(r, keys))
			if len(p) < 2 {
				continue
			}
			k, kind = p[:len(p)-1], "trunc"
		case c == 3:
			p := bytes.Clone([]byte(kit.Pick(r, keys)))
			p[len(p)-1]++
			k, kind = p, "last+1"
		case c == 4:
			p := bytes.Clone([]byte(kit.Pick(r, keys)))
			p[len(p)-1]--
			k, kind = p, "last-1"
		case c == 5:
			k, kind = []byte{0}, "below-all"
		case c == 6:
			k, kind = bytes.Repeat([]byte{0xff}, 1+r.Intn(3)), "above-all"
		default:
			k, kind = flip([]byte(kit.Pick(r, keys)), r), "flip"
		}
		if len(k) == 0 {
			continue
		}
		if _, ok := st[string(k)]; !ok {
			return k, kind
		}
	}
	return nil, ""
}

func c18Proofs(c *kit.Check, lim *sigLimiter, caseID int) {
	r := c.CaseRng(caseID)
	withPath := caseID%3 == 0
	n := 1
	if withPath {
		n = 2
	}
	w := kit.NewWorld(c.T, n)
	e := &c18Env{c: c, ch: w.Chains[0], byRoot: map[string]*c18Version{}, specs: commitmenttypes.GetSDKSpecs(), lim: lim}
	if withPath {
		// realistic IBC contents: clients, connection, channel, a few packets
		if err := kit.Try(func() {
			p := ibctesting.NewPath(w.Chains[0].TestChain, w.Chains[1].TestChain)
			p.Setup()
			for i := 0; i < 3; i++ {
				if _, err := p.EndpointA.SendPacket(p.EndpointA.Chain.GetTimeoutHeight(), 0, ibctesting.MockPacketData); err != nil {
					panic(kit.Abort{Msg: err.Error()})
				}
			}
		}); err != nil {
			c.Inconcl("path setup: " + err.Error())
			return
		}
	}
	// identifier pool with shared prefixes
	var ids []string
	for i := 0; i < 6; i++ {
		b := randID(r, 2, 20)
		ids = append(ids, b, b+"-1", b+"-10", b+"0")
	}
	ids = append(ids, randID(r, 64, 64), "transfer", "channel-0", "channel-1", "channel-10", "07-tendermint-0", "07-tendermint-1")

	// does the store accept an empty (non-nil) value at all?
	allowEmpty := false
	o := e.ch.InBlock(func(ctx sdk.Context) error {
		ctx.KVStore(e.ch.Sim.GetKey("ibc")).Set([]byte("verif/empty-probe"), []byte{})
		return nil
	})
	if o.Err == nil {
		allowEmpty = true
		c.Inc("store_accepts_empty_value")
	}
	rounds := 3
	sizes := []int{r.Intn(6), 10 + r.Intn(60), 100 + r.Intn(500)}
	kit.Shuffle(r, sizes)
	for round := 0; round < rounds; round++ {
		e.mutateStores(r, ids, sizes[round], allowEmpty)
		v := e.snapshot()
		queries := c.N(36, 90)
		for q := 0; q < queries; q++ {
			// current version mostly, historical sometimes
			ver := v
			if r.Chance(1, 5) {
				ver = kit.Pick(r, e.versions)
			}
			store := kit.Pick(r, c18Stores)
			st := ver.truth[store]
			if r.Bool() && len(st) > 0 {
				keys := make([]string, 0, len(st))
				for k := range st {
					keys = append(keys, k)
				}
				sort.Strings(keys)
				k := kit.Pick(r, keys)
				if allowEmpty && r.Chance(1, 6) {
					// prefer a stored empty value when there is one
					for _, kk := range keys {
						if len(st[kk]) == 0 {
							k = kk
							break
						}
					}
				}
				e.probe(r, ver, store, []byte(k), "present", c.N(22, 40))
			} else {
				k, kind := absentKey(r, st, ids)
				if k == nil {
					continue
				}
				e.probe(r, ver, store, k, kind, c.N(22, 40))
			}
		}
	}
}

// ---------------------------------------------------------------------------------------------
// BuildMerklePath must not touch the caller's prefix

func c18BuildPath(c *kit.Check, lim *sigLimiter, caseID, n int) {
	r := c.CaseRng(caseID)
	for i := 0; i < n; i++ {
		ne := 1 + r.Intn(3)
		prefix := make([][]byte, ne)
		spare := make([]int, ne)
		for j := range prefix {
			ln := r.Intn(12)
			if j == ne-1 && r.Chance(1, 6) {
				ln = 0
			}
			switch r.Intn(4) {
			case 0:
				spare[j] = 0
			case 1:
				spare[j] = 1 + r.Intn(4)
			default:
				spare[j] = 8 + r.Intn(120)
			}
			buf := make([]byte, ln+spare[j])
			for k := range buf {
				buf[k] = byte(0xA0 + r.Intn(16))
			}
			prefix[j] = buf[:ln]
		}
		// outer slice with spare capacity as well
		outer := make([][]byte, ne, ne+r.Intn(3))
		copy(outer, prefix)
		prefix = outer
		snap := func() [][]byte {
			var s [][]byte
			for _, p := range prefix {
				s = append(s, bytes.Clone(p[:cap(p)]))
			}
			return s
		}
		lens := make([]int, ne)
		for j, p := range prefix {
			lens[j] = len(p)
		}
		before := snap()
		p1 := r.Bytes(1 + r.Intn(40))
		p2 := r.Bytes(1 + r.Intn(40))
		spareCls := "nospare"
		switch {
		case spare[ne-1] >= len(p1):
			spareCls = "fits"
		case spare[ne-1] > 0:
			spareCls = "partial"
		}
		var r1 [][]byte
		if err := kit.TryAll(func() { r1 = channeltypesv2.BuildMerklePath(prefix, p1).KeyPath }); err != nil {
			c.Inc("buildpath_panics")
			c.Eval("")
			continue
		}
		c.Inc("buildpath_calls")
		r1copy := make([][]byte, len(r1))
		for j := range r1 {
			r1copy[j] = bytes.Clone(r1[j])
		}
		after1 := snap()
		witness := map[string]any{"prefix_lens": lens, "spare": spare, "path1": hex.EncodeToString(p1), "path2": hex.EncodeToString(p2)}
		visibleChanged, backingChanged := false, false
		check := func(after [][]byte) {
			if len(prefix) != ne {
				visibleChanged = true
			}
			for j := range prefix {
				if len(prefix[j]) != lens[j] || !bytes.Equal(after[j][:lens[j]], before[j][:lens[j]]) {
					visibleChanged = true
				}
				if !bytes.Equal(after[j][lens[j]:], before[j][lens[j]:]) {
					backingChanged = true
				}
			}
		}
		check(after1)
		// the result is what the doc comment says: prefix with the path appended to its last element
		okResult := len(r1) == ne
		for j := 0; okResult && j < ne; j++ {
			want := before[j][:lens[j]]
			if j == ne-1 {
				want = append(bytes.Clone(want), p1...)
			}
			okResult = bytes.Equal(r1[j], want)
		}
		if okResult {
			c.Inc("buildpath_result_as_documented")
		}
		var r2 [][]byte
		_ = kit.TryAll(func() { r2 = channeltypesv2.BuildMerklePath(prefix, p2).KeyPath })
		check(snap())
		firstChanged := false
		for j := range r1 {
			if !bytes.Equal(r1[j], r1copy[j]) {
				firstChanged = true
			}
		}
		_ = r2
		c.Eval(fmt.Sprintf("buildpath|n%d|%s|len0=%v|vis=%v|back=%v|first=%v", ne, spareCls, lens[ne-1] == 0, visibleChanged, backingChanged, firstChanged))
		if spareCls != "nospare" {
			c.Inc("buildpath_spare_capacity_cases")
		}
		switch {
		case visibleChanged:
			lim.violate("C18|buildmerklepath-changes-prefix", "BuildMerklePath changed the elements of the caller's prefix slice", witness)
		case backingChanged || firstChanged:
			lim.violate("C18|buildmerklepath-aliases-prefix-spare-capacity",
				fmt.Sprintf("BuildMerklePath wrote into the spare capacity of the caller's last prefix element (backing array changed=%v); a second call with another path rewrote the first result (changed=%v)", backingChanged, firstChanged), witness)
		default:
			c.Inc("buildpath_prefix_untouched")
		}
	}
}

func TestC18(t *testing.T) {
	c := kit.NewCheck(t, "C18", "exploration", c18Rule)
	defer c.Finish()
	c.Assume("ground truth for a (root, store, key) claim is the committed content of that store at the version whose app hash is the root, read through the SDK store iterator (not through proofs)")
	c.Assume("hash collisions are out of scope: a random or bit-flipped root is taken to commit to nothing")
	c.Floor("proofs_obtained", 300)
	c.Floor("honest_accepted_present", 100)
	c.Floor("honest_accepted_absent", 100)
	c.Floor("mutants_verified", 6000)
	c.Floor("mutants_refused", 6000)
	c.Floor("single_tree_wrong_root_checks", 600)
	c.Floor("buildpath_calls", 1000)
	c.Floor("buildpath_spare_capacity_cases", 500)
	lim := &sigLimiter{c: c}
	cases := c.N(10, 14)
	for i := 0; i < cases; i++ {
		if c.SkipCase(i) {
			continue
		}
		c.Inc("cases")
		c18Proofs(c, lim, i)
	}
	if !c.SkipCase(5000) {
		c18BuildPath(c, lim, 5000, c.N(4000, 20000))
	}
}
