// Package store holds the runtime monitors of C16 (key spaces / client namespaces), C18 (merkle proof
// soundness) and C19 (delay periods).
package store

import (
	"errors"

	sdk "github.com/cosmos/cosmos-sdk/types"

	clienttypes "github.com/cosmos/ibc-go/v11/modules/core/02-client/types"
	"github.com/cosmos/ibc-go/v11/modules/core/exported"
)

// RecClientType is the client type under which the recording light client module is routed.
const RecClientType = "99-verifrec"

// RecCall is one verification request core handed to the light client.
type RecCall struct {
	Member     bool
	ClientID   string
	Height     exported.Height
	DelayTime  uint64
	DelayBlock uint64
	Path       exported.Path
	Value      []byte
}

// RecModule is a light client module that accepts every proof and records the arguments it was
// given (tap T-app): it exposes the exact delayTimePeriod / delayBlockPeriod core computes.
type RecModule struct {
	Calls []RecCall
}

var _ exported.LightClientModule = (*RecModule)(nil)

var errRec = errors.New("recording light client: operation not supported")

func (*RecModule) Initialize(sdk.Context, string, []byte, []byte) error { return errRec }

func (*RecModule) VerifyClientMessage(sdk.Context, string, exported.ClientMessage) error {
	return errRec
}

func (*RecModule) CheckForMisbehaviour(sdk.Context, string, exported.ClientMessage) bool {
	return false
}

func (*RecModule) UpdateStateOnMisbehaviour(sdk.Context, string, exported.ClientMessage) {}

func (*RecModule) UpdateState(sdk.Context, string, exported.ClientMessage) []exported.Height {
	return nil
}

func (m *RecModule) VerifyMembership(_ sdk.Context, clientID string, height exported.Height, delayTimePeriod, delayBlockPeriod uint64, _ []byte, path exported.Path, value []byte) error {
	m.Calls = append(m.Calls, RecCall{Member: true, ClientID: clientID, Height: height, DelayTime: delayTimePeriod, DelayBlock: delayBlockPeriod, Path: path, Value: value})
	return nil
}

func (m *RecModule) VerifyNonMembership(_ sdk.Context, clientID string, height exported.Height, delayTimePeriod, delayBlockPeriod uint64, _ []byte, path exported.Path) error {
	m.Calls = append(m.Calls, RecCall{Member: false, ClientID: clientID, Height: height, DelayTime: delayTimePeriod, DelayBlock: delayBlockPeriod, Path: path})
	return nil
}

func (*RecModule) Status(sdk.Context, string) exported.Status { return exported.Active }

func (*RecModule) LatestHeight(sdk.Context, string) exported.Height {
	return clienttypes.NewHeight(0, 1)
}

func (*RecModule) TimestampAtHeight(sdk.Context, string, exported.Height) (uint64, error) {
	return 0, errRec
}

func (*RecModule) RecoverClient(sdk.Context, string, string) error { return errRec }

func (*RecModule) VerifyUpgradeAndUpdateState(sdk.Context, string, []byte, []byte, []byte, []byte) error {
	return errRec
}
