package store

import (
	"fmt"
	"math/big"
	"math/bits"
	"strings"
	"testing"
	"time"

	sdk "github.com/cosmos/cosmos-sdk/types"

	clienttypes "github.com/cosmos/ibc-go/v11/modules/core/02-client/types"
	connectiontypes "github.com/cosmos/ibc-go/v11/modules/core/03-connection/types"
	channeltypes "github.com/cosmos/ibc-go/v11/modules/core/04-channel/types"
	commitmenttypes "github.com/cosmos/ibc-go/v11/modules/core/23-commitment/types"
	host "github.com/cosmos/ibc-go/v11/modules/core/24-host"
	ibctesting "github.com/cosmos/ibc-go/v11/testing"

	"verif/harness/kit"
)

const c19Rule = "three workloads. (1) arithmetic: PRNG pairs (connection delay, MaxExpectedTimePerBlock) biased to 64-bit boundaries, exact multiples +-1, quotients around 2^53 and a zero parameter are pushed " +
	"through the four packet-proof verifiers of the real connection keeper into a recording light client; the captured block delay is compared with ceil(delay/perBlock) in big-integer arithmetic; " +
	"class = (verifier, bit-length buckets of delay/perBlock/quotient, remainder zero or not). (2) relays: real MsgRecvPacket transactions on a tendermint connection opened with a non-zero delay period, " +
	"submitted at chosen (block time, height) points at the two inclusive bounds -1/0/+1 and far before/after; class = (time offset class, height offset class, outcome). (3) direct: the real 07-tendermint " +
	"membership / non-membership verification called through the client keeper with real proofs and boundary-biased 64-bit (time delay, block delay) arguments at chosen block times/heights; " +
	"class = (kind, delay classes, outcome). A case is non-trivial when the verifier was really reached (recorded call / transaction executed / control call with zero delays accepted)."

var (
	two53 = new(big.Int).Lsh(big.NewInt(1), 53)
	two64 = new(big.Int).Lsh(big.NewInt(1), 64)
)

func bu(x uint64) *big.Int { return new(big.Int).SetUint64(x) }

// ceilDivRef is the reference model of the statement: ceil(delay / perBlock), 0 when perBlock is 0; unbounded integers.
func ceilDivRef(delay, per uint64) *big.Int {
	if per == 0 {
		return big.NewInt(0)
	}
	q, m := new(big.Int).DivMod(bu(delay), bu(per), new(big.Int))
	if m.Sign() != 0 {
		q.Add(q, big.NewInt(1))
	}
	return q
}

// arithSignature names the input class of a block-delay mismatch.
func arithSignature(delay, per uint64) string {
	q := ceilDivRef(delay, per)
	switch {
	case per == 0:
		return "C19|block-delay-wrong|perBlock=0"
	case q.Cmp(two53) >= 0:
		return "C19|block-delay-inexact|quotient>=2^53"
	case bu(delay).Cmp(two53) > 0 || bu(per).Cmp(two53) > 0:
		return "C19|block-delay-inexact|operand>2^53,quotient<2^53"
	default:
		return "C19|block-delay-wrong|operands<=2^53"
	}
}

func genDelayPair(r *kit.Rng) (delay, per uint64, shape string) {
	switch r.Intn(10) {
	case 0:
		return r.Boundary64(), r.Boundary64(), "bb"
	case 1: // small perBlock, delay an exact multiple -1/0/+1
		per = uint64(1 + r.Intn(16))
		k := r.Boundary64() / per
		return k*per + uint64(r.Intn(3)) - 1, per, "mult-small"
	case 2: // powers of two with small offsets
		return (uint64(1) << uint(r.Intn(64))) + uint64(r.Intn(5)) - 2, (uint64(1) << uint(r.Intn(64))) + uint64(r.Intn(5)) - 2, "pow2"
	case 3:
		return r.Boundary64(), 0, "per0"
	case 4: // quotient around 2^53
		per = uint64(1 + r.Intn(2047))
		q := uint64(1)<<53 + uint64(r.Intn(5)) - 2
		return q*per + uint64(r.Intn(int(per))), per, "q53"
	case 5: // both operands large, quotient small
		per = r.U64() | 1<<63>>uint(r.Intn(10))
		k := uint64(1 + r.Intn(3))
		if per > ^uint64(0)/k {
			k = 1
		}
		return k*per + uint64(r.Intn(3)) - 1, per, "large-close"
	case 6: // realistic: delays of seconds..weeks over block times of 1 s .. 1 h
		per = uint64(1+r.Intn(3600)) * uint64(time.Second)
		if r.Bool() {
			per += uint64(r.Intn(1_000_000_000))
		}
		return uint64(r.Intn(14*24*3600))*uint64(time.Second) + uint64(r.Intn(3))*uint64(r.Intn(1_000_000_000)), per, "real"
	case 7: // exact multiples of a mid-size parameter -1/0/+1
		per = r.Boundary64()>>uint(20+r.Intn(30)) + 1
		k := r.U64() % (^uint64(0) / per)
		return k*per + uint64(r.Intn(3)) - 1, per, "mult-mid"
	case 8: // delay just above 2^53, parameter 1..3
		return uint64(1)<<53 + uint64(r.Intn(9)) - 2, uint64(1 + r.Intn(3)), "d53"
	default:
		return r.U64(), r.U64() >> uint(r.Intn(64)), "uu"
	}
}

type sigLimiter struct {
	c *kit.Check
	n map[string]int
}

// violate records at most 4 witnesses per signature and counts the rest.
func (s *sigLimiter) violate(sig, what string, witness any) {
	if s.n == nil {
		s.n = map[string]int{}
	}
	s.n[sig]++
	s.c.Inc("violations_by_signature:" + sig)
	if s.n[sig] <= 4 {
		s.c.Violate(sig, what, witness)
	}
}

// c19Arith: part 1, exact block-delay arithmetic observed at the light-client boundary.
func c19Arith(c *kit.Check, lim *sigLimiter, caseBase, batches, perBatch int) {
	w := kit.NewWorld(c.T, 1)
	ch := w.Chains[0]
	rec := &RecModule{}
	ibck := ch.App.GetIBCKeeper()
	ibck.ClientKeeper.AddRoute(RecClientType, rec)
	ck := ibck.ConnectionKeeper
	prefix := commitmenttypes.NewMerklePrefix([]byte("ibc"))
	cp := connectiontypes.NewCounterparty("07-tendermint-0", "connection-0", prefix)
	versions := connectiontypes.GetCompatibleVersions()
	recID := RecClientType + "-0"
	height := clienttypes.NewHeight(1, 7)

	for b := 0; b < batches; b++ {
		if c.SkipCase(caseBase + b) {
			continue
		}
		r := c.CaseRng(caseBase + b)
		ctx, _ := ch.GetContext().CacheContext()
		for j := 0; j < perBatch; j++ {
			delay, per, shape := genDelayPair(r)
			ck.SetParams(ctx, connectiontypes.NewParams(per))
			conn := connectiontypes.NewConnectionEnd(connectiontypes.OPEN, recID, cp, versions, delay)
			rec.Calls = rec.Calls[:0]
			fn := r.Intn(4)
			seq := r.Boundary64()
			var err error
			switch fn {
			case 0:
				err = ck.VerifyPacketCommitment(ctx, conn, height, []byte{1}, "mock", "channel-0", seq, []byte("c"))
			case 1:
				err = ck.VerifyPacketAcknowledgement(ctx, conn, height, []byte{1}, "mock", "channel-0", seq, []byte("a"))
			case 2:
				err = ck.VerifyPacketReceiptAbsence(ctx, conn, height, []byte{1}, "mock", "channel-0", seq)
			default:
				err = ck.VerifyNextSequenceRecv(ctx, conn, height, []byte{1}, "mock", "channel-0", seq)
			}
			if err != nil || len(rec.Calls) != 1 {
				c.Inc("arith_recorder_not_reached")
				c.Eval("")
				continue
			}
			got := rec.Calls[0]
			c.Inc("arith_pairs_observed")
			want := ceilDivRef(delay, per)
			q := want
			remZero := per != 0 && delay%per == 0
			c.Eval(fmt.Sprintf("arith|f%d|%s|d%d|p%d|q%d|rz%v", fn, shape, bits.Len64(delay)/8, bits.Len64(per)/8, q.BitLen()/8, remZero))
			if per == 0 {
				c.Inc("arith_zero_param")
			}
			if q.Cmp(two53) >= 0 {
				c.Inc("arith_quotient_ge_2^53")
			} else {
				c.Inc("arith_quotient_lt_2^53")
			}
			if got.DelayTime != delay {
				lim.violate("C19|time-delay-not-passed-through", fmt.Sprintf("verifier %d handed time delay %d to the light client, connection delay is %d", fn, got.DelayTime, delay),
					map[string]any{"delay": delay, "perBlock": per, "verifier": fn})
			}
			if bu(got.DelayBlock).Cmp(want) != 0 {
				lim.violate(arithSignature(delay, per),
					fmt.Sprintf("block delay handed to the light client = %d, exact ceil(%d / %d) = %s (verifier %d)", got.DelayBlock, delay, per, want.String(), fn),
					map[string]any{"delay": delay, "perBlock": per, "got": got.DelayBlock, "want": want.String(), "verifier": fn})
			} else {
				c.Inc("arith_exact")
			}
			if b == 0 && j < 3 {
				c.Sample(map[string]any{"part": "arith", "delay": delay, "perBlock": per, "verifier": fn, "captured_block_delay": got.DelayBlock, "exact": want.String()})
			}
		}
	}
}

// ---------------------------------------------------------------------------------------------
// part 2: enforcement on a real tendermint connection

type delayLane struct {
	c     *kit.Check
	w     *kit.World
	A, B  *kit.Chain
	path  *ibctesting.Path
	d     uint64
	lastB *kit.Outcome
}

func newDelayLane(c *kit.Check, d uint64) (*delayLane, error) {
	l := &delayLane{c: c, d: d}
	l.w = kit.NewWorld(c.T, 2)
	l.A, l.B = l.w.Chains[0], l.w.Chains[1]
	l.path = ibctesting.NewPath(l.A.TestChain, l.B.TestChain)
	l.path.EndpointA.ConnectionConfig.DelayPeriod = d
	l.path.EndpointB.ConnectionConfig.DelayPeriod = d
	if err := kit.Try(func() { l.path.Setup() }); err != nil {
		return nil, err
	}
	l.B.OnTx = func(o *kit.Outcome) { l.lastB = o }
	return l, nil
}

// send commits one packet on A and returns it.
func (l *delayLane) send() (channeltypes.Packet, error) {
	epA, epB := l.path.EndpointA, l.path.EndpointB
	th := clienttypes.NewHeight(1, 10_000_000)
	var seq uint64
	o := l.A.InBlock(func(ctx sdk.Context) error {
		s, err := l.A.App.GetIBCKeeper().ChannelKeeper.SendPacket(ctx, epA.ChannelConfig.PortID, epA.ChannelID, th, 0, ibctesting.MockPacketData)
		seq = s
		return err
	})
	if o.Err != nil {
		return channeltypes.Packet{}, o.Err
	}
	return channeltypes.NewPacket(ibctesting.MockPacketData, seq, epA.ChannelConfig.PortID, epA.ChannelID, epB.ChannelConfig.PortID, epB.ChannelID, th, 0), nil
}

// processed is what the harness knows about one consensus state of A stored on B: the block (time, height) of
// the transaction that stored it, and proofs taken at that consensus height.
type processed struct {
	Tp          uint64 // block time of the update transaction on B, ns
	Hp          uint64 // block height of the update transaction on B
	ProofHeight clienttypes.Height
}

// update runs MsgUpdateClient on B for A's latest header and reports where it was processed.
func (l *delayLane) update() (processed, error) {
	l.lastB = nil
	var uerr error
	if err := kit.Try(func() { uerr = l.path.EndpointB.UpdateClient() }); err != nil {
		return processed{}, err
	}
	if uerr != nil {
		return processed{}, uerr
	}
	o := l.lastB
	if o == nil || !o.OK() || len(o.Msgs) != 1 {
		return processed{}, fmt.Errorf("update transaction not observed")
	}
	if _, ok := o.Msgs[0].(*clienttypes.MsgUpdateClient); !ok {
		return processed{}, fmt.Errorf("last transaction on B is not the client update")
	}
	ph := clienttypes.NewHeight(1, uint64(l.A.App.LastBlockHeight()))
	return processed{Tp: uint64(o.BlockTime.UnixNano()), Hp: uint64(o.Height), ProofHeight: ph}, nil
}

func (l *delayLane) setPerBlock(per uint64) {
	l.B.InBlock(func(ctx sdk.Context) error {
		l.B.App.GetIBCKeeper().ConnectionKeeper.SetParams(ctx, connectiontypes.NewParams(per))
		return nil
	})
}

// advanceTo commits empty blocks on B (1 ns apart) until the next block has height Hp+k (if that is still ahead), then
// moves the clock to t if t is still ahead. The oracle judges the point really reached, so a missed target only
// changes which class the attempt falls in.
func (l *delayLane) advanceTo(p processed, k uint64, t uint64) {
	next := func() uint64 { return uint64(l.B.App.LastBlockHeight()) + 1 }
	for next() < p.Hp+k {
		l.B.NextBlock()
		l.w.Coord.IncrementTimeBy(time.Nanosecond)
	}
	if cur := uint64(l.w.Coord.CurrentTime.UnixNano()); t > cur && t < 1<<62 {
		l.w.Coord.SetTime(time.Unix(0, int64(t)))
	}
}

func offClass(now, bound *big.Int) string {
	d := new(big.Int).Sub(now, bound)
	switch {
	case d.Cmp(big.NewInt(-1)) < 0:
		return "<<"
	case d.Cmp(big.NewInt(-1)) == 0:
		return "-1"
	case d.Sign() == 0:
		return "=0"
	case d.Cmp(big.NewInt(1)) == 0:
		return "+1"
	default:
		return ">>"
	}
}

// judge applies the statement to one observed verification outcome.
// accepted => both delays passed (unbounded arithmetic, inclusive bounds); both passed and the proof is otherwise good => accepted.
func judgeDelay(lim *sigLimiter, c *kit.Check, part string, accepted, otherwiseGood bool, now, tp, dt, h, hp, db uint64, witness map[string]any) string {
	tb := new(big.Int).Add(bu(tp), bu(dt))
	hb := new(big.Int).Add(bu(hp), bu(db))
	timeOK := bu(now).Cmp(tb) >= 0
	heightOK := bu(h).Cmp(hb) >= 0
	tc, hc := offClass(bu(now), tb), offClass(bu(h), hb)
	if dt == 0 {
		tc = "none"
	}
	if db == 0 {
		hc = "none"
	}
	witness["now"], witness["processed_time"], witness["time_delay"] = now, tp, dt
	witness["height"], witness["processed_height"], witness["block_delay"] = h, hp, db
	witness["accepted"] = accepted
	cls := fmt.Sprintf("%s|t%s|h%s|acc=%v", part, tc, hc, accepted)
	c.Inc(part + "_point_time" + tc)
	c.Inc(part + "_point_height" + hc)
	switch {
	case accepted && (!timeOK || !heightOK):
		sig := fmt.Sprintf("C19|accepted-before-delay|%s|time%s,height%s", part, tc, hc)
		if (!timeOK && tb.Cmp(two64) >= 0) || (!heightOK && hb.Cmp(two64) >= 0) {
			sig = "C19|delay-sum-wraps-uint64"
		}
		lim.violate(sig, fmt.Sprintf("%s: proof accepted at time %d height %d although processedTime+delay = %s (passed=%v), processedHeight+blockDelay = %s (passed=%v)",
			part, now, h, tb.String(), timeOK, hb.String(), heightOK), witness)
		c.Inc(part + "_accepted_early")
	case accepted:
		c.Inc(part + "_accepted_after_both_delays")
	case timeOK && heightOK && otherwiseGood:
		lim.violate(fmt.Sprintf("C19|rejected-after-delay|%s|time%s,height%s", part, tc, hc),
			fmt.Sprintf("%s: proof rejected at time %d height %d although both delays have passed (processedTime+delay = %s, processedHeight+blockDelay = %s)", part, now, h, tb.String(), hb.String()), witness)
		c.Inc(part + "_rejected_late")
	case timeOK && heightOK:
		c.Inc(part + "_rejected_other_reason")
		return ""
	default:
		c.Inc(part + "_rejected_before_delay")
	}
	return cls
}

func recvMsg(l *delayLane, p channeltypes.Packet, proof []byte, ph clienttypes.Height) *channeltypes.MsgRecvPacket {
	return channeltypes.NewMsgRecvPacket(p, proof, ph, l.B.DefaultSender().SenderAccount.GetAddress().String())
}

// relayCase: one packet, one client update, then recv attempts at chosen points.
func (l *delayLane) relayCase(r *kit.Rng, lim *sigLimiter, plan int) (classes []string, err error) {
	c := l.c
	d := l.d
	// choose the block-time parameter so that the exact block delay is small
	var per uint64
	bdT := uint64(r.Intn(6)) // 0 => parameter zero
	if bdT > 0 {
		per = d / bdT
		if d%bdT != 0 {
			per++
		}
		switch r.Intn(4) {
		case 0:
			if per > 1 {
				per--
			}
		case 1:
			per++
		}
		if per == 0 {
			per = 1
		}
	}
	bdBig := ceilDivRef(d, per)
	if !bdBig.IsUint64() || bdBig.Uint64() > 40 {
		// tiny delay over a tiny parameter can still be a large block delay: keep the walk short
		per = d/4 + 1
		bdBig = ceilDivRef(d, per)
	}
	bd := bdBig.Uint64()
	l.setPerBlock(per)
	pkt, err := l.send()
	if err != nil {
		return nil, err
	}
	p, err := l.update()
	if err != nil {
		return nil, err
	}
	key := host.PacketCommitmentKey(pkt.SourcePort, pkt.SourceChannel, pkt.Sequence)
	var proof []byte
	var ph clienttypes.Height
	if err := kit.Try(func() { proof, ph = l.A.QueryProofAtHeight(key, int64(p.ProofHeight.RevisionHeight)) }); err != nil {
		return nil, err
	}
	tB := new(big.Int).Add(bu(p.Tp), bu(d))
	far := !tB.IsUint64() || tB.Uint64() > p.Tp+uint64(10*time.Minute)

	type pt struct {
		k uint64 // height offset from Hp
		t uint64 // absolute time
	}
	kMin := uint64(1)
	kB := bd
	if kB < kMin {
		kB = kMin
	}
	var pts []pt
	if far {
		// the time bound is out of reach (F2 lane): probe at and after the height bound
		pts = []pt{{kB, 0}, {kB + 1, 0}}
	} else {
		tb := tB.Uint64()
		switch plan % 6 {
		case 0: // time binds: -1 ns then exactly at the bound
			pts = []pt{{kB + uint64(r.Intn(2)), tb - 1}, {0, tb}}
		case 1: // time binds: -1 ns then +1 ns
			pts = []pt{{kB, tb - 1}, {0, tb + 1}}
		case 2: // height binds: one block early, then exactly at the bound, time already passed
			if bd >= 2 {
				pts = []pt{{bd - 1, tb + uint64(r.Intn(3))}, {bd, 0}}
			} else {
				pts = []pt{{kB, tb}}
			}
		case 3: // both exactly at their bounds
			pts = []pt{{kB, tb}}
		case 4: // at once, then height passed/time not, then far after
			pts = []pt{{1, 0}, {kB + 1, tb - uint64(1+r.Intn(1000))}, {0, tb + uint64(r.Intn(int(time.Minute)))}}
		default: // time passed/height not, then height +1
			if bd >= 3 {
				pts = []pt{{bd - 2, tb + 1}, {bd - 1, 0}, {bd + 1, 0}}
			} else {
				pts = []pt{{kB, tb - 1}, {0, tb}}
			}
		}
	}
	done := false
	for _, q := range pts {
		if done {
			break
		}
		l.advanceTo(p, q.k, q.t)
		o := l.B.Deliver(l.B.DefaultSender(), recvMsg(l, pkt, proof, ph))
		c.Inc("relay_recv_txs")
		accepted := o.OK()
		if accepted {
			wrote := false
			for _, kv := range o.DiffIn("ibc") {
				if strings.HasPrefix(string(kv.Key), host.KeyPacketReceiptPrefix+"/") {
					wrote = true
				}
			}
			if !wrote {
				c.Inc("relay_accepted_without_receipt")
				return classes, fmt.Errorf("accepted recv without a receipt write: %s", o.Log)
			}
			done = true
		}
		delayErr := strings.Contains(o.Log, "delay period")
		cls := judgeDelay(lim, c, "relay", accepted, delayErr, uint64(o.BlockTime.UnixNano()), p.Tp, d, uint64(o.Height), p.Hp, bd,
			map[string]any{"connection_delay": d, "max_expected_time_per_block": per, "proof_height": ph.String(), "log": trimLog(o.Log)})
		if cls != "" {
			classes = append(classes, cls)
		}
		if len(c.Samples) < 5 {
			c.Sample(map[string]any{"part": "relay", "delay": d, "perBlock": per, "block_delay": bd, "processed": p, "at_time": o.BlockTime.UnixNano(), "at_height": o.Height, "accepted": accepted})
		}
	}
	return classes, nil
}

func trimLog(s string) string {
	if len(s) > 300 {
		return s[:300]
	}
	return s
}

// directCase drives the real tendermint verification through the client keeper with chosen delay arguments.
func (l *delayLane) directCase(r *kit.Rng, lim *sigLimiter, n int) error {
	c := l.c
	pkt, err := l.send()
	if err != nil {
		return err
	}
	type pf struct {
		p              processed
		member, absent []byte
	}
	var pfs []pf
	memberKey := host.PacketCommitmentKey(pkt.SourcePort, pkt.SourceChannel, pkt.Sequence)
	absentKey := host.PacketReceiptKey(pkt.SourcePort, pkt.SourceChannel, 7_000_000+pkt.Sequence)
	for i := 0; i < 3; i++ {
		l.w.Coord.IncrementTimeBy(time.Duration(r.Intn(50_000_000_000)))
		p, err := l.update()
		if err != nil {
			return err
		}
		var m, a []byte
		if err := kit.Try(func() {
			m, _ = l.A.QueryProofAtHeight(memberKey, int64(p.ProofHeight.RevisionHeight))
			a, _ = l.A.QueryProofAtHeight(absentKey, int64(p.ProofHeight.RevisionHeight))
		}); err != nil {
			return err
		}
		pfs = append(pfs, pf{p, m, a})
		for j := r.Intn(3); j > 0; j-- {
			l.B.Commit()
		}
	}
	commitment := channeltypes.CommitPacket(pkt)
	prefix := commitmenttypes.NewMerklePrefix([]byte("ibc"))
	mpath, _ := commitmenttypes.ApplyPrefix(prefix, commitmenttypes.NewMerklePath(memberKey))
	apath, _ := commitmenttypes.ApplyPrefix(prefix, commitmenttypes.NewMerklePath(absentKey))
	ck := l.B.App.GetIBCKeeper().ClientKeeper
	clientID := l.path.EndpointB.ClientID
	base := l.B.GetContext()
	now0, h0 := uint64(base.BlockTime().UnixNano()), uint64(base.BlockHeight())

	pickDelay := func(elapsed, origin uint64) uint64 {
		wrapAt := new(big.Int).Sub(two64, bu(origin)).Uint64() // smallest delay whose sum with origin reaches 2^64
		switch r.Intn(14) {
		case 0:
			return 0
		case 1:
			return 1
		case 2:
			if elapsed > 0 {
				return elapsed - 1
			}
			return 0
		case 3:
			return elapsed
		case 4:
			return elapsed + 1
		case 5:
			return elapsed / 2
		case 6:
			return 2*elapsed + uint64(r.Intn(7))
		case 7:
			return wrapAt - 1
		case 8:
			return wrapAt
		case 9:
			return wrapAt + elapsed - uint64(r.Intn(2))
		case 10:
			return wrapAt + elapsed + 1
		case 11:
			return ^uint64(0) - uint64(r.Intn(3))
		case 12:
			return r.Boundary64()
		default:
			return elapsed + uint64(r.Intn(1000)) - 500
		}
	}
	for i := 0; i < n; i++ {
		f := kit.Pick(r, pfs)
		now, h := now0, h0
		// block times stay within the client's trusting period (an expired client verifies nothing); heights are free
		switch r.Intn(4) {
		case 0:
		case 1:
			now += uint64(r.Intn(1_000_000_000))
			h += uint64(r.Intn(4))
		case 2:
			now += uint64(r.Intn(1 << 40))
			h += uint64(r.Intn(1 << 20))
		default:
			now += uint64(r.Intn(1 << 30))
			h = (1<<63 - 1) - uint64(r.Intn(3))
		}
		ctx := base.WithBlockTime(time.Unix(0, int64(now)).UTC()).WithBlockHeight(int64(h))
		dt := pickDelay(now-f.p.Tp, f.p.Tp)
		db := pickDelay(h-f.p.Hp, f.p.Hp)
		member := r.Bool()
		var ctlErr, verr error
		if member {
			ctlErr = ck.VerifyMembership(ctx, clientID, f.p.ProofHeight, 0, 0, f.member, mpath, commitment)
			verr = ck.VerifyMembership(ctx, clientID, f.p.ProofHeight, dt, db, f.member, mpath, commitment)
		} else {
			ctlErr = ck.VerifyNonMembership(ctx, clientID, f.p.ProofHeight, 0, 0, f.absent, apath)
			verr = ck.VerifyNonMembership(ctx, clientID, f.p.ProofHeight, dt, db, f.absent, apath)
		}
		c.Inc("direct_calls")
		if ctlErr != nil {
			c.Inc("direct_control_failed")
			c.Eval("")
			continue
		}
		part := "direct-nonmember"
		if member {
			part = "direct-member"
		}
		w := map[string]any{"proof_height": f.p.ProofHeight.String()}
		if verr != nil {
			w["error"] = trimLog(verr.Error())
		}
		cls := judgeDelay(lim, c, part, verr == nil, true, now, f.p.Tp, dt, h, f.p.Hp, db, w)
		c.Eval(cls)
	}
	return nil
}

func TestC19(t *testing.T) {
	c := kit.NewCheck(t, "C19", "exploration", c19Rule)
	defer c.Finish()
	c.Assume("the recording light client is routed as client type 99-verifrec through the public ClientKeeper.AddRoute extension point; AllowedClients is the default wildcard")
	c.Assume("processed time/height of a consensus state are taken from the harness: block time and height of the block in which the harness delivered the MsgUpdateClient")
	c.Assume("direct calls set the block time/height of the context handed to the real verifier; only points at or after the processing point are used")
	c.Floor("arith_pairs_observed", 4000)
	c.Floor("arith_quotient_ge_2^53", 300)
	c.Floor("arith_quotient_lt_2^53", 2000)
	c.Floor("arith_zero_param", 200)
	c.Floor("relay_recv_txs", 60)
	c.Floor("relay_accepted_after_both_delays", 25)
	c.Floor("relay_rejected_before_delay", 20)
	c.Floor("direct_calls", 1000)
	c.Floor("direct-member_accepted_after_both_delays", 80)
	c.Floor("direct-member_rejected_before_delay", 80)
	c.Floor("direct-nonmember_accepted_after_both_delays", 80)
	c.Floor("direct-nonmember_rejected_before_delay", 80)
	for _, k := range []string{"time-1", "time=0", "time+1", "height-1", "height=0", "height+1"} {
		c.Floor("relay_point_"+k, 7)
		c.Floor("direct-member_point_"+k, 35)
		c.Floor("direct-nonmember_point_"+k, 35)
	}
	lim := &sigLimiter{c: c}

	batches := c.N(24, 60)
	c19Arith(c, lim, 0, batches, 500)

	lanes := c.N(9, 14)
	for i := 0; i < lanes; i++ {
		id := 1000 + i
		if c.SkipCase(id) {
			continue
		}
		r := c.CaseRng(id)
		// connection delay: lane 0 = a delay whose sum with any processed time exceeds 2^64 (F2); others 1 ns .. 100 s
		var d uint64
		switch {
		case i == 0:
			d = ^uint64(0) - uint64(r.Intn(1000))
		case i%4 == 1:
			d = uint64(1 + r.Intn(5_000_000_000))
		default:
			d = uint64(6+r.Intn(90))*uint64(time.Second) + uint64(r.Intn(3))*uint64(r.Intn(1_000_000_000))
		}
		c.Inc("cases")
		l, err := newDelayLane(c, d)
		if err != nil {
			c.Inconcl("lane setup: " + err.Error())
			continue
		}
		relays := c.N(10, 30)
		if i == 0 {
			relays = 3
		}
		for j := 0; j < relays; j++ {
			var classes []string
			var rerr error
			if i == 0 {
				// F2 lane: a valid parameter >= 2^63 keeps the exact block delay at 2, or parameter zero removes it
				per := uint64(1)<<63 + uint64(r.Intn(1000))
				if j == 2 {
					per = 0
				}
				classes, rerr = l.relayFixed(r, lim, per)
			} else {
				classes, rerr = l.relayCase(r, lim, j+r.Intn(6))
			}
			if rerr != nil {
				c.Inconcl("relay: " + rerr.Error())
				break
			}
			c.Eval(strings.Join(classes, ";"))
		}
		if i != 0 {
			if err := l.directCase(r, lim, c.N(450, 1500)); err != nil {
				c.Inconcl("direct: " + err.Error())
			}
		}
	}
}

// relayFixed is relayCase with a given block-time parameter (used by the huge-delay lane).
func (l *delayLane) relayFixed(r *kit.Rng, lim *sigLimiter, per uint64) ([]string, error) {
	c := l.c
	bdBig := ceilDivRef(l.d, per)
	if !bdBig.IsUint64() || bdBig.Uint64() > 40 {
		return nil, fmt.Errorf("block delay %s too large to walk", bdBig)
	}
	bd := bdBig.Uint64()
	l.setPerBlock(per)
	pkt, err := l.send()
	if err != nil {
		return nil, err
	}
	p, err := l.update()
	if err != nil {
		return nil, err
	}
	key := host.PacketCommitmentKey(pkt.SourcePort, pkt.SourceChannel, pkt.Sequence)
	var proof []byte
	var ph clienttypes.Height
	if err := kit.Try(func() { proof, ph = l.A.QueryProofAtHeight(key, int64(p.ProofHeight.RevisionHeight)) }); err != nil {
		return nil, err
	}
	var classes []string
	for k := uint64(1); k <= bd+1; k++ {
		l.advanceTo(p, k, 0)
		o := l.B.Deliver(l.B.DefaultSender(), recvMsg(l, pkt, proof, ph))
		c.Inc("relay_recv_txs")
		c.Inc("relay_huge_delay_txs")
		cls := judgeDelay(lim, c, "relay", o.OK(), strings.Contains(o.Log, "delay period"), uint64(o.BlockTime.UnixNano()), p.Tp, l.d, uint64(o.Height), p.Hp, bd,
			map[string]any{"connection_delay": l.d, "max_expected_time_per_block": per, "proof_height": ph.String(), "log": trimLog(o.Log)})
		if cls != "" {
			classes = append(classes, cls)
		}
		if o.OK() {
			break
		}
	}
	return classes, nil
}
