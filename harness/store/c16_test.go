package store

import (
	"bytes"
	"crypto/sha256"
	"fmt"
	"sort"
	"strings"
	"testing"
	"time"

	codectypes "github.com/cosmos/cosmos-sdk/codec/types"
	sdk "github.com/cosmos/cosmos-sdk/types"
	upgradetypes "github.com/cosmos/cosmos-sdk/x/upgrade/types"

	clienttypes "github.com/cosmos/ibc-go/v11/modules/core/02-client/types"
	clientv2types "github.com/cosmos/ibc-go/v11/modules/core/02-client/v2/types"
	connectiontypes "github.com/cosmos/ibc-go/v11/modules/core/03-connection/types"
	channelkeeper "github.com/cosmos/ibc-go/v11/modules/core/04-channel/keeper"
	channeltypes "github.com/cosmos/ibc-go/v11/modules/core/04-channel/types"
	channeltypesv2 "github.com/cosmos/ibc-go/v11/modules/core/04-channel/v2/types"
	commitmenttypes "github.com/cosmos/ibc-go/v11/modules/core/23-commitment/types"
	host "github.com/cosmos/ibc-go/v11/modules/core/24-host"
	hostv2 "github.com/cosmos/ibc-go/v11/modules/core/24-host/v2"
	"github.com/cosmos/ibc-go/v11/modules/core/exported"
	ibctm "github.com/cosmos/ibc-go/v11/modules/light-clients/07-tendermint"
	ibctesting "github.com/cosmos/ibc-go/v11/testing"

	"verif/harness/kit"
)

const c16Rule = "three workloads. (1) keys: PRNG families of hostile valid identifiers (minimum and maximum length, every allowed symbol, shared prefixes a-1/a-10/a-1x, identifiers equal to path keywords, digit tails that would collide " +
	"without separators) x boundary-biased sequences x every key kind of 24-host packet_keys/channel_keys/client_keys/connection_keys, 24-host/v2 keys (async/alias keys on chain-generatable ids only) and the constant keys; " +
	"all keys of a case are put into one map, two distinct tuples under one key is a collision. (2) iteration: the same kinds are written through the real keeper setters into a real chain's ibc store (value = tag of the owning tuple), " +
	"then every per-channel / per-client iteration of the keepers and gRPC queries is run and each returned entry must be one the harness wrote for exactly that owner; every tuple is read back. " +
	"(3) namespaces: on a two-chain world random histories of client operations (create, update, misbehaviour, recover, upgrade, counterparty registration, config, creator deletion; 07-tendermint, 06-solomachine, 09-localhost) " +
	"are delivered as real transactions (authority messages through the msg server) and every ibc-store key in the block diff must lie under clients/<target>/ (allow-list: nextClientSequence on create, the target's v2 nextSequenceSend key on counterparty registration); " +
	"failed operations must leave the ibc store unchanged. class = (family shape, kinds) / (iteration kind, owner shape) / (operation, client type, outcome, written key kinds)."

const symbols = "._+-#[]<>"

// ---------------------------------------------------------------------------------------------
// identifier families

func allSymbolsID(r *kit.Rng, min, max int) string {
	b := []byte(symbols)
	kit.Shuffle(r, b)
	s := "a" + string(b) + "Z9"
	for len(s) < min {
		s += "x"
	}
	if len(s) > max {
		s = s[:max]
	}
	return s
}

var pathWords = []string{"ports", "channels", "sequences", "commitments", "acks", "receipts", "clients", "connections", "channelEnds", "nextSequenceRecv", "nextSequenceAck",
	"nextSequenceSend", "recvStartSequence", "clientState", "consensusStates", "async_packet", "alias", "nextClientSequence", "nextChannelSequence", "counterparty", "creator", "config"}

// idFamily returns valid identifiers for one role (length bounds min..max) with hostile relations between them.
func idFamily(r *kit.Rng, min, max, bases int) []string {
	set := map[string]struct{}{}
	add := func(s string) {
		if len(s) < min || len(s) > max || !validIDRef(s) {
			return
		}
		set[s] = struct{}{}
	}
	for i := 0; i < bases; i++ {
		var b string
		switch r.Intn(5) {
		case 0:
			b = randID(r, min, min+2)
		case 1:
			b = randID(r, max-3, max-3)
		case 2:
			b = kit.Pick(r, pathWords)
			for len(b) < min {
				b += "s"
			}
		default:
			b = randID(r, min, 24)
		}
		add(b)
		for _, suf := range []string{"-1", "-10", "-11", "-1x", "0", "1", "-", ".", "#", "]", ">", "s", "-18446744073709551615"} {
			add(b + suf)
		}
		if len(b) > min {
			add(b[:len(b)-1])
		}
		for _, w := range []string{"ports", "channels", "sequences", "async_packet", "alias", "clients"} {
			add(b + w)
			add(w + b)
		}
	}
	add(allSymbolsID(r, min, max))
	add(randID(r, max, max))
	add(randID(r, min, min))
	out := make([]string, 0, len(set))
	for s := range set {
		out = append(out, s)
	}
	sort.Strings(out)
	return out
}

// validIDRef is the identifier rule of ICS-24 as the statement gives it: allowed characters only, no '/'.
func validIDRef(s string) bool {
	if s == "" {
		return false
	}
	for i := 0; i < len(s); i++ {
		ch := s[i]
		switch {
		case ch >= 'a' && ch <= 'z', ch >= 'A' && ch <= 'Z', ch >= '0' && ch <= '9', strings.IndexByte(symbols, ch) >= 0:
		default:
			return false
		}
	}
	return true
}

// chainIDs are identifiers a chain can generate: <client type>-<n>, channel-<n>.
func chainGeneratedIDs(r *kit.Rng, n int) (clients, channels []string) {
	types := []string{exported.Tendermint, exported.Solomachine, "08-wasm", RecClientType}
	nums := []uint64{0, 1, 10, 11, 100, 101, 2, 20, 1<<64 - 1, 1844674407370955161}
	cs, chs := map[string]struct{}{}, map[string]struct{}{}
	for i := 0; i < n; i++ {
		x := kit.Pick(r, nums)
		if r.Chance(1, 3) {
			x = uint64(r.Intn(1000))
		}
		cs[fmt.Sprintf("%s-%d", kit.Pick(r, types), x)] = struct{}{}
		chs[fmt.Sprintf("channel-%d", x)] = struct{}{}
	}
	for s := range cs {
		clients = append(clients, s)
	}
	for s := range chs {
		channels = append(channels, s)
	}
	sort.Strings(clients)
	sort.Strings(channels)
	return
}

func seqFamily(r *kit.Rng, n int) []uint64 {
	set := map[uint64]struct{}{0: {}, 1: {}, 10: {}, 11: {}, 3: {}, 23: {}, 1<<64 - 1: {}}
	for len(set) < n {
		set[r.Boundary64()] = struct{}{}
	}
	out := make([]uint64, 0, len(set))
	for s := range set {
		out = append(out, s)
	}
	sort.Slice(out, func(i, j int) bool { return out[i] < out[j] })
	return out
}

// ---------------------------------------------------------------------------------------------
// (1) key distinctness

type tuple struct {
	Kind string
	A, B string
	Seq  uint64
	Rev  uint64
}

func (t tuple) String() string { return fmt.Sprintf("%s(%q,%q,%d,%d)", t.Kind, t.A, t.B, t.Seq, t.Rev) }

type keyset struct {
	c    *kit.Check
	lim  *sigLimiter
	m    map[string]tuple
	n    int
	kind map[string]int
}

func (k *keyset) put(t tuple, key []byte) {
	k.n++
	k.kind[t.Kind]++
	if old, ok := k.m[string(key)]; ok && old != t {
		a, b := old.Kind, t.Kind
		if a > b {
			a, b = b, a
		}
		k.lim.violate(fmt.Sprintf("C16|key-collision|%s~%s", a, b), fmt.Sprintf("distinct objects %s and %s map to the same store key %q", old, t, key),
			map[string]any{"first": old, "second": t, "key": fmt.Sprintf("%q", key)})
		return
	}
	k.m[string(key)] = t
}

func bitsLen(n int) int {
	l := 0
	for ; n > 0; n >>= 1 {
		l++
	}
	return l
}

func c16Keys(c *kit.Check, lim *sigLimiter, caseID int) {
	r := c.CaseRng(caseID)
	ports := idFamily(r, 2, 128, 3)
	chans := idFamily(r, 8, 64, 3)
	clients := idFamily(r, 4, 64, 4)
	conns := idFamily(r, 10, 64, 2)
	genClients, genChans := chainGeneratedIDs(r, 8)
	seqs := seqFamily(r, 10)
	ks := &keyset{c: c, lim: lim, m: map[string]tuple{}, kind: map[string]int{}}

	// constants of the ibc store
	for _, k := range []string{clienttypes.KeyNextClientSequence, clienttypes.ParamsKey, connectiontypes.KeyNextConnectionSequence, connectiontypes.ParamsKey, channeltypes.KeyNextChannelSequence} {
		ks.put(tuple{Kind: "const", A: k}, []byte(k))
	}
	// v1: (kind, port, channel[, seq]); a sample of the port x channel product, always including related ids
	kit.Shuffle(r, ports)
	kit.Shuffle(r, chans)
	np, nc := min(len(ports), 7), min(len(chans), 9)
	type pcPair struct{ p, ch string }
	var pairs []pcPair
	for _, p := range ports[:np] {
		for _, ch := range append(chans[:nc:nc], genChans[:min(2, len(genChans))]...) {
			pairs = append(pairs, pcPair{p, ch})
		}
	}
	// every split of one string into (port, channel): the pairs differ although their concatenations are equal
	for k := 0; k < 3; k++ {
		whole := randID(r, 12, 40)
		for i := 2; i+8 <= len(whole); i++ {
			if i <= 4 || r.Chance(1, 3) {
				pairs = append(pairs, pcPair{whole[:i], whole[i:]})
			}
		}
	}
	{
		for _, pr := range pairs {
			p, ch := pr.p, pr.ch
			ks.put(tuple{Kind: "v1/nextSeqRecv", A: p, B: ch}, host.NextSequenceRecvKey(p, ch))
			ks.put(tuple{Kind: "v1/nextSeqAck", A: p, B: ch}, host.NextSequenceAckKey(p, ch))
			ks.put(tuple{Kind: "v1/recvStart", A: p, B: ch}, host.RecvStartSequenceKey(p, ch))
			ks.put(tuple{Kind: "v1/channelEnd", A: p, B: ch}, host.ChannelKey(p, ch))
			for _, s := range seqs {
				ks.put(tuple{Kind: "v1/commit", A: p, B: ch, Seq: s}, host.PacketCommitmentKey(p, ch, s))
				ks.put(tuple{Kind: "v1/ack", A: p, B: ch, Seq: s}, host.PacketAcknowledgementKey(p, ch, s))
				ks.put(tuple{Kind: "v1/receipt", A: p, B: ch, Seq: s}, host.PacketReceiptKey(p, ch, s))
			}
		}
	}
	// v2: (kind, client, seq); ports and channels are valid client identifiers too when long enough
	v2ids := append([]string{}, clients...)
	for _, s := range append(append([]string{}, ports[:np]...), chans[:nc]...) {
		if len(s) >= 4 && len(s) <= 64 {
			v2ids = append(v2ids, s)
		}
	}
	v2ids = append(v2ids, genClients...)
	v2ids = append(v2ids, genChans...)
	seen := map[string]bool{}
	for _, id := range v2ids {
		if seen[id] {
			continue
		}
		seen[id] = true
		ks.put(tuple{Kind: "v2/nextSeqSend", A: id}, hostv2.NextSequenceSendKey(id))
		for _, s := range seqs {
			ks.put(tuple{Kind: "v2/commit", A: id, Seq: s}, hostv2.PacketCommitmentKey(id, s))
			ks.put(tuple{Kind: "v2/receipt", A: id, Seq: s}, hostv2.PacketReceiptKey(id, s))
			ks.put(tuple{Kind: "v2/ack", A: id, Seq: s}, hostv2.PacketAcknowledgementKey(id, s))
		}
	}
	// async / alias keys: chain-generatable ids only (DESIGN F10)
	for _, id := range append(append([]string{}, genClients...), genChans...) {
		ks.put(tuple{Kind: "v2/alias", A: id}, channeltypesv2.AliasKey(id))
		for _, s := range seqs {
			ks.put(tuple{Kind: "v2/async", A: id, Seq: s}, channeltypesv2.AsyncPacketKey(id, s))
		}
	}
	// client and connection keys
	for _, id := range append(append([]string{}, clients...), genClients...) {
		ks.put(tuple{Kind: "cl/state", A: id}, host.FullClientStateKey(id))
		ks.put(tuple{Kind: "cl/connections", A: id}, host.ClientConnectionsKey(id))
		ks.put(tuple{Kind: "cl/creator", A: id}, host.FullClientKey(id, clienttypes.CreatorKey()))
		ks.put(tuple{Kind: "cl/counterparty", A: id}, host.FullClientKey(id, clientv2types.CounterpartyKey()))
		ks.put(tuple{Kind: "cl/config", A: id}, host.FullClientKey(id, clientv2types.ConfigKey()))
		for i, s := range seqs {
			// every height under two revision numbers, and every revision with two heights
			for _, rev := range []uint64{seqs[(i*7+3)%len(seqs)], seqs[(i+1)%len(seqs)]} {
				ks.put(tuple{Kind: "cl/consensus", A: id, Seq: s, Rev: rev}, host.FullConsensusStateKey(id, clienttypes.NewHeight(rev, s)))
			}
		}
	}
	for _, id := range conns {
		ks.put(tuple{Kind: "conn", A: id}, host.ConnectionKey(id))
	}
	c.Obs("keys_generated", int64(ks.n))
	c.Evaluations += int64(ks.n) // every key put is one collision decision
	c.Obs("distinct_keys", int64(len(ks.m)))
	kinds := make([]string, 0, len(ks.kind))
	for k := range ks.kind {
		kinds = append(kinds, k)
	}
	sort.Strings(kinds)
	for _, k := range kinds {
		c.Obs("keys_"+k, int64(ks.kind[k]))
		c.Eval(fmt.Sprintf("keys|%s|n%d", k, bitsLen(ks.kind[k])))
	}
	c.Eval(fmt.Sprintf("keys|p%d|c%d|cl%d|maxlen=%v|%d", len(ports), len(chans), len(clients), len(ports[0]) == 128 || len(chans[0]) == 64, len(ks.m)/500))
	if caseID < 2 {
		c.Sample(map[string]any{"part": "keys", "ports": ports[:min(4, len(ports))], "channels": chans[:min(4, len(chans))], "clients": clients[:min(4, len(clients))], "seqs": seqs, "keys": ks.n})
	}
}

// ---------------------------------------------------------------------------------------------
// (2) prefix iteration through the real keepers

func tag(t tuple) []byte {
	h := sha256.Sum256([]byte(t.String()))
	return h[:]
}

func c16Iteration(c *kit.Check, lim *sigLimiter, caseID int) {
	r := c.CaseRng(caseID)
	w := kit.NewWorld(c.T, 1)
	ch := w.Chains[0]
	ibck := ch.App.GetIBCKeeper()
	ck, ck2, clk := ibck.ChannelKeeper, ibck.ChannelKeeperV2, ibck.ClientKeeper

	ports := idFamily(r, 2, 128, 2)
	chans := idFamily(r, 8, 64, 2)
	clients := idFamily(r, 4, 64, 3)
	genClients, genChans := chainGeneratedIDs(r, 6)
	kit.Shuffle(r, ports)
	kit.Shuffle(r, chans)
	kit.Shuffle(r, clients)
	ports = ports[:min(4, len(ports))]
	chans = append(chans[:min(5, len(chans))], genChans[:min(2, len(genChans))]...)
	clients = clients[:min(8, len(clients))]
	// make sure prefix-related identifiers are present together
	base := randID(r, 8, 12)
	chans = append(chans, base, base+"0", base+"-1", base+"-10")
	cb := randID(r, 4, 10)
	clients = append(clients, cb, cb+"0", cb+"-1", cb+"-10", cb+"-11")
	seqs := seqFamily(r, 6)

	written := map[string]tuple{} // tag -> tuple
	owner := func(t tuple) []byte {
		tg := tag(t)
		written[string(tg)] = t
		return tg
	}
	type pc struct{ p, c string }
	var pcs []pc
	for _, p := range ports {
		for _, cid := range chans {
			if r.Chance(2, 3) {
				pcs = append(pcs, pc{p, cid})
			}
		}
	}
	v2ids := append(append(append([]string{}, clients...), genClients...), genChans...)
	generated := map[string]bool{}
	for _, id := range append(append([]string{}, genClients...), genChans...) {
		generated[id] = true
	}
	wrote := map[tuple][]byte{}
	o := ch.InBlock(func(ctx sdk.Context) error {
		for _, x := range pcs {
			chEnd := channeltypes.NewChannel(channeltypes.OPEN, channeltypes.UNORDERED, channeltypes.NewCounterparty(x.p, x.c), []string{"connection-0"}, fmt.Sprintf("%x", owner(tuple{Kind: "v1/channelEnd", A: x.p, B: x.c})))
			ck.SetChannel(ctx, x.p, x.c, chEnd)
			for _, s := range seqs {
				if r.Chance(1, 4) {
					continue
				}
				t := tuple{Kind: "v1/commit", A: x.p, B: x.c, Seq: s}
				wrote[t] = owner(t)
				ck.SetPacketCommitment(ctx, x.p, x.c, s, wrote[t])
				t = tuple{Kind: "v1/ack", A: x.p, B: x.c, Seq: s}
				wrote[t] = owner(t)
				ck.SetPacketAcknowledgement(ctx, x.p, x.c, s, wrote[t])
				t = tuple{Kind: "v1/receipt", A: x.p, B: x.c, Seq: s}
				wrote[t] = []byte{1}
				ck.SetPacketReceipt(ctx, x.p, x.c, s)
			}
		}
		for _, id := range v2ids {
			for _, s := range seqs {
				if r.Chance(1, 4) {
					continue
				}
				t := tuple{Kind: "v2/commit", A: id, Seq: s}
				wrote[t] = owner(t)
				ck2.SetPacketCommitment(ctx, id, s, wrote[t])
				t = tuple{Kind: "v2/ack", A: id, Seq: s}
				wrote[t] = owner(t)
				ck2.SetPacketAcknowledgement(ctx, id, s, wrote[t])
				t = tuple{Kind: "v2/receipt", A: id, Seq: s}
				wrote[t] = []byte{2}
				ck2.SetPacketReceipt(ctx, id, s)
				if generated[id] {
					t = tuple{Kind: "v2/async", A: id, Seq: s}
					pkt := channeltypesv2.NewPacket(s, id, "cp-"+id, 1, channeltypesv2.NewPayload("a", "b", "v", "e", owner(t)))
					wrote[t] = ch.App.AppCodec().MustMarshal(&pkt)
					ck2.SetAsyncPacket(ctx, id, s, pkt)
				}
			}
			if generated[id] {
				t := tuple{Kind: "v2/alias", A: id}
				wrote[t] = []byte("base-of-" + id)
				ck2.SetClientForAlias(ctx, id, "base-of-"+id)
			}
			// client namespace: raw entries in the client's prefix store
			st := clk.ClientStore(ctx, id)
			for j := 0; j < 3; j++ {
				t := tuple{Kind: "cl/raw", A: id, Seq: uint64(j)}
				wrote[t] = owner(t)
				st.Set([]byte(fmt.Sprintf("verif/%d", j)), wrote[t])
			}
		}
		return nil
	})
	if o.Err != nil {
		c.Inconcl("setters: " + o.Err.Error())
		return
	}
	c.Obs("iteration_entries_written", int64(len(wrote)))

	ctx := ch.GetContext()
	foreign := func(kind, ownerDesc string, got any) {
		lim.violate("C16|prefix-iteration-foreign-entry|"+kind, fmt.Sprintf("iteration %s for %s returned an entry that was not written for it: %v", kind, ownerDesc, got),
			map[string]any{"iteration": kind, "owner": ownerDesc, "entry": fmt.Sprintf("%v", got)})
	}
	// ---- v1 per-channel iterations
	qs := channelkeeper.NewQueryServer(ck)
	for _, x := range pcs {
		desc := fmt.Sprintf("(%q,%q)", x.p, x.c)
		checkV1 := func(kind, iter string, states []channeltypes.PacketState) {
			c.Inc("iterations_run")
			for _, ps := range states {
				c.Inc("iteration_entries_returned")
				want, ok := wrote[tuple{Kind: kind, A: x.p, B: x.c, Seq: ps.Sequence}]
				if !ok || !bytes.Equal(want, ps.Data) || ps.PortId != x.p || ps.ChannelId != x.c {
					foreign(iter, desc, ps)
				}
			}
			c.Eval(fmt.Sprintf("iter|%s|n%d|plen%d|clen%d", iter, min(len(states), 3), len(x.p)/32, len(x.c)/16))
		}
		if err := kit.TryAll(func() {
			checkV1("v1/commit", "GetAllPacketCommitmentsAtChannel", ck.GetAllPacketCommitmentsAtChannel(ctx, x.p, x.c))
		}); err != nil {
			lim.violate("C16|prefix-iteration-panics|GetAllPacketCommitmentsAtChannel", fmt.Sprintf("iteration for %s panicked: %v", desc, err), nil)
		}
		if err := kit.TryAll(func() {
			res, err := qs.PacketCommitments(ctx, &channeltypes.QueryPacketCommitmentsRequest{PortId: x.p, ChannelId: x.c})
			if err != nil {
				c.Inc("grpc_query_errors")
				return
			}
			var st []channeltypes.PacketState
			for _, p := range res.Commitments {
				st = append(st, *p)
			}
			checkV1("v1/commit", "grpc.PacketCommitments", st)
		}); err != nil {
			lim.violate("C16|prefix-iteration-panics|grpc.PacketCommitments", fmt.Sprintf("query for %s panicked: %v", desc, err), nil)
		}
		if err := kit.TryAll(func() {
			res, err := qs.PacketAcknowledgements(ctx, &channeltypes.QueryPacketAcknowledgementsRequest{PortId: x.p, ChannelId: x.c})
			if err != nil {
				c.Inc("grpc_query_errors")
				return
			}
			var st []channeltypes.PacketState
			for _, p := range res.Acknowledgements {
				st = append(st, *p)
			}
			checkV1("v1/ack", "grpc.PacketAcknowledgements", st)
		}); err != nil {
			lim.violate("C16|prefix-iteration-panics|grpc.PacketAcknowledgements", fmt.Sprintf("query for %s panicked: %v", desc, err), nil)
		}
		// a channel without commitments must not see a sibling's
		has := false
		for _, s := range seqs {
			if _, ok := wrote[tuple{Kind: "v1/commit", A: x.p, B: x.c, Seq: s}]; ok {
				has = true
			}
		}
		if got := ck.HasInflightPackets(ctx, x.p, x.c); got && !has {
			foreign("HasInflightPackets", desc, "true although no commitment was written for this channel")
		}
		c.Inc("iterations_run")
	}
	// ---- v2 per-client iterations
	for _, id := range v2ids {
		desc := fmt.Sprintf("client %q", id)
		checkV2 := func(kind, iter string, get func() []channeltypesv2.PacketState) {
			if err := kit.TryAll(func() {
				states := get()
				c.Inc("iterations_run")
				for _, ps := range states {
					c.Inc("iteration_entries_returned")
					want, ok := wrote[tuple{Kind: kind, A: id, Seq: ps.Sequence}]
					if !ok || !bytes.Equal(want, ps.Data) || ps.ClientId != id {
						foreign(iter, desc, ps)
					}
				}
				c.Eval(fmt.Sprintf("iter|%s|n%d|len%d|gen=%v", iter, min(len(states), 3), len(id)/16, generated[id]))
			}); err != nil {
				lim.violate("C16|prefix-iteration-panics|"+iter, fmt.Sprintf("iteration for %s panicked: %v", desc, err), map[string]any{"client": id})
			}
		}
		checkV2("v2/commit", "GetAllPacketCommitmentsForClient", func() []channeltypesv2.PacketState { return ck2.GetAllPacketCommitmentsForClient(ctx, id) })
		checkV2("v2/ack", "GetAllPacketAcknowledgementsForClient", func() []channeltypesv2.PacketState { return ck2.GetAllPacketAcknowledgementsForClient(ctx, id) })
		checkV2("v2/receipt", "GetAllPacketReceiptsForClient", func() []channeltypesv2.PacketState { return ck2.GetAllPacketReceiptsForClient(ctx, id) })
		if generated[id] {
			checkV2("v2/async", "GetAllAsyncPacketsForClient", func() []channeltypesv2.PacketState { return ck2.GetAllAsyncPacketsForClient(ctx, id) })
		}
		// the client's prefix store
		it := clk.ClientStore(ctx, id).Iterator(nil, nil)
		n := 0
		for ; it.Valid(); it.Next() {
			n++
			c.Inc("iteration_entries_returned")
			t, ok := written[string(it.Value())]
			if !ok || t.Kind != "cl/raw" || t.A != id || string(it.Key()) != fmt.Sprintf("verif/%d", t.Seq) {
				foreign("ClientStore.Iterator", desc, fmt.Sprintf("%q=%x", it.Key(), it.Value()))
			}
		}
		it.Close()
		c.Inc("iterations_run")
		c.Eval(fmt.Sprintf("iter|ClientStore|n%d|len%d|gen=%v", min(n, 4), len(id)/16, generated[id]))
	}
	// ---- read back every tuple through the keeper getters
	clobber := func(t tuple, got []byte) {
		lim.violate("C16|readback-clobbered|"+t.Kind, fmt.Sprintf("%s does not read back the value written for it (got %x)", t, got), map[string]any{"tuple": t})
	}
	tuples := make([]tuple, 0, len(wrote))
	for t := range wrote {
		tuples = append(tuples, t)
	}
	sort.Slice(tuples, func(i, j int) bool { return tuples[i].String() < tuples[j].String() })
	for _, t := range tuples {
		want := wrote[t]
		var got []byte
		switch t.Kind {
		case "v1/commit":
			got = ck.GetPacketCommitment(ctx, t.A, t.B, t.Seq)
		case "v1/ack":
			got, _ = ck.GetPacketAcknowledgement(ctx, t.A, t.B, t.Seq)
		case "v1/receipt":
			s, _ := ck.GetPacketReceipt(ctx, t.A, t.B, t.Seq)
			got = []byte(s)
		case "v2/commit":
			got = ck2.GetPacketCommitment(ctx, t.A, t.Seq)
		case "v2/ack":
			got = ck2.GetPacketAcknowledgement(ctx, t.A, t.Seq)
		case "v2/receipt":
			got, _ = ck2.GetPacketReceipt(ctx, t.A, t.Seq)
		case "v2/async":
			p, ok := ck2.GetAsyncPacket(ctx, t.A, t.Seq)
			if ok {
				got = ch.App.AppCodec().MustMarshal(&p)
			}
		case "v2/alias":
			s, _ := ck2.GetClientForAlias(ctx, t.A)
			got = []byte(s)
		case "cl/raw":
			got = clk.ClientStore(ctx, t.A).Get([]byte(fmt.Sprintf("verif/%d", t.Seq)))
		}
		c.Inc("readbacks")
		if !bytes.Equal(got, want) {
			clobber(t, got)
		}
	}
	if caseID%7 == 0 {
		c.Sample(map[string]any{"part": "iteration", "channels": chans, "clients": clients[:min(6, len(clients))], "written": len(wrote)})
	}
}

// ---------------------------------------------------------------------------------------------
// (3) client operations stay in their namespace

type nsWorld struct {
	c       *kit.Check
	lim     *sigLimiter
	w       *kit.World
	A, B    *kit.Chain
	last    *kit.Outcome
	creates int
	tm      []*tmClient
	solos   []*soloClient
	classes []string
	aged    bool // the clock of this world was moved across a trusting period once (other clients expire)
}

type tmClient struct {
	ep       *ibctesting.Endpoint
	frozen   bool
	upgraded bool
	hasCP    bool
}

type soloClient struct {
	solo   *ibctesting.Solomachine
	id     string
	frozen bool
}

func keyClass(key []byte, target string) string {
	k := string(key)
	switch {
	case strings.HasPrefix(k, "clients/"+target+"/"):
		rest := strings.TrimPrefix(k, "clients/"+target+"/")
		if i := strings.IndexByte(rest, '/'); i >= 0 {
			rest = rest[:i]
		}
		return "own:" + rest
	case strings.HasPrefix(k, "clients/"+target):
		return "clients/<target>+suffix"
	case strings.HasPrefix(k, "clients/"):
		return "clients/<other>"
	case strings.HasPrefix(k, "nextSequenceSend"):
		return "nextSequenceSend"
	default:
		if i := strings.IndexByte(k, '/'); i >= 0 {
			return k[:i]
		}
		if len(k) > 24 {
			return fmt.Sprintf("%q", k[:24])
		}
		return k
	}
}

// judge checks one operation outcome against the namespace rule.
func (n *nsWorld) judge(op, ctype, target string, o *kit.Outcome, allow ...string) {
	c := n.c
	c.Inc("client_ops")
	c.Inc("client_ops_" + op)
	if o == nil {
		c.Inc("client_ops_unobserved")
		return
	}
	diff := o.DiffIn("ibc")
	if !o.OK() {
		c.Inc("client_ops_failed")
		if debugC18 {
			c.T.Logf("failed %s %s on %s: %s", op, ctype, target, trimLog(o.Log))
		}
		if len(diff) > 0 {
			n.lim.violate("C16|failed-client-op-changed-state|"+op, fmt.Sprintf("failed %s on %s changed the ibc store: %s", op, target, o.DiffString()), map[string]any{"op": op, "target": target, "log": trimLog(o.Log)})
		}
		n.classes = append(n.classes, fmt.Sprintf("%s|%s|fail", op, ctype))
		return
	}
	c.Inc("client_ops_ok")
	c.Inc("client_ops_ok_" + op)
	kinds := map[string]struct{}{}
	pre := "clients/" + target + "/"
	for _, kv := range diff {
		c.Inc("client_op_keys_checked")
		k := string(kv.Key)
		ok := strings.HasPrefix(k, pre)
		for _, a := range allow {
			if k == a {
				ok = true
			}
		}
		kc := keyClass(kv.Key, target)
		kinds[kc] = struct{}{}
		if !ok {
			n.lim.violate(fmt.Sprintf("C16|client-op-writes-outside-namespace|%s|%s", op, kc),
				fmt.Sprintf("%s of client %s wrote ibc-store key %q outside clients/%s/", op, target, k, target),
				map[string]any{"op": op, "target": target, "key": fmt.Sprintf("%q", k), "old": fmt.Sprintf("%x", kv.Old), "new": fmt.Sprintf("%x", kv.New)})
		}
	}
	if len(diff) == 0 {
		c.Inc("client_ops_ok_without_ibc_writes")
	}
	ks := make([]string, 0, len(kinds))
	for k := range kinds {
		ks = append(ks, k)
	}
	sort.Strings(ks)
	n.classes = append(n.classes, fmt.Sprintf("%s|%s|ok|%s", op, ctype, strings.Join(ks, ",")))
	if len(c.Samples) < 6 && len(diff) > 0 && (op == "recover" || op == "upgrade" || len(c.Samples) < 2) {
		var keys []string
		for _, kv := range diff {
			keys = append(keys, string(kv.Key))
		}
		c.Sample(map[string]any{"part": "namespace", "op": op, "target": target, "written_keys": keys})
	}
}

func (n *nsWorld) signer() string { return n.A.DefaultSender().SenderAccount.GetAddress().String() }

func (n *nsWorld) deliver(msgs ...sdk.Msg) *kit.Outcome {
	return n.A.Deliver(n.A.DefaultSender(), msgs...)
}

func (n *nsWorld) createTM() {
	p := ibctesting.NewPath(n.A.TestChain, n.B.TestChain)
	ep := p.EndpointA
	want := fmt.Sprintf("%s-%d", exported.Tendermint, n.creates)
	n.last = nil
	var cerr error
	if err := kit.Try(func() { cerr = ep.CreateClient() }); err != nil || cerr != nil {
		n.c.Inc("client_ops_helper_aborts")
		return
	}
	n.creates++
	if ep.ClientID != want {
		n.c.Inconcl(fmt.Sprintf("created client id %s, harness expected %s", ep.ClientID, want))
		return
	}
	n.judge("create", "tm", want, n.last, clienttypes.KeyNextClientSequence)
	n.tm = append(n.tm, &tmClient{ep: ep})
}

func (n *nsWorld) updateTM(t *tmClient) {
	n.last = nil
	var uerr error
	if err := kit.Try(func() { uerr = t.ep.UpdateClient() }); err != nil {
		n.c.Inc("client_ops_helper_aborts")
		return
	}
	_ = uerr
	n.judge("update", "tm", t.ep.ClientID, n.last)
}

func (n *nsWorld) misbehaveTM(t *tmClient) {
	ep := t.ep
	var msg sdk.Msg
	if err := kit.Try(func() {
		trusted := ep.GetClientLatestHeight().(clienttypes.Height)
		tv, ok := n.B.TrustedValidators[trusted.RevisionHeight]
		if !ok {
			panic(kit.Abort{Msg: "no trusted validators"})
		}
		if err := ep.UpdateClient(); err != nil {
			panic(kit.Abort{Msg: err.Error()})
		}
		h := ep.GetClientLatestHeight().(clienttypes.Height)
		mb := &ibctm.Misbehaviour{
			ClientId: ep.ClientID,
			Header1:  n.B.CreateTMClientHeader(n.B.ChainID, int64(h.RevisionHeight), trusted, n.B.ProposedHeader.Time.Add(time.Minute), n.B.Vals, n.B.NextVals, tv, n.B.Signers),
			Header2:  n.B.CreateTMClientHeader(n.B.ChainID, int64(h.RevisionHeight), trusted, n.B.ProposedHeader.Time, n.B.Vals, n.B.NextVals, tv, n.B.Signers),
		}
		m, err := clienttypes.NewMsgUpdateClient(ep.ClientID, mb, n.signer())
		if err != nil {
			panic(kit.Abort{Msg: err.Error()})
		}
		msg = m
	}); err != nil {
		n.c.Inc("client_ops_helper_aborts")
		return
	}
	o := n.deliver(msg)
	n.judge("misbehaviour", "tm", ep.ClientID, o)
	if o.OK() {
		t.frozen = true
	}
}

func (n *nsWorld) recover(op, ctype, subject, substitute string) *kit.Outcome {
	ibck := n.A.App.GetIBCKeeper()
	o := n.A.InBlock(func(ctx sdk.Context) error {
		_, err := ibck.RecoverClient(ctx, clienttypes.NewMsgRecoverClient(ibck.GetAuthority(), subject, substitute))
		return err
	})
	n.judge(op, ctype, subject, o)
	return o
}

func (n *nsWorld) upgradeTM(t *tmClient, r *kit.Rng) {
	ep := t.ep
	var msg sdk.Msg
	if err := kit.Try(func() {
		cs := ep.GetClientState().(*ibctm.ClientState)
		rev := clienttypes.ParseChainID(cs.ChainId)
		newChainID, err := clienttypes.SetRevisionNumber(cs.ChainId, rev+1)
		if err != nil {
			panic(kit.Abort{Msg: err.Error()})
		}
		up := ibctm.NewClientState(newChainID, ibctm.DefaultTrustLevel, ibctesting.TrustingPeriod, ibctesting.UnbondingPeriod+ibctesting.TrustingPeriod, ibctesting.MaxClockDrift,
			clienttypes.NewHeight(rev+1, cs.LatestHeight.GetRevisionHeight()+1+uint64(r.Intn(5))), commitmenttypes.GetSDKSpecs(), ibctesting.UpgradePath).ZeroCustomFields()
		upAny, err := codectypes.NewAnyWithValue(up)
		if err != nil {
			panic(kit.Abort{Msg: err.Error()})
		}
		upCons := &ibctm.ConsensusState{NextValidatorsHash: []byte("nextValsHash")}
		upConsAny, err := codectypes.NewAnyWithValue(upCons)
		if err != nil {
			panic(kit.Abort{Msg: err.Error()})
		}
		var planHeight int64
		o := n.B.InBlock(func(ctx sdk.Context) error {
			planHeight = ctx.BlockHeight() + 1
			if err := n.B.Sim.UpgradeKeeper.SetUpgradedClient(ctx, planHeight, n.B.Codec.MustMarshal(upAny)); err != nil {
				return err
			}
			return n.B.Sim.UpgradeKeeper.SetUpgradedConsensusState(ctx, planHeight, n.B.Codec.MustMarshal(upConsAny))
		})
		if o.Err != nil {
			panic(kit.Abort{Msg: o.Err.Error()})
		}
		if err := ep.UpdateClient(); err != nil {
			panic(kit.Abort{Msg: err.Error()})
		}
		latest := ep.GetClientLatestHeight().(clienttypes.Height)
		if int64(latest.RevisionHeight) != planHeight {
			panic(kit.Abort{Msg: fmt.Sprintf("client height %d != plan height %d", latest.RevisionHeight, planHeight)})
		}
		pc, _ := n.B.QueryUpgradeProof(upgradetypes.UpgradedClientKey(planHeight), latest.RevisionHeight)
		pcs, _ := n.B.QueryUpgradeProof(upgradetypes.UpgradedConsStateKey(planHeight), latest.RevisionHeight)
		m, err := clienttypes.NewMsgUpgradeClient(ep.ClientID, up, upCons, pc, pcs, n.signer())
		if err != nil {
			panic(kit.Abort{Msg: err.Error()})
		}
		msg = m
	}); err != nil {
		n.c.Inc("client_ops_helper_aborts")
		n.c.Inc("upgrade_setup_aborts")
		return
	}
	o := n.deliver(msg)
	n.judge("upgrade", "tm", ep.ClientID, o)
	if o.OK() {
		t.upgraded = true
	}
}

func (n *nsWorld) createSolo(r *kit.Rng) {
	want := fmt.Sprintf("%s-%d", exported.Solomachine, n.creates)
	solo := ibctesting.NewSolomachine(n.c.T, n.A.Codec, want, fmt.Sprintf("div%d", r.Intn(100)), uint64(1+r.Intn(2)))
	msg, err := clienttypes.NewMsgCreateClient(solo.ClientState(), solo.ConsensusState(), n.signer())
	if err != nil {
		return
	}
	o := n.deliver(msg)
	if o.OK() {
		n.creates++
		n.solos = append(n.solos, &soloClient{solo: solo, id: want})
	}
	n.judge("create", "solo", want, o, clienttypes.KeyNextClientSequence)
}

func (n *nsWorld) updateSolo(s *soloClient, r *kit.Rng) {
	var msg sdk.Msg
	if err := kit.Try(func() {
		h := s.solo.CreateHeader(fmt.Sprintf("div%d", r.Intn(100)))
		m, err := clienttypes.NewMsgUpdateClient(s.id, h, n.signer())
		if err != nil {
			panic(kit.Abort{Msg: err.Error()})
		}
		msg = m
	}); err != nil {
		return
	}
	n.judge("update", "solo", s.id, n.deliver(msg))
}

func (n *nsWorld) misbehaveSolo(s *soloClient) {
	var msg sdk.Msg
	if err := kit.Try(func() {
		m, err := clienttypes.NewMsgUpdateClient(s.id, s.solo.CreateMisbehaviour(), n.signer())
		if err != nil {
			panic(kit.Abort{Msg: err.Error()})
		}
		msg = m
	}); err != nil {
		return
	}
	o := n.deliver(msg)
	n.judge("misbehaviour", "solo", s.id, o)
	if o.OK() {
		s.frozen = true
	}
}

func c16Namespace(c *kit.Check, lim *sigLimiter, caseID int) {
	r := c.CaseRng(caseID)
	n := &nsWorld{c: c, lim: lim}
	n.w = kit.NewWorld(c.T, 2)
	n.A, n.B = n.w.Chains[0], n.w.Chains[1]
	n.A.OnTx = func(o *kit.Outcome) { n.last = o }

	// enough clients that identifiers share prefixes (…-1 / …-10 / …-11)
	nTM := 3 + r.Intn(10)
	for i := 0; i < nTM; i++ {
		if r.Chance(1, 4) {
			n.createSolo(r)
		}
		n.createTM()
	}
	steps := c.N(45, 90)
	for s := 0; s < steps; s++ {
		if len(n.tm) == 0 {
			break
		}
		t := kit.Pick(r, n.tm)
		switch op := r.Intn(16); {
		case op < 4:
			if !t.frozen && !t.upgraded {
				n.updateTM(t)
			} else {
				// update of a frozen / upgraded client must fail without touching state
				n.updateTM(t)
			}
		case op == 4 || op == 5:
			if !t.frozen && !t.upgraded {
				n.misbehaveTM(t)
			}
		case op == 6:
			// recover a frozen client with an active, fresher substitute; sometimes an invalid recovery (active subject,
			// frozen or stale substitute) which must fail without a trace
			var subj, sub *tmClient
			for _, x := range n.tm {
				if x.frozen && (subj == nil || r.Bool()) {
					subj = x
				}
				if !x.frozen && !x.upgraded && (sub == nil || r.Bool()) {
					sub = x
				}
			}
			if subj == nil || r.Chance(1, 5) {
				subj = t
			}
			if sub == nil || r.Chance(1, 6) {
				sub = kit.Pick(r, n.tm)
			}
			if sub == subj {
				continue
			}
			if !sub.frozen && !sub.upgraded && r.Chance(5, 6) {
				n.updateTM(sub)
			}
			if !n.aged && !sub.frozen && !sub.upgraded && r.Chance(1, 3) {
				// a long-lived substitute: kept alive by updates across more than one trusting period, so that it still
				// holds consensus states that have expired (recovery must not tidy them up either)
				n.aged = true
				for k := 0; k < 2; k++ {
					n.w.Coord.IncrementTimeBy(ibctesting.TrustingPeriod/2 + time.Hour)
					n.updateTM(sub)
				}
				n.c.Inc("recoveries_with_aged_substitute")
			}
			o := n.recover("recover", "tm", subj.ep.ClientID, sub.ep.ClientID)
			if o.Err == nil && subj.frozen {
				subj.frozen = false
				c.Inc("recoveries_succeeded")
			}
		case op == 7:
			if !t.frozen && !t.upgraded {
				n.upgradeTM(t, r)
			}
		case op == 8:
			n.createTM()
		case op == 9:
			n.createSolo(r)
		case op == 10 && len(n.solos) > 0:
			s := kit.Pick(r, n.solos)
			n.updateSolo(s, r)
		case op == 11 && len(n.solos) > 0:
			s := kit.Pick(r, n.solos)
			if !s.frozen {
				n.misbehaveSolo(s)
			} else if len(n.solos) > 1 {
				sub := kit.Pick(r, n.solos)
				if sub != s && !sub.frozen {
					n.updateSolo(sub, r)
					n.updateSolo(sub, r)
					o := n.recover("recover", "solo", s.id, sub.id)
					if o.Err == nil {
						s.frozen = false
						// the subject now carries the substitute's key material
						s.solo = sub.solo
						c.Inc("recoveries_succeeded")
					}
				}
			}
		case op == 12:
			// localhost: there is nothing to update
			var msg sdk.Msg
			if err := kit.Try(func() {
				m, err := clienttypes.NewMsgUpdateClient(exported.LocalhostClientID, n.B.LatestCommittedHeader, n.signer())
				if err != nil {
					panic(kit.Abort{Msg: err.Error()})
				}
				msg = m
			}); err == nil {
				n.judge("update", "localhost", exported.LocalhostClientID, n.deliver(msg))
			}
		case op == 13:
			if !t.hasCP {
				cp := kit.Pick(r, n.tm)
				o := n.deliver(clientv2types.NewMsgRegisterCounterparty(t.ep.ClientID, [][]byte{[]byte("ibc"), []byte("")}, cp.ep.ClientID, n.signer()))
				n.judge("register-counterparty", "tm", t.ep.ClientID, o, string(hostv2.NextSequenceSendKey(t.ep.ClientID)))
				if o.OK() {
					t.hasCP = true
				}
			}
		case op == 14:
			cfg := clientv2types.NewConfig(n.A.Addr(r.Intn(3)).String())
			n.judge("update-config", "tm", t.ep.ClientID, n.deliver(clientv2types.NewMsgUpdateClientConfig(t.ep.ClientID, n.signer(), cfg)))
		default:
			n.judge("delete-creator", "tm", t.ep.ClientID, n.deliver(clienttypes.NewMsgDeleteClientCreator(t.ep.ClientID, n.signer())))
		}
	}
	c.Eval(strings.Join(dedupe(n.classes), ";"))
}

func dedupe(xs []string) []string {
	seen := map[string]bool{}
	var out []string
	for _, x := range xs {
		if !seen[x] {
			seen[x] = true
			out = append(out, x)
		}
	}
	sort.Strings(out)
	return out
}

func TestC16(t *testing.T) {
	c := kit.NewCheck(t, "C16", "exploration", c16Rule)
	defer c.Finish()
	c.Assume("async-packet and alias keys are checked on chain-generatable identifiers only (<client type>-<n>, channel-<n>): they carry no separator by design (DESIGN F10)")
	c.Assume("the v1 next-send sequence is stored under the v2 key of the channel identifier; it is treated as the (kind, client) tuple of that identifier, channel identifiers being unique per chain")
	c.Assume("counterparty registration may initialise the target client's own v2 nextSequenceSend key; it is allow-listed for that operation only")
	c.Floor("keys_generated", 200000)
	c.Floor("keys_v1/commit", 20000)
	c.Floor("keys_v2/receipt", 25000)
	c.Floor("keys_v2/async", 2500)
	c.Floor("iterations_run", 500)
	c.Floor("iteration_entries_returned", 2000)
	c.Floor("readbacks", 2000)
	c.Floor("client_ops_ok", 100)
	c.Floor("client_ops_failed", 30)
	c.Floor("client_op_keys_checked", 400)
	c.Floor("client_ops_ok_create", 40)
	c.Floor("client_ops_ok_update", 30)
	c.Floor("client_ops_ok_misbehaviour", 10)
	c.Floor("client_ops_ok_recover", 3)
	c.Floor("client_ops_ok_upgrade", 5)
	c.Floor("client_ops_ok_register-counterparty", 3)
	lim := &sigLimiter{c: c}
	for i := 0; i < c.N(60, 300); i++ {
		if c.SkipCase(i) {
			continue
		}
		c16Keys(c, lim, i)
	}
	for i := 0; i < c.N(8, 16); i++ {
		id := 10000 + i
		if c.SkipCase(id) {
			continue
		}
		c.Inc("cases")
		c16Iteration(c, lim, id)
	}
	for i := 0; i < c.N(8, 16); i++ {
		id := 20000 + i
		if c.SkipCase(id) {
			continue
		}
		c.Inc("cases")
		if err := kit.Try(func() { c16Namespace(c, lim, id) }); err != nil {
			c.Inconcl("namespace world: " + err.Error())
		}
	}
}
