package xfer

import (
	"fmt"
	"regexp"
	"strings"
	"testing"

	sdkmath "cosmossdk.io/math"

	sdk "github.com/cosmos/cosmos-sdk/types"

	transfertypes "github.com/cosmos/ibc-go/v11/modules/apps/transfer/types"
	clienttypes "github.com/cosmos/ibc-go/v11/modules/core/02-client/types"

	"verif/harness/kit"
)

var (
	reChan   = regexp.MustCompile(`^channel-\d+$`)
	reClient = regexp.MustCompile(`^[a-z0-9]+(-[a-z0-9]+)*-\d+$`)
	reNum    = regexp.MustCompile(`^\d+$`)
)

// segClass abstracts one '/'-separated segment of a base denomination.
func segClass(s string) string {
	switch {
	case s == "transfer":
		return "P"
	case reChan.MatchString(s):
		return "C"
	case reClient.MatchString(s):
		return "T"
	case reNum.MatchString(s):
		return "N"
	case s == "":
		return "E"
	default:
		return "W"
	}
}

// failClass names the input class of a failing denomination for the violation signature. The one class known to
// fail on the pinned tree (DESIGN §6 F4) is "the second segment of the base looks like a channel or client identifier":
// the ICS-20 path parser then takes the first two base segments for a hop. Every other failing input keeps its full shape.
func failClass(base string) string {
	segs := strings.Split(base, "/")
	if len(segs) >= 2 && (segClass(segs[1]) == "C" || segClass(segs[1]) == "T") {
		return "base-segment-2-is-channel-or-client-id"
	}
	return "shape=" + shapeOf(base)
}

func shapeOf(denom string) string {
	var cs []string
	for _, s := range strings.Split(denom, "/") {
		cs = append(cs, segClass(s))
	}
	return strings.Join(cs, "/")
}

func genSegment(r *kit.Rng) string {
	switch r.Intn(9) {
	case 0:
		return "transfer"
	case 1:
		return fmt.Sprintf("channel-%d", r.Intn(12))
	case 2:
		return fmt.Sprintf("07-tendermint-%d", r.Intn(5))
	case 3:
		return fmt.Sprint(r.Intn(1000))
	case 4:
		return kit.Pick(r, []string{"gamm", "pool", "factory", "uatom", "ibc", "mock"})
	case 5:
		return kit.Pick(r, []string{"a.b", "x_y", "c:d", "e-f"})
	case 6:
		return fmt.Sprintf("client-%d", r.Intn(3))
	default:
		return kit.Pick(r, []string{"abc", "stk", "foo", "Bar9"})
	}
}

// genBase: 1-6 segments; always starts with a letter so that the bank module accepts it.
func genBase(r *kit.Rng) string {
	n := 1 + r.Intn(4)
	if r.Intn(6) == 0 {
		n = 5 + r.Intn(2)
	}
	segs := make([]string, n)
	for i := range segs {
		segs[i] = genSegment(r)
	}
	if c := segs[0][0]; !((c >= 'a' && c <= 'z') || (c >= 'A' && c <= 'Z')) {
		segs[0] = "d" + segs[0]
	}
	d := strings.Join(segs, "/")
	if len(d) < 3 {
		d += "xx"
	}
	if r.Intn(6) == 0 {
		d = lengthen(r, d)
	}
	return d
}

// lengthen: long denominations (the bank module accepts up to 128 characters), e.g. tokenfactory / pool share names
func lengthen(r *kit.Rng, d string) string {
	target := 90 + r.Intn(39)
	d = kit.Pick(r, []string{"factory/cosmos1qyqszqgpqyqszqgpqyqszqgpqyqszqgpjnp7du/", "gamm/pool/", "u"}) + d
	for len(d) < target {
		d += kit.Pick(r, []string{"/share", "-lp", "x", "/7", ".v2", "_a"})
	}
	if len(d) > 128 {
		d = d[:128]
	}
	return strings.TrimRight(d, "/")
}

// TestC33: every base denomination the origin accepts for transfer can travel A→B and come back over the same
// channel, and the origin releases exactly the original denomination from that channel's escrow.
func TestC33(t *testing.T) {
	c := kit.NewCheck(t, "C33", "exploration",
		"cases = generated base denominations (1-6 '/'-separated segments shaped like ports, channel-N, clienttype-N, numbers, words, symbols) that the bank module and the origin's MsgTransfer accept; each is sent A→B (v1 channel, its v2 alias, or a v2 client pair) and the received voucher is sent back; distinct = distinct (segment-shape, lane kind) classes; non-trivial = denomination with at least one '/'")
	defer c.Finish()
	c.Floor("round_trips_completed", 30)
	c.Floor("origin_rejected", 0)
	c.Floor("multi_hop_round_trips_completed", 8)
	n := c.N(5, 10)
	per := 40
	for i := 0; i < n; i++ {
		if c.SkipCase(i) {
			continue
		}
		r := c.CaseRng(i)
		err := kit.Try(func() {
			s := NewSim(c, r, Line2())
			// the generic ledger/conservation monitors model only slash-free bases; this test has its own oracle
			for _, ch := range s.Ch {
				ch.OnTx = nil
			}
			a, b := s.Ch[0], s.Ch[1]
			for j := 0; j < per; j++ {
				base := genBase(r)
				if sdk.ValidateDenom(base) != nil {
					c.Inc("bank_rejects_denom")
					continue
				}
				lane := s.Lanes[r.Intn(len(s.Lanes))]
				s.roundTrip(c, a, b, lane, base, int64(10+r.Intn(90)))
			}
		})
		if err == nil {
			// multi-hop routes: 2 or 3 hops around a triangle of chains and back over the same channels in reverse
			err = kit.Try(func() {
				s := NewSim(c, r, Triangle())
				for _, ch := range s.Ch {
					ch.OnTx = nil
				}
				for j := 0; j < per/4; j++ {
					base := genBase(r)
					if r.Intn(3) == 0 {
						base = kit.Pick(r, []string{"uatom", "stk", "foo"})
					}
					if j%3 == 2 && len(base) < 90 {
						base = lengthen(r, base)
					}
					if len(base) >= 90 {
						c.Inc("routes_with_long_denomination")
					}
					if sdk.ValidateDenom(base) != nil {
						c.Inc("bank_rejects_denom")
						continue
					}
					s.routeTrip(c, r, base, int64(10+r.Intn(90)), 2+r.Intn(2))
				}
			})
		}
		c.Inc("cases")
		if err != nil {
			c.Inconcl(err.Error())
		}
	}
}

func (s *Sim) roundTrip(c *kit.Check, a, b *kit.Chain, lane *Lane, base string, amt int64) {
	shape := shapeOf(base)
	class := shape + "|" + lane.Kind
	sender, recvB := a.Addr(1), b.Addr(2)
	if err := kit.Try(func() { a.Fund(sender, base, amt) }); err != nil {
		c.Inc("fund_failed")
		return
	}
	side := lane.side(0)
	idA, idB := lane.Ends[side].ID, lane.Ends[1-side].ID
	escrow := transfertypes.GetEscrowAddress(port, idA)
	// --- leg 1: A → B
	before := len(s.Pkts)
	s.observeOnly = true
	a.OnTx = func(o *kit.Outcome) { s.collect(0, o) }
	b.OnTx = func(o *kit.Outcome) { s.collect(1, o) }
	defer func() { a.OnTx, b.OnTx = nil, nil }()
	o := s.Send(SendOpt{Lane: lane, SrcSide: side, Sender: 1, Signer: 1, Denom: base, Amt: amt, Receiver: recvB.String()})
	if o == nil || !o.OK() || len(s.Pkts) == before {
		// the origin does not accept this denomination for transfer: outside the statement
		c.Inc("origin_rejected")
		c.Eval("")
		return
	}
	p1 := s.Pkts[len(s.Pkts)-1]
	balB := b.Sim.BankKeeper.GetAllBalances(b.GetContext(), recvB)
	s.Recv(p1)
	if !p1.Received || p1.RecvResult != "success" {
		// not received: the statement speaks about vouchers that were received; refund the sender and move on
		c.Inc("first_leg_not_received")
		c.Eval("")
		if p1.AckV1 != nil || p1.AckV2 != nil {
			s.Ack(p1)
		}
		return
	}
	s.Ack(p1)
	// the voucher = the one denomination whose balance grew on the receiver
	var voucher sdk.Coin
	for _, coin := range b.Sim.BankKeeper.GetAllBalances(b.GetContext(), recvB) {
		if d := coin.Amount.Sub(balB.AmountOf(coin.Denom)); d.IsPositive() {
			voucher = sdk.NewCoin(coin.Denom, d)
		}
	}
	if voucher.Denom == "" || !voucher.Amount.Equal(sdkmath.NewInt(amt)) {
		c.Violate("C33|voucher-not-credited|"+failClass(base), fmt.Sprintf("denom %q: successful receive credited %v instead of %d of a voucher", base, voucher, amt), nil)
		return
	}
	c.Inc("vouchers_received")
	// --- leg 2: B → A over the same lane
	escBefore := a.Bal(escrow, base)
	recvA := a.Addr(3)
	balA := a.Bal(recvA, base)
	before = len(s.Pkts)
	o = s.Send(SendOpt{Lane: lane, SrcSide: 1 - side, Sender: 2, Signer: 2, Denom: voucher.Denom, Amt: amt, Receiver: recvA.String()})
	if o == nil || !o.OK() || len(s.Pkts) == before {
		log := ""
		if o != nil {
			log = clip(o.Log, 160)
		}
		c.Eval(class + "|return-rejected")
		c.Violate("C33|return-fails|"+failClass(base), fmt.Sprintf("base %q (lane %s): voucher %s could not be sent back over %s: %s", base, lane.Kind, voucher.Denom, idB, log), map[string]any{"base": base, "lane": lane.Kind})
		return
	}
	p2 := s.Pkts[len(s.Pkts)-1]
	s.Recv(p2)
	if !p2.Received || p2.RecvResult != "success" {
		c.Eval(class + "|return-error-ack")
		c.Violate("C33|return-fails|"+failClass(base), fmt.Sprintf("base %q (lane %s): origin did not accept the returning voucher (path %q, result %q)", base, lane.Kind, p2.Path, p2.RecvResult), map[string]any{"base": base, "lane": lane.Kind, "path": p2.Path})
		if p2.AckV1 != nil || p2.AckV2 != nil {
			s.Ack(p2)
		}
		return
	}
	s.Ack(p2)
	got := a.Bal(recvA, base).Sub(balA)
	rel := escBefore.Sub(a.Bal(escrow, base))
	if !got.Equal(sdkmath.NewInt(amt)) || !rel.Equal(sdkmath.NewInt(amt)) {
		c.Eval(class + "|wrong-release")
		c.Violate("C33|origin-did-not-release-original-denom|"+failClass(base), fmt.Sprintf("base %q (lane %s): receiver got %s of the native denom, escrow released %s, expected %d", base, lane.Kind, got, rel, amt), map[string]any{"base": base, "lane": lane.Kind})
		return
	}
	c.Inc("round_trips_completed")
	if strings.Contains(base, "/") {
		c.Inc("round_trips_with_slashes")
		c.Eval(class)
	} else {
		c.Eval("")
	}
	if len(c.Samples) < 6 {
		c.Sample(map[string]any{"base": base, "lane": lane.Kind, "voucher": voucher.Denom, "returned": amt})
	}
	_ = clienttypes.ZeroHeight
}

// routeTrip: `base` leaves chain 0 and travels `hops` hops around the triangle (0→1→2→0), each over a lane picked at random; then the
// voucher goes back over the same lanes in reverse. Every return leg must be accepted, must credit exactly the denomination that left
// over that lane and must release it from that lane's escrow account; the last one releases the native denomination on chain 0.
func (s *Sim) routeTrip(c *kit.Check, r *kit.Rng, base string, amt int64, hops int) {
	s.observeOnly = true
	for i, ch := range s.Ch {
		idx := i
		ch.OnTx = func(o *kit.Outcome) { s.collect(idx, o) }
	}
	defer func() {
		for _, ch := range s.Ch {
			ch.OnTx = nil
		}
	}()
	type leg struct {
		lane      *Lane
		from, to  int
		denom     string // bank denomination that left chain `from` on the way out
		fromAcct  int
		heldDenom string // bank denomination credited on chain `to`
	}
	if err := kit.Try(func() { s.Ch[0].Fund(s.Ch[0].Addr(1), base, amt) }); err != nil {
		c.Inc("fund_failed")
		return
	}
	var legs []leg
	cur, acct, denom := 0, 1, base
	kinds := ""
	for h := 0; h < hops; h++ {
		next := (cur + 1) % 3
		var cands []*Lane
		for _, l := range s.Lanes {
			if l.side(cur) >= 0 && l.side(next) >= 0 && (l.Kind == "v1" || !strings.Contains(base, "/")) {
				// IBC v2 payloads refuse '/' in the base denomination at the sender: such bases travel over v1 channels
				cands = append(cands, l)
			}
		}
		lane := cands[r.Intn(len(cands))]
		dst := s.Ch[next]
		recv := dst.Addr(2)
		balBefore := dst.Sim.BankKeeper.GetAllBalances(dst.GetContext(), recv)
		before := len(s.Pkts)
		o := s.Send(SendOpt{Lane: lane, SrcSide: lane.side(cur), Sender: acct, Signer: acct, Denom: denom, Amt: amt, Receiver: recv.String()})
		if o == nil || !o.OK() || len(s.Pkts) == before {
			// an onward leg that the holder's chain refuses (e.g. '/' in the base over an IBC v2 lane) is outside the statement
			c.Inc("route_onward_leg_rejected")
			if o != nil && len(c.Samples) < 12 {
				c.Sample(map[string]any{"onward_leg_rejected": clip(o.Log, 200), "base": base, "hop": h + 1, "lane": lane.Kind})
			}
			c.Eval("")
			break
		}
		p := s.Pkts[len(s.Pkts)-1]
		s.Recv(p)
		if !p.Received || p.RecvResult != "success" {
			c.Inc("route_onward_leg_not_received")
			c.Eval("")
			if p.AckV1 != nil || p.AckV2 != nil {
				s.Ack(p)
			}
			break
		}
		s.Ack(p)
		var voucher sdk.Coin
		for _, coin := range dst.Sim.BankKeeper.GetAllBalances(dst.GetContext(), recv) {
			if d := coin.Amount.Sub(balBefore.AmountOf(coin.Denom)); d.IsPositive() {
				voucher = sdk.NewCoin(coin.Denom, d)
			}
		}
		if voucher.Denom == "" || !voucher.Amount.Equal(sdkmath.NewInt(amt)) {
			c.Violate("C33|voucher-not-credited|"+failClass(base), fmt.Sprintf("denom %q hop %d: successful receive credited %v instead of %d of a voucher", base, h+1, voucher, amt), nil)
			return
		}
		legs = append(legs, leg{lane: lane, from: cur, to: next, denom: denom, fromAcct: acct, heldDenom: voucher.Denom})
		kinds += lane.Kind[:2]
		cur, acct, denom = next, 2, voucher.Denom
	}
	if len(legs) < 2 {
		return
	}
	c.Inc("routes_outbound_completed")
	class := fmt.Sprintf("%s|route-%d-%s", shapeOf(base), len(legs), kinds)
	// way back, last leg first
	holderAcct := 2
	for i := len(legs) - 1; i >= 0; i-- {
		lg := legs[i]
		dst := s.Ch[lg.from]
		idBack := lg.lane.Ends[lg.lane.side(lg.from)].ID
		escrow := transfertypes.GetEscrowAddress(port, idBack)
		recv := dst.Addr(3)
		escBefore, balBefore := dst.Bal(escrow, lg.denom), dst.Bal(recv, lg.denom)
		before := len(s.Pkts)
		o := s.Send(SendOpt{Lane: lg.lane, SrcSide: lg.lane.side(lg.to), Sender: holderAcct, Signer: holderAcct, Denom: lg.heldDenom, Amt: amt, Receiver: recv.String()})
		if o == nil || !o.OK() || len(s.Pkts) == before {
			log := ""
			if o != nil {
				log = clip(o.Log, 160)
			}
			c.Eval(class + "|return-rejected")
			c.Violate("C33|return-fails|"+failClass(base), fmt.Sprintf("base %q, route of %d hops (%s): on the way back, leg %d, voucher %s could not be sent from chain %d over %s: %s", base, len(legs), kinds, i+1, lg.heldDenom, lg.to, lg.lane.Ends[lg.lane.side(lg.to)].ID, log), map[string]any{"base": base, "hops": len(legs), "lanes": kinds})
			return
		}
		p := s.Pkts[len(s.Pkts)-1]
		s.Recv(p)
		if !p.Received || p.RecvResult != "success" {
			c.Eval(class + "|return-error-ack")
			c.Violate("C33|return-fails|"+failClass(base), fmt.Sprintf("base %q, route of %d hops (%s): on the way back, leg %d, chain %d did not accept the returning voucher (path %q, result %q)", base, len(legs), kinds, i+1, lg.from, p.Path, p.RecvResult), map[string]any{"base": base, "hops": len(legs), "lanes": kinds, "path": p.Path})
			if p.AckV1 != nil || p.AckV2 != nil {
				s.Ack(p)
			}
			return
		}
		s.Ack(p)
		got := dst.Bal(recv, lg.denom).Sub(balBefore)
		rel := escBefore.Sub(dst.Bal(escrow, lg.denom))
		if !got.Equal(sdkmath.NewInt(amt)) || !rel.Equal(sdkmath.NewInt(amt)) {
			c.Eval(class + "|wrong-release")
			c.Violate("C33|origin-did-not-release-original-denom|"+failClass(base), fmt.Sprintf("base %q, route of %d hops (%s): on the way back, leg %d, receiver on chain %d got %s of %s, escrow of %s released %s, expected %d", base, len(legs), kinds, i+1, lg.from, got, clip(lg.denom, 20), idBack, rel, amt), map[string]any{"base": base, "hops": len(legs), "lanes": kinds})
			return
		}
		c.Inc("route_return_legs_completed")
		holderAcct = 3
	}
	c.Inc("multi_hop_round_trips_completed")
	c.Eval(class)
}

// collect is a reduced observer for C33: it only maintains the truth log (packets, receipts, acks).
func (s *Sim) collect(chain int, o *kit.Outcome) {
	if !o.OK() {
		return
	}
	for _, ev := range o.Res.Events {
		if ev.Type != "send_packet" {
			continue
		}
		if _, isV2 := attr(ev, "encoded_packet_hex"); isV2 {
			s.newV2Packet(chain, ev, o)
		} else {
			s.newV1Packet(chain, ev)
		}
	}
	for _, ev := range o.Res.Events {
		if ev.Type == "write_acknowledgement" {
			s.noteWrittenAck(chain, ev)
		}
	}
	for _, cb := range o.CBs {
		if cb.Kind == "recv" && cb.Port == port {
			for _, q := range s.Pkts {
				if q.dst() == chain && q.dstID() == cb.ID && q.srcID() == cb.CpID && q.Seq == cb.Seq && q.IsV2 == (cb.V == 2) {
					q.Received, q.RecvResult = true, cb.Result
				}
			}
		}
		if (cb.Kind == "ack" || cb.Kind == "timeout") && cb.Port == port {
			if q := s.lookupSent(chain, cb.ID, cb.Seq, cb.V == 2); q != nil {
				q.Terminal = cb.Kind
			}
		}
	}
}
