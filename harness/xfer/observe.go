package xfer

import (
	"bytes"
	"encoding/hex"
	"encoding/json"
	"fmt"
	"strconv"
	"strings"

	"github.com/cosmos/gogoproto/proto"

	sdkmath "cosmossdk.io/math"

	sdk "github.com/cosmos/cosmos-sdk/types"
	"github.com/cosmos/cosmos-sdk/x/authz"

	transfertypes "github.com/cosmos/ibc-go/v11/modules/apps/transfer/types"
	clienttypes "github.com/cosmos/ibc-go/v11/modules/core/02-client/types"
	channeltypes "github.com/cosmos/ibc-go/v11/modules/core/04-channel/types"
	channeltypesv2 "github.com/cosmos/ibc-go/v11/modules/core/04-channel/v2/types"

	"verif/harness/kit"
)

// observe runs after every transaction of every chain: it extends the truth log from what the chain
// really emitted, advances the ledger model from the observed callbacks, and then compares the model
// and the conservation identities with the real state.
func (s *Sim) observe(chain int, o *kit.Outcome) {
	s.C.Inc("txs")
	if !o.OK() {
		if len(o.Diff) != 0 && s.curKind != "" {
			s.viol("C30", "rejected-message-changed-state", "rejected %s on chain %d changed state:%s", s.curKind, chain, o.DiffString())
		}
		if s.curKind != "" {
			s.C.Inc("rejected_" + s.curKind)
		}
		return
	}
	var newPkts []*TPkt
	// 1. packets this transaction committed
	for _, ev := range o.Res.Events {
		if ev.Type != channeltypes.EventTypeSendPacket {
			continue
		}
		if _, isV2 := attr(ev, channeltypesv2.AttributeKeyEncodedPacketHex); isV2 {
			if p := s.newV2Packet(chain, ev, o); p != nil {
				newPkts = append(newPkts, p)
			}
			continue
		}
		if p := s.newV1Packet(chain, ev); p != nil {
			newPkts = append(newPkts, p)
		}
	}
	// 2. acknowledgements this transaction wrote (sync or async)
	for _, ev := range o.Res.Events {
		if ev.Type == channeltypes.EventTypeWriteAck {
			s.noteWrittenAck(chain, ev)
		}
	}
	// 3. callbacks → ledger model
	for _, cb := range o.CBs {
		switch cb.Kind {
		case "recv":
			s.onRecv(chain, o, cb, newPkts)
		case "ack", "timeout":
			s.onTerminal(chain, o, cb, newPkts)
		}
	}
	// 4. debits of accepted sends (user sends and forward hops)
	for _, p := range newPkts {
		s.modelAdd(chain, p.Sender, p.BankSrc, p.Amt.Neg())
		s.C.Inc("packets_" + p.Lane.Kind)
		if p.Parent != nil {
			s.C.Inc("forward_hops")
		}
	}
	// 5. authorization of debits (C49)
	s.checkAuthorization(chain, o, newPkts)
	// 6. compare
	s.checkLedger(chain)
	s.checkConservation(chain)
	s.checkTotalEscrow(chain)
	s.checkNativeSupply(chain)
}

func (s *Sim) register(p *TPkt) { s.Pkts = append(s.Pkts, p) }

func (s *Sim) fill(p *TPkt, chain int, d ftpd) bool {
	amt, ok := sdkmath.NewIntFromString(d.Amount)
	if !ok {
		return false
	}
	p.Path, p.Amt, p.Sender, p.Receiver, p.Memo = d.Denom, amt, d.Sender, d.Receiver, d.Memo
	p.BankSrc = bankDenomOf(d.Denom)
	p.Escrowed = !strings.HasPrefix(d.Denom, port+"/"+p.srcID()+"/")
	if strings.HasPrefix(p.BankSrc, "ibc/") {
		s.paths[chain][p.BankSrc] = d.Denom
	}
	return true
}

func parseU(s string) uint64 { n, _ := strconv.ParseUint(s, 10, 64); return n }

func (s *Sim) noteAck(p *TPkt, success bool) {
	v := success
	p.AckSuccess = &v
}

// onRecv: a destination application really processed a packet.
func (s *Sim) onRecv(chain int, o *kit.Outcome, cb *kit.CB, newPkts []*TPkt) {
	if cb.Port != port {
		return
	}
	var p *TPkt
	for _, q := range s.Pkts {
		if q.dst() == chain && q.dstID() == cb.ID && q.srcID() == cb.CpID && q.Seq == cb.Seq && q.IsV2 == (cb.V == 2) {
			p = q
		}
	}
	if p == nil {
		s.viol("C30", "received-unknown-transfer", "chain %d processed a transfer packet %s/%d nobody sent", chain, cb.ID, cb.Seq)
		return
	}
	s.C.Inc("recv_" + cb.Result)
	if p.Received {
		s.viol("C30", "transfer-received-twice", "packet %v received twice", p)
		return
	}
	p.Received, p.RecvResult = true, cb.Result
	full, home := recvPath(p.Path, p.srcID(), p.dstID())
	bank := bankDenomOf(full)
	if strings.HasPrefix(bank, "ibc/") {
		s.paths[chain][bank] = full
	}
	switch cb.Result {
	case "success":
		s.modelAdd(chain, p.Receiver, bank, p.Amt)
		p.Credited++
		if home {
			s.C.Inc("recv_unescrow")
		} else {
			s.C.Inc("recv_mint")
		}
	case "async":
		// forward middleware: funds are credited to the hop sender (intermediate account) and sent on in the same tx
		var kid *TPkt
		for _, k := range newPkts {
			if k.Parent == nil && k.src() == chain && k != p {
				kid = k
			}
		}
		if kid == nil {
			s.viol("C43", "async-receive-without-forward", "packet %v received asynchronously but no forward packet was sent", p)
			return
		}
		kid.Parent = p
		p.Kids = append(p.Kids, kid)
		s.modelAdd(chain, kid.Sender, bank, p.Amt)
		p.Credited++
		if kid.BankSrc != bank {
			s.viol("C43", "forwarded-denom-differs-from-credited", "chain %d credited %s for %v but forwarded %s", chain, bank, p, kid.BankSrc)
		}
		if !kid.Amt.Equal(p.Amt) {
			s.viol("C43", "forwarded-amount-differs", "forwarded %s of %v", kid.Amt, p)
		}
		s.C.Inc("forwards_started")
	}
}

// onTerminal: the sending application saw the acknowledgement or the timeout of its packet.
func (s *Sim) onTerminal(chain int, o *kit.Outcome, cb *kit.CB, newPkts []*TPkt) {
	if cb.Port != port {
		return
	}
	p := s.lookupSent(chain, cb.ID, cb.Seq, cb.V == 2)
	if p == nil {
		s.viol("C32", "terminal-for-unknown-transfer", "chain %d ran %s for %s/%d which it never sent", chain, cb.Kind, cb.ID, cb.Seq)
		return
	}
	if p.Terminal != "" {
		s.viol("C32", "second-terminal-outcome", "packet %v: %s after %s", p, cb.Kind, p.Terminal)
		return
	}
	failed := cb.Kind == "timeout"
	if cb.Kind == "ack" {
		failed = !ackIsSuccess(cb.Ack, cb.V == 2)
	}
	switch {
	case !failed:
		p.Terminal = "ack-ok"
		s.C.Inc("terminal_ack_ok")
		if p.Parent != nil {
			s.C.Inc("forward_hop_succeeded")
		}
	default:
		p.Terminal = "ack-err"
		if cb.Kind == "timeout" {
			p.Terminal = "timeout"
		}
		s.C.Inc("terminal_" + p.Terminal)
		if p.Parent == nil {
			// ordinary transfer: the sender gets exactly the sent amount back
			s.modelAdd(chain, p.Sender, p.BankSrc, p.Amt)
			p.Refunded++
			s.C.Inc("refunds")
			return
		}
		// forward hop: either retried (refund to the intermediate account + new hop in the same tx) or given up
		var retry *TPkt
		for _, k := range newPkts {
			if k.src() == chain && k.Sender == p.Sender && k.Parent == nil {
				retry = k
			}
		}
		if retry != nil {
			retry.Parent = p.Parent
			p.Parent.Kids = append(p.Parent.Kids, retry)
			p.Retried = true
			s.modelAdd(chain, p.Sender, p.BankSrc, p.Amt) // refund, re-debited by the new hop
			s.C.Inc("forward_retries")
		} else {
			p.GaveUp = true
			s.C.Inc("forward_gave_up")
		}
	}
}

func (s *Sim) lookupSent(chain int, id string, seq uint64, v2 bool) *TPkt {
	for _, q := range s.Pkts {
		if q.src() == chain && q.srcID() == id && q.Seq == seq && q.IsV2 == v2 {
			return q
		}
	}
	return nil
}

func ackIsSuccess(ack []byte, v2 bool) bool {
	if v2 && bytes.Equal(ack, channeltypesv2.ErrorAcknowledgement[:]) {
		return false
	}
	var a struct {
		Result []byte `json:"result"`
		Error  string `json:"error"`
	}
	if err := json.Unmarshal(ack, &a); err != nil {
		return false
	}
	return a.Error == "" && a.Result != nil
}

// ---------------------------------------------------------------------------------------------
// checks against real state

func (s *Sim) checkLedger(chain int) {
	ch := s.Ch[chain]
	ctx := ch.GetContext()
	for _, addr := range sortedKeys(s.model[chain]) {
		a, err := sdk.AccAddressFromBech32(addr)
		if err != nil {
			continue
		}
		m := s.model[chain][addr]
		seen := map[string]bool{}
		for _, c := range ch.Sim.BankKeeper.GetAllBalances(ctx, a) {
			seen[c.Denom] = true
			want, ok := m[c.Denom]
			if !ok {
				want = sdkmath.ZeroInt()
			}
			if !want.Equal(c.Amount) {
				s.ledgerViol(chain, addr, c.Denom, want, c.Amount)
			}
		}
		for d, want := range m {
			if !seen[d] && !want.IsZero() {
				s.ledgerViol(chain, addr, d, want, sdkmath.ZeroInt())
			}
		}
		s.C.Inc("ledger_accounts_compared")
	}
}

func (s *Sim) ledgerViol(chain int, addr, denom string, want, got sdkmath.Int) {
	prop, sig := "C32", "balance-differs-from-ledger-model"
	if got.GT(want) {
		sig = "account-gained-unexplained-tokens"
	} else {
		sig = "account-lost-unexplained-tokens"
	}
	// fix the model so that one defect is reported once, not after every later block
	s.model[chain][addr][denom] = got
	for _, p := range []string{"C32", "C49", "C43", "C30"} {
		if strings.Contains(s.Focus, p) {
			prop = p
		}
	}
	s.viol(prop, sig, "chain %d account %s denom %s (%s): ledger model %s, real balance %s", chain, shortAddr(addr), clip(denom, 16), s.pathOf(chain, denom), want, got)
}

func (s *Sim) escrowAddr(id string) sdk.AccAddress { return transfertypes.GetEscrowAddress(port, id) }

// checkConservation evaluates the per-channel identity of C30 for every lane end touching `chain`.
func (s *Sim) checkConservation(chain int) {
	done := map[string]bool{}
	for _, l := range s.Lanes {
		if l.Kind == "alias" { // same identifiers and escrow account as the v1 lane
			continue
		}
		if l.side(chain) < 0 {
			continue
		}
		for xs := 0; xs < 2; xs++ {
			k := l.Ends[xs].ID + "@" + strconv.Itoa(l.Ends[xs].Chain)
			if done[k] {
				continue
			}
			done[k] = true
			s.checkEnd(l, xs)
		}
	}
}

// checkEnd: escrow_X(id)[D] = supply_Y(V) + in-flight X→Y carrying D + in-flight Y→X carrying V back.
func (s *Sim) checkEnd(l *Lane, xs int) {
	X, Y := l.Ends[xs].Chain, l.Ends[1-xs].Chain
	idX, idY := l.Ends[xs].ID, l.Ends[1-xs].ID
	chX, chY := s.Ch[X], s.Ch[Y]
	esc := s.escrowAddr(idX)
	denoms := map[string]bool{}
	for _, c := range chX.Sim.BankKeeper.GetAllBalances(chX.GetContext(), esc) {
		denoms[c.Denom] = true
	}
	// vouchers on Y whose first hop is this channel end must be backed here
	pre := port + "/" + idY + "/"
	for _, c := range chY.AllSupply() {
		if !strings.HasPrefix(c.Denom, "ibc/") || c.Amount.IsZero() {
			continue
		}
		full := s.pathOf(Y, c.Denom)
		if strings.HasPrefix(full, pre) {
			denoms[bankDenomOf(full[len(pre):])] = true
		}
	}
	for _, p := range s.Pkts {
		if p.inflight() && p.src() == X && p.srcID() == idX && p.Escrowed {
			denoms[p.BankSrc] = true
		}
	}
	for _, D := range sortedKeys(denoms) {
		pathX := s.pathOf(X, D)
		if pathX == "" {
			s.C.Inc("conservation_path_unknown")
			continue
		}
		V := bankDenomOf(pre + pathX)
		lhs := chX.Bal(esc, D)
		rhs := chY.Supply(V)
		for _, p := range s.Pkts {
			if !p.inflight() {
				continue
			}
			if p.src() == X && p.srcID() == idX && p.Escrowed && p.BankSrc == D {
				rhs = rhs.Add(p.Amt)
			}
			if p.src() == Y && p.srcID() == idY && !p.Escrowed && p.BankSrc == V {
				rhs = rhs.Add(p.Amt)
			}
		}
		s.C.Inc("conservation_identities_checked")
		bk := strconv.Itoa(X) + "|" + idX + "|" + D
		if strings.HasPrefix(pathX, port+"/"+idX+"/") && lhs.IsPositive() && !s.broken["own|"+bk] {
			// a voucher that arrived over this channel is burned when it leaves over it: it can never sit in this channel's escrow
			s.broken["own|"+bk] = true
			s.viol("C30", "voucher-held-in-escrow-of-its-own-channel", "chain %d escrow(%s) holds %s of %s, a voucher that was minted over this very channel", X, idX, lhs, pathX)
		}
		if !lhs.Equal(rhs) && s.broken[bk] {
			continue
		}
		if !lhs.Equal(rhs) {
			s.broken[bk] = true
			for _, p := range s.Pkts {
				if p.inflight() && ((p.src() == X && p.srcID() == idX) || (p.src() == Y && p.srcID() == idY)) {
					s.log("  inflight %v escrowed=%v bank=%s recv=%v/%s term=%q", p, p.Escrowed, clip(p.BankSrc, 12), p.Received, p.RecvResult, p.Terminal)
				}
			}
			s.log("  supply_Y(V)=%s escrow=%s", chY.Supply(V), lhs)
			s.viol("C30", "escrow-differs-from-vouchers-plus-inflight", "chain %d escrow(%s)[%s]=%s but chain %d voucher supply + in flight = %s (voucher %s, path %s)", X, idX, clip(D, 14), lhs, Y, rhs, clip(V, 14), pathX)
		}
	}
}

func (s *Sim) idsOn(chain int) []string {
	seen := map[string]bool{}
	var out []string
	for _, l := range s.Lanes {
		if sd := l.side(chain); sd >= 0 && !seen[l.Ends[sd].ID] {
			seen[l.Ends[sd].ID] = true
			out = append(out, l.Ends[sd].ID)
		}
	}
	return out
}

// checkTotalEscrow (C31): tracked total == sum of the balances of all transfer escrow accounts.
func (s *Sim) checkTotalEscrow(chain int) {
	ch := s.Ch[chain]
	ctx := ch.GetContext()
	sum := map[string]sdkmath.Int{}
	for _, id := range s.idsOn(chain) {
		for _, c := range ch.Sim.BankKeeper.GetAllBalances(ctx, s.escrowAddr(id)) {
			cur, ok := sum[c.Denom]
			if !ok {
				cur = sdkmath.ZeroInt()
			}
			sum[c.Denom] = cur.Add(c.Amount)
		}
	}
	for _, c := range ch.Sim.TransferKeeper.GetAllTotalEscrowed(ctx) {
		if _, ok := sum[c.Denom]; !ok {
			sum[c.Denom] = sdkmath.ZeroInt()
		}
	}
	for _, d := range sortedKeys(sum) {
		tracked := ch.Sim.TransferKeeper.GetTotalEscrowForDenom(ctx, d).Amount
		s.C.Inc("total_escrow_compared")
		if tracked.IsNegative() {
			s.viol("C31", "negative-total-escrow", "chain %d total escrow of %s is %s", chain, d, tracked)
		}
		if !tracked.Equal(sum[d]) {
			s.viol("C31", "tracked-total-escrow-differs-from-escrow-balances", "chain %d denom %s: tracked total escrow %s, escrow accounts hold %s", chain, clip(d, 14), tracked, sum[d])
		}
	}
}

// checkNativeSupply: IBC never changes the supply of a native token on its home chain.
func (s *Sim) checkNativeSupply(chain int) {
	ch := s.Ch[chain]
	for d, want := range s.native[chain] {
		got := ch.Supply(d)
		s.C.Inc("native_supply_checks")
		if !got.Equal(want) {
			s.native[chain][d] = got
			s.viol("C30", "native-supply-changed", "chain %d supply of native %s changed from %s to %s", chain, d, want, got)
		}
	}
	for _, c := range ch.AllSupply() {
		if strings.HasPrefix(c.Denom, "ibc/") {
			continue
		}
		if _, ok := s.native[chain][c.Denom]; !ok {
			s.native[chain][c.Denom] = c.Amount
			s.viol("C30", "new-native-denom-appeared", "chain %d has a new non-voucher denom %s (supply %s)", chain, c.Denom, c.Amount)
		}
	}
}

// checkAuthorization (C49): every packet a user transaction committed debits an account that signed it or that
// authorised the signer (live authz grant recorded by the workload).
func (s *Sim) checkAuthorization(chain int, o *kit.Outcome, newPkts []*TPkt) {
	if len(o.Msgs) != 1 {
		return
	}
	var signer string
	viaAuthz := false
	switch m := o.Msgs[0].(type) {
	case *transfertypes.MsgTransfer:
		signer = m.Sender
	case *channeltypesv2.MsgSendPacket:
		signer = m.Signer
	case *authz.MsgExec:
		signer, viaAuthz = m.Grantee, true
	default:
		return
	}
	ch := s.Ch[chain]
	idx := func(addr string) int {
		for i := range ch.SenderAccounts {
			if ch.Addr(i).String() == addr {
				return i
			}
		}
		return -1
	}
	for _, p := range newPkts {
		s.C.Inc("authorization_checks")
		if p.Sender == signer {
			continue
		}
		if viaAuthz && s.grants[fmt.Sprintf("%d|%d|%d", chain, idx(p.Sender), idx(signer))] {
			s.C.Inc("debits_authorised_by_grant")
			continue
		}
		s.viol("C49", "debit-without-authorization", "tx signed by %s moved %s %s out of %s (authz=%v)", shortAddr(signer), p.Amt, p.BankSrc, shortAddr(p.Sender), viaAuthz)
	}
}

var (
	_ = hex.EncodeToString
	_ = proto.Marshal
	_ clienttypes.Height
)
