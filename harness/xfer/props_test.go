package xfer

import (
	"fmt"
	"testing"

	"verif/harness/kit"
)

const xferRule = "cases = PRNG-determined histories of ICS-20 transfers (native and voucher denoms; v1, v2 client pair, v2 over alias; 3 chains in a triangle) with forward memos of depth 1-2, failing receivers, disabled receives, timeouts, duplicates and unauthorised senders, relayed in random order and ended by an honest drain; " +
	"monitors compare every block with an independent ledger model and the per-channel conservation identity; distinct = distinct sequences of (operation, outcome class); non-trivial = at least one transfer failed or was forwarded"

func runXfer(t *testing.T, prop string, level string, quick, thorough, ops int, topo0 func() Topology, tw func(*Profile), floors map[string]int64) {
	c := kit.NewCheck(t, prop, level, xferRule)
	defer c.Finish()
	c.Assume("bank module, SDK tx atomicity and light-client proof verification are trusted base; application stack as wired in testing/simapp (rate-limit → packet-forward → transfer; transfer v2 behind rate-limit v2)")
	for k, v := range floors {
		c.Floor(k, v)
	}
	n := c.N(quick, thorough)
	for i := 0; i < n; i++ {
		if c.SkipCase(i) {
			continue
		}
		r := c.CaseRng(i)
		pr := DefaultProfile()
		if tw != nil {
			tw(&pr)
		}
		var classes []string
		nontrivial := false
		err := kit.Try(func() {
			topo := topo0
			if i%2 == 1 && prop != "C32" {
				// every other case: v2 client pairs on all links, with different client ids on the two ends
				topo = TriangleV2
			}
			s := NewSim(c, r, topo())
			nops := ops/2 + r.Intn(ops)
			for j := 0; j < nops; j++ {
				if cls := s.Step(pr); cls != "" {
					classes = append(classes, cls)
				}
			}
			s.Drain()
			s.EndChecks()
			for _, p := range s.Pkts {
				if p.Parent != nil || p.Terminal == "ack-err" || p.Terminal == "timeout" {
					nontrivial = true
				}
			}
			if i < 2 {
				tail := s.trace
				if len(tail) > 30 {
					tail = tail[:30]
				}
				c.Sample(map[string]any{"case": c.CaseID(i), "ops": tail})
			}
		})
		c.Inc("cases")
		if err != nil {
			c.Inconcl(err.Error())
			continue
		}
		if nontrivial {
			c.Eval(fmt.Sprint(classes))
		} else {
			c.Eval("")
		}
	}
}

func TestC30(t *testing.T) {
	runXfer(t, "C30", "exploration", 16, 24, 90, Triangle, nil,
		map[string]int64{"conservation_identities_checked": 2000, "native_supply_checks": 2000, "recv_success": 100, "refunds": 20, "forward_hops": 10})
}

func TestC31(t *testing.T) {
	runXfer(t, "C31", "exploration", 16, 24, 90, Triangle, func(p *Profile) { p.Forward = 14 },
		map[string]int64{"total_escrow_compared": 1500, "forward_hops": 15, "refunds": 15})
}

func TestC32(t *testing.T) {
	runXfer(t, "C32", "fault_enumeration", 16, 24, 90, Line2, func(p *Profile) { p.Forward, p.BadReceiverPct, p.SoonPct, p.Timeout, p.ToggleRecv = 0, 35, 45, 14, 3 },
		map[string]int64{"refunds": 60, "terminal_timeout": 20, "terminal_ack-err": 20, "terminal_ack_ok": 40, "ledger_accounts_compared": 5000})
}

func TestC43(t *testing.T) {
	runXfer(t, "C43", "fault_enumeration", 16, 24, 80, Triangle, func(p *Profile) { p.Forward, p.Send, p.Timeout, p.SoonPct = 26, 10, 12, 30 },
		map[string]int64{"routes_finished": 40, "routes_delivered": 8, "routes_refunded": 8, "forward_hops": 60, "intermediate_accounts_checked": 40})
}

func TestC49(t *testing.T) {
	runXfer(t, "C49", "exploration", 16, 24, 90, Triangle, func(p *Profile) { p.HostileSend, p.Grant, p.Exec = 14, 8, 16 },
		map[string]int64{"hostile_sends": 60, "authorization_checks": 120, "ledger_accounts_compared": 5000, "exec-without-grant_rejected": 15, "debits_authorised_by_grant": 3})
}
