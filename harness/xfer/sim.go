// Package xfer drives ICS-20 transfers (v1, v2 client pairs, v2 over aliases, packet forwarding) across
// several real chains under a hostile relayer and monitors token conservation (C30), tracked total escrow
// (C31), refunds (C32), forwarding (C43) and authorization of debits (C49) with an independent ledger model.
package xfer

import (
	"crypto/sha256"
	"encoding/hex"
	"encoding/json"
	"fmt"
	"sort"
	"strconv"
	"strings"
	"time"

	"github.com/cosmos/gogoproto/proto"

	sdkmath "cosmossdk.io/math"

	sdk "github.com/cosmos/cosmos-sdk/types"

	abci "github.com/cometbft/cometbft/abci/types"

	transfertypes "github.com/cosmos/ibc-go/v11/modules/apps/transfer/types"
	clienttypes "github.com/cosmos/ibc-go/v11/modules/core/02-client/types"
	channeltypes "github.com/cosmos/ibc-go/v11/modules/core/04-channel/types"
	channeltypesv2 "github.com/cosmos/ibc-go/v11/modules/core/04-channel/v2/types"
	host "github.com/cosmos/ibc-go/v11/modules/core/24-host"
	hostv2 "github.com/cosmos/ibc-go/v11/modules/core/24-host/v2"
	ibctesting "github.com/cosmos/ibc-go/v11/testing"

	"verif/harness/kit"
)

const port = "transfer"

// Link is a transfer connection between two chains: a v1 UNORDERED transfer channel (also usable
// through its v2 alias) and optionally an IBC v2 client pair.
type Link struct {
	X, Y int // chain indices
	P    *ibctesting.Path
	V2   *ibctesting.Path // nil if no client pair
}

// End identifies one side of a lane: chain + identifier carried by packets.
type End struct {
	Chain int
	ID    string
}

// Lane = a link used in one protocol flavour.
type Lane struct {
	L    *Link
	Kind string // v1 | alias | v2
	Ends [2]End // Ends[0] on L.X, Ends[1] on L.Y
	name string
}

func (l *Lane) ep(i int) *ibctesting.Endpoint {
	p := l.L.P
	if l.Kind == "v2" {
		p = l.L.V2
	}
	if i == 0 {
		return p.EndpointA
	}
	return p.EndpointB
}

// side returns 0/1 for the chain index, or -1.
func (l *Lane) side(chain int) int {
	if l.Ends[0].Chain == chain {
		return 0
	}
	if l.Ends[1].Chain == chain {
		return 1
	}
	return -1
}

// TPkt is the truth about one ICS-20 packet that some chain really committed.
type TPkt struct {
	Lane     *Lane
	SrcSide  int
	Seq      uint64
	V1       channeltypes.Packet
	V2       channeltypesv2.Packet
	IsV2     bool
	Path     string // denomination path carried in the packet
	Amt      sdkmath.Int
	Sender   string
	Receiver string
	Memo     string
	BankSrc  string // bank denom debited on the source chain
	Escrowed bool   // source escrowed (true) or burned (false)
	Parent   *TPkt  // set for packets emitted by the forward middleware
	Kids     []*TPkt

	Received          bool
	RecvResult        string // success | error | async
	AckSuccess        *bool  // known once an acknowledgement was written on the destination
	AckV1             []byte
	AckV2             *channeltypesv2.Acknowledgement
	Terminal          string // "" | ack-ok | ack-err | timeout
	Refunded          int
	Credited          int
	Retried           bool // a timed-out forward hop that was re-sent in the same transaction
	GaveUp            bool // forward hop whose failure was turned into an error ack for its parent
	TimeoutRefused    int
	AckRefused        int
	AckRefusedLog     string
	TimeoutRefusedLog string
	WantFinal         string // root of a forward route: the final receiver named in the memo
	WantHops          int    // root of a forward route: number of forward hops named in the memo
}

func (p *TPkt) src() int      { return p.Lane.Ends[p.SrcSide].Chain }
func (p *TPkt) dst() int      { return p.Lane.Ends[1-p.SrcSide].Chain }
func (p *TPkt) srcID() string { return p.Lane.Ends[p.SrcSide].ID }
func (p *TPkt) dstID() string { return p.Lane.Ends[1-p.SrcSide].ID }
func (p *TPkt) String() string {
	return fmt.Sprintf("%s[%d→%d %s#%d %s %s]", p.Lane.Kind, p.src(), p.dst(), p.srcID(), p.Seq, p.Amt, p.Path)
}

// inflight: tokens left the sender's reach on the source but are not (or no longer) credited on the destination.
func (p *TPkt) inflight() bool {
	if p.Terminal != "" {
		return false
	}
	if !p.Received {
		return true
	}
	if p.AckSuccess == nil { // async, credited and kept by the destination for now
		return false
	}
	return !*p.AckSuccess
}

// Sim is a world of chains with transfer lanes, the truth log and the ledger model.
type Sim struct {
	C           *kit.Check
	W           *kit.World
	Ch          []*kit.Chain
	R           *kit.Rng
	Links       []*Link
	Lanes       []*Lane
	Pkts        []*TPkt
	Focus       string
	trace       []string
	paths       []map[string]string                 // per chain: bank denom -> full path (model knowledge)
	model       []map[string]map[string]sdkmath.Int // per chain: address -> denom -> expected balance
	native      []map[string]sdkmath.Int            // per chain: native denom -> supply at start
	curRelay    *TPkt
	curKind     string
	pendingV2   *ftpd
	hist        [][]sdk.Msg
	broken      map[string]bool
	grants      map[string]bool // "<chain>|<granter acct>|<grantee acct>" -> live MsgTransfer grant
	observeOnly bool
	preferV2    bool // worlds with a v2 client pair on every link send half of their traffic over those
	// accounts whose receives are made to fail
	Routes []*TPkt // root packets that carried a forward memo
}

func (s *Sim) log(format string, a ...any) {
	if len(s.trace) < 600 {
		s.trace = append(s.trace, fmt.Sprintf(format, a...))
	}
}

func (s *Sim) viol(prop, sig, format string, a ...any) {
	what := fmt.Sprintf(format, a...)
	if prop == s.Focus || strings.Contains(s.Focus, prop) {
		tail := s.trace
		if len(tail) > 50 {
			tail = tail[len(tail)-50:]
		}
		s.C.Violate(sig, what, map[string]any{"trace_tail": tail})
	} else {
		s.C.Inc("other_property_violations_" + prop)
		s.C.T.Logf("(not judged here) %s %s: %s", prop, sig, what)
	}
}

type Topology struct {
	Chains int
	Links  [][2]int
	V2On   map[int]bool // link index -> also create an IBC v2 client pair
	// Desync creates a few dummy clients on some chains first, so that the two ends of a link carry different client ids
	// (ibctesting otherwise hands out the same ids on both chains)
	Desync bool
}

// TriangleV2 has an IBC v2 client pair on every link and different client ids on the two ends of each link.
func TriangleV2() Topology {
	return Topology{Chains: 3, Links: [][2]int{{0, 1}, {1, 2}, {2, 0}}, V2On: map[int]bool{0: true, 1: true, 2: true}, Desync: true}
}

func Triangle() Topology {
	return Topology{Chains: 3, Links: [][2]int{{0, 1}, {1, 2}, {2, 0}}, V2On: map[int]bool{0: true}}
}

func Line2() Topology {
	return Topology{Chains: 2, Links: [][2]int{{0, 1}}, V2On: map[int]bool{0: true}}
}

func NewSim(c *kit.Check, r *kit.Rng, topo Topology) *Sim {
	w := kit.NewWorld(c.T, topo.Chains)
	s := &Sim{C: c, W: w, Ch: w.Chains, R: r, Focus: c.Prop, broken: map[string]bool{}, grants: map[string]bool{}}
	if topo.Desync {
		// offsets (2,0,0): in four of the six lane directions the counterparty's client id then equals the id of ANOTHER lane
		// of the sending chain, so a refund computed from the wrong identifier lands in a real sibling escrow account
		offsets := []int{2, 0, 0, 1}
		for i := range s.Ch {
			for j := 0; j < offsets[i%len(offsets)]; j++ {
				if err := ibctesting.NewPath(s.Ch[i].TestChain, s.Ch[(i+1)%len(s.Ch)].TestChain).EndpointA.CreateClient(); err != nil {
					panic(kit.Abort{Msg: err.Error()})
				}
			}
		}
	}
	for i, lk := range topo.Links {
		a, b := s.Ch[lk[0]].TestChain, s.Ch[lk[1]].TestChain
		p := ibctesting.NewTransferPath(a, b)
		p.Setup()
		l := &Link{X: lk[0], Y: lk[1], P: p}
		if topo.V2On[i] {
			v := ibctesting.NewPath(a, b)
			v.SetupV2()
			l.V2 = v
		}
		s.Links = append(s.Links, l)
		ends := [2]End{{lk[0], p.EndpointA.ChannelID}, {lk[1], p.EndpointB.ChannelID}}
		s.Lanes = append(s.Lanes, &Lane{L: l, Kind: "v1", Ends: ends}, &Lane{L: l, Kind: "alias", Ends: ends})
		if l.V2 != nil {
			s.Lanes = append(s.Lanes, &Lane{L: l, Kind: "v2", Ends: [2]End{{lk[0], l.V2.EndpointA.ClientID}, {lk[1], l.V2.EndpointB.ClientID}}})
		}
	}
	s.preferV2 = topo.Desync
	n := len(s.Ch)
	s.paths = make([]map[string]string, n)
	s.model = make([]map[string]map[string]sdkmath.Int, n)
	s.native = make([]map[string]sdkmath.Int, n)
	s.hist = make([][]sdk.Msg, n)
	for i, ch := range s.Ch {
		s.paths[i] = map[string]string{}
		s.model[i] = map[string]map[string]sdkmath.Int{}
		s.native[i] = map[string]sdkmath.Int{}
		for _, coin := range ch.AllSupply() {
			if !strings.HasPrefix(coin.Denom, "ibc/") {
				s.native[i][coin.Denom] = coin.Amount
			}
		}
		for j := range ch.SenderAccounts {
			s.track(i, ch.Addr(j).String(), true)
		}
		idx := i
		ch.OnTx = func(o *kit.Outcome) { s.observe(idx, o) }
	}
	return s
}

// track starts following an account: its current real balances become the model's starting point.
func (s *Sim) track(chain int, addr string, fromActual bool) {
	if _, ok := s.model[chain][addr]; ok {
		return
	}
	m := map[string]sdkmath.Int{}
	a, err := sdk.AccAddressFromBech32(addr)
	// accounts first met in the middle of a history (forward middleware accounts) have never been funded: start from zero
	if err == nil && fromActual {
		for _, c := range s.Ch[chain].Sim.BankKeeper.GetAllBalances(s.Ch[chain].GetContext(), a) {
			m[c.Denom] = c.Amount
		}
	}
	s.model[chain][addr] = m
}

func (s *Sim) modelAdd(chain int, addr, denom string, amt sdkmath.Int) {
	s.track(chain, addr, false)
	cur, ok := s.model[chain][addr][denom]
	if !ok {
		cur = sdkmath.ZeroInt()
	}
	s.model[chain][addr][denom] = cur.Add(amt)
}

// ---------------------------------------------------------------------------------------------
// denomination model (ICS-20 rules written from the spec)

func isHopID(s string) bool {
	return channeltypes.IsValidChannelID(s) || clienttypes.IsValidClientID(s)
}

// splitTrace separates leading (port, id) hops from the base denomination. Only used for the simple
// base denominations of this workload (no '/' inside the base).
func splitTrace(path string) (hops [][2]string, base string) {
	parts := strings.Split(path, "/")
	i := 0
	for i+2 <= len(parts)-1 && parts[i] == port && isHopID(parts[i+1]) {
		hops = append(hops, [2]string{parts[i], parts[i+1]})
		i += 2
	}
	return hops, strings.Join(parts[i:], "/")
}

func bankDenomOf(fullPath string) string {
	hops, _ := splitTrace(fullPath)
	if len(hops) == 0 {
		return fullPath
	}
	h := sha256.Sum256([]byte(fullPath))
	return "ibc/" + strings.ToUpper(hex.EncodeToString(h[:]))
}

// recvPath: the full path of the token on the destination after receiving `path` sent from (srcPort,srcID) to (dstPort,dstID).
func recvPath(path, srcID, dstID string) (string, bool) {
	pre := port + "/" + srcID + "/"
	if strings.HasPrefix(path, pre) {
		return path[len(pre):], true // returning home over this channel: unescrow
	}
	return port + "/" + dstID + "/" + path, false
}

func (s *Sim) pathOf(chain int, bank string) string {
	if !strings.HasPrefix(bank, "ibc/") {
		return bank
	}
	if p, ok := s.paths[chain][bank]; ok {
		return p
	}
	// not known to the model: read what the chain recorded (observed side)
	ch := s.Ch[chain]
	if d, err := ch.Sim.TransferKeeper.GetDenomFromIBCDenom(ch.GetContext(), bank); err == nil {
		return d.Path()
	}
	return ""
}

// ---------------------------------------------------------------------------------------------
// sending

type SendOpt struct {
	Lane     *Lane
	SrcSide  int
	Sender   int    // account index on the source chain
	Denom    string // bank denom on the source
	Amt      int64
	Receiver string
	Memo     string
	Soon     bool
	Signer   int    // account that signs the tx (== Sender for honest sends)
	Encoding string // v2 payload encoding
}

func (s *Sim) timeoutFor(l *Lane, srcSide int, soon bool) (clienttypes.Height, uint64) {
	now := s.W.Coord.CurrentTime
	if l.Kind != "v1" {
		if soon {
			return clienttypes.ZeroHeight(), uint64(now.Unix()) + uint64(20+s.R.Intn(40))
		}
		return clienttypes.ZeroHeight(), uint64(now.Unix()) + 3600*uint64(1+s.R.Intn(20))
	}
	dst := s.Ch[l.Ends[1-srcSide].Chain]
	rev := clienttypes.ParseChainID(dst.ChainID)
	if soon {
		if s.R.Bool() {
			return clienttypes.NewHeight(rev, uint64(dst.App.LastBlockHeight())+uint64(3+s.R.Intn(4))), 0
		}
		return clienttypes.ZeroHeight(), uint64(now.Add(time.Duration(20+s.R.Intn(40)) * time.Second).UnixNano())
	}
	return clienttypes.NewHeight(rev, uint64(dst.App.LastBlockHeight())+100000), 0
}

// Send submits a transfer and returns the outcome; the packet itself is picked up by observe().
func (s *Sim) Send(o SendOpt) *kit.Outcome {
	src := o.Lane.Ends[o.SrcSide].Chain
	ch := s.Ch[src]
	th, tt := s.timeoutFor(o.Lane, o.SrcSide, o.Soon)
	sender := ch.Addr(o.Sender).String()
	coin := sdk.NewCoin(o.Denom, sdkmath.NewInt(o.Amt))
	var msg sdk.Msg
	if o.Lane.Kind == "v1" {
		msg = transfertypes.NewMsgTransfer(port, o.Lane.Ends[o.SrcSide].ID, coin, sender, o.Receiver, th, tt, o.Memo)
	} else {
		path := s.pathOf(src, o.Denom)
		data := transfertypes.NewFungibleTokenPacketData(path, coin.Amount.String(), sender, o.Receiver, o.Memo)
		enc := o.Encoding
		if enc == "" {
			enc = transfertypes.EncodingProtobuf
		}
		var bz []byte
		var err error
		switch enc {
		case transfertypes.EncodingJSON:
			bz, err = json.Marshal(data)
		case transfertypes.EncodingABI:
			bz, err = transfertypes.EncodeABIFungibleTokenPacketData(&data)
		default:
			bz, err = proto.Marshal(&data)
		}
		if err != nil {
			s.log("encode failed: %v", err)
			return nil
		}
		s.pendingV2 = &ftpd{Denom: path, Amount: coin.Amount.String(), Sender: sender, Receiver: o.Receiver, Memo: o.Memo}
		pl := channeltypesv2.NewPayload(port, port, transfertypes.V1, enc, bz)
		msg = channeltypesv2.NewMsgSendPacket(o.Lane.Ends[o.SrcSide].ID, tt, ch.Addr(o.Signer).String(), pl)
	}
	s.curKind = "send"
	out := ch.Deliver(ch.Acct(o.Signer), msg)
	s.curKind, s.pendingV2 = "", nil
	s.log("send %s side%d acct%d signer%d %s -> %s memo=%q ok=%v %s", o.Lane.Kind, o.SrcSide, o.Sender, o.Signer, coin, shortAddr(o.Receiver), clip(o.Memo, 60), out.OK(), clip(out.Log, 120))
	return out
}

func clip(s string, n int) string {
	if len(s) > n {
		return s[:n] + "…"
	}
	return s
}

func shortAddr(a string) string {
	if len(a) > 14 {
		return a[:10] + "…" + a[len(a)-4:]
	}
	return a
}

// ---------------------------------------------------------------------------------------------
// relaying

func (s *Sim) update(l *Lane, side int) error {
	var err error
	if e := kit.Try(func() { err = l.ep(side).UpdateClient() }); e != nil {
		return e
	}
	return err
}

func (s *Sim) relayer(chain int) (ibctesting.SenderAccount, string) {
	a := s.Ch[chain].Acct(5 + s.R.Intn(5))
	return a, a.SenderAccount.GetAddress().String()
}

func (s *Sim) deliver(chain int, acct ibctesting.SenderAccount, msg sdk.Msg, kind string, p *TPkt) *kit.Outcome {
	s.curRelay, s.curKind = p, kind
	defer func() { s.curRelay, s.curKind = nil, "" }()
	s.hist[chain] = append(s.hist[chain], msg)
	o := s.Ch[chain].Deliver(acct, msg)
	s.log("%s %v on chain%d ok=%v %s", kind, p, chain, o.OK(), clip(o.Log, 100))
	return o
}

func (s *Sim) Recv(p *TPkt) *kit.Outcome {
	dside := 1 - p.SrcSide
	if err := s.update(p.Lane, dside); err != nil {
		s.log("update failed: %v", err)
	}
	acct, addr := s.relayer(p.dst())
	var msg sdk.Msg
	if p.IsV2 {
		proof, ph := s.Ch[p.src()].QueryProof(hostv2.PacketCommitmentKey(p.V2.SourceClient, p.Seq))
		msg = channeltypesv2.NewMsgRecvPacket(p.V2, proof, ph, addr)
	} else {
		proof, ph := s.Ch[p.src()].QueryProof(host.PacketCommitmentKey(p.V1.SourcePort, p.V1.SourceChannel, p.Seq))
		msg = channeltypes.NewMsgRecvPacket(p.V1, proof, ph, addr)
	}
	return s.deliver(p.dst(), acct, msg, "recv", p)
}

func (s *Sim) Ack(p *TPkt) *kit.Outcome {
	if err := s.update(p.Lane, p.SrcSide); err != nil {
		s.log("update failed: %v", err)
	}
	acct, addr := s.relayer(p.src())
	var msg sdk.Msg
	if p.IsV2 {
		if p.AckV2 == nil {
			return nil
		}
		proof, ph := s.Ch[p.dst()].QueryProof(hostv2.PacketAcknowledgementKey(p.V2.DestinationClient, p.Seq))
		msg = channeltypesv2.NewMsgAcknowledgement(p.V2, *p.AckV2, proof, ph, addr)
	} else {
		if p.AckV1 == nil {
			return nil
		}
		proof, ph := s.Ch[p.dst()].QueryProof(host.PacketAcknowledgementKey(p.V1.DestinationPort, p.V1.DestinationChannel, p.Seq))
		msg = channeltypes.NewMsgAcknowledgement(p.V1, p.AckV1, proof, ph, addr)
	}
	return s.deliver(p.src(), acct, msg, "ack", p)
}

func (s *Sim) Timeout(p *TPkt) *kit.Outcome {
	if err := s.update(p.Lane, p.SrcSide); err != nil {
		s.log("update failed: %v", err)
	}
	acct, addr := s.relayer(p.src())
	var msg sdk.Msg
	if p.IsV2 {
		proof, ph := s.Ch[p.dst()].QueryProof(hostv2.PacketReceiptKey(p.V2.DestinationClient, p.Seq))
		msg = channeltypesv2.NewMsgTimeout(p.V2, proof, ph, addr)
	} else {
		proof, ph := s.Ch[p.dst()].QueryProof(host.PacketReceiptKey(p.V1.DestinationPort, p.V1.DestinationChannel, p.Seq))
		msg = channeltypes.NewMsgTimeout(p.V1, 1, proof, ph, addr)
	}
	return s.deliver(p.src(), acct, msg, "timeout", p)
}

func (s *Sim) elapsed(p *TPkt) bool {
	d := s.Ch[p.dst()]
	t := d.LatestCommittedHeader.GetTime()
	if p.IsV2 {
		return uint64(t.Unix()) >= p.V2.TimeoutTimestamp
	}
	th := p.V1.TimeoutHeight
	if !th.IsZero() && uint64(d.App.LastBlockHeight()) >= th.RevisionHeight {
		return true
	}
	return p.V1.TimeoutTimestamp != 0 && uint64(t.UnixNano()) >= p.V1.TimeoutTimestamp
}

func (s *Sim) soon(p *TPkt) bool {
	d := s.Ch[p.dst()]
	if p.IsV2 {
		return int64(p.V2.TimeoutTimestamp)-s.W.Coord.CurrentTime.Unix() < 200
	}
	if !p.V1.TimeoutHeight.IsZero() && int64(p.V1.TimeoutHeight.RevisionHeight)-d.App.LastBlockHeight() < 12 {
		return true
	}
	return p.V1.TimeoutTimestamp != 0 && int64(p.V1.TimeoutTimestamp)-s.W.Coord.CurrentTime.UnixNano() < int64(200*time.Second)
}

func (s *Sim) Advance(p *TPkt) {
	for i := 0; i < 45 && !s.elapsed(p); i++ {
		s.Ch[p.dst()].Commit()
	}
}

// ---------------------------------------------------------------------------------------------
// event parsing (truth log of what chains really emitted)

func attr(ev abci.Event, key string) (string, bool) {
	for _, a := range ev.Attributes {
		if a.Key == key {
			return a.Value, true
		}
	}
	return "", false
}

type ftpd struct {
	Denom    string `json:"denom"`
	Amount   string `json:"amount"`
	Sender   string `json:"sender"`
	Receiver string `json:"receiver"`
	Memo     string `json:"memo"`
}

func pktKey(chain int, id string, seq uint64) string {
	return strconv.Itoa(chain) + "|" + id + "|" + strconv.FormatUint(seq, 10)
}

func (s *Sim) laneFor(chain int, id, kind string) (*Lane, int) {
	for _, l := range s.Lanes {
		if l.Kind != kind {
			continue
		}
		if sd := l.side(chain); sd >= 0 && l.Ends[sd].ID == id {
			return l, sd
		}
	}
	return nil, -1
}

func sortedKeys[V any](m map[string]V) []string {
	ks := make([]string, 0, len(m))
	for k := range m {
		ks = append(ks, k)
	}
	sort.Strings(ks)
	return ks
}
