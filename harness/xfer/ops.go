package xfer

import (
	"fmt"
	"strings"
	"time"

	sdkmath "cosmossdk.io/math"

	sdk "github.com/cosmos/cosmos-sdk/types"
	authtypes "github.com/cosmos/cosmos-sdk/x/auth/types"
	"github.com/cosmos/cosmos-sdk/x/authz"

	pfmtypes "github.com/cosmos/ibc-go/v11/modules/apps/packet-forward-middleware/types"
	transfertypes "github.com/cosmos/ibc-go/v11/modules/apps/transfer/types"

	"verif/harness/kit"
)

type Profile struct {
	Send, Forward, Recv, Ack, Timeout, Dup, HostileSend, ToggleRecv, Commit, Grant, Exec int
	SoonPct, BadReceiverPct                                                              int
	MaxDepth                                                                             int
}

func DefaultProfile() Profile {
	return Profile{Send: 22, Forward: 8, Recv: 22, Ack: 18, Timeout: 8, Dup: 8, HostileSend: 4, ToggleRecv: 1, Commit: 2, SoonPct: 30, BadReceiverPct: 15, MaxDepth: 3}
}

func (s *Sim) pick(f func(p *TPkt) bool) *TPkt {
	var c []*TPkt
	for _, p := range s.Pkts {
		if f(p) {
			c = append(c, p)
		}
	}
	if len(c) == 0 {
		return nil
	}
	return c[s.R.Intn(len(c))]
}

// spendable returns a (denom, amount) the account holds on the chain, preferring variety (native and vouchers).
func (s *Sim) spendable(chain, acct int) (string, int64, bool) {
	ch := s.Ch[chain]
	bals := ch.Sim.BankKeeper.GetAllBalances(ch.GetContext(), ch.Addr(acct))
	var c []sdk.Coin
	for _, b := range bals {
		if b.Amount.IsPositive() {
			c = append(c, b)
		}
	}
	if len(c) == 0 {
		return "", 0, false
	}
	// vouchers are rarer than native coins: pick them with higher probability when present
	var vouchers []sdk.Coin
	for _, b := range c {
		if strings.HasPrefix(b.Denom, "ibc/") {
			vouchers = append(vouchers, b)
		}
	}
	pool := c
	if len(vouchers) > 0 && s.R.Intn(100) < 60 {
		pool = vouchers
	}
	b := pool[s.R.Intn(len(pool))]
	max := int64(60)
	if b.Amount.IsInt64() && b.Amount.Int64() < max {
		max = b.Amount.Int64()
	}
	if strings.HasPrefix(b.Denom, "ibc/") && b.Amount.IsInt64() && b.Amount.Int64() < 100000 && s.R.Intn(5) == 0 {
		// boundary: the holder's whole balance of a voucher
		s.C.Inc("sends_of_a_whole_voucher_balance")
		return b.Denom, b.Amount.Int64(), true
	}
	return b.Denom, 1 + int64(s.R.Intn(int(max))), true
}

func (s *Sim) badReceiver(chain int) string {
	switch s.R.Intn(3) {
	case 0:
		return "not-a-bech32-address"
	case 1:
		// module accounts are blocked receivers
		return authtypes.NewModuleAddress("distribution").String()
	default:
		return "cosmos1invalidchecksumxxxxxxxxxxxxxxxxxxxxxxxxx"
	}
}

func (s *Sim) lanesFrom(chain int, kinds ...string) []*Lane {
	var out []*Lane
	for _, l := range s.Lanes {
		if l.side(chain) < 0 {
			continue
		}
		for _, k := range kinds {
			if l.Kind == k {
				out = append(out, l)
			}
		}
	}
	return out
}

func (s *Sim) opSend(pr Profile) string {
	l := s.Lanes[s.R.Intn(len(s.Lanes))]
	if s.preferV2 && s.R.Bool() {
		if v2 := s.lanesFrom(s.R.Intn(len(s.Ch)), "v2"); len(v2) > 0 {
			l = v2[s.R.Intn(len(v2))]
		}
	}
	side := s.R.Intn(2)
	src, dst := l.Ends[side].Chain, l.Ends[1-side].Chain
	acct := s.R.Intn(5)
	denom, amt, ok := s.spendable(src, acct)
	if !ok {
		return ""
	}
	if l.Kind != "v1" && strings.Contains(s.pathOf(src, denom), "/") && false {
		return ""
	}
	if s.R.Intn(3) == 0 {
		// a voucher with several hops goes back over the lane it arrived on (burn on send) every now and then
		for a := 0; a < 5; a++ {
			ch := s.Ch[src]
			for _, b := range ch.Sim.BankKeeper.GetAllBalances(ch.GetContext(), ch.Addr(a)) {
				path := s.pathOf(src, b.Denom)
				hops, _ := splitTrace(path)
				if len(hops) >= 2 && hops[0][1] == l.Ends[side].ID && b.Amount.IsPositive() {
					acct, denom, amt = a, b.Denom, 1+int64(s.R.Intn(int(min64(b.Amount.Int64(), 40))))
					s.C.Inc("multi_hop_voucher_returns")
				}
			}
		}
	}
	recv := s.Ch[dst].Addr(s.R.Intn(5)).String()
	cls := "send-" + l.Kind
	if s.R.Intn(100) < pr.BadReceiverPct {
		recv = s.badReceiver(dst)
		cls += "-badrecv"
	}
	enc := kit.Pick(s.R, []string{transfertypes.EncodingProtobuf, transfertypes.EncodingJSON, transfertypes.EncodingABI})
	// free-text memos (not instructions for any middleware): a memo must not change where tokens or refunds go
	memo := ""
	switch s.R.Intn(6) {
	case 0:
		memo = "thanks"
	case 1:
		memo = "invoice 2026-09/000417, second instalment"
	case 2:
		memo = `{"note":"` + strings.Repeat("x", 1+s.R.Intn(200)) + `"}`
	}
	if memo != "" {
		s.C.Inc("plain_sends_with_free_text_memo")
	}
	o := s.Send(SendOpt{Lane: l, SrcSide: side, Sender: acct, Signer: acct, Denom: denom, Amt: amt, Receiver: recv, Memo: memo, Soon: s.R.Intn(100) < pr.SoonPct, Encoding: enc})
	if o == nil || !o.OK() {
		return cls + "-rej"
	}
	if strings.HasPrefix(denom, "ibc/") {
		cls += "-voucher"
	}
	return cls
}

// opForward sends a v1 transfer whose memo asks the next chain(s) to forward it on.
func (s *Sim) opForward(pr Profile) string {
	v1 := s.lanesFrom(s.R.Intn(len(s.Ch)), "v1")
	if len(v1) == 0 {
		return ""
	}
	first := v1[s.R.Intn(len(v1))]
	side := s.R.Intn(2)
	src := first.Ends[side].Chain
	cur := first.Ends[1-side].Chain
	acct := s.R.Intn(5)
	denom, amt, ok := s.spendable(src, acct)
	if !ok {
		return ""
	}
	depth := 1 + s.R.Intn(pr.MaxDepth-1) // number of forward hops
	// every third route unwinds a voucher with several hops along its own trace (the usual purpose of forwarding), half of the time
	// with the holder's whole balance (so that escrow totals pass through zero on the way)
	var trail [][2]string
	if s.R.Intn(3) == 0 {
	search:
		for k := 0; k < len(s.Ch)*5; k++ {
			from, a := (src+k/5)%len(s.Ch), k%5
			ch := s.Ch[from]
			for _, b := range ch.Sim.BankKeeper.GetAllBalances(ch.GetContext(), ch.Addr(a)) {
				th, _ := splitTrace(s.pathOf(from, b.Denom))
				if len(th) < 2 || !b.Amount.IsPositive() || !b.Amount.IsInt64() {
					continue
				}
				for _, l := range s.lanesFrom(from, "v1") {
					if l.Ends[l.side(from)].ID == th[0][1] {
						src = from
						first, side, cur = l, l.side(src), l.Ends[1-l.side(src)].Chain
						acct, denom, amt = a, b.Denom, 1+int64(s.R.Intn(int(min64(b.Amount.Int64(), 40))))
						if s.R.Bool() {
							amt = b.Amount.Int64()
							s.C.Inc("unwind_routes_with_whole_balance")
						}
						trail = th[1:]
						if s.R.Intn(3) == 0 && len(trail) > 1 {
							trail = trail[:1+s.R.Intn(len(trail)-1)]
						}
						depth = len(trail)
						s.C.Inc("unwind_routes")
						break search
					}
				}
			}
		}
	}
	var hops []pfmtypes.ForwardMetadata
	route := fmt.Sprint(src, "→", cur)
	arrival := first
	for i := 0; i < depth; i++ {
		cands := s.lanesFrom(cur, "v1")
		if trail != nil {
			var on []*Lane
			for _, l := range cands {
				if l.Ends[l.side(cur)].ID == trail[i][1] {
					on = append(on, l)
				}
			}
			cands = on
		}
		if len(cands) == 0 {
			break
		}
		l := cands[s.R.Intn(len(cands))]
		sd := l.side(cur)
		if l == arrival {
			route += "(back)"
		}
		var retries *uint8
		if s.R.Bool() {
			r := uint8(s.R.Intn(3))
			retries = &r
		}
		fm := pfmtypes.ForwardMetadata{Port: port, Channel: l.Ends[sd].ID, Retries: retries}
		if s.R.Intn(100) < 50 {
			fm.Timeout = time.Duration(20+s.R.Intn(40)) * time.Second
		}
		cur = l.Ends[1-sd].Chain
		route += fmt.Sprint("→", cur)
		fm.Receiver = "pfm-intermediate" // overwritten below for the last hop
		if s.R.Bool() {
			// some integrators put a real address of the next chain here; it must never end up holding the funds
			fm.Receiver = s.Ch[cur].Addr(s.R.Intn(5)).String()
		}
		hops = append(hops, fm)
		arrival = l
	}
	if len(hops) == 0 {
		return ""
	}
	final := s.Ch[cur].Addr(s.R.Intn(5)).String()
	bad := s.R.Intn(100) < pr.BadReceiverPct+10
	if bad {
		final = s.badReceiver(cur)
	}
	hops[len(hops)-1].Receiver = final
	var next *pfmtypes.PacketMetadata
	for i := len(hops) - 1; i >= 0; i-- {
		h := hops[i]
		h.Next = next
		next = &pfmtypes.PacketMetadata{Forward: h}
	}
	memo, err := next.ToMemo()
	if err != nil {
		return ""
	}
	before := len(s.Pkts)
	o := s.Send(SendOpt{Lane: first, SrcSide: side, Sender: acct, Signer: acct, Denom: denom, Amt: amt, Receiver: "pfm", Memo: memo, Soon: s.R.Intn(100) < pr.SoonPct/2})
	if o == nil || !o.OK() || len(s.Pkts) == before {
		return "forward-rej"
	}
	root := s.Pkts[len(s.Pkts)-1]
	root.WantFinal, root.WantHops = final, len(hops)
	s.Routes = append(s.Routes, root)
	s.C.Inc("routes_started")
	cls := fmt.Sprintf("forward-d%d", len(hops))
	if bad {
		cls += "-badfinal"
	}
	if strings.Contains(route, "back") {
		cls += "-back"
		s.C.Inc("routes_back_over_arrival_channel")
	}
	s.log("route %s depth %d bad=%v", route, len(hops), bad)
	return cls
}

func (s *Sim) opHostileSend() string {
	l := s.Lanes[s.R.Intn(len(s.Lanes))]
	side := s.R.Intn(2)
	src, dst := l.Ends[side].Chain, l.Ends[1-side].Chain
	victim, attacker := s.R.Intn(5), 5+s.R.Intn(5)
	denom, amt, ok := s.spendable(src, victim)
	if !ok {
		return ""
	}
	// the attacker signs a transfer that names the victim as sender and the attacker's own account elsewhere as receiver
	o := s.Send(SendOpt{Lane: l, SrcSide: side, Sender: victim, Signer: attacker, Denom: denom, Amt: amt, Receiver: s.Ch[dst].Addr(attacker).String()})
	s.C.Inc("hostile_sends")
	if o != nil && o.OK() {
		s.C.Inc("hostile_sends_accepted")
		return "hostile-send-" + l.Kind + "-ACCEPTED"
	}
	return "hostile-send-" + l.Kind + "-rej"
}

func (s *Sim) Step(pr Profile) string {
	type op struct {
		w int
		f func() string
	}
	ops := []op{
		{pr.Send, func() string { return s.opSend(pr) }},
		{pr.Forward, func() string { return s.opForward(pr) }},
		{pr.Recv, func() string {
			p := s.pick(func(p *TPkt) bool { return !p.Received && p.Terminal == "" && !s.elapsed(p) })
			if p == nil {
				return ""
			}
			o := s.Recv(p)
			return "recv-" + okS(o) + "-" + p.RecvResult
		}},
		{pr.Ack, func() string {
			p := s.pick(func(p *TPkt) bool { return p.Received && p.Terminal == "" && (p.AckV1 != nil || p.AckV2 != nil) })
			if p == nil {
				return ""
			}
			o := s.Ack(p)
			return "ack-" + okS(o) + "-" + p.Terminal
		}},
		{pr.Timeout, func() string {
			p := s.pick(func(p *TPkt) bool { return !p.Received && p.Terminal == "" && s.soon(p) })
			if p == nil {
				return ""
			}
			s.Advance(p)
			o := s.Timeout(p)
			cls := "timeout-" + okS(o)
			if p.Parent != nil {
				cls += "-hop"
			}
			return cls
		}},
		{pr.Dup, func() string {
			p := s.pick(func(p *TPkt) bool { return p.Received || p.Terminal != "" })
			if p == nil {
				return ""
			}
			var o *kit.Outcome
			switch {
			case p.Terminal != "" && (p.AckV1 != nil || p.AckV2 != nil) && s.R.Bool():
				o = s.Ack(p)
				return "dup-ack-" + okS(o)
			case p.Terminal != "" && !p.Received && s.elapsed(p):
				o = s.Timeout(p)
				return "dup-timeout-" + okS(o)
			default:
				o = s.Recv(p)
				return "dup-recv-" + okS(o)
			}
		}},
		{pr.HostileSend, func() string { return s.opHostileSend() }},
		{pr.ToggleRecv, func() string {
			c := s.R.Intn(len(s.Ch))
			ch := s.Ch[c]
			on := s.R.Bool()
			ch.InBlock(func(ctx sdk.Context) error {
				ch.Sim.TransferKeeper.SetParams(ctx, transfertypes.NewParams(true, on))
				return nil
			})
			return fmt.Sprintf("recv-enabled-%v", on)
		}},
		{pr.Commit, func() string {
			s.Ch[s.R.Intn(len(s.Ch))].Commit()
			return "commit"
		}},
		{pr.Grant, func() string { return s.opGrant() }},
		{pr.Exec, func() string { return s.opExec() }},
	}
	total := 0
	for _, o := range ops {
		total += o.w
	}
	x := s.R.Intn(total)
	for _, o := range ops {
		if x < o.w {
			var cls string
			if err := kit.Try(func() { cls = o.f() }); err != nil {
				s.log("op aborted: %v", err)
				s.C.Inc("op_aborts")
				return "abort"
			}
			return cls
		}
		x -= o.w
	}
	return ""
}

// opGrant: an account authorises another one to transfer on its behalf (generic or ICS-20 transfer authorization), or revokes it.
func (s *Sim) opGrant() string {
	chain := s.R.Intn(len(s.Ch))
	ch := s.Ch[chain]
	granter, grantee := s.R.Intn(5), 5+s.R.Intn(5)
	key := fmt.Sprintf("%d|%d|%d", chain, granter, grantee)
	if s.grants[key] && s.R.Bool() {
		msg := authz.NewMsgRevoke(ch.Addr(granter), ch.Addr(grantee), sdk.MsgTypeURL(&transfertypes.MsgTransfer{}))
		o := ch.Deliver(ch.Acct(granter), &msg)
		if o.OK() {
			delete(s.grants, key)
		}
		return "revoke-" + okS(o)
	}
	var a authz.Authorization = authz.NewGenericAuthorization(sdk.MsgTypeURL(&transfertypes.MsgTransfer{}))
	kind := "generic"
	if s.R.Bool() {
		lanes := s.lanesFrom(chain, "v1")
		if len(lanes) > 0 {
			l := lanes[s.R.Intn(len(lanes))]
			a = transfertypes.NewTransferAuthorization(transfertypes.Allocation{SourcePort: port, SourceChannel: l.Ends[l.side(chain)].ID,
				SpendLimit: sdk.NewCoins(sdk.NewCoin(sdk.DefaultBondDenom, sdkmath.NewInt(1000000))), AllowedPacketData: []string{"*"}})
			kind = "transfer-authorization"
		}
	}
	exp := s.W.Coord.CurrentTime.Add(1000 * time.Hour)
	msg, err := authz.NewMsgGrant(ch.Addr(granter), ch.Addr(grantee), a, &exp)
	if err != nil {
		return ""
	}
	o := ch.Deliver(ch.Acct(granter), msg)
	if o.OK() {
		s.grants[key] = true
		s.C.Inc("grants")
	}
	return "grant-" + kind + "-" + okS(o)
}

// opExec: a grantee (or a stranger without any grant) executes a transfer out of somebody else's account through authz.
func (s *Sim) opExec() string {
	l := s.Lanes[s.R.Intn(len(s.Lanes))]
	if l.Kind != "v1" {
		return ""
	}
	side := s.R.Intn(2)
	chain, dst := l.Ends[side].Chain, l.Ends[1-side].Chain
	ch := s.Ch[chain]
	victim, actor := s.R.Intn(5), 5+s.R.Intn(5)
	if s.R.Intn(4) != 0 {
		// prefer a pair with a live grant on this chain, if there is one
		for _, k := range sortedKeys(s.grants) {
			var c0, g0, e0 int
			if _, err := fmt.Sscanf(k, "%d|%d|%d", &c0, &g0, &e0); err == nil && c0 == chain {
				victim, actor = g0, e0
				break
			}
		}
	}
	key := fmt.Sprintf("%d|%d|%d", chain, victim, actor)
	th, tt := s.timeoutFor(l, side, false)
	inner := transfertypes.NewMsgTransfer(port, l.Ends[side].ID, sdk.NewCoin(sdk.DefaultBondDenom, sdkmath.NewInt(int64(1+s.R.Intn(40)))), ch.Addr(victim).String(), s.Ch[dst].Addr(actor).String(), th, tt, "")
	msg := authz.NewMsgExec(ch.Addr(actor), []sdk.Msg{inner})
	s.curKind = "send"
	o := ch.Deliver(ch.Acct(actor), &msg)
	s.curKind = ""
	s.C.Inc("authz_execs")
	cls := "exec-without-grant"
	if s.grants[key] {
		cls = "exec-with-grant"
	}
	if o.OK() {
		s.C.Inc(cls + "_accepted")
	} else {
		s.C.Inc(cls + "_rejected")
	}
	s.log("%s acct%d from acct%d on chain%d ok=%v %s", cls, actor, victim, chain, o.OK(), clip(o.Log, 100))
	return cls + "-" + okS(o)
}

func min64(a, b int64) int64 {
	if a < b {
		return a
	}
	return b
}

func okS(o *kit.Outcome) string {
	if o == nil {
		return "nil"
	}
	if o.OK() {
		return "ok"
	}
	return "rej"
}

// Drain relays everything honestly until nothing is outstanding (bounded).
func (s *Sim) Drain() {
	for _, ch := range s.Ch {
		c := ch
		c.InBlock(func(ctx sdk.Context) error {
			c.Sim.TransferKeeper.SetParams(ctx, transfertypes.NewParams(true, true))
			return nil
		})
	}
	idle := 0
	for round := 0; round < 16; round++ {
		progress := false
		for i := 0; i < len(s.Pkts); i++ {
			p := s.Pkts[i]
			if p.Terminal != "" {
				continue
			}
			_ = kit.Try(func() {
				if !p.Received {
					if s.elapsed(p) {
						if o := s.Timeout(p); o != nil && o.OK() {
							progress = true
						} else if o != nil {
							p.TimeoutRefused++
							p.TimeoutRefusedLog = clip(o.Log, 200)
						}
						return
					}
					if o := s.Recv(p); o != nil && o.OK() {
						progress = true
					}
				}
				if p.Received && p.Terminal == "" && (p.AckV1 != nil || p.AckV2 != nil) {
					if o := s.Ack(p); o != nil && o.OK() {
						progress = true
					} else if o != nil {
						p.AckRefused++
						p.AckRefusedLog = clip(o.Log, 200)
					}
				}
			})
		}
		if !progress {
			idle++
			// a receive refused only because the next block already reaches the timeout needs the clock to move on
			for _, ch := range s.Ch {
				ch.Commit()
			}
			if idle >= 3 {
				break
			}
		} else {
			idle = 0
		}
	}
}

// EndChecks: quiescent-point invariants (C30 with nothing in flight, C43 all-or-nothing, C32 exactly-once).
func (s *Sim) EndChecks() {
	open := 0
	for _, p := range s.Pkts {
		if p.Terminal == "" {
			open++
			s.C.T.Logf("unfinished at end: %v received=%v/%s ackKnown=%v elapsed=%v parent=%v", p, p.Received, p.RecvResult, p.AckV1 != nil || p.AckV2 != nil, s.elapsed(p), p.Parent != nil)
			for _, l := range s.trace {
				if strings.Contains(l, p.String()) {
					s.C.T.Logf("   %s", l)
				}
			}
		}
		if p.Terminal == "" && !p.Received && p.TimeoutRefused >= 3 && s.elapsed(p) {
			// the packet did time out (destination past the timeout, never received), honest timeout relays with fresh
			// proofs were refused again and again: the sender can never be refunded
			s.viol("C32", "timed-out-transfer-cannot-be-refunded", "packet %v timed out on the destination but %d honest timeout relays were refused: %s", p, p.TimeoutRefused, p.TimeoutRefusedLog)
		}
		if p.Terminal == "" && p.Received && p.AckRefused >= 3 && p.AckSuccess != nil && !*p.AckSuccess {
			// the destination answered with an error acknowledgement, honest relays of it (fresh proofs) are refused again and again
			s.viol("C32", "error-acked-transfer-cannot-be-refunded", "packet %v got an error acknowledgement but %d honest acknowledgement relays were refused: %s", p, p.AckRefused, p.AckRefusedLog)
		}
		if p.Refunded > 1 {
			s.viol("C32", "refunded-twice", "packet %v refunded %d times", p, p.Refunded)
		}
	}
	s.C.Obs("packets_unfinished_at_end", int64(open))
	for c := range s.Ch {
		s.checkLedger(c)
		s.checkConservation(c)
		s.checkTotalEscrow(c)
	}
	for _, root := range s.Routes {
		if root.Terminal == "" {
			s.C.Inc("routes_unfinished")
			continue
		}
		s.C.Inc("routes_finished")
		// walk the route: intermediate accounts (senders of forward hops) must hold nothing
		var walk func(p *TPkt, depth int) (leafOK bool)
		walk = func(p *TPkt, depth int) bool {
			ok := p.Terminal == "ack-ok"
			for _, k := range p.Kids {
				a, err := sdk.AccAddressFromBech32(k.Sender)
				if err == nil {
					ch := s.Ch[k.src()]
					bals := ch.Sim.BankKeeper.GetAllBalances(ch.GetContext(), a)
					s.C.Inc("intermediate_accounts_checked")
					if !bals.IsZero() {
						s.viol("C43", "intermediate-account-keeps-funds", "forward account %s on chain %d still holds %s", shortAddr(k.Sender), k.src(), bals)
					}
				}
				walk(k, depth+1)
			}
			return ok
		}
		walk(root, 0)
		// all-or-nothing: the root's outcome must agree with the fate of the last attempted hop chain
		last := root
		depth := 0
		for len(last.Kids) > 0 {
			last = last.Kids[len(last.Kids)-1]
			depth++
		}
		if root.Terminal == "ack-ok" && (depth != root.WantHops || last.Receiver != root.WantFinal) {
			s.viol("C43", "route-acknowledged-but-final-receiver-not-reached", "route %v acknowledged as success after %d of %d forward hops; last hop credited %s, the memo names %s", root, depth, root.WantHops, shortAddr(last.Receiver), shortAddr(root.WantFinal))
			continue
		}
		delivered := last.Terminal == "ack-ok" && last.RecvResult == "success"
		if last == root {
			delivered = root.RecvResult == "success"
		}
		switch {
		case root.Terminal == "ack-ok" && !delivered:
			s.viol("C43", "route-acknowledged-but-not-delivered", "route %v acknowledged as success but the last hop %v did not deliver", root, last)
		case root.Terminal != "ack-ok" && delivered:
			s.viol("C43", "route-refunded-and-delivered", "route %v refunded although the last hop %v delivered", root, last)
		case root.Terminal == "ack-ok":
			s.C.Inc("routes_delivered")
		default:
			s.C.Inc("routes_refunded")
			if root.Refunded != 1 {
				s.viol("C43", "failed-route-not-refunded-once", "route %v failed, refunds=%d", root, root.Refunded)
			}
		}
	}
}

var _ = sdkmath.ZeroInt
