package pure

import (
	"fmt"
	"math/big"
	"testing"

	clienttypes "github.com/cosmos/ibc-go/v11/modules/core/02-client/types"
	channeltypes "github.com/cosmos/ibc-go/v11/modules/core/04-channel/types"

	"verif/harness/kit"
)

// reference model: a height is the integer revision·2^64 + height (lexicographic tuple order)
func hBig(h clienttypes.Height) *big.Int {
	x := new(big.Int).SetUint64(h.RevisionNumber)
	x.Lsh(x, 64)
	return x.Add(x, new(big.Int).SetUint64(h.RevisionHeight))
}

func modelCmp(a, b clienttypes.Height) int { return hBig(a).Cmp(hBig(b)) }

func sign(x int64) int {
	switch {
	case x < 0:
		return -1
	case x > 0:
		return 1
	}
	return 0
}

func genHeight(r *kit.Rng) clienttypes.Height {
	return clienttypes.Height{RevisionNumber: r.Boundary64(), RevisionHeight: r.Boundary64()}
}

// near returns a height close to h (same revision ±1 height, neighbouring revision, swapped words, …).
func nearHeight(r *kit.Rng, h clienttypes.Height) clienttypes.Height {
	switch r.Intn(8) {
	case 0:
		return clienttypes.Height{RevisionNumber: h.RevisionNumber, RevisionHeight: h.RevisionHeight + 1}
	case 1:
		return clienttypes.Height{RevisionNumber: h.RevisionNumber, RevisionHeight: h.RevisionHeight - 1}
	case 2:
		return clienttypes.Height{RevisionNumber: h.RevisionNumber + 1, RevisionHeight: h.RevisionHeight}
	case 3:
		return clienttypes.Height{RevisionNumber: h.RevisionNumber - 1, RevisionHeight: h.RevisionHeight}
	case 4:
		return clienttypes.Height{RevisionNumber: h.RevisionHeight, RevisionHeight: h.RevisionNumber}
	case 5:
		// higher revision, lower height (the case a height-only comparison gets wrong)
		return clienttypes.Height{RevisionNumber: h.RevisionNumber + 1 + uint64(r.Intn(3)), RevisionHeight: h.RevisionHeight / 2}
	case 6:
		return clienttypes.Height{RevisionNumber: h.RevisionNumber / 2, RevisionHeight: h.RevisionHeight + 1 + uint64(r.Intn(3))}
	default:
		return h
	}
}

func cmpClass(x int) string { return [...]string{"lt", "eq", "gt"}[x+1] }

func TestC17(t *testing.T) {
	c := kit.NewCheck(t, "C17", "exploration",
		"cases = triples of boundary-biased 64-bit heights (0, 1, 2^32±1, 2^53±1, 2^63±1, 2^64-1, neighbours, swapped words, higher-revision/lower-height pairs) and "+
			"(timeout, height, timestamp) combinations around the timeout; order laws are compared with a big-integer tuple model; distinct = (relation pattern of the triple, zero/non-zero timeout parts, elapsed outcome)")
	defer c.Finish()
	c.Assume("the statement leaves the exact point of equality open: Elapsed is only asserted strictly below (not elapsed) and strictly above (elapsed) the timeout; equality may go either way but must respect monotonicity")
	c.Floor("order_triples", 10000)
	c.Floor("cmp_lt", 5000)
	c.Floor("cmp_eq", 1000)
	c.Floor("cmp_gt", 5000)
	c.Floor("revision_decides", 2000)
	c.Floor("roundtrip", 10000)
	c.Floor("elapsed_true", 5000)
	c.Floor("elapsed_false", 5000)
	c.Floor("zero_timeout", 2000)
	c.Floor("monotone_pairs", 10000)

	n := c.N(40000, 400000)
	for i := 0; i < n; i++ {
		if c.SkipCase(i) {
			continue
		}
		r := c.CaseRng(i)
		a := genHeight(r)
		b := nearHeight(r, a)
		if r.Chance(1, 3) {
			b = genHeight(r)
		}
		d := nearHeight(r, b)
		if r.Chance(1, 3) {
			d = genHeight(r)
		}

		// ---- order laws vs the tuple model
		hs := [3]clienttypes.Height{a, b, d}
		var rel [3][3]int
		bad := false
		for x := 0; x < 3; x++ {
			for y := 0; y < 3; y++ {
				raw := hs[x].Compare(hs[y])
				got := sign(raw)
				rel[x][y] = got
				want := modelCmp(hs[x], hs[y])
				c.Inc("cmp_" + cmpClass(want))
				if hs[x].RevisionNumber != hs[y].RevisionNumber && u64cmp(hs[x].RevisionHeight, hs[y].RevisionHeight) != want {
					c.Inc("revision_decides")
				}
				if raw != -1 && raw != 0 && raw != 1 {
					c.Violate("C17|compare|range", fmt.Sprintf("Compare(%s,%s) returned %d, not in {-1,0,1}", hs[x], hs[y], raw), nil)
					bad = true
				}
				if got != want {
					c.Violate("C17|compare|order-"+cmpClass(want)+"-reported-"+cmpClass(got), fmt.Sprintf("Compare(%s,%s)=%d but tuple order says %d", hs[x], hs[y], raw, want), nil)
					bad = true
				}
				// helper predicates must agree with the model
				lt, lte, gt, gte, eq := hs[x].LT(hs[y]), hs[x].LTE(hs[y]), hs[x].GT(hs[y]), hs[x].GTE(hs[y]), hs[x].EQ(hs[y])
				if lt != (want < 0) || lte != (want <= 0) || gt != (want > 0) || gte != (want >= 0) || eq != (want == 0) {
					c.Violate("C17|helpers|"+cmpClass(want), fmt.Sprintf("LT/LTE/GT/GTE/EQ(%s,%s) = %v %v %v %v %v disagree with tuple order %d", hs[x], hs[y], lt, lte, gt, gte, eq, want), nil)
					bad = true
				}
			}
		}
		// totality / antisymmetry / transitivity on the observed relation itself (independent of the model)
		for x := 0; x < 3; x++ {
			if rel[x][x] != 0 {
				c.Violate("C17|order|irreflexive", fmt.Sprintf("Compare(%s,%s) != 0", hs[x], hs[x]), nil)
			}
			for y := 0; y < 3; y++ {
				if rel[x][y] != -rel[y][x] {
					c.Violate("C17|order|antisymmetry", fmt.Sprintf("Compare(%s,%s)=%d but Compare(%s,%s)=%d", hs[x], hs[y], rel[x][y], hs[y], hs[x], rel[y][x]), nil)
				}
				if rel[x][y] == 0 && hs[x] != hs[y] {
					c.Violate("C17|order|equal-but-different", fmt.Sprintf("%s and %s compare equal", hs[x], hs[y]), nil)
				}
				for z := 0; z < 3; z++ {
					if rel[x][y] <= 0 && rel[y][z] <= 0 && rel[x][z] > 0 {
						c.Violate("C17|order|transitivity", fmt.Sprintf("%s<=%s<=%s but %s>%s", hs[x], hs[y], hs[z], hs[x], hs[z]), nil)
					}
				}
			}
		}
		c.Inc("order_triples")
		_ = bad
		c.Eval(fmt.Sprintf("order|%d%d%d|rev=%v%v", rel[0][1]+1, rel[1][2]+1, rel[0][2]+1, a.RevisionNumber == b.RevisionNumber, b.RevisionNumber == d.RevisionNumber))

		// ---- text round trip
		for _, h := range hs {
			s := h.String()
			want := fmt.Sprintf("%s-%s", new(big.Int).SetUint64(h.RevisionNumber).String(), new(big.Int).SetUint64(h.RevisionHeight).String())
			back, err := clienttypes.ParseHeight(s)
			c.Inc("roundtrip")
			if err != nil || back != h {
				c.Violate("C17|roundtrip|parse(string(h))", fmt.Sprintf("ParseHeight(%q) = %v, %v; want %s", s, back, err, h), nil)
			}
			if s != want {
				c.Violate("C17|roundtrip|format", fmt.Sprintf("String() = %q, want %q", s, want), nil)
			}
		}
		c.Eval("roundtrip|" + fmt.Sprint(a.RevisionNumber == 0, a.RevisionHeight == 0, a.RevisionNumber > 1<<63, a.RevisionHeight > 1<<63))

		// ---- elapsed: model, monotonicity, zero timeout
		var to channeltypes.Timeout
		switch r.Intn(6) {
		case 0:
			to = channeltypes.Timeout{} // both zero
		case 1:
			to = channeltypes.Timeout{Height: b} // timestamp zero
		case 2:
			to = channeltypes.Timeout{Timestamp: r.Boundary64()} // height zero
		case 3:
			to = channeltypes.Timeout{Height: clienttypes.Height{RevisionNumber: b.RevisionNumber}, Timestamp: r.Boundary64()} // zero revision height only
		default:
			to = channeltypes.Timeout{Height: b, Timestamp: r.Boundary64()}
		}
		// two observation points p1 <= p2 (componentwise), both near the timeout
		var h1 clienttypes.Height
		switch r.Intn(4) {
		case 0:
			h1 = a
		case 1:
			h1 = nearHeight(r, to.Height)
		case 2:
			h1 = to.Height
		default:
			h1 = genHeight(r)
		}
		var t1 uint64
		switch r.Intn(4) {
		case 0:
			t1 = to.Timestamp
		case 1:
			t1 = to.Timestamp - 1
		case 2:
			t1 = to.Timestamp + 1
		default:
			t1 = r.Boundary64()
		}
		h2, t2 := h1, t1
		switch r.Intn(5) {
		case 0:
			h2 = nearHeight(r, h1)
		case 1:
			h2 = genHeight(r)
		case 2:
			h2 = clienttypes.Height{RevisionNumber: h1.RevisionNumber + 1, RevisionHeight: 0}
		case 3:
			h2 = to.Height
		}
		switch r.Intn(4) {
		case 0:
			t2 = t1 + 1
		case 1:
			t2 = r.Boundary64()
		case 2:
			t2 = to.Timestamp
		}
		if modelCmp(h1, h2) > 0 {
			h1, h2 = h2, h1
		}
		if t1 > t2 {
			t1, t2 = t2, t1
		}
		e1, e2 := to.Elapsed(h1, t1), to.Elapsed(h2, t2)
		for _, p := range []struct {
			h  clienttypes.Height
			ts uint64
			e  bool
		}{{h1, t1, e1}, {h2, t2, e2}} {
			if p.e {
				c.Inc("elapsed_true")
			} else {
				c.Inc("elapsed_false")
			}
			hz, tz := to.Height.RevisionNumber == 0 && to.Height.RevisionHeight == 0, to.Timestamp == 0
			// definitely elapsed: strictly past a non-zero component; definitely not: every non-zero component strictly ahead
			surelyYes := (!hz && modelCmp(p.h, to.Height) > 0) || (!tz && p.ts > to.Timestamp)
			surelyNo := (hz || modelCmp(p.h, to.Height) < 0) && (tz || p.ts < to.Timestamp)
			if surelyYes && !p.e {
				c.Violate("C17|elapsed|past-timeout-not-elapsed", fmt.Sprintf("timeout %v not elapsed at (%s,%d)", to, p.h, p.ts), nil)
			}
			if surelyNo && p.e {
				sig := "C17|elapsed|before-timeout-elapsed"
				if hz && tz {
					sig = "C17|elapsed|zero-timeout-elapsed"
				} else if hz {
					sig = "C17|elapsed|zero-height-elapsed"
				} else if tz {
					sig = "C17|elapsed|zero-timestamp-elapsed"
				}
				c.Violate(sig, fmt.Sprintf("timeout %v elapsed at (%s,%d)", to, p.h, p.ts), nil)
			}
			if hz || tz {
				c.Inc("zero_timeout")
			}
			// the timestamp-only view must agree with a height-less timeout
			if te := to.TimestampElapsed(p.ts); te != (channeltypes.Timeout{Timestamp: to.Timestamp}).Elapsed(p.h, p.ts) {
				c.Violate("C17|elapsed|timestamp-view", fmt.Sprintf("TimestampElapsed(%d)=%v disagrees with the height-less timeout %d at %s", p.ts, te, to.Timestamp, p.h), nil)
			}
		}
		c.Inc("monotone_pairs")
		if e1 && !e2 {
			c.Violate("C17|elapsed|not-monotone", fmt.Sprintf("timeout %v elapsed at (%s,%d) but not at the later (%s,%d)", to, h1, t1, h2, t2), nil)
		}
		c.Eval(fmt.Sprintf("elapsed|hz=%v tz=%v|%v->%v|h%d t%v", to.Height.IsZero(), to.Timestamp == 0, e1, e2, modelCmp(h1, to.Height), t1 < to.Timestamp))
		if i < 3 {
			c.Sample(map[string]any{"case": c.CaseID(i), "heights": []string{a.String(), b.String(), d.String()}, "timeout": fmt.Sprint(to), "p1": fmt.Sprintf("%s,%d->%v", h1, t1, e1), "p2": fmt.Sprintf("%s,%d->%v", h2, t2, e2)})
		}
	}
}

func u64cmp(a, b uint64) int {
	switch {
	case a < b:
		return -1
	case a > b:
		return 1
	}
	return 0
}
