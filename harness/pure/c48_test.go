package pure

import (
	"fmt"
	"sort"
	"strings"
	"testing"

	portkeeper "github.com/cosmos/ibc-go/v11/modules/core/05-port/keeper"
	porttypes "github.com/cosmos/ibc-go/v11/modules/core/05-port/types"
	"github.com/cosmos/ibc-go/v11/modules/core/api"

	"verif/harness/kit"
)

// modules are only ever compared by identity; their callbacks are never invoked
type modV1 struct {
	porttypes.IBCModule
	name string
}

type modV2 struct {
	api.IBCModule
	name string
}

func isAlnum(s string) bool {
	if s == "" {
		return false
	}
	for i := 0; i < len(s); i++ {
		c := s[i]
		if !(c >= '0' && c <= '9' || c >= 'a' && c <= 'z' || c >= 'A' && c <= 'Z') {
			return false
		}
	}
	return true
}

var routeWords = []string{"transfer", "icacontroller", "icahost", "mock", "ica", "host", "controller", "a", "ab", "abc", "b", "t", "trans", "fer", "gmp", "gmpport", "port", "mockv2", "x", "xy", "A", "Ab"}

func genRouteName(r *kit.Rng, pool []string) string {
	switch r.Intn(8) {
	case 0:
		return genFrom(r, "abAB01", 1+r.Intn(4))
	case 1:
		// extension / truncation of something already chosen
		if len(pool) > 0 {
			p := kit.Pick(r, pool)
			if r.Bool() || len(p) < 2 {
				return p + genFrom(r, "abx1", 1+r.Intn(2))
			}
			return p[:1+r.Intn(len(p)-1)]
		}
		return kit.Pick(r, routeWords)
	case 2:
		if len(pool) > 0 {
			return kit.Pick(r, pool) // duplicate
		}
		return kit.Pick(r, routeWords)
	case 3:
		return kit.Pick(r, []string{"", "a-b", "a b", "é", "a/b", "transfer-1", "_"}) // not alphanumeric
	case 4:
		return kit.Pick(r, routeWords) + kit.Pick(r, routeWords)
	default:
		return kit.Pick(r, routeWords)
	}
}

func genProbes(r *kit.Rng, names []string) []string {
	probes := append([]string(nil), names...)
	for _, n := range names {
		probes = append(probes, n+genFrom(r, "abx1", 1+r.Intn(3)), genFrom(r, "abx1", 1+r.Intn(2))+n, n+"-"+genFrom(r, alnum, 5), "icacontroller-"+n)
		if len(n) > 1 {
			probes = append(probes, n[:len(n)-1], n[1:])
		}
		if len(names) > 1 {
			probes = append(probes, n+kit.Pick(r, names), kit.Pick(r, names)+"."+n)
		}
	}
	probes = append(probes, "", "zzz", "unrelated", "TRANSFER", genFrom(r, alnum, 6))
	return probes
}

func shuffled(r *kit.Rng, xs []int) []int {
	out := append([]int(nil), xs...)
	kit.Shuffle(r, out)
	return out
}

// ---------------------------------------------------------------------------------------------
// v1: port router + keeper substring routing

func c48v1(c *kit.Check, i int, r *kit.Rng) {
	// registration requests
	var names []string
	nreq := 2 + r.Intn(7)
	for k := 0; k < nreq; k++ {
		names = append(names, genRouteName(r, names))
	}
	// model: a request is applied iff the name is alphanumeric and not yet registered
	type built struct {
		k    *portkeeper.Keeper
		mods map[string]*modV1
	}
	build := func(order []int) (built, bool) {
		rt := porttypes.NewRouter()
		b := built{k: portkeeper.NewKeeper(), mods: map[string]*modV1{}}
		okAll := true
		for _, idx := range order {
			n := names[idx]
			md := &modV1{name: n}
			_, dup := b.mods[n]
			wantRefuse := !isAlnum(n) || dup
			pv, _ := guard(func() { rt.AddRoute(n, md) })
			c.Inc("v1_registrations")
			if pv == nil {
				if dup {
					c.Violate("C48|v1|duplicate-route-accepted", fmt.Sprintf("route %q registered twice without refusal", n), map[string]any{"names": names, "order": order})
					okAll = false
				}
				if !isAlnum(n) {
					c.Inc("v1_nonalnum_accepted")
				}
				if !dup {
					b.mods[n] = md
				}
			} else {
				c.Inc("v1_registrations_refused")
				if !wantRefuse {
					c.Inc("v1_unexpected_refusal")
				}
			}
		}
		if r.Bool() {
			rt.Seal()
		}
		b.k.Router = rt
		return b, okAll
	}
	base := make([]int, len(names))
	for k := range base {
		base[k] = k
	}
	// the same set of requests in several orders; duplicates keep "first wins" meaningless, so identity is compared by name
	routers := []built{}
	for o := 0; o < 3; o++ {
		ord := base
		if o > 0 {
			ord = shuffled(r, base)
		}
		b, _ := build(ord)
		routers = append(routers, b)
	}
	regd := make([]string, 0)
	for n := range routers[0].mods {
		regd = append(regd, n)
	}
	sort.Strings(regd)
	probes := genProbes(r, regd)
	multi := 0
	for _, p := range probes {
		// candidates per the mechanism: exact name, else registered names occurring inside the port identifier
		var cands []string
		for _, n := range regd {
			if strings.Contains(p, n) {
				cands = append(cands, n)
			}
		}
		exact := false
		for _, n := range regd {
			if n == p {
				exact = true
			}
		}
		if len(cands) > 1 && !exact {
			multi++
			c.Inc("v1_ports_with_several_candidate_routes")
		}
		c.Eval(fmt.Sprintf("v1|probe|cands=%d|exact=%v", min(len(cands), 3), exact))
		first := "?"
		for ri, b := range routers {
			for rep := 0; rep < 5; rep++ {
				md, ok := b.k.Route(p)
				c.Inc("v1_resolutions")
				got := "<none>"
				if ok {
					mm, isMod := md.(*modV1)
					if !isMod {
						c.Violate("C48|v1|foreign-module", fmt.Sprintf("Route(%q) returned a module that was never registered", p), nil)
						continue
					}
					got = mm.name
					if b.mods[got] != mm {
						c.Violate("C48|v1|wrong-instance", fmt.Sprintf("Route(%q) returned a module instance not registered under %q in this router", p, got), nil)
					}
				}
				if first == "?" {
					first = got
				} else if got != first {
					sig := "C48|v1|resolution-varies|across-orders"
					if ri == 0 {
						sig = "C48|v1|resolution-varies|across-repetitions"
					}
					c.Violate(sig, fmt.Sprintf("port %q resolved to %q and to %q (router #%d, repetition %d) for the same route set", p, first, got, ri, rep),
						map[string]any{"routes": regd, "port": p, "candidates": cands})
				}
				// soundness of the answer
				switch {
				case exact && got != p:
					c.Violate("C48|v1|exact-route-not-preferred", fmt.Sprintf("port %q is itself a registered route but resolved to %q", p, got), map[string]any{"routes": regd})
				case ok && !strings.Contains(p, got):
					c.Violate("C48|v1|unrelated-module", fmt.Sprintf("port %q resolved to route %q which does not occur in it", p, got), map[string]any{"routes": regd})
				case !ok && len(cands) > 0:
					c.Violate("C48|v1|no-resolution", fmt.Sprintf("port %q has candidate routes %v but did not resolve", p, cands), map[string]any{"routes": regd})
				}
			}
		}
	}
	c.Eval(fmt.Sprintf("v1|routes=%d|multi=%v|nonalnum=%v", len(regd), multi > 0, len(regd) < len(names)))
	if i < 2 {
		c.Sample(map[string]any{"case": c.CaseID(i), "v1_requests": names, "registered": regd, "probes": len(probes), "ports_with_several_candidates": multi})
	}
}

// ---------------------------------------------------------------------------------------------
// v2: direct + prefix routes

type v2req struct {
	prefix bool
	name   string
}

// ambiguousWith: would adding q next to the accepted set make some port identifier match two entries?
func ambiguousWith(acc []v2req, q v2req) (bool, string) {
	for _, a := range acc {
		switch {
		case !a.prefix && !q.prefix:
			if a.name == q.name {
				return true, "direct=direct"
			}
		case a.prefix && q.prefix:
			if strings.HasPrefix(a.name, q.name) || strings.HasPrefix(q.name, a.name) {
				return true, "prefix~prefix"
			}
		case a.prefix && !q.prefix:
			if strings.HasPrefix(q.name, a.name) {
				return true, "direct-under-prefix"
			}
		default:
			if strings.HasPrefix(a.name, q.name) {
				return true, "prefix-over-direct"
			}
		}
	}
	return false, ""
}

func c48v2(c *kit.Check, i int, r *kit.Rng) {
	var reqs []v2req
	var pool []string
	n := 2 + r.Intn(8)
	for k := 0; k < n; k++ {
		nm := genRouteName(r, pool)
		pool = append(pool, nm)
		reqs = append(reqs, v2req{prefix: r.Bool(), name: nm})
	}
	type built struct {
		rt   *api.Router
		acc  []v2req
		mods map[string]*modV2 // key: kind+name
	}
	key := func(q v2req) string { return fmt.Sprintf("%v:%s", q.prefix, q.name) }
	register := func(b *built, q v2req, ctx any) bool {
		md := &modV2{name: key(q)}
		amb, why := ambiguousWith(b.acc, q)
		pv, _ := guard(func() {
			if q.prefix {
				b.rt.AddPrefixRoute(q.name, md)
			} else {
				b.rt.AddRoute(q.name, md)
			}
		})
		c.Inc("v2_registrations")
		if amb {
			c.Inc("v2_ambiguous_requests")
			c.Inc("v2_ambiguous_" + why)
		}
		if pv == nil {
			if amb {
				c.Violate("C48|v2|ambiguous-registration-accepted|"+why, fmt.Sprintf("registration %s %q accepted although it overlaps an accepted entry (%s)", kindName(q), q.name, why),
					map[string]any{"accepted_before": fmt.Sprint(b.acc), "request": fmt.Sprint(q), "context": ctx})
			}
			if !isAlnum(q.name) {
				c.Inc("v2_nonalnum_accepted")
			}
			b.acc = append(b.acc, q)
			b.mods[key(q)] = md
			return true
		}
		c.Inc("v2_registrations_refused")
		if !amb && isAlnum(q.name) {
			c.Inc("v2_unexpected_refusal")
		}
		return false
	}
	// (a) hostile sequence: every request judged against the model; refused requests must leave resolution untouched
	b := &built{rt: api.NewRouter(), mods: map[string]*modV2{}}
	for _, q := range reqs {
		register(b, q, "hostile-sequence")
	}
	var names []string
	for _, q := range b.acc {
		names = append(names, q.name)
	}
	probes := genProbes(r, names)
	resolve := func(b *built, p string) string {
		var md api.IBCModule
		has := false
		pv, _ := guard(func() { has = b.rt.HasRoute(p) })
		if pv != nil {
			c.Violate("C48|v2|hasroute-panicked", fmt.Sprintf("HasRoute(%q) panicked: %v", p, pv), nil)
			return "<panic>"
		}
		pv = quietRecover(func() { md = b.rt.Route(p) })
		c.Inc("v2_resolutions")
		if pv != nil {
			if has {
				c.Violate("C48|v2|route-panics-though-hasroute", fmt.Sprintf("HasRoute(%q) is true but Route panicked: %v", p, pv), nil)
			}
			return "<none>"
		}
		if !has {
			c.Violate("C48|v2|hasroute-false-though-route", fmt.Sprintf("Route(%q) returned a module but HasRoute is false", p), nil)
		}
		mm, ok := md.(*modV2)
		if !ok || b.mods[mm.name] != mm {
			c.Violate("C48|v2|foreign-module", fmt.Sprintf("Route(%q) returned a module not registered in this router", p), nil)
			return "<foreign>"
		}
		return mm.name
	}
	check := func(b *built, label string) map[string]string {
		res := map[string]string{}
		for _, p := range probes {
			// model: the entries matching p
			var matches []string
			for _, q := range b.acc {
				if (!q.prefix && q.name == p) || (q.prefix && strings.HasPrefix(p, q.name)) {
					matches = append(matches, key(q))
				}
			}
			want := "<none>"
			if len(matches) == 1 {
				want = matches[0]
			}
			if len(matches) > 1 {
				c.Inc("v2_ports_matching_two_entries")
			}
			c.Eval(fmt.Sprintf("v2|probe|%s|matches=%d", label, len(matches)))
			first := ""
			for rep := 0; rep < 4; rep++ {
				got := resolve(b, p)
				if rep == 0 {
					first = got
				} else if got != first {
					c.Violate("C48|v2|resolution-varies|across-repetitions", fmt.Sprintf("port %q resolved to %s and to %s on the same router", p, first, got), map[string]any{"entries": fmt.Sprint(b.acc)})
				}
				if len(matches) <= 1 && got != want {
					c.Violate("C48|v2|resolution-differs-from-model|"+label, fmt.Sprintf("port %q resolved to %s, the accepted entries say %s", p, got, want), map[string]any{"entries": fmt.Sprint(b.acc)})
				}
			}
			res[p] = first
		}
		return res
	}
	check(b, "hostile-sequence")

	// (b) order independence: the pairwise non-overlapping subset must be accepted in every order and resolve identically
	var clean []v2req
	for _, q := range reqs {
		if !isAlnum(q.name) {
			continue
		}
		if amb, _ := ambiguousWith(clean, q); !amb {
			clean = append(clean, q)
		}
	}
	idx := make([]int, len(clean))
	for k := range idx {
		idx[k] = k
	}
	var ref map[string]string
	for o := 0; o < 3; o++ {
		ord := idx
		if o > 0 {
			ord = shuffled(r, idx)
		}
		bb := &built{rt: api.NewRouter(), mods: map[string]*modV2{}}
		for _, k := range ord {
			if !register(bb, clean[k], "clean-set") {
				c.Violate("C48|v2|order-dependent-registration", fmt.Sprintf("non-overlapping entry %s %q refused in order %v", kindName(clean[k]), clean[k].name, ord), map[string]any{"set": fmt.Sprint(clean)})
			}
		}
		res := check(bb, "clean-set")
		if ref == nil {
			ref = res
		} else {
			for p, got := range res {
				if ref[p] != got {
					c.Violate("C48|v2|resolution-varies|across-orders", fmt.Sprintf("port %q resolved to %s in one registration order and %s in another", p, ref[p], got), map[string]any{"set": fmt.Sprint(clean)})
				}
			}
		}
		c.Inc("v2_orders_compared")
	}
	nAmb := 0
	acc := []v2req{}
	for _, q := range reqs {
		if a, _ := ambiguousWith(acc, q); a {
			nAmb++
		} else if isAlnum(q.name) {
			acc = append(acc, q)
		}
	}
	c.Eval(fmt.Sprintf("v2|reqs=%d|ambiguous=%d|clean=%d", len(reqs), nAmb, len(clean)))
	if i < 2 {
		c.Sample(map[string]any{"case": c.CaseID(i), "v2_requests": fmt.Sprint(reqs), "accepted": fmt.Sprint(b.acc), "probes": len(probes)})
	}
}

// quietRecover is guard without the stack capture (an unroutable port makes Route panic by design).
func quietRecover(f func()) (pv any) {
	defer func() { pv = recover() }()
	f()
	return nil
}

func kindName(q v2req) string {
	if q.prefix {
		return "prefix"
	}
	return "route"
}

func TestC48(t *testing.T) {
	c := kit.NewCheck(t, "C48", "exploration",
		"cases = sets of 2–9 route names / prefixes drawn to overlap (words, their extensions and truncations, duplicates, concatenations, non-alphanumeric names), registered in 3 random orders on fresh real routers; "+
			"probe ports = every name, name±affixes, controller-style 'x-owner' ports, concatenations and unrelated strings, each resolved 4–5 times per router (Go randomises map ranges); "+
			"v2: every registration is judged against a pairwise-overlap model (ambiguous ⇒ must be refused), resolution must equal the unique matching entry; v1: resolution must be identical across orders and repetitions, prefer an exact route and name a route occurring in the port; "+
			"distinct = (protocol, set size, number of overlapping requests / ports with several candidates)")
	defer c.Finish()
	c.Assume("v1: the statement requires a deterministic, order-independent answer; which of several candidate routes wins is not prescribed, so only determinism, exact-match preference and relatedness are asserted (ports with several candidates are counted)")
	c.Floor("v1_resolutions", 500000)
	c.Floor("v1_ports_with_several_candidate_routes", 4000)
	c.Floor("v2_resolutions", 500000)
	c.Floor("v2_ambiguous_requests", 400)
	c.Floor("v2_registrations_refused", 600)
	c.Floor("v2_orders_compared", 1000)
	for _, why := range []string{"direct=direct", "prefix~prefix", "direct-under-prefix", "prefix-over-direct"} {
		c.Floor("v2_ambiguous_"+why, 50)
	}
	n := c.N(4000, 25000)
	for i := 0; i < n; i++ {
		if c.SkipCase(i) {
			continue
		}
		r := c.CaseRng(i)
		c48v1(c, i, r.Sub("v1"))
		c48v2(c, i, r.Sub("v2"))
	}
}
