package pure

import (
	"fmt"
	"math/big"
	"strings"
	"testing"

	sdk "github.com/cosmos/cosmos-sdk/types"

	abci "github.com/cometbft/cometbft/abci/types"

	clienttypes "github.com/cosmos/ibc-go/v11/modules/core/02-client/types"
	connectiontypes "github.com/cosmos/ibc-go/v11/modules/core/03-connection/types"
	channeltypes "github.com/cosmos/ibc-go/v11/modules/core/04-channel/types"
	commitmenttypes "github.com/cosmos/ibc-go/v11/modules/core/23-commitment/types"
	host "github.com/cosmos/ibc-go/v11/modules/core/24-host"
	"github.com/cosmos/ibc-go/v11/modules/core/exported"
	ibctm "github.com/cosmos/ibc-go/v11/modules/light-clients/07-tendermint"
	ibctesting "github.com/cosmos/ibc-go/v11/testing"
	ibcmock "github.com/cosmos/ibc-go/v11/testing/mock"

	"verif/harness/kit"
)

type sdkEvent = abci.Event

var two64 = new(big.Int).Lsh(big.NewInt(1), 64)

// ---------------------------------------------------------------------------------------------
// pure part

var clientTypePool = []string{
	"07-tendermint", "06-solomachine", "08-wasm", "09-localhost", "10-attestations", "ab", "a", "a-b", "a-1", "a-1-2", "1", "12", "0-0", "x_y", "_", "__",
	"A-B", "a--b", "a-", "-a", "a.b", "a b", "", " ", "a/b", "tendermint", "07-tendermint-0", "é", "a-\n1", "channel", "connection", "client",
}

func genClientType(r *kit.Rng) string {
	switch r.Intn(6) {
	case 0, 1:
		return kit.Pick(r, clientTypePool)
	case 2:
		// word characters and hyphens
		return genFrom(r, "abcxyzABC0189_-", 1+r.Intn(12))
	case 3:
		// longest types that still leave room for a 20-digit sequence in 64 characters (43), and one more
		return genFrom(r, "abcdefgh01_-", 40+r.Intn(6))
	case 4:
		return genFrom(r, alnum, 1+r.Intn(5)) + "-" + genFrom(r, "0123456789", 1+r.Intn(3))
	default:
		return genText(r, 20)
	}
}

// genSeqText returns a decimal digit string together with its exact value.
func genSeqText(r *kit.Rng) (string, *big.Int) {
	var v *big.Int
	switch r.Intn(8) {
	case 0:
		v = new(big.Int).SetUint64(r.Boundary64())
	case 1:
		v = new(big.Int).Set(two64)
	case 2:
		v = new(big.Int).Add(two64, big.NewInt(int64(r.Intn(1000))))
	case 3:
		v, _ = new(big.Int).SetString("99999999999999999999", 10)
	case 4:
		// 20-digit numbers around and above 2^64
		v = new(big.Int).Add(two64, new(big.Int).SetUint64(r.U64()>>uint(r.Intn(64))))
	case 5:
		// 21–30 digits
		v = new(big.Int).Exp(big.NewInt(10), big.NewInt(int64(20+r.Intn(10))), nil)
		v.Add(v, new(big.Int).SetUint64(r.U64()))
	case 6:
		v = new(big.Int).Sub(two64, big.NewInt(int64(1+r.Intn(3))))
	default:
		v = new(big.Int).SetUint64(r.U64())
	}
	s := v.String()
	if r.Chance(1, 4) {
		// leading zeros up to (and beyond) 20 digits
		pad := r.Intn(6)
		if r.Bool() && len(s) < 20 {
			pad = 20 - len(s) + r.Intn(2)
		}
		s = strings.Repeat("0", pad) + s
	}
	return s, v
}

func c15Pure(c *kit.Check, i int, r *kit.Rng) {
	// ---- format → parse round trip for registrable client types
	ct := genClientType(r)
	okType := clienttypes.ValidateClientType(ct) == nil
	seqs := []uint64{0, 1, 9, 10, 1<<64 - 1, 1<<63 - 1, 1 << 63, 9999999999999999999, 10000000000000000000, r.Boundary64(), r.U64()}
	if okType {
		c.Inc("clienttype_valid")
		for _, s := range seqs {
			id := clienttypes.FormatClientIdentifier(ct, s)
			gt, gs, err := clienttypes.ParseClientIdentifier(id)
			c.Inc("client_roundtrip")
			if err != nil || gt != ct || gs != s {
				c.Violate("C15|roundtrip|client|"+shapeOfType(ct), fmt.Sprintf("ParseClientIdentifier(FormatClientIdentifier(%q,%d)=%q) = (%q,%d,%v)", ct, s, id, gt, gs, err), nil)
			}
			if want := ct + "-" + new(big.Int).SetUint64(s).String(); id != want {
				c.Violate("C15|format|client", fmt.Sprintf("FormatClientIdentifier(%q,%d) = %q, want %q", ct, s, id, want), nil)
			}
			if !clienttypes.IsValidClientID(id) || host.ClientIdentifierValidator(id) != nil {
				c.Violate("C15|roundtrip|client-valid", fmt.Sprintf("formatted identifier %q of a valid client type is not a valid client id", id), nil)
			}
		}
		c.Eval("clienttype-ok|" + shapeOfType(ct))
	} else {
		c.Inc("clienttype_invalid")
		c.Eval("clienttype-rejected|" + shapeOfType(ct))
	}
	for _, s := range seqs[:6] {
		cid := connectiontypes.FormatConnectionIdentifier(s)
		gs, err := connectiontypes.ParseConnectionSequence(cid)
		c.Inc("conn_roundtrip")
		if err != nil || gs != s || cid != "connection-"+new(big.Int).SetUint64(s).String() {
			c.Violate("C15|roundtrip|connection", fmt.Sprintf("ParseConnectionSequence(%q) = (%d,%v), want %d", cid, gs, err, s), nil)
		}
		if !connectiontypes.IsValidConnectionID(cid) || host.ConnectionIdentifierValidator(cid) != nil {
			c.Violate("C15|roundtrip|connection-valid", fmt.Sprintf("generated-format identifier %q fails validation", cid), nil)
		}
		chid := channeltypes.FormatChannelIdentifier(s)
		gs, err = channeltypes.ParseChannelSequence(chid)
		c.Inc("chan_roundtrip")
		if err != nil || gs != s || chid != "channel-"+new(big.Int).SetUint64(s).String() {
			c.Violate("C15|roundtrip|channel", fmt.Sprintf("ParseChannelSequence(%q) = (%d,%v), want %d", chid, gs, err, s), nil)
		}
		if !channeltypes.IsValidChannelID(chid) || host.ChannelIdentifierValidator(chid) != nil {
			c.Violate("C15|roundtrip|channel-valid", fmt.Sprintf("generated-format identifier %q fails validation", chid), nil)
		}
	}

	// ---- parsers must never accept a sequence that does not fit in 64 bits; an accepted sequence is the numeric value
	for k := 0; k < 4; k++ {
		txt, val := genSeqText(r)
		fits := val.Cmp(two64) < 0
		cls := fmt.Sprintf("digits=%d fits=%v lead0=%v", len(txt), fits, len(txt) > 1 && txt[0] == '0')
		pfx := ct
		if !okType || r.Chance(1, 3) {
			pfx = kit.Pick(r, []string{"07-tendermint", "06-solomachine", "a-1", "x"})
		}
		type res struct {
			name string
			seq  uint64
			err  error
			also bool // the boolean validity helper
		}
		var rs []res
		{
			_, s, err := clienttypes.ParseClientIdentifier(pfx + "-" + txt)
			rs = append(rs, res{"ParseClientIdentifier", s, err, clienttypes.IsValidClientID(pfx + "-" + txt)})
			s, err = connectiontypes.ParseConnectionSequence("connection-" + txt)
			rs = append(rs, res{"ParseConnectionSequence", s, err, connectiontypes.IsValidConnectionID("connection-" + txt)})
			s, err = channeltypes.ParseChannelSequence("channel-" + txt)
			rs = append(rs, res{"ParseChannelSequence", s, err, channeltypes.IsValidChannelID("channel-" + txt)})
			s, err = host.ParseIdentifier("channel-"+txt, "channel-")
			rs = append(rs, res{"host.ParseIdentifier", s, err, err == nil})
		}
		for _, x := range rs {
			accepted := x.err == nil
			c.Inc("seq_parse")
			if accepted {
				c.Inc("seq_accepted")
			} else {
				c.Inc("seq_rejected")
			}
			if !fits {
				c.Inc("seq_overflow_input")
			}
			if accepted && !fits {
				c.Violate("C15|overflow-accepted|"+x.name, fmt.Sprintf("%s accepted sequence text %q (value %s ≥ 2^64) as %d", x.name, txt, val, x.seq), nil)
			}
			if accepted && fits && new(big.Int).SetUint64(x.seq).Cmp(val) != 0 {
				c.Violate("C15|wrong-sequence|"+x.name, fmt.Sprintf("%s parsed %q as %d", x.name, txt, x.seq), nil)
			}
			if x.also != accepted {
				c.Violate("C15|validity-helper|"+x.name, fmt.Sprintf("validity helper (%v) disagrees with %s (err=%v) on %q", x.also, x.name, x.err, txt), nil)
			}
			c.Eval("seqparse|" + x.name + "|" + cls + fmt.Sprintf("|acc=%v", accepted))
		}
	}
	if i < 3 {
		c.Sample(map[string]any{"case": c.CaseID(i), "client_type": ct, "type_valid": okType})
	}
}

func shapeOfType(ct string) string {
	var sb strings.Builder
	last := byte(0)
	for i := 0; i < len(ct) && sb.Len() < 12; i++ {
		var k byte
		switch ch := ct[i]; {
		case ch >= '0' && ch <= '9':
			k = '9'
		case (ch >= 'a' && ch <= 'z') || (ch >= 'A' && ch <= 'Z'):
			k = 'a'
		case ch == '-' || ch == '_':
			k = ch
		default:
			k = '?'
		}
		if k != last {
			sb.WriteByte(k)
			last = k
		}
	}
	return sb.String() + "|" + lenClass(len(ct))
}

// ---------------------------------------------------------------------------------------------
// chain part: identifiers generated by a real chain over a history with failed attempts

type idMon struct {
	c    *kit.Check
	seen map[string]map[string]int64 // chain -> "kind:id" -> height first generated
	// known objects usable by later operations
	tmClients map[string][]string
	openConns map[string][]string
	curOp     string
}

func evAttr(ev sdkEvent, key string) (string, bool) {
	for _, a := range ev.Attributes {
		if a.Key == key {
			return a.Value, true
		}
	}
	return "", false
}

func (m *idMon) hook(ch *kit.Chain) func(o *kit.Outcome) {
	return func(o *kit.Outcome) {
		kinds := ""
		for _, msg := range o.Msgs {
			switch msg.(type) {
			case *clienttypes.MsgCreateClient:
				kinds += "C"
			case *connectiontypes.MsgConnectionOpenInit, *connectiontypes.MsgConnectionOpenTry:
				kinds += "N"
			case *channeltypes.MsgChannelOpenInit, *channeltypes.MsgChannelOpenTry:
				kinds += "H"
			}
		}
		if kinds == "" {
			return
		}
		if !o.OK() {
			m.c.Inc("failed_attempt_txs")
			for _, k := range kinds {
				m.c.Inc("failed_attempt_" + string(k))
			}
			if len(o.DiffIn("ibc")) != 0 {
				m.c.Inc("failed_attempt_with_ibc_diff")
			}
			m.c.Eval("failed|" + kinds + "|" + m.curOp)
			return
		}
		if o.Res == nil {
			return
		}
		for _, ev := range o.Res.Events {
			var kind, id string
			switch ev.Type {
			case "create_client":
				kind = "client"
				id, _ = evAttr(sdkEvent(ev), "client_id")
			case "connection_open_init", "connection_open_try":
				kind = "connection"
				id, _ = evAttr(sdkEvent(ev), "connection_id")
			case "channel_open_init", "channel_open_try":
				kind = "channel"
				id, _ = evAttr(sdkEvent(ev), "channel_id")
			default:
				continue
			}
			m.judge(ch, o, kind, id, sdkEvent(ev))
		}
	}
}

func (m *idMon) judge(ch *kit.Chain, o *kit.Outcome, kind, id string, ev sdkEvent) {
	c := m.c
	c.Inc("generated_" + kind)
	reg := m.seen[ch.Name]
	if reg == nil {
		reg = map[string]int64{}
		m.seen[ch.Name] = reg
	}
	wit := map[string]any{"chain": ch.Name, "height": o.Height, "id": id, "op": m.curOp, "event": ev.Type}
	if h, dup := reg[kind+":"+id]; dup {
		wit["first_generated_at"] = h
		c.Violate("C15|reused|"+kind, fmt.Sprintf("chain %s generated %s identifier %q again (first at height %d, again at %d)", ch.Name, kind, id, h, o.Height), wit)
	} else {
		reg[kind+":"+id] = o.Height
	}
	// the state written under the identifier must be new (never overwrite an existing object)
	var stateKey string
	var verr error
	parsedOK := false
	switch kind {
	case "client":
		stateKey = "clients/" + id + "/clientState"
		verr = host.ClientIdentifierValidator(id)
		ct, _, err := clienttypes.ParseClientIdentifier(id)
		parsedOK = err == nil && clienttypes.IsValidClientID(id)
		if want, ok := evAttr(ev, "client_type"); ok && err == nil && ct != want {
			c.Violate("C15|generated-parse|client-type", fmt.Sprintf("generated identifier %q parses to client type %q, created type is %q", id, ct, want), wit)
		}
	case "connection":
		stateKey = "connections/" + id
		verr = host.ConnectionIdentifierValidator(id)
		_, err := connectiontypes.ParseConnectionSequence(id)
		parsedOK = err == nil && connectiontypes.IsValidConnectionID(id)
	case "channel":
		port, _ := evAttr(ev, "port_id")
		stateKey = "channelEnds/ports/" + port + "/channels/" + id
		verr = host.ChannelIdentifierValidator(id)
		_, err := channeltypes.ParseChannelSequence(id)
		parsedOK = err == nil && channeltypes.IsValidChannelID(id)
	}
	if verr != nil || !parsedOK {
		c.Violate("C15|generated-invalid|"+kind, fmt.Sprintf("chain generated %s identifier %q that fails identifier validation (%v, parse ok=%v)", kind, id, verr, parsedOK), wit)
	}
	found := false
	for _, kv := range o.DiffIn("ibc") {
		if string(kv.Key) == stateKey {
			found = true
			if kv.Old != nil {
				c.Violate("C15|reused|"+kind+"-state-overwritten", fmt.Sprintf("creating %s %q overwrote existing state at %q", kind, id, stateKey), wit)
			}
		}
	}
	if found {
		c.Inc("new_state_key_seen")
	} else {
		c.Inc("state_key_not_in_diff")
	}
	c.Eval("generated|" + kind + "|" + ev.Type + "|" + m.curOp)
}

func tmClientMsg(ch, cp *kit.Chain, mut int) *clienttypes.MsgCreateClient {
	height := cp.LatestCommittedHeader.GetHeight().(clienttypes.Height)
	cs := ibctm.NewClientState(cp.ChainID, ibctesting.DefaultTrustLevel, ibctesting.TrustingPeriod, ibctesting.UnbondingPeriod, ibctesting.MaxClockDrift,
		height, commitmenttypes.GetSDKSpecs(), ibctesting.UpgradePath)
	var cons exported.ConsensusState = cp.LatestCommittedHeader.ConsensusState()
	switch mut {
	case 1:
		cs.TrustLevel = ibctm.Fraction{Numerator: 0, Denominator: 0}
	case 2:
		cs.LatestHeight = clienttypes.ZeroHeight()
	case 3:
		cs.ChainId = ""
	case 4:
		cons = ibctesting.NewSolomachine(ch.W.T, ch.Codec, "sm", "", 1).ConsensusState()
	case 5:
		cs.TrustingPeriod = cs.UnbondingPeriod + 1
	}
	msg, err := clienttypes.NewMsgCreateClient(cs, cons, ch.SenderAccount.GetAddress().String())
	if err != nil {
		panic(kit.Abort{Msg: err.Error()})
	}
	if mut == 6 {
		msg.Signer = ""
	}
	return msg
}

func smClientMsg(ch *kit.Chain, n int) *clienttypes.MsgCreateClient {
	sm := ibctesting.NewSolomachine(ch.W.T, ch.Codec, fmt.Sprintf("solo-%d", n), "", uint64(1+n%2))
	msg, err := clienttypes.NewMsgCreateClient(sm.ClientState(), sm.ConsensusState(), ch.SenderAccount.GetAddress().String())
	if err != nil {
		panic(kit.Abort{Msg: err.Error()})
	}
	return msg
}

func TestC15(t *testing.T) {
	c := kit.NewCheck(t, "C15", "exploration",
		"pure cases = client-type strings (registered types, word/hyphen mixes, 43/44-character types, hostile text) × boundary sequences (0, 2^63±1, 2^64-1, 19/20-digit) for format→parse round trips, and decimal sequence texts "+
			"(below/at/above 2^64, 20–30 digits, leading zeros) pushed through every identifier parser; chain cases = PRNG histories of real MsgCreateClient / MsgConnectionOpenInit/Try / MsgChannelOpenInit/Try transactions on two SimApp chains "+
			"(valid, invalid-before-generation, failing-after-generation, multi-message transactions that roll back, full handshakes), every identifier reported by a successful transaction is judged; "+
			"distinct = (client-type shape, sequence-text class × parser × outcome, operation kind × event)")
	defer c.Finish()
	c.Assume("identifiers are observed in the events of successful transactions and cross-checked against the block's store diff; identifiers transiently assigned inside a transaction that failed were never generated")
	c.Floor("client_roundtrip", 5000)
	c.Floor("clienttype_valid", 500)
	c.Floor("clienttype_invalid", 500)
	c.Floor("seq_accepted", 2000)
	c.Floor("seq_rejected", 2000)
	c.Floor("seq_overflow_input", 2000)
	c.Floor("generated_client", 100)
	c.Floor("generated_connection", 60)
	c.Floor("generated_channel", 60)
	c.Floor("failed_attempt_txs", 80)
	c.Floor("new_state_key_seen", 200)

	// ---------------- pure
	n := c.N(4000, 60000)
	for i := 0; i < n; i++ {
		if c.SkipCase(i) {
			continue
		}
		c15Pure(c, i, c.CaseRng(i))
	}

	// ---------------- chain histories
	nh := c.N(6, 10)
	opsPer := c.N(110, 400)
	for hi := 0; hi < nh; hi++ {
		caseNo := n + hi
		if c.SkipCase(caseNo) {
			continue
		}
		r := c.CaseRng(caseNo)
		c.Inc("cases")
		err := kit.Try(func() { c15History(c, t, r, opsPer, hi) })
		if err != nil {
			c.Inconcl("history aborted: " + err.Error())
		}
	}
}

func c15History(c *kit.Check, t *testing.T, r *kit.Rng, nops, hi int) {
	w := kit.NewWorld(t, 2)
	m := &idMon{c: c, seen: map[string]map[string]int64{}, tmClients: map[string][]string{}, openConns: map[string][]string{}}
	for _, ch := range w.Chains {
		ch.OnTx = m.hook(ch)
	}
	var paths []*ibctesting.Path // paths with open connections
	var trace []string
	smN := 0
	for op := 0; op < nops; op++ {
		x := r.Intn(2)
		ch, cp := w.Chains[x], w.Chains[1-x]
		signer := ch.SenderAccount.GetAddress().String()
		kind := r.Intn(20)
		// make sure the structures later operations need exist early in the history
		if op == 0 {
			kind = 100
		}
		var o *kit.Outcome
		switch {
		case kind == 100 || kind == 0:
			m.curOp = "connection-handshake"
			if err := kit.Try(func() {
				p := ibctesting.NewPath(w.Chains[0].TestChain, w.Chains[1].TestChain)
				p.DisableUniqueChannelIDs()
				if r.Bool() {
					p = ibctesting.NewPath(w.Chains[1].TestChain, w.Chains[0].TestChain)
					p.DisableUniqueChannelIDs()
				}
				p.SetupConnections()
				paths = append(paths, p)
				for _, ep := range []*ibctesting.Endpoint{p.EndpointA, p.EndpointB} {
					name := w.Of(ep.Chain).Name
					m.tmClients[name] = append(m.tmClients[name], ep.ClientID)
					m.openConns[name] = append(m.openConns[name], ep.ConnectionID)
				}
			}); err != nil {
				c.Inconcl("connection handshake helper aborted: " + err.Error())
			}
		case kind == 1:
			m.curOp = "channel-handshake"
			if len(paths) == 0 {
				continue
			}
			base := kit.Pick(r, paths)
			if err := kit.Try(func() {
				p := ibctesting.NewPath(base.EndpointA.Chain, base.EndpointB.Chain)
				p.DisableUniqueChannelIDs()
				p.EndpointA.ClientID, p.EndpointB.ClientID = base.EndpointA.ClientID, base.EndpointB.ClientID
				p.EndpointA.ConnectionID, p.EndpointB.ConnectionID = base.EndpointA.ConnectionID, base.EndpointB.ConnectionID
				if r.Bool() {
					p.SetChannelOrdered()
				}
				if r.Chance(1, 3) {
					p.EndpointA.ChannelConfig.PortID, p.EndpointB.ChannelConfig.PortID = ibctesting.TransferPort, ibctesting.TransferPort
					p.EndpointA.ChannelConfig.Version, p.EndpointB.ChannelConfig.Version = "ics20-1", "ics20-1"
					p.EndpointA.ChannelConfig.Order, p.EndpointB.ChannelConfig.Order = channeltypes.UNORDERED, channeltypes.UNORDERED
				}
				p.CreateChannels()
			}); err != nil {
				c.Inconcl("channel handshake helper aborted: " + err.Error())
			}
		case kind <= 4:
			m.curOp = "create-tm-client"
			msg := tmClientMsg(ch, cp, 0)
			o = ch.Deliver(ch.DefaultSender(), msg)
			if o.OK() {
				if id, err := ibctesting.ParseClientIDFromEvents(o.Res.Events); err == nil {
					m.tmClients[ch.Name] = append(m.tmClients[ch.Name], id)
				}
			}
		case kind == 5:
			m.curOp = "create-solomachine-client"
			smN++
			o = ch.Deliver(ch.DefaultSender(), smClientMsg(ch, smN))
		case kind <= 7:
			mut := 1 + r.Intn(6)
			m.curOp = fmt.Sprintf("create-client-invalid-%d", mut)
			o = ch.Deliver(ch.DefaultSender(), tmClientMsg(ch, cp, mut))
		case kind == 8:
			// several creations in one transaction; with a failing last message the whole transaction rolls back
			k := 2 + r.Intn(3)
			var msgs []sdk.Msg
			for j := 0; j < k; j++ {
				if r.Bool() {
					msgs = append(msgs, tmClientMsg(ch, cp, 0))
				} else {
					smN++
					msgs = append(msgs, smClientMsg(ch, smN))
				}
			}
			m.curOp = "multi-create"
			if r.Bool() {
				msgs = append(msgs, tmClientMsg(ch, cp, 4)) // passes stateless validation, fails in the keeper after earlier ids were assigned
				m.curOp = "multi-create-rollback"
			}
			o = ch.Deliver(ch.DefaultSender(), msgs...)
		case kind <= 11:
			m.curOp = "conn-open-init"
			cl := "07-tendermint-0"
			if ids := m.tmClients[ch.Name]; len(ids) > 0 {
				cl = kit.Pick(r, ids)
			}
			ver := ibctesting.DefaultOpenInitVersion
			switch r.Intn(6) {
			case 0:
				cl = fmt.Sprintf("07-tendermint-%d", 5000+r.Intn(1000))
				m.curOp = "conn-open-init-unknown-client"
			case 1:
				ver = &connectiontypes.Version{Identifier: "9", Features: []string{"ORDER_ORDERED"}}
				m.curOp = "conn-open-init-bad-version"
			}
			msg := connectiontypes.NewMsgConnectionOpenInit(cl, "07-tendermint-"+fmt.Sprint(r.Intn(50)), cp.GetPrefix(), ver, uint64(r.Intn(3)), signer)
			o = ch.Deliver(ch.DefaultSender(), msg)
		case kind == 12:
			m.curOp = "conn-open-try-bad-proof"
			cl := "07-tendermint-0"
			if ids := m.tmClients[ch.Name]; len(ids) > 0 {
				cl = kit.Pick(r, ids)
			}
			msg := connectiontypes.NewMsgConnectionOpenTry(cl, fmt.Sprintf("connection-%d", r.Intn(20)), "07-tendermint-0", cp.GetPrefix(),
				[]*connectiontypes.Version{ibctesting.ConnectionVersion}, 0, r.Bytes(40), clienttypes.NewHeight(1, uint64(2+r.Intn(10))), signer)
			o = ch.Deliver(ch.DefaultSender(), msg)
		case kind <= 16:
			m.curOp = "chan-open-init"
			conn := "connection-0"
			if ids := m.openConns[ch.Name]; len(ids) > 0 {
				conn = kit.Pick(r, ids)
			}
			port, version, order := ibctesting.MockPort, ibcmock.Version, channeltypes.UNORDERED
			if r.Bool() {
				order = channeltypes.ORDERED
			}
			switch r.Intn(7) {
			case 0:
				port, version, order = ibctesting.TransferPort, "ics20-1", channeltypes.UNORDERED
				m.curOp = "chan-open-init-transfer"
			case 1:
				// the application refuses after core assigned the identifier
				port, version, order = ibctesting.TransferPort, "ics20-999", channeltypes.UNORDERED
				m.curOp = "chan-open-init-app-refuses"
			case 2:
				port, version, order = ibctesting.TransferPort, "ics20-1", channeltypes.ORDERED
				m.curOp = "chan-open-init-app-refuses-order"
			case 3:
				conn = fmt.Sprintf("connection-%d", 4000+r.Intn(100))
				m.curOp = "chan-open-init-unknown-connection"
			case 4:
				port = "noroute" + genFrom(r, alnum, 3)
				m.curOp = "chan-open-init-unrouted-port"
			}
			msg := channeltypes.NewMsgChannelOpenInit(port, version, order, []string{conn}, port, signer)
			if r.Chance(1, 6) {
				// two inits in one transaction
				o = ch.Deliver(ch.DefaultSender(), msg, channeltypes.NewMsgChannelOpenInit(port, version, order, []string{conn}, port, signer))
			} else {
				o = ch.Deliver(ch.DefaultSender(), msg)
			}
		default:
			m.curOp = "chan-open-try-bad-proof"
			conn := "connection-0"
			if ids := m.openConns[ch.Name]; len(ids) > 0 {
				conn = kit.Pick(r, ids)
			}
			msg := channeltypes.NewMsgChannelOpenTry(ibctesting.MockPort, ibcmock.Version, channeltypes.UNORDERED, []string{conn}, ibctesting.MockPort,
				fmt.Sprintf("channel-%d", r.Intn(30)), ibcmock.Version, r.Bytes(40), clienttypes.NewHeight(1, uint64(2+r.Intn(10))), signer)
			o = ch.Deliver(ch.DefaultSender(), msg)
		}
		if o != nil && len(trace) < 30 {
			trace = append(trace, fmt.Sprintf("%s %s ok=%v", ch.Name, m.curOp, o.OK()))
		}
	}
	if hi == 0 {
		c.Sample(map[string]any{"history": hi, "ops": trace})
	}
	// end of history: every identifier in the registry must still parse, and the registry must agree with the chain's counters
	for _, ch := range w.Chains {
		nClients, nConns, nChans := 0, 0, 0
		for k := range m.seen[ch.Name] {
			switch {
			case strings.HasPrefix(k, "client:"):
				nClients++
			case strings.HasPrefix(k, "connection:"):
				nConns++
			case strings.HasPrefix(k, "channel:"):
				nChans++
			}
		}
		c.Obs("registry_ids_at_end", int64(nClients+nConns+nChans))
	}
}
