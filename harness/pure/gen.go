// Package pure holds the "pure generator" monitors: boundary-biased, structured PRNG inputs are pushed through the
// real ibc-go functions while independent reference models (written from the property statements / ICS texts) watch
// the results. Properties C07, C15, C17, C34, C35, C47, C48.
package pure

import (
	"crypto/sha256"
	"encoding/binary"
	"fmt"
	"runtime/debug"
	"strings"

	"verif/harness/kit"
)

func sha(b ...[]byte) []byte {
	h := sha256.New()
	for _, x := range b {
		h.Write(x)
	}
	return h.Sum(nil)
}

func be64(u uint64) []byte {
	var b [8]byte
	binary.BigEndian.PutUint64(b[:], u)
	return b[:]
}

// lenClass is the abstract length class used in distinctness signatures.
func lenClass(n int) string {
	switch {
	case n == 0:
		return "0"
	case n == 1:
		return "1"
	case n < 32:
		return "s"
	case n == 32:
		return "32"
	case n <= 64:
		return "m"
	case n <= 256:
		return "l"
	default:
		return "xl"
	}
}

var boundaryLens = []int{0, 0, 1, 1, 2, 7, 8, 9, 31, 32, 33, 55, 56, 63, 64, 65, 127, 128, 129, 255, 256}

// genLen draws a length biased towards hash-block and field-size boundaries.
func genLen(r *kit.Rng, max int) int {
	var n int
	switch r.Intn(5) {
	case 0, 1:
		n = boundaryLens[r.Intn(len(boundaryLens))]
	case 2:
		n = r.Intn(17)
	case 3:
		n = r.Intn(max + 1)
	default:
		n = r.Intn(80)
	}
	if n > max {
		n = max
	}
	return n
}

// genBytes: random bytes with boundary-biased length; sometimes all-zero / all-0xff / repeated patterns.
func genBytes(r *kit.Rng, max int) []byte {
	n := genLen(r, max)
	b := r.Bytes(n)
	switch r.Intn(8) {
	case 0:
		for i := range b {
			b[i] = 0
		}
	case 1:
		for i := range b {
			b[i] = 0xff
		}
	case 2:
		for i := range b {
			b[i] = byte('a' + i%3)
		}
	}
	return b
}

const identAlphabet = "abcdefghijklmnopqrstuvwxyzABCDEFGHIJKLMNOPQRSTUVWXYZ0123456789._+-#[]<>"
const alnum = "abcdefghijklmnopqrstuvwxyzABCDEFGHIJKLMNOPQRSTUVWXYZ0123456789"

func genFrom(r *kit.Rng, alphabet string, n int) string {
	var sb strings.Builder
	for i := 0; i < n; i++ {
		sb.WriteByte(alphabet[r.Intn(len(alphabet))])
	}
	return sb.String()
}

// genIdent: identifier-like text of boundary-biased length over the ICS-24 alphabet.
func genIdent(r *kit.Rng, max int) string { return genFrom(r, identAlphabet, genLen(r, max)) }

// hostileStrings are fragments that historically break parsers.
var hostileStrings = []string{
	"", " ", "\t", "\n", "\x00", "/", "//", "-", "--", "-0", "-1", "0", "00", "1", "18446744073709551615", "18446744073709551616",
	"99999999999999999999", "999999999999999999999", "00000000000000000001", "+1", "-1", " 1", "1 ", "1e3", "0x10", "١", "１",
	"channel-", "channel-0", "channel-18446744073709551615", "channel-18446744073709551616", "connection-0", "07-tendermint-0",
	"09-localhost", "06-solomachine-1", "transfer", "ibc", "ibc/", "ibc/zz", "{}", "[]", "null", "\"\"", "{\"a\":", "\xff\xfe", "é", " ",
	"a/b", "a/channel-0/b", "transfer/channel-0/uatom", "x-99999999999999999999", "x-1", "x--1", "x-01", "-", "*", ".", "..",
}

// genText: a mix of hostile fragments, identifier text and raw bytes (possibly invalid UTF-8).
func genText(r *kit.Rng, max int) string {
	switch r.Intn(6) {
	case 0:
		return kit.Pick(r, hostileStrings)
	case 1:
		return kit.Pick(r, hostileStrings) + kit.Pick(r, hostileStrings)
	case 2:
		return string(genBytes(r, max))
	case 3:
		return genIdent(r, max) + kit.Pick(r, hostileStrings)
	default:
		return genIdent(r, max)
	}
}

// mutateBytes applies 1–3 byte-level mutations (flip, set, insert, delete, truncate, duplicate, splice, length-field bump).
func mutateBytes(r *kit.Rng, in []byte) ([]byte, string) {
	b := append([]byte(nil), in...)
	kinds := ""
	n := 1 + r.Intn(3)
	for k := 0; k < n; k++ {
		op := r.Intn(9)
		if len(b) == 0 {
			op = 2
		}
		switch op {
		case 0:
			i := r.Intn(len(b))
			b[i] ^= 1 << uint(r.Intn(8))
			kinds += "f"
		case 1:
			i := r.Intn(len(b))
			b[i] = []byte{0, 0xff, 0x7f, 0x80, 1, 0x20, '"', '{', '-', '/'}[r.Intn(10)]
			kinds += "s"
		case 2:
			i := r.Intn(len(b) + 1)
			ins := r.Bytes(1 + r.Intn(4))
			b = append(b[:i:i], append(ins, b[i:]...)...)
			kinds += "i"
		case 3:
			i := r.Intn(len(b))
			j := i + 1 + r.Intn(4)
			if j > len(b) {
				j = len(b)
			}
			b = append(b[:i:i], b[j:]...)
			kinds += "d"
		case 4:
			b = b[:r.Intn(len(b))]
			kinds += "t"
		case 5:
			i := r.Intn(len(b))
			j := i + 1 + r.Intn(len(b)-i)
			chunk := append([]byte(nil), b[i:j]...)
			b = append(b[:j:j], append(chunk, b[j:]...)...)
			kinds += "u"
		case 6:
			// overwrite an aligned 32-byte word (ABI heads/lengths) with a boundary value
			if len(b) >= 32 {
				w := r.Intn(len(b)/32) * 32
				word := make([]byte, 32)
				switch r.Intn(4) {
				case 0:
					for i := range word {
						word[i] = 0xff
					}
				case 1:
					binary.BigEndian.PutUint64(word[24:], r.Boundary64())
				case 2:
					binary.BigEndian.PutUint64(word[24:], uint64(r.Intn(len(b)+64)))
				default:
					word[23] = 1
				}
				copy(b[w:], word)
				kinds += "w"
			} else {
				b = append(b, r.Bytes(3)...)
				kinds += "a"
			}
		case 7:
			// varint-looking bump: set the high bit of a byte (extends a varint / length)
			i := r.Intn(len(b))
			b[i] |= 0x80
			kinds += "v"
		default:
			b = append(b, r.Bytes(1+r.Intn(8))...)
			kinds += "a"
		}
	}
	return b, kinds
}

// guard runs f and reports a recovered panic (value + trimmed stack) instead of propagating it.
func guard(f func()) (pv any, stack string) {
	defer func() {
		if r := recover(); r != nil {
			pv = r
			stack = string(debug.Stack())
		}
	}()
	f()
	return nil, ""
}

// panicFrames analyses a stack captured inside a deferred recover: it returns the innermost ibc-go function on the panicking
// path (short form "<pkg>.<Func>", with the parent directory when the package is a generic "types"/"keeper") and, when the panic
// was raised inside a library called from there, the library function that raised it.
func panicFrames(stack string) (ibcFn, origin string) {
	lines := strings.Split(stack, "\n")
	seenPanic := false
	for _, ln := range lines {
		if strings.HasPrefix(ln, "panic(") {
			seenPanic = true
			origin = ""
			continue
		}
		if !seenPanic || strings.HasPrefix(ln, "\t") || ln == "" {
			continue
		}
		if strings.HasPrefix(ln, "runtime.") || strings.HasPrefix(ln, "reflect.") {
			continue
		}
		const pfx = "github.com/cosmos/ibc-go/v11/"
		if i := strings.Index(ln, pfx); i >= 0 {
			fn := ln[i+len(pfx):]
			if j := strings.LastIndex(fn, "("); j > 0 {
				fn = fn[:j]
			}
			fn = strings.NewReplacer("(*", "", ")", "").Replace(fn)
			// fn = modules/core/02-client/types.ParseChainID
			dir, rest := fn, ""
			if j := strings.LastIndex(fn, "/"); j >= 0 {
				dir, rest = fn[:j], fn[j+1:]
			} else {
				dir, rest = "", fn
			}
			pkg := rest
			if k := strings.Index(rest, "."); k >= 0 {
				pkg = rest[:k]
			}
			if pkg == "types" || pkg == "keeper" || pkg == "v2" {
				if j := strings.LastIndex(dir, "/"); j >= 0 {
					dir = dir[j+1:]
				}
				rest = dir + "/" + rest
			}
			return rest, origin
		}
		if origin == "" {
			o := ln
			if j := strings.LastIndex(o, "("); j > 0 {
				o = o[:j]
			}
			if j := strings.LastIndex(o, "/"); j >= 0 {
				o = o[j+1:]
			}
			origin = strings.NewReplacer("(*", "", ")", "").Replace(o)
		}
	}
	return "non-ibc-frame", origin
}

// innermostIBCFrame returns only the ibc-go function of panicFrames.
func innermostIBCFrame(stack string) string {
	fn, _ := panicFrames(stack)
	return fn
}

// panicKind abstracts the panic value: runtime error classes keep their name, explicit messages are normalised.
func panicKind(v any) string {
	s := fmt.Sprint(v)
	switch {
	case strings.Contains(s, "nil pointer dereference"):
		return "nil-deref"
	case strings.Contains(s, "index out of range"):
		return "index-out-of-range"
	case strings.Contains(s, "slice bounds out of range"):
		return "slice-bounds"
	case strings.Contains(s, "nil map"):
		return "nil-map-write"
	case strings.Contains(s, "interface conversion"):
		return "interface-conversion"
	case strings.Contains(s, "divide by zero"):
		return "divide-by-zero"
	}
	return msgClass(v)
}

// msgClass normalises a panic message into a class: digits and quoted/hex runs are collapsed.
func msgClass(v any) string {
	s := fmt.Sprint(v)
	var sb strings.Builder
	lastHash := false
	for _, c := range s {
		isWord := (c >= 'a' && c <= 'z') || (c >= 'A' && c <= 'Z') || c == ' ' || c == ':' || c == '-' || c == '_' || c == '.'
		if isWord {
			sb.WriteRune(c)
			lastHash = false
		} else if !lastHash {
			sb.WriteByte('#')
			lastHash = true
		}
		if sb.Len() > 60 {
			break
		}
	}
	return strings.TrimSpace(sb.String())
}

func trimStack(stack string) string {
	lines := strings.Split(stack, "\n")
	var keep []string
	for _, ln := range lines {
		if strings.Contains(ln, "ibc-go") || strings.Contains(ln, "cosmos") || strings.HasPrefix(ln, "panic(") {
			keep = append(keep, strings.TrimSpace(ln))
		}
		if len(keep) >= 14 {
			break
		}
	}
	return strings.Join(keep, " | ")
}

// ---------------------------------------------------------------------------------------------
// protobuf wire surgery: remove one field (at any nesting level) — the wire form of "field absent"

type pbSpan struct {
	start, end int // whole field incl. tag
	wt         int
	ps, pe     int // payload of a length-delimited field
}

func pbReadVarint(b []byte, i int) (uint64, int, bool) {
	var v uint64
	for s := uint(0); s < 64; s += 7 {
		if i >= len(b) {
			return 0, 0, false
		}
		c := b[i]
		i++
		v |= uint64(c&0x7f) << s
		if c < 0x80 {
			return v, i, true
		}
	}
	return 0, 0, false
}

func pbSpans(b []byte) ([]pbSpan, bool) {
	var out []pbSpan
	i := 0
	for i < len(b) {
		st := i
		tag, j, ok := pbReadVarint(b, i)
		if !ok || tag>>3 == 0 {
			return nil, false
		}
		sp := pbSpan{start: st, wt: int(tag & 7)}
		switch sp.wt {
		case 0:
			_, j2, ok := pbReadVarint(b, j)
			if !ok {
				return nil, false
			}
			sp.end = j2
		case 1:
			sp.end = j + 8
		case 5:
			sp.end = j + 4
		case 2:
			l, j2, ok := pbReadVarint(b, j)
			if !ok || l > uint64(len(b)) || j2+int(l) > len(b) {
				return nil, false
			}
			sp.ps, sp.pe, sp.end = j2, j2+int(l), j2+int(l)
		default:
			return nil, false
		}
		if sp.end > len(b) {
			return nil, false
		}
		out = append(out, sp)
		i = sp.end
	}
	return out, true
}

func pbEncVarint(n uint64) []byte {
	var out []byte
	for n >= 0x80 {
		out = append(out, byte(n)|0x80)
		n >>= 7
	}
	return append(out, byte(n))
}

// pbDropField removes one field of the message (possibly inside nested messages) and repairs the enclosing lengths.
func pbDropField(r *kit.Rng, b []byte, depth int) ([]byte, string, bool) {
	spans, ok := pbSpans(b)
	if !ok || len(spans) == 0 {
		return nil, "", false
	}
	sp := spans[r.Intn(len(spans))]
	tag, _, _ := pbReadVarint(b, sp.start)
	if sp.wt == 2 && sp.pe > sp.ps && depth < 5 && r.Chance(3, 5) {
		if inner, where, ok := pbDropField(r, b[sp.ps:sp.pe], depth+1); ok {
			out := append([]byte(nil), b[:sp.start]...)
			out = append(out, pbEncVarint(tag)...)
			out = append(out, pbEncVarint(uint64(len(inner)))...)
			out = append(out, inner...)
			out = append(out, b[sp.end:]...)
			return out, fmt.Sprintf("%d>%s", tag>>3, where), true
		}
	}
	out := append([]byte(nil), b[:sp.start]...)
	out = append(out, b[sp.end:]...)
	return out, fmt.Sprintf("%d", tag>>3), true
}

// pbAllDrops enumerates every single-field removal of a message (at every nesting level that parses as a message), capped.
type pbVariant struct {
	path string
	bz   []byte
}

func pbAllDrops(b []byte, depth int, budget *int) []pbVariant {
	spans, ok := pbSpans(b)
	if !ok || len(spans) == 0 || *budget <= 0 {
		return nil
	}
	var out []pbVariant
	for _, sp := range spans {
		if *budget <= 0 {
			break
		}
		tag, _, _ := pbReadVarint(b, sp.start)
		v := append(append([]byte(nil), b[:sp.start]...), b[sp.end:]...)
		out = append(out, pbVariant{fmt.Sprintf("%d", tag>>3), v})
		*budget--
		if sp.wt == 2 && sp.pe > sp.ps && depth < 6 {
			for _, iv := range pbAllDrops(b[sp.ps:sp.pe], depth+1, budget) {
				w := append([]byte(nil), b[:sp.start]...)
				w = append(w, pbEncVarint(tag)...)
				w = append(w, pbEncVarint(uint64(len(iv.bz)))...)
				w = append(w, iv.bz...)
				w = append(w, b[sp.end:]...)
				out = append(out, pbVariant{fmt.Sprintf("%d>%s", tag>>3, iv.path), w})
			}
		}
	}
	return out
}
