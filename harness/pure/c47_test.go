package pure

import (
	"encoding/hex"
	"encoding/json"
	"fmt"
	"math/big"
	"os"
	"path/filepath"
	"reflect"
	"sort"
	"strings"
	"testing"

	"github.com/cosmos/gogoproto/proto"

	sdkmath "cosmossdk.io/math"

	"github.com/cosmos/cosmos-sdk/codec"
	"github.com/cosmos/cosmos-sdk/codec/unknownproto"
	codectypes "github.com/cosmos/cosmos-sdk/codec/types"
	sdk "github.com/cosmos/cosmos-sdk/types"
	banktypes "github.com/cosmos/cosmos-sdk/x/bank/types"

	gmptypes "github.com/cosmos/ibc-go/v11/modules/apps/27-gmp/types"
	icacontrollertypes "github.com/cosmos/ibc-go/v11/modules/apps/27-interchain-accounts/controller/types"
	icatypes "github.com/cosmos/ibc-go/v11/modules/apps/27-interchain-accounts/types"
	callbacktypes "github.com/cosmos/ibc-go/v11/modules/apps/callbacks/types"
	pfmtypes "github.com/cosmos/ibc-go/v11/modules/apps/packet-forward-middleware/types"
	ratelimitkeeper "github.com/cosmos/ibc-go/v11/modules/apps/rate-limiting/keeper"
	ratelimittypes "github.com/cosmos/ibc-go/v11/modules/apps/rate-limiting/types"
	transfertypes "github.com/cosmos/ibc-go/v11/modules/apps/transfer/types"
	clienttypes "github.com/cosmos/ibc-go/v11/modules/core/02-client/types"
	clienttypesv2 "github.com/cosmos/ibc-go/v11/modules/core/02-client/v2/types"
	connectiontypes "github.com/cosmos/ibc-go/v11/modules/core/03-connection/types"
	channeltypes "github.com/cosmos/ibc-go/v11/modules/core/04-channel/types"
	channeltypesv2 "github.com/cosmos/ibc-go/v11/modules/core/04-channel/v2/types"
	commitmenttypes "github.com/cosmos/ibc-go/v11/modules/core/23-commitment/types"
	host "github.com/cosmos/ibc-go/v11/modules/core/24-host"
	solomachine "github.com/cosmos/ibc-go/v11/modules/light-clients/06-solomachine"
	ibctm "github.com/cosmos/ibc-go/v11/modules/light-clients/07-tendermint"
	attestations "github.com/cosmos/ibc-go/v11/modules/light-clients/attestations"
	ibctesting "github.com/cosmos/ibc-go/v11/testing"
	mockv2 "github.com/cosmos/ibc-go/v11/testing/mock/v2"

	"verif/harness/kit"
)

type c47 struct {
	c       *kit.Check
	cdc     codec.Codec
	reg     codectypes.InterfaceRegistry
	sigSeen map[string]int
	crash   *os.File
	corpus  []proto.Message
	msgTys  []reflect.Type // every registered ibc sdk.Msg
	extraTy []reflect.Type // non-message types with ValidateBasic/Validate reachable from messages and packet data
	anyPool map[string][]reflect.Type
	anyAll  []reflect.Type
}

// before writes the input of the next call to disk first, so that an unrecoverable crash still leaves a witness.
func (m *c47) before(target string, input []byte) {
	if m.crash == nil {
		return
	}
	if len(input) > 1<<16 {
		input = input[:1<<16]
	}
	line := target + " " + hex.EncodeToString(input) + "\n"
	_, _ = m.crash.WriteAt([]byte(line), 0)
	_ = m.crash.Truncate(int64(len(line)))
}

// classifyPanic turns a recovered panic into a signature: innermost ibc-go function + input class.
func classifyPanic(pv any, stack string) string {
	fn, origin := panicFrames(stack)
	msg := fmt.Sprint(pv)
	if strings.HasSuffix(fn, ".ParseChainID") {
		// the panic message carries the chain identifier: classify by a predicate on that input
		class := "other:" + msgClass(pv)
		if i := strings.Index(msg, "chainID: "); i >= 0 {
			id := msg[i+len("chainID: "):]
			if j := strings.LastIndex(id, "-"); j >= 0 {
				if rev, ok := new(big.Int).SetString(id[j+1:], 10); ok && rev.Cmp(two64) >= 0 {
					class = "revision-overflows-uint64"
				}
			}
		}
		return "C47|panic|ParseChainID|" + class
	}
	class := panicKind(pv)
	if origin != "" {
		class += "@" + origin
	}
	return "C47|panic|" + fn + "|" + class
}

// run executes fn under recover. A panic is a violation when judged; at most 3 witnesses are kept per signature, the rest is counted.
// Panics of targets outside the statement's list (message decoding / interface unpacking) are recorded as observations only.
func (m *c47) run(target string, input []byte, witness func() map[string]any, fn func()) bool {
	return m.runJ(true, target, input, witness, fn)
}

func (m *c47) runJ(judged bool, target string, input []byte, witness func() map[string]any, fn func()) bool {
	m.before(target, input)
	pv, stack := guard(fn)
	if pv == nil {
		return false
	}
	sig := classifyPanic(pv, stack)
	if !judged {
		sig = "OBSERVED-NOT-JUDGED " + sig + " (in " + target + ")"
		m.sigSeen[sig]++
		m.c.Inc("obs_decode_time_panics")
		return true
	}
	m.sigSeen[sig]++
	m.c.Inc("panics_total")
	if m.sigSeen[sig] <= 3 {
		w := map[string]any{"target": target, "panic": fmt.Sprint(pv), "stack": trimStack(stack)}
		if input != nil {
			w["input_hex"] = hex.EncodeToString(input)
			if len(input) < 400 {
				w["input_text"] = string(input)
			}
		}
		if witness != nil {
			for k, v := range witness() {
				w[k] = v
			}
		}
		m.c.Violate(sig, fmt.Sprintf("%s panicked: %v", target, pv), w)
	}
	return true
}

// validators returns the stateless validation methods a value offers.
func validators(p reflect.Value) []reflect.Value {
	var out []reflect.Value
	for _, name := range []string{"ValidateBasic", "Validate"} {
		mt := p.MethodByName(name)
		if mt.IsValid() && mt.Type().NumIn() == 0 && mt.Type().NumOut() == 1 {
			out = append(out, mt)
		}
	}
	return out
}

func (m *c47) clone(msg proto.Message) proto.Message {
	var out proto.Message
	if pv, _ := guard(func() {
		bz, err := proto.Marshal(msg)
		if err != nil {
			return
		}
		cp := reflect.New(reflect.TypeOf(msg).Elem()).Interface().(proto.Message)
		if pm, ok := cp.(codec.ProtoMarshaler); ok {
			if err := m.cdc.Unmarshal(bz, pm); err != nil {
				return
			}
		} else if err := proto.Unmarshal(bz, cp); err != nil {
			return
		}
		out = cp
	}); pv != nil {
		return nil
	}
	return out
}

// txDecodable mirrors the transaction decoder's filter: the SDK rejects bytes with unknown critical fields or unresolvable
// Any type URLs (recursively) before it unmarshals a message, so such bytes never reach UnpackInterfaces / ValidateBasic.
func (m *c47) txDecodable(bz []byte, fresh reflect.Value) bool {
	pm, ok := fresh.Interface().(proto.Message)
	if !ok {
		return true
	}
	okk := false
	if pv, _ := guard(func() { _, err := unknownproto.RejectUnknownFields(bz, pm, true, m.reg); okk = err == nil }); pv != nil {
		m.c.Inc("obs_unknown_field_filter_panicked")
		return false
	}
	return okk
}

// judgeMsg pushes one generated value through stateless validation: directly, and — the authoritative path — after a
// real wire round trip (marshal → codec unmarshal incl. interface unpacking → validate), plus byte-mutants of the wire form.
func (m *c47) judgeMsg(r *kit.Rng, msg proto.Message, how string, touched []string) {
	c := m.c
	tname := typeShort(reflect.TypeOf(msg))
	pval := reflect.ValueOf(msg)
	vs := validators(pval)
	if len(vs) == 0 {
		c.Inc("types_without_validation")
		return
	}
	// wire form
	var bz []byte
	marshalled := false
	if pv, _ := guard(func() {
		b, err := proto.Marshal(msg)
		if err == nil {
			bz, marshalled = b, true
		}
	}); pv != nil {
		marshalled = false
	}
	wit := func() map[string]any {
		return map[string]any{"type": tname, "how": how, "fields_touched": touched, "go_value": truncate(fmt.Sprintf("%+v", msg), 1500)}
	}
	directPanic := false
	guardedPanic := false
	func() {
		// direct call: judged only if the wire path confirms it (a Go value that no decoding can produce proves nothing)
		pv, _ := guard(func() {
			for _, v := range vs {
				v.Call(nil)
			}
		})
		directPanic = pv != nil
	}()
	outcome := "direct-only"
	if marshalled {
		fresh := reflect.New(reflect.TypeOf(msg).Elem())
		var uerr error
		decoded := false
		if !m.txDecodable(bz, fresh) {
			c.Inc("wire_rejected_by_unknown_field_filter")
			outcome = "wire-filtered"
		} else if m.runJ(false, tname+".Unmarshal", bz, wit, func() {
			if pm, ok := fresh.Interface().(codec.ProtoMarshaler); ok {
				uerr = m.cdc.Unmarshal(bz, pm)
			} else {
				uerr = proto.Unmarshal(bz, fresh.Interface().(proto.Message))
			}
			decoded = true
		}) {
			guardedPanic = true
		}
		if decoded && uerr == nil {
			outcome = "wire-validated"
			c.Inc("wire_validated")
			for _, v := range validators(fresh) {
				v := v
				var res []reflect.Value
				if m.run(tname+"."+methodName(v, fresh), bz, wit, func() { res = v.Call(nil) }) {
					guardedPanic = true
				} else if len(res) == 1 && res[0].IsNil() {
					c.Inc("validation_accepted")
					outcome = "wire-accepted"
				} else {
					c.Inc("validation_rejected")
				}
			}
		} else if decoded {
			outcome = "wire-undecodable"
			c.Inc("wire_unpack_rejected")
		}
	} else {
		c.Inc("not_marshallable")
		// non-protobuf values (plain structs) and values the wire cannot carry: the direct call is all there is.
		if _, isProto := msg.(codec.ProtoMarshaler); !isProto {
			for _, v := range vs {
				v := v
				m.run(tname+"."+methodName(v, pval), nil, wit, func() { v.Call(nil) })
			}
		}
	}
	if directPanic && !guardedPanic {
		c.Inc("direct_panic_not_confirmed_on_wire")
	}
	if guardedPanic {
		outcome = "panic"
	}
	c.Eval("msg|" + tname + "|" + how + "|" + outcome)

	// byte mutants of the wire form
	if marshalled && len(bz) > 0 {
		for k := 0; k < 3; k++ {
			in, kinds := mutateBytes(r, bz)
			if k == 0 {
				// systematic: exactly one field (at any depth) absent from the wire form
				d, where, ok := pbDropField(r, bz, 0)
				if !ok {
					continue
				}
				in, kinds = d, "drop-field"
				_ = where
				c.Inc("wire_field_dropped_variants")
			}
			fresh := reflect.New(reflect.TypeOf(msg).Elem())
			var uerr error
			mw := func() map[string]any { return map[string]any{"type": tname, "how": "wire-mutant " + kinds} }
			if !m.txDecodable(in, fresh) {
				c.Inc("wire_mutant_filtered")
				c.Eval("wiremut|" + tname + "|filtered")
				continue
			}
			if m.runJ(false, tname+".Unmarshal", in, mw, func() {
				if pm, ok := fresh.Interface().(codec.ProtoMarshaler); ok {
					uerr = m.cdc.Unmarshal(in, pm)
				} else {
					uerr = proto.Unmarshal(in, fresh.Interface().(proto.Message))
				}
			}) {
				c.Eval("wiremut|" + tname + "|panic")
				continue
			}
			if uerr != nil {
				c.Inc("wire_mutant_undecodable")
				c.Eval("wiremut|" + tname + "|undecodable")
				continue
			}
			c.Inc("wire_mutant_validated")
			for _, v := range validators(fresh) {
				v := v
				m.run(tname+"."+methodName(v, fresh), in, mw, func() { v.Call(nil) })
			}
			c.Eval("wiremut|" + tname + "|validated|" + kinds)
		}
	}
}

// sweep validates every single-field-absent wire variant of every corpus message (the same authoritative path as judgeMsg).
func (m *c47) sweep() {
	c := m.c
	for _, msg := range m.corpus {
		tname := typeShort(reflect.TypeOf(msg))
		var bz []byte
		if pv, _ := guard(func() { bz, _ = proto.Marshal(msg) }); pv != nil || len(bz) == 0 {
			continue
		}
		budget := 400
		for _, v := range pbAllDrops(bz, 0, &budget) {
			v := v
			fresh := reflect.New(reflect.TypeOf(msg).Elem())
			c.Inc("sweep_variants")
			if !m.txDecodable(v.bz, fresh) {
				c.Inc("sweep_filtered")
				continue
			}
			var uerr error
			wit := func() map[string]any { return map[string]any{"type": tname, "how": "sweep: wire field " + v.path + " absent"} }
			if m.runJ(false, tname+".Unmarshal", v.bz, wit, func() {
				if pm, ok := fresh.Interface().(codec.ProtoMarshaler); ok {
					uerr = m.cdc.Unmarshal(v.bz, pm)
				} else {
					uerr = proto.Unmarshal(v.bz, fresh.Interface().(proto.Message))
				}
			}) || uerr != nil {
				c.Inc("sweep_undecodable")
				continue
			}
			outcome := "rejected"
			for _, val := range validators(fresh) {
				val := val
				var res []reflect.Value
				if m.run(tname+"."+methodName(val, fresh), v.bz, wit, func() { res = val.Call(nil) }) {
					outcome = "panic"
				} else if len(res) == 1 && res[0].IsNil() && outcome != "panic" {
					outcome = "accepted"
				}
			}
			c.Inc("sweep_validated")
			c.Eval("sweep|" + tname + "|" + outcome)
		}
	}
}

func methodName(v reflect.Value, recv reflect.Value) string {
	for _, n := range []string{"ValidateBasic", "Validate"} {
		if mt := recv.MethodByName(n); mt.IsValid() && mt.Pointer() == v.Pointer() {
			return n
		}
	}
	return "Validate*"
}

func truncate(s string, n int) string {
	if len(s) > n {
		return s[:n] + "…"
	}
	return s
}

// ---------------------------------------------------------------------------------------------
// corpus of real, valid messages: harvested from a scripted world (everything the chains were sent) plus hand-built ones

func (m *c47) setup(t *testing.T) {
	w := kit.NewWorld(t, 2)
	A, B := w.Chains[0], w.Chains[1]
	m.cdc, m.reg = A.Sim.AppCodec(), A.Sim.InterfaceRegistry()
	for _, ch := range w.Chains {
		ch.OnTx = func(o *kit.Outcome) {
			for _, msg := range o.Msgs {
				if pm, ok := msg.(proto.Message); ok {
					m.corpus = append(m.corpus, pm)
				}
			}
		}
	}
	signer := A.SenderAccount.GetAddress().String()
	err := kit.Try(func() {
		p1 := ibctesting.NewTransferPath(A.TestChain, B.TestChain)
		p1.DisableUniqueChannelIDs()
		p1.Setup()
		p2 := ibctesting.NewPath(A.TestChain, B.TestChain)
		p2.DisableUniqueChannelIDs()
		p2.SetChannelOrdered()
		p2.Setup()
		// a relayed transfer and a timed-out one
		o := A.Deliver(A.DefaultSender(), transfertypes.NewMsgTransfer("transfer", p1.EndpointA.ChannelID, sdk.NewCoin("stake", sdkmath.NewInt(5)), signer, B.SenderAccount.GetAddress().String(), clienttypes.NewHeight(1, 10000), 0, `{"k":"v"}`))
		if o.OK() {
			if pk, err := ibctesting.ParsePacketFromEvents(o.Res.Events); err == nil {
				_ = p1.RelayPacket(pk)
			}
		}
		o = A.Deliver(A.DefaultSender(), transfertypes.NewMsgTransfer("transfer", p1.EndpointA.ChannelID, sdk.NewCoin("stake", sdkmath.NewInt(5)), signer, B.SenderAccount.GetAddress().String(), clienttypes.NewHeight(1, uint64(B.App.LastBlockHeight())+2), 0, ""))
		if o.OK() {
			if pk, err := ibctesting.ParsePacketFromEvents(o.Res.Events); err == nil {
				B.Commit()
				B.Commit()
				B.Commit()
				_ = p1.EndpointA.UpdateClient()
				_ = p1.EndpointA.TimeoutPacket(pk)
			}
		}
		// IBC v2
		p3 := ibctesting.NewPath(A.TestChain, B.TestChain)
		p3.SetupV2()
		pl := mockv2.NewMockPayload(mockv2.ModuleNameA, mockv2.ModuleNameB)
		if pk, err := p3.EndpointA.MsgSendPacket(uint64(w.Coord.CurrentTime.Unix())+3600, pl); err == nil {
			_ = p3.EndpointA.RelayPacket(pk)
		}
		// interchain accounts registration on the first connection
		A.Deliver(A.DefaultSender(), icacontrollertypes.NewMsgRegisterInterchainAccount(p1.EndpointA.ConnectionID, signer, "", channeltypes.ORDERED))
	})
	if err != nil {
		m.c.Note("corpus world stopped early: " + err.Error())
	}
	// hand-built messages of the kinds the world does not send
	cs := ibctm.NewClientState(B.ChainID, ibctesting.DefaultTrustLevel, ibctesting.TrustingPeriod, ibctesting.UnbondingPeriod, ibctesting.MaxClockDrift,
		B.LatestCommittedHeader.GetHeight().(clienttypes.Height), commitmenttypes.GetSDKSpecs(), ibctesting.UpgradePath)
	cons := B.LatestCommittedHeader.ConsensusState()
	add := func(msg proto.Message, err error) {
		if err == nil && msg != nil && !reflect.ValueOf(msg).IsNil() {
			m.corpus = append(m.corpus, msg)
		}
	}
	add(clienttypes.NewMsgCreateClient(cs, cons, signer))
	add(clienttypes.NewMsgUpgradeClient("07-tendermint-0", cs, cons, []byte("proofClient"), []byte("proofCons"), signer))
	add(clienttypes.NewMsgRecoverClient(signer, "07-tendermint-0", "07-tendermint-1"), nil)
	add(clienttypes.NewMsgUpdateParams(signer, clienttypes.DefaultParams()), nil)
	add(clienttypes.NewMsgDeleteClientCreator("07-tendermint-0", signer), nil)
	add(clienttypesv2.NewMsgRegisterCounterparty("07-tendermint-0", [][]byte{[]byte("ibc"), []byte("")}, "07-tendermint-1", signer), nil)
	add(clienttypesv2.NewMsgUpdateClientConfig("07-tendermint-0", signer, clienttypesv2.NewConfig(signer)), nil)
	add(connectiontypes.NewMsgConnectionOpenInit("07-tendermint-0", "07-tendermint-1", B.GetPrefix(), ibctesting.DefaultOpenInitVersion, 0, signer), nil)
	add(channeltypes.NewMsgChannelCloseInit("mock", "channel-0", signer), nil)
	add(channeltypes.NewMsgChannelCloseConfirm("mock", "channel-0", []byte("proof"), clienttypes.NewHeight(1, 5), signer), nil)
	add(channeltypes.NewMsgTimeoutOnClose(channeltypes.NewPacket([]byte("d"), 1, "mock", "channel-0", "mock", "channel-1", clienttypes.NewHeight(1, 9), 0), 1, []byte("p"), []byte("pc"), clienttypes.NewHeight(1, 5), signer), nil)
	add(gmptypes.NewMsgSendCall("07-tendermint-0", signer, "receiver", []byte("payload"), []byte("salt"), 1_900_000_000, gmptypes.EncodingABI, ""), nil)
	add(ratelimittypes.NewMsgAddRateLimit("stake", "channel-0", sdkmath.NewInt(10), sdkmath.NewInt(10), 24), nil)
	add(ratelimittypes.NewMsgUpdateRateLimit("stake", "channel-0", sdkmath.NewInt(10), sdkmath.NewInt(10), 24), nil)
	add(ratelimittypes.NewMsgRemoveRateLimit("stake", "channel-0"), nil)
	add(ratelimittypes.NewMsgResetRateLimit("stake", "channel-0"), nil)
	add(icacontrollertypes.NewMsgSendTx(signer, "connection-0", 100, icatypes.InterchainAccountPacketData{Type: icatypes.EXECUTE_TX, Data: []byte("x")}), nil)
	add(&transfertypes.MsgUpdateParams{Signer: signer, Params: transfertypes.DefaultParams()}, nil)
	coins := sdk.NewCoins(sdk.NewCoin("stake", sdkmath.NewInt(100)), sdk.NewCoin("uatom", sdkmath.NewInt(5)))
	add(&transfertypes.TransferAuthorization{Allocations: []transfertypes.Allocation{
		{SourcePort: "transfer", SourceChannel: "channel-0", SpendLimit: coins, AllowList: []string{validAddr}, AllowedPacketData: []string{"*"}},
		{SourcePort: "transfer", SourceChannel: "channel-1", SpendLimit: coins},
	}}, nil)
	add(&transfertypes.MsgTransfer{SourcePort: "transfer", SourceChannel: "channel-0", Token: sdk.NewCoin("stake", sdkmath.NewInt(1)), Sender: signer, Receiver: "r", TimeoutHeight: clienttypes.NewHeight(1, 100), Memo: "m"}, nil)
	if sm := ibctesting.NewSolomachine(t, A.Codec, "solo", "div", 2); sm != nil {
		add(clienttypes.NewMsgCreateClient(sm.ClientState(), sm.ConsensusState(), signer))
		add(clienttypes.NewMsgUpdateClient("06-solomachine-0", sm.CreateHeader("div2"), signer))
		add(clienttypes.NewMsgUpdateClient("06-solomachine-0", sm.CreateMisbehaviour(), signer))
	}
	if h := B.LatestCommittedHeader; h != nil {
		h2 := *h
		h2.TrustedHeight = clienttypes.NewHeight(1, 3)
		h2.TrustedValidators = h.ValidatorSet
		add(clienttypes.NewMsgUpdateClient("07-tendermint-0", &h2, signer))
		add(clienttypes.NewMsgUpdateClient("07-tendermint-0", &ibctm.Misbehaviour{ClientId: "07-tendermint-0", Header1: &h2, Header2: &h2}, signer))
	}

	// registered types
	resolve := func(iface string, prefix string) []reflect.Type {
		var out []reflect.Type
		urls := m.reg.ListImplementations(iface)
		sort.Strings(urls)
		for _, u := range urls {
			if prefix != "" && !strings.HasPrefix(u, prefix) {
				continue
			}
			if msg, err := m.reg.Resolve(u); err == nil {
				out = append(out, reflect.TypeOf(msg).Elem())
			}
		}
		return out
	}
	m.msgTys = resolve(sdk.MsgInterfaceProtoName, "/ibc.")
	bank := reflect.TypeOf(banktypes.MsgSend{})
	m.anyPool = map[string][]reflect.Type{
		"clientstate":    resolve("ibc.core.client.v1.ClientState", ""),
		"consensusstate": resolve("ibc.core.client.v1.ConsensusState", ""),
		"clientmessage":  resolve("ibc.core.client.v1.ClientMessage", ""),
		"header":         resolve("ibc.core.client.v1.ClientMessage", ""),
		"misbehaviour":   resolve("ibc.core.client.v1.ClientMessage", ""),
		"publickey":      resolve("cosmos.crypto.PubKey", ""),
		"pubkey":         resolve("cosmos.crypto.PubKey", ""),
		"messages":       append([]reflect.Type{bank}, m.msgTys...),
		"authorization":  {reflect.TypeOf(transfertypes.TransferAuthorization{})},
	}
	for _, k := range []string{"clientstate", "consensusstate", "clientmessage", "publickey", "messages"} {
		m.anyAll = append(m.anyAll, m.anyPool[k]...)
	}
	for _, x := range []any{
		ibctm.ClientState{}, ibctm.ConsensusState{}, ibctm.Header{}, ibctm.Misbehaviour{}, ibctm.Fraction{},
		solomachine.ClientState{}, solomachine.ConsensusState{}, solomachine.Header{}, solomachine.Misbehaviour{}, solomachine.SignatureAndData{},
		attestations.ClientState{}, attestations.ConsensusState{}, attestations.AttestationProof{},
		channeltypes.Packet{}, channeltypes.Channel{}, channeltypes.IdentifiedChannel{}, channeltypes.Counterparty{}, channeltypes.Acknowledgement{}, channeltypes.PacketState{},
		channeltypesv2.Packet{}, channeltypesv2.Payload{}, channeltypesv2.Acknowledgement{},
		connectiontypes.ConnectionEnd{}, connectiontypes.IdentifiedConnection{}, connectiontypes.Counterparty{}, connectiontypes.Params{},
		commitmenttypes.MerkleProof{}, commitmenttypes.MerkleRoot{}, commitmenttypes.MerklePrefix{},
		clienttypes.Params{}, clienttypes.IdentifiedClientState{}, clienttypes.ConsensusStateWithHeight{}, clienttypes.Height{},
		clienttypesv2.Config{}, clienttypesv2.CounterpartyInfo{},
		transfertypes.FungibleTokenPacketData{}, transfertypes.InternalTransferRepresentation{}, transfertypes.Token{}, transfertypes.Denom{}, transfertypes.Hop{}, transfertypes.Params{},
		transfertypes.Allocation{}, transfertypes.TransferAuthorization{},
		icatypes.InterchainAccountPacketData{}, icatypes.CosmosTx{}, icatypes.Metadata{},
		gmptypes.GMPPacketData{}, gmptypes.Acknowledgement{},
		pfmtypes.ForwardMetadata{}, pfmtypes.PacketMetadata{},
		ratelimittypes.RateLimit{}, ratelimittypes.Path{}, ratelimittypes.Quota{}, ratelimittypes.Flow{},
	} {
		m.extraTy = append(m.extraTy, reflect.TypeOf(x))
	}
	m.c.Obs("corpus_messages", int64(len(m.corpus)))
	m.c.Obs("registered_ibc_msg_types", int64(len(m.msgTys)))
	kinds := map[string]bool{}
	for _, x := range m.corpus {
		kinds[typeShort(reflect.TypeOf(x))] = true
	}
	m.c.Obs("corpus_message_kinds", int64(len(kinds)))
}

func (m *c47) newFiller(r *kit.Rng) *filler {
	return &filler{r: r, anyPool: m.anyPool, anyAll: m.anyAll, clone: m.clone}
}

// ---------------------------------------------------------------------------------------------
// string parsers

type strTarget struct {
	name string
	fn   func(s string)
}

func (m *c47) stringTargets() []strTarget {
	pv := host.NewPathValidator(func(string) error { return nil })
	return []strTarget{
		{"clienttypes.ParseClientIdentifier", func(s string) { _, _, _ = clienttypes.ParseClientIdentifier(s) }},
		{"clienttypes.IsValidClientID", func(s string) { _ = clienttypes.IsValidClientID(s) }},
		{"clienttypes.ValidateClientType", func(s string) { _ = clienttypes.ValidateClientType(s) }},
		{"clienttypes.ParseHeight", func(s string) { _, _ = clienttypes.ParseHeight(s) }},
		{"clienttypes.ParseChainID", func(s string) { _ = clienttypes.ParseChainID(s) }},
		{"clienttypes.IsRevisionFormat", func(s string) { _ = clienttypes.IsRevisionFormat(s) }},
		{"clienttypes.SetRevisionNumber", func(s string) { _, _ = clienttypes.SetRevisionNumber(s, 7) }},
		{"connectiontypes.ParseConnectionSequence", func(s string) { _, _ = connectiontypes.ParseConnectionSequence(s) }},
		{"channeltypes.ParseChannelSequence", func(s string) { _, _ = channeltypes.ParseChannelSequence(s) }},
		{"host.ParseIdentifier", func(s string) { _, _ = host.ParseIdentifier(s, "channel-"); _, _ = host.ParseIdentifier(s, "") }},
		{"host.ParseConnectionPath", func(s string) { _, _ = host.ParseConnectionPath(s) }},
		{"host.ParseChannelPath", func(s string) { _, _, _ = host.ParseChannelPath(s) }},
		{"host.IdentifierValidators", func(s string) {
			_ = host.ClientIdentifierValidator(s)
			_ = host.ConnectionIdentifierValidator(s)
			_ = host.ChannelIdentifierValidator(s)
			_ = host.PortIdentifierValidator(s)
			_ = pv(s)
		}},
		{"transfertypes.ExtractDenomFromPath", func(s string) {
			d := transfertypes.ExtractDenomFromPath(s)
			_ = d.Validate()
			_ = d.IBCDenom()
			_ = d.Path()
			_ = d.HasPrefix("transfer", "channel-0")
		}},
		{"transfertypes.ParseHexHash", func(s string) { _, _ = transfertypes.ParseHexHash(s) }},
		{"transfertypes.MsgTransfer(denom).ValidateBasic", func(s string) {
			msg := transfertypes.MsgTransfer{SourcePort: "transfer", SourceChannel: "channel-0", Token: sdk.Coin{Denom: s, Amount: sdkmath.NewInt(1)}, Sender: validAddr, Receiver: "r", TimeoutTimestamp: 1}
			_ = msg.ValidateBasic()
		}},
		{"icatypes.NewControllerPortID", func(s string) { _, _ = icatypes.NewControllerPortID(s) }},
		{"icatypes.ValidateAccountAddress", func(s string) { _ = icatypes.ValidateAccountAddress(s) }},
		{"icatypes.MetadataFromVersion", func(s string) {
			md, err := icatypes.MetadataFromVersion(s)
			if err == nil {
				_ = icatypes.IsPreviousMetadataEqual(s, md)
			}
		}},
		{"ratelimittypes.ParsePendingPacketID", func(s string) {
			_, _, _, _ = ratelimittypes.ParsePendingPacketID(s)
			_ = ratelimittypes.IsLegacyPendingPacketID(s)
			_ = ratelimittypes.ValidatePendingPacketParts(s, s)
			_, _ = ratelimittypes.PendingPacketKey(s, 7)
		}},
		{"connectiontypes.ValidateVersion", func(s string) {
			_ = connectiontypes.ValidateVersion(&connectiontypes.Version{Identifier: s, Features: []string{s, "ORDER_ORDERED"}})
		}},
	}
}

var parserSeeds = []string{
	"07-tendermint-0", "connection-7", "channel-12", "1-100", "testchain1-1", "x-99999999999999999999", "x-18446744073709551616", "x-18446744073709551615", "transfer/channel-0/uatom",
	"/ibc/ports/transfer/channels/channel-0/x", "connections/connection-0", "channel-0/7", "transfer/channel-0/7", "channel-0/7/uatom", "27C6B1F0E8C5A4D3B2A1908F7E6D5C4B3A29181706F5E4D3C2B1A09F8E7D6C5B",
	`{"version":"ics27-1","controller_connection_id":"connection-0","host_connection_id":"connection-1","address":"","encoding":"proto3","tx_type":"sdk_multi_msg"}`,
	"cosmos1qyqszqgpqyqszqgpqyqszqgpqyqszqgpjnp7du", "0-0", "18446744073709551615-18446744073709551615", "18446744073709551616-1", "a-b-1", "-", "--", "1-", "-1",
}

func genParserInput(r *kit.Rng) (string, string) {
	switch r.Intn(7) {
	case 0:
		return kit.Pick(r, parserSeeds), "seed"
	case 1:
		b, k := mutateBytes(r, []byte(kit.Pick(r, parserSeeds)))
		return string(b), "seed-mut-" + k
	case 2:
		// numeric boundary spliced behind a prefix
		pfx := kit.Pick(r, []string{"x-", "channel-", "connection-", "07-tendermint-", "", "1-", "a-b-", "é-", "-"})
		txt, _ := genSeqText(r)
		return pfx + txt, "prefix+number"
	case 3:
		s, _ := genDenomPath(r)
		return s, "path"
	case 4:
		return string(genBytes(r, 200)), "bytes"
	case 5:
		return strings.Repeat(kit.Pick(r, []string{"a", "-", "/", "9", "é", "\x00"}), kit.Pick(r, []int{1, 63, 64, 65, 128, 129, 1000, 70000})), "repeat"
	default:
		return genText(r, 80), "text"
	}
}

// ---------------------------------------------------------------------------------------------
// JSON-ish inputs for memo / metadata / packet-data / ack decoders

func genJSONValue(r *kit.Rng, depth int) any {
	if depth > 4 {
		return kit.Pick(r, []any{"x", 1.0, nil})
	}
	switch r.Intn(12) {
	case 0:
		return nil
	case 1:
		return r.Bool()
	case 2:
		return kit.Pick(r, []float64{0, 1, -1, 255, 256, 1.5, 1e18, 1.8446744073709552e19, 1e300, -1e300, 9007199254740993})
	case 3:
		return json.Number(kit.Pick(r, []string{"18446744073709551615", "18446744073709551616", "-0", "1e400", "0.0000001", "123456789012345678901234567890"}))
	case 4, 5:
		return genText(r, 30)
	case 6:
		n := r.Intn(4)
		arr := make([]any, n)
		for i := range arr {
			arr[i] = genJSONValue(r, depth+1)
		}
		return arr
	case 7:
		return kit.Pick(r, []string{"10m", "-1s", "9999999h", "1ns", "1e9s", "", "0", "5", "1h1h1h", "2562047h47m16.854775807s", "2562047h47m16.854775808s"})
	case 8:
		return kit.Pick(r, []string{"0", "1", "200000", "18446744073709551615", "18446744073709551616", "-1", "1e3", "0x10", " 1", ""})
	default:
		n := r.Intn(4)
		obj := map[string]any{}
		for i := 0; i < n; i++ {
			obj[kit.Pick(r, []string{"address", "gas_limit", "calldata", "receiver", "port", "channel", "timeout", "retries", "next", "forward", "src_callback", "dest_callback", "x", ""})] = genJSONValue(r, depth+1)
		}
		return obj
	}
}

func genForward(r *kit.Rng, depth int) map[string]any {
	fw := map[string]any{}
	set := func(key string, good any) {
		switch r.Intn(8) {
		case 0:
			// absent
		case 1:
			fw[key] = genJSONValue(r, 3)
		default:
			fw[key] = good
		}
	}
	set("receiver", kit.Pick(r, []string{validAddr, "", " ", strings.Repeat("r", 3000)}))
	set("port", kit.Pick(r, []string{"transfer", "", "p", "transfer/x"}))
	set("channel", kit.Pick(r, []string{"channel-0", "channel-18446744073709551616", "", "07-tendermint-0"}))
	if r.Bool() {
		set("timeout", kit.Pick(r, []any{"10m", "-5s", "9999999h", 600000000000.0, -1.0, 1e300, 1e19, "", "abc", nil}))
	}
	if r.Bool() {
		set("retries", kit.Pick(r, []any{0.0, 2.0, 255.0, 256.0, -1.0, 1.5, 255.9, 1e300, "2", nil, json.Number("1e400")}))
	}
	if depth < 6 && r.Chance(1, 3) {
		next := map[string]any{"forward": genForward(r, depth+1)}
		switch r.Intn(4) {
		case 0:
			bz, _ := json.Marshal(next)
			fw["next"] = string(bz) // next given as a JSON string
		case 1:
			fw["next"] = genJSONValue(r, 2)
		default:
			fw["next"] = next
		}
	}
	return fw
}

func genCallback(r *kit.Rng) any {
	if r.Chance(1, 6) {
		return genJSONValue(r, 2)
	}
	cb := map[string]any{}
	switch r.Intn(6) {
	case 0:
	case 1:
		cb["address"] = genJSONValue(r, 3)
	default:
		cb["address"] = kit.Pick(r, []string{validAddr, "", " ", "0x1", strings.Repeat("a", 5000)})
	}
	if r.Bool() {
		cb["gas_limit"] = kit.Pick(r, []any{"200000", "0", "", "18446744073709551615", "18446744073709551616", "-1", "1e3", " 5", 200000.0, nil, true, []any{}, map[string]any{}, json.Number("1e400")})
	}
	if r.Bool() {
		cb["calldata"] = kit.Pick(r, []any{"", "00", "0x00", "abc", "zz", strings.Repeat("ab", 40000), 5.0, nil, []any{"00"}})
	}
	return cb
}

// genMemoText returns a memo: structured object with callback / forward keys, its byte-mutants, or arbitrary text.
func genMemoText(r *kit.Rng) (string, string) {
	switch r.Intn(8) {
	case 0:
		return genMemo(r), "plain"
	case 1:
		return string(genBytes(r, 300)), "bytes"
	case 2:
		// pathological nesting
		n := kit.Pick(r, []int{10, 100, 1000, 9999, 10001, 20000})
		open, close := kit.Pick(r, [][2]string{{`{"forward":`, `}`}, {`[`, `]`}, {`{"src_callback":{"address":`, `}}`}, {`{"forward":{"next":`, `}}`}})[0], ""
		switch open {
		case `{"forward":`:
			close = `}`
		case `[`:
			close = `]`
		default:
			close = `}}`
		}
		return strings.Repeat(open, n) + `1` + strings.Repeat(close, n), fmt.Sprintf("nest-%d", n)
	}
	obj := map[string]any{}
	if r.Chance(3, 4) {
		obj["src_callback"] = genCallback(r)
	}
	if r.Chance(1, 2) {
		obj["dest_callback"] = genCallback(r)
	}
	if r.Chance(3, 4) {
		if r.Chance(1, 6) {
			obj["forward"] = genJSONValue(r, 2)
		} else {
			obj["forward"] = genForward(r, 0)
		}
	}
	if r.Chance(1, 5) {
		obj[genText(r, 10)] = genJSONValue(r, 1)
	}
	bz, err := json.Marshal(obj)
	if err != nil {
		return "{}", "marshal-failed"
	}
	if r.Chance(1, 4) {
		mb, k := mutateBytes(r, bz)
		return string(mb), "structured-mut-" + k
	}
	return string(bz), "structured"
}

type plainData struct{ X int }

func (m *c47) memoCase(r *kit.Rng) {
	c := m.c
	memo, class := genMemoText(r)
	in := []byte(memo)
	ftpd := transfertypes.FungibleTokenPacketData{Denom: "uatom", Amount: "1", Sender: validAddr, Receiver: "r", Memo: memo}
	itr := transfertypes.InternalTransferRepresentation{Token: transfertypes.Token{Denom: transfertypes.NewDenom("uatom"), Amount: "1"}, Sender: validAddr, Receiver: "r", Memo: memo}
	gmp := gmptypes.GMPPacketData{Sender: validAddr, Receiver: "r", Memo: memo}
	ica := icatypes.InterchainAccountPacketData{Type: icatypes.EXECUTE_TX, Data: []byte("x"), Memo: memo}
	key := kit.Pick(r, []string{callbacktypes.SourceCallbackKey, callbacktypes.DestinationCallbackKey, pfmtypes.ForwardMetadataKey, "", "x"})
	panicked := false
	run := func(name string, fn func()) {
		if m.run(name, in, func() map[string]any { return map[string]any{"memo_class": class} }, fn) {
			panicked = true
		}
	}
	run("transfertypes.FungibleTokenPacketData.GetCustomPacketData", func() { _ = ftpd.GetCustomPacketData(key) })
	run("transfertypes.InternalTransferRepresentation.GetCustomPacketData", func() { _ = itr.GetCustomPacketData(key); _ = itr.ValidateBasic() })
	run("gmptypes.GMPPacketData.GetCustomPacketData", func() { _ = gmp.GetCustomPacketData(key); _ = gmp.ValidateBasic() })
	run("icatypes.InterchainAccountPacketData.GetCustomPacketData", func() { _ = ica.GetCustomPacketData(key); _ = ica.ValidateBasic() })
	cbOutcome := ""
	for _, pd := range []any{ftpd, itr, gmp, ica, plainData{1}, nil} {
		pd := pd
		for _, k := range []string{callbacktypes.SourceCallbackKey, callbacktypes.DestinationCallbackKey} {
			k := k
			run("callbacktypes.GetCallbackData", func() {
				cb, is, err := callbacktypes.GetCallbackData(pd, "ics20-1", "transfer", r.Boundary64(), r.Boundary64(), k)
				_ = cb.AllowRetry()
				if _, ok := pd.(transfertypes.FungibleTokenPacketData); ok && k == callbacktypes.SourceCallbackKey {
					cbOutcome = fmt.Sprintf("cb=%v,err=%v", is, err != nil)
				}
			})
		}
	}
	pfmOutcome := ""
	run("pfmtypes.GetPacketMetadataFromPacketdata", func() {
		md, is, err := pfmtypes.GetPacketMetadataFromPacketdata(ftpd)
		pfmOutcome = fmt.Sprintf("fw=%v,err=%v", is, err != nil)
		if err == nil {
			_ = md.Forward.Validate()
			_ = md.Forward.ToMap()
			_, _ = md.ToMemo()
			c.Inc("pfm_metadata_parsed")
		}
	})
	c.Inc("memo_cases")
	if strings.Contains(cbOutcome, "cb=true,err=false") {
		c.Inc("callback_data_parsed")
	}
	if panicked {
		c.Eval("memo|" + class + "|panic")
	} else {
		c.Eval("memo|" + strings.SplitN(class, "-", 3)[0] + "|" + cbOutcome + "|" + pfmOutcome)
	}
}

// ---------------------------------------------------------------------------------------------
// byte-level decoders with seeds

type bzTarget struct {
	name  string
	seeds [][]byte
	fn    func(bz []byte)
}

func (m *c47) byteTargets() []bzTarget {
	ftpd := transfertypes.FungibleTokenPacketData{Denom: "transfer/channel-0/uatom", Amount: "100", Sender: validAddr, Receiver: "r", Memo: `{"forward":{"receiver":"a","port":"transfer","channel":"channel-1"}}`}
	var ics20Seeds [][]byte
	for _, e := range ics20Encodings {
		if bz, err := transfertypes.MarshalPacketData(ftpd, transfertypes.V1, e); err == nil {
			ics20Seeds = append(ics20Seeds, bz)
		}
	}
	g := gmptypes.GMPPacketData{Sender: validAddr, Receiver: "r", Salt: []byte("s"), Payload: []byte("payload"), Memo: "m"}
	var gmpSeeds, gmpAckSeeds [][]byte
	for _, e := range ics20Encodings {
		if bz, err := gmptypes.MarshalPacketData(&g, gmptypes.Version, e); err == nil {
			gmpSeeds = append(gmpSeeds, bz)
		}
		if bz, err := gmptypes.MarshalAcknowledgement(&gmptypes.Acknowledgement{Result: []byte("ok")}, gmptypes.Version, e); err == nil {
			gmpAckSeeds = append(gmpAckSeeds, bz)
		}
	}
	send := banktypes.NewMsgSend(sdk.AccAddress([]byte("from________________")), sdk.AccAddress([]byte("to__________________")), sdk.NewCoins(sdk.NewCoin("stake", sdkmath.NewInt(1))))
	var icaSeeds [][]byte
	for _, e := range []string{icatypes.EncodingProtobuf, icatypes.EncodingProto3JSON} {
		if bz, err := icatypes.SerializeCosmosTx(m.cdc, []proto.Message{send, send}, e); err == nil {
			icaSeeds = append(icaSeeds, bz)
		}
	}
	icaPD := icatypes.InterchainAccountPacketData{Type: icatypes.EXECUTE_TX, Data: icaSeeds[0], Memo: "memo"}
	ackSeeds := [][]byte{
		channeltypes.NewResultAcknowledgement([]byte{1}).Acknowledgement(), channeltypes.NewErrorAcknowledgement(fmt.Errorf("boom")).Acknowledgement(),
		[]byte(`{}`), []byte(`{"result":"AQ==","error":"x"}`), []byte(`{"result":""}`), []byte(`{"result":null}`), []byte(`null`), []byte(`{"error":7}`), []byte(`{"response":{"result":"AQ=="}}`),
	}
	v2ack := channeltypesv2.NewAcknowledgement([]byte("a"), []byte("b"))
	v2ackBz, _ := proto.Marshal(&v2ack)
	v2pkt := channeltypesv2.NewPacket(1, "07-tendermint-0", "07-tendermint-1", 1_900_000_000, channeltypesv2.NewPayload("transfer", "transfer", "ics20-1", transfertypes.EncodingJSON, ftpd.GetBytes()))
	v2pktBz, _ := proto.Marshal(&v2pkt)
	v1pkt := channeltypes.NewPacket(ftpd.GetBytes(), 1, "transfer", "channel-0", "transfer", "channel-1", clienttypes.NewHeight(1, 100), 0)
	v1pktBz, _ := proto.Marshal(&v1pkt)
	return []bzTarget{
		{"transfertypes.UnmarshalPacketData", ics20Seeds, func(bz []byte) {
			for _, e := range []string{transfertypes.EncodingJSON, transfertypes.EncodingProtobuf, transfertypes.EncodingABI, "", "x"} {
				_, _ = transfertypes.UnmarshalPacketData(bz, transfertypes.V1, e)
			}
			_, _ = transfertypes.UnmarshalPacketData(bz, "ics20-2", "")
		}},
		{"gmptypes.UnmarshalPacketData", gmpSeeds, func(bz []byte) {
			for _, e := range []string{gmptypes.EncodingJSON, gmptypes.EncodingProtobuf, gmptypes.EncodingABI, "", "x"} {
				if d, err := gmptypes.UnmarshalPacketData(bz, gmptypes.Version, e); err == nil {
					_ = d.ValidateBasic()
				}
			}
			_, _ = gmptypes.UnmarshalPacketData(bz, "ics27-9", gmptypes.EncodingJSON)
		}},
		{"gmptypes.UnmarshalAcknowledgement", gmpAckSeeds, func(bz []byte) {
			for _, e := range []string{gmptypes.EncodingJSON, gmptypes.EncodingProtobuf, gmptypes.EncodingABI, "x"} {
				_, _ = gmptypes.UnmarshalAcknowledgement(bz, gmptypes.Version, e)
			}
		}},
		{"icatypes.DeserializeCosmosTx", icaSeeds, func(bz []byte) {
			for _, e := range []string{icatypes.EncodingProtobuf, icatypes.EncodingProto3JSON, "x"} {
				_, _ = icatypes.DeserializeCosmosTx(m.cdc, bz, e)
			}
		}},
		{"icatypes.InterchainAccountPacketData.UnmarshalJSON", [][]byte{icaPD.GetBytes(), []byte(`{"type":"TYPE_EXECUTE_TX","data":"AA==","memo":"{\"src_callback\":{\"address\":\"a\"}}"}`), []byte(`{"type":9}`)}, func(bz []byte) {
			var d icatypes.InterchainAccountPacketData
			if err := d.UnmarshalJSON(bz); err == nil {
				_ = d.ValidateBasic()
				_ = d.GetCustomPacketData("src_callback")
				_ = d.GetPacketSender("icacontroller-x")
				_, _ = icatypes.DeserializeCosmosTx(m.cdc, d.Data, icatypes.EncodingProtobuf)
			}
		}},
		{"channeltypes.Acknowledgement(JSON)", ackSeeds, func(bz []byte) {
			var ack channeltypes.Acknowledgement
			if err := transfertypes.ModuleCdc.UnmarshalJSON(bz, &ack); err == nil {
				_ = ack.ValidateBasic()
				_ = ack.Success()
				_ = ack.Acknowledgement()
			}
			var ack2 channeltypes.Acknowledgement
			if err := channeltypes.SubModuleCdc.UnmarshalJSON(bz, &ack2); err == nil {
				_ = ack2.ValidateBasic()
			}
			var ack3 channeltypes.Acknowledgement
			if err := icatypes.ModuleCdc.UnmarshalJSON(bz, &ack3); err == nil {
				_ = ack3.Success()
			}
		}},
		{"channeltypesv2.Acknowledgement(proto)", [][]byte{v2ackBz, channeltypesv2.ErrorAcknowledgement[:], {}}, func(bz []byte) {
			var ack channeltypesv2.Acknowledgement
			if err := proto.Unmarshal(bz, &ack); err == nil {
				if ack.Validate() == nil {
					_ = ack.Success()
					_ = ack.Acknowledgement()
				}
			}
		}},
		{"channeltypesv2.Packet(proto)", [][]byte{v2pktBz}, func(bz []byte) {
			var p channeltypesv2.Packet
			if err := proto.Unmarshal(bz, &p); err == nil {
				_ = p.ValidateBasic()
				_ = channeltypesv2.CommitPacket(p)
				for _, pl := range p.Payloads {
					_ = pl.ValidateBasic()
					_, _ = transfertypes.UnmarshalPacketData(pl.Value, pl.Version, pl.Encoding)
					_, _ = gmptypes.UnmarshalPacketData(pl.Value, pl.Version, pl.Encoding)
				}
			}
		}},
		{"channeltypes.Packet(proto)+ratelimit.ParsePacketInfo", [][]byte{v1pktBz}, func(bz []byte) {
			var p channeltypes.Packet
			if err := proto.Unmarshal(bz, &p); err == nil {
				_ = p.ValidateBasic()
				_ = channeltypes.CommitPacket(p)
				_, _ = ratelimitkeeper.ParsePacketInfo(p, ratelimittypes.PACKET_SEND)
				_, _ = ratelimitkeeper.ParsePacketInfo(p, ratelimittypes.PACKET_RECV)
			}
		}},
		{"ratelimit.ParsePacketInfo(data)", [][]byte{ftpd.GetBytes(), []byte(`{"denom":"a/channel-0/b/channel-1","amount":"1","sender":"s","receiver":"r"}`), []byte(`{"denom":"ibc/AB","amount":"0x10","sender":"s","receiver":"r"}`)}, func(bz []byte) {
			p := v1pkt
			p.Data = bz
			_, _ = ratelimitkeeper.ParsePacketInfo(p, ratelimittypes.PACKET_SEND)
			_, _ = ratelimitkeeper.ParsePacketInfo(p, ratelimittypes.PACKET_RECV)
			var d transfertypes.FungibleTokenPacketData
			if err := json.Unmarshal(bz, &d); err == nil {
				_ = ratelimitkeeper.ParseDenomFromSendPacket(d)
				_ = ratelimitkeeper.ParseDenomFromRecvPacket(p, d)
				_ = d.ValidateBasic()
			}
		}},
		{"attestations.ABIDecode*", nil, func(bz []byte) {
			_, _ = attestations.ABIDecodePacketAttestation(bz)
			_, _ = attestations.ABIDecodeStateAttestation(bz)
		}},
	}
}

func TestC47(t *testing.T) {
	c := kit.NewCheck(t, "C47", "exploration",
		"cases rotate over four generators: (1) messages — a corpus of real messages harvested from a scripted two-chain world plus hand-built ones, deep-copied and mutated in 1–3 fields (also inside packed light-client states/headers), and purely reflection-filled values of every registered ibc sdk.Msg type and of the types reachable from them; "+
			"each value is validated directly and, authoritatively, after marshal → codec unmarshal (interface unpacking) → ValidateBasic/Validate, plus byte-mutants of its wire form; (2) identifier/height/chain-id/denom/metadata parsers on seeds, mutated seeds, prefix+boundary-number, paths, raw bytes, 70 kB repeats; "+
			"(3) memo consumers (packet-data providers, callback data, forward metadata) on structured JSON with typed hostile substitutions, deep nesting and byte-mutants; (4) packet-data / ICA tx / acknowledgement / attestation decoders on valid encodings, their byte-mutants and random bytes; "+
			"a recovered panic is a violation whose signature is (innermost ibc-go function, input class); distinct = (target, generator, outcome class)")
	defer c.Finish()
	c.Assume("a panic reached only by a Go value that no wire decoding can produce (e.g. an Any caching a value of the wrong interface) is counted but not judged")
	c.Floor("wire_validated", 1500)
	c.Floor("absent_field_variants", 150)
	c.Floor("wire_field_dropped_variants", 1200)
	c.Floor("sweep_validated", 500)
	c.Floor("validation_accepted", 400)
	c.Floor("validation_rejected", 1000)
	c.Floor("wire_mutant_validated", 400)
	c.Floor("parser_calls", 60000)
	c.Floor("memo_cases", 800)
	c.Floor("callback_data_parsed", 60)
	c.Floor("pfm_metadata_parsed", 60)
	c.Floor("decoder_calls", 1600)
	c.Floor("msg_types_exercised", 30)

	m := &c47{c: c, sigSeen: map[string]int{}}
	if out := os.Getenv("VERIF_OUT"); out != "" {
		if f, err := os.Create(filepath.Join(out, fmt.Sprintf("C47.lastinput.shard%d", c.Shard))); err == nil {
			m.crash = f
			defer func() {
				name := f.Name()
				f.Close()
				os.Remove(name)
			}()
		}
	}
	if err := kit.Try(func() { m.setup(t) }); err != nil {
		c.Inconcl("setup aborted: " + err.Error())
		return
	}
	strTs := m.stringTargets()
	bzTs := m.byteTargets()
	// every byte-level decoder also starts from the bare JSON documents (a decoder that unmarshals into an interface or pointer gets nil for `null`)
	for i := range bzTs {
		for _, lit := range []string{"null", " null ", "\n\tnull\n", "true", "0", "-1", `""`, "[]", "[null]", "{}", `{"":null}`} {
			bzTs[i].seeds = append(bzTs[i].seeds, []byte(lit))
		}
	}
	exercised := map[string]bool{}

	// systematic sweep: every corpus message with exactly one field absent from its wire form, at every nesting level
	c.SetCase("sweep")
	if c.OnlyCase == "" || c.OnlyCase == "sweep" {
		if c.Shard == 0 {
			m.sweep()
		}
	}

	n := c.N(4500, 7000)
	for i := 0; i < n; i++ {
		if c.SkipCase(i) {
			continue
		}
		r := c.CaseRng(i)
		f := m.newFiller(r.Sub("fill"))

		// (1) messages
		switch i % 3 {
		case 0:
			// corpus message with 1–3 fields replaced
			src := m.corpus[r.Intn(len(m.corpus))]
			if cp := m.clone(src); cp != nil {
				exercised[typeShort(reflect.TypeOf(cp))] = true
				if r.Chance(2, 5) {
					// exactly one optional sub-message absent
					if name := f.absentField(cp, 0); name != "" {
						c.Inc("absent_field_variants")
						m.judgeMsg(r, cp, "corpus-field-absent", []string{name})
					}
				} else {
					touched := f.mutateMsg(cp, 0)
					m.judgeMsg(r, cp, "corpus-mutant", touched)
				}
			} else {
				c.Inc("corpus_clone_failed")
			}
		case 1:
			// every registered message type, round robin, purely generated
			t := m.msgTys[(i/3)%len(m.msgTys)]
			p := reflect.New(t)
			f.fillStruct(p.Elem(), 0)
			exercised[typeShort(t)] = true
			m.judgeMsg(r, p.Interface().(proto.Message), "filled", nil)
		default:
			t := m.extraTy[(i/3)%len(m.extraTy)]
			p := reflect.New(t)
			f.fillStruct(p.Elem(), 0)
			if msg, ok := p.Interface().(proto.Message); ok {
				m.judgeMsg(r, msg, "filled", nil)
			} else {
				// plain Go structs (forward metadata, internal transfer representation)
				for _, v := range validators(p) {
					v := v
					m.run(typeShort(t)+".Validate*", nil, func() map[string]any { return map[string]any{"go_value": truncate(fmt.Sprintf("%+v", p.Interface()), 1500)} }, func() { v.Call(nil) })
				}
				c.Eval("plain|" + typeShort(t))
			}
		}

		// (2) parsers
		for k := 0; k < 2; k++ {
			s, class := genParserInput(r)
			for _, tg := range strTs {
				tg := tg
				c.Inc("parser_calls")
				if m.run(tg.name, []byte(s), func() map[string]any { return map[string]any{"input_class": class} }, func() { tg.fn(s) }) {
					c.Eval("parser|" + tg.name + "|" + class + "|panic")
				}
			}
			c.Eval("parser|" + strings.SplitN(class, "-", 3)[0] + "|" + lenClass(len(s)))
		}

		// (3) memos
		if i%2 == 0 {
			m.memoCase(r)
		}

		// (4) decoders
		tg := bzTs[i%len(bzTs)]
		var in []byte
		class := "random"
		switch {
		case len(tg.seeds) > 0 && r.Chance(1, 8):
			in, class = kit.Pick(r, tg.seeds), "seed"
		case len(tg.seeds) > 0 && r.Chance(5, 7):
			var k string
			in, k = mutateBytes(r, kit.Pick(r, tg.seeds))
			class = "mut-" + k
		default:
			in = genBytes(r, 600)
		}
		c.Inc("decoder_calls")
		outcome := "ok"
		if m.run(tg.name, in, func() map[string]any { return map[string]any{"input_class": class} }, func() { tg.fn(in) }) {
			outcome = "panic"
		}
		c.Eval("decoder|" + tg.name + "|" + class + "|" + outcome)
		if i < 3 {
			c.Sample(map[string]any{"case": c.CaseID(i), "decoder": tg.name, "input_class": class, "input_hex": truncate(hex.EncodeToString(in), 200)})
		}
	}
	c.Obs("msg_types_exercised", int64(len(exercised)))
	sigs := make([]string, 0, len(m.sigSeen))
	for s, k := range m.sigSeen {
		sigs = append(sigs, fmt.Sprintf("%s ×%d", s, k))
	}
	sort.Strings(sigs)
	if len(sigs) > 0 {
		c.Note("panic signatures observed: " + strings.Join(sigs, "; "))
	}
}
