package pure

import (
	"fmt"
	"math/big"
	"reflect"
	"strings"
	"time"

	"github.com/cosmos/gogoproto/proto"

	sdkmath "cosmossdk.io/math"

	codectypes "github.com/cosmos/cosmos-sdk/codec/types"
	sdk "github.com/cosmos/cosmos-sdk/types"

	"verif/harness/kit"
)

// filler builds "structurally valid messages with arbitrary field contents" by reflection over the generated protobuf
// Go types: every field gets a boundary / hostile / plausibly-valid value chosen by its name and type.
type filler struct {
	r *kit.Rng
	// anyPool: lower-case name hint -> candidate message types that may sit inside an Any field of that name
	anyPool map[string][]reflect.Type
	anyAll  []reflect.Type
	// clone makes a deep copy of a message (through the codec); nil result = could not be cloned
	clone func(proto.Message) proto.Message
}

var (
	tTime     = reflect.TypeOf(time.Time{})
	tDuration = reflect.TypeOf(time.Duration(0))
	tInt      = reflect.TypeOf(sdkmath.Int{})
	tDec      = reflect.TypeOf(sdkmath.LegacyDec{})
	tAny      = reflect.TypeOf(codectypes.Any{})
	tBytes    = reflect.TypeOf([]byte(nil))
)

var validAddr = sdk.AccAddress([]byte("verif-pure-address-1")).String()

func (f *filler) strFor(name string) string {
	r := f.r
	n := strings.ToLower(name)
	has := func(xs ...string) bool {
		for _, x := range xs {
			if strings.Contains(n, x) {
				return true
			}
		}
		return false
	}
	if r.Chance(1, 4) {
		return genText(r, 40)
	}
	switch {
	case has("signer", "sender", "authority", "owner", "creator", "relayer", "address", "receiver", "granter", "grantee"):
		return kit.Pick(r, []string{validAddr, validAddr, "cosmos1qqqqqqqqqqqqqqqqqqqqqqqqqqqqqqqqnrql8a", "cosmos1invalidchecksum", "0x00000000000000000000000000000000DeaDBeef", "",
			" ", strings.Repeat("a", 2049), strings.Repeat("c", 3000), validAddr + " ", "COSMOS1" + strings.ToUpper(validAddr[7:])})
	case has("chainid", "chain_id"):
		return kit.Pick(r, []string{"testchain1-1", "testchain2-1", "x-99999999999999999999", "x-18446744073709551615", "x-18446744073709551616", "x-1", "a-0", "x--1", "-1", "é-1",
			"x-01", "cosmoshub-4", "x-1-2", "x-\n1", strings.Repeat("c", 48) + "-1", strings.Repeat("c", 60), "", " "})
	case has("subjectclient", "substituteclient", "clientid", "client_id", "sourceclient", "destinationclient", "counterpartyclient"):
		return kit.Pick(r, []string{"07-tendermint-0", "07-tendermint-1", "06-solomachine-3", "09-localhost", "08-wasm-18446744073709551615", "07-tendermint-99999999999999999999",
			"10-attestations-0", "channel-0", "a-1", "07-tendermint", "07-tendermint-", "tendermint-0/x", strings.Repeat("c", 60) + "-1", ""})
	case has("connectionid", "connection_id", "connectionhop"):
		return kit.Pick(r, []string{"connection-0", "connection-1", "connection-18446744073709551615", "connection-18446744073709551616", "connection-", "connection-01", "channel-0", "connection-0/a", ""})
	case has("channelid", "channel_id", "sourcechannel", "destinationchannel", "channelorclient"):
		return kit.Pick(r, []string{"channel-0", "channel-1", "channel-18446744073709551615", "channel-18446744073709551616", "channel-", "07-tendermint-0", "channel-0/x", "chan", ""})
	case has("portid", "port_id", "sourceport", "destinationport"):
		return kit.Pick(r, []string{"transfer", "icahost", "icacontroller-" + validAddr, "mock", "gmpport", "tr", "t", strings.Repeat("p", 128), strings.Repeat("p", 129), "transfer/x", ""})
	case has("version"):
		return kit.Pick(r, []string{"ics20-1", "mock-version", "ics27-1", "ics27-2",
			`{"version":"ics27-1","controller_connection_id":"connection-0","host_connection_id":"connection-0","address":"","encoding":"proto3","tx_type":"sdk_multi_msg"}`,
			`{"version":"ics27-1","controller_connection_id":7}`, `{"version":`, "", " ", "1"})
	case has("denom"):
		return kit.Pick(r, []string{"uatom", "stake", "transfer/channel-0/uatom", "ibc/27C6B1F0E8C5A4D3B2A1908F7E6D5C4B3A29181706F5E4D3C2B1A09F8E7D6C5B", "ibc/", "ibc", "ibc/zz", "a/channel-0/b/channel-1", "", " ", "1abc", "a"})
	case has("amount"):
		return kit.Pick(r, []string{"1", "0", "-1", "100", "115792089237316195423570985008687907853269984665640564039457584007913129639935", "115792089237316195423570985008687907853269984665640564039457584007913129639936", "0x10", "1e9", "", "abc", "1.5"})
	case has("memo"):
		return kit.Pick(r, []string{"", `{"forward":{"receiver":"a","port":"transfer","channel":"channel-0"}}`, `{"src_callback":{"address":"a","gas_limit":"1"}}`, "{", "null", strings.Repeat("m", 32769), "[1,2]"})
	case has("encoding"):
		return kit.Pick(r, []string{"application/json", "application/x-protobuf", "application/x-solidity-abi", "proto3", "proto3json", "", "x"})
	case has("typeurl", "type_url", "msgtype"):
		return kit.Pick(r, []string{"/ibc.core.client.v1.MsgCreateClient", "/cosmos.bank.v1beta1.MsgSend", "/ibc.lightclients.tendermint.v1.ClientState", "/", "", "x", "*"})
	case has("identifier"):
		return kit.Pick(r, []string{"1", "2", "", " ", "9"})
	case has("feature"):
		return kit.Pick(r, []string{"ORDER_ORDERED", "ORDER_UNORDERED", "ORDER_DAG", "", " "})
	case has("txtype", "tx_type"):
		return kit.Pick(r, []string{"sdk_multi_msg", "", "x"})
	case has("path", "key"):
		return kit.Pick(r, []string{"ibc", "upgrade", "upgradedIBCState", "", "a/b", "/"})
	}
	return genText(r, 40)
}

func (f *filler) bigInt() *big.Int {
	r := f.r
	switch r.Intn(6) {
	case 0:
		return big.NewInt(int64(r.Intn(200)) - 50)
	case 1:
		return new(big.Int).Lsh(big.NewInt(1), uint(kit.Pick(r, []int{63, 64, 128, 255, 256})))
	case 2:
		return new(big.Int).Sub(new(big.Int).Lsh(big.NewInt(1), 256), big.NewInt(1))
	case 3:
		return new(big.Int).Neg(new(big.Int).SetUint64(r.Boundary64()))
	default:
		return new(big.Int).SetUint64(r.Boundary64())
	}
}

// fill sets v (settable) to a generated value.
func (f *filler) fill(v reflect.Value, name string, depth int) {
	r := f.r
	t := v.Type()
	switch t {
	case tTime:
		secs := kit.Pick(r, []int64{0, 1, -1, 1_700_000_000, -62135596800, -62135596801, 253402300799, 253402300800, 1 << 40, -(1 << 40), int64(r.U64() >> uint(1+r.Intn(40)))})
		tm := time.Unix(secs, int64(r.Intn(1_000_000_000))).UTC()
		if r.Chance(1, 6) {
			tm = time.Time{}
		}
		v.Set(reflect.ValueOf(tm))
		return
	case tDuration:
		d := kit.Pick(r, []int64{0, 1, -1, int64(time.Second), int64(time.Hour * 24 * 14), int64(time.Hour * 24 * 21), 1<<63 - 1, -(1 << 63), int64(r.Boundary64())})
		v.SetInt(d)
		return
	case tInt:
		if r.Chance(1, 6) {
			v.Set(reflect.ValueOf(sdkmath.Int{})) // nil big.Int inside, as left by an absent field
			return
		}
		b := f.bigInt()
		if b.BitLen() > 256 {
			b = big.NewInt(1)
		}
		v.Set(reflect.ValueOf(sdkmath.NewIntFromBigInt(b)))
		return
	case tDec:
		if r.Chance(1, 6) {
			v.Set(reflect.ValueOf(sdkmath.LegacyDec{}))
			return
		}
		b := f.bigInt()
		if b.BitLen() > 250 {
			b = big.NewInt(1)
		}
		v.Set(reflect.ValueOf(sdkmath.LegacyNewDecFromBigIntWithPrec(b, int64(r.Intn(19)))))
		return
	case tAny:
		if a := f.genAny(name, depth); a != nil {
			v.Set(reflect.ValueOf(*a))
		}
		return
	case tBytes:
		v.SetBytes(f.bytesFor(name))
		return
	}
	switch t.Kind() {
	case reflect.String:
		v.SetString(f.strFor(name))
	case reflect.Bool:
		v.SetBool(r.Bool())
	case reflect.Uint8, reflect.Uint16, reflect.Uint32, reflect.Uint64, reflect.Uint:
		x := r.Boundary64()
		if t.Bits() < 64 {
			x &= 1<<uint(t.Bits()) - 1
		}
		v.SetUint(x)
	case reflect.Int32:
		if t.Name() != "int32" {
			// protobuf enum
			v.SetInt(int64(kit.Pick(r, []int{0, 1, 2, 3, 4, 5, 6, -1, 99, 1<<31 - 1, -(1 << 31)})))
		} else {
			v.SetInt(int64(int32(r.Boundary64())))
		}
	case reflect.Int8, reflect.Int16, reflect.Int64, reflect.Int:
		x := int64(r.Boundary64())
		switch t.Bits() {
		case 8:
			x = int64(int8(x))
		case 16:
			x = int64(int16(x))
		}
		v.SetInt(x)
	case reflect.Float32, reflect.Float64:
		v.SetFloat(kit.Pick(r, []float64{0, 1, -1, 0.5, 1e308, -1e308, 255, 256}))
	case reflect.Ptr:
		if t.Elem() == tAny {
			if a := f.genAny(name, depth); a != nil {
				v.Set(reflect.ValueOf(a))
			} else {
				v.Set(reflect.Zero(t))
			}
			return
		}
		if depth > 7 || r.Chance(1, 7) {
			v.Set(reflect.Zero(t))
			return
		}
		p := reflect.New(t.Elem())
		f.fill(p.Elem(), name, depth+1)
		v.Set(p)
	case reflect.Struct:
		f.fillStruct(v, depth)
	case reflect.Slice:
		if t.Elem().Kind() == reflect.Uint8 {
			v.SetBytes(f.bytesFor(name))
			return
		}
		n := kit.Pick(r, []int{0, 0, 1, 1, 1, 2, 3})
		if depth > 6 {
			n = 0
		}
		if r.Chance(1, 40) {
			n = 17
		}
		s := reflect.MakeSlice(t, n, n)
		for i := 0; i < n; i++ {
			e := s.Index(i)
			if e.Kind() == reflect.Ptr && e.Type().Elem() != tAny {
				// repeated message fields never decode to nil entries
				p := reflect.New(e.Type().Elem())
				f.fill(p.Elem(), name, depth+1)
				e.Set(p)
			} else {
				f.fill(e, name, depth+1)
				if e.Kind() == reflect.Ptr && e.IsNil() {
					e.Set(reflect.New(e.Type().Elem()))
				}
			}
		}
		if n == 0 && r.Bool() {
			v.Set(reflect.Zero(t))
		} else {
			v.Set(s)
		}
	case reflect.Array:
		for i := 0; i < v.Len(); i++ {
			f.fill(v.Index(i), name, depth+1)
		}
	case reflect.Map:
		if t.Key().Kind() == reflect.String && r.Bool() {
			m := reflect.MakeMap(t)
			for i := 0; i < 1+r.Intn(2); i++ {
				e := reflect.New(t.Elem()).Elem()
				f.fill(e, name, depth+1)
				m.SetMapIndex(reflect.ValueOf(genIdent(r, 8)).Convert(t.Key()), e)
			}
			v.Set(m)
		}
	case reflect.Interface:
		// handled by fillStruct (oneof); anything else stays nil
	}
}

func (f *filler) bytesFor(name string) []byte {
	r := f.r
	n := strings.ToLower(name)
	switch {
	case r.Chance(1, 5):
		return nil
	case strings.Contains(n, "hash") || strings.Contains(n, "root") || strings.Contains(n, "commitment"):
		return r.Bytes(kit.Pick(r, []int{32, 32, 32, 0, 20, 31, 33, 64}))
	case strings.Contains(n, "address") || strings.Contains(n, "signer"):
		return r.Bytes(kit.Pick(r, []int{20, 20, 0, 19, 21, 32}))
	case strings.Contains(n, "key"):
		return r.Bytes(kit.Pick(r, []int{32, 33, 0, 31, 65}))
	case n == "data" && r.Chance(1, 3):
		return []byte(kit.Pick(r, []string{`{"denom":"uatom","amount":"1","sender":"a","receiver":"b"}`, `{"type":1,"data":"AA==","memo":""}`, "{}", "null", "[]", `{"denom":`}))
	case strings.Contains(n, "ack"):
		if r.Bool() {
			return []byte(kit.Pick(r, []string{`{"result":"AQ=="}`, `{"error":"x"}`, `{"result":""}`, `{}`, `{"result":"AQ==","error":"x"}`, "null"}))
		}
	}
	return genBytes(r, 300)
}

func (f *filler) fillStruct(v reflect.Value, depth int) {
	t := v.Type()
	var wrappers []reflect.Type
	if v.CanAddr() {
		if m := v.Addr().MethodByName("XXX_OneofWrappers"); m.IsValid() {
			if out := m.Call(nil); len(out) == 1 {
				if lst, ok := out[0].Interface().([]interface{}); ok {
					for _, w := range lst {
						wrappers = append(wrappers, reflect.TypeOf(w))
					}
				}
			}
		}
	}
	for i := 0; i < t.NumField(); i++ {
		sf := t.Field(i)
		if sf.PkgPath != "" || strings.HasPrefix(sf.Name, "XXX_") {
			continue
		}
		fv := v.Field(i)
		if !fv.CanSet() {
			continue
		}
		if fv.Kind() == reflect.Interface {
			var cands []reflect.Type
			for _, w := range wrappers {
				if w.AssignableTo(sf.Type) {
					cands = append(cands, w)
				}
			}
			if len(cands) == 0 || f.r.Chance(1, 5) {
				continue
			}
			w := kit.Pick(f.r, cands)
			p := reflect.New(w.Elem())
			f.fillStruct(p.Elem(), depth+1)
			fv.Set(p)
			continue
		}
		f.fill(fv, sf.Name, depth+1)
	}
}

// genAny: nil, empty, raw (type url + bytes, nothing cached) or a generated message of a plausible type packed with its cached value.
func (f *filler) genAny(name string, depth int) *codectypes.Any {
	r := f.r
	switch r.Intn(10) {
	case 0:
		return nil
	case 1:
		return &codectypes.Any{}
	case 2:
		return &codectypes.Any{TypeUrl: f.strFor("typeurl"), Value: genBytes(r, 60)}
	}
	if depth > 5 {
		return &codectypes.Any{}
	}
	cands := f.anyAll
	n := strings.ToLower(name)
	if r.Chance(9, 10) {
		for hint, ts := range f.anyPool {
			if strings.Contains(n, hint) {
				cands = ts
				break
			}
		}
	}
	if len(cands) == 0 {
		return &codectypes.Any{}
	}
	t := kit.Pick(r, cands)
	p := reflect.New(t)
	f.fillStruct(p.Elem(), depth+1)
	msg, ok := p.Interface().(proto.Message)
	if !ok {
		return &codectypes.Any{}
	}
	return packAny(msg)
}

// packAny packs with real marshalling when possible, otherwise keeps only the cached value.
func packAny(msg proto.Message) *codectypes.Any {
	var a *codectypes.Any
	if pv, _ := guard(func() {
		x, err := codectypes.NewAnyWithValue(msg)
		if err == nil {
			a = x
		}
	}); pv != nil || a == nil {
		if pv2, _ := guard(func() { a = codectypes.UnsafePackAny(msg) }); pv2 != nil || a == nil {
			// the value cannot even be sized/marshalled by its own generated code (e.g. a key type with a nil inner key)
			return &codectypes.Any{TypeUrl: "/" + proto.MessageName(msg)}
		}
		if a.TypeUrl == "" {
			a.TypeUrl = "/" + proto.MessageName(msg)
		}
	}
	return a
}

// ---------------------------------------------------------------------------------------------
// field-level mutation of an existing (valid) message

type leaf struct {
	v    reflect.Value
	name string
}

// leaves collects settable scalar/bytes/string/special leaves and pointer slots of a message (not descending into Any).
func collectLeaves(v reflect.Value, name string, depth int, out *[]leaf, anys *[]leaf) {
	if depth > 8 {
		return
	}
	t := v.Type()
	switch t {
	case tTime, tDuration, tInt, tDec, tBytes:
		*out = append(*out, leaf{v, name})
		return
	case tAny:
		*anys = append(*anys, leaf{v, name})
		return
	}
	switch t.Kind() {
	case reflect.Ptr:
		if t.Elem() == tAny {
			*anys = append(*anys, leaf{v, name})
			return
		}
		*out = append(*out, leaf{v, name}) // the pointer itself may be nilled / re-created
		if !v.IsNil() {
			collectLeaves(v.Elem(), name, depth+1, out, anys)
		}
	case reflect.Struct:
		for i := 0; i < t.NumField(); i++ {
			sf := t.Field(i)
			if sf.PkgPath != "" || strings.HasPrefix(sf.Name, "XXX_") || !v.Field(i).CanSet() {
				continue
			}
			if v.Field(i).Kind() == reflect.Interface {
				if !v.Field(i).IsNil() && v.Field(i).Elem().Kind() == reflect.Ptr {
					collectLeaves(v.Field(i).Elem().Elem(), sf.Name, depth+1, out, anys)
				}
				continue
			}
			collectLeaves(v.Field(i), sf.Name, depth+1, out, anys)
		}
	case reflect.Slice:
		*out = append(*out, leaf{v, name}) // the whole slice may be regenerated / emptied
		if t.Elem().Kind() == reflect.Uint8 {
			return
		}
		for i := 0; i < v.Len() && i < 4; i++ {
			collectLeaves(v.Index(i), name, depth+1, out, anys)
		}
	case reflect.String, reflect.Bool, reflect.Uint8, reflect.Uint16, reflect.Uint32, reflect.Uint64, reflect.Uint,
		reflect.Int8, reflect.Int16, reflect.Int32, reflect.Int64, reflect.Int, reflect.Float32, reflect.Float64:
		*out = append(*out, leaf{v, name})
	}
}

// mutateMsg changes 1–3 fields of msg (possibly inside a packed Any) and returns the names of the fields touched.
func (f *filler) mutateMsg(msg proto.Message, depth int) []string {
	r := f.r
	var ls, anys []leaf
	collectLeaves(reflect.ValueOf(msg).Elem(), "", 0, &ls, &anys)
	var touched []string
	// descend into a packed Any half of the time
	if len(anys) > 0 && depth < 3 && r.Bool() {
		a := kit.Pick(r, anys)
		var ap *codectypes.Any
		if a.v.Kind() == reflect.Ptr {
			if !a.v.IsNil() {
				ap = a.v.Interface().(*codectypes.Any)
			}
		} else {
			x := a.v.Interface().(codectypes.Any)
			ap = &x
		}
		if ap != nil {
			if inner, ok := ap.GetCachedValue().(proto.Message); ok && inner != nil && reflect.ValueOf(inner).Kind() == reflect.Ptr && !reflect.ValueOf(inner).IsNil() {
				cp := f.clone(inner)
				if cp == nil {
					f.fill(a.v, a.name, 2)
					return []string{a.name + "(any)"}
				}
				sub := f.mutateMsg(cp, depth+1)
				np := packAny(cp)
				if a.v.Kind() == reflect.Ptr {
					a.v.Set(reflect.ValueOf(np))
				} else {
					a.v.Set(reflect.ValueOf(*np))
				}
				for _, s := range sub {
					touched = append(touched, a.name+">"+s)
				}
				return touched
			}
		}
		// nothing cached: regenerate the Any
		f.fill(a.v, a.name, 2)
		return []string{a.name + "(any)"}
	}
	if len(ls) == 0 {
		return nil
	}
	n := 1 + r.Intn(3)
	for k := 0; k < n; k++ {
		l := kit.Pick(r, ls)
		if !l.v.CanSet() {
			continue
		}
		func() {
			defer func() { _ = recover() }() // a stale reflect.Value (parent replaced earlier) is simply skipped
			f.fill(l.v, l.name, 3)
			touched = append(touched, l.name)
		}()
	}
	return touched
}

// absentField removes exactly one optional sub-message (pointer / Any / repeated field) of msg, possibly inside a packed Any —
// the wire form of "field not present". Returns the name of the removed field ("" if there is nothing to remove).
func (f *filler) absentField(msg proto.Message, depth int) string {
	r := f.r
	var ls, anys []leaf
	collectLeaves(reflect.ValueOf(msg).Elem(), "", 0, &ls, &anys)
	var ptrs []leaf
	for _, l := range ls {
		if (l.v.Kind() == reflect.Ptr || l.v.Kind() == reflect.Slice) && !l.v.IsNil() && l.v.CanSet() {
			ptrs = append(ptrs, l)
		}
	}
	// descend into a packed Any
	var packed []leaf
	for _, a := range anys {
		if a.v.Kind() == reflect.Ptr && !a.v.IsNil() {
			if inner, ok := a.v.Interface().(*codectypes.Any).GetCachedValue().(proto.Message); ok && inner != nil {
				packed = append(packed, a)
			}
			ptrs = append(ptrs, a)
		}
	}
	if len(packed) > 0 && depth < 3 && r.Chance(2, 3) {
		a := kit.Pick(r, packed)
		inner := a.v.Interface().(*codectypes.Any).GetCachedValue().(proto.Message)
		if cp := f.clone(inner); cp != nil {
			if sub := f.absentField(cp, depth+1); sub != "" {
				a.v.Set(reflect.ValueOf(packAny(cp)))
				return a.name + ">" + sub
			}
		}
	}
	if len(ptrs) == 0 {
		return ""
	}
	l := kit.Pick(r, ptrs)
	l.v.Set(reflect.Zero(l.v.Type()))
	return l.name
}

func typeShort(t reflect.Type) string {
	for t.Kind() == reflect.Ptr {
		t = t.Elem()
	}
	pp := strings.TrimPrefix(t.PkgPath(), "github.com/cosmos/ibc-go/v11/modules/")
	parts := strings.Split(pp, "/")
	if n := len(parts); n >= 2 && (parts[n-1] == "types" || parts[n-1] == "keeper" || parts[n-1] == "v2") {
		pp = strings.Join(parts[n-2:], "/")
		if n >= 3 && parts[n-2] == "types" || n >= 3 && parts[n-2] == "v2" {
			pp = strings.Join(parts[n-3:], "/")
		}
	} else if n >= 1 {
		pp = parts[n-1]
	}
	return pp + "." + t.Name()
}

var _ = fmt.Sprint
