package pure

import (
	"bytes"
	"encoding/hex"
	"fmt"
	"strings"
	"testing"

	sdkmath "cosmossdk.io/math"

	sdk "github.com/cosmos/cosmos-sdk/types"

	transfertypes "github.com/cosmos/ibc-go/v11/modules/apps/transfer/types"
	clienttypes "github.com/cosmos/ibc-go/v11/modules/core/02-client/types"
	host "github.com/cosmos/ibc-go/v11/modules/core/24-host"
	ibctesting "github.com/cosmos/ibc-go/v11/testing"

	"verif/harness/kit"
)

// ---------------------------------------------------------------------------------------------
// reference model (ICS-20 / ADR-001 / ADR-028 texts)

// voucher name of a full path with at least one hop
func modelVoucher(fullPath string) string {
	return "ibc/" + strings.ToUpper(hex.EncodeToString(sha([]byte(fullPath))))
}

// escrow address = first 20 bytes of sha256("ics20-1" ‖ 0x00 ‖ port ‖ "/" ‖ channel)
func modelEscrow(port, channel string) []byte {
	return sha([]byte("ics20-1"), []byte{0}, []byte(port+"/"+channel))[:20]
}

var denomSegPool = []string{
	"transfer", "icahost", "port-1", "pp", "p", "channel-0", "channel-1", "channel-7", "channel-18446744073709551615", "channel-18446744073709551616",
	"channel-01", "channel-", "channel", "07-tendermint-0", "08-wasm-3", "a-1", "x-99999999999999999999", "09-localhost", "uatom", "gamm", "pool", "1", "0",
	"ibc", "27C6B1F0E8C5A4D3B2A1908F7E6D5C4B3A29181706F5E4D3C2B1A09F8E7D6C5B", "erc20:0xdAC17F958D2ee523a2206206994597C13D831ec7", "factory", "osmo1xyz", "u.s_d-c",
	"", "", " ", "a b", "é", "A", "Z9", "channel-3x", "xchannel-3", "connection-0", "10-attestations-12",
}

func genDenomPath(r *kit.Rng) (string, []string) {
	n := 1 + r.Intn(8)
	segs := make([]string, n)
	for i := range segs {
		switch r.Intn(10) {
		case 0:
			segs[i] = genIdent(r, 12)
		case 1:
			segs[i] = fmt.Sprintf("channel-%d", r.Boundary64())
		case 2:
			segs[i] = fmt.Sprintf("%s-%d", kit.Pick(r, []string{"07-tendermint", "08-wasm", "a", "x_y"}), r.Boundary64())
		case 3:
			segs[i] = genFrom(r, "abcuxyz019:._-", 1+r.Intn(8))
		default:
			segs[i] = kit.Pick(r, denomSegPool)
		}
	}
	// bias towards hop-shaped prefixes: (port, channel-N) pairs followed by a base of 0–3 segments
	if r.Chance(1, 2) {
		h := 1 + r.Intn(3)
		segs = segs[:0]
		for i := 0; i < h; i++ {
			segs = append(segs, kit.Pick(r, []string{"transfer", "icahost", "pp", "port-1", genIdent(r, 6)}))
			segs = append(segs, kit.Pick(r, []string{"channel-0", "channel-7", "07-tendermint-0", fmt.Sprintf("channel-%d", r.Boundary64()), "channel-18446744073709551616", "a-1"}))
		}
		nb := r.Intn(4)
		for i := 0; i < nb; i++ {
			segs = append(segs, kit.Pick(r, denomSegPool))
		}
	}
	return strings.Join(segs, "/"), segs
}

func pathShape(segs []string) string {
	var sb strings.Builder
	for i, s := range segs {
		if i >= 8 {
			break
		}
		switch {
		case s == "":
			sb.WriteByte('e')
		case strings.TrimSpace(s) == "":
			sb.WriteByte('w')
		case strings.HasPrefix(s, "channel-") && len(s) > 8 && strings.Trim(s[8:], "0123456789") == "":
			if len(s) > 8+20 || (len(s) == 28 && s[8:] > "18446744073709551615") {
				sb.WriteByte('X') // channel-shaped, sequence overflows
			} else {
				sb.WriteByte('C')
			}
		case strings.Contains(s, "-") && strings.Trim(s[strings.LastIndex(s, "-")+1:], "0123456789") == "" && !strings.HasSuffix(s, "-"):
			sb.WriteByte('L') // clienttype-N shaped
		case host.PortIdentifierValidator(s) == nil:
			sb.WriteByte('p')
		default:
			sb.WriteByte('o')
		}
	}
	return sb.String()
}

func TestC34(t *testing.T) {
	c := kit.NewCheck(t, "C34", "exploration",
		"pure cases = '/'-joined strings of 1–8 segments shaped like ports, channel-N (incl. 2^64-1, 2^64, leading zeros), clienttype-N, plain denoms, hashes, empty/blank segments; strings accepted by ICS-20 packet-data validation are parsed and "+
			"re-serialised, voucher name and hash compared with the model for the parser's split and for every other even split; (port, channel) identifier pairs incl. boundary-shifted twins for escrow addresses; "+
			"chain cases = real MsgTransfer + relay of native denoms of hostile shapes and of 1–3-hop vouchers over two channels, stored denom read back from the transfer store; "+
			"distinct = (segment-shape string, accepted/rejected, hops found) / (pair relation) / (denom shape, hop count)")
	defer c.Finish()
	c.Assume("'ICS-20 accepts' = FungibleTokenPacketData.ValidateBasic accepts the denomination string (the only place where full paths are parsed); strings accepted only as native bank denoms by MsgTransfer are reported as observations")
	c.Floor("path_accepted", 2000)
	c.Floor("path_rejected", 800)
	c.Floor("accepted_with_trace", 800)
	c.Floor("accepted_native_with_slash", 300)
	c.Floor("alt_splits_checked", 1500)
	c.Floor("escrow_pairs", 3000)
	c.Floor("escrow_shift_twins", 800)
	c.Floor("stored_denom_checked", 40)
	c.Floor("stored_multi_hop", 15)

	escrowSeen := map[string]string{}
	n := c.N(8000, 80000)
	for i := 0; i < n; i++ {
		if c.SkipCase(i) {
			continue
		}
		r := c.CaseRng(i)
		// ---------------- path round trip
		s, segs := genDenomPath(r)
		shape := pathShape(segs)
		data := transfertypes.FungibleTokenPacketData{Denom: s, Amount: "1", Sender: "s", Receiver: "r"}
		accepted := data.ValidateBasic() == nil
		d := transfertypes.ExtractDenomFromPath(s)
		if accepted {
			c.Inc("path_accepted")
			back := d.Path()
			if back != s {
				c.Violate("C34|roundtrip|"+shape, fmt.Sprintf("accepted path %q parses to base=%q trace=%v and serialises back to %q", s, d.Base, d.Trace, back), nil)
			}
			if !bytes.Equal(d.Hash(), sha([]byte(s))) {
				c.Violate("C34|hash|"+shape, fmt.Sprintf("Hash() of parsed %q is %X, sha256(path) is %X", s, []byte(d.Hash()), sha([]byte(s))), nil)
			}
			if len(d.Trace) == 0 {
				if strings.Contains(s, "/") {
					c.Inc("accepted_native_with_slash")
				}
				if d.IBCDenom() != s {
					c.Violate("C34|voucher|native|"+shape, fmt.Sprintf("trace-less %q has IBCDenom %q", s, d.IBCDenom()), nil)
				}
			} else {
				c.Inc("accepted_with_trace")
				if got, want := d.IBCDenom(), modelVoucher(s); got != want {
					c.Violate("C34|voucher|formula|"+shape, fmt.Sprintf("voucher of %q is %q, want %q", s, got, want), nil)
				}
			}
			// every other way of splitting the same string into hops+base must give the same path, hash and voucher name
			for k := 1; 2*k < len(segs); k++ {
				base := strings.Join(segs[2*k:], "/")
				if base == "" {
					continue
				}
				var trace []transfertypes.Hop
				for j := 0; j < k; j++ {
					trace = append(trace, transfertypes.NewHop(segs[2*j], segs[2*j+1]))
				}
				alt := transfertypes.NewDenom(base, trace...)
				c.Inc("alt_splits_checked")
				if alt.Path() != s || !bytes.Equal(alt.Hash(), sha([]byte(s))) || alt.IBCDenom() != modelVoucher(s) {
					c.Violate("C34|split-dependence|"+shape, fmt.Sprintf("split of %q into %d hops + %q gives path %q voucher %q", s, k, base, alt.Path(), alt.IBCDenom()), nil)
				}
			}
			c.Eval(fmt.Sprintf("path|acc|%s|hops=%d", shape, len(d.Trace)))
		} else {
			c.Inc("path_rejected")
			// not judged; observation only: would a native bank denom of this shape be sendable although its path does not survive parsing?
			if sdk.ValidateDenom(s) == nil && d.Path() != s {
				c.Inc("obs_bank_denom_not_reparsable")
			}
			c.Eval(fmt.Sprintf("path|rej|%s", shape))
		}
		if i < 4 {
			c.Sample(map[string]any{"case": c.CaseID(i), "path": s, "accepted": accepted, "base": d.Base, "hops": len(d.Trace)})
		}

		// ---------------- escrow addresses
		port := genValidID(r, 2, 128)
		ch := genChannelLike(r)
		if host.PortIdentifierValidator(port) != nil || host.ChannelIdentifierValidator(ch) != nil {
			c.Inc("escrow_gen_invalid")
			continue
		}
		pairs := [][2]string{{port, ch}}
		// boundary-shifted twins: move k characters from the port's end to the channel's front and vice versa
		k := 1 + r.Intn(3)
		if len(port)-k >= 2 && len(ch)+k <= 64 {
			pairs = append(pairs, [2]string{port[:len(port)-k], port[len(port)-k:] + ch})
		}
		if len(ch)-k >= 8 && len(port)+k <= 128 {
			pairs = append(pairs, [2]string{port + ch[:k], ch[k:]})
		}
		pairs = append(pairs, [2]string{ch, port}) // swapped (valid only if lengths allow)
		for pi, p := range pairs {
			if host.PortIdentifierValidator(p[0]) != nil || host.ChannelIdentifierValidator(p[1]) != nil {
				continue
			}
			addr := transfertypes.GetEscrowAddress(p[0], p[1])
			c.Inc("escrow_pairs")
			if pi > 0 {
				c.Inc("escrow_shift_twins")
			}
			if len(addr) != 20 || !bytes.Equal(addr, modelEscrow(p[0], p[1])) {
				c.Violate("C34|escrow|formula", fmt.Sprintf("escrow address of (%q,%q) is %X, model %X", p[0], p[1], []byte(addr), modelEscrow(p[0], p[1])), nil)
			}
			key := p[0] + "\x00" + p[1]
			if prev, ok := escrowSeen[string(addr)]; ok && prev != key {
				c.Violate("C34|escrow|collision", fmt.Sprintf("pairs %q and %q share escrow address %X", prev, key, []byte(addr)), nil)
			}
			escrowSeen[string(addr)] = key
			rel := [...]string{"base", "port->chan", "chan->port", "swapped"}[pi]
			c.Eval(fmt.Sprintf("escrow|%s|%s|%s", rel, lenClass(len(p[0])), lenClass(len(p[1]))))
		}
	}

	// ---------------- stored denoms after real receives
	nw := c.N(1, 2)
	for wi := 0; wi < nw; wi++ {
		caseNo := n + wi
		if c.SkipCase(caseNo) {
			continue
		}
		r := c.CaseRng(caseNo)
		if err := kit.Try(func() { c34World(c, t, r, c.N(250, 500)) }); err != nil {
			c.Inconcl("world aborted: " + err.Error())
		}
	}
}

func genValidID(r *kit.Rng, min, max int) string {
	n := min + genLen(r, max-min)
	return genFrom(r, identAlphabet, n)
}

func genChannelLike(r *kit.Rng) string {
	switch r.Intn(4) {
	case 0:
		return fmt.Sprintf("channel-%d", r.Boundary64())
	case 1:
		return fmt.Sprintf("07-tendermint-%d", r.Intn(1000))
	default:
		return genValidID(r, 8, 64)
	}
}

var nativeDenomPool = []string{
	"uatom", "abc/channel-7", "pp/channel-1/b", "gamm/pool/1", "a/b/c/d", "x/07-tendermint-3/y", "transfer/channel-99/zz", "factory/osmo1xyz/sub:denom",
	"erc20/0xdAC17F958D2ee523a2206206994597C13D831ec7", "aaa/", "a//b", "icahost/channel-0/q/channel-1/z", "transfer/08-wasm-1/w", "channel-0/channel-1/channel-2",
}

func c34World(c *kit.Check, t *testing.T, r *kit.Rng, nops int) {
	w := kit.NewWorld(t, 2)
	A, B := w.Chains[0], w.Chains[1]
	var paths []*ibctesting.Path
	for i := 0; i < 2; i++ {
		p := ibctesting.NewTransferPath(A.TestChain, B.TestChain)
		p.DisableUniqueChannelIDs()
		p.Setup()
		paths = append(paths, p)
	}
	for _, dn := range nativeDenomPool {
		if sdk.ValidateDenom(dn) != nil {
			c.Inc("native_denom_not_bankable")
			continue
		}
		A.Fund(A.Addr(0), dn, 1_000_000)
		B.Fund(B.Addr(0), dn, 1_000_000)
	}
	// ground truth kept by the harness: bank denom -> full path, per chain
	held := map[string]map[string]string{A.Name: {}, B.Name: {}}
	holders := map[string][]string{A.Name: {}, B.Name: {}}
	for op := 0; op < nops; op++ {
		p := kit.Pick(r, paths)
		src, dst := p.EndpointA, p.EndpointB
		if r.Bool() {
			src, dst = dst, src
		}
		sc, dc := w.Of(src.Chain), w.Of(dst.Chain)
		// choose what to send: a native denom or a voucher the sender holds
		bankDenom := kit.Pick(r, nativeDenomPool)
		sentPath := bankDenom
		if hs := holders[sc.Name]; len(hs) > 0 && r.Chance(3, 5) {
			bankDenom = kit.Pick(r, hs)
			sentPath = held[sc.Name][bankDenom]
		}
		if sdk.ValidateDenom(bankDenom) != nil {
			continue
		}
		if sc.Bal(sc.Addr(0), bankDenom).LT(sdkmath.NewInt(10)) {
			continue
		}
		msg := transfertypes.NewMsgTransfer(src.ChannelConfig.PortID, src.ChannelID, sdk.NewCoin(bankDenom, sdkmath.NewInt(10)),
			sc.Addr(0).String(), dc.Addr(0).String(), clienttypes.NewHeight(1, 100000), 0, "")
		o := sc.Deliver(sc.Acct(0), msg)
		c.Inc("transfers_sent")
		if !o.OK() {
			c.Inc("transfer_rejected_at_send")
			continue
		}
		packet, err := ibctesting.ParsePacketFromEvents(o.Res.Events)
		if err != nil {
			c.Inconcl("no packet in send events")
			continue
		}
		// what really went on the wire is part of the observation
		var wire transfertypes.FungibleTokenPacketData
		if err := transfertypes.ModuleCdc.UnmarshalJSON(packet.Data, &wire); err == nil && wire.Denom != sentPath {
			c.Violate("C34|wire-denom", fmt.Sprintf("chain %s holds %q recorded as path %q but put %q on the wire", sc.Name, bankDenom, sentPath, wire.Denom), nil)
		}
		returning := strings.HasPrefix(sentPath, src.ChannelConfig.PortID+"/"+src.ChannelID+"/")
		full := dst.ChannelConfig.PortID + "/" + dst.ChannelID + "/" + sentPath
		want := modelVoucher(full)
		before := dc.Bal(dc.Addr(0), want)
		var ack []byte
		if err := kit.Try(func() {
			_, a, err := p.RelayPacketWithResults(packet)
			if err != nil {
				panic(kit.Abort{Msg: err.Error()})
			}
			ack = a
		}); err != nil {
			c.Inconcl("relay aborted: " + err.Error())
			continue
		}
		success := bytes.Contains(ack, []byte(`"result"`))
		if !success {
			c.Inc("receive_error_ack")
			continue
		}
		if returning {
			c.Inc("receive_returning_token")
			continue
		}
		// the destination must now hold the voucher named by hash(full path) and a denom record under that hash whose path is the full path
		hops := 1 + strings.Count(sentPath, "/")/2
		wit := map[string]any{"sent_path": sentPath, "dest": dst.ChannelConfig.PortID + "/" + dst.ChannelID, "full_path": full, "want_voucher": want}
		after := dc.Bal(dc.Addr(0), want)
		if !after.Sub(before).Equal(sdkmath.NewInt(10)) {
			c.Violate("C34|stored|voucher-not-credited-under-hash", fmt.Sprintf("receive of %q over %s succeeded but balance of %s moved by %s", sentPath, dst.ChannelID, want, after.Sub(before)), wit)
		}
		key := append([]byte{0x03}, sha([]byte(full))...)
		bz := dc.StoreGet("transfer", key)
		c.Inc("stored_denom_checked")
		if bz == nil {
			c.Violate("C34|stored|no-record-under-hash", fmt.Sprintf("no denom record under sha256(%q) after a successful receive", full), wit)
		} else {
			var sd transfertypes.Denom
			if err := sd.Unmarshal(bz); err != nil {
				c.Violate("C34|stored|undecodable", err.Error(), wit)
			} else if sd.Path() != full {
				wit["stored_base"], wit["stored_trace"] = sd.Base, fmt.Sprint(sd.Trace)
				c.Violate("C34|stored|path-differs", fmt.Sprintf("record under sha256(%q) has path %q", full, sd.Path()), wit)
			} else {
				if len(sd.Trace) > 1 {
					c.Inc("stored_multi_hop")
				}
				if !bytes.Equal(sd.Hash(), sha([]byte(full))) {
					c.Violate("C34|stored|hash-differs", "stored denom's own hash differs from its key", wit)
				}
			}
		}
		if _, ok := held[dc.Name][want]; !ok {
			held[dc.Name][want] = full
			holders[dc.Name] = append(holders[dc.Name], want)
		}
		c.Eval(fmt.Sprintf("stored|%s|hops~%d", pathShape(strings.Split(sentPath, "/")), hops))
		if op < 3 {
			c.Sample(wit)
		}
	}
}
