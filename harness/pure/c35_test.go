package pure

import (
	"bytes"
	"encoding/base64"
	"encoding/hex"
	"fmt"
	"math/big"
	"strings"
	"testing"
	"unicode/utf8"

	gmptypes "github.com/cosmos/ibc-go/v11/modules/apps/27-gmp/types"
	transfertypes "github.com/cosmos/ibc-go/v11/modules/apps/transfer/types"
	attestations "github.com/cosmos/ibc-go/v11/modules/light-clients/attestations"

	"verif/harness/kit"
)

// ---------------------------------------------------------------------------------------------
// independent reference encoders

// --- Solidity ABI (contract ABI specification: head/tail encoding)
func abiWordBig(v *big.Int) []byte {
	b := v.Bytes()
	w := make([]byte, 32)
	copy(w[32-len(b):], b)
	return w
}
func abiWord(n uint64) []byte { return abiWordBig(new(big.Int).SetUint64(n)) }

// dynamic bytes/string: length word, data right-padded to a multiple of 32
func abiDyn(b []byte) []byte {
	out := abiWord(uint64(len(b)))
	out = append(out, b...)
	if pad := (32 - len(b)%32) % 32; pad > 0 {
		out = append(out, make([]byte, pad)...)
	}
	return out
}

type abiField struct {
	static []byte // one word, or nil
	dyn    []byte // already-encoded dynamic tail, or nil
}

func abiTuple(fields ...abiField) []byte {
	headLen := 32 * len(fields)
	var head, tail []byte
	for _, f := range fields {
		if f.dyn == nil {
			head = append(head, f.static...)
		} else {
			head = append(head, abiWord(uint64(headLen+len(tail)))...)
			tail = append(tail, f.dyn...)
		}
	}
	return append(head, tail...)
}

func abiStr(s string) abiField { return abiField{dyn: abiDyn([]byte(s))} }
func abiBz(b []byte) abiField  { return abiField{dyn: abiDyn(b)} }

// abi.encode(struct) of a dynamic struct = offset word 0x20 followed by the tuple
func abiTop(tuple []byte) []byte { return append(abiWord(32), tuple...) }

func modelABIICS20(d transfertypes.FungibleTokenPacketData, amount *big.Int) []byte {
	return abiTop(abiTuple(abiStr(d.Denom), abiStr(d.Sender), abiStr(d.Receiver), abiField{static: abiWordBig(amount)}, abiStr(d.Memo)))
}

func modelABIGMP(d gmptypes.GMPPacketData) []byte {
	return abiTop(abiTuple(abiStr(d.Sender), abiStr(d.Receiver), abiBz(d.Salt), abiBz(d.Payload), abiStr(d.Memo)))
}

func modelABIGMPAck(a gmptypes.Acknowledgement) []byte { return abiTop(abiTuple(abiBz(a.Result))) }

func modelABIState(height, seconds uint64) []byte { return append(abiWord(height), abiWord(seconds)...) }

func modelABIPacketAtt(height uint64, packets [][2][]byte) []byte {
	arr := abiWord(uint64(len(packets)))
	for _, p := range packets {
		arr = append(arr, p[0]...)
		arr = append(arr, p[1]...)
	}
	return abiTop(abiTuple(abiField{static: abiWord(height)}, abiField{dyn: arr}))
}

// --- protobuf (proto3, all fields length-delimited)
func pbVarint(n uint64) []byte {
	var out []byte
	for n >= 0x80 {
		out = append(out, byte(n)|0x80)
		n >>= 7
	}
	return append(out, byte(n))
}

func pbField(num int, b []byte) []byte {
	out := pbVarint(uint64(num)<<3 | 2)
	out = append(out, pbVarint(uint64(len(b)))...)
	return append(out, b...)
}

// canonical proto3: ascending field order, empty fields omitted
func modelProto(fields ...[]byte) []byte {
	var out []byte
	for i, f := range fields {
		if len(f) > 0 {
			out = append(out, pbField(i+1, f)...)
		}
	}
	return out
}

// an unknown field with a well-formed payload of the given wire type
func pbUnknown(r *kit.Rng) ([]byte, string) {
	num := kit.Pick(r, []int{6, 7, 8, 15, 16, 100, 2047, 2048, 536870911})
	switch r.Intn(4) {
	case 0:
		return append(pbVarint(uint64(num)<<3|0), pbVarint(r.Boundary64())...), "varint"
	case 1:
		return append(pbVarint(uint64(num)<<3|1), r.Bytes(8)...), "fixed64"
	case 2:
		return pbField(num, genBytes(r, 40)), "bytes"
	default:
		return append(pbVarint(uint64(num)<<3|5), r.Bytes(4)...), "fixed32"
	}
}

// --- JSON (RFC 8259) with the freedoms a foreign encoder may take: key order, whitespace, escapes
// (unknown keys are NOT added: the ICS-20 JSON decoder deliberately rejects them and the statement does not forbid that)
func jsonStr(r *kit.Rng, s string, fancy bool) string {
	var sb strings.Builder
	sb.WriteByte('"')
	for _, c := range s {
		switch {
		case c == '"' || c == '\\':
			sb.WriteByte('\\')
			sb.WriteRune(c)
		case c < 0x20:
			fmt.Fprintf(&sb, "\\u%04x", c)
		case fancy && r.Chance(1, 6):
			if c >= 0x10000 {
				c2 := c - 0x10000
				fmt.Fprintf(&sb, "\\u%04x\\u%04x", 0xd800+(c2>>10), 0xdc00+(c2&0x3ff))
			} else {
				fmt.Fprintf(&sb, "\\u%04X", c)
			}
		case fancy && c == '/' && r.Bool():
			sb.WriteString("\\/")
		default:
			sb.WriteRune(c)
		}
	}
	sb.WriteByte('"')
	return sb.String()
}

func modelJSON(r *kit.Rng, kv [][2]string, rawVals map[string]bool, omitEmpty bool) []byte {
	ws := func() string {
		if r.Chance(1, 3) {
			return kit.Pick(r, []string{" ", "\n", "\t", "  ", "\r\n"})
		}
		return ""
	}
	idx := make([]int, len(kv))
	for i := range idx {
		idx[i] = i
	}
	kit.Shuffle(r, idx)
	var parts []string
	for _, i := range idx {
		k, v := kv[i][0], kv[i][1]
		if v == "" && omitEmpty && r.Bool() {
			continue
		}
		val := v
		if !rawVals[k] {
			val = jsonStr(r, v, true)
		}
		parts = append(parts, ws()+jsonStr(r, k, false)+ws()+":"+ws()+val+ws())
	}
	return []byte(ws() + "{" + strings.Join(parts, ",") + "}" + ws())
}

// ---------------------------------------------------------------------------------------------
// value generators

var utf8Pool = []string{
	"cosmos1qyqszqgpqyqszqgpqyqszqgpqyqszqgpjnp7du", "0x00000000000000000000000000000000DeaDBeef", "osmo1\"quoted\"", "back\\slash", "new\nline", "tab\t", "nul\x00byte",
	"<script>&amp;</script>", "é", "日本語", "😀", "  ", "a b", "{\"k\":1}", "\ufeffbom", "𝔘𝔫𝔦", "\u007f", "/", "\\u0041",
}

func genUTF8(r *kit.Rng, max int, allowEmpty bool) string {
	var s string
	switch r.Intn(6) {
	case 0:
		s = kit.Pick(r, utf8Pool)
	case 1:
		s = kit.Pick(r, utf8Pool) + genIdent(r, 30) + kit.Pick(r, utf8Pool)
	case 2:
		// random runes
		n := genLen(r, 60)
		var sb strings.Builder
		for i := 0; i < n; i++ {
			c := rune(r.Intn(0x11000))
			if c >= 0xd800 && c < 0xe000 {
				c = 'x'
			}
			sb.WriteRune(c)
		}
		s = sb.String()
	case 3:
		s = genFrom(r, alnum, genLen(r, max))
	default:
		s = genIdent(r, 64)
	}
	if len(s) > max {
		s = strings.ToValidUTF8(s[:max], "")
	}
	if !allowEmpty && strings.TrimSpace(s) == "" {
		s = "a" + s
	}
	return s
}

var two256 = new(big.Int).Lsh(big.NewInt(1), 256)

func genAmount(r *kit.Rng) *big.Int {
	one := big.NewInt(1)
	switch r.Intn(8) {
	case 0:
		return big.NewInt(int64(1 + r.Intn(10)))
	case 1:
		e := kit.Pick(r, []uint{63, 64, 127, 128, 255, 256})
		v := new(big.Int).Lsh(one, e)
		v.Add(v, big.NewInt(int64(r.Intn(3)-1)))
		if v.Cmp(two256) >= 0 {
			v = new(big.Int).Sub(two256, big.NewInt(int64(1+r.Intn(2))))
		}
		return v
	case 2:
		return new(big.Int).SetUint64(r.Boundary64() | 1)
	case 3:
		return new(big.Int).Exp(big.NewInt(10), big.NewInt(int64(r.Intn(77))), nil)
	default:
		v := new(big.Int).SetBytes(r.Bytes(1 + r.Intn(32)))
		if v.Sign() == 0 {
			return one
		}
		return v
	}
}

func genMemo(r *kit.Rng) string {
	switch r.Intn(7) {
	case 0, 1:
		return ""
	case 2:
		return `{"forward":{"receiver":"cosmos1xyz","port":"transfer","channel":"channel-5","timeout":"10m","retries":2}}`
	case 3:
		return `{"src_callback":{"address":"cosmos1abc","gas_limit":"200000"},"dest_callback":{"address":"0x1"}}`
	case 4:
		return strings.Repeat(kit.Pick(r, []string{"a", "é", "{", "\\"}), kit.Pick(r, []int{1000, 8192, 32768, 32769}))
	default:
		return genUTF8(r, 300, true)
	}
}

func genICS20(r *kit.Rng) (transfertypes.FungibleTokenPacketData, *big.Int) {
	for {
		s, _ := genDenomPath(r)
		if !utf8.ValidString(s) {
			continue
		}
		amt := genAmount(r)
		txt := amt.String()
		if r.Chance(1, 12) {
			txt = "+" + txt // still a decimal integer (leading zeros are NOT generated: the validation reads "010" as octal 8, see amountTextProbe)
		}
		d := transfertypes.FungibleTokenPacketData{Denom: s, Amount: txt, Sender: genUTF8(r, 200, false), Receiver: genUTF8(r, 2048, false), Memo: genMemo(r)}
		if d.ValidateBasic() != nil {
			continue
		}
		return d, amt
	}
}

var ics20Encodings = []string{transfertypes.EncodingJSON, transfertypes.EncodingProtobuf, transfertypes.EncodingABI}

func encShort(e string) string {
	switch e {
	case transfertypes.EncodingJSON:
		return "json"
	case transfertypes.EncodingProtobuf:
		return "proto"
	case transfertypes.EncodingABI:
		return "abi"
	case "":
		return "default"
	}
	return "other"
}

type c35 struct {
	c *kit.Check
}

func (m *c35) panicked(target, enc string, pv any, stack string, input []byte) {
	m.c.Violate(fmt.Sprintf("C35|panic|%s|%s|%s", target, encShort(enc), innermostIBCFrame(stack)),
		fmt.Sprintf("decoding %d bytes as %s/%s panicked: %v", len(input), target, enc, pv),
		map[string]any{"input_hex": hex.EncodeToString(input), "stack": trimStack(stack)})
}

func sameTransfer(itr transfertypes.InternalTransferRepresentation, d transfertypes.FungibleTokenPacketData, amt *big.Int) string {
	got, ok := new(big.Int).SetString(itr.Token.Amount, 10)
	if !ok {
		got, ok = new(big.Int).SetString(itr.Token.Amount, 0)
	}
	switch {
	case itr.Token.Denom.Path() != d.Denom:
		return fmt.Sprintf("denom %q != %q", itr.Token.Denom.Path(), d.Denom)
	case !ok || got.Cmp(amt) != 0:
		return fmt.Sprintf("amount %q != %s", itr.Token.Amount, amt)
	case itr.Sender != d.Sender:
		return fmt.Sprintf("sender %q != %q", itr.Sender, d.Sender)
	case itr.Receiver != d.Receiver:
		return fmt.Sprintf("receiver %q != %q", itr.Receiver, d.Receiver)
	case itr.Memo != d.Memo:
		return fmt.Sprintf("memo differs (len %d vs %d)", len(itr.Memo), len(d.Memo))
	}
	return ""
}

// decodeICS20 = the real decoder under guard.
func (m *c35) decodeICS20(bz []byte, enc string) (transfertypes.InternalTransferRepresentation, error, bool) {
	var itr transfertypes.InternalTransferRepresentation
	var err error
	pv, stack := guard(func() { itr, err = transfertypes.UnmarshalPacketData(bz, transfertypes.V1, enc) })
	if pv != nil {
		m.panicked("ics20", enc, pv, stack, bz)
		return itr, nil, true
	}
	return itr, err, false
}

func (m *c35) ics20(i int, r *kit.Rng) {
	c := m.c
	d, amt := genICS20(r)
	valid := map[string][]byte{}
	for _, enc := range ics20Encodings {
		e := encShort(enc)
		bz, err := transfertypes.MarshalPacketData(d, transfertypes.V1, enc)
		if err != nil {
			c.Violate("C35|encode-failed|ics20|"+e, fmt.Sprintf("valid packet data cannot be encoded: %v", err), d)
			continue
		}
		valid[enc] = bz
		itr, err, p := m.decodeICS20(bz, enc)
		c.Eval("ics20|rt|" + e + "|memo=" + lenClass(len(d.Memo)) + "|amt=" + lenClass(amt.BitLen()))
		c.Inc("ics20_roundtrip_" + e)
		if p {
			continue
		}
		if err != nil {
			c.Violate("C35|roundtrip|ics20|"+e+"|decode-error", fmt.Sprintf("own encoding of a valid value is rejected: %v", err), map[string]any{"value": d, "hex": hex.EncodeToString(bz)})
		} else if diff := sameTransfer(itr, d, amt); diff != "" {
			c.Violate("C35|roundtrip|ics20|"+e+"|value-differs", diff, map[string]any{"value": d, "hex": hex.EncodeToString(bz)})
		}
		// independent encodings of the same value (foreign encoder) must decode to the same transfer
		var model []byte
		switch enc {
		case transfertypes.EncodingJSON:
			model = modelJSON(r, [][2]string{{"denom", d.Denom}, {"amount", d.Amount}, {"sender", d.Sender}, {"receiver", d.Receiver}, {"memo", d.Memo}}, nil, true)
		case transfertypes.EncodingProtobuf:
			model = modelProto([]byte(d.Denom), []byte(d.Amount), []byte(d.Sender), []byte(d.Receiver), []byte(d.Memo))
			if !bytes.Equal(model, bz) {
				c.Violate("C35|encoding|ics20|proto|not-canonical", "protobuf encoding differs from the canonical proto3 encoding of the schema", map[string]any{"real": hex.EncodeToString(bz), "model": hex.EncodeToString(model)})
			}
			if r.Bool() {
				// non-canonical but legal: fields in another order
				parts := [][]byte{pbField(1, []byte(d.Denom)), pbField(2, []byte(d.Amount)), pbField(3, []byte(d.Sender)), pbField(4, []byte(d.Receiver)), pbField(5, []byte(d.Memo))}
				kit.Shuffle(r, parts)
				model = bytes.Join(parts, nil)
			}
		case transfertypes.EncodingABI:
			model = modelABIICS20(d, amt)
			if !bytes.Equal(model, bz) {
				c.Violate("C35|encoding|ics20|abi|differs-from-spec", "ABI encoding differs from abi.encode of the ICS-20 struct", map[string]any{"real": hex.EncodeToString(bz), "model": hex.EncodeToString(model)})
			}
		}
		itr, err, p = m.decodeICS20(model, enc)
		c.Eval("ics20|model-enc|" + e)
		c.Inc("ics20_model_encoding_" + e)
		if !p {
			if err != nil {
				c.Violate("C35|roundtrip|ics20|"+e+"|foreign-encoding-rejected", fmt.Sprintf("a specification-conformant encoding is rejected: %v", err), map[string]any{"value": d, "input": string(model), "hex": hex.EncodeToString(model)})
			} else if diff := sameTransfer(itr, d, amt); diff != "" {
				c.Violate("C35|roundtrip|ics20|"+e+"|foreign-encoding-differs", diff, map[string]any{"value": d, "hex": hex.EncodeToString(model)})
			}
		}
	}
	// unknown protobuf fields must be rejected
	if pb := valid[transfertypes.EncodingProtobuf]; pb != nil {
		unk, wt := pbUnknown(r)
		var in []byte
		pos := r.Intn(3)
		switch pos {
		case 0:
			in = append(append([]byte(nil), unk...), pb...)
		case 1:
			in = append(append([]byte(nil), pb...), unk...)
		default:
			in = append(append(pbField(1, []byte(d.Denom)), unk...), modelProto(nil, []byte(d.Amount), []byte(d.Sender), []byte(d.Receiver), []byte(d.Memo))...)
		}
		_, err, p := m.decodeICS20(in, transfertypes.EncodingProtobuf)
		c.Eval(fmt.Sprintf("ics20|unknown-field|%s|pos=%d", wt, pos))
		c.Inc("ics20_unknown_field_probes")
		if !p && err == nil {
			c.Violate("C35|unknown-field-accepted|ics20|"+wt, "protobuf packet data with an unknown field was accepted", map[string]any{"hex": hex.EncodeToString(in)})
		}
	}
	// mutated encodings and cross-encoding confusion: never panic; whatever decodes must itself round-trip
	for _, enc := range ics20Encodings {
		base := valid[enc]
		if base == nil {
			continue
		}
		for k := 0; k < 3; k++ {
			in, kinds := mutateBytes(r, base)
			decAs := enc
			if r.Chance(1, 8) {
				decAs = kit.Pick(r, []string{transfertypes.EncodingJSON, transfertypes.EncodingProtobuf, transfertypes.EncodingABI, "", "application/unknown"})
			}
			itr, err, p := m.decodeICS20(in, decAs)
			c.Inc("ics20_mutants_" + encShort(decAs))
			outcome := "rejected"
			if p {
				outcome = "panic"
			} else if err == nil {
				outcome = "accepted"
				c.Inc("ics20_mutants_accepted")
				m.reRoundTrip(itr, decAs)
			} else {
				c.Inc("ics20_mutants_rejected")
			}
			c.Eval("ics20|mut|" + encShort(enc) + ">" + encShort(decAs) + "|" + kinds + "|" + outcome)
		}
	}
	junk := genBytes(r, 700)
	if r.Intn(4) == 0 {
		// bare JSON documents instead of random bytes
		junk = []byte(kit.Pick(r, []string{"null", " null ", "\n\tnull\n", "true", "0", `""`, "[]", "[null]", "{}", `{"denom":null}`}))
		c.Inc("ics20_bare_json_documents")
	}
	for _, enc := range ics20Encodings {
		_, err, p := m.decodeICS20(junk, enc)
		c.Inc("ics20_random_bytes")
		c.Eval(fmt.Sprintf("ics20|random|%s|%s|err=%v", encShort(enc), lenClass(len(junk)), err != nil || p))
	}
	// the raw ABI decoder is public as well
	pv, stack := guard(func() { _, _ = transfertypes.DecodeABIFungibleTokenPacketData(junk) })
	if pv != nil {
		m.panicked("ics20-abi-raw", transfertypes.EncodingABI, pv, stack, junk)
	}
	if i < 2 {
		c.Sample(map[string]any{"case": c.CaseID(i), "ics20": d, "abi_len": len(valid[transfertypes.EncodingABI]), "json": string(valid[transfertypes.EncodingJSON])})
	}
}

// reRoundTrip: a value produced by the decoder is valid, so encode→decode must reproduce it (same encoding).
func (m *c35) reRoundTrip(itr transfertypes.InternalTransferRepresentation, enc string) {
	if enc == "" {
		enc = transfertypes.EncodingJSON
	}
	amt, ok := new(big.Int).SetString(itr.Token.Amount, 10)
	if !ok {
		// the validation reads amounts with Go's base-0 integer syntax ("0x1f", "0b101", "1_000"): still an integer, but not a decimal one.
		// Observation only (the statement speaks of the amount "as an integer"); such values are compared through the same base-0 reading.
		if amt, ok = new(big.Int).SetString(itr.Token.Amount, 0); !ok {
			m.c.Violate("C35|decoded-amount-not-integer|"+encShort(enc), fmt.Sprintf("decoder accepted amount %q", itr.Token.Amount), nil)
			return
		}
		m.c.Inc("obs_nondecimal_amount_accepted")
		if enc == transfertypes.EncodingABI {
			m.c.Violate("C35|abi-decoded-amount-not-decimal", fmt.Sprintf("ABI decoder produced amount text %q", itr.Token.Amount), nil)
		}
	}
	d := transfertypes.FungibleTokenPacketData{Denom: itr.Token.Denom.Path(), Amount: itr.Token.Amount, Sender: itr.Sender, Receiver: itr.Receiver, Memo: itr.Memo}
	if enc == transfertypes.EncodingJSON && !(utf8.ValidString(d.Denom) && utf8.ValidString(d.Sender) && utf8.ValidString(d.Receiver) && utf8.ValidString(d.Memo)) {
		return // not representable in JSON
	}
	bz, err := transfertypes.MarshalPacketData(d, transfertypes.V1, enc)
	if err != nil {
		m.c.Inc("reencode_failed")
		return
	}
	itr2, err, p := m.decodeICS20(bz, enc)
	m.c.Inc("ics20_reroundtrip")
	if p {
		return
	}
	if err != nil {
		m.c.Violate("C35|roundtrip|ics20|"+encShort(enc)+"|decoded-value-not-reencodable", fmt.Sprintf("value accepted by the decoder is rejected after re-encoding: %v", err), d)
	} else if diff := sameTransfer(itr2, d, amt); diff != "" {
		m.c.Violate("C35|roundtrip|ics20|"+encShort(enc)+"|decoded-value-differs", diff, d)
	}
}

// ---------------------------------------------------------------------------------------------
// GMP

func sameGMP(a, b *gmptypes.GMPPacketData) bool {
	return a.Sender == b.Sender && a.Receiver == b.Receiver && bytes.Equal(a.Salt, b.Salt) && bytes.Equal(a.Payload, b.Payload) && a.Memo == b.Memo
}

func (m *c35) decodeGMP(bz []byte, enc string) (*gmptypes.GMPPacketData, error, bool) {
	var d *gmptypes.GMPPacketData
	var err error
	pv, stack := guard(func() { d, err = gmptypes.UnmarshalPacketData(bz, gmptypes.Version, enc) })
	if pv != nil {
		m.panicked("gmp-packet", enc, pv, stack, bz)
		return nil, nil, true
	}
	return d, err, false
}

func (m *c35) decodeGMPAck(bz []byte, enc string) (*gmptypes.Acknowledgement, error, bool) {
	var d *gmptypes.Acknowledgement
	var err error
	pv, stack := guard(func() { d, err = gmptypes.UnmarshalAcknowledgement(bz, gmptypes.Version, enc) })
	if pv != nil {
		m.panicked("gmp-ack", enc, pv, stack, bz)
		return nil, nil, true
	}
	return d, err, false
}

func (m *c35) gmp(i int, r *kit.Rng) {
	c := m.c
	d := gmptypes.GMPPacketData{Sender: genUTF8(r, 2048, false), Receiver: genUTF8(r, 2048, true), Salt: genBytes(r, 32), Payload: genBytes(r, 3000), Memo: genMemo(r)}
	if r.Chance(1, 20) {
		d.Payload = r.Bytes(32768)
	}
	ack := gmptypes.Acknowledgement{Result: genBytes(r, 600)}
	for _, enc := range ics20Encodings {
		e := encShort(enc)
		bz, err := gmptypes.MarshalPacketData(&d, gmptypes.Version, enc)
		if err != nil {
			c.Violate("C35|encode-failed|gmp|"+e, err.Error(), d)
			continue
		}
		got, err, p := m.decodeGMP(bz, enc)
		c.Eval("gmp|rt|" + e + "|salt=" + lenClass(len(d.Salt)) + "|pl=" + lenClass(len(d.Payload)) + "|rcv=" + lenClass(len(d.Receiver)))
		c.Inc("gmp_roundtrip_" + e)
		if !p {
			if err != nil {
				c.Violate("C35|roundtrip|gmp|"+e+"|decode-error", fmt.Sprintf("own encoding of a valid GMP packet is rejected: %v", err), map[string]any{"hex": hex.EncodeToString(bz)})
			} else if !sameGMP(got, &d) {
				c.Violate("C35|roundtrip|gmp|"+e+"|value-differs", fmt.Sprintf("decoded %+v", got), map[string]any{"hex": hex.EncodeToString(bz)})
			}
		}
		// specification-side encodings
		switch enc {
		case gmptypes.EncodingProtobuf:
			if model := modelProto([]byte(d.Sender), []byte(d.Receiver), d.Salt, d.Payload, []byte(d.Memo)); !bytes.Equal(model, bz) {
				c.Violate("C35|encoding|gmp|proto|not-canonical", "protobuf encoding differs from canonical proto3", map[string]any{"real": hex.EncodeToString(bz), "model": hex.EncodeToString(model)})
			}
			unk, wt := pbUnknown(r)
			_, err, p := m.decodeGMP(append(append([]byte(nil), bz...), unk...), enc)
			c.Inc("gmp_unknown_field_probes")
			if !p && err == nil {
				c.Violate("C35|unknown-field-accepted|gmp|"+wt, "GMP protobuf packet data with an unknown field was accepted (it cannot round-trip)", nil)
			}
		case gmptypes.EncodingABI:
			if model := modelABIGMP(d); !bytes.Equal(model, bz) {
				c.Violate("C35|encoding|gmp|abi|differs-from-spec", "ABI encoding differs from abi.encode of the GMP struct", map[string]any{"real": hex.EncodeToString(bz), "model": hex.EncodeToString(model)})
			}
		}
		for k := 0; k < 2; k++ {
			in, kinds := mutateBytes(r, bz)
			got, err, p := m.decodeGMP(in, enc)
			c.Inc("gmp_mutants")
			outcome := "rejected"
			if p {
				outcome = "panic"
			} else if err == nil {
				outcome = "accepted"
				c.Inc("gmp_mutants_accepted")
				// an accepted value must round-trip
				if bz2, err := gmptypes.MarshalPacketData(got, gmptypes.Version, enc); err == nil {
					if got2, err, p := m.decodeGMP(bz2, enc); !p && (err != nil || !sameGMP(got, got2)) {
						c.Violate("C35|roundtrip|gmp|"+e+"|decoded-value-differs", fmt.Sprintf("value accepted from mutated bytes does not round-trip: %v", err), map[string]any{"hex": hex.EncodeToString(in)})
					}
				}
			}
			c.Eval("gmp|mut|" + e + "|" + kinds + "|" + outcome)
		}

		// acknowledgement
		abz, err := gmptypes.MarshalAcknowledgement(&ack, gmptypes.Version, enc)
		if err != nil {
			c.Violate("C35|encode-failed|gmp-ack|"+e, err.Error(), nil)
			continue
		}
		ga, err, p := m.decodeGMPAck(abz, enc)
		c.Eval("gmpack|rt|" + e + "|" + lenClass(len(ack.Result)))
		c.Inc("gmpack_roundtrip_" + e)
		if !p {
			if err != nil {
				c.Violate("C35|roundtrip|gmp-ack|"+e+"|decode-error", err.Error(), map[string]any{"hex": hex.EncodeToString(abz)})
			} else if !bytes.Equal(ga.Result, ack.Result) {
				c.Violate("C35|roundtrip|gmp-ack|"+e+"|value-differs", fmt.Sprintf("%x != %x", ga.Result, ack.Result), nil)
			}
		}
		switch enc {
		case gmptypes.EncodingABI:
			if model := modelABIGMPAck(ack); !bytes.Equal(model, abz) {
				c.Violate("C35|encoding|gmp-ack|abi|differs-from-spec", "ABI ack encoding differs from abi.encode", map[string]any{"real": hex.EncodeToString(abz), "model": hex.EncodeToString(model)})
			}
		case gmptypes.EncodingProtobuf:
			if model := modelProto(ack.Result); !bytes.Equal(model, abz) {
				c.Violate("C35|encoding|gmp-ack|proto|not-canonical", "protobuf ack encoding differs from canonical proto3", nil)
			}
		case gmptypes.EncodingJSON:
			want := "{}"
			if len(ack.Result) > 0 {
				want = `{"result":"` + base64.StdEncoding.EncodeToString(ack.Result) + `"}`
			}
			if string(abz) != want {
				c.Violate("C35|encoding|gmp-ack|json", fmt.Sprintf("JSON ack %s, want %s", abz, want), nil)
			}
		}
		in, kinds := mutateBytes(r, abz)
		_, err, p = m.decodeGMPAck(in, enc)
		c.Inc("gmpack_mutants")
		c.Eval(fmt.Sprintf("gmpack|mut|%s|%s|err=%v", e, kinds, err != nil || p))
	}
	junk := genBytes(r, 500)
	for _, enc := range append(ics20Encodings, "", "x") {
		m.decodeGMP(junk, enc)
		m.decodeGMPAck(junk, enc)
		c.Inc("gmp_random_bytes")
	}
	for _, f := range []func(){
		func() { _, _ = gmptypes.DecodeABIGMPPacketData(junk) },
		func() { _, _ = gmptypes.DecodeABIAcknowledgement(junk) },
	} {
		if pv, stack := guard(f); pv != nil {
			m.panicked("gmp-abi-raw", gmptypes.EncodingABI, pv, stack, junk)
		}
	}
	c.Eval("gmp|random|" + lenClass(len(junk)))
}

// ---------------------------------------------------------------------------------------------
// attestation ABI data

func (m *c35) attest(i int, r *kit.Rng) {
	c := m.c
	// state attestation: the encoding carries whole seconds
	secs := r.Boundary64() % (1<<64/1_000_000_000 + 1)
	if secs > (1<<64-1)/1_000_000_000 {
		secs = (1<<64 - 1) / 1_000_000_000
	}
	sa := attestations.StateAttestation{Height: r.Boundary64(), Timestamp: secs * 1_000_000_000}
	var sbz []byte
	var err error
	if pv, stack := guard(func() { sbz, err = sa.ABIEncode() }); pv != nil {
		m.panicked("attest-state-encode", "abi", pv, stack, nil)
		return
	}
	if err != nil {
		c.Violate("C35|encode-failed|attest-state", err.Error(), sa)
	} else {
		if !bytes.Equal(sbz, modelABIState(sa.Height, secs)) {
			c.Violate("C35|encoding|attest-state|differs-from-spec", fmt.Sprintf("%x vs model %x", sbz, modelABIState(sa.Height, secs)), sa)
		}
		var back *attestations.StateAttestation
		pv, stack := guard(func() { back, err = attestations.ABIDecodeStateAttestation(sbz) })
		c.Eval(fmt.Sprintf("attest|state|rt|h=%s|t=%s", lenClass(bitlen(sa.Height)), lenClass(bitlen(secs))))
		c.Inc("attest_state_roundtrip")
		if pv != nil {
			m.panicked("attest-state", "abi", pv, stack, sbz)
		} else if err != nil || back.Height != sa.Height || back.Timestamp != sa.Timestamp {
			c.Violate("C35|roundtrip|attest-state", fmt.Sprintf("decoded %+v err=%v, want %+v", back, err, sa), map[string]any{"hex": hex.EncodeToString(sbz)})
		}
		for k := 0; k < 2; k++ {
			in, kinds := mutateBytes(r, sbz)
			pv, stack := guard(func() { _, err = attestations.ABIDecodeStateAttestation(in) })
			c.Inc("attest_mutants")
			if pv != nil {
				m.panicked("attest-state", "abi", pv, stack, in)
			}
			c.Eval(fmt.Sprintf("attest|state|mut|%s|err=%v", kinds, err != nil))
		}
	}
	// packet attestation
	np := r.Intn(6)
	if r.Chance(1, 10) {
		np = 20 + r.Intn(40)
	}
	pa := attestations.PacketAttestation{Height: r.Boundary64()}
	var pairs [][2][]byte
	for j := 0; j < np; j++ {
		p, cm := r.Bytes(32), r.Bytes(32)
		if r.Chance(1, 6) {
			cm = make([]byte, 32) // zero commitment (non-membership marker)
		}
		pa.Packets = append(pa.Packets, attestations.PacketCompact{Path: p, Commitment: cm})
		pairs = append(pairs, [2][]byte{p, cm})
	}
	var pbz []byte
	if pv, stack := guard(func() { pbz, err = pa.ABIEncode() }); pv != nil {
		m.panicked("attest-packet-encode", "abi", pv, stack, nil)
		return
	}
	if err != nil {
		c.Violate("C35|encode-failed|attest-packet", err.Error(), nil)
		return
	}
	if !bytes.Equal(pbz, modelABIPacketAtt(pa.Height, pairs)) {
		c.Violate("C35|encoding|attest-packet|differs-from-spec", "packet attestation encoding differs from abi.encode(PacketAttestation)", map[string]any{"real": hex.EncodeToString(pbz), "model": hex.EncodeToString(modelABIPacketAtt(pa.Height, pairs))})
	}
	var back *attestations.PacketAttestation
	pv, stack := guard(func() { back, err = attestations.ABIDecodePacketAttestation(pbz) })
	c.Eval(fmt.Sprintf("attest|packet|rt|n=%d", np))
	c.Inc("attest_packet_roundtrip")
	if pv != nil {
		m.panicked("attest-packet", "abi", pv, stack, pbz)
	} else if err != nil {
		c.Violate("C35|roundtrip|attest-packet|decode-error", err.Error(), map[string]any{"hex": hex.EncodeToString(pbz)})
	} else {
		ok := back.Height == pa.Height && len(back.Packets) == len(pa.Packets)
		for j := 0; ok && j < len(pa.Packets); j++ {
			ok = bytes.Equal(back.Packets[j].Path, pa.Packets[j].Path) && bytes.Equal(back.Packets[j].Commitment, pa.Packets[j].Commitment)
		}
		if !ok {
			c.Violate("C35|roundtrip|attest-packet|value-differs", fmt.Sprintf("decoded height %d packets %d, want %d/%d (or an entry differs)", back.Height, len(back.Packets), pa.Height, len(pa.Packets)), map[string]any{"hex": hex.EncodeToString(pbz)})
		}
	}
	for k := 0; k < 3; k++ {
		in, kinds := mutateBytes(r, pbz)
		pv, stack := guard(func() { _, err = attestations.ABIDecodePacketAttestation(in) })
		c.Inc("attest_mutants")
		if pv != nil {
			m.panicked("attest-packet", "abi", pv, stack, in)
		}
		c.Eval(fmt.Sprintf("attest|packet|mut|%s|err=%v", kinds, err != nil))
	}
	junk := genBytes(r, 400)
	if pv, stack := guard(func() {
		_, _ = attestations.ABIDecodePacketAttestation(junk)
		_, _ = attestations.ABIDecodeStateAttestation(junk)
	}); pv != nil {
		m.panicked("attest-random", "abi", pv, stack, junk)
	}
	c.Inc("attest_random_bytes")
}

func bitlen(u uint64) int { return new(big.Int).SetUint64(u).BitLen() }

func TestC35(t *testing.T) {
	c := kit.NewCheck(t, "C35", "exploration",
		"cases = generated valid ICS-20 packet data (accepted denomination paths, amounts at 2^63/2^64/2^128/2^255/2^256-1 and with leading zeros/plus sign, UTF-8 sender/receiver incl. quotes, controls, astral runes, memos up to 32 kB), "+
			"GMP packet data / acknowledgements (salt 0–32, payload up to 32 kB) and attestation state/packet data (0–60 entries); each value goes through the real JSON / protobuf / Solidity-ABI codec and through independent specification-side encoders "+
			"(shuffled keys/fields, escapes, whitespace); unknown protobuf fields of every wire type and position; 1–3 byte-level mutations of every valid encoding (bit flips, length-word overwrites, truncation, duplication), cross-encoding confusion and random bytes; "+
			"distinct = (codec, encoding, value shape / mutation kinds, outcome)")
	defer c.Finish()
	c.Assume("a value is 'representable' in JSON only when its strings are valid UTF-8; attestation timestamps are representable only as whole seconds; paths/commitments as exactly 32 bytes")
	for _, e := range []string{"json", "proto", "abi"} {
		c.Floor("ics20_roundtrip_"+e, 800)
		c.Floor("ics20_model_encoding_"+e, 800)
		c.Floor("gmp_roundtrip_"+e, 800)
		c.Floor("gmpack_roundtrip_"+e, 800)
		c.Floor("ics20_mutants_"+e, 1500)
	}
	c.Floor("ics20_unknown_field_probes", 800)
	c.Floor("ics20_mutants_accepted", 300)
	c.Floor("ics20_mutants_rejected", 3000)
	c.Floor("gmp_mutants", 4000)
	c.Floor("attest_state_roundtrip", 800)
	c.Floor("attest_packet_roundtrip", 800)
	c.Floor("attest_mutants", 4000)

	m := &c35{c: c}
	amountTextProbe(c)
	n := c.N(2500, 20000)
	for i := 0; i < n; i++ {
		if c.SkipCase(i) {
			continue
		}
		r := c.CaseRng(i)
		m.ics20(i, r.Sub("ics20"))
		m.gmp(i, r.Sub("gmp"))
		m.attest(i, r.Sub("attest"))
	}
}

// amountTextProbe records (as a note, not a verdict) how non-canonical amount texts are read: the packet-data validation uses Go's base-0
// integer syntax while the ABI encoder reads base 10, so the "integer" of such a text is ambiguous and these texts are kept out of the judged values.
func amountTextProbe(c *kit.Check) {
	var lines []string
	for _, txt := range []string{"10", "+10", "010", "0x10", "0b11", "0o17", "1_0", "09", " 5", "5 ", "1e3"} {
		d := transfertypes.FungibleTokenPacketData{Denom: "uatom", Amount: txt, Sender: "s", Receiver: "r"}
		ok := d.ValidateBasic() == nil
		line := fmt.Sprintf("amount %q: ValidateBasic ok=%v", txt, ok)
		if ok {
			if itr, err := transfertypes.PacketDataV1ToV2(d); err == nil {
				if coin, err := itr.Token.ToCoin(); err == nil {
					line += " credited-as=" + coin.Amount.String()
				}
			}
			bz, err := transfertypes.MarshalPacketData(d, transfertypes.V1, transfertypes.EncodingABI)
			if err != nil {
				line += " abi-encode=error"
			} else if itr, err := transfertypes.UnmarshalPacketData(bz, transfertypes.V1, transfertypes.EncodingABI); err == nil {
				line += " abi-roundtrip=" + itr.Token.Amount
				if coin, err := itr.Token.ToCoin(); err == nil {
					if orig, err2 := transfertypes.PacketDataV1ToV2(d); err2 == nil {
						if oc, err3 := orig.Token.ToCoin(); err3 == nil && !oc.Amount.Equal(coin.Amount) {
							c.Inc("obs_amount_text_reads_differently_after_abi")
							// genuine: the value is valid for the implementation, which credits oc.Amount for it, yet its ABI encoding decodes to another integer
							c.Violate("C35|roundtrip|ics20|abi|amount-text-leading-zero-read-as-octal",
								fmt.Sprintf("packet data with amount text %q passes ValidateBasic and is credited as %s (base-0 parsing), but its Solidity-ABI encoding (base-10 parsing) decodes to amount %s", txt, oc.Amount, coin.Amount),
								map[string]any{"value": d, "abi_hex": hex.EncodeToString(bz), "credited_before": oc.Amount.String(), "credited_after_abi_roundtrip": coin.Amount.String()})
						}
					}
				}
			}
			c.Inc("obs_noncanonical_amount_probe_accepted")
		}
		lines = append(lines, line)
	}
	c.Note("non-canonical amount texts (observation, not judged): " + strings.Join(lines, "; "))
}
