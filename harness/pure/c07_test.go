package pure

import (
	"bytes"
	"encoding/hex"
	"fmt"
	"testing"

	clienttypes "github.com/cosmos/ibc-go/v11/modules/core/02-client/types"
	channeltypes "github.com/cosmos/ibc-go/v11/modules/core/04-channel/types"
	channeltypesv2 "github.com/cosmos/ibc-go/v11/modules/core/04-channel/v2/types"

	"verif/harness/kit"
)

// ---------------------------------------------------------------------------------------------
// reference formulas, written from the ICS-04 v1 / v2 texts and the property statement

// v1 packet: sha256(be64(timeoutTimestamp) ‖ be64(revisionNumber) ‖ be64(revisionHeight) ‖ sha256(data))
func modelCommitV1(p channeltypes.Packet) []byte {
	return sha(be64(p.TimeoutTimestamp), be64(p.TimeoutHeight.RevisionNumber), be64(p.TimeoutHeight.RevisionHeight), sha(p.Data))
}

// v1 ack: sha256(ack)
func modelAckV1(ack []byte) []byte { return sha(ack) }

// v2 packet: sha256(0x02 ‖ sha256(destClient) ‖ sha256(be64(timeout)) ‖ sha256(H(payload_0) ‖ … ‖ H(payload_n-1)))
// H(payload) = sha256(sha256(srcPort) ‖ sha256(dstPort) ‖ sha256(version) ‖ sha256(encoding) ‖ sha256(value))
func modelCommitV2(p channeltypesv2.Packet) []byte {
	var app []byte
	for _, pl := range p.Payloads {
		app = append(app, sha(sha([]byte(pl.SourcePort)), sha([]byte(pl.DestinationPort)), sha([]byte(pl.Version)), sha([]byte(pl.Encoding)), sha(pl.Value))...)
	}
	return sha([]byte{2}, sha([]byte(p.DestinationClient)), sha(be64(p.TimeoutTimestamp)), sha(app))
}

// v2 ack: sha256(0x02 ‖ sha256(ack_0) ‖ … )
func modelAckV2(a channeltypesv2.Acknowledgement) []byte {
	buf := []byte{2}
	for _, x := range a.AppAcknowledgements {
		buf = append(buf, sha(x)...)
	}
	return sha(buf)
}

// canonical injective encodings of exactly the committed fields (length-prefixed), used to decide whether two
// generated packets "differ in a committed field".
func lp(b []byte) []byte { return append(be64(uint64(len(b))), b...) }

func canonV1(p channeltypes.Packet) string {
	return "v1p" + string(bytes.Join([][]byte{be64(p.TimeoutTimestamp), be64(p.TimeoutHeight.RevisionNumber), be64(p.TimeoutHeight.RevisionHeight), lp(p.Data)}, nil))
}

func canonV2(p channeltypesv2.Packet) string {
	out := [][]byte{[]byte("v2p"), lp([]byte(p.DestinationClient)), be64(p.TimeoutTimestamp), be64(uint64(len(p.Payloads)))}
	for _, pl := range p.Payloads {
		out = append(out, lp([]byte(pl.SourcePort)), lp([]byte(pl.DestinationPort)), lp([]byte(pl.Version)), lp([]byte(pl.Encoding)), lp(pl.Value))
	}
	return string(bytes.Join(out, nil))
}

func canonAckV2(a channeltypesv2.Acknowledgement) string {
	out := [][]byte{[]byte("v2a"), be64(uint64(len(a.AppAcknowledgements)))}
	for _, x := range a.AppAcknowledgements {
		out = append(out, lp(x))
	}
	return string(bytes.Join(out, nil))
}

// ---------------------------------------------------------------------------------------------
// generators

func genV1Packet(r *kit.Rng) channeltypes.Packet {
	return channeltypes.Packet{
		Sequence: r.Boundary64(), SourcePort: genIdent(r, 40), SourceChannel: genIdent(r, 20),
		DestinationPort: genIdent(r, 40), DestinationChannel: genIdent(r, 20),
		Data:             genBytes(r, 4096),
		TimeoutHeight:    clienttypes.Height{RevisionNumber: r.Boundary64(), RevisionHeight: r.Boundary64()},
		TimeoutTimestamp: r.Boundary64(),
	}
}

func genPayload(r *kit.Rng) channeltypesv2.Payload {
	return channeltypesv2.Payload{
		SourcePort: genText(r, 70), DestinationPort: genText(r, 70), Version: genText(r, 40), Encoding: genText(r, 40),
		Value: genBytes(r, 2048),
	}
}

func genV2Packet(r *kit.Rng) channeltypesv2.Packet {
	n := 1 + r.Intn(16)
	switch r.Intn(12) {
	case 0:
		n = 0
	case 1:
		n = 16
	case 2:
		n = 1
	}
	p := channeltypesv2.Packet{Sequence: r.Boundary64(), SourceClient: genIdent(r, 30), DestinationClient: genText(r, 70), TimeoutTimestamp: r.Boundary64()}
	for i := 0; i < n; i++ {
		p.Payloads = append(p.Payloads, genPayload(r))
	}
	return p
}

func clonePkt2(p channeltypesv2.Packet) channeltypesv2.Packet {
	q := p
	q.Payloads = make([]channeltypesv2.Payload, len(p.Payloads))
	for i, pl := range p.Payloads {
		q.Payloads[i] = pl
		q.Payloads[i].Value = append([]byte(nil), pl.Value...)
	}
	return q
}

type c07 struct {
	c    *kit.Check
	seen map[string]string // commitment -> canonical committed fields
}

// record checks the global "no two different committed-field tuples share a commitment" monitor.
func (m *c07) record(kind string, commitment []byte, canon string, witness any) {
	k := kind + string(commitment)
	digest := string(sha([]byte(canon))) // the map keeps a digest of the committed fields, not the fields themselves
	if prev, ok := m.seen[k]; ok {
		if prev != digest {
			m.c.Violate("C07|collision|"+kind, "two generated "+kind+" values with different committed fields share a commitment",
				map[string]any{"commitment": hex.EncodeToString(commitment), "b_committed_fields": hex.EncodeToString([]byte(canon)), "b_value": witness})
		}
		return
	}
	if len(m.seen) < 1500000 {
		m.seen[k] = digest
	}
}

func (m *c07) checkV1(p channeltypes.Packet, class string) []byte {
	real := channeltypes.CommitPacket(p)
	want := modelCommitV1(p)
	m.c.Eval("v1|" + class + "|d=" + lenClass(len(p.Data)))
	m.c.Inc("v1_formula_checked")
	if !bytes.Equal(real, want) {
		m.c.Violate("C07|formula|v1-packet|"+class, fmt.Sprintf("v1 CommitPacket %x differs from the specification formula %x", real, want), p)
	}
	if len(real) != 32 {
		m.c.Violate("C07|length|v1-packet", "commitment is not 32 bytes", p)
	}
	m.record("v1p", real, canonV1(p), p)
	return real
}

func (m *c07) checkV2(p channeltypesv2.Packet, class string) []byte {
	real := channeltypesv2.CommitPacket(p)
	want := modelCommitV2(p)
	m.c.Eval(fmt.Sprintf("v2|%s|np=%d", class, len(p.Payloads)))
	m.c.Inc("v2_formula_checked")
	if !bytes.Equal(real, want) {
		m.c.Violate("C07|formula|v2-packet|"+class, fmt.Sprintf("v2 CommitPacket %x differs from the specification formula %x", real, want), p)
	}
	m.record("v2p", real, canonV2(p), p)
	return real
}

func (m *c07) checkAckV2(a channeltypesv2.Acknowledgement, class string) []byte {
	real := channeltypesv2.CommitAcknowledgement(a)
	want := modelAckV2(a)
	m.c.Eval(fmt.Sprintf("v2ack|%s|n=%d", class, len(a.AppAcknowledgements)))
	m.c.Inc("v2ack_formula_checked")
	if !bytes.Equal(real, want) {
		m.c.Violate("C07|formula|v2-ack|"+class, fmt.Sprintf("v2 CommitAcknowledgement %x differs from the specification formula %x", real, want), a)
	}
	m.record("v2a", real, canonAckV2(a), a)
	return real
}

// pair asserts that two values with different committed fields have different commitments (and equal ones equal).
func (m *c07) pair(kind, variant string, ca, cb []byte, canonA, canonB string, wa, wb any) {
	m.c.Eval(kind + "|pair|" + variant)
	if canonA == canonB {
		m.c.Inc("pairs_same_fields")
		if !bytes.Equal(ca, cb) {
			m.c.Violate("C07|nondeterministic|"+kind+"|"+variant, "same committed fields, different commitments (a non-committed field or representation leaked into the commitment)", map[string]any{"a": wa, "b": wb})
		}
		return
	}
	m.c.Inc("pairs_different_fields")
	m.c.Inc("pair_" + variant)
	if bytes.Equal(ca, cb) {
		m.c.Violate("C07|collision|"+kind+"|"+variant, "packets differing in a committed field / field boundary share a commitment", map[string]any{"a": wa, "b": wb})
	}
}

// shift moves k bytes from the end of a to the front of b.
func shiftStr(a, b string, k int) (string, string) {
	if k > len(a) {
		k = len(a)
	}
	return a[:len(a)-k], a[len(a)-k:] + b
}

func TestC07(t *testing.T) {
	c := kit.NewCheck(t, "C07", "exploration",
		"cases = PRNG-generated v1 and v2 packets / acknowledgements (empty, 1-byte, hash-block-boundary and multi-kB fields, 0–16 payloads, boundary-biased 64-bit timeouts); "+
			"each base value is compared with the specification formula and then paired with variants: one committed field changed, one non-committed field changed, bytes moved between neighbouring fields, "+
			"payload split/merge/swap/drop/duplicate, timeout words swapped/rotated, ack list re-split; distinct = (protocol, variant kind, payload count / length class)")
	defer c.Finish()
	c.Assume("SHA-256 is collision resistant; injectivity is sampled on structured near-miss pairs, the formula equality is the effective detector of layout changes")
	c.Floor("v1_formula_checked", 3000)
	c.Floor("v2_formula_checked", 5000)
	c.Floor("v2ack_formula_checked", 1500)
	c.Floor("pairs_different_fields", 5000)
	c.Floor("pairs_same_fields", 600)
	c.Floor("pair_shift-neighbour", 300)
	c.Floor("pair_payload-split", 100)
	c.Floor("pair_payload-merge", 100)

	m := &c07{c: c, seen: map[string]string{}}
	n := c.N(900, 12000)
	for i := 0; i < n; i++ {
		if c.SkipCase(i) {
			continue
		}
		r := c.CaseRng(i)
		c.Inc("cases")

		// ---------------- v1 packet
		p := genV1Packet(r)
		cp := m.checkV1(p, "base")
		if i < 2 {
			c.Sample(map[string]any{"case": c.CaseID(i), "v1": fmt.Sprintf("ts=%d h=%s datalen=%d", p.TimeoutTimestamp, p.TimeoutHeight, len(p.Data)), "commit": hex.EncodeToString(cp)})
		}
		v1vars := []struct {
			name string
			f    func(q *channeltypes.Packet)
		}{
			{"ts+1", func(q *channeltypes.Packet) { q.TimeoutTimestamp++ }},
			{"rn+1", func(q *channeltypes.Packet) { q.TimeoutHeight.RevisionNumber++ }},
			{"rh+1", func(q *channeltypes.Packet) { q.TimeoutHeight.RevisionHeight++ }},
			{"ts<->rn", func(q *channeltypes.Packet) {
				q.TimeoutTimestamp, q.TimeoutHeight.RevisionNumber = q.TimeoutHeight.RevisionNumber, q.TimeoutTimestamp
			}},
			{"rn<->rh", func(q *channeltypes.Packet) {
				q.TimeoutHeight.RevisionNumber, q.TimeoutHeight.RevisionHeight = q.TimeoutHeight.RevisionHeight, q.TimeoutHeight.RevisionNumber
			}},
			{"rot24", func(q *channeltypes.Packet) {
				// rotate the 24 timeout bytes by one byte: every word changes, the multiset of bytes does not
				w := append(append(be64(q.TimeoutTimestamp), be64(q.TimeoutHeight.RevisionNumber)...), be64(q.TimeoutHeight.RevisionHeight)...)
				w = append(w[1:], w[0])
				q.TimeoutTimestamp, q.TimeoutHeight.RevisionNumber, q.TimeoutHeight.RevisionHeight = beU(w[0:8]), beU(w[8:16]), beU(w[16:24])
			}},
			{"rh->data", func(q *channeltypes.Packet) {
				// move the low byte of the revision height into the data
				q.Data = append([]byte{byte(q.TimeoutHeight.RevisionHeight)}, q.Data...)
				q.TimeoutHeight.RevisionHeight >>= 8
			}},
			{"data-flip", func(q *channeltypes.Packet) {
				q.Data = append([]byte(nil), q.Data...)
				if len(q.Data) == 0 {
					q.Data = []byte{0}
				} else {
					q.Data[r.Intn(len(q.Data))] ^= 1 << uint(r.Intn(8))
				}
			}},
			{"data-trunc", func(q *channeltypes.Packet) {
				if len(q.Data) > 0 {
					q.Data = q.Data[:len(q.Data)-1]
				} else {
					q.Data = []byte{0}
				}
			}},
			{"data=hash(data)", func(q *channeltypes.Packet) { q.Data = sha(q.Data) }},
			{"data+0", func(q *channeltypes.Packet) { q.Data = append(append([]byte(nil), q.Data...), 0) }},
			// fields the specification does not commit to (they are part of the key path)
			{"noncommitted:seq", func(q *channeltypes.Packet) { q.Sequence++ }},
			{"noncommitted:ports", func(q *channeltypes.Packet) {
				q.SourcePort, q.DestinationPort = q.DestinationPort+"x", q.SourcePort
			}},
			{"noncommitted:chans", func(q *channeltypes.Packet) {
				q.SourceChannel, q.DestinationChannel = q.DestinationChannel+"x", q.SourceChannel
			}},
			{"nil-vs-empty-data", func(q *channeltypes.Packet) {
				if len(q.Data) == 0 {
					if q.Data == nil {
						q.Data = []byte{}
					} else {
						q.Data = nil
					}
				}
			}},
		}
		for _, v := range v1vars {
			q := p
			v.f(&q)
			cq := m.checkV1(q, v.name)
			m.pair("v1", v.name, cp, cq, canonV1(p), canonV1(q), p, q)
		}
		// v1 ack
		ack := genBytes(r, 1024)
		ra := channeltypes.CommitAcknowledgement(ack)
		c.Eval("v1ack|" + lenClass(len(ack)))
		c.Inc("v1ack_formula_checked")
		if !bytes.Equal(ra, modelAckV1(ack)) {
			c.Violate("C07|formula|v1-ack", fmt.Sprintf("v1 CommitAcknowledgement %x differs from sha256(ack)", ra), hex.EncodeToString(ack))
		}
		ack2 := append(append([]byte(nil), ack...), 0)
		m.pair("v1ack", "ack+0", ra, channeltypes.CommitAcknowledgement(ack2), "a"+string(ack), "a"+string(ack2), ack, ack2)

		// ---------------- v2 packet
		p2 := genV2Packet(r)
		c2 := m.checkV2(p2, "base")
		if i < 2 {
			c.Sample(map[string]any{"case": c.CaseID(i), "v2": fmt.Sprintf("dest=%q timeout=%d payloads=%d", p2.DestinationClient, p2.TimeoutTimestamp, len(p2.Payloads)), "commit": hex.EncodeToString(c2)})
		}
		type v2var struct {
			name string
			f    func(q *channeltypesv2.Packet) bool
		}
		np := len(p2.Payloads)
		pi := 0
		if np > 0 {
			pi = r.Intn(np)
		}
		fieldSel := r.Intn(4) // which neighbouring pair inside a payload is shifted
		k := 1 + r.Intn(3)
		vars := []v2var{
			{"dest+x", func(q *channeltypesv2.Packet) bool { q.DestinationClient += "x"; return true }},
			{"dest-trunc", func(q *channeltypesv2.Packet) bool {
				if q.DestinationClient == "" {
					return false
				}
				q.DestinationClient = q.DestinationClient[:len(q.DestinationClient)-1]
				return true
			}},
			{"timeout+1", func(q *channeltypesv2.Packet) bool { q.TimeoutTimestamp++; return true }},
			{"timeout-byteswap", func(q *channeltypesv2.Packet) bool {
				w := be64(q.TimeoutTimestamp)
				for a, b := 0, 7; a < b; a, b = a+1, b-1 {
					w[a], w[b] = w[b], w[a]
				}
				q.TimeoutTimestamp = beU(w)
				return true
			}},
			{"dest<->timeout-bytes", func(q *channeltypesv2.Packet) bool {
				// move the timeout's low byte to the end of the destination client
				q.DestinationClient += string([]byte{byte(q.TimeoutTimestamp)})
				q.TimeoutTimestamp >>= 8
				return true
			}},
			{"noncommitted:seq", func(q *channeltypesv2.Packet) bool { q.Sequence++; return true }},
			{"noncommitted:srcclient", func(q *channeltypesv2.Packet) bool { q.SourceClient += "y"; return true }},
			{"field-change", func(q *channeltypesv2.Packet) bool {
				if np == 0 {
					return false
				}
				pl := &q.Payloads[pi]
				switch r.Intn(5) {
				case 0:
					pl.SourcePort += "z"
				case 1:
					pl.DestinationPort += "z"
				case 2:
					pl.Version += "z"
				case 3:
					pl.Encoding += "z"
				default:
					pl.Value = append(pl.Value, 'z')
				}
				return true
			}},
			{"field-empty", func(q *channeltypesv2.Packet) bool {
				if np == 0 {
					return false
				}
				pl := &q.Payloads[pi]
				switch r.Intn(5) {
				case 0:
					pl.SourcePort = ""
				case 1:
					pl.DestinationPort = ""
				case 2:
					pl.Version = ""
				case 3:
					pl.Encoding = ""
				default:
					pl.Value = nil
				}
				return true
			}},
			{"shift-neighbour", func(q *channeltypesv2.Packet) bool {
				if np == 0 {
					return false
				}
				pl := &q.Payloads[pi]
				switch fieldSel {
				case 0:
					pl.SourcePort, pl.DestinationPort = shiftStr(pl.SourcePort, pl.DestinationPort, k)
				case 1:
					pl.DestinationPort, pl.Version = shiftStr(pl.DestinationPort, pl.Version, k)
				case 2:
					pl.Version, pl.Encoding = shiftStr(pl.Version, pl.Encoding, k)
				default:
					a, b := shiftStr(pl.Encoding, string(pl.Value), k)
					pl.Encoding, pl.Value = a, []byte(b)
				}
				return true
			}},
			{"shift-across-payloads", func(q *channeltypesv2.Packet) bool {
				if np < 2 {
					return false
				}
				j := pi
				if j == np-1 {
					j--
				}
				a, b := shiftStr(string(q.Payloads[j].Value), q.Payloads[j+1].SourcePort, k)
				q.Payloads[j].Value, q.Payloads[j+1].SourcePort = []byte(a), b
				return true
			}},
			{"swap-fields", func(q *channeltypesv2.Packet) bool {
				if np == 0 {
					return false
				}
				pl := &q.Payloads[pi]
				switch r.Intn(3) {
				case 0:
					pl.SourcePort, pl.DestinationPort = pl.DestinationPort, pl.SourcePort
				case 1:
					pl.Version, pl.Encoding = pl.Encoding, pl.Version
				default:
					pl.DestinationPort, pl.Version = pl.Version, pl.DestinationPort
				}
				return true
			}},
			{"payload-swap", func(q *channeltypesv2.Packet) bool {
				if np < 2 {
					return false
				}
				j := (pi + 1 + r.Intn(np-1)) % np
				q.Payloads[pi], q.Payloads[j] = q.Payloads[j], q.Payloads[pi]
				return true
			}},
			{"payload-drop", func(q *channeltypesv2.Packet) bool {
				if np == 0 {
					return false
				}
				q.Payloads = append(q.Payloads[:pi:pi], q.Payloads[pi+1:]...)
				return true
			}},
			{"payload-dup", func(q *channeltypesv2.Packet) bool {
				if np == 0 {
					return false
				}
				q.Payloads = append(q.Payloads, q.Payloads[pi])
				return true
			}},
			{"payload-add-empty", func(q *channeltypesv2.Packet) bool {
				q.Payloads = append(q.Payloads, channeltypesv2.Payload{})
				return true
			}},
			{"payload-split", func(q *channeltypesv2.Packet) bool {
				// one payload becomes two whose fields concatenate to the original's
				if np == 0 {
					return false
				}
				o := q.Payloads[pi]
				cut := func(s string) (string, string) { x := r.Intn(len(s) + 1); return s[:x], s[x:] }
				s1, s2 := cut(o.SourcePort)
				d1, d2 := cut(o.DestinationPort)
				v1, v2 := cut(o.Version)
				e1, e2 := cut(o.Encoding)
				b1, b2 := cut(string(o.Value))
				a := channeltypesv2.Payload{SourcePort: s1, DestinationPort: d1, Version: v1, Encoding: e1, Value: []byte(b1)}
				b := channeltypesv2.Payload{SourcePort: s2, DestinationPort: d2, Version: v2, Encoding: e2, Value: []byte(b2)}
				rest := append([]channeltypesv2.Payload{a, b}, q.Payloads[pi+1:]...)
				q.Payloads = append(q.Payloads[:pi:pi], rest...)
				return true
			}},
			{"payload-merge", func(q *channeltypesv2.Packet) bool {
				if np < 2 {
					return false
				}
				j := pi
				if j == np-1 {
					j--
				}
				a, b := q.Payloads[j], q.Payloads[j+1]
				mg := channeltypesv2.Payload{SourcePort: a.SourcePort + b.SourcePort, DestinationPort: a.DestinationPort + b.DestinationPort,
					Version: a.Version + b.Version, Encoding: a.Encoding + b.Encoding, Value: append(append([]byte(nil), a.Value...), b.Value...)}
				rest := append([]channeltypesv2.Payload{mg}, q.Payloads[j+2:]...)
				q.Payloads = append(q.Payloads[:j:j], rest...)
				return true
			}},
			{"payload-flatten", func(q *channeltypesv2.Packet) bool {
				// the payload's value is replaced by the concatenation of the field hashes (a "pre-hashed" malleation)
				if np == 0 {
					return false
				}
				pl := &q.Payloads[pi]
				pl.Value = sha(pl.Value)
				return true
			}},
			{"nil-vs-empty-value", func(q *channeltypesv2.Packet) bool {
				if np == 0 || len(q.Payloads[pi].Value) != 0 {
					return false
				}
				if q.Payloads[pi].Value == nil {
					q.Payloads[pi].Value = []byte{}
				} else {
					q.Payloads[pi].Value = nil
				}
				return true
			}},
		}
		for _, v := range vars {
			q := clonePkt2(p2)
			if !v.f(&q) {
				continue
			}
			cq := m.checkV2(q, v.name)
			m.pair("v2", v.name, c2, cq, canonV2(p2), canonV2(q), p2, q)
		}

		// ---------------- v2 acknowledgement
		na := 1 + r.Intn(16)
		if r.Chance(1, 10) {
			na = 0
		}
		var a2 channeltypesv2.Acknowledgement
		for j := 0; j < na; j++ {
			a2.AppAcknowledgements = append(a2.AppAcknowledgements, genBytes(r, 300))
		}
		ca := m.checkAckV2(a2, "base")
		cloneAck := func() channeltypesv2.Acknowledgement {
			var b channeltypesv2.Acknowledgement
			for _, x := range a2.AppAcknowledgements {
				b.AppAcknowledgements = append(b.AppAcknowledgements, append([]byte(nil), x...))
			}
			return b
		}
		ai := 0
		if na > 0 {
			ai = r.Intn(na)
		}
		ackVars := []struct {
			name string
			f    func(b *channeltypesv2.Acknowledgement) bool
		}{
			{"ack-swap", func(b *channeltypesv2.Acknowledgement) bool {
				if na < 2 {
					return false
				}
				j := (ai + 1 + r.Intn(na-1)) % na
				b.AppAcknowledgements[ai], b.AppAcknowledgements[j] = b.AppAcknowledgements[j], b.AppAcknowledgements[ai]
				return true
			}},
			{"ack-reverse", func(b *channeltypesv2.Acknowledgement) bool {
				if na < 2 {
					return false
				}
				for x, y := 0, na-1; x < y; x, y = x+1, y-1 {
					b.AppAcknowledgements[x], b.AppAcknowledgements[y] = b.AppAcknowledgements[y], b.AppAcknowledgements[x]
				}
				return true
			}},
			{"ack-shift", func(b *channeltypesv2.Acknowledgement) bool {
				if na < 2 {
					return false
				}
				j := ai
				if j == na-1 {
					j--
				}
				x, y := shiftStr(string(b.AppAcknowledgements[j]), string(b.AppAcknowledgements[j+1]), k)
				b.AppAcknowledgements[j], b.AppAcknowledgements[j+1] = []byte(x), []byte(y)
				return true
			}},
			{"ack-split", func(b *channeltypesv2.Acknowledgement) bool {
				if na == 0 {
					return false
				}
				o := b.AppAcknowledgements[ai]
				x := r.Intn(len(o) + 1)
				rest := append([][]byte{o[:x:x], o[x:]}, b.AppAcknowledgements[ai+1:]...)
				b.AppAcknowledgements = append(b.AppAcknowledgements[:ai:ai], rest...)
				return true
			}},
			{"ack-merge", func(b *channeltypesv2.Acknowledgement) bool {
				if na < 2 {
					return false
				}
				j := ai
				if j == na-1 {
					j--
				}
				mg := append(append([]byte(nil), b.AppAcknowledgements[j]...), b.AppAcknowledgements[j+1]...)
				rest := append([][]byte{mg}, b.AppAcknowledgements[j+2:]...)
				b.AppAcknowledgements = append(b.AppAcknowledgements[:j:j], rest...)
				return true
			}},
			{"ack-drop", func(b *channeltypesv2.Acknowledgement) bool {
				if na == 0 {
					return false
				}
				b.AppAcknowledgements = append(b.AppAcknowledgements[:ai:ai], b.AppAcknowledgements[ai+1:]...)
				return true
			}},
			{"ack-add-empty", func(b *channeltypesv2.Acknowledgement) bool {
				b.AppAcknowledgements = append(b.AppAcknowledgements, []byte{})
				return true
			}},
			{"ack-prehash", func(b *channeltypesv2.Acknowledgement) bool {
				if na == 0 {
					return false
				}
				b.AppAcknowledgements[ai] = sha(b.AppAcknowledgements[ai])
				return true
			}},
			{"ack-flip", func(b *channeltypesv2.Acknowledgement) bool {
				if na == 0 || len(b.AppAcknowledgements[ai]) == 0 {
					return false
				}
				b.AppAcknowledgements[ai][r.Intn(len(b.AppAcknowledgements[ai]))] ^= 1 << uint(r.Intn(8))
				return true
			}},
		}
		for _, v := range ackVars {
			b := cloneAck()
			if !v.f(&b) {
				continue
			}
			cb := m.checkAckV2(b, v.name)
			m.pair("v2ack", v.name, ca, cb, canonAckV2(a2), canonAckV2(b), a2, b)
		}
		// cross-kind separation: a v2 ack commitment and a v2 packet commitment of "the same bytes" must not coincide
		if np > 0 && na > 0 {
			m.c.Eval("cross|v2ack-vs-v2packet")
			if bytes.Equal(ca, c2) {
				c.Violate("C07|collision|cross-kind", "v2 packet and v2 acknowledgement commitments coincide", map[string]any{"packet": p2, "ack": a2})
			}
		}
	}
}

func beU(b []byte) uint64 {
	var u uint64
	for _, x := range b[:8] {
		u = u<<8 | uint64(x)
	}
	return u
}
