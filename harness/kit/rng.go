// Package kit holds the shared machinery of the runtime-monitoring harness:
// PRNG, verdict/evidence bookkeeping, the chain world with its observation taps
// and the hostile relayer message builders.
package kit

import (
	"hash/fnv"
)

// Rng is a splitmix64 generator; every random choice of a check derives from
// VERIF_SEED through labelled sub-streams, never from wall-clock time.
type Rng struct{ s uint64 }

func NewRng(seed uint64, labels ...string) *Rng {
	h := fnv.New64a()
	for _, l := range labels {
		h.Write([]byte(l))
		h.Write([]byte{0})
	}
	r := &Rng{s: seed*0x9E3779B97F4A7C15 ^ h.Sum64()}
	r.U64()
	return r
}

func (r *Rng) U64() uint64 {
	r.s += 0x9E3779B97F4A7C15
	z := r.s
	z = (z ^ (z >> 30)) * 0xBF58476D1CE4E5B9
	z = (z ^ (z >> 27)) * 0x94D049BB133111EB
	return z ^ (z >> 31)
}

// Sub derives an independent stream.
func (r *Rng) Sub(label string) *Rng { return NewRng(r.U64(), label) }

func (r *Rng) Intn(n int) int {
	if n <= 0 {
		return 0
	}
	return int(r.U64() % uint64(n))
}

func (r *Rng) Bool() bool { return r.U64()&1 == 1 }

// Chance returns true with probability num/den.
func (r *Rng) Chance(num, den int) bool { return r.Intn(den) < num }

func (r *Rng) Bytes(n int) []byte {
	b := make([]byte, n)
	for i := range b {
		b[i] = byte(r.U64())
	}
	return b
}

// Boundary64 returns a 64-bit value biased towards the interesting boundaries.
func (r *Rng) Boundary64() uint64 {
	specials := []uint64{
		0, 1, 2, 3, 9, 10, 47, 0x2f2f, 255, 256, 1<<31 - 1, 1 << 31, 1<<32 - 1, 1 << 32, 1<<32 + 1,
		1<<53 - 1, 1 << 53, 1<<53 + 1, 1<<63 - 1, 1 << 63, 1<<63 + 1, 1<<64 - 2, 1<<64 - 1,
		1_000_000_000, 999_999_999, 1_000_000_001,
	}
	switch r.Intn(4) {
	case 0:
		return specials[r.Intn(len(specials))]
	case 1:
		return specials[r.Intn(len(specials))] + uint64(r.Intn(5)) - 2
	case 2:
		return r.U64() >> uint(r.Intn(64))
	default:
		return r.U64()
	}
}

func Pick[T any](r *Rng, xs []T) T { return xs[r.Intn(len(xs))] }

func Shuffle[T any](r *Rng, xs []T) {
	for i := len(xs) - 1; i > 0; i-- {
		j := r.Intn(i + 1)
		xs[i], xs[j] = xs[j], xs[i]
	}
}
