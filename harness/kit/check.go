package kit

import (
	"encoding/json"
	"fmt"
	"os"
	"path/filepath"
	"sort"
	"strconv"
	"strings"
	"testing"
	"time"
)

// Violation is one refutation of a property, with the witness needed to replay it.
type Violation struct {
	Property  string `json:"property"`
	Signature string `json:"signature"` // canonical class of the failing input/history, matched against known_findings.jsonl
	What      string `json:"what"`
	Case      string `json:"case"`
	Witness   any    `json:"witness,omitempty"`
}

// Check accumulates what one run of one property's monitors observed. It is written as a
// "partial" JSON (one per shard); /verif/merge.py folds the shards into evidence/<id>.json,
// applies the observation floors and the known-findings file and decides the exit code.
type Check struct {
	T        *testing.T
	Prop     string
	Tier     string
	Seed     uint64
	Shard    int
	Shards   int
	OnlyCase string
	Level    string
	Rule     string

	start        time.Time
	Evaluations  int64
	distinct     map[string]struct{}
	Samples      []any
	Observed     map[string]int64
	Floors       map[string]int64
	Violations   []Violation
	Inconclusive []string
	Assumptions  []string
	Notes        []string
	Exhaustive   bool
	curCase      string
	maxSamples   int
}

func envU64(name string, def uint64) uint64 {
	if v := os.Getenv(name); v != "" {
		if n, err := strconv.ParseUint(v, 10, 64); err == nil {
			return n
		}
	}
	return def
}

// NewCheck reads VERIF_SEED / VERIF_TIER / VERIF_SHARD (i/n) / VERIF_ONLY_CASE.
func NewCheck(t *testing.T, prop, level, rule string) *Check {
	c := &Check{
		T: t, Prop: prop, Level: level, Rule: rule,
		Tier: "quick", Seed: envU64("VERIF_SEED", 1), Shards: 1,
		start: time.Now(), distinct: map[string]struct{}{}, Observed: map[string]int64{}, Floors: map[string]int64{},
		maxSamples: 6,
	}
	if v := os.Getenv("VERIF_TIER"); v == "thorough" {
		c.Tier = "thorough"
	}
	if v := os.Getenv("VERIF_SHARD"); v != "" {
		var i, n int
		if _, err := fmt.Sscanf(v, "%d/%d", &i, &n); err == nil && n > 0 {
			c.Shard, c.Shards = i, n
		}
	}
	c.OnlyCase = os.Getenv("VERIF_ONLY_CASE")
	return c
}

func (c *Check) Thorough() bool { return c.Tier == "thorough" }

// N picks the case count for the tier; thorough counts are per shard.
func (c *Check) N(quick, thoroughPerShard int) int {
	if c.Thorough() {
		return thoroughPerShard
	}
	return quick
}

// CaseRng is the stream of case number i: a function of (seed, property, shard, i) only.
func (c *Check) CaseRng(i int) *Rng {
	return NewRng(c.Seed, c.Prop, "shard", strconv.Itoa(c.Shard), "case", strconv.Itoa(i))
}

// CaseID names case i of this shard; SkipCase implements replay of a single case.
func (c *Check) CaseID(i int) string { return fmt.Sprintf("s%d-c%d", c.Shard, i) }
func (c *Check) SkipCase(i int) bool {
	c.curCase = c.CaseID(i)
	return c.OnlyCase != "" && c.OnlyCase != c.curCase
}
func (c *Check) SetCase(id string) { c.curCase = id }

// Eval counts one evaluation; class is the abstract (shape/outcome) class used for distinct_nontrivial.
// An empty class marks the evaluation as trivial.
func (c *Check) Eval(class string) {
	c.Evaluations++
	if class != "" {
		if len(c.distinct) < 200000 {
			c.distinct[class] = struct{}{}
		}
	}
}

func (c *Check) Obs(name string, n int64) { c.Observed[name] += n }
func (c *Check) Inc(name string)          { c.Observed[name]++ }

// Floor: the merged run must have observed at least min events of this kind or it is a BROKEN-CHECK.
func (c *Check) Floor(name string, min int64) { c.Floors[name] = min }

func (c *Check) Sample(s any) {
	if len(c.Samples) < c.maxSamples {
		c.Samples = append(c.Samples, s)
	}
}

func (c *Check) Violate(signature, what string, witness any) {
	if len(c.Violations) >= 50 {
		c.Observed["violations_dropped"]++
		return
	}
	c.Violations = append(c.Violations, Violation{Property: c.Prop, Signature: signature, What: what, Case: c.curCase, Witness: witness})
	c.T.Logf("violation[%s] %s: %s", c.Prop, signature, what)
}

// Assert is a convenience wrapper.
func (c *Check) Assert(ok bool, signature, format string, args ...any) bool {
	if !ok {
		c.Violate(signature, fmt.Sprintf(format, args...), nil)
	}
	return ok
}

func (c *Check) Inconcl(why string) {
	c.Inconclusive = append(c.Inconclusive, c.curCase+": "+why)
	if len(c.Inconclusive) > 50 {
		c.Inconclusive = c.Inconclusive[:50]
	}
	c.Observed["inconclusive_cases"]++
}

func (c *Check) Assume(s string) { c.Assumptions = append(c.Assumptions, s) }
func (c *Check) Note(s string)   { c.Notes = append(c.Notes, s) }

type partial struct {
	Property     string           `json:"property_id"`
	Tier         string           `json:"tier"`
	Seed         uint64           `json:"seed"`
	Shard        int              `json:"shard"`
	Shards       int              `json:"shards"`
	Level        string           `json:"level"`
	Rule         string           `json:"rule"`
	Evaluations  int64            `json:"evaluations"`
	Distinct     []string         `json:"distinct"`
	Samples      []any            `json:"samples"`
	Observed     map[string]int64 `json:"observed"`
	Floors       map[string]int64 `json:"floors"`
	Violations   []Violation      `json:"violations"`
	Inconclusive []string         `json:"inconclusive"`
	Assumptions  []string         `json:"assumptions"`
	Notes        []string         `json:"notes"`
	Exhaustive   bool             `json:"exhaustive"`
	WallS        float64          `json:"wall_s"`
	Completed    bool             `json:"completed"`
}

// Finish writes the partial result for this shard to $VERIF_OUT (default /verif/out).
func (c *Check) Finish() {
	out := os.Getenv("VERIF_OUT")
	if out == "" {
		out = "/verif/out"
	}
	_ = os.MkdirAll(out, 0o755)
	d := make([]string, 0, len(c.distinct))
	for k := range c.distinct {
		d = append(d, shortHash(k))
	}
	sort.Strings(d)
	p := partial{
		Property: c.Prop, Tier: c.Tier, Seed: c.Seed, Shard: c.Shard, Shards: c.Shards, Level: c.Level, Rule: c.Rule,
		Evaluations: c.Evaluations, Distinct: d, Samples: c.Samples, Observed: c.Observed, Floors: c.Floors,
		Violations: c.Violations, Inconclusive: c.Inconclusive, Assumptions: c.Assumptions, Notes: c.Notes,
		Exhaustive: c.Exhaustive, WallS: time.Since(c.start).Seconds(), Completed: true,
	}
	bz, err := json.MarshalIndent(sanitize(p), "", " ")
	if err != nil {
		c.T.Fatalf("marshal partial: %v", err)
	}
	name := filepath.Join(out, fmt.Sprintf("%s.shard%d.json", c.Prop, c.Shard))
	if err := os.WriteFile(name, bz, 0o644); err != nil {
		c.T.Fatalf("write partial: %v", err)
	}
	keys := make([]string, 0, len(c.Observed))
	for k := range c.Observed {
		keys = append(keys, k)
	}
	sort.Strings(keys)
	var sb strings.Builder
	for _, k := range keys {
		fmt.Fprintf(&sb, " %s=%d", k, c.Observed[k])
	}
	c.T.Logf("%s %s seed=%d shard=%d/%d: evals=%d distinct=%d violations=%d inconclusive=%d observed:%s",
		c.Prop, c.Tier, c.Seed, c.Shard, c.Shards, c.Evaluations, len(d), len(c.Violations), len(c.Inconclusive), sb.String())
}

func sanitize(p partial) partial {
	if p.Samples == nil {
		p.Samples = []any{}
	}
	if p.Violations == nil {
		p.Violations = []Violation{}
	}
	return p
}

func shortHash(s string) string {
	// FNV-1a 64 rendered in hex: distinct classes only need to be told apart
	var h uint64 = 14695981039346656037
	for i := 0; i < len(s); i++ {
		h ^= uint64(s[i])
		h *= 1099511628211
	}
	return strconv.FormatUint(h, 16)
}
