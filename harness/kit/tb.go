package kit

import (
	"fmt"
	"testing"
)

// Abort is the panic value raised when a helper of the ibc-go testing library fails one of its
// own `require` assertions while the hostile workload is running. It is never a verdict on the
// property: the case that hit it is inconclusive.
type Abort struct{ Msg string }

func (a Abort) Error() string { return "harness abort: " + a.Msg }

// PanicTB wraps a testing.TB so that assertion failures inside library helpers panic with Abort
// instead of failing the whole test binary.
type PanicTB struct {
	testing.TB
}

func (p PanicTB) Helper()                           {}
func (p PanicTB) Errorf(format string, args ...any) { panic(Abort{fmt.Sprintf(format, args...)}) }
func (p PanicTB) Error(args ...any)                 { panic(Abort{fmt.Sprint(args...)}) }
func (p PanicTB) Fatalf(format string, args ...any) { panic(Abort{fmt.Sprintf(format, args...)}) }
func (p PanicTB) Fatal(args ...any)                 { panic(Abort{fmt.Sprint(args...)}) }
func (p PanicTB) FailNow()                          { panic(Abort{"FailNow"}) }
func (p PanicTB) Fail()                             { panic(Abort{"Fail"}) }

// Try runs f and converts an Abort panic into a returned error; other panics propagate.
func Try(f func()) (err error) {
	defer func() {
		if r := recover(); r != nil {
			if a, ok := r.(Abort); ok {
				err = a
				return
			}
			panic(r)
		}
	}()
	f()
	return nil
}

// TryAll runs f and converts any panic into an error (used around calls whose panics are themselves observations).
func TryAll(f func()) (err error) {
	defer func() {
		if r := recover(); r != nil {
			err = fmt.Errorf("panic: %v", r)
		}
	}()
	f()
	return nil
}
