package kit

import (
	"bytes"
	"context"
	"encoding/json"
	"fmt"
	"sort"
	"testing"
	"time"

	dbm "github.com/cosmos/cosmos-db"

	"cosmossdk.io/log/v2"
	sdkmath "cosmossdk.io/math"

	"github.com/cosmos/cosmos-sdk/baseapp"
	storetypes "github.com/cosmos/cosmos-sdk/store/v2/types"
	simtestutil "github.com/cosmos/cosmos-sdk/testutil/sims"
	sdk "github.com/cosmos/cosmos-sdk/types"
	banktypes "github.com/cosmos/cosmos-sdk/x/bank/types"
	minttypes "github.com/cosmos/cosmos-sdk/x/mint/types"

	abci "github.com/cometbft/cometbft/abci/types"

	ibctesting "github.com/cosmos/ibc-go/v11/testing"
	"github.com/cosmos/ibc-go/v11/testing/simapp"
)

// World is a set of real SimApp chains driven through real signed transactions, with the
// observation taps installed on every chain.
type World struct {
	T      *testing.T
	Coord  *ibctesting.Coordinator
	Chains []*Chain
	byID   map[string]*Chain
}

// Chain wraps an ibctesting.TestChain with taps.
type Chain struct {
	*ibctesting.TestChain
	W    *World
	Sim  *simapp.SimApp
	Idx  int
	Rec  *Recorder
	Name string
	ABCI *ABCIRecord

	// stores watched by Diff; noise = keys that change in empty blocks
	Watch []string
	noise map[string]struct{}

	snapHeight int64
	snap       Snapshot

	// TxCount counts transactions delivered through Deliver (including helper-sent ones)
	TxCount int
	// OnTx, when set, is invoked after every delivered tx (used by per-block monitors)
	OnTx func(o *Outcome)
}

// ZeroInflation patches the genesis so that native supplies change only through IBC.
func zeroInflationGenesis(app *simapp.SimApp, gen map[string]json.RawMessage) {
	var mg minttypes.GenesisState
	app.AppCodec().MustUnmarshalJSON(gen[minttypes.ModuleName], &mg)
	mg.Minter.Inflation = sdkmath.LegacyZeroDec()
	mg.Params.InflationMin = sdkmath.LegacyZeroDec()
	mg.Params.InflationMax = sdkmath.LegacyZeroDec()
	mg.Params.InflationRateChange = sdkmath.LegacyZeroDec()
	gen[minttypes.ModuleName] = app.AppCodec().MustMarshalJSON(&mg)
}

// DefaultWatch is the set of stores in which "no state change" is judged.
var DefaultWatch = []string{"ibc", "transfer", "ratelimit", "packetforward", "icacontroller", "icahost", "gmp", "bank", "authz", "upgrade"}

// WorldOpts tunes world creation.
type WorldOpts struct {
	// RecordABCI records the InitChain request and every FinalizeBlock request/response of every chain (Chain.ABCI)
	RecordABCI bool
}

// ABCIRecord is the exact block history of one chain, enough to replay it on a fresh application.
type ABCIRecord struct {
	Init    *abci.RequestInitChain
	Blocks  []abci.RequestFinalizeBlock
	AppHash [][]byte // app hash reported by FinalizeBlock for each block
}

type abciListener struct{ rec *ABCIRecord }

func (l abciListener) ListenFinalizeBlock(_ context.Context, req abci.RequestFinalizeBlock, res abci.ResponseFinalizeBlock) error {
	l.rec.Blocks = append(l.rec.Blocks, req)
	l.rec.AppHash = append(l.rec.AppHash, bytes.Clone(res.AppHash))
	return nil
}

func (l abciListener) ListenCommit(context.Context, abci.ResponseCommit, []*storetypes.StoreKVPair) error {
	return nil
}

// initRecorder wraps the application only to capture the InitChain request.
type initRecorder struct {
	*simapp.SimApp
	rec *ABCIRecord
}

func (r *initRecorder) InitChain(req *abci.RequestInitChain) (*abci.ResponseInitChain, error) {
	cp := *req
	r.rec.Init = &cp
	return r.SimApp.InitChain(req)
}

// NewWorld creates n chains (chain ids testchain1-1 …) with zero inflation.
func NewWorld(t *testing.T, n int) *World { return NewWorldOpts(t, n, WorldOpts{}) }

func NewWorldOpts(t *testing.T, n int, opts WorldOpts) *World {
	t.Helper()
	var apps []*simapp.SimApp
	var recs []*ABCIRecord
	creator := func() (ibctesting.TestingApp, map[string]json.RawMessage) {
		db := dbm.NewMemDB()
		rec := &ABCIRecord{}
		var bopts []func(*baseapp.BaseApp)
		if opts.RecordABCI {
			bopts = append(bopts, func(b *baseapp.BaseApp) {
				b.SetStreamingManager(storetypes.StreamingManager{ABCIListeners: []storetypes.ABCIListener{abciListener{rec}}, StopNodeOnErr: true})
			})
		}
		app := simapp.NewSimApp(log.NewNopLogger(), db, nil, true, simtestutil.EmptyAppOptions{}, bopts...)
		gen := app.DefaultGenesis()
		zeroInflationGenesis(app, gen)
		apps = append(apps, app)
		recs = append(recs, rec)
		if opts.RecordABCI {
			return &initRecorder{SimApp: app, rec: rec}, gen
		}
		return app, gen
	}
	coord := ibctesting.NewCustomAppCoordinator(t, n, creator)
	w := &World{T: t, Coord: coord, byID: map[string]*Chain{}}
	for i := 1; i <= n; i++ {
		tc := coord.GetChain(ibctesting.GetChainID(i))
		c := &Chain{TestChain: tc, W: w, Idx: i - 1, Name: string(rune('A' + i - 1)), Watch: DefaultWatch}
		c.Sim = apps[i-1]
		c.ABCI = recs[i-1]
		// helper assertions inside the testing library must not kill the binary
		tc.TB = PanicTB{t}
		c.Rec = installRecorder(c)
		tc.SendMsgsOverride = func(msgs ...sdk.Msg) (*abci.ExecTxResult, error) {
			o := c.Deliver(c.DefaultSender(), msgs...)
			return o.Res, o.Err
		}
		w.Chains = append(w.Chains, c)
		w.byID[tc.ChainID] = c
	}
	for _, c := range w.Chains {
		c.measureNoise()
	}
	return w
}

func (w *World) ByID(chainID string) *Chain { return w.byID[chainID] }

// Other returns the chain wrapper of a TestChain.
func (w *World) Of(tc *ibctesting.TestChain) *Chain { return w.byID[tc.ChainID] }

func (c *Chain) DefaultSender() ibctesting.SenderAccount {
	return ibctesting.SenderAccount{SenderPrivKey: c.SenderPrivKey, SenderAccount: c.SenderAccount}
}

// Acct returns the i-th funded account.
func (c *Chain) Acct(i int) ibctesting.SenderAccount {
	return c.SenderAccounts[i%len(c.SenderAccounts)]
}

func (c *Chain) Addr(i int) sdk.AccAddress { return c.Acct(i).SenderAccount.GetAddress() }

// ---------------------------------------------------------------------------------------------
// store snapshots and diffs

type KV struct {
	Store string `json:"store"`
	Key   []byte `json:"key"`
	Old   []byte `json:"old"`
	New   []byte `json:"new"`
}

func (kv KV) String() string {
	return fmt.Sprintf("%s:%q %x->%x", kv.Store, kv.Key, trunc(kv.Old), trunc(kv.New))
}

func trunc(b []byte) []byte {
	if len(b) > 24 {
		return b[:24]
	}
	return b
}

type Snapshot map[string]map[string][]byte

// StoreMap reads a whole committed KV store.
func (c *Chain) StoreMap(store string) map[string][]byte {
	key := c.Sim.GetKey(store)
	m := map[string][]byte{}
	if key == nil {
		return m
	}
	kvs := c.Sim.CommitMultiStore().GetKVStore(key)
	it := kvs.Iterator(nil, nil)
	defer it.Close()
	for ; it.Valid(); it.Next() {
		m[string(it.Key())] = bytes.Clone(it.Value())
	}
	return m
}

// StoreGet reads one committed key.
func (c *Chain) StoreGet(store string, key []byte) []byte {
	sk := c.Sim.GetKey(store)
	return c.Sim.CommitMultiStore().GetKVStore(sk).Get(key)
}

func (c *Chain) Snapshot() Snapshot {
	h := c.App.LastBlockHeight()
	if c.snap != nil && c.snapHeight == h {
		return c.snap
	}
	s := Snapshot{}
	for _, st := range c.Watch {
		s[st] = c.StoreMap(st)
	}
	c.snap, c.snapHeight = s, h
	return s
}

func nk(store string, key []byte) string { return store + "\x00" + string(key) }

// DiffSnap lists all (store,key) whose value differs between two snapshots, noise removed.
func (c *Chain) DiffSnap(a, b Snapshot) []KV {
	var out []KV
	for st, bm := range b {
		am := a[st]
		for k, nv := range bm {
			ov, ok := am[k]
			if ok && bytes.Equal(ov, nv) {
				continue
			}
			if _, n := c.noise[nk(st, []byte(k))]; n {
				continue
			}
			out = append(out, KV{st, []byte(k), ov, nv})
		}
		for k, ov := range am {
			if _, ok := bm[k]; !ok {
				if _, n := c.noise[nk(st, []byte(k))]; n {
					continue
				}
				out = append(out, KV{st, []byte(k), ov, nil})
			}
		}
	}
	sort.Slice(out, func(i, j int) bool {
		if out[i].Store != out[j].Store {
			return out[i].Store < out[j].Store
		}
		return bytes.Compare(out[i].Key, out[j].Key) < 0
	})
	return out
}

func (c *Chain) measureNoise() {
	c.noise = map[string]struct{}{}
	a := c.Snapshot()
	c.W.Coord.CommitBlock(c.TestChain)
	b := c.Snapshot()
	c.W.Coord.CommitBlock(c.TestChain)
	d := c.Snapshot()
	for _, kv := range append(c.DiffSnap(a, b), c.DiffSnap(b, d)...) {
		c.noise[nk(kv.Store, kv.Key)] = struct{}{}
	}
}

// AddNoise marks a key as noise (e.g. a time-driven epoch key).
func (c *Chain) AddNoise(store string, key []byte) { c.noise[nk(store, key)] = struct{}{} }

// ---------------------------------------------------------------------------------------------
// transactions

// Outcome is everything observable about one delivered transaction.
type Outcome struct {
	Chain  string
	Height int64
	// BlockTime is the header time of the block that carried the tx
	BlockTime time.Time
	Msgs      []sdk.Msg
	Res       *abci.ExecTxResult
	Err       error
	Code      uint32
	Log       string
	// Diff = state change of the block that carried the tx, in the watched stores, noise removed,
	// and without the signer's own account bookkeeping (auth store is not watched).
	Diff []KV
	// CBs are the application callbacks that ran inside this tx (finalize mode)
	CBs []*CB
}

func (o *Outcome) OK() bool { return o.Err == nil && o.Code == 0 }

// DiffIn filters the diff by store.
func (o *Outcome) DiffIn(stores ...string) []KV {
	var out []KV
	for _, kv := range o.Diff {
		for _, s := range stores {
			if kv.Store == s {
				out = append(out, kv)
			}
		}
	}
	return out
}

func (o *Outcome) DiffString() string {
	s := ""
	for i, kv := range o.Diff {
		if i > 8 {
			s += " …"
			break
		}
		s += " " + kv.String()
	}
	return s
}

// Deliver signs msgs with sender, runs them in their own block, commits and reports.
// A rejected transaction is a value, never a test failure.
func (c *Chain) Deliver(sender ibctesting.SenderAccount, msgs ...sdk.Msg) *Outcome {
	save := c.SendMsgsOverride
	c.SendMsgsOverride = nil
	defer func() { c.SendMsgsOverride = save }()

	pre := c.Snapshot()
	mark := len(c.Rec.Log)
	c.Rec.inTx = true
	bt := c.W.Coord.CurrentTime.UTC()
	res, err := c.TestChain.SendMsgsWithSender(sender, msgs...)
	c.Rec.inTx = false
	c.TxCount++
	o := &Outcome{Chain: c.Name, Height: c.App.LastBlockHeight(), BlockTime: bt, Msgs: msgs, Res: res, Err: err}
	if res != nil {
		o.Code, o.Log = res.Code, res.Log
	} else if err != nil {
		o.Code, o.Log = 1, err.Error()
	}
	if res == nil && err != nil {
		// FinalizeBlock itself failed (tx could not be built): nothing was committed
		return o
	}
	post := c.Snapshot()
	o.Diff = c.DiffSnap(pre, post)
	for _, cb := range c.Rec.Log[mark:] {
		cb.TxOK = o.OK()
		cb.Height = o.Height
		if cb.Finalize {
			o.CBs = append(o.CBs, cb)
		}
	}
	c.resyncSequence(sender)
	if c.OnTx != nil {
		c.OnTx(o)
	}
	return o
}

// resyncSequence re-reads the account sequence from committed state: transactions rejected
// before the ante handler's increment do not consume a sequence number.
func (c *Chain) resyncSequence(sender ibctesting.SenderAccount) {
	acc := c.Sim.AccountKeeper.GetAccount(c.GetContext(), sender.SenderAccount.GetAddress())
	if acc != nil {
		_ = sender.SenderAccount.SetSequence(acc.GetSequence())
	}
}

// Commit commits an empty block on this chain (coordinator time moves on).
func (c *Chain) Commit() { c.W.Coord.CommitBlock(c.TestChain) }

// Bal returns the committed balance.
func (c *Chain) Bal(addr sdk.AccAddress, denom string) sdkmath.Int {
	return c.Sim.BankKeeper.GetBalance(c.GetContext(), addr, denom).Amount
}

func (c *Chain) Supply(denom string) sdkmath.Int {
	return c.Sim.BankKeeper.GetSupply(c.GetContext(), denom).Amount
}

// AllSupply returns every denom's supply.
func (c *Chain) AllSupply() sdk.Coins {
	var coins sdk.Coins
	c.Sim.BankKeeper.IterateTotalSupply(c.GetContext(), func(coin sdk.Coin) bool {
		coins = append(coins, coin)
		return false
	})
	return coins.Sort()
}

// Fund mints amount of denom to addr (harness-side faucet; done before monitors start counting).
func (c *Chain) Fund(addr sdk.AccAddress, denom string, amt int64) {
	coins := sdk.Coins{sdk.Coin{Denom: denom, Amount: sdkmath.NewInt(amt)}}
	ctx := c.GetContext()
	if err := c.Sim.BankKeeper.MintCoins(ctx, minttypes.ModuleName, coins); err != nil {
		panic(Abort{"fund mint: " + err.Error()})
	}
	if err := c.Sim.BankKeeper.SendCoinsFromModuleToAccount(ctx, minttypes.ModuleName, addr, coins); err != nil {
		panic(Abort{"fund send: " + err.Error()})
	}
	c.Commit()
}

var _ = banktypes.ModuleName
var _ storetypes.StoreKey

// InBlock runs f against the chain's next-block context the way an application module would
// (e.g. a keeper-level SendPacket or an asynchronous WriteAcknowledgement), commits the block
// and reports the state change. f's writes are discarded when it returns an error.
func (c *Chain) InBlock(f func(ctx sdk.Context) error) *Outcome {
	pre := c.Snapshot()
	ctx := c.GetContext()
	cctx, write := ctx.CacheContext()
	o := &Outcome{Chain: c.Name, BlockTime: ctx.BlockTime()}
	if err := TryAll(func() { o.Err = f(cctx) }); err != nil {
		o.Err = err
	}
	if o.Err == nil {
		write()
	} else {
		o.Code, o.Log = 1, o.Err.Error()
	}
	c.Commit()
	o.Height = c.App.LastBlockHeight()
	o.Diff = c.DiffSnap(pre, c.Snapshot())
	return o
}

// WrapChain installs the taps on a TestChain that was built outside NewWorld (e.g. a chain started from an
// exported genesis). The chain is not registered with the coordinator's chain map.
func WrapChain(w *World, tc *ibctesting.TestChain, sim *simapp.SimApp, name string) *Chain {
	c := &Chain{TestChain: tc, W: w, Idx: -1, Name: name, Watch: DefaultWatch, Sim: sim, noise: map[string]struct{}{}}
	tc.TB = PanicTB{w.T}
	c.Rec = installRecorder(c)
	tc.SendMsgsOverride = func(msgs ...sdk.Msg) (*abci.ExecTxResult, error) {
		o := c.Deliver(c.DefaultSender(), msgs...)
		return o.Res, o.Err
	}
	return c
}

// CopyNoise makes this chain ignore the same empty-block noise keys as another one.
func (c *Chain) CopyNoise(from *Chain) {
	for k := range from.noise {
		c.noise[k] = struct{}{}
	}
}
