package kit

import (
	"bytes"
	"fmt"

	sdk "github.com/cosmos/cosmos-sdk/types"

	gmptypes "github.com/cosmos/ibc-go/v11/modules/apps/27-gmp/types"
	transfertypes "github.com/cosmos/ibc-go/v11/modules/apps/transfer/types"
	channeltypes "github.com/cosmos/ibc-go/v11/modules/core/04-channel/types"
	channeltypesv2 "github.com/cosmos/ibc-go/v11/modules/core/04-channel/v2/types"
	porttypes "github.com/cosmos/ibc-go/v11/modules/core/05-port/types"
	"github.com/cosmos/ibc-go/v11/modules/core/api"
	"github.com/cosmos/ibc-go/v11/modules/core/exported"
	mockv2 "github.com/cosmos/ibc-go/v11/testing/mock/v2"
)

// CB is one application callback observed at the core/application boundary (tap T-cb).
type CB struct {
	Chain    string
	V        int    // 1 = IBC v1 module, 2 = IBC v2 module
	Kind     string // recv | ack | timeout | send | open_init | open_try | open_ack | open_confirm | close_init | close_confirm
	Port     string // the port of *this* chain's application
	ID       string // channel id (v1) or client id / alias (v2) on this chain
	CpID     string // counterparty channel / client id
	Seq      uint64
	Data     []byte // packet data (v1) or payload value (v2)
	Ack      []byte // acknowledgement handed to / returned by the app
	Result   string // recv: success|error|async ; others: ok|err
	Finalize bool   // ran in finalize (block execution) mode
	TxOK     bool   // the surrounding transaction succeeded (filled by Deliver)
	Height   int64
	Packet   *channeltypes.Packet
	Payload  *channeltypesv2.Payload
	GasIn    uint64
	GasOut   uint64
}

func (cb *CB) Key() string { return fmt.Sprintf("%s/v%d/%s/%s/%d", cb.Chain, cb.V, cb.Port, cb.ID, cb.Seq) }

// Recorder collects callbacks of one chain.
type Recorder struct {
	c    *Chain
	Log  []*CB
	inTx bool
}

func (r *Recorder) add(ctx sdk.Context, cb *CB) *CB {
	cb.Chain = r.c.Name
	cb.Finalize = ctx.ExecMode() == sdk.ExecModeFinalize
	cb.GasIn = ctx.GasMeter().GasConsumed()
	r.Log = append(r.Log, cb)
	return cb
}

// Persisted returns the finalize-mode callbacks of successful transactions of the given kind.
func (r *Recorder) Persisted(kind string) []*CB {
	var out []*CB
	for _, cb := range r.Log {
		if cb.Kind == kind && cb.Finalize && cb.TxOK {
			out = append(out, cb)
		}
	}
	return out
}

var v2Ports = []string{mockv2.PortIDA, mockv2.PortIDB, transfertypes.PortID, gmptypes.PortID}

func installRecorder(c *Chain) *Recorder {
	r := &Recorder{c: c}
	ibck := c.Sim.IBCKeeper
	old := ibck.PortKeeper.Router
	nr := porttypes.NewRouter()
	for _, k := range old.Keys() {
		m, _ := old.Route(k)
		nr.AddRoute(k, &v1wrap{inner: m, r: r})
	}
	nr.Seal()
	ibck.PortKeeper.Router = nr

	old2 := ibck.ChannelKeeperV2.Router
	nr2 := api.NewRouter()
	for _, p := range v2Ports {
		if old2.HasRoute(p) {
			nr2.AddRoute(p, &v2wrap{inner: old2.Route(p), r: r, port: p})
		}
	}
	ibck.ChannelKeeperV2.Router = nr2
	return r
}

type v1wrap struct {
	inner porttypes.IBCModule
	r     *Recorder
}

var (
	_ porttypes.IBCModule             = (*v1wrap)(nil)
	_ porttypes.PacketDataUnmarshaler = (*v1wrap)(nil)
)

func errStr(err error) string {
	if err != nil {
		return "err"
	}
	return "ok"
}

func (w *v1wrap) OnChanOpenInit(ctx sdk.Context, order channeltypes.Order, hops []string, portID, channelID string, cp channeltypes.Counterparty, version string) (string, error) {
	cb := w.r.add(ctx, &CB{V: 1, Kind: "open_init", Port: portID, ID: channelID, CpID: cp.ChannelId})
	v, err := w.inner.OnChanOpenInit(ctx, order, hops, portID, channelID, cp, version)
	cb.Result = errStr(err)
	return v, err
}

func (w *v1wrap) OnChanOpenTry(ctx sdk.Context, order channeltypes.Order, hops []string, portID, channelID string, cp channeltypes.Counterparty, cpVersion string) (string, error) {
	cb := w.r.add(ctx, &CB{V: 1, Kind: "open_try", Port: portID, ID: channelID, CpID: cp.ChannelId})
	v, err := w.inner.OnChanOpenTry(ctx, order, hops, portID, channelID, cp, cpVersion)
	cb.Result = errStr(err)
	return v, err
}

func (w *v1wrap) OnChanOpenAck(ctx sdk.Context, portID, channelID, cpChannelID, cpVersion string) error {
	cb := w.r.add(ctx, &CB{V: 1, Kind: "open_ack", Port: portID, ID: channelID, CpID: cpChannelID})
	err := w.inner.OnChanOpenAck(ctx, portID, channelID, cpChannelID, cpVersion)
	cb.Result = errStr(err)
	return err
}

func (w *v1wrap) OnChanOpenConfirm(ctx sdk.Context, portID, channelID string) error {
	cb := w.r.add(ctx, &CB{V: 1, Kind: "open_confirm", Port: portID, ID: channelID})
	err := w.inner.OnChanOpenConfirm(ctx, portID, channelID)
	cb.Result = errStr(err)
	return err
}

func (w *v1wrap) OnChanCloseInit(ctx sdk.Context, portID, channelID string) error {
	cb := w.r.add(ctx, &CB{V: 1, Kind: "close_init", Port: portID, ID: channelID})
	err := w.inner.OnChanCloseInit(ctx, portID, channelID)
	cb.Result = errStr(err)
	return err
}

func (w *v1wrap) OnChanCloseConfirm(ctx sdk.Context, portID, channelID string) error {
	cb := w.r.add(ctx, &CB{V: 1, Kind: "close_confirm", Port: portID, ID: channelID})
	err := w.inner.OnChanCloseConfirm(ctx, portID, channelID)
	cb.Result = errStr(err)
	return err
}

func (w *v1wrap) OnRecvPacket(ctx sdk.Context, channelVersion string, packet channeltypes.Packet, relayer sdk.AccAddress) exported.Acknowledgement {
	p := packet
	cb := w.r.add(ctx, &CB{V: 1, Kind: "recv", Port: packet.DestinationPort, ID: packet.DestinationChannel, CpID: packet.SourceChannel,
		Seq: packet.Sequence, Data: bytes.Clone(packet.Data), Packet: &p})
	ack := w.inner.OnRecvPacket(ctx, channelVersion, packet, relayer)
	switch {
	case ack == nil:
		cb.Result = "async"
	case ack.Success():
		cb.Result = "success"
		cb.Ack = ack.Acknowledgement()
	default:
		cb.Result = "error"
		cb.Ack = ack.Acknowledgement()
	}
	cb.GasOut = ctx.GasMeter().GasConsumed()
	return ack
}

func (w *v1wrap) OnAcknowledgementPacket(ctx sdk.Context, channelVersion string, packet channeltypes.Packet, ack []byte, relayer sdk.AccAddress) error {
	p := packet
	cb := w.r.add(ctx, &CB{V: 1, Kind: "ack", Port: packet.SourcePort, ID: packet.SourceChannel, CpID: packet.DestinationChannel,
		Seq: packet.Sequence, Data: bytes.Clone(packet.Data), Ack: bytes.Clone(ack), Packet: &p})
	err := w.inner.OnAcknowledgementPacket(ctx, channelVersion, packet, ack, relayer)
	cb.Result = errStr(err)
	cb.GasOut = ctx.GasMeter().GasConsumed()
	return err
}

func (w *v1wrap) OnTimeoutPacket(ctx sdk.Context, channelVersion string, packet channeltypes.Packet, relayer sdk.AccAddress) error {
	p := packet
	cb := w.r.add(ctx, &CB{V: 1, Kind: "timeout", Port: packet.SourcePort, ID: packet.SourceChannel, CpID: packet.DestinationChannel,
		Seq: packet.Sequence, Data: bytes.Clone(packet.Data), Packet: &p})
	err := w.inner.OnTimeoutPacket(ctx, channelVersion, packet, relayer)
	cb.Result = errStr(err)
	cb.GasOut = ctx.GasMeter().GasConsumed()
	return err
}

func (w *v1wrap) SetICS4Wrapper(wrapper porttypes.ICS4Wrapper) { w.inner.SetICS4Wrapper(wrapper) }

func (w *v1wrap) UnmarshalPacketData(ctx sdk.Context, portID, channelID string, bz []byte) (any, string, error) {
	if u, ok := w.inner.(porttypes.PacketDataUnmarshaler); ok {
		return u.UnmarshalPacketData(ctx, portID, channelID, bz)
	}
	return nil, "", fmt.Errorf("underlying module does not unmarshal packet data")
}

type v2wrap struct {
	inner api.IBCModule
	r     *Recorder
	port  string
}

var _ api.IBCModule = (*v2wrap)(nil)

func (w *v2wrap) OnSendPacket(ctx sdk.Context, srcClient, dstClient string, seq uint64, payload channeltypesv2.Payload, signer sdk.AccAddress) error {
	p := payload
	cb := w.r.add(ctx, &CB{V: 2, Kind: "send", Port: payload.SourcePort, ID: srcClient, CpID: dstClient, Seq: seq, Data: bytes.Clone(payload.Value), Payload: &p})
	err := w.inner.OnSendPacket(ctx, srcClient, dstClient, seq, payload, signer)
	cb.Result = errStr(err)
	return err
}

func (w *v2wrap) OnRecvPacket(ctx sdk.Context, srcClient, dstClient string, seq uint64, payload channeltypesv2.Payload, relayer sdk.AccAddress) channeltypesv2.RecvPacketResult {
	p := payload
	cb := w.r.add(ctx, &CB{V: 2, Kind: "recv", Port: payload.DestinationPort, ID: dstClient, CpID: srcClient, Seq: seq, Data: bytes.Clone(payload.Value), Payload: &p})
	res := w.inner.OnRecvPacket(ctx, srcClient, dstClient, seq, payload, relayer)
	switch res.Status {
	case channeltypesv2.PacketStatus_Success:
		cb.Result = "success"
	case channeltypesv2.PacketStatus_Async:
		cb.Result = "async"
	default:
		cb.Result = "error"
	}
	cb.Ack = bytes.Clone(res.Acknowledgement)
	cb.GasOut = ctx.GasMeter().GasConsumed()
	return res
}

func (w *v2wrap) OnTimeoutPacket(ctx sdk.Context, srcClient, dstClient string, seq uint64, payload channeltypesv2.Payload, relayer sdk.AccAddress) error {
	p := payload
	cb := w.r.add(ctx, &CB{V: 2, Kind: "timeout", Port: payload.SourcePort, ID: srcClient, CpID: dstClient, Seq: seq, Data: bytes.Clone(payload.Value), Payload: &p})
	err := w.inner.OnTimeoutPacket(ctx, srcClient, dstClient, seq, payload, relayer)
	cb.Result = errStr(err)
	cb.GasOut = ctx.GasMeter().GasConsumed()
	return err
}

func (w *v2wrap) OnAcknowledgementPacket(ctx sdk.Context, srcClient, dstClient string, seq uint64, ack []byte, payload channeltypesv2.Payload, relayer sdk.AccAddress) error {
	p := payload
	cb := w.r.add(ctx, &CB{V: 2, Kind: "ack", Port: payload.SourcePort, ID: srcClient, CpID: dstClient, Seq: seq, Data: bytes.Clone(payload.Value), Ack: bytes.Clone(ack), Payload: &p})
	err := w.inner.OnAcknowledgementPacket(ctx, srcClient, dstClient, seq, ack, payload, relayer)
	cb.Result = errStr(err)
	cb.GasOut = ctx.GasMeter().GasConsumed()
	return err
}

func (w *v2wrap) UnmarshalPacketData(payload channeltypesv2.Payload) (any, error) {
	if u, ok := w.inner.(api.PacketDataUnmarshaler); ok {
		return u.UnmarshalPacketData(payload)
	}
	return nil, fmt.Errorf("underlying module does not unmarshal packet data")
}
