package tm

import (
	"bytes"
	"encoding/binary"
	"fmt"
	"sort"
	"strconv"
	"strings"
	"time"

	"github.com/cosmos/cosmos-sdk/codec"

	clienttypes "github.com/cosmos/ibc-go/v11/modules/core/02-client/types"
	ibctm "github.com/cosmos/ibc-go/v11/modules/light-clients/07-tendermint"
)

// H is a (revision, height) pair ordered numerically.
type H struct{ R, N uint64 }

func (h H) Less(o H) bool           { return h.R < o.R || (h.R == o.R && h.N < o.N) }
func (h H) String() string          { return strconv.FormatUint(h.R, 10) + "-" + strconv.FormatUint(h.N, 10) }
func (h H) IBC() clienttypes.Height { return clienttypes.NewHeight(h.R, h.N) }
func hOf(x clienttypes.Height) H    { return H{x.RevisionNumber, x.RevisionHeight} }

// Parsed is the harness's reading of one client's prefix store `clients/<id>/`.
type Parsed struct {
	Raw       map[string][]byte // key without the client prefix
	CSBytes   []byte
	CS        *ibctm.ClientState // nil when absent / not a tendermint client state
	Cons      map[H][]byte
	ConsDec   map[H]*ibctm.ConsensusState
	PT        map[H][]byte
	PH        map[H][]byte
	Iter      []IterEntry // in raw byte order of the iteration keys (= store iteration order)
	Other     map[string][]byte
	Malformed []string
}

type IterEntry struct {
	Key   []byte // 16 bytes after the prefix (or whatever is there)
	Value string
}

const (
	consPrefix = "consensusStates/"
	iterPrefix = "iterateConsensusStates"
)

func parseH(s string) (H, bool) {
	i := strings.IndexByte(s, '-')
	if i <= 0 {
		return H{}, false
	}
	r, err1 := strconv.ParseUint(s[:i], 10, 64)
	n, err2 := strconv.ParseUint(s[i+1:], 10, 64)
	if err1 != nil || err2 != nil {
		return H{}, false
	}
	return H{r, n}, true
}

// ParseClient extracts the client prefix store from a whole ibc store map.
func ParseClient(cdc codec.BinaryCodec, ibc map[string][]byte, clientID string) *Parsed {
	p := &Parsed{Raw: map[string][]byte{}, Cons: map[H][]byte{}, ConsDec: map[H]*ibctm.ConsensusState{}, PT: map[H][]byte{}, PH: map[H][]byte{}, Other: map[string][]byte{}}
	prefix := "clients/" + clientID + "/"
	var iterKeys []string
	for k, v := range ibc {
		if !strings.HasPrefix(k, prefix) {
			continue
		}
		sub := k[len(prefix):]
		p.Raw[sub] = v
		switch {
		case sub == "clientState":
			p.CSBytes = v
			if cs, err := clienttypes.UnmarshalClientState(cdc, v); err == nil {
				if t, ok := cs.(*ibctm.ClientState); ok {
					p.CS = t
				}
			}
		case strings.HasPrefix(sub, consPrefix):
			rest := sub[len(consPrefix):]
			switch {
			case strings.HasSuffix(rest, "/processedTime"):
				if h, ok := parseH(strings.TrimSuffix(rest, "/processedTime")); ok {
					p.PT[h] = v
				} else {
					p.Malformed = append(p.Malformed, sub)
				}
			case strings.HasSuffix(rest, "/processedHeight"):
				if h, ok := parseH(strings.TrimSuffix(rest, "/processedHeight")); ok {
					p.PH[h] = v
				} else {
					p.Malformed = append(p.Malformed, sub)
				}
			default:
				h, ok := parseH(rest)
				if !ok {
					p.Malformed = append(p.Malformed, sub)
					continue
				}
				p.Cons[h] = v
				if c, err := clienttypes.UnmarshalConsensusState(cdc, v); err == nil {
					if t, ok := c.(*ibctm.ConsensusState); ok {
						p.ConsDec[h] = t
					}
				}
			}
		case strings.HasPrefix(sub, iterPrefix):
			iterKeys = append(iterKeys, sub)
		default:
			p.Other[sub] = v
		}
	}
	sort.Strings(iterKeys) // byte order, as the store iterates
	for _, k := range iterKeys {
		p.Iter = append(p.Iter, IterEntry{Key: []byte(k[len(iterPrefix):]), Value: string(p.Raw[k])})
	}
	return p
}

// Heights returns the stored consensus heights in numeric order.
func (p *Parsed) Heights() []H {
	hs := make([]H, 0, len(p.Cons))
	for h := range p.Cons {
		hs = append(hs, h)
	}
	sort.Slice(hs, func(i, j int) bool { return hs[i].Less(hs[j]) })
	return hs
}

func (p *Parsed) Latest() H {
	if p.CS == nil {
		return H{}
	}
	return hOf(p.CS.LatestHeight)
}

func (p *Parsed) Frozen() bool { return p.CS != nil && !p.CS.FrozenHeight.IsZero() }

// Neighbours returns the true numeric neighbours of h among the stored heights (h itself excluded).
func (p *Parsed) Neighbours(h H) (prev, next *H) {
	for _, x := range p.Heights() {
		x := x
		if x.Less(h) {
			prev = &x
		} else if h.Less(x) {
			next = &x
			break
		}
	}
	return
}

// model status -------------------------------------------------------------------------------

const (
	stActive  = "Active"
	stExpired = "Expired"
	stFrozen  = "Frozen"
	stEither  = "Active|Expired" // exactly at latest+trusting period: the statement leaves it open
	stUnknown = "Unknown"
)

// expiredAt: -1 not expired, 0 exactly at the boundary, +1 strictly past.
func expiredAt(consTime time.Time, trusting time.Duration, now time.Time) int {
	exp := consTime.Add(trusting)
	switch {
	case now.After(exp):
		return 1
	case now.Equal(exp):
		return 0
	default:
		return -1
	}
}

// ModelStatus is written from the property statement: Frozen if frozen; otherwise Expired if
// the consensus state at the latest height is missing or older than the trusting period;
// otherwise Active.
func (p *Parsed) ModelStatus(now time.Time) string {
	if p.CS == nil {
		return stUnknown
	}
	if p.Frozen() {
		return stFrozen
	}
	c, ok := p.ConsDec[p.Latest()]
	if !ok {
		return stExpired
	}
	switch expiredAt(c.Timestamp, p.CS.TrustingPeriod, now) {
	case 1:
		return stExpired
	case 0:
		return stEither
	}
	return stActive
}

func statusOK(model, got string) bool {
	if model == stEither {
		return got == stActive || got == stExpired
	}
	return model == got
}

// definitelyNotActive: the model excludes Active.
func definitelyNotActive(model string) bool {
	return model == stFrozen || model == stExpired || model == stUnknown
}

func beKey(h H) []byte {
	b := make([]byte, 16)
	binary.BigEndian.PutUint64(b, h.R)
	binary.BigEndian.PutUint64(b[8:], h.N)
	return b
}

func has2f(h H) bool { return bytes.IndexByte(beKey(h), 0x2f) >= 0 }

func consEq(a, b *ibctm.ConsensusState) bool {
	if a == nil || b == nil {
		return a == b
	}
	return a.Timestamp.Equal(b.Timestamp) && bytes.Equal(a.Root.Hash, b.Root.Hash) && bytes.Equal(a.NextValidatorsHash, b.NextValidatorsHash)
}

func consStr(c *ibctm.ConsensusState) string {
	if c == nil {
		return "<none>"
	}
	return fmt.Sprintf("{t=%s root=%x nv=%x}", c.Timestamp.UTC().Format(time.RFC3339Nano), trunc4(c.Root.Hash), trunc4(c.NextValidatorsHash))
}
