package tm

import (
	"os"
	"strings"
	"testing"

	"verif/harness/kit"
)

const tmRule = "cases = PRNG-determined histories against one chain A holding a 07-tendermint client of the real chain B (headers forged with B's validator keys, real connection/channel) and several clients of virtual chains whose headers the harness forges with its own ed25519 keys (chosen validator sets, powers, revisions, heights with 0x2f bytes): " +
	"new / gap-filling / duplicate / conflicting / out-of-time-order headers, exact voting-power boundary subsets, field/signature/valset/trusted-height mutations, fork and time misbehaviour, clock jumps to the edges of trusting periods, pruning, MsgRecoverClient, MsgUpgradeClient with real upgrade-store proofs, and consumers of the clients (handshake steps, packet send/receive); " +
	"distinct = distinct sequences of (operation label, input class, status before, outcome)"

type tweak func(pr *Profile)

func abstract(classes []string) string { return strings.Join(classes, ";") }

func runTM(t *testing.T, prop string, quickCases, thoroughCases, ops int, tw tweak, floors map[string]int64) {
	c := kit.NewCheck(t, prop, "exploration", tmRule)
	defer c.Finish()
	c.Assume("CometBFT signature/commit verification (light.Verify, VerifyCommitLight*), ed25519, ICS-23 proof verification, protobuf codecs and the SDK transaction machinery are the trusted base")
	c.Assume("a virtual counterparty chain is exactly the set of headers the harness signs for it; chain B's upgrade store serves as the committed state of virtual chains for upgrade proofs")
	for k, v := range floors {
		c.Floor(k, v)
	}
	n := c.N(quickCases, thoroughCases)
	for i := 0; i < n; i++ {
		if c.SkipCase(i) {
			continue
		}
		r := c.CaseRng(i)
		pr := DefaultProfile()
		if tw != nil {
			tw(&pr)
		}
		var s *Sim
		err := kit.Try(func() {
			s = NewSim(c, r, pr)
			nops := ops/2 + r.Intn(ops)
			for j := 0; j < nops; j++ {
				s.Step(pr)
			}
			s.EndChecks()
			if os.Getenv("VERIF_TM_TRACE") != "" {
				for _, l := range s.trace {
					t.Log(l)
				}
			}
			if i < 2 {
				tail := s.trace
				if len(tail) > 30 {
					tail = tail[:30]
				}
				c.Sample(map[string]any{"case": c.CaseID(i), "ops": tail})
			}
		})
		c.Inc("cases")
		if err != nil {
			c.Inconcl(err.Error())
			continue
		}
		if len(s.classes) > 0 {
			c.Eval(abstract(s.classes))
		} else {
			c.Eval("")
		}
		c.Obs("operations", int64(len(s.classes)))
	}
}

func TestC20(t *testing.T) {
	runTM(t, "C20", 36, 60, 110, func(pr *Profile) {
		pr.Dup, pr.Conflict, pr.MisbFork, pr.MisbTime, pr.JumpPrune = 10, 9, 4, 4, 8
		pr.Mutant, pr.Power, pr.GateRecv, pr.GateSend, pr.GateV2 = 3, 3, 0, 0, 0
	}, map[string]int64{"client_messages": 350, "cons_states_compared": 15000, "duplicates_accepted": 20, "conflicts_accepted": 20, "conflicts_froze": 20, "removals_seen": 50, "misbehaviour_accepted_conflicting": 12, "freezes": 40, "recoveries": 30, "upgrades": 3})
}

func TestC21(t *testing.T) {
	runTM(t, "C21", 36, 60, 110, func(pr *Profile) {
		pr.JumpExpire, pr.GateInit, pr.GateHandshake, pr.GateV2, pr.GateRecv, pr.GateSend, pr.HonestReal, pr.RealHostile = 7, 6, 5, 5, 10, 6, 10, 4
		pr.Conflict, pr.MisbFork, pr.Mutant, pr.Power = 6, 4, 2, 2
	}, map[string]int64{"client_messages": 250, "status_compared_Active": 2500, "status_compared_Expired": 3000, "status_compared_Frozen": 900, "status_compared_frozen_and_expired": 400, "status_compared_Active_or_Expired": 4, "gate_ok_active": 70, "gate_rejected_inactive": 60, "gate_proof_consumers_rejected_inactive": 25, "gate_ok_active_update": 100, "gate_rejected_inactive_update": 12, "latest_height_checks": 5000, "recoveries": 30})
}

func TestC22(t *testing.T) {
	runTM(t, "C22", 36, 60, 110, func(pr *Profile) {
		pr.New, pr.Gap, pr.JumpPrune, pr.UpgradeVirt, pr.Recover = 26, 14, 9, 4, 5
		pr.Mutant, pr.Power, pr.GateRecv, pr.GateSend, pr.GateV2, pr.Conflict, pr.MisbFork, pr.MisbTime = 2, 2, 0, 0, 0, 2, 1, 1
	}, map[string]int64{"client_messages": 350, "metadata_triples_checked": 20000, "heights_with_0x2f_checked": 7000, "neighbour_lookups_compared": 70000, "prunes_oldest_checked": 70, "upgrades": 6, "recoveries": 30})
}

func TestC23(t *testing.T) {
	runTM(t, "C23", 36, 60, 110, func(pr *Profile) {
		pr.BadTime, pr.Gap, pr.New = 16, 14, 24
		pr.Mutant, pr.Power, pr.GateRecv, pr.GateSend, pr.GateV2, pr.Conflict = 2, 2, 0, 0, 0, 2
	}, map[string]int64{"client_messages": 400, "stored_by_update_checked": 180, "prev_neighbour_compared": 180, "next_neighbour_compared": 20, "badtime_accepted": 25, "badtime_froze": 25})
}

func TestC24(t *testing.T) {
	runTM(t, "C24", 36, 60, 110, func(pr *Profile) {
		pr.Mutant, pr.Power, pr.MisbFork, pr.MisbTime, pr.UpgradeVirt = 22, 18, 6, 6, 5
		pr.Conflict, pr.BadTime, pr.GateRecv, pr.GateSend, pr.GateV2, pr.GateInit, pr.GateHandshake = 2, 2, 0, 0, 0, 1, 1
	}, map[string]int64{"client_messages": 450, "headers_that_must_be_rejected": 200, "rejected_as_required": 200, "accepted_and_verified": 150, "must_reject_own-power": 80, "must_reject_trust-level": 10, "must_reject_trusted-vals-hash": 10, "must_reject_revision": 3, "must_reject_clock-drift": 2, "must_reject_trusting-period": 40, "must_reject_valset-hash": 6, "must_reject_no-trusted-state": 9, "misbehaviour_froze_verified": 18, "misbehaviour_that_must_not_freeze": 35})
}

func TestC25(t *testing.T) {
	runTM(t, "C25", 36, 60, 100, func(pr *Profile) {
		pr.Recover, pr.UpgradeVirt, pr.UpgradeReal, pr.JumpExpire, pr.Conflict, pr.MisbFork = 14, 10, 2, 6, 6, 4
		pr.Mutant, pr.Power, pr.GateRecv, pr.GateSend, pr.GateV2, pr.BadTime = 2, 2, 0, 0, 0, 2
	}, map[string]int64{"recover_success_checked": 45, "recover_rejected_as_required": 30, "upgrade_success_checked": 18, "upgrade_rejected_as_required": 25, "upgrade_trusting_period_scaled_checked": 4, "bystander_store_compared": 500, "real_upgrade_flows": 3})
}
