package tm

import (
	sdkmath "cosmossdk.io/math"

	sdk "github.com/cosmos/cosmos-sdk/types"

	transfertypes "github.com/cosmos/ibc-go/v11/modules/apps/transfer/types"
	clienttypes "github.com/cosmos/ibc-go/v11/modules/core/02-client/types"
	channeltypes "github.com/cosmos/ibc-go/v11/modules/core/04-channel/types"
	host "github.com/cosmos/ibc-go/v11/modules/core/24-host"
	ibctesting "github.com/cosmos/ibc-go/v11/testing"
	ibcmock "github.com/cosmos/ibc-go/v11/testing/mock"

	"verif/harness/kit"
)

// consumers of the real client (A's client of chain B) that verify proofs: every item below
// records something that really exists (or really does not exist) in B's state from
// consensus height provableAt on.

type inboundInit struct {
	chanID     string // channel in INIT on B
	provableAt H
}

type outPkt struct {
	pkt        channeltypes.Packet // really sent by A, never received by B
	provableAt H                   // B height from which the timeout height has passed
}

type ackItem struct {
	pkt        channeltypes.Packet // really sent by A and received by B
	ack        []byte
	provableAt H
}

func (s *Sim) realPathUsable() bool { return !s.pathBroken && !s.bHalted }

// provingHeight picks a stored consensus height of the real client whose root is B's real
// app hash and which is not below from.
func (s *Sim) provingHeight(from H) (H, bool) {
	p := s.realSubj.Prev
	var hs []H
	for _, h := range p.Heights() {
		if h.R == from.R && !h.Less(from) && h.N <= uint64(s.B.App.LastBlockHeight())+1 {
			if c := p.ConsDec[h]; c != nil && s.isRealRoot(h, c) {
				hs = append(hs, h)
			}
		}
	}
	if len(hs) == 0 {
		return H{}, false
	}
	return kit.Pick(s.R, hs), true
}

func (s *Sim) proofAt(key []byte, h H) ([]byte, clienttypes.Height, bool) {
	var proof []byte
	var ph clienttypes.Height
	if err := kit.Try(func() { proof, ph = s.B.QueryProofAtHeight(key, int64(h.N)) }); err != nil {
		s.tr("proof query failed: %v", err)
		return nil, ph, false
	}
	return proof, ph, true
}

// relayB relays B's latest header to A when the client can take it.
func (s *Sim) relayB() {
	if s.active(s.realSubj) && s.realSubj.V.Real {
		s.opHonestReal()
	}
}

func (s *Sim) opGateSend() bool {
	if !s.realPathUsable() {
		return false
	}
	acct := s.signer()
	th := clienttypes.NewHeight(1, 1_000_000)
	short := s.R.Chance(1, 2)
	if short {
		th = clienttypes.NewHeight(1, uint64(s.B.App.LastBlockHeight())+2+uint64(s.R.Intn(3)))
	}
	msg := transfertypes.NewMsgTransfer(s.P.EndpointA.ChannelConfig.PortID, s.P.EndpointA.ChannelID, sdk.NewCoin(sdk.DefaultBondDenom, sdkmath.NewInt(int64(1+s.R.Intn(50)))),
		acct.SenderAccount.GetAddress().String(), s.B.Addr(1).String(), th, 0, "")
	o := s.deliverAs(&opMeta{kind: "gate", gate: "SendPacket", uses: []*Subject{s.realSubj}}, acct, msg)
	if !o.OK() {
		return true
	}
	pkt, err := ibctesting.ParsePacketFromEvents(o.Res.Events)
	if err != nil {
		return true
	}
	if short {
		// never relayed: it will time out once B is past the timeout height
		s.outbound = append(s.outbound, outPkt{pkt: pkt, provableAt: H{1, th.RevisionHeight}})
		if len(s.outbound) > 12 {
			s.outbound = s.outbound[1:]
		}
		return true
	}
	if s.R.Chance(1, 2) {
		// B really receives it; its acknowledgement becomes provable
		var ack []byte
		var bh int64
		if err := kit.Try(func() {
			if e := s.P.EndpointB.UpdateClient(); e != nil {
				panic(kit.Abort{Msg: e.Error()})
			}
			proof, ph := s.A.QueryProof(host.PacketCommitmentKey(pkt.SourcePort, pkt.SourceChannel, pkt.Sequence))
			bacct := s.B.Acct(1 + s.R.Intn(8))
			ro := s.B.Deliver(bacct, channeltypes.NewMsgRecvPacket(pkt, proof, ph, bacct.SenderAccount.GetAddress().String()))
			if !ro.OK() {
				panic(kit.Abort{Msg: ro.Log})
			}
			var e error
			ack, e = ibctesting.ParseAckFromEvents(ro.Res.Events)
			if e != nil {
				panic(kit.Abort{Msg: e.Error()})
			}
			bh = ro.Height
		}); err != nil {
			s.tr("B could not receive: %s", short2(err.Error()))
			return true
		}
		s.acks = append(s.acks, ackItem{pkt: pkt, ack: ack, provableAt: H{1, uint64(bh) + 1}})
		if len(s.acks) > 12 {
			s.acks = s.acks[1:]
		}
		s.relayB()
	}
	return true
}

func short2(s string) string { return short(s) }

// feedInbound makes B really send a packet to A (or open a channel towards A) and relays
// B's header so that the fact becomes provable at a stored consensus height.
func (s *Sim) feedInbound() bool {
	if !s.realPathUsable() {
		return false
	}
	acct := s.B.Acct(1 + s.R.Intn(8))
	if s.R.Chance(1, 4) || len(s.inits) == 0 {
		msg := channeltypes.NewMsgChannelOpenInit(ibcmock.PortID, ibcmock.Version, channeltypes.UNORDERED, []string{s.P.EndpointB.ConnectionID}, ibcmock.PortID, acct.SenderAccount.GetAddress().String())
		o := s.B.Deliver(acct, msg)
		if o.OK() {
			if id, err := ibctesting.ParseChannelIDFromEvents(o.Res.Events); err == nil {
				s.inits = append(s.inits, inboundInit{chanID: id, provableAt: H{1, uint64(o.Height) + 1}})
				s.tr("B opened channel %s (INIT) at B height %d", id, o.Height)
			}
		}
	}
	msg := transfertypes.NewMsgTransfer(s.P.EndpointB.ChannelConfig.PortID, s.P.EndpointB.ChannelID, sdk.NewCoin(sdk.DefaultBondDenom, sdkmath.NewInt(int64(1+s.R.Intn(50)))),
		acct.SenderAccount.GetAddress().String(), s.A.Addr(2).String(), clienttypes.NewHeight(1, 1_000_000), 0, "")
	o := s.B.Deliver(acct, msg)
	if !o.OK() {
		s.tr("B could not send: %s", short(o.Log))
		return false
	}
	pkt, err := ibctesting.ParsePacketFromEvents(o.Res.Events)
	if err != nil {
		return false
	}
	// the commitment is in B's state after block o.Height, i.e. in the app hash of header o.Height+1
	s.inbound = append(s.inbound, inboundPkt{pkt: pkt, provableAt: H{1, uint64(o.Height) + 1}})
	s.tr("B sent packet seq %d at B height %d", pkt.Sequence, o.Height)
	s.relayB()
	return true
}

// opGateProof drives one proof-verifying consumer of the real client with a valid proof at a
// stored consensus height: RecvPacket, Acknowledgement, Timeout (non-membership) or
// ChanOpenTry.
func (s *Sim) opGateProof() bool {
	if !s.realPathUsable() {
		return false
	}
	sub := s.realSubj
	kinds := []string{"recv", "recv", "ack", "timeout", "try"}
	kit.Shuffle(s.R, kinds)
	for _, k := range kinds {
		acct := s.signer()
		signer := acct.SenderAccount.GetAddress().String()
		switch k {
		case "recv":
			if len(s.inbound) == 0 {
				continue
			}
			i := s.R.Intn(len(s.inbound))
			ip := s.inbound[i]
			h, ok := s.provingHeight(ip.provableAt)
			if !ok {
				continue
			}
			proof, ph, ok := s.proofAt(host.PacketCommitmentKey(ip.pkt.SourcePort, ip.pkt.SourceChannel, ip.pkt.Sequence), h)
			if !ok {
				return false
			}
			o := s.deliverAs(&opMeta{kind: "gate", gate: "RecvPacket", uses: []*Subject{sub}}, acct, channeltypes.NewMsgRecvPacket(ip.pkt, proof, ph, signer))
			if o.OK() {
				s.inbound = append(s.inbound[:i], s.inbound[i+1:]...)
			}
			return true
		case "ack":
			if len(s.acks) == 0 {
				continue
			}
			i := s.R.Intn(len(s.acks))
			it := s.acks[i]
			h, ok := s.provingHeight(it.provableAt)
			if !ok {
				continue
			}
			proof, ph, ok := s.proofAt(host.PacketAcknowledgementKey(it.pkt.DestinationPort, it.pkt.DestinationChannel, it.pkt.Sequence), h)
			if !ok {
				return false
			}
			o := s.deliverAs(&opMeta{kind: "gate", gate: "Acknowledgement", uses: []*Subject{sub}}, acct, channeltypes.NewMsgAcknowledgement(it.pkt, it.ack, proof, ph, signer))
			if o.OK() {
				s.acks = append(s.acks[:i], s.acks[i+1:]...)
			}
			return true
		case "timeout":
			if len(s.outbound) == 0 {
				continue
			}
			i := s.R.Intn(len(s.outbound))
			it := s.outbound[i]
			h, ok := s.provingHeight(it.provableAt)
			if !ok {
				continue
			}
			proof, ph, ok := s.proofAt(host.PacketReceiptKey(it.pkt.DestinationPort, it.pkt.DestinationChannel, it.pkt.Sequence), h)
			if !ok {
				return false
			}
			o := s.deliverAs(&opMeta{kind: "gate", gate: "Timeout", uses: []*Subject{sub}}, acct, channeltypes.NewMsgTimeout(it.pkt, 1, proof, ph, signer))
			if o.OK() {
				s.outbound = append(s.outbound[:i], s.outbound[i+1:]...)
			}
			return true
		case "try":
			if len(s.inits) == 0 {
				continue
			}
			it := kit.Pick(s.R, s.inits)
			h, ok := s.provingHeight(it.provableAt)
			if !ok {
				continue
			}
			proof, ph, ok := s.proofAt(host.ChannelKey(ibcmock.PortID, it.chanID), h)
			if !ok {
				return false
			}
			msg := channeltypes.NewMsgChannelOpenTry(ibcmock.PortID, ibcmock.Version, channeltypes.UNORDERED, []string{s.P.EndpointA.ConnectionID}, ibcmock.PortID, it.chanID, ibcmock.Version, proof, ph, signer)
			s.deliverAs(&opMeta{kind: "gate", gate: "ChanOpenTry", uses: []*Subject{sub}}, acct, msg)
			return true
		}
	}
	if len(s.inbound) < 3 {
		return s.feedInbound()
	}
	return false
}
