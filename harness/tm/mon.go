package tm

import (
	"bytes"
	"fmt"
	"strconv"
	"strings"
	"time"

	cmttypes "github.com/cometbft/cometbft/types"

	clienttypes "github.com/cosmos/ibc-go/v11/modules/core/02-client/types"
	ibctm "github.com/cosmos/ibc-go/v11/modules/light-clients/07-tendermint"

	"verif/harness/kit"
)

// revOf is the harness's own reading of the revision number carried by a chain id
// (`<name>-<n>` with n a positive decimal without leading zero; anything else is revision 0).
func revOf(chainID string) uint64 {
	i := strings.LastIndexByte(chainID, '-')
	if i < 1 || i == len(chainID)-1 {
		return 0
	}
	if chainID[i-1] == '-' || chainID[i-1] == '\n' {
		return 0
	}
	suf := chainID[i+1:]
	if suf[0] < '1' || suf[0] > '9' {
		return 0
	}
	n, err := strconv.ParseUint(suf, 10, 64)
	if err != nil {
		return 0
	}
	return n
}

func hdrH(h *ibctm.Header) H { return H{revOf(h.Header.ChainID), uint64(h.Header.Height)} }

func derivedCons(h *ibctm.Header) *ibctm.ConsensusState {
	c := &ibctm.ConsensusState{Timestamp: h.Header.Time, NextValidatorsHash: h.Header.NextValidatorsHash}
	c.Root.Hash = h.Header.AppHash
	return c
}

// classify says what a header is relative to the stored state, from its content alone.
func classify(p *Parsed, h *ibctm.Header) string {
	hh := hdrH(h)
	d := derivedCons(h)
	if _, ok := p.Cons[hh]; ok {
		if consEq(p.ConsDec[hh], d) {
			return "dup"
		}
		return "conflict"
	}
	pv, nx := p.Neighbours(hh)
	if pv != nil && p.ConsDec[*pv] != nil && !p.ConsDec[*pv].Timestamp.Before(d.Timestamp) {
		return "badtime"
	}
	if nx != nil && p.ConsDec[*nx] != nil && !d.Timestamp.Before(p.ConsDec[*nx].Timestamp) {
		return "badtime"
	}
	return "new"
}

// ---------------------------------------------------------------------------------------------
// C24 oracle: necessary conditions for acceptance, written from the property statement

func wellFormed(h *ibctm.Header) bool {
	return h != nil && h.SignedHeader != nil && h.Header != nil && h.Commit != nil
}

// mustRejectHeader lists the reasons why header h may not be accepted as an update by a client
// whose store is p, at block time now. Empty = the statement does not forbid acceptance.
func mustRejectHeader(p *Parsed, now time.Time, h *ibctm.Header, obs func(string)) []string {
	var why []string
	if !wellFormed(h) || p.CS == nil {
		return []string{"malformed"}
	}
	cs := p.CS
	hh := hdrH(h)
	th := hOf(h.TrustedHeight)
	tc, ok := p.ConsDec[th]
	if !ok {
		why = append(why, "no-trusted-state")
	} else {
		if !bytes.Equal(hashOfProtoSet(h.TrustedValidators), tc.NextValidatorsHash) {
			why = append(why, "trusted-vals-hash")
		}
		if expiredAt(tc.Timestamp, cs.TrustingPeriod, now) > 0 {
			why = append(why, "trusting-period")
		}
	}
	if hh.R != th.R {
		why = append(why, "revision")
	}
	if !th.Less(hh) {
		why = append(why, "height<=trusted")
	}
	if h.Header.Time.After(now.Add(cs.MaxClockDrift)) {
		why = append(why, "clock-drift")
	}
	if !bytes.Equal(hashOfProtoSet(h.ValidatorSet), h.Header.ValidatorsHash) {
		why = append(why, "valset-hash")
	}
	own := setFromProto(h.ValidatorSet)
	if own == nil {
		why = append(why, "own-set-invalid")
	} else {
		sg, tot := validPower(h, own, cs.ChainId)
		if sg*3 <= tot*2 {
			why = append(why, fmt.Sprintf("own-power(%d/%d)", sg, tot))
		}
	}
	if tset := setFromProto(h.TrustedValidators); tset == nil {
		why = append(why, "trusted-set-invalid")
	} else {
		sg, tot := validPower(h, tset, cs.ChainId)
		num, den := int64(cs.TrustLevel.Numerator), int64(cs.TrustLevel.Denominator)
		if den > 0 && sg*den < tot*num {
			adjacent := hh.R == th.R && hh.N == th.N+1
			if adjacent && num*3 > den*2 {
				// CometBFT's adjacent verification (trusted base) needs only +2/3 of the
				// next validator set; a trust level above 2/3 is not applied there
				if obs != nil {
					obs("adjacent_header_below_trust_level_above_two_thirds")
				}
			} else {
				why = append(why, fmt.Sprintf("trust-level(%d/%d<%d/%d)", sg, tot, num, den))
			}
		}
	}
	return why
}

// mustRejectMisbHeader: conditions under which a header may not count as a verified half of
// a misbehaviour (checked against the stored trusted state it names).
func mustRejectMisbHeader(p *Parsed, now time.Time, h *ibctm.Header) []string {
	var why []string
	if !wellFormed(h) || p.CS == nil {
		return []string{"malformed"}
	}
	cs := p.CS
	hh := hdrH(h)
	th := hOf(h.TrustedHeight)
	tc, ok := p.ConsDec[th]
	if !ok {
		why = append(why, "no-trusted-state")
	} else {
		if !bytes.Equal(hashOfProtoSet(h.TrustedValidators), tc.NextValidatorsHash) {
			why = append(why, "trusted-vals-hash")
		}
		if expiredAt(tc.Timestamp, cs.TrustingPeriod, now) > 0 {
			why = append(why, "trusting-period")
		}
	}
	if !th.Less(hh) {
		why = append(why, "height<=trusted")
	}
	if !bytes.Equal(hashOfProtoSet(h.ValidatorSet), h.Header.ValidatorsHash) {
		why = append(why, "valset-hash")
	}
	// the chain id the votes may have been signed for: the header's own or the client's
	ids := []string{h.Header.ChainID, cs.ChainId}
	best := func(set *cmttypes.ValidatorSet) (int64, int64) {
		var bs, bt int64
		for _, id := range ids {
			sg, tot := validPower(h, set, id)
			if sg >= bs {
				bs = sg
			}
			bt = tot
		}
		return bs, bt
	}
	if own := setFromProto(h.ValidatorSet); own == nil {
		why = append(why, "own-set-invalid")
	} else if sg, tot := best(own); sg*3 <= tot*2 {
		why = append(why, fmt.Sprintf("own-power(%d/%d)", sg, tot))
	}
	if tset := setFromProto(h.TrustedValidators); tset == nil {
		why = append(why, "trusted-set-invalid")
	} else {
		sg, tot := best(tset)
		num, den := int64(cs.TrustLevel.Numerator), int64(cs.TrustLevel.Denominator)
		if den > 0 && sg*den < tot*num {
			why = append(why, fmt.Sprintf("trust-level(%d/%d<%d/%d)", sg, tot, num, den))
		}
	}
	return why
}

// misbConflict: do the two headers contradict each other (fork, or time going backwards)?
func misbConflict(m *ibctm.Misbehaviour) bool {
	if !wellFormed(m.Header1) || !wellFormed(m.Header2) {
		return false
	}
	h1, h2 := hdrH(m.Header1), hdrH(m.Header2)
	if h1 == h2 {
		return !bytes.Equal(m.Header1.Commit.BlockID.Hash, m.Header2.Commit.BlockID.Hash)
	}
	if h2.Less(h1) {
		return !m.Header1.Header.Time.After(m.Header2.Header.Time)
	}
	return false
}

func sigOf(why []string) string {
	if len(why) == 0 {
		return ""
	}
	w := why[0]
	if i := strings.IndexByte(w, '('); i > 0 {
		w = w[:i]
	}
	return w
}

// ---------------------------------------------------------------------------------------------
// per-block monitors

func (s *Sim) updatesFor(o *kit.Outcome, id string) int {
	n := 0
	for _, m := range o.Msgs {
		if u, ok := m.(*clienttypes.MsgUpdateClient); ok && u.ClientId == id {
			n++
		}
	}
	return n
}

// afterBlock runs after every block of chain A that carried a transaction or keeper call.
func (s *Sim) afterBlock(o *kit.Outcome) {
	meta := s.cur
	ibc := s.A.Snapshot()["ibc"]
	cdc := s.A.App.AppCodec()
	curs := map[*Subject]*Parsed{}
	for _, sub := range s.Subjects {
		cur := ParseClient(cdc, ibc, sub.ID)
		curs[sub] = cur
		s.stateMonitors(sub, sub.Prev, cur, o)
	}
	if meta != nil {
		s.judgeOp(o, meta, curs)
	}
	if !o.OK() && len(o.DiffIn("ibc")) > 0 {
		s.viol(s.Focus, s.Focus+"|failed-tx-changed-ibc-state", "failed operation changed the ibc store:%s", o.DiffString())
	}
	for _, sub := range s.Subjects {
		sub.Prev = curs[sub]
	}
	s.statusProbe()
}

func (s *Sim) stateMonitors(sub *Subject, prev, cur *Parsed, o *kit.Outcome) {
	if prev == nil || prev.CS == nil {
		return
	}
	if sub.Role == "bystander" {
		s.inc("C25", "bystander_store_compared")
		if len(prev.Raw) != len(cur.Raw) {
			s.viol("C25", "C25|bystander-changed", "bystander client %s changed: %d -> %d keys", sub.ID, len(prev.Raw), len(cur.Raw))
		}
		for k, v := range prev.Raw {
			if !bytes.Equal(cur.Raw[k], v) {
				s.viol("C25", "C25|bystander-changed", "bystander client %s: key %q changed", sub.ID, k)
			}
		}
		return
	}
	isUpdate := o.OK() && (s.updatesFor(o, sub.ID) > 0)

	// ---- C20: stored consensus states never change; removal only when expired
	var removed []H
	for _, h := range prev.Heights() {
		nb, ok := cur.Cons[h]
		if !ok {
			removed = append(removed, h)
			continue
		}
		s.inc("C20", "cons_states_compared")
		if !bytes.Equal(nb, prev.Cons[h]) {
			s.viol("C20", "C20|overwrite", "client %s consensus state at %s changed: %s -> %s", sub.ID, h, consStr(prev.ConsDec[h]), consStr(cur.ConsDec[h]))
		}
	}
	for _, h := range removed {
		s.inc("C20", "removals_seen")
		s.inc("C22", "removals_seen")
		pc := prev.ConsDec[h]
		if pc == nil {
			continue
		}
		e := expiredAt(pc.Timestamp, prev.CS.TrustingPeriod, o.BlockTime)
		if e < 0 {
			s.viol("C20", "C20|removed-unexpired", "client %s: consensus state %s (t=%s) removed at block time %s although trusting period %s had not passed",
				sub.ID, h, pc.Timestamp.UTC().Format(time.RFC3339Nano), o.BlockTime.Format(time.RFC3339Nano), prev.CS.TrustingPeriod)
			s.viol("C22", "C22|pruned-unexpired", "client %s: consensus state %s pruned before expiry", sub.ID, h)
		}
	}

	// ---- C22: pruning discipline
	if len(removed) > 0 {
		hs := prev.Heights()
		switch {
		case !isUpdate:
			s.viol("C22", "C22|removed-outside-update", "client %s: consensus states %v removed by a block without a successful update of this client", sub.ID, removed)
		case len(removed) > s.updatesFor(o, sub.ID):
			s.viol("C22", "C22|pruned-more-than-oldest", "client %s: %d consensus states removed by %d update(s): %v", sub.ID, len(removed), s.updatesFor(o, sub.ID), removed)
		default:
			for i, h := range removed {
				if h != hs[i] {
					s.viol("C22", "C22|pruned-not-oldest", "client %s: pruned %s while the oldest stored height was %s", sub.ID, h, hs[i])
				}
			}
			s.inc("C22", "prunes_oldest_checked")
		}
	}

	// ---- C21: latest height never decreases
	if cur.CS != nil {
		s.inc("C21", "latest_height_checks")
		if cur.Latest().Less(prev.Latest()) {
			s.viol("C21", "C21|latest-height-decreased", "client %s latest height %s -> %s", sub.ID, prev.Latest(), cur.Latest())
		}
	}

	// ---- C23: a state stored by an update lies strictly between its neighbours in time
	if isUpdate {
		for _, h := range cur.Heights() {
			if _, old := prev.Cons[h]; old {
				continue
			}
			c := cur.ConsDec[h]
			if c == nil {
				continue
			}
			s.inc("C23", "stored_by_update_checked")
			pv, nx := cur.Neighbours(h)
			if pv != nil && cur.ConsDec[*pv] != nil {
				s.inc("C23", "prev_neighbour_compared")
				if !cur.ConsDec[*pv].Timestamp.Before(c.Timestamp) {
					s.viol("C23", "C23|stored-not-after-previous", "client %s: update stored %s with time %s, not after previous neighbour %s time %s (frozen=%v)",
						sub.ID, h, c.Timestamp.UTC().Format(time.RFC3339Nano), *pv, cur.ConsDec[*pv].Timestamp.UTC().Format(time.RFC3339Nano), cur.Frozen())
				}
			}
			if nx != nil && cur.ConsDec[*nx] != nil {
				s.inc("C23", "next_neighbour_compared")
				if !c.Timestamp.Before(cur.ConsDec[*nx].Timestamp) {
					s.viol("C23", "C23|stored-not-before-next", "client %s: update stored %s with time %s, not before next neighbour %s time %s (frozen=%v)",
						sub.ID, h, c.Timestamp.UTC().Format(time.RFC3339Nano), *nx, cur.ConsDec[*nx].Timestamp.UTC().Format(time.RFC3339Nano), cur.Frozen())
				}
			}
		}
	}

	// ---- C22: structure of the metadata
	s.structure(sub, cur)
	s.neighbourProbes(sub, cur)
}

func (s *Sim) structure(sub *Subject, cur *Parsed) {
	for _, m := range cur.Malformed {
		s.viol("C22", "C22|malformed-key", "client %s: unparsable key %q", sub.ID, m)
	}
	pointed := map[H]int{}
	var order []H
	for _, it := range cur.Iter {
		if len(it.Key) != 16 {
			s.viol("C22", "C22|iteration-key-length", "client %s: iteration key %x has %d bytes", sub.ID, it.Key, len(it.Key))
			continue
		}
		if !strings.HasPrefix(it.Value, consPrefix) {
			s.viol("C22", "C22|iteration-value", "client %s: iteration key %x -> %q", sub.ID, it.Key, it.Value)
			continue
		}
		h, ok := parseH(it.Value[len(consPrefix):])
		if !ok {
			s.viol("C22", "C22|iteration-value", "client %s: iteration key %x -> %q", sub.ID, it.Key, it.Value)
			continue
		}
		pointed[h]++
		order = append(order, h)
		if !bytes.Equal(it.Key, beKey(h)) {
			s.viol("C22", "C22|iteration-key-not-big-endian", "client %s: iteration entry for %s stored under %x, big-endian(rev,height) is %x", sub.ID, h, it.Key, beKey(h))
		}
		if _, ok := cur.Cons[h]; !ok {
			s.viol("C22", "C22|orphan-iteration-key", "client %s: iteration key for %s without consensus state", sub.ID, h)
		}
	}
	for i := 1; i < len(order); i++ {
		if !order[i-1].Less(order[i]) {
			s.viol("C22", "C22|iteration-order", "client %s: ascending iteration visits %s before %s", sub.ID, order[i-1], order[i])
		}
	}
	for _, h := range cur.Heights() {
		s.inc("C22", "metadata_triples_checked")
		if has2f(h) {
			s.inc("C22", "heights_with_0x2f_checked")
		}
		if pointed[h] != 1 {
			s.viol("C22", "C22|iteration-entries", "client %s: consensus state %s has %d iteration entries", sub.ID, h, pointed[h])
		}
		if v, ok := cur.PT[h]; !ok || len(v) != 8 {
			s.viol("C22", "C22|processed-time", "client %s: consensus state %s has processed time %x (present=%v)", sub.ID, h, v, ok)
		}
		if v, ok := cur.PH[h]; !ok {
			s.viol("C22", "C22|processed-height", "client %s: consensus state %s has no processed height", sub.ID, h)
		} else if _, ok := parseH(string(v)); !ok {
			s.viol("C22", "C22|processed-height", "client %s: consensus state %s has processed height %q", sub.ID, h, v)
		}
	}
	for h := range cur.PT {
		if _, ok := cur.Cons[h]; !ok {
			s.viol("C22", "C22|orphan-processed-time", "client %s: processed time for %s without consensus state", sub.ID, h)
		}
	}
	for h := range cur.PH {
		if _, ok := cur.Cons[h]; !ok {
			s.viol("C22", "C22|orphan-processed-height", "client %s: processed height for %s without consensus state", sub.ID, h)
		}
	}
}

// neighbourProbes calls the real lookup functions on the committed client store.
func (s *Sim) neighbourProbes(sub *Subject, cur *Parsed) {
	if s.Focus != "C22" && s.Focus != "C23" {
		return
	}
	hs := cur.Heights()
	if len(hs) == 0 {
		return
	}
	var probes []H
	add := func(h H) { probes = append(probes, h) }
	for _, h := range hs {
		add(h)
		if h.N > 0 {
			add(H{h.R, h.N - 1})
		}
		add(H{h.R, h.N + 1})
	}
	add(H{0, 0})
	add(H{hs[len(hs)-1].R + 1, 1})
	add(H{hs[len(hs)-1].R, hs[len(hs)-1].N + 0x2f})
	if hs[0].R > 0 {
		add(H{hs[0].R - 1, ^uint64(0)})
	}
	const maxProbes = 20
	if len(probes) > maxProbes {
		s.probeRot++
		off := (s.probeRot * 7) % len(probes)
		rot := append(append([]H{}, probes[off:]...), probes[:off]...)
		probes = rot[:maxProbes]
	}
	ctx := s.A.GetContext()
	store := s.A.App.GetIBCKeeper().ClientKeeper.ClientStore(ctx, sub.ID)
	cdc := s.A.App.AppCodec()
	for _, q := range probes {
		var wantPrev, wantNext *H
		for i := range hs {
			if hs[i].Less(q) {
				wantPrev = &hs[i]
			} else if q.Less(hs[i]) && wantNext == nil {
				wantNext = &hs[i]
			}
		}
		var gn, gp *ibctm.ConsensusState
		var okn, okp bool
		if err := kit.TryAll(func() {
			gn, okn = ibctm.GetNextConsensusState(store, cdc, q.IBC())
			gp, okp = ibctm.GetPreviousConsensusState(store, cdc, q.IBC())
		}); err != nil {
			s.viol("C22", "C22|neighbour-lookup-panic", "client %s: neighbour lookup at %s panicked: %v", sub.ID, q, err)
			continue
		}
		s.inc("C22", "neighbour_lookups_compared")
		cmp := func(dir string, got *ibctm.ConsensusState, ok bool, want *H) {
			switch {
			case want == nil && ok:
				s.viol("C22", "C22|neighbour-"+dir, "client %s: %s neighbour of %s should not exist, got %s (stored heights %v)", sub.ID, dir, q, consStr(got), hs)
			case want != nil && !ok:
				s.viol("C22", "C22|neighbour-"+dir, "client %s: %s neighbour of %s should be %s, got none (stored heights %v)", sub.ID, dir, q, *want, hs)
			case want != nil && !consEq(got, cur.ConsDec[*want]):
				s.viol("C22", "C22|neighbour-"+dir, "client %s: %s neighbour of %s should be %s %s, got %s", sub.ID, dir, q, *want, consStr(cur.ConsDec[*want]), consStr(got))
			}
		}
		cmp("next", gn, okn, wantNext)
		cmp("previous", gp, okp, wantPrev)
	}
}

// statusProbe compares the real status with the model at the next block's time.
func (s *Sim) statusProbe() {
	ctx := s.A.GetContext()
	now := ctx.BlockTime()
	for _, sub := range s.Subjects {
		if sub.Prev == nil || sub.Prev.CS == nil {
			continue
		}
		model := sub.Prev.ModelStatus(now)
		got := string(s.A.App.GetIBCKeeper().ClientKeeper.GetClientStatus(ctx, sub.ID))
		s.inc("C21", "status_compared_"+strings.ReplaceAll(model, "|", "_or_"))
		if sub.Prev.Frozen() {
			if c := sub.Prev.ConsDec[sub.Prev.Latest()]; c == nil || expiredAt(c.Timestamp, sub.Prev.CS.TrustingPeriod, now) > 0 {
				s.inc("C21", "status_compared_frozen_and_expired")
			}
		}
		if !statusOK(model, got) {
			s.viol("C21", "C21|status|model="+model+"|got="+got, "client %s: status %s, model %s at %s (latest %s, frozen=%v)", sub.ID, got, model, now.UTC().Format(time.RFC3339Nano), sub.Prev.Latest(), sub.Prev.Frozen())
		}
	}
}

// ---------------------------------------------------------------------------------------------
// per-operation judgments

func (s *Sim) judgeOp(o *kit.Outcome, m *opMeta, curs map[*Subject]*Parsed) {
	now := o.BlockTime
	switch m.kind {
	case "update":
		s.judgeUpdate(o, m, curs[m.subj], now)
	case "misbehaviour":
		s.judgeMisb(o, m, curs[m.subj], now)
	case "gate":
		s.judgeGate(o, m, now)
	case "recover":
		s.judgeRecover(o, m, curs, now)
	case "upgrade":
		s.judgeUpgrade(o, m, curs, now)
	}
}

func outcome(o *kit.Outcome) string {
	if o.OK() {
		return "ok"
	}
	return "rej"
}

func (s *Sim) judgeUpdate(o *kit.Outcome, m *opMeta, cur *Parsed, now time.Time) {
	sub, prev, h := m.subj, m.subj.Prev, m.hdr
	model := prev.ModelStatus(now)
	class := "malformed"
	if wellFormed(h) {
		class = classify(prev, h)
	}
	belowHighLevel := false
	why := mustRejectHeader(prev, now, h, func(n string) { s.inc("C24", n); belowHighLevel = true })
	ok := o.OK()
	if ok && belowHighLevel && len(why) == 0 {
		s.inc("C24", "note_adjacent_header_accepted_below_trust_level_above_two_thirds")
		if s.Focus == "C24" && s.C.Observed["note_adjacent_header_accepted_below_trust_level_above_two_thirds"] == 1 {
			tset := setFromProto(h.TrustedValidators)
			sg, tot := validPower(h, tset, prev.CS.ChainId)
			s.C.Note(fmt.Sprintf("observation (not raised, inside CometBFT's adjacent verification = trusted base): client %s with trust level %d/%d accepted the adjacent header %s signed by %d/%d of the trusted set (more than 2/3 but below the trust level)",
				sub.ID, prev.CS.TrustLevel.Numerator, prev.CS.TrustLevel.Denominator, hdrString(h), sg, tot))
		}
	}
	s.inc("", "client_messages")
	s.inc("", "update_"+class+"_"+outcome(o))
	if len(why) > 0 {
		s.inc("C24", "headers_that_must_be_rejected")
		s.inc("C24", "must_reject_"+sigOf(why))
	} else {
		s.inc("C24", "headers_not_forbidden")
	}
	s.tr("%s %s [%s] %s status=%s must-reject=%v -> %s %s", m.label, sub.ID, class, hdrString(h), model, why, outcome(o), short(o.Log))
	s.classes = append(s.classes, fmt.Sprintf("upd/%s/%s/%s/%s/%s", m.label, class, sigOf(why), model, outcome(o)))

	if !ok {
		if len(why) > 0 {
			s.inc("C24", "rejected_as_required")
		}
		if definitelyNotActive(model) {
			s.inc("C21", "gate_rejected_inactive_update")
		}
		return
	}
	// ---- accepted
	if definitelyNotActive(model) {
		s.viol("C21", "C21|gate|update|"+model, "update of client %s succeeded while its status was %s at %s", sub.ID, model, now.UTC().Format(time.RFC3339Nano))
	} else {
		s.inc("C21", "gate_ok_active_update")
	}
	if len(why) > 0 {
		s.viol("C24", "C24|accepted|"+sigOf(why), "client %s accepted header %s although %v (label %s)", sub.ID, hdrString(h), why, m.label)
	} else {
		s.inc("C24", "accepted_and_verified")
	}
	hh := hdrH(h)
	froze := cur.Frozen() && !prev.Frozen()
	if froze {
		s.inc("", "freezes")
		sub.everFrozen = true
	}
	switch class {
	case "dup":
		s.inc("C20", "duplicates_accepted")
		if !bytes.Equal(prev.PT[hh], cur.PT[hh]) || !bytes.Equal(prev.PH[hh], cur.PH[hh]) || !bytes.Equal(prev.Cons[hh], cur.Cons[hh]) {
			s.viol("C20", "C20|duplicate-changed-state", "client %s: resubmitted header at %s changed the stored state/metadata (pt %x->%x ph %q->%q)", sub.ID, hh, prev.PT[hh], cur.PT[hh], prev.PH[hh], cur.PH[hh])
		}
		for _, x := range cur.Heights() {
			if _, ok := prev.Cons[x]; !ok {
				s.viol("C20", "C20|duplicate-added-state", "client %s: resubmitted header at %s added consensus state %s", sub.ID, hh, x)
			}
		}
	case "conflict":
		s.inc("C20", "conflicts_accepted")
		if !cur.Frozen() {
			s.viol("C20", "C20|conflict-not-frozen", "client %s accepted a header for stored height %s with a different consensus state (%s vs stored %s) and is not frozen",
				sub.ID, hh, consStr(derivedCons(h)), consStr(prev.ConsDec[hh]))
		} else {
			s.inc("C20", "conflicts_froze")
		}
	case "badtime":
		s.inc("C23", "badtime_accepted")
		_, stored := cur.Cons[hh]
		if !cur.Frozen() {
			s.viol("C23", "C23|time-violation-not-frozen", "client %s accepted header %s whose time is not strictly between its stored neighbours and is not frozen (stored=%v)", sub.ID, hdrString(h), stored)
		} else {
			s.inc("C23", "badtime_froze")
		}
	case "new":
		s.inc("", "new_states_accepted")
		if _, stored := cur.Cons[hh]; stored && !cur.Frozen() {
			sub.accepted = append(sub.accepted, cloneHeader(h))
			if len(sub.accepted) > 40 {
				sub.accepted = sub.accepted[1:]
			}
		}
	}
}

func (s *Sim) judgeMisb(o *kit.Outcome, m *opMeta, cur *Parsed, now time.Time) {
	sub, prev := m.subj, m.subj.Prev
	model := prev.ModelStatus(now)
	w1 := mustRejectMisbHeader(prev, now, m.misb.Header1)
	w2 := mustRejectMisbHeader(prev, now, m.misb.Header2)
	conflict := misbConflict(m.misb)
	ok := o.OK()
	froze := cur.Frozen() && !prev.Frozen()
	s.inc("", "client_messages")
	s.inc("", "misbehaviour_"+outcome(o))
	s.tr("%s %s h1=%s h2=%s status=%s conflict=%v w1=%v w2=%v -> %s froze=%v %s", m.label, sub.ID, hdrString(m.misb.Header1), hdrString(m.misb.Header2), model, conflict, w1, w2, outcome(o), froze, short(o.Log))
	s.classes = append(s.classes, fmt.Sprintf("misb/%s/%v/%s/%s/%s/%s/%v", m.label, conflict, sigOf(w1), sigOf(w2), model, outcome(o), froze))
	if len(w1)+len(w2) > 0 || !conflict {
		s.inc("C24", "misbehaviour_that_must_not_freeze")
	}
	if !ok {
		if definitelyNotActive(model) {
			s.inc("C21", "gate_rejected_inactive_update")
		}
		return
	}
	if definitelyNotActive(model) {
		s.viol("C21", "C21|gate|misbehaviour|"+model, "misbehaviour for client %s processed while its status was %s", sub.ID, model)
	}
	if froze {
		s.inc("", "freezes")
		sub.everFrozen = true
		s.inc("C24", "misbehaviour_froze")
		if len(w1) > 0 {
			s.viol("C24", "C24|misbehaviour-froze|header1|"+sigOf(w1), "client %s frozen by misbehaviour whose header1 %s fails: %v", sub.ID, hdrString(m.misb.Header1), w1)
		}
		if len(w2) > 0 {
			s.viol("C24", "C24|misbehaviour-froze|header2|"+sigOf(w2), "client %s frozen by misbehaviour whose header2 %s fails: %v", sub.ID, hdrString(m.misb.Header2), w2)
		}
		if !conflict {
			s.viol("C24", "C24|misbehaviour-froze|no-conflict", "client %s frozen by two headers that do not conflict: %s / %s", sub.ID, hdrString(m.misb.Header1), hdrString(m.misb.Header2))
		}
		if len(w1)+len(w2) == 0 && conflict {
			s.inc("C24", "misbehaviour_froze_verified")
		}
		// cross-revision / beyond-clock-drift halves are accepted by design; recorded only
		for _, h := range []*ibctm.Header{m.misb.Header1, m.misb.Header2} {
			if hdrH(h).R != h.TrustedHeight.RevisionNumber {
				s.inc("C24", "note_misbehaviour_froze_with_cross_revision_header")
				if s.Focus == "C24" && s.C.Observed["note_misbehaviour_froze_with_cross_revision_header"] == 1 {
					s.C.Note(fmt.Sprintf("observation (not raised: revision and clock-drift conditions are applied to updates only, by design of the misbehaviour path): client %s frozen by misbehaviour whose header %s is in another revision than its trusted height", sub.ID, hdrString(h)))
				}
			}
			if h.Header.Time.After(now.Add(prev.CS.MaxClockDrift)) {
				s.inc("C24", "note_misbehaviour_froze_with_header_beyond_clock_drift")
				if s.Focus == "C24" && s.C.Observed["note_misbehaviour_froze_with_header_beyond_clock_drift"] == 1 {
					s.C.Note(fmt.Sprintf("observation (not raised, see above): client %s frozen at block time %s by misbehaviour whose header %s lies beyond the max clock drift %s", sub.ID, now.UTC().Format(time.RFC3339Nano), hdrString(h), prev.CS.MaxClockDrift))
				}
			}
		}
	} else if conflict && !prev.Frozen() {
		// the message was accepted (both halves verified by the client) and the halves conflict
		s.viol("C20", "C20|misbehaviour-not-frozen", "client %s accepted conflicting misbehaviour (%s / %s) and is not frozen", sub.ID, hdrString(m.misb.Header1), hdrString(m.misb.Header2))
	}
	if conflict {
		s.inc("C20", "misbehaviour_accepted_conflicting")
	}
}

func (s *Sim) judgeGate(o *kit.Outcome, m *opMeta, now time.Time) {
	worst := stActive
	for _, u := range m.uses {
		st := u.Prev.ModelStatus(now)
		if definitelyNotActive(st) {
			worst = st
		} else if st == stEither && worst == stActive {
			worst = stEither
		}
	}
	s.inc("C21", "gate_"+m.gate+"_"+strings.ReplaceAll(worst, "|", "_or_")+"_"+outcome(o))
	s.tr("gate %s via %s status=%s -> %s %s", m.gate, ids(m.uses), worst, outcome(o), short(o.Log))
	s.classes = append(s.classes, fmt.Sprintf("gate/%s/%s/%s", m.gate, worst, outcome(o)))
	if o.OK() {
		if definitelyNotActive(worst) {
			s.viol("C21", "C21|gate|"+m.gate+"|"+worst, "%s succeeded through client %s whose status was %s at %s", m.gate, ids(m.uses), worst, now.UTC().Format(time.RFC3339Nano))
		} else {
			s.inc("C21", "gate_ok_active")
		}
	} else if definitelyNotActive(worst) {
		s.inc("C21", "gate_rejected_inactive")
		switch m.gate {
		case "RecvPacket", "Acknowledgement", "Timeout", "ChanOpenTry":
			s.inc("C21", "gate_proof_consumers_rejected_inactive")
		}
	}
}

func ids(us []*Subject) string {
	var x []string
	for _, u := range us {
		x = append(x, u.ID)
	}
	return strings.Join(x, ",")
}

func short(s string) string {
	if len(s) > 330 {
		return s[:330] + "…"
	}
	return s
}
