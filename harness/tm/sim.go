package tm

import (
	"fmt"
	"sort"
	"strings"
	"time"

	sdk "github.com/cosmos/cosmos-sdk/types"

	cmttypes "github.com/cometbft/cometbft/types"

	clienttypes "github.com/cosmos/ibc-go/v11/modules/core/02-client/types"
	commitmenttypes "github.com/cosmos/ibc-go/v11/modules/core/23-commitment/types"
	ibctm "github.com/cosmos/ibc-go/v11/modules/light-clients/07-tendermint"
	ibctesting "github.com/cosmos/ibc-go/v11/testing"

	"verif/harness/kit"
)

// VChain is the forging material for one counterparty chain (virtual, or the real chain B).
type VChain struct {
	Name   string
	Rev    uint64
	Sign   signFn
	Sets   []*cmttypes.ValidatorSet
	byHash map[string]*cmttypes.ValidatorSet
	Real   bool
}

func (v *VChain) ChainID() string { return fmt.Sprintf("%s-%d", v.Name, v.Rev) }
func (v *VChain) ChainIDAt(rev uint64) string {
	return fmt.Sprintf("%s-%d", v.Name, rev)
}

func (v *VChain) addSet(s *cmttypes.ValidatorSet) *cmttypes.ValidatorSet {
	if v.byHash == nil {
		v.byHash = map[string]*cmttypes.ValidatorSet{}
	}
	if old, ok := v.byHash[string(s.Hash())]; ok {
		return old
	}
	v.Sets = append(v.Sets, s)
	v.byHash[string(s.Hash())] = s
	return s
}

// setFor returns the validator set the harness knows under this hash (nil if none).
func (v *VChain) setFor(hash []byte) *cmttypes.ValidatorSet { return v.byHash[string(hash)] }

// Subject is one 07-tendermint client on chain A that the monitors watch.
type Subject struct {
	ID   string
	V    *VChain
	Real bool
	Role string // main | substitute | bystander
	Prev *Parsed

	accepted []*ibctm.Header // headers accepted so far (for duplicates and misbehaviour)
	Conn     string          // an INIT connection opened through this client (handshake gating)
	V2Ready  bool            // a v2 counterparty was registered
	// harness knowledge
	everFrozen bool
}

type opMeta struct {
	kind    string // update | misbehaviour | recover | upgrade | gate | create | other
	label   string
	subj    *Subject
	hdr     *ibctm.Header
	misb    *ibctm.Misbehaviour
	uses    []*Subject // clients whose Active status must gate this operation
	gate    string
	mutated bool
	// recovery / upgrade
	subst *Subject
	upg   *upgradeReq
}

// Sim is one world + subjects + monitors.
type Sim struct {
	C     *kit.Check
	W     *kit.World
	A, B  *kit.Chain
	R     *kit.Rng
	Focus string
	P     *ibctesting.Path

	Subjects []*Subject
	byID     map[string]*Subject
	trace    []string
	classes  []string
	cur      *opMeta
	inOp     bool
	nVirt    int

	// real-path bookkeeping
	inbound    []inboundPkt // packets B→A that were really sent (commitment on B)
	realSubj   *Subject
	bHalted    bool
	pathBroken bool
	solo       *Subject
	inits      []inboundInit
	outbound   []outPkt
	acks       []ackItem
	// B height -> app hash of B's real header at that height (known to be provable against)
	realRoots    map[uint64][]byte
	upgradedReal bool

	otherViol int
	probeRot  int
}

func (s *Sim) tr(format string, args ...any) {
	s.trace = append(s.trace, fmt.Sprintf(format, args...))
}

func (s *Sim) viol(prop, sig, format string, args ...any) {
	what := fmt.Sprintf(format, args...)
	if prop == s.Focus {
		tail := s.trace
		if len(tail) > 40 {
			tail = tail[len(tail)-40:]
		}
		s.C.Violate(sig, what, map[string]any{"trace_tail": tail})
	} else {
		s.otherViol++
		s.C.Inc("other_property_violations_" + prop)
		s.C.T.Logf("(not judged here) %s %s: %s", prop, sig, what)
	}
}

// inc counts an observation of a monitor belonging to prop; only the focused property's
// counters enter the evidence (so that floors are per property).
func (s *Sim) inc(prop, name string) {
	if prop == s.Focus || prop == "" {
		s.C.Inc(name)
	}
}

func (s *Sim) signer() ibctesting.SenderAccount { return s.A.Acct(1 + s.R.Intn(8)) }

func (s *Sim) now() time.Time { return s.W.Coord.CurrentTime.UTC() }

// Profile holds the operation weights of a workload.
type Profile struct {
	New, Gap, Dup, Conflict, BadTime, Mutant, Power     int
	MisbFork, MisbTime                                  int
	Jump, JumpExpire, JumpPrune                         int
	Recover, UpgradeVirt, UpgradeReal                   int
	GateInit, GateV2, GateRecv, GateSend, GateHandshake int
	HonestReal, RealHostile                             int
	Virt                                                int // number of virtual subjects
}

func DefaultProfile() Profile {
	return Profile{
		New: 22, Gap: 10, Dup: 6, Conflict: 5, BadTime: 6, Mutant: 8, Power: 8,
		MisbFork: 3, MisbTime: 3,
		Jump: 4, JumpExpire: 3, JumpPrune: 5,
		Recover: 4, UpgradeVirt: 2, UpgradeReal: 0,
		GateInit: 3, GateV2: 2, GateRecv: 3, GateSend: 2, GateHandshake: 2,
		HonestReal: 4, RealHostile: 1,
		Virt: 3,
	}
}

// ---------------------------------------------------------------------------------------------
// world construction

var trustLevels = []ibctm.Fraction{{Numerator: 1, Denominator: 3}, {Numerator: 1, Denominator: 2}, {Numerator: 2, Denominator: 3}, {Numerator: 2, Denominator: 5}, {Numerator: 1, Denominator: 3}, {Numerator: 3, Denominator: 4}}

var revPool = []uint64{1, 2, 3, 47, 0x2f2f, 46, 0x2f00000001}

var startHeights = []uint64{5, 40, 46, 0x2efa, 300, 1<<40 + 40, 0x2f2e, 12}

func NewSim(c *kit.Check, r *kit.Rng, pr Profile) *Sim {
	w := kit.NewWorld(c.T, 2)
	s := &Sim{C: c, W: w, R: r, Focus: c.Prop, byID: map[string]*Subject{}, realRoots: map[uint64][]byte{}}
	s.A, s.B = w.Chains[0], w.Chains[1]
	s.A.OnTx = func(o *kit.Outcome) { s.afterBlock(o) }

	// real path: transfer channel; A's client of B gets a short trusting period so that
	// expiry is reachable while B's client of A stays alive
	p := ibctesting.NewTransferPath(s.A.TestChain, s.B.TestChain)
	cfg := p.EndpointA.ClientConfig.(*ibctesting.TendermintConfig)
	cfg.TrustingPeriod = time.Duration(40+r.Intn(120)) * time.Minute
	cfg.UnbondingPeriod = cfg.TrustingPeriod * 3
	cfg.TrustLevel = kit.Pick(r, trustLevels[:3])
	s.P = p
	p.SetupClients()
	bv := &VChain{Name: "testchain2", Rev: 1, Real: true}
	bv.Sign = func(addr, msg []byte) ([]byte, bool) {
		pv, ok := s.B.Signers[cmtAddr(addr)]
		if !ok {
			return nil, false
		}
		mpv, ok := pv.(cmttypes.MockPV)
		if !ok {
			return nil, false
		}
		sig, err := mpv.PrivKey.Sign(msg)
		return sig, err == nil
	}
	bv.addSet(cloneSet(s.B.Vals))
	// the monitors watch from the first block on: connection and channel handshakes below
	// already update the client many times
	s.realSubj = s.adopt(p.EndpointA.ClientID, bv, "main")
	s.realSubj.Real = true
	for i := 0; i < pr.Virt; i++ {
		s.newVirtual(i)
	}
	if err := kit.Try(func() {
		p.CreateConnections()
		p.CreateChannels()
	}); err != nil {
		// the workload goes on with whatever exists; consumers of the real path will be refused
		s.pathBroken = true
		s.tr("real path setup failed: %s", short(err.Error()))
		c.Inc("real_path_setup_failed")
	}
	// a bystander client that no operation ever names
	s.newVirtual(0).Role = "bystander"
	return s
}

// recordRealRoot remembers the app hash of B's latest real header.
func (s *Sim) recordRealRoot() {
	if h := s.B.LatestCommittedHeader; h != nil && h.Header != nil {
		s.realRoots[uint64(h.Header.Height)] = append([]byte{}, h.Header.AppHash...)
	}
}

func cmtAddr(addr []byte) string { return strings.ToUpper(fmt.Sprintf("%x", addr)) }

func (s *Sim) adopt(id string, v *VChain, role string) *Subject {
	sub := &Subject{ID: id, V: v, Role: role}
	sub.Prev = ParseClient(s.A.App.AppCodec(), s.A.Snapshot()["ibc"], id)
	s.Subjects = append(s.Subjects, sub)
	s.byID[id] = sub
	return sub
}

// randSet draws a small validator set with small integer powers (so that exact 1/3, 1/2 and
// 2/3 boundaries are reachable by subsets).
func (s *Sim) randSet(kr *Keyring) *cmttypes.ValidatorSet {
	n := 3 + s.R.Intn(3)
	idx := make([]int, len(kr.Pub))
	for i := range idx {
		idx[i] = i
	}
	kit.Shuffle(s.R, idx)
	idx = idx[:n]
	pow := make([]int64, n)
	switch s.R.Intn(4) {
	case 0: // equal powers, total divisible by 3 when n==3
		for i := range pow {
			pow[i] = 1 + int64(s.R.Intn(2))*2
		}
		p := pow[0]
		for i := range pow {
			pow[i] = p
		}
	case 1: // total = 9 or 12 style sets
		base := [][]int64{{4, 3, 2}, {5, 4, 3}, {3, 3, 3}, {6, 3, 2, 1}, {2, 2, 1, 1}, {4, 4, 2, 1, 1}, {5, 5, 5, 3}, {1, 1, 1, 1, 1}}
		b := kit.Pick(s.R, base)
		if len(b) <= len(kr.Pub) {
			n = len(b)
			idx = idx[:0]
			perm := make([]int, len(kr.Pub))
			for i := range perm {
				perm[i] = i
			}
			kit.Shuffle(s.R, perm)
			idx = perm[:n]
			pow = append([]int64{}, b...)
		}
	default:
		for i := range pow {
			pow[i] = 1 + int64(s.R.Intn(9))
		}
	}
	return kr.Set(idx, pow)
}

func (s *Sim) newVirtual(i int) *Subject {
	kr := NewKeyring(s.R.Sub("keys"), 7)
	v := &VChain{Name: fmt.Sprintf("virt%d", s.nVirt), Rev: kit.Pick(s.R, revPool), Sign: kr.Sign}
	s.nVirt++
	for j := 0; j < 4; j++ {
		v.addSet(s.randSet(kr))
	}
	tp := time.Duration(8+s.R.Intn(50)) * time.Minute
	if s.R.Chance(1, 3) {
		tp = time.Duration(2+s.R.Intn(10)) * time.Hour
	}
	cs := ibctm.NewClientState(v.ChainID(), kit.Pick(s.R, trustLevels), tp, tp*3, time.Duration(5+s.R.Intn(20))*time.Second,
		clienttypes.NewHeight(v.Rev, kit.Pick(s.R, startHeights)+uint64(s.R.Intn(3))), commitmenttypes.GetSDKSpecs(), ibctesting.UpgradePath)
	sub := s.createClient(v, cs, s.now().Add(-time.Duration(1+s.R.Intn(20))*time.Second), kit.Pick(s.R, v.Sets), "main")
	if sub == nil {
		panic(kit.Abort{Msg: "virtual client creation failed"})
	}
	return sub
}

// createClient submits a real MsgCreateClient for chain v.
func (s *Sim) createClient(v *VChain, cs *ibctm.ClientState, consTime time.Time, next *cmttypes.ValidatorSet, role string) *Subject {
	cons := ibctm.NewConsensusState(consTime, commitmenttypes.NewMerkleRoot(s.R.Bytes(32)), next.Hash())
	acct := s.signer()
	msg, err := clienttypes.NewMsgCreateClient(cs, cons, acct.SenderAccount.GetAddress().String())
	if err != nil {
		panic(kit.Abort{Msg: err.Error()})
	}
	s.cur = &opMeta{kind: "create", label: "create " + v.ChainID()}
	o := s.A.Deliver(acct, msg)
	s.cur = nil
	if !o.OK() {
		s.tr("create client for %s failed: %s", v.ChainID(), o.Log)
		return nil
	}
	id, err := ibctesting.ParseClientIDFromEvents(o.Res.Events)
	if err != nil {
		panic(kit.Abort{Msg: err.Error()})
	}
	s.tr("created %s for %s tp=%s lvl=%d/%d h=%s", id, cs.ChainId, cs.TrustingPeriod, cs.TrustLevel.Numerator, cs.TrustLevel.Denominator, cs.LatestHeight)
	return s.adopt(id, v, role)
}

func sortedH(m map[H][]byte) []H {
	hs := make([]H, 0, len(m))
	for h := range m {
		hs = append(hs, h)
	}
	sort.Slice(hs, func(i, j int) bool { return hs[i].Less(hs[j]) })
	return hs
}

var _ sdk.Msg

// EndChecks runs the end-of-case monitors.
func (s *Sim) EndChecks() {
	s.statusProbe()
}
