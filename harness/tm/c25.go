package tm

import (
	"bytes"
	"context"
	"fmt"
	"math/big"
	"strings"
	"time"

	"github.com/cosmos/gogoproto/proto"
	ics23 "github.com/cosmos/ics23/go"

	sdk "github.com/cosmos/cosmos-sdk/types"
	"github.com/cosmos/cosmos-sdk/types/module"
	upgradetypes "github.com/cosmos/cosmos-sdk/x/upgrade/types"

	cmttypes "github.com/cometbft/cometbft/types"

	clienttypes "github.com/cosmos/ibc-go/v11/modules/core/02-client/types"
	commitmenttypes "github.com/cosmos/ibc-go/v11/modules/core/23-commitment/types"
	ibctm "github.com/cosmos/ibc-go/v11/modules/light-clients/07-tendermint"
	ibctesting "github.com/cosmos/ibc-go/v11/testing"

	"verif/harness/kit"
)

// ---------------------------------------------------------------------------------------------
// recovery

// paramsMatch is the harness's reading of "the substitute must otherwise have matching
// parameters": everything except chain id, trusting period, latest/frozen height and the
// deprecated allow-update flags.
func paramsMatch(a, b *ibctm.ClientState) bool {
	if a.TrustLevel != b.TrustLevel || a.UnbondingPeriod != b.UnbondingPeriod || a.MaxClockDrift != b.MaxClockDrift {
		return false
	}
	if len(a.ProofSpecs) != len(b.ProofSpecs) || len(a.UpgradePath) != len(b.UpgradePath) {
		return false
	}
	for i := range a.ProofSpecs {
		if !proto.Equal(a.ProofSpecs[i], b.ProofSpecs[i]) {
			return false
		}
	}
	for i := range a.UpgradePath {
		if a.UpgradePath[i] != b.UpgradePath[i] {
			return false
		}
	}
	return true
}

// opRecover picks a subject and a substitute (fresh or existing, matching or not, above or
// below the subject's height) and submits MsgRecoverClient with the governance authority.
func (s *Sim) opRecover() bool {
	var sub *Subject
	if x := s.pickSubject(func(x *Subject) bool { return !s.active(x) }); x != nil && s.R.Chance(4, 5) {
		sub = x
	} else {
		sub = s.pickSubject(nil)
	}
	if sub == nil {
		return false
	}
	return s.recoverSubject(sub, s.R.Chance(1, 3))
}

// recoverSubject: plain=true asks for a substitute that satisfies every gate.
func (s *Sim) recoverSubject(sub *Subject, plain bool) bool {
	p := sub.Prev
	var subst *Subject
	label := ""
	if !plain && s.R.Chance(1, 4) {
		// an existing client (any status, any chain) as substitute
		subst = s.pickSubject(func(x *Subject) bool { return x != sub })
		label = "existing"
	}
	if !plain && subst == nil && s.R.Chance(1, 10) {
		// a client of another type whose "height" is far above the subject's
		subst = s.soloSubstitute()
		label = "solomachine"
	}
	if subst == nil {
		cs := *p.CS
		cs.FrozenHeight = clienttypes.ZeroHeight()
		cs.ProofSpecs = commitmenttypes.GetSDKSpecs()
		label = "match"
		variant := s.R.Intn(12)
		if plain {
			variant = 11
		}
		switch variant {
		case 0:
			cs.TrustLevel = ibctm.Fraction{Numerator: cs.TrustLevel.Numerator, Denominator: cs.TrustLevel.Denominator + 1}
			if cs.TrustLevel.Numerator*3 < cs.TrustLevel.Denominator {
				cs.TrustLevel = ibctm.Fraction{Numerator: 3, Denominator: 4}
			}
			label = "trustlevel-differs"
		case 1:
			cs.UnbondingPeriod += time.Duration(1+s.R.Intn(1000)) * time.Nanosecond
			label = "unbonding-differs"
		case 2:
			cs.MaxClockDrift += time.Duration(1+s.R.Intn(1000)) * time.Nanosecond
			label = "clockdrift-differs"
		case 3:
			cs.UpgradePath = []string{"upgrade", "otherIBCState"}
			label = "upgradepath-differs"
		case 4:
			specs := commitmenttypes.GetSDKSpecs()
			sp := *specs[0]
			sp.MinDepth = 1
			cs.ProofSpecs = []*ics23.ProofSpec{&sp, specs[1]}
			label = "proofspecs-differ"
		case 5:
			cs.TrustingPeriod = cs.TrustingPeriod/2 + time.Minute
			label = "match-other-trusting-period"
		}
		lat := p.Latest()
		var h uint64
		hl := ""
		hv := s.R.Intn(8)
		if plain {
			hv = 7
		}
		switch hv {
		case 0:
			h, hl = lat.N, "+equal-height"
		case 1:
			if lat.N > 1 {
				h, hl = lat.N-1, "+lower-height"
			} else {
				h = lat.N + 1
			}
		default:
			h = s.nextAbove(lat.N)
		}
		label += hl
		v := sub.V
		if sub.Real {
			// substitute tracking the real chain B from its real latest header
			if s.bHalted {
				return false
			}
			s.B.Commit()
			hdr := s.B.LatestCommittedHeader
			if hl == "" {
				h = uint64(hdr.Header.Height)
			}
			cs.LatestHeight = clienttypes.NewHeight(1, h)
			cs.ChainId = s.B.ChainID
			subst = s.createClientWith(v, &cs, hdr.ConsensusState(), "substitute")
			if subst != nil && hl == "" {
				s.realRoots[h] = hdr.Header.AppHash
			}
		} else {
			if !plain && s.R.Chance(1, 6) {
				// another revision of the same chain (chain id is not a matching parameter)
				cs.ChainId = fmt.Sprintf("%s-%d", v.Name, lat.R+1)
				cs.LatestHeight = clienttypes.NewHeight(lat.R+1, 1+uint64(s.R.Intn(50)))
				label += "+next-revision"
			} else {
				cs.LatestHeight = clienttypes.NewHeight(lat.R, h)
			}
			subst = s.createClient(v, &cs, s.now().Add(-time.Duration(1+s.R.Intn(4))*time.Second), kit.Pick(s.R, v.Sets), "substitute")
		}
		if subst == nil {
			return true
		}
	}
	authority := s.A.App.GetIBCKeeper().GetAuthority()
	if !plain && s.R.Chance(1, 12) {
		authority = s.A.Addr(3).String()
		label += "+not-authority"
	}
	msg := clienttypes.NewMsgRecoverClient(authority, sub.ID, subst.ID)
	m := &opMeta{kind: "recover", label: label, subj: sub, subst: subst}
	s.inBlock(m, func(ctx sdk.Context) error {
		_, err := s.A.App.GetIBCKeeper().RecoverClient(ctx, msg)
		return err
	})
	return true
}

// soloSubstitute creates (once per world) an Active 06-solomachine client with a huge sequence.
func (s *Sim) soloSubstitute() *Subject {
	if s.solo != nil {
		return s.solo
	}
	var sub *Subject
	if err := kit.Try(func() {
		sm := ibctesting.NewSolomachine(s.C.T, s.A.App.AppCodec(), "06-solomachine-verif", "", 1)
		sm.Sequence = 1 << 60
		acct := s.signer()
		msg, err := clienttypes.NewMsgCreateClient(sm.ClientState(), sm.ConsensusState(), acct.SenderAccount.GetAddress().String())
		if err != nil {
			panic(kit.Abort{Msg: err.Error()})
		}
		s.cur = &opMeta{kind: "create"}
		o := s.A.Deliver(acct, msg)
		s.cur = nil
		if !o.OK() {
			s.tr("solo machine creation failed: %s", short(o.Log))
			return
		}
		id, err := ibctesting.ParseClientIDFromEvents(o.Res.Events)
		if err != nil {
			panic(kit.Abort{Msg: err.Error()})
		}
		sub = s.adopt(id, &VChain{Name: "solo"}, "foreign")
	}); err != nil {
		s.tr("solo machine creation aborted: %v", err)
	}
	s.solo = sub
	return sub
}

func (s *Sim) createClientWith(v *VChain, cs *ibctm.ClientState, cons *ibctm.ConsensusState, role string) *Subject {
	acct := s.signer()
	msg, err := clienttypes.NewMsgCreateClient(cs, cons, acct.SenderAccount.GetAddress().String())
	if err != nil {
		panic(kit.Abort{Msg: err.Error()})
	}
	s.cur = &opMeta{kind: "create"}
	o := s.A.Deliver(acct, msg)
	s.cur = nil
	if !o.OK() {
		s.tr("create client for %s failed: %s", cs.ChainId, short(o.Log))
		return nil
	}
	id, err := ibctesting.ParseClientIDFromEvents(o.Res.Events)
	if err != nil {
		panic(kit.Abort{Msg: err.Error()})
	}
	s.tr("created %s for %s h=%s", id, cs.ChainId, cs.LatestHeight)
	return s.adopt(id, v, role)
}

func (s *Sim) onlyUnder(o *kit.Outcome, id string) (bool, string) {
	pre := "clients/" + id + "/"
	for _, kv := range o.DiffIn("ibc") {
		if !strings.HasPrefix(string(kv.Key), pre) {
			return false, string(kv.Key)
		}
	}
	return true, ""
}

func (s *Sim) judgeRecover(o *kit.Outcome, m *opMeta, curs map[*Subject]*Parsed, now time.Time) {
	sub, subst := m.subj, m.subst
	ps, pt := sub.Prev, subst.Prev
	stS, stT := ps.ModelStatus(now), pt.ModelStatus(now)
	match := pt.CS != nil && paramsMatch(ps.CS, pt.CS)
	higher := pt.CS != nil && ps.Latest().Less(pt.Latest())
	s.inc("C25", "recoveries_attempted")
	s.inc("C25", "recover_"+outcome(o))
	s.tr("recover %s <- %s [%s] subject=%s substitute=%s match=%v higher=%v -> %s %s", sub.ID, subst.ID, m.label, stS, stT, match, higher, outcome(o), short(o.Log))
	s.classes = append(s.classes, fmt.Sprintf("recover/%s/%s/%s/%v/%v/%s", m.label, stS, stT, match, higher, outcome(o)))
	if !o.OK() {
		if stS == stActive || definitelyNotActive(stT) || !match || !higher {
			s.inc("C25", "recover_rejected_as_required")
		}
		if subst.Role == "foreign" {
			s.inc("C25", "recover_other_type_rejected")
		}
		return
	}
	cur := curs[sub]
	if subst.Role == "foreign" {
		s.viol("C25", "C25|recover|substitute-other-type", "recovery of tendermint client %s succeeded with substitute %s of another client type", sub.ID, subst.ID)
		return
	}
	if stS == stActive {
		s.viol("C25", "C25|recover|subject-active", "recovery of %s succeeded although the subject was Active", sub.ID)
	}
	if definitelyNotActive(stT) {
		s.viol("C25", "C25|recover|substitute-"+stT, "recovery of %s succeeded with substitute %s whose status was %s", sub.ID, subst.ID, stT)
	}
	if !higher {
		s.viol("C25", "C25|recover|height-not-greater", "recovery of %s (latest %s) succeeded with substitute %s at latest %s", sub.ID, ps.Latest(), subst.ID, pt.Latest())
	}
	if !match {
		s.viol("C25", "C25|recover|parameters-differ|"+firstWord(m.label), "recovery of %s succeeded with substitute %s whose parameters differ (%s)", sub.ID, subst.ID, m.label)
	}
	if strings.Contains(m.label, "not-authority") {
		s.C.Inc("note_recover_by_non_authority_succeeded")
	}
	// post-state
	if cur.Frozen() {
		s.viol("C25", "C25|recover|still-frozen", "client %s is still frozen after a successful recovery", sub.ID)
	}
	tl := pt.Latest()
	if cur.Latest() != tl {
		s.viol("C25", "C25|recover|latest-height", "client %s has latest height %s after recovery from substitute at %s", sub.ID, cur.Latest(), tl)
	}
	if !bytes.Equal(cur.Cons[tl], pt.Cons[tl]) || len(cur.Cons[tl]) == 0 {
		s.viol("C25", "C25|recover|consensus-state", "client %s does not hold the substitute's latest consensus state at %s: %s vs %s", sub.ID, tl, consStr(cur.ConsDec[tl]), consStr(pt.ConsDec[tl]))
	}
	if !bytes.Equal(cur.PT[tl], pt.PT[tl]) || !bytes.Equal(cur.PH[tl], pt.PH[tl]) {
		s.viol("C25", "C25|recover|metadata", "client %s: processed time/height at %s not copied from the substitute", sub.ID, tl)
	}
	if ok, k := s.onlyUnder(o, sub.ID); !ok {
		s.viol("C25", "C25|recover|wrote-outside-subject", "recovery of %s changed ibc key %q", sub.ID, k)
	}
	s.inc("C25", "recover_success_checked")
	s.C.Inc("recoveries")
	// the subject now follows the substitute's chain
	sub.V = subst.V
	sub.accepted = nil
	if sub.Real && !subst.V.Real {
		sub.Real = false
	}
}

func firstWord(s string) string {
	if i := strings.IndexByte(s, '+'); i > 0 {
		return s[:i]
	}
	return s
}

// ---------------------------------------------------------------------------------------------
// upgrade

type upgradeReq struct {
	committedClient *ibctm.ClientState    // what the counterparty really committed (custom fields zero)
	committedCons   *ibctm.ConsensusState // idem
	sentClient      *ibctm.ClientState    // what the relayer submits
	sentCons        *ibctm.ConsensusState
	planHeight      uint64
	genuine         bool // proofs are the real proofs of the committed values under the client's upgrade path at its latest height
	label           string
	oldCS           *ibctm.ClientState
}

// commitUpgradeOnB stores an upgraded client / consensus state in chain B's upgrade store
// under the plan height (B serves as the committed state of the counterparty: the forged
// header that follows carries B's real app hash) and returns B's app hash.
func (s *Sim) commitUpgradeOnB(planHeight uint64, cl *ibctm.ClientState, cons *ibctm.ConsensusState) []byte {
	cdc := s.B.App.AppCodec()
	clBz := clienttypes.MustMarshalClientState(cdc, cl)
	consBz := clienttypes.MustMarshalConsensusState(cdc, cons)
	o := s.B.InBlock(func(ctx sdk.Context) error {
		if err := s.B.Sim.UpgradeKeeper.SetUpgradedClient(ctx, int64(planHeight), clBz); err != nil {
			return err
		}
		return s.B.Sim.UpgradeKeeper.SetUpgradedConsensusState(ctx, int64(planHeight), consBz)
	})
	if o.Err != nil {
		panic(kit.Abort{Msg: "commit upgrade on B: " + o.Err.Error()})
	}
	return append([]byte{}, s.B.App.LastCommitID().Hash...)
}

func (s *Sim) upgradeProofs(planHeight uint64) (pc, ps []byte) {
	v := uint64(s.B.App.LastBlockHeight()) + 1
	pc, _ = s.B.QueryUpgradeProof(upgradetypes.UpgradedClientKey(int64(planHeight)), v)
	ps, _ = s.B.QueryUpgradeProof(upgradetypes.UpgradedConsStateKey(int64(planHeight)), v)
	return
}

// opUpgradeVirt upgrades a virtual client: the upgraded client and consensus state are really
// committed in an upgrade store (chain B's), the virtual chain's last header carries that
// store's app hash, and MsgUpgradeClient is sent with real proofs — or with a request that
// deviates from what was committed.
func (s *Sim) opUpgradeVirt(sub *Subject) bool {
	if sub.Real || s.bHalted {
		return false
	}
	p := sub.Prev
	if p.ModelStatus(s.now()) != stActive && s.R.Chance(3, 4) {
		return false
	}
	old := p.CS
	rev := revOf(old.ChainId)
	pl, ok := s.honestPlan(sub, "new")
	if !ok {
		return false
	}
	planHeight := pl.target.N
	label := "ok"
	// what the counterparty commits
	newRev := rev + 1
	if s.R.Chance(1, 3) {
		newRev = kit.Pick(s.R, []uint64{47, 0x2f2f, rev + 2, 0x2f00})
		if newRev <= rev {
			newRev = rev + 1
		}
	}
	cc := &ibctm.ClientState{
		ChainId: fmt.Sprintf("%s-%d", sub.V.Name, newRev), UnbondingPeriod: old.UnbondingPeriod,
		LatestHeight: clienttypes.NewHeight(newRev, 1+uint64(s.R.Intn(60))), ProofSpecs: commitmenttypes.GetSDKSpecs(), UpgradePath: old.UpgradePath,
	}
	switch s.R.Intn(10) {
	case 0, 1:
		// same revision, greater height
		cc.ChainId = old.ChainId
		cc.LatestHeight = clienttypes.NewHeight(rev, planHeight+1+uint64(s.R.Intn(30)))
		label = "same-revision"
	case 2:
		// committed client is not above the current height: only the height gate can stop it
		cc.ChainId = old.ChainId
		cc.LatestHeight = clienttypes.NewHeight(rev, planHeight-uint64(s.R.Intn(2)))
		label = "height-not-greater"
	}
	switch s.R.Intn(6) {
	case 0:
		cc.UnbondingPeriod = old.UnbondingPeriod/2 + time.Duration(s.R.Intn(1000))
		label += "+unbonding-shrinks"
	case 1:
		cc.UnbondingPeriod = old.UnbondingPeriod*2 + time.Duration(s.R.Intn(1000))
		label += "+unbonding-grows"
	case 2:
		cc.UnbondingPeriod = old.UnbondingPeriod - time.Duration(1+s.R.Intn(7))
		label += "+unbonding-shrinks-slightly"
	}
	nv := kit.Pick(s.R, sub.V.Sets)
	ccons := &ibctm.ConsensusState{Timestamp: s.now().Add(-time.Duration(s.R.Intn(3000)) * time.Millisecond), NextValidatorsHash: nv.Hash()}

	req := &upgradeReq{committedClient: cc, committedCons: ccons, planHeight: planHeight, genuine: true, oldCS: old}
	commitAt := planHeight
	if s.R.Chance(1, 10) {
		commitAt = planHeight + 1 // committed under another plan height than the client's last height
		req.genuine = false
		label += "+committed-under-other-height"
	}
	root := s.commitUpgradeOnB(commitAt, cc, ccons)
	// last header of the old chain carries the committed root
	pl.app = root
	o := s.submitHeader(sub, s.forge(sub, pl), "pre-upgrade")
	if !o.OK() || sub.Prev.Latest() != pl.target || sub.Prev.Frozen() {
		return true
	}
	proofClient, proofCons := s.upgradeProofs(commitAt)

	// what the relayer submits
	sc := *cc
	sc.TrustLevel, sc.TrustingPeriod, sc.MaxClockDrift = old.TrustLevel, old.TrustingPeriod, old.MaxClockDrift
	scons := *ccons
	variant := s.R.Intn(18)
	if variant >= 16 {
		variant = 0
	}
	switch variant {
	case 0:
		sc.TrustLevel = ibctm.Fraction{Numerator: 1, Denominator: 1}
		sc.TrustingPeriod = time.Duration(1)
		sc.MaxClockDrift = 99 * time.Hour
		label += "+relayer-custom-fields"
	case 1:
		sc.ChainId = sc.ChainId + "0"
		sc.LatestHeight = clienttypes.NewHeight(revOf(sc.ChainId), sc.LatestHeight.RevisionHeight)
		req.genuine = false
		label += "+client-chainid"
	case 2:
		sc.UnbondingPeriod += time.Nanosecond
		req.genuine = false
		label += "+client-unbonding"
	case 3:
		sc.LatestHeight.RevisionHeight++
		req.genuine = false
		label += "+client-height"
	case 4:
		sc.UpgradePath = []string{"upgrade", "elsewhere"}
		req.genuine = false
		label += "+client-upgradepath"
	case 5:
		scons.Timestamp = scons.Timestamp.Add(time.Nanosecond)
		req.genuine = false
		label += "+cons-time"
	case 6:
		scons.NextValidatorsHash = kit.Pick(s.R, sub.V.Sets).Hash()
		if bytes.Equal(scons.NextValidatorsHash, ccons.NextValidatorsHash) {
			scons.NextValidatorsHash = s.R.Bytes(32)
		}
		req.genuine = false
		label += "+cons-nextvals"
	case 7:
		proofClient, proofCons = proofCons, proofClient
		req.genuine = false
		label += "+proofs-swapped"
	case 8:
		proofCons = proofClient
		req.genuine = false
		label += "+cons-proof-is-client-proof"
	case 9:
		// proofs taken after the committed values were replaced
		s.commitUpgradeOnB(commitAt, cc, &ibctm.ConsensusState{Timestamp: ccons.Timestamp.Add(time.Second), NextValidatorsHash: ccons.NextValidatorsHash})
		proofClient, proofCons = s.upgradeProofs(commitAt)
		req.genuine = false
		label += "+proofs-of-later-state"
	case 10:
		sc.ProofSpecs = sc.ProofSpecs[:1]
		req.genuine = false
		label += "+client-proofspecs"
	}
	req.sentClient, req.sentCons, req.label = &sc, &scons, label
	acct := s.signer()
	msg, err := clienttypes.NewMsgUpgradeClient(sub.ID, &sc, &scons, proofClient, proofCons, acct.SenderAccount.GetAddress().String())
	if err != nil {
		panic(kit.Abort{Msg: err.Error()})
	}
	s.deliverAs(&opMeta{kind: "upgrade", label: label, subj: sub, upg: req, uses: []*Subject{sub}}, acct, msg)
	return true
}

func scaledTrusting(tp, oldUBD, newUBD time.Duration) (lo, hi time.Duration) {
	x := new(big.Int).Mul(big.NewInt(int64(tp)), big.NewInt(int64(newUBD)))
	q, r := new(big.Int).QuoRem(x, big.NewInt(int64(oldUBD)), new(big.Int))
	lo = time.Duration(q.Int64())
	hi = lo
	if r.Sign() != 0 {
		hi = lo + 1
	}
	return
}

func (s *Sim) judgeUpgrade(o *kit.Outcome, m *opMeta, curs map[*Subject]*Parsed, now time.Time) {
	sub, req := m.subj, m.upg
	prev, cur := sub.Prev, curs[sub]
	model := prev.ModelStatus(now)
	old := prev.CS
	s.inc("C25", "upgrades_attempted")
	s.inc("C25", "upgrade_"+outcome(o))
	s.tr("upgrade %s [%s] %s -> %s status=%s genuine=%v -> %s %s", sub.ID, m.label, prev.Latest(), req.sentClient.LatestHeight, model, req.genuine, outcome(o), short(o.Log))
	s.classes = append(s.classes, fmt.Sprintf("upgrade/%s/%s/%v/%s", m.label, model, req.genuine, outcome(o)))
	higher := prev.Latest().Less(hOf(req.sentClient.LatestHeight))
	if !o.OK() {
		if !req.genuine || !higher || definitelyNotActive(model) {
			s.inc("C25", "upgrade_rejected_as_required")
		}
		if definitelyNotActive(model) {
			s.inc("C21", "gate_rejected_inactive")
		}
		return
	}
	if definitelyNotActive(model) {
		s.viol("C21", "C21|gate|upgrade|"+model, "upgrade of client %s succeeded while its status was %s", sub.ID, model)
	}
	if !higher {
		s.viol("C25", "C25|upgrade|height-not-greater", "client %s at %s upgraded to %s", sub.ID, prev.Latest(), req.sentClient.LatestHeight)
	}
	if !req.genuine {
		s.viol("C25", "C25|upgrade|unproven|"+lastPlus(m.label), "client %s upgraded although the request deviates from what was committed under its upgrade path (%s)", sub.ID, m.label)
	}
	if prev.Latest().N != req.planHeight {
		s.viol("C25", "C25|upgrade|not-at-last-height", "client %s upgraded with a plan height %d different from its latest height %s", sub.ID, req.planHeight, prev.Latest())
	}
	// post-state
	nc := cur.CS
	cc := req.committedClient
	if nc == nil {
		s.viol("C25", "C25|upgrade|client-state-missing", "client %s has no tendermint client state after upgrade", sub.ID)
		return
	}
	if nc.TrustLevel != old.TrustLevel || nc.MaxClockDrift != old.MaxClockDrift {
		s.viol("C25", "C25|upgrade|custom-fields-not-kept", "client %s: trust level %v->%v clock drift %s->%s across upgrade", sub.ID, old.TrustLevel, nc.TrustLevel, old.MaxClockDrift, nc.MaxClockDrift)
	}
	if cc.UnbondingPeriod < old.UnbondingPeriod {
		lo, hi := scaledTrusting(old.TrustingPeriod, old.UnbondingPeriod, cc.UnbondingPeriod)
		if nc.TrustingPeriod != lo && nc.TrustingPeriod != hi {
			s.viol("C25", "C25|upgrade|trusting-period-not-scaled", "client %s: trusting period %s -> %s, unbonding %s -> %s, expected %s", sub.ID, old.TrustingPeriod, nc.TrustingPeriod, old.UnbondingPeriod, cc.UnbondingPeriod, lo)
		}
		s.inc("C25", "upgrade_trusting_period_scaled_checked")
	} else if nc.TrustingPeriod != old.TrustingPeriod {
		s.viol("C25", "C25|upgrade|trusting-period-changed", "client %s: trusting period %s -> %s although unbonding did not shrink", sub.ID, old.TrustingPeriod, nc.TrustingPeriod)
	}
	if nc.ChainId != cc.ChainId || nc.UnbondingPeriod != cc.UnbondingPeriod || !nc.LatestHeight.EQ(cc.LatestHeight) || strings.Join(nc.UpgradePath, "/") != strings.Join(cc.UpgradePath, "/") {
		s.viol("C25", "C25|upgrade|chain-fields", "client %s: chain-chosen fields after upgrade (%s %s %s) differ from the committed client (%s %s %s)", sub.ID, nc.ChainId, nc.UnbondingPeriod, nc.LatestHeight, cc.ChainId, cc.UnbondingPeriod, cc.LatestHeight)
	}
	if cur.Frozen() {
		s.viol("C25", "C25|upgrade|frozen", "client %s frozen after upgrade", sub.ID)
	}
	ncons := cur.ConsDec[hOf(cc.LatestHeight)]
	if ncons == nil || !ncons.Timestamp.Equal(req.committedCons.Timestamp) || !bytes.Equal(ncons.NextValidatorsHash, req.committedCons.NextValidatorsHash) {
		s.viol("C25", "C25|upgrade|consensus-state", "client %s: consensus state at %s after upgrade is %s, committed %s", sub.ID, cc.LatestHeight, consStr(ncons), consStr(req.committedCons))
	}
	if ok, k := s.onlyUnder(o, sub.ID); !ok {
		s.viol("C25", "C25|upgrade|wrote-outside-subject", "upgrade of %s changed ibc key %q", sub.ID, k)
	}
	s.inc("C25", "upgrade_success_checked")
	s.C.Inc("upgrades")
	sub.accepted = nil
}

func lastPlus(s string) string {
	if i := strings.LastIndexByte(s, '+'); i >= 0 {
		return s[i+1:]
	}
	return s
}

// opUpgradeReal runs the real upgrade flow on chain B: MsgIBCSoftwareUpgrade (governance
// authority) schedules a plan, B's begin blocker commits the upgraded consensus state at
// plan height - 1, B executes the plan with a no-op handler, and A's client is upgraded with
// MsgUpgradeClient using proofs from B's upgrade store.
func (s *Sim) opUpgradeReal() bool {
	sub := s.realSubj
	if s.bHalted || s.upgradedReal || !sub.V.Real || !s.active(sub) {
		return false
	}
	old := sub.Prev.CS
	planHeight := s.B.App.LastBlockHeight() + 3
	name := fmt.Sprintf("verif-upgrade-%d", planHeight)
	// same revision, greater height: B keeps running under its chain id afterwards
	up := ibctm.NewClientState(s.B.ChainID, old.TrustLevel, old.TrustingPeriod, old.UnbondingPeriod, old.MaxClockDrift,
		clienttypes.NewHeight(1, uint64(planHeight)+1), commitmenttypes.GetSDKSpecs(), ibctesting.UpgradePath)
	label := "real"
	if s.R.Bool() {
		up.UnbondingPeriod = old.UnbondingPeriod * 2 / 3
		label += "+unbonding-shrinks"
	}
	msg, err := clienttypes.NewMsgIBCSoftwareUpgrade(s.B.App.GetIBCKeeper().GetAuthority(), upgradetypes.Plan{Name: name, Height: planHeight}, up)
	if err != nil {
		panic(kit.Abort{Msg: err.Error()})
	}
	o := s.B.InBlock(func(ctx sdk.Context) error {
		_, err := s.B.App.GetIBCKeeper().IBCSoftwareUpgrade(ctx, msg)
		return err
	})
	if o.Err != nil {
		s.tr("IBCSoftwareUpgrade on B failed: %v", o.Err)
		return true
	}
	s.upgradedReal = true
	// run B up to and including the plan height
	for s.B.App.LastBlockHeight() < planHeight {
		if s.B.App.LastBlockHeight() == planHeight-1 {
			// the "new binary": a handler for the plan exists from the upgrade height on
			s.B.Sim.UpgradeKeeper.SetUpgradeHandler(name, func(_ context.Context, _ upgradetypes.Plan, vm module.VersionMap) (module.VersionMap, error) {
				return vm, nil
			})
		}
		if err := kit.TryAll(func() { s.B.Commit() }); err != nil {
			s.bHalted = true
			s.tr("B halted at upgrade: %v", err)
			return true
		}
	}
	hdr := s.B.LatestCommittedHeader // header of height planHeight: app hash = state after planHeight-1
	if hdr.Header.Height != planHeight {
		s.tr("unexpected B height %d", hdr.Header.Height)
		return true
	}
	// what B really committed
	cdc := s.B.App.AppCodec()
	var ccons *ibctm.ConsensusState
	key := upgradetypes.UpgradedConsStateKey(planHeight)
	proofCons, _ := s.B.QueryUpgradeProof(key, uint64(planHeight))
	proofClient, _ := s.B.QueryUpgradeProof(upgradetypes.UpgradedClientKey(planHeight), uint64(planHeight))
	bz := s.upgradeStoreAt(planHeight-1, key)
	if len(bz) == 0 {
		s.tr("B did not commit an upgraded consensus state")
		return true
	}
	ci, err := clienttypes.UnmarshalConsensusState(cdc, bz)
	if err != nil {
		return true
	}
	ccons = ci.(*ibctm.ConsensusState)
	cc := &ibctm.ClientState{ChainId: up.ChainId, UnbondingPeriod: up.UnbondingPeriod, LatestHeight: up.LatestHeight, ProofSpecs: up.ProofSpecs, UpgradePath: up.UpgradePath}
	// relay header planHeight to A
	trusted := sub.Prev.Latest()
	var h *ibctm.Header
	if err := kit.Try(func() {
		var e error
		h, e = s.B.IBCClientHeader(hdr, trusted.IBC())
		if e != nil {
			panic(kit.Abort{Msg: e.Error()})
		}
	}); err != nil {
		s.tr("cannot build B header: %v", err)
		return true
	}
	uo := s.submitHeader(sub, h, "pre-upgrade-real")
	if !uo.OK() || sub.Prev.Latest() != (H{1, uint64(planHeight)}) || sub.Prev.Frozen() {
		return true
	}
	s.realRoots[uint64(planHeight)] = hdr.Header.AppHash
	req := &upgradeReq{committedClient: cc, committedCons: ccons, planHeight: uint64(planHeight), genuine: true, oldCS: old, label: label}
	sc := *up
	if s.R.Chance(1, 4) {
		sc.UnbondingPeriod += time.Second
		req.genuine = false
		label += "+client-unbonding"
	}
	req.sentClient, req.sentCons = &sc, ccons
	acct := s.signer()
	umsg, err := clienttypes.NewMsgUpgradeClient(sub.ID, &sc, ccons, proofClient, proofCons, acct.SenderAccount.GetAddress().String())
	if err != nil {
		panic(kit.Abort{Msg: err.Error()})
	}
	s.C.Inc("real_upgrade_flows")
	s.deliverAs(&opMeta{kind: "upgrade", label: label, subj: sub, upg: req, uses: []*Subject{sub}}, acct, umsg)
	return true
}

// upgradeStoreAt reads a key of B's upgrade store at a past version.
func (s *Sim) upgradeStoreAt(version int64, key []byte) []byte {
	var out []byte
	_ = kit.TryAll(func() {
		ms, err := s.B.Sim.CommitMultiStore().CacheMultiStoreWithVersion(version)
		if err != nil {
			return
		}
		out = ms.GetKVStore(s.B.Sim.GetKey(upgradetypes.StoreKey)).Get(key)
	})
	return out
}

var _ = cmttypes.MaxTotalVotingPower
