// Package tm drives hostile update / misbehaviour / recovery / upgrade histories against real
// 07-tendermint clients on a real chain and monitors properties C20–C25.
//
// The counterparty of most clients is a *virtual* chain: it exists only as headers that the
// harness forges with its own ed25519 validator keys, which gives full control over validator
// sets, voting powers, heights, revisions and times. One client per world tracks the real
// chain B (headers forged with B's real validator keys) and carries a real connection and
// channel so that every consumer of a client can be driven through real messages.
package tm

import (
	"bytes"
	"fmt"
	"time"

	cmtcrypto "github.com/cometbft/cometbft/crypto"
	"github.com/cometbft/cometbft/crypto/ed25519"
	"github.com/cometbft/cometbft/crypto/tmhash"
	cmtproto "github.com/cometbft/cometbft/proto/tendermint/types"
	cmtprotoversion "github.com/cometbft/cometbft/proto/tendermint/version"
	cmttypes "github.com/cometbft/cometbft/types"
	cmtversion "github.com/cometbft/cometbft/version"

	clienttypes "github.com/cosmos/ibc-go/v11/modules/core/02-client/types"
	ibctm "github.com/cosmos/ibc-go/v11/modules/light-clients/07-tendermint"

	"verif/harness/kit"
)

// signFn signs msg with the key of the validator at addr; ok=false when the key is unknown.
type signFn func(addr []byte, msg []byte) (sig []byte, ok bool)

// Keyring is a deterministic pool of validator keys.
type Keyring struct {
	Priv []ed25519.PrivKey
	Pub  []cmtcrypto.PubKey
	by   map[string]int
}

func NewKeyring(r *kit.Rng, n int) *Keyring {
	k := &Keyring{by: map[string]int{}}
	for i := 0; i < n; i++ {
		p := ed25519.GenPrivKeyFromSecret(r.Bytes(32))
		k.Priv = append(k.Priv, p)
		k.Pub = append(k.Pub, p.PubKey())
		k.by[string(p.PubKey().Address())] = i
	}
	return k
}

func (k *Keyring) Sign(addr []byte, msg []byte) ([]byte, bool) {
	i, ok := k.by[string(addr)]
	if !ok {
		return nil, false
	}
	sig, err := k.Priv[i].Sign(msg)
	return sig, err == nil
}

// Set builds a validator set from key indices and powers.
func (k *Keyring) Set(idx []int, pow []int64) *cmttypes.ValidatorSet {
	vs := make([]*cmttypes.Validator, len(idx))
	for i := range idx {
		vs[i] = cmttypes.NewValidator(k.Pub[idx[i]], pow[i])
	}
	return cmttypes.NewValidatorSet(vs)
}

// cloneSet rebuilds a validator set (fresh proposer priorities, same hash).
func cloneSet(s *cmttypes.ValidatorSet) *cmttypes.ValidatorSet {
	vs := make([]*cmttypes.Validator, len(s.Validators))
	for i, v := range s.Validators {
		vs[i] = cmttypes.NewValidator(v.PubKey, v.VotingPower)
	}
	return cmttypes.NewValidatorSet(vs)
}

var unusedHash = tmhash.Sum([]byte{0x00})

// HSpec describes a header to forge.
type HSpec struct {
	ChainID     string
	Height      int64
	Time        time.Time
	AppHash     []byte
	Vals        *cmttypes.ValidatorSet
	NextVals    *cmttypes.ValidatorSet
	Sign        []bool // per validator index of Vals; nil = everybody signs
	Trusted     clienttypes.Height
	TrustedVals *cmttypes.ValidatorSet
	Round       int32
}

func protoSet(s *cmttypes.ValidatorSet) *cmtproto.ValidatorSet {
	if s == nil {
		return nil
	}
	p, err := s.ToProto()
	if err != nil {
		panic(kit.Abort{Msg: "valset to proto: " + err.Error()})
	}
	p.TotalVotingPower = s.TotalVotingPower()
	return p
}

// Forge builds and signs a 07-tendermint header exactly as byzantine validators owning the
// keys behind sign could.
func Forge(sp HSpec, sign signFn) *ibctm.Header {
	h := cmttypes.Header{
		Version:            cmtprotoversion.Consensus{Block: cmtversion.BlockProtocol, App: 2},
		ChainID:            sp.ChainID,
		Height:             sp.Height,
		Time:               sp.Time.UTC(),
		LastBlockID:        cmttypes.BlockID{Hash: make([]byte, tmhash.Size), PartSetHeader: cmttypes.PartSetHeader{Total: 10_000, Hash: make([]byte, tmhash.Size)}},
		LastCommitHash:     unusedHash,
		DataHash:           unusedHash,
		ValidatorsHash:     sp.Vals.Hash(),
		NextValidatorsHash: sp.NextVals.Hash(),
		ConsensusHash:      unusedHash,
		AppHash:            sp.AppHash,
		LastResultsHash:    unusedHash,
		EvidenceHash:       unusedHash,
		ProposerAddress:    sp.Vals.Validators[0].Address,
	}
	commit := signCommit(&h, sp.Vals, sp.Sign, sp.Round, sign)
	return &ibctm.Header{
		SignedHeader:      &cmtproto.SignedHeader{Header: h.ToProto(), Commit: commit.ToProto()},
		ValidatorSet:      protoSet(sp.Vals),
		TrustedHeight:     sp.Trusted,
		TrustedValidators: protoSet(sp.TrustedVals),
	}
}

func signCommit(h *cmttypes.Header, vals *cmttypes.ValidatorSet, who []bool, round int32, sign signFn) *cmttypes.Commit {
	if round == 0 {
		round = 1
	}
	blockID := cmttypes.BlockID{Hash: h.Hash(), PartSetHeader: cmttypes.PartSetHeader{Total: 3, Hash: unusedHash}}
	commit := &cmttypes.Commit{Height: h.Height, Round: round, BlockID: blockID, Signatures: make([]cmttypes.CommitSig, len(vals.Validators))}
	for i, v := range vals.Validators {
		if who != nil && !who[i] {
			commit.Signatures[i] = cmttypes.NewCommitSigAbsent()
			continue
		}
		commit.Signatures[i] = cmttypes.CommitSig{BlockIDFlag: cmttypes.BlockIDFlagCommit, ValidatorAddress: v.Address, Timestamp: h.Time, Signature: []byte{0}}
	}
	for i, v := range vals.Validators {
		if commit.Signatures[i].BlockIDFlag != cmttypes.BlockIDFlagCommit {
			continue
		}
		sig, ok := sign(v.Address, commit.VoteSignBytes(h.ChainID, int32(i)))
		if !ok {
			commit.Signatures[i] = cmttypes.NewCommitSigAbsent()
			continue
		}
		commit.Signatures[i].Signature = sig
	}
	return commit
}

// Resign recomputes the commit of a (possibly edited) header with the given signer subset.
func Resign(h *ibctm.Header, vals *cmttypes.ValidatorSet, who []bool, sign signFn) {
	th, err := cmttypes.HeaderFromProto(h.Header)
	if err != nil {
		panic(kit.Abort{Msg: "header from proto: " + err.Error()})
	}
	h.Commit = signCommit(&th, vals, who, h.Commit.Round, sign).ToProto()
}

// fixBlockID makes the commit point at the current header hash without re-signing.
func fixBlockID(h *ibctm.Header) {
	th, err := cmttypes.HeaderFromProto(h.Header)
	if err != nil {
		return
	}
	h.Commit.BlockID.Hash = th.Hash()
}

func cloneHeader(h *ibctm.Header) *ibctm.Header {
	bz, err := h.Marshal()
	if err != nil {
		panic(kit.Abort{Msg: err.Error()})
	}
	var out ibctm.Header
	if err := out.Unmarshal(bz); err != nil {
		panic(kit.Abort{Msg: err.Error()})
	}
	return &out
}

// ---------------------------------------------------------------------------------------------
// independent evaluation of what a header carries (ed25519 verification and CometBFT's
// canonical vote encoding are trusted base)

// validPower returns the voting power, counted in set, of the validators of set that have a
// BlockIDFlagCommit signature in the commit which verifies for (chainID, this header).
// A commit that does not point at the header's hash carries no power at all.
func validPower(h *ibctm.Header, set *cmttypes.ValidatorSet, chainID string) (signed, total int64) {
	if set == nil {
		return 0, 0
	}
	total = set.TotalVotingPower()
	if h.SignedHeader == nil || h.Header == nil || h.Commit == nil {
		return 0, total
	}
	th, err := cmttypes.HeaderFromProto(h.Header)
	if err != nil {
		return 0, total
	}
	commit, err := cmttypes.CommitFromProto(h.Commit)
	if err != nil {
		return 0, total
	}
	if !bytes.Equal(commit.BlockID.Hash, th.Hash()) || commit.Height != th.Height {
		return 0, total
	}
	seen := map[string]bool{}
	for i, cs := range commit.Signatures {
		if cs.BlockIDFlag != cmttypes.BlockIDFlagCommit {
			continue
		}
		_, v := set.GetByAddress(cs.ValidatorAddress)
		if v == nil || seen[string(v.Address)] {
			continue
		}
		if v.PubKey.VerifySignature(commit.VoteSignBytes(chainID, int32(i)), cs.Signature) {
			seen[string(v.Address)] = true
			signed += v.VotingPower
		}
	}
	return signed, total
}

func setFromProto(p *cmtproto.ValidatorSet) *cmttypes.ValidatorSet {
	if p == nil {
		return nil
	}
	// rebuild from (pubkey, power) only so that a malformed proposer or priority cannot
	// make the harness's view differ from the hash the client compares
	var vs []*cmttypes.Validator
	for _, v := range p.Validators {
		if v == nil {
			return nil
		}
		val, err := cmttypes.ValidatorFromProto(v)
		if err != nil || val.PubKey == nil || val.VotingPower <= 0 {
			return nil
		}
		vs = append(vs, cmttypes.NewValidator(val.PubKey, val.VotingPower))
	}
	if len(vs) == 0 {
		return nil
	}
	var out *cmttypes.ValidatorSet
	if err := kit.TryAll(func() { out = cmttypes.NewValidatorSet(vs) }); err != nil {
		return nil
	}
	return out
}

// hashOfProtoSet hashes the validators in the order given (the order the client will hash them in).
func hashOfProtoSet(p *cmtproto.ValidatorSet) []byte {
	if p == nil {
		return nil
	}
	vs := make([]*cmttypes.Validator, 0, len(p.Validators))
	for _, v := range p.Validators {
		val, err := cmttypes.ValidatorFromProto(v)
		if err != nil {
			return nil
		}
		vs = append(vs, val)
	}
	s := &cmttypes.ValidatorSet{Validators: vs}
	return s.Hash()
}

func hdrString(h *ibctm.Header) string {
	if h == nil || h.SignedHeader == nil || h.Header == nil {
		return "<nil header>"
	}
	return fmt.Sprintf("%s@%d t=%s trusted=%s app=%x", h.Header.ChainID, h.Header.Height, h.Header.Time.UTC().Format(time.RFC3339Nano), h.TrustedHeight, trunc4(h.Header.AppHash))
}

func trunc4(b []byte) []byte {
	if len(b) > 4 {
		return b[:4]
	}
	return b
}
