package tm

import (
	"fmt"
	"time"

	sdk "github.com/cosmos/cosmos-sdk/types"

	cmttypes "github.com/cometbft/cometbft/types"

	clienttypes "github.com/cosmos/ibc-go/v11/modules/core/02-client/types"
	clientv2types "github.com/cosmos/ibc-go/v11/modules/core/02-client/v2/types"
	connectiontypes "github.com/cosmos/ibc-go/v11/modules/core/03-connection/types"
	channeltypes "github.com/cosmos/ibc-go/v11/modules/core/04-channel/types"
	channeltypesv2 "github.com/cosmos/ibc-go/v11/modules/core/04-channel/v2/types"
	commitmenttypes "github.com/cosmos/ibc-go/v11/modules/core/23-commitment/types"
	ibctm "github.com/cosmos/ibc-go/v11/modules/light-clients/07-tendermint"
	ibctesting "github.com/cosmos/ibc-go/v11/testing"
	ibcmock "github.com/cosmos/ibc-go/v11/testing/mock"
	mockv2 "github.com/cosmos/ibc-go/v11/testing/mock/v2"

	"verif/harness/kit"
)

type inboundPkt struct {
	pkt        channeltypes.Packet
	provableAt H // first consensus height of A's client of B whose root contains the commitment
}

// ---------------------------------------------------------------------------------------------
// delivery wrappers

func (s *Sim) deliver(m *opMeta, msgs ...sdk.Msg) *kit.Outcome {
	s.cur = m
	o := s.A.Deliver(s.signer(), msgs...)
	s.cur = nil
	return o
}

func (s *Sim) deliverAs(m *opMeta, acct ibctesting.SenderAccount, msgs ...sdk.Msg) *kit.Outcome {
	s.cur = m
	o := s.A.Deliver(acct, msgs...)
	s.cur = nil
	return o
}

func (s *Sim) inBlock(m *opMeta, f func(ctx sdk.Context) error) *kit.Outcome {
	s.cur = m
	o := s.A.InBlock(f)
	s.afterBlock(o)
	s.cur = nil
	return o
}

func (s *Sim) submitHeader(sub *Subject, h *ibctm.Header, label string) *kit.Outcome {
	acct := s.signer()
	msg, err := clienttypes.NewMsgUpdateClient(sub.ID, h, acct.SenderAccount.GetAddress().String())
	if err != nil {
		panic(kit.Abort{Msg: err.Error()})
	}
	return s.deliverAs(&opMeta{kind: "update", label: label, subj: sub, hdr: h, uses: []*Subject{sub}}, acct, msg)
}

func (s *Sim) submitMisb(sub *Subject, m *ibctm.Misbehaviour, label string) *kit.Outcome {
	acct := s.signer()
	msg, err := clienttypes.NewMsgUpdateClient(sub.ID, m, acct.SenderAccount.GetAddress().String())
	if err != nil {
		panic(kit.Abort{Msg: err.Error()})
	}
	return s.deliverAs(&opMeta{kind: "misbehaviour", label: label, subj: sub, misb: m, uses: []*Subject{sub}}, acct, msg)
}

// ---------------------------------------------------------------------------------------------
// header planning

type plan struct {
	target  H
	trusted H
	t       time.Time
	vals    *cmttypes.ValidatorSet
	next    *cmttypes.ValidatorSet
	sign    []bool
	app     []byte
}

func (s *Sim) pickSubject(pred func(*Subject) bool) *Subject {
	var c []*Subject
	for _, x := range s.Subjects {
		if x.Role != "bystander" && x.Prev != nil && x.Prev.CS != nil && (pred == nil || pred(x)) {
			c = append(c, x)
		}
	}
	if len(c) == 0 {
		return nil
	}
	return kit.Pick(s.R, c)
}

func (s *Sim) active(x *Subject) bool { return x.Prev.ModelStatus(s.now()) == stActive }

// usableTrusted: stored heights of the client's current revision whose next validator set the
// harness knows; live = still inside the trusting period now.
func (s *Sim) usableTrusted(sub *Subject, below *H, liveOnly bool) []H {
	p := sub.Prev
	rev := revOf(p.CS.ChainId)
	var out []H
	for _, h := range p.Heights() {
		if h.R != rev {
			continue
		}
		if below != nil && !h.Less(*below) {
			continue
		}
		c := p.ConsDec[h]
		if c == nil || sub.V.setFor(c.NextValidatorsHash) == nil {
			continue
		}
		if liveOnly && expiredAt(c.Timestamp, p.CS.TrustingPeriod, s.now()) >= 0 {
			continue
		}
		out = append(out, h)
	}
	return out
}

// nextInteresting returns a height above n, biased towards values whose big-endian bytes
// contain 0x2f.
func (s *Sim) nextAbove(n uint64) uint64 {
	switch s.R.Intn(10) {
	case 0, 1, 2:
		return n + 1
	case 3, 4:
		return n + 2 + uint64(s.R.Intn(3))
	case 5, 6:
		return n + 3 + uint64(s.R.Intn(12))
	case 7:
		// next value with low byte 0x2f
		v := (n | 0xff) - 0xff + 0x2f
		if v <= n {
			v += 0x100
		}
		return v
	case 8:
		// next value with second byte 0x2f
		v := (n &^ 0xffff) | 0x2f00
		if v <= n {
			v += 0x10000
		}
		return v + uint64(s.R.Intn(4))
	default:
		return n + 20 + uint64(s.R.Intn(200))
	}
}

func allTrue(n int) []bool {
	b := make([]bool, n)
	for i := range b {
		b[i] = true
	}
	return b
}

// between picks a time strictly inside (lo, hi) when there is room.
func (s *Sim) between(lo, hi time.Time) time.Time {
	d := hi.Sub(lo)
	if d <= 1 {
		return lo.Add(1)
	}
	switch s.R.Intn(6) {
	case 0:
		return lo.Add(1)
	case 1:
		return hi.Add(-1)
	default:
		return lo.Add(1 + time.Duration(s.R.U64()%uint64(d-1)))
	}
}

// honestPlan builds a header plan that an honest relayer of a correct chain could submit:
// kind = "new" (above latest) or "gap" (unstored height between stored ones).
func (s *Sim) honestPlan(sub *Subject, kind string) (*plan, bool) {
	p := sub.Prev
	cs := p.CS
	rev := revOf(cs.ChainId)
	now := s.now()
	pl := &plan{app: s.R.Bytes(32)}
	hs := p.Heights()
	if len(hs) == 0 {
		return nil, false
	}
	switch kind {
	case "new":
		lat := p.Latest()
		if lat.R != rev {
			return nil, false
		}
		pl.target = H{rev, s.nextAbove(lat.N)}
	case "gap":
		// choose an unstored height between two stored heights of this revision
		var cands [][2]H
		for i := 0; i+1 < len(hs); i++ {
			if hs[i].R == rev && hs[i+1].R == rev && hs[i+1].N-hs[i].N > 1 {
				cands = append(cands, [2]H{hs[i], hs[i+1]})
			}
		}
		if len(cands) == 0 {
			return nil, false
		}
		c := kit.Pick(s.R, cands)
		span := c[1].N - c[0].N - 1
		pl.target = H{rev, c[0].N + 1 + s.R.U64()%span}
	}
	tr := s.usableTrusted(sub, &pl.target, true)
	if len(tr) == 0 {
		tr = s.usableTrusted(sub, &pl.target, false)
	}
	if len(tr) == 0 {
		return nil, false
	}
	if s.R.Chance(2, 3) {
		pl.trusted = tr[len(tr)-1]
	} else {
		pl.trusted = kit.Pick(s.R, tr)
	}
	tset := sub.V.setFor(p.ConsDec[pl.trusted].NextValidatorsHash)
	if pl.target.N == pl.trusted.N+1 || s.R.Chance(3, 5) || sub.V.Real {
		pl.vals = tset
	} else {
		pl.vals = kit.Pick(s.R, sub.V.Sets)
	}
	pl.next = kit.Pick(s.R, sub.V.Sets)
	pl.sign = allTrue(len(pl.vals.Validators))
	// time strictly between the stored neighbours, after the trusted state, not in the future
	pv, nx := p.Neighbours(pl.target)
	lo := p.ConsDec[pl.trusted].Timestamp
	if pv != nil && p.ConsDec[*pv] != nil && p.ConsDec[*pv].Timestamp.After(lo) {
		lo = p.ConsDec[*pv].Timestamp
	}
	hi := now.Add(cs.MaxClockDrift)
	if kind == "new" && now.Add(-4*time.Second).After(lo) && s.R.Chance(3, 4) {
		lo = now.Add(-4 * time.Second)
		hi = now
	}
	if nx != nil && p.ConsDec[*nx] != nil && p.ConsDec[*nx].Timestamp.Before(hi) {
		hi = p.ConsDec[*nx].Timestamp
	}
	pl.t = s.between(lo, hi)
	return pl, true
}

func (s *Sim) forge(sub *Subject, pl *plan) *ibctm.Header {
	p := sub.Prev
	var tv *cmttypes.ValidatorSet
	if c := p.ConsDec[pl.trusted]; c != nil {
		tv = sub.V.setFor(c.NextValidatorsHash)
	}
	if tv == nil {
		tv = pl.vals
	}
	return Forge(HSpec{
		ChainID: p.CS.ChainId, Height: int64(pl.target.N), Time: pl.t, AppHash: pl.app,
		Vals: pl.vals, NextVals: pl.next, Sign: pl.sign, Trusted: pl.trusted.IBC(), TrustedVals: tv,
	}, sub.V.Sign)
}

// ---------------------------------------------------------------------------------------------
// update operations

func (s *Sim) opNew(sub *Subject) bool {
	if sub.Real && !s.bHalted {
		return s.opHonestReal()
	}
	pl, ok := s.honestPlan(sub, "new")
	if !ok {
		return false
	}
	s.submitHeader(sub, s.forge(sub, pl), "new")
	return true
}

func (s *Sim) opGap(sub *Subject) bool {
	pl, ok := s.honestPlan(sub, "gap")
	if !ok {
		return false
	}
	s.submitHeader(sub, s.forge(sub, pl), "gap")
	return true
}

// opHonestReal lets chain B make progress and relays its real latest header.
func (s *Sim) opHonestReal() bool {
	sub := s.realSubj
	err := kit.Try(func() {
		s.cur = nil
		if e := s.P.EndpointA.UpdateClient(); e != nil {
			s.tr("honest update of %s failed: %v", sub.ID, short(e.Error()))
		} else {
			s.recordRealRoot()
			s.tr("honest update of %s to %s", sub.ID, sub.Prev.Latest())
			s.C.Inc("client_messages")
			s.C.Inc("update_honest_real_ok")
			s.classes = append(s.classes, "upd/honest-real/ok")
		}
	})
	if err != nil {
		s.tr("honest update aborted: %v", err)
	}
	return true
}

// opDup resubmits a header whose consensus state is already stored: either the very bytes
// that were accepted before, or a re-forged header carrying the same (time, root, next-vals).
func (s *Sim) opDup(sub *Subject) bool {
	p := sub.Prev
	if len(sub.accepted) > 0 && s.R.Chance(1, 2) {
		h := cloneHeader(kit.Pick(s.R, sub.accepted))
		s.submitHeader(sub, h, "dup-same-bytes")
		return true
	}
	rev := revOf(p.CS.ChainId)
	var cands []H
	for _, h := range p.Heights() {
		if h.R == rev && p.ConsDec[h] != nil && len(s.usableTrusted(sub, &h, false)) > 0 && len(p.ConsDec[h].Root.Hash) == 32 && sub.V.setFor(p.ConsDec[h].NextValidatorsHash) != nil {
			cands = append(cands, h)
		}
	}
	if len(cands) == 0 {
		return false
	}
	tgt := kit.Pick(s.R, cands)
	tr := s.usableTrusted(sub, &tgt, true)
	if len(tr) == 0 {
		tr = s.usableTrusted(sub, &tgt, false)
	}
	c := p.ConsDec[tgt]
	pl := &plan{target: tgt, trusted: kit.Pick(s.R, tr), t: c.Timestamp, app: c.Root.Hash, next: sub.V.setFor(c.NextValidatorsHash)}
	pl.vals = sub.V.setFor(p.ConsDec[pl.trusted].NextValidatorsHash)
	pl.sign = allTrue(len(pl.vals.Validators))
	s.submitHeader(sub, s.forge(sub, pl), "dup-reforged")
	return true
}

// opConflict submits a correctly signed header for a stored height that differs in app hash,
// time or next validator set.
func (s *Sim) opConflict(sub *Subject) bool {
	p := sub.Prev
	rev := revOf(p.CS.ChainId)
	var cands []H
	for _, h := range p.Heights() {
		if h.R == rev && p.ConsDec[h] != nil && len(s.usableTrusted(sub, &h, true)) > 0 {
			cands = append(cands, h)
		}
	}
	if len(cands) == 0 {
		return false
	}
	tgt := kit.Pick(s.R, cands)
	tr := s.usableTrusted(sub, &tgt, true)
	c := p.ConsDec[tgt]
	pl := &plan{target: tgt, trusted: kit.Pick(s.R, tr), t: c.Timestamp, app: c.Root.Hash}
	pl.next = sub.V.setFor(c.NextValidatorsHash)
	if pl.next == nil {
		pl.next = kit.Pick(s.R, sub.V.Sets)
	}
	pl.vals = sub.V.setFor(p.ConsDec[pl.trusted].NextValidatorsHash)
	pl.sign = allTrue(len(pl.vals.Validators))
	label := ""
	switch s.R.Intn(4) {
	case 0:
		pl.app = s.R.Bytes(32)
		label = "conflict-apphash"
	case 1:
		// another time that still lies between the neighbours and after the trusted state
		pv, nx := p.Neighbours(tgt)
		lo := p.ConsDec[pl.trusted].Timestamp
		if pv != nil && p.ConsDec[*pv].Timestamp.After(lo) {
			lo = p.ConsDec[*pv].Timestamp
		}
		hi := s.now().Add(p.CS.MaxClockDrift)
		if nx != nil && p.ConsDec[*nx].Timestamp.Before(hi) {
			hi = p.ConsDec[*nx].Timestamp
		}
		pl.t = s.between(lo, hi)
		if pl.t.Equal(c.Timestamp) {
			pl.t = pl.t.Add(1)
		}
		label = "conflict-time"
	case 2:
		for i := 0; i < 6; i++ {
			n := kit.Pick(s.R, sub.V.Sets)
			if string(n.Hash()) != string(c.NextValidatorsHash) {
				pl.next = n
				break
			}
		}
		if sub.V.Real || string(pl.next.Hash()) == string(c.NextValidatorsHash) {
			pl.app = s.R.Bytes(32)
		}
		label = "conflict-nextvals"
	default:
		pl.app = s.R.Bytes(32)
		pl.t = c.Timestamp.Add(time.Duration(s.R.Intn(3)-1) * time.Nanosecond)
		label = "conflict-apphash-time"
	}
	s.submitHeader(sub, s.forge(sub, pl), label)
	return true
}

// opBadTime submits a correctly signed header for an unstored height whose time is not
// strictly between the times of its stored neighbours.
func (s *Sim) opBadTime(sub *Subject) bool {
	kind := "gap"
	if s.R.Chance(1, 3) || sub.Real {
		kind = "new"
	}
	if sub.Real {
		kind = "gap"
	}
	pl, ok := s.honestPlan(sub, kind)
	if !ok {
		pl, ok = s.honestPlan(sub, "new")
		if !ok || sub.Real {
			return false
		}
	}
	p := sub.Prev
	// prefer a trusted height that is not the immediate predecessor so that a time at or
	// before the predecessor's can still be after the trusted state's
	tr := s.usableTrusted(sub, &pl.target, true)
	if len(tr) >= 2 && s.R.Chance(3, 4) {
		pl.trusted = tr[s.R.Intn(len(tr)-1)]
		if !(pl.target.N == pl.trusted.N+1) {
			// keep the own set chosen by honestPlan unless adjacency now requires the trusted next set
		} else {
			pl.vals = sub.V.setFor(p.ConsDec[pl.trusted].NextValidatorsHash)
			pl.sign = allTrue(len(pl.vals.Validators))
		}
	}
	pv, nx := p.Neighbours(pl.target)
	tt := p.ConsDec[pl.trusted].Timestamp
	var opts []time.Time
	var labels []string
	if pv != nil && p.ConsDec[*pv] != nil {
		pt := p.ConsDec[*pv].Timestamp
		opts = append(opts, pt, pt.Add(-1))
		labels = append(labels, "badtime-eq-prev", "badtime-before-prev")
		if pt.Sub(tt) > 2 {
			opts = append(opts, s.between(tt, pt))
			labels = append(labels, "badtime-between-trusted-and-prev")
		}
	}
	if nx != nil && p.ConsDec[*nx] != nil {
		nt := p.ConsDec[*nx].Timestamp
		opts = append(opts, nt, nt.Add(1))
		labels = append(labels, "badtime-eq-next", "badtime-after-next")
		lim := s.now().Add(p.CS.MaxClockDrift)
		if lim.Sub(nt) > 2 {
			opts = append(opts, s.between(nt, lim))
			labels = append(labels, "badtime-well-after-next")
		}
	}
	if len(opts) == 0 {
		return false
	}
	i := s.R.Intn(len(opts))
	pl.t = opts[i]
	s.submitHeader(sub, s.forge(sub, pl), labels[i])
	return true
}

// ---------------------------------------------------------------------------------------------
// C24: voting-power boundaries and mutations

// opPower signs an otherwise honest header with a validator subset chosen at an exact
// voting-power boundary of its own set (2/3) or of the trusted set (trust level).
func (s *Sim) opPower(sub *Subject) bool {
	kind := "new"
	if s.R.Chance(1, 3) {
		kind = "gap"
	}
	pl, ok := s.honestPlan(sub, kind)
	if !ok {
		if pl, ok = s.honestPlan(sub, "new"); !ok {
			return false
		}
	}
	if sub.Real && kind == "new" {
		return false
	}
	p := sub.Prev
	tset := sub.V.setFor(p.ConsDec[pl.trusted].NextValidatorsHash)
	// a non-adjacent target lets the own set differ from the trusted one
	if pl.target.N != pl.trusted.N+1 && !sub.V.Real && s.R.Chance(2, 3) {
		pl.vals = kit.Pick(s.R, sub.V.Sets)
	}
	n := len(pl.vals.Validators)
	tot := pl.vals.TotalVotingPower()
	ttot := tset.TotalVotingPower()
	num, den := int64(p.CS.TrustLevel.Numerator), int64(p.CS.TrustLevel.Denominator)
	type cand struct {
		mask     int
		own, trs int64
	}
	cls := map[string][]cand{}
	for m := 0; m < 1<<n; m++ {
		var own, trs int64
		for i, v := range pl.vals.Validators {
			if m&(1<<i) != 0 {
				own += v.VotingPower
				if _, tv := tset.GetByAddress(v.Address); tv != nil {
					trs += tv.VotingPower
				}
			}
		}
		c := cand{m, own, trs}
		switch {
		case own*3 == tot*2:
			cls["own-exactly-2/3"] = append(cls["own-exactly-2/3"], c)
		case own*3 < tot*2:
			cls["own-below-2/3"] = append(cls["own-below-2/3"], c)
		case trs*den < ttot*num:
			cls["own-ok-trusted-below-level"] = append(cls["own-ok-trusted-below-level"], c)
		case trs*den == ttot*num:
			cls["own-ok-trusted-exactly-level"] = append(cls["own-ok-trusted-exactly-level"], c)
		default:
			cls["own-ok-trusted-ok"] = append(cls["own-ok-trusted-ok"], c)
		}
	}
	var names []string
	for _, k := range []string{"own-exactly-2/3", "own-below-2/3", "own-ok-trusted-below-level", "own-ok-trusted-exactly-level", "own-ok-trusted-ok"} {
		if len(cls[k]) > 0 {
			names = append(names, k)
		}
	}
	name := kit.Pick(s.R, names)
	cs := cls[name]
	// tightest member of the class: the one closest to the boundary
	best := cs[0]
	for _, c := range cs {
		switch name {
		case "own-below-2/3":
			if c.own > best.own {
				best = c
			}
		case "own-ok-trusted-below-level":
			if c.trs > best.trs {
				best = c
			}
		case "own-ok-trusted-ok":
			if c.own < best.own || (c.own == best.own && c.trs < best.trs) {
				best = c
			}
		}
	}
	if s.R.Chance(1, 4) {
		best = kit.Pick(s.R, cs)
	}
	pl.sign = make([]bool, n)
	for i := range pl.sign {
		pl.sign[i] = best.mask&(1<<i) != 0
	}
	s.submitHeader(sub, s.forge(sub, pl), "power-"+name)
	return true
}

// opMutant derives a header from an honestly signed one by changing a signed field, a
// signature, a validator set, the trusted height or the revision.
func (s *Sim) opMutant(sub *Subject) bool {
	kind := "new"
	if s.R.Chance(1, 3) {
		kind = "gap"
	}
	pl, ok := s.honestPlan(sub, kind)
	if !ok {
		if pl, ok = s.honestPlan(sub, "new"); !ok {
			return false
		}
	}
	p := sub.Prev
	h := s.forge(sub, pl)
	flip := func(b []byte) []byte {
		c := append([]byte{}, b...)
		if len(c) > 0 {
			c[s.R.Intn(len(c))] ^= 1 << uint(s.R.Intn(8))
		}
		return c
	}
	muts := []string{
		"apphash", "time", "height", "nextvalshash", "chainid-name", "chainid-rev", "validatorshash", "lastcommithash", "proposer",
		"sig-flip-one", "sig-flip-all", "sig-swap", "commit-round", "commit-timestamp", "commit-flag-nil",
		"valset-power", "valset-drop", "valset-foreign-key",
		"trustedvals-other", "trustedvals-power", "trustedvals-drop",
		"trustedheight-other", "trustedheight-missing", "trustedheight-above", "trustedheight-revision",
		"resign-other-chainid", "resign-foreign-keys", "future-time",
	}
	mu := kit.Pick(s.R, muts)
	fix := s.R.Chance(1, 2) // also re-point the commit at the edited header (signatures stay)
	// a stored state of an older revision (left behind by an upgrade) as trusted state
	var oldRev []H
	for _, x := range p.Heights() {
		if x.R < pl.target.R && p.ConsDec[x] != nil && sub.V.setFor(p.ConsDec[x].NextValidatorsHash) != nil {
			oldRev = append(oldRev, x)
		}
	}
	if len(oldRev) > 0 && s.R.Chance(1, 3) {
		mu = "trustedheight-older-revision"
	}
	switch mu {
	case "trustedheight-older-revision":
		// fully signed by the validators that the old-revision state trusts, at a height above it
		tr := kit.Pick(s.R, oldRev)
		set := sub.V.setFor(p.ConsDec[tr].NextValidatorsHash)
		pl2 := *pl
		pl2.trusted, pl2.vals, pl2.sign = tr, set, allTrue(len(set.Validators))
		if pl2.target.N <= tr.N {
			pl2.target.N = tr.N + 1 + uint64(s.R.Intn(5))
		}
		if !pl2.t.After(p.ConsDec[tr].Timestamp) {
			pl2.t = s.between(p.ConsDec[tr].Timestamp, s.now())
		}
		h = s.forge(sub, &pl2)
		fix = false
	case "apphash":
		h.Header.AppHash = flip(h.Header.AppHash)
	case "time":
		h.Header.Time = h.Header.Time.Add(time.Duration(1+s.R.Intn(1000)) * time.Nanosecond)
	case "height":
		h.Header.Height++
		h.Commit.Height = h.Header.Height
	case "nextvalshash":
		h.Header.NextValidatorsHash = flip(h.Header.NextValidatorsHash)
	case "chainid-name":
		h.Header.ChainID = "x" + h.Header.ChainID
	case "chainid-rev":
		h.Header.ChainID = fmt.Sprintf("%s-%d", sub.V.Name, revOf(p.CS.ChainId)+1+uint64(s.R.Intn(2)))
	case "validatorshash":
		h.Header.ValidatorsHash = flip(h.Header.ValidatorsHash)
	case "lastcommithash":
		h.Header.LastCommitHash = flip(h.Header.LastCommitHash)
	case "proposer":
		h.Header.ProposerAddress = flip(h.Header.ProposerAddress)
	case "sig-flip-one":
		i := s.R.Intn(len(h.Commit.Signatures))
		h.Commit.Signatures[i].Signature = flip(h.Commit.Signatures[i].Signature)
		fix = false
	case "sig-flip-all":
		for i := range h.Commit.Signatures {
			h.Commit.Signatures[i].Signature = flip(h.Commit.Signatures[i].Signature)
		}
		fix = false
	case "sig-swap":
		if len(h.Commit.Signatures) >= 2 {
			a, b := 0, 1+s.R.Intn(len(h.Commit.Signatures)-1)
			h.Commit.Signatures[a].Signature, h.Commit.Signatures[b].Signature = h.Commit.Signatures[b].Signature, h.Commit.Signatures[a].Signature
		}
		fix = false
	case "commit-round":
		h.Commit.Round++
		fix = false
	case "commit-timestamp":
		for i := range h.Commit.Signatures {
			h.Commit.Signatures[i].Timestamp = h.Commit.Signatures[i].Timestamp.Add(time.Second)
		}
		fix = false
	case "commit-flag-nil":
		for i := range h.Commit.Signatures {
			if s.R.Chance(2, 3) {
				h.Commit.Signatures[i].BlockIdFlag = 3 // BLOCK_ID_FLAG_NIL
			}
		}
		fix = false
	case "valset-power":
		i := s.R.Intn(len(h.ValidatorSet.Validators))
		h.ValidatorSet.Validators[i].VotingPower += 1 + int64(s.R.Intn(50))
		if s.R.Chance(1, 2) {
			// make the header agree with the edited set (signatures then no longer match)
			h.Header.ValidatorsHash = hashOfProtoSet(h.ValidatorSet)
		}
	case "valset-drop":
		if len(h.ValidatorSet.Validators) > 1 {
			h.ValidatorSet.Validators = h.ValidatorSet.Validators[:len(h.ValidatorSet.Validators)-1]
			h.Commit.Signatures = h.Commit.Signatures[:len(h.ValidatorSet.Validators)]
			if s.R.Chance(1, 2) {
				h.Header.ValidatorsHash = hashOfProtoSet(h.ValidatorSet)
			}
		}
	case "valset-foreign-key":
		kr := NewKeyring(s.R.Sub("foreign"), 1)
		i := s.R.Intn(len(h.ValidatorSet.Validators))
		fv := cmttypes.NewValidator(kr.Pub[0], h.ValidatorSet.Validators[i].VotingPower)
		pv, _ := fv.ToProto()
		h.ValidatorSet.Validators[i] = pv
		if s.R.Chance(1, 2) {
			h.Header.ValidatorsHash = hashOfProtoSet(h.ValidatorSet)
		}
	case "trustedvals-other":
		for i := 0; i < 6; i++ {
			o := kit.Pick(s.R, sub.V.Sets)
			if string(o.Hash()) != string(p.ConsDec[pl.trusted].NextValidatorsHash) {
				h.TrustedValidators = protoSet(o)
				break
			}
		}
		if sub.V.Real {
			h.TrustedValidators.Validators[0].VotingPower += 7
		}
		fix = false
	case "trustedvals-power":
		i := s.R.Intn(len(h.TrustedValidators.Validators))
		h.TrustedValidators.Validators[i].VotingPower += 1 + int64(s.R.Intn(50))
		fix = false
	case "trustedvals-drop":
		if len(h.TrustedValidators.Validators) > 1 {
			h.TrustedValidators.Validators = h.TrustedValidators.Validators[1:]
		}
		fix = false
	case "trustedheight-other":
		tr := s.usableTrusted(sub, &pl.target, false)
		h.TrustedHeight = kit.Pick(s.R, tr).IBC()
		fix = false
	case "trustedheight-missing":
		h.TrustedHeight = clienttypes.NewHeight(pl.trusted.R, pl.trusted.N+1)
		if _, ok := p.Cons[hOf(h.TrustedHeight)]; ok || !hOf(h.TrustedHeight).Less(pl.target) {
			if pl.trusted.N > 1 {
				h.TrustedHeight = clienttypes.NewHeight(pl.trusted.R, pl.trusted.N-1)
			}
		}
		fix = false
	case "trustedheight-above":
		h.TrustedHeight = clienttypes.NewHeight(pl.target.R, pl.target.N+uint64(s.R.Intn(2)))
		fix = false
	case "trustedheight-revision":
		if pl.trusted.R > 0 && s.R.Bool() {
			h.TrustedHeight = clienttypes.NewHeight(pl.trusted.R-1, pl.trusted.N)
		} else {
			h.TrustedHeight = clienttypes.NewHeight(pl.trusted.R+1, pl.trusted.N)
		}
		fix = false
	case "resign-other-chainid":
		// a fully and correctly signed header of another chain id
		h.Header.ChainID = "z" + h.Header.ChainID
		Resign(h, pl.vals, pl.sign, sub.V.Sign)
		fix = false
	case "resign-foreign-keys":
		// validators of the right addresses/powers sign with keys the harness does not hold:
		// simulate by a different keyring producing garbage signatures of correct length
		kr := NewKeyring(s.R.Sub("garbage"), 1)
		Resign(h, pl.vals, pl.sign, func(addr, msg []byte) ([]byte, bool) {
			sig, err := kr.Priv[0].Sign(msg)
			return sig, err == nil
		})
		fix = false
	case "future-time":
		// correctly signed header with a time beyond the allowed clock drift (or exactly at it)
		d := []time.Duration{1, 0, time.Second, time.Hour}[s.R.Intn(4)]
		h.Header.Time = s.now().Add(p.CS.MaxClockDrift).Add(d)
		Resign(h, pl.vals, pl.sign, sub.V.Sign)
		fix = false
	}
	if fix {
		fixBlockID(h)
		mu += "+blockid"
	}
	o := s.submitHeader(sub, h, "mut-"+mu)
	_ = o
	return true
}

// ---------------------------------------------------------------------------------------------
// misbehaviour

func (s *Sim) opMisb(sub *Subject, timeKind bool) bool {
	p := sub.Prev
	rev := revOf(p.CS.ChainId)
	tr := s.usableTrusted(sub, nil, true)
	if len(tr) == 0 {
		tr = s.usableTrusted(sub, nil, false)
		if len(tr) == 0 {
			return false
		}
	}
	mk := func(height uint64, t time.Time, trusted H, app []byte) (*ibctm.Header, *plan) {
		vals := sub.V.setFor(p.ConsDec[trusted].NextValidatorsHash)
		pl := &plan{target: H{rev, height}, trusted: trusted, t: t, vals: vals, next: kit.Pick(s.R, sub.V.Sets), sign: allTrue(len(vals.Validators)), app: app}
		return s.forge(sub, pl), pl
	}
	t1 := kit.Pick(s.R, tr)
	t2 := kit.Pick(s.R, tr)
	maxT := t1
	if maxT.Less(t2) {
		maxT = t2
	}
	base := maxT.N + 1 + uint64(s.R.Intn(5))
	now := s.now()
	var h1, h2 *ibctm.Header
	var p1 *plan
	label := ""
	if !timeKind {
		ts := now.Add(-time.Duration(s.R.Intn(3000)) * time.Millisecond)
		h1, p1 = mk(base, ts, t1, s.R.Bytes(32))
		h2, _ = mk(base, ts.Add(time.Duration(s.R.Intn(3))*time.Millisecond), t2, s.R.Bytes(32))
		label = "misb-fork"
		if s.R.Chance(1, 6) {
			h2 = cloneHeader(h1)
			label = "misb-fork-identical"
		}
	} else {
		// header1 is the higher one; violation iff time1 <= time2
		ta := now.Add(-time.Duration(1+s.R.Intn(3000)) * time.Millisecond)
		d := []time.Duration{0, time.Nanosecond, time.Second, -time.Nanosecond, -time.Second}[s.R.Intn(5)]
		h1, p1 = mk(base+1+uint64(s.R.Intn(4)), ta, t1, s.R.Bytes(32))
		h2, _ = mk(base, ta.Add(d), t2, s.R.Bytes(32))
		label = "misb-time"
		if d < 0 {
			label = "misb-time-monotone"
		}
	}
	// optionally break one half
	switch s.R.Intn(9) {
	case 0:
		// insufficient trusted power: only the smallest validator signs (fails validCommit too)
		sg := make([]bool, len(p1.vals.Validators))
		sg[len(sg)-1] = true
		Resign(h1, p1.vals, sg, sub.V.Sign)
		label += "+h1-undersigned"
	case 1:
		h2.TrustedValidators.Validators[0].VotingPower += 3
		label += "+h2-trustedvals"
	case 2:
		// header 2 signed by a set the trusted validators are not part of
		kr := NewKeyring(s.R.Sub("alien"), 3)
		alien := kr.Set([]int{0, 1, 2}, []int64{3, 3, 3})
		th, _ := cmttypes.HeaderFromProto(h2.Header)
		th.ValidatorsHash = alien.Hash()
		h2.Header = th.ToProto()
		h2.ValidatorSet = protoSet(alien)
		Resign(h2, alien, nil, kr.Sign)
		label += "+h2-alien-valset"
	case 3:
		h1.TrustedHeight = clienttypes.NewHeight(t1.R, t1.N+1000000)
		label += "+h1-trusted-missing"
	case 4:
		// a half from the next revision, trusted in this one (accepted by design; recorded)
		th, _ := cmttypes.HeaderFromProto(h1.Header)
		th.ChainID = fmt.Sprintf("%s-%d", sub.V.Name, rev+1)
		th2, _ := cmttypes.HeaderFromProto(h2.Header)
		th2.ChainID = th.ChainID
		h1.Header, h2.Header = th.ToProto(), th2.ToProto()
		Resign(h1, p1.vals, nil, sub.V.Sign)
		v2 := sub.V.setFor(p.ConsDec[t2].NextValidatorsHash)
		Resign(h2, v2, nil, sub.V.Sign)
		label += "+cross-revision"
	case 5:
		// both halves far in the future
		for _, hh := range []*ibctm.Header{h1, h2} {
			th, _ := cmttypes.HeaderFromProto(hh.Header)
			th.Time = th.Time.Add(24 * time.Hour)
			hh.Header = th.ToProto()
		}
		Resign(h1, p1.vals, nil, sub.V.Sign)
		Resign(h2, sub.V.setFor(p.ConsDec[t2].NextValidatorsHash), nil, sub.V.Sign)
		label += "+future"
	}
	m := &ibctm.Misbehaviour{ClientId: sub.ID, Header1: h1, Header2: h2}
	s.submitMisb(sub, m, label)
	return true
}

// ---------------------------------------------------------------------------------------------
// time

func (s *Sim) jumpTo(t time.Time, why string) bool {
	d := t.Sub(s.now())
	if d <= 0 {
		return false
	}
	s.W.Coord.IncrementTimeBy(d)
	s.tr("time -> %s (%s)", s.now().Format(time.RFC3339Nano), why)
	s.classes = append(s.classes, "jump/"+why)
	s.C.Inc("time_jumps")
	s.statusProbe()
	return true
}

func (s *Sim) opJump() bool {
	return s.jumpTo(s.now().Add(time.Duration(20+s.R.Intn(400))*time.Second), "random")
}

var edge = []time.Duration{-time.Nanosecond, 0, time.Nanosecond, -time.Second, time.Second, 7 * time.Second}

// opJumpExpire moves the clock to just before / exactly at / just after the expiry of a
// client's latest consensus state.
func (s *Sim) opJumpExpire(sub *Subject) bool {
	// usually the client that expires first, so that the others survive the jump
	if s.R.Chance(4, 5) {
		var first *Subject
		var ft time.Time
		for _, x := range s.Subjects {
			if x.Role == "bystander" || x.Prev == nil || x.Prev.CS == nil || !s.active(x) {
				continue
			}
			if c := x.Prev.ConsDec[x.Prev.Latest()]; c != nil {
				if e := c.Timestamp.Add(x.Prev.CS.TrustingPeriod); first == nil || e.Before(ft) {
					first, ft = x, e
				}
			}
		}
		if first != nil {
			sub = first
		}
	}
	p := sub.Prev
	c := p.ConsDec[p.Latest()]
	if c == nil {
		return false
	}
	e := kit.Pick(s.R, edge)
	return s.jumpTo(c.Timestamp.Add(p.CS.TrustingPeriod).Add(e), fmt.Sprintf("expiry-of-%s%+d", sub.ID, e))
}

// opJumpPrune moves the clock to just before / at / after the expiry of the client's oldest
// consensus state while its latest one stays alive, so that the next update may prune.
func (s *Sim) opJumpPrune(sub *Subject) bool {
	p := sub.Prev
	hs := p.Heights()
	if len(hs) < 2 {
		return false
	}
	old, lat := p.ConsDec[hs[0]], p.ConsDec[p.Latest()]
	if old == nil || lat == nil {
		return false
	}
	e := kit.Pick(s.R, edge)
	t := old.Timestamp.Add(p.CS.TrustingPeriod).Add(e)
	if !t.Before(lat.Timestamp.Add(p.CS.TrustingPeriod).Add(-30 * time.Second)) {
		return false
	}
	return s.jumpTo(t, fmt.Sprintf("prune-edge-of-%s%+d", sub.ID, e))
}

// ---------------------------------------------------------------------------------------------
// gating: consumers of a client driven through real messages

func (s *Sim) opGateInit(sub *Subject) bool {
	acct := s.signer()
	msg := connectiontypes.NewMsgConnectionOpenInit(sub.ID, "07-tendermint-0", commitmenttypes.NewMerklePrefix([]byte("ibc")), ibctesting.ConnectionVersion, 0, acct.SenderAccount.GetAddress().String())
	o := s.deliverAs(&opMeta{kind: "gate", gate: "ConnOpenInit", uses: []*Subject{sub}}, acct, msg)
	if o.OK() && sub.Conn == "" {
		if id, err := ibctesting.ParseConnectionIDFromEvents(o.Res.Events); err == nil {
			sub.Conn = id
		}
	}
	return true
}

func (s *Sim) opGateChanInit(sub *Subject) bool {
	conn := sub.Conn
	if sub.Real && s.R.Bool() {
		conn = s.P.EndpointA.ConnectionID
	}
	if conn == "" {
		return s.opGateInit(sub)
	}
	acct := s.signer()
	msg := channeltypes.NewMsgChannelOpenInit(ibcmock.PortID, ibcmock.Version, channeltypes.UNORDERED, []string{conn}, ibcmock.PortID, acct.SenderAccount.GetAddress().String())
	s.deliverAs(&opMeta{kind: "gate", gate: "ChanOpenInit", uses: []*Subject{sub}}, acct, msg)
	return true
}

func (s *Sim) opGateV2(sub *Subject) bool {
	if !sub.V2Ready {
		if sub.Real {
			return false
		}
		// only the creator may register; the harness does not track creators, so it asks the store
		creator := s.A.App.GetIBCKeeper().ClientKeeper.GetClientCreator(s.A.GetContext(), sub.ID)
		var acct *ibctesting.SenderAccount
		for i := range s.A.SenderAccounts {
			if s.A.SenderAccounts[i].SenderAccount.GetAddress().Equals(creator) {
				acct = &s.A.SenderAccounts[i]
			}
		}
		if acct == nil {
			return false
		}
		msg := clientv2types.NewMsgRegisterCounterparty(sub.ID, [][]byte{[]byte("ibc"), []byte("")}, "07-tendermint-0", acct.SenderAccount.GetAddress().String())
		o := s.deliverAs(&opMeta{kind: "other", label: "register-counterparty"}, *acct, msg)
		if !o.OK() {
			s.tr("register counterparty for %s failed: %s", sub.ID, short(o.Log))
			return true
		}
		sub.V2Ready = true
	}
	acct := s.signer()
	tt := uint64(s.now().Unix()) + 600
	msg := channeltypesv2.NewMsgSendPacket(sub.ID, tt, acct.SenderAccount.GetAddress().String(), mockv2.NewMockPayload(mockv2.PortIDA, mockv2.PortIDB))
	s.deliverAs(&opMeta{kind: "gate", gate: "SendPacketV2", uses: []*Subject{sub}}, acct, msg)
	return true
}

// isRealRoot: was the consensus state at h produced by B's real header (the harness only
// proves packets against real roots)?
func (s *Sim) isRealRoot(h H, c *ibctm.ConsensusState) bool {
	want, ok := s.realRoots[h.N]
	return ok && string(want) == string(c.Root.Hash)
}

// ---------------------------------------------------------------------------------------------
// scheduler

type wop struct {
	w int
	f func() bool
}

// maintain keeps a living population of clients: fresh virtual clients are spawned and dead
// ones recovered with a proper substitute when too few are Active.
func (s *Sim) maintain() {
	nAct := 0
	var dead []*Subject
	for _, x := range s.Subjects {
		if x.Real || x.Role == "bystander" || x.Prev == nil || x.Prev.CS == nil {
			continue
		}
		if s.active(x) {
			nAct++
		} else if x.Role == "main" {
			dead = append(dead, x)
		}
	}
	if nAct < 2 {
		if len(dead) > 0 && s.R.Bool() {
			s.recoverSubject(kit.Pick(s.R, dead), true)
		} else if len(s.Subjects) < 16 {
			s.newVirtual(0)
		} else if len(dead) > 0 {
			s.recoverSubject(kit.Pick(s.R, dead), true)
		}
	}
	if s.realSubj.V.Real && !s.bHalted && !s.active(s.realSubj) && s.R.Chance(1, 7) {
		s.recoverSubject(s.realSubj, true)
	}
}

// opRealHostile makes the real client unusable (conflicting header, misbehaviour or expiry)
// so that its consumers are exercised against a Frozen / Expired client.
func (s *Sim) opRealHostile() bool {
	sub := s.realSubj
	if !s.active(sub) || !sub.V.Real {
		return false
	}
	switch s.R.Intn(4) {
	case 0:
		return s.opMisb(sub, s.R.Bool())
	case 1:
		p := sub.Prev
		c := p.ConsDec[p.Latest()]
		if c == nil {
			return false
		}
		return s.jumpTo(c.Timestamp.Add(p.CS.TrustingPeriod).Add(kit.Pick(s.R, edge)), "expiry-of-real-client")
	default:
		return s.opConflict(sub)
	}
}

func (s *Sim) Step(pr Profile) {
	s.recordRealRoot()
	s.maintain()
	anyS := func() *Subject { return s.pickSubject(nil) }
	act := func() *Subject {
		if x := s.pickSubject(s.active); x != nil && s.R.Chance(5, 6) {
			return x
		}
		return anyS()
	}
	virt := func() *Subject {
		if x := s.pickSubject(func(x *Subject) bool { return !x.Real && s.active(x) }); x != nil && s.R.Chance(5, 6) {
			return x
		}
		return s.pickSubject(func(x *Subject) bool { return !x.Real })
	}
	on := func(pick func() *Subject, f func(*Subject) bool) func() bool {
		return func() bool {
			x := pick()
			if x == nil {
				return false
			}
			return f(x)
		}
	}
	ops := []wop{
		{pr.New, on(act, s.opNew)},
		{pr.Gap, on(act, s.opGap)},
		{pr.Dup, on(act, s.opDup)},
		{pr.Conflict, on(act, s.opConflict)},
		{pr.BadTime, on(act, s.opBadTime)},
		{pr.Mutant, on(act, s.opMutant)},
		{pr.Power, on(virt, s.opPower)},
		{pr.MisbFork, on(act, func(x *Subject) bool { return s.opMisb(x, false) })},
		{pr.MisbTime, on(act, func(x *Subject) bool { return s.opMisb(x, true) })},
		{pr.Jump, s.opJump},
		{pr.JumpExpire, on(act, s.opJumpExpire)},
		{pr.JumpPrune, on(act, s.opJumpPrune)},
		{pr.Recover, s.opRecover},
		{pr.UpgradeVirt, on(virt, s.opUpgradeVirt)},
		{pr.UpgradeReal, s.opUpgradeReal},
		{pr.GateInit, on(anyS, s.opGateInit)},
		{pr.GateHandshake, on(anyS, s.opGateChanInit)},
		{pr.GateV2, on(anyS, s.opGateV2)},
		{pr.GateRecv, s.opGateProof},
		{pr.GateSend, s.opGateSend},
		{pr.RealHostile, s.opRealHostile},
		{pr.HonestReal, func() bool {
			if s.bHalted {
				return false
			}
			if s.R.Chance(1, 3) {
				return s.feedInbound()
			}
			return s.opHonestReal()
		}},
	}
	// consumers of the real client while it is not Active
	if pr.GateRecv > 0 && !s.active(s.realSubj) && s.R.Chance(1, 3) && s.opGateProof() {
		return
	}
	tot := 0
	for _, o := range ops {
		tot += o.w
	}
	for tries := 0; tries < 6; tries++ {
		x := s.R.Intn(tot)
		for _, o := range ops {
			if x < o.w {
				if o.f() {
					return
				}
				break
			}
			x -= o.w
		}
	}
}
