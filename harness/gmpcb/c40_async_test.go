package gmpcb

import (
	"fmt"
	"time"

	storetypes "github.com/cosmos/cosmos-sdk/store/v2/types"
	sdk "github.com/cosmos/cosmos-sdk/types"

	cbtypes "github.com/cosmos/ibc-go/v11/modules/apps/callbacks/types"
	channeltypesv2 "github.com/cosmos/ibc-go/v11/modules/core/04-channel/v2/types"
	hostv2 "github.com/cosmos/ibc-go/v11/modules/core/24-host/v2"
	ibctesting "github.com/cosmos/ibc-go/v11/testing"

	"verif/harness/kit"
)

// Asynchronous write-acknowledgement cells: an application stub on port AsyncPort (wrapped by the real v2 callbacks middleware)
// answers every receive with PacketStatus_Async; the harness then plays the application's later WriteAcknowledgement call through
// the middleware with a gas meter of its choice, inside a cache that is committed only if the call neither fails nor panics
// (= the atomicity a transaction would give it).

type asyncRun struct {
	err      error
	panicked any
	ob       *CBObs
	diff     []kit.KV
	written  bool
}

func (m *c40) asyncWriteAck(cr *cellRun, dstClient string, seq uint64, limit uint64, commit bool) *asyncRun {
	b := m.b
	pre := b.Snapshot()
	ctx := b.GetContext()
	cctx, write := ctx.CacheContext()
	cctx = cctx.WithGasMeter(storetypes.NewGasMeter(limit))
	ack := channeltypesv2.NewAcknowledgement([]byte("async-result"))
	mark := len(b.Obs)
	res := &asyncRun{}
	func() {
		defer func() { res.panicked = recover() }()
		f := b.enter("wack", 2, cctx)
		defer b.leave(f)
		res.err = b.AsyncMW.WriteAcknowledgement(cctx, dstClient, seq, ack)
	}()
	for _, ob := range b.Obs[mark:] {
		if ob.Scripted && ob.Tag == cr.tag {
			res.ob = ob
		}
	}
	if commit && res.err == nil && res.panicked == nil {
		write()
		res.written = true
	}
	b.Commit()
	res.diff = b.DiffSnap(pre, b.Snapshot())
	return res
}

func (m *c40) runAsyncCell(cl cell) {
	m.r = kit.NewRng(m.c.Seed, "C40", "shard", fmt.Sprint(m.c.Shard), cl.id(m.max))
	m.tag++
	a, b, p := m.a, m.b, m.p2
	cr := &cellRun{cl: cl, tag: fmt.Sprintf("t%d", m.tag), keys: 1 + m.r.Intn(3)}
	field, u := m.userVal(cl.user)
	cr.user, cr.commit = u, capGas(u, m.max)
	script := ContractAddr("recv", cl.beh, cr.keys, cr.tag)
	value := fmt.Sprintf(`{"%s": {"address": "%s"%s}}`, cbtypes.DestinationCallbackKey, script, field)
	payload := channeltypesv2.NewPayload(AsyncPort, AsyncPort, "c40-1", "application/json", []byte(value))
	timeout := uint64(m.w.Coord.CurrentTime.Add(2 * time.Hour).Unix())
	so := a.Deliver(a.Acct(1), 0, channeltypesv2.NewMsgSendPacket(p.EndpointA.ClientID, timeout, a.Addr(1).String(), payload))
	if !so.OK() {
		panic(kit.Abort{Msg: "async send failed: " + clip(so.Log)})
	}
	pk, err := ibctesting.ParseV2PacketFromEvents(so.Res.Events)
	must(err)
	must(p.EndpointB.UpdateClient())
	proof, ph := a.QueryProof(hostv2.PacketCommitmentKey(pk.SourceClient, pk.Sequence))
	ro := b.Deliver(b.Acct(8), 0, channeltypesv2.NewMsgRecvPacket(pk, proof, ph, b.Addr(8).String()))
	if !ro.OK() {
		panic(kit.Abort{Msg: "async recv failed: " + clip(ro.Log)})
	}
	ackKey := hostv2.PacketAcknowledgementKey(pk.DestinationClient, pk.Sequence)
	if b.StoreGet("ibc", ackKey) != nil {
		panic(kit.Abort{Msg: "stub application was acknowledged synchronously"})
	}
	m.c.Inc("cells")
	m.c.Inc("cells_async")
	id := cl.id(m.max)

	// probe (never committed): gas consumed before the contract starts
	pr := m.asyncWriteAck(cr, pk.DestinationClient, pk.Sequence, 50_000_000, false)
	if pr.ob == nil || len(pr.diff) != 0 {
		panic(kit.Abort{Msg: fmt.Sprintf("async probe: contract reached %v, diff %d", pr.ob != nil, len(pr.diff))})
	}
	pre := pr.ob.OuterConsumedAtEntry
	var limits []uint64
	if cl.relayer == "generous" {
		limits = []uint64{10_000_000}
	} else {
		r1 := cr.commit/2 + uint64(m.r.Intn(int(cr.commit/2)))
		limits = []uint64{pre + r1, pre + cr.commit - 1, pre + cr.commit, pre + cr.commit + 1, 10_000_000}
	}
	var toProbe balProbe
	aborted := false
	for i, lim := range limits {
		final := i == len(limits)-1
		toProbe = probe(b, b.Addr(contractTo), sdk.DefaultBondDenom)
		res := m.asyncWriteAck(cr, pk.DestinationClient, pk.Sequence, lim, true)
		ob := res.ob
		wit := map[string]any{"cell": id, "gas_limit_of_call": lim, "user_limit": cr.user, "commit_limit": cr.commit, "err": fmt.Sprint(res.err), "panic": fmt.Sprint(res.panicked)}
		if ob == nil {
			cr.note("failed-before-contract")
			continue
		}
		wit["limit_seen"], wit["past_limit"], wit["remaining_at_contract_start"] = ob.LimitSeen, ob.PastLimit, ob.OuterRemainAtEntry
		// (ii) gas bound
		m.c.Inc("gas_bound_checks")
		m.c.Inc("obs_async_wack")
		bound := minU(ob.OuterRemainAtEntry, cr.commit)
		if ob.LimitSeen > bound {
			c40Cap.violate(m.c, "C40|contract-gas-limit-above-bound|async|recv|user="+cl.user, fmt.Sprintf("%s: contract limit %d > min(remaining %d, cap %d)", id, ob.LimitSeen, ob.OuterRemainAtEntry, cr.commit), wit)
		} else if ob.LimitSeen == bound {
			m.c.Inc("limit_equals_min_remaining_cap")
		}
		if ob.OuterRemainAtEntry < cr.commit {
			m.c.Inc("limit_capped_by_remaining")
		}
		switch {
		case ob.OuterRemainAtEntry == cr.commit:
			m.c.Inc("boundary_remaining_eq_commit")
		case ob.OuterRemainAtEntry == cr.commit-1:
			m.c.Inc("boundary_remaining_commit_minus_1")
		case ob.OuterRemainAtEntry == cr.commit+1:
			m.c.Inc("boundary_remaining_commit_plus_1")
		}
		if charged := ob.OuterConsumedAfter - ob.OuterConsumedAtEntry; ob.OuterConsumedAfter >= ob.OuterConsumedAtEntry && charged > bound {
			c40Cap.violate(m.c, "C40|callback-charged-above-bound|async|recv|user="+cl.user, fmt.Sprintf("%s: charged %d > min(remaining %d, cap %d)", id, charged, ob.OuterRemainAtEntry, cr.commit), wit)
		}
		retryable := ob.LimitSeen < cr.commit
		failing := ob.PastLimit || cl.beh == BehError || cl.beh == BehPanic || cl.beh == BehOogAsError
		keys, paid := 0, toProbe.delta()
		prefix := []byte("c40/" + cr.tag + "/")
		for _, kv := range res.diff {
			if kv.Store == contractStore && len(kv.Key) >= len(prefix) && string(kv.Key[:len(prefix)]) == string(prefix) && kv.New != nil {
				keys++
			}
		}
		ackWritten := b.StoreGet("ibc", ackKey) != nil
		sigT := "async|wack|" + cl.beh
		switch {
		case ob.PastLimit && retryable:
			if res.written {
				c40Cap.violate(m.c, "C40|retryable-out-of-gas-not-aborted|"+sigT, fmt.Sprintf("%s: out of gas with execution limit %d < commit %d but WriteAcknowledgement returned normally", id, ob.LimitSeen, cr.commit), wit)
			} else {
				if len(res.diff) != 0 || ackWritten {
					c40Cap.violate(m.c, "C40|failed-tx-changed-state|async|wack", id+": aborted call left state behind:"+diffStr(res.diff), wit)
				}
				m.c.Inc("async_retryable_oog_aborted")
				aborted = true
				cr.note("aborted")
				if final {
					c40Cap.violate(m.c, "C40|abort-with-generous-gas|"+sigT, id+": aborted as retryable with 10M gas", wit)
				}
			}
		case failing:
			if !res.written {
				if res.panicked != nil {
					c40Cap.violate(m.c, "C40|async-ack-callback-failure-aborted-call|"+sigT, fmt.Sprintf("%s: failing callback (limit %d, commit %d) made WriteAcknowledgement panic: %v", id, ob.LimitSeen, cr.commit, res.panicked), wit)
				} else if final {
					c40Cap.violate(m.c, "C40|async-ack-callback-failure-rejected-call|"+sigT, fmt.Sprintf("%s: WriteAcknowledgement failed after the callback failed: %v", id, res.err), wit)
				}
				cr.note("call-failed")
				continue
			}
			if !ackWritten {
				c40Cap.violate(m.c, "C40|async-ack-missing-after-callback-failure|"+sigT, id+": acknowledgement not written", wit)
			}
			if keys != 0 || paid != 0 {
				if cl.beh == BehOogAsOK {
					m.c.Inc("oog_swallowed_as_success_writes_persisted")
					c40Cap.violate(m.c, "C40|out-of-gas-callback-writes-persisted|contract-keeper-returned-nil-past-its-limit", fmt.Sprintf("%s: the callback ran out of gas (meter past its limit %d = commit limit) and the contract keeper returned nil: the callback's writes persisted (%d keys, %d coins)", id, ob.LimitSeen, keys, paid), wit)
				} else {
					c40Cap.violate(m.c, "C40|failed-callback-writes-persisted|"+sigT, fmt.Sprintf("%s: failing callback's writes persisted (%d keys, %d coins)", id, keys, paid), wit)
				}
			} else {
				m.c.Inc("async_failure_isolated")
				cr.note("failure-isolated")
			}
		default:
			if !res.written {
				if res.panicked != nil && !final {
					cr.note("call-failed")
					continue
				}
				if final {
					m.c.Inconcl(id + ": successful callback but WriteAcknowledgement failed with 10M gas: " + fmt.Sprint(res.err, res.panicked))
				}
				cr.note("call-failed")
				continue
			}
			wantPaid := int64(0)
			if cr.keys%2 == 1 {
				wantPaid = contractCoins
			}
			if !ackWritten || keys != cr.keys || paid != wantPaid {
				c40Cap.violate(m.c, "C40|successful-callback-writes-missing|"+sigT, fmt.Sprintf("%s: ack written %v, keys %d/%d, paid %d/%d", id, ackWritten, keys, cr.keys, paid, wantPaid), wit)
			} else {
				m.c.Inc("ok_callback_persisted")
			}
			cr.note("persisted")
		}
		if res.written {
			if aborted {
				m.c.Inc("retry_after_abort_succeeded")
			}
			break
		}
	}
	m.finish(cr)
}
