package gmpcb

import (
	"bytes"
	"context"
	"encoding/hex"
	"fmt"
	"sort"
	"strings"
	"testing"
	"time"

	"github.com/cosmos/gogoproto/proto"

	sdkmath "cosmossdk.io/math"

	sdk "github.com/cosmos/cosmos-sdk/types"
	banktypes "github.com/cosmos/cosmos-sdk/x/bank/types"

	gmptypes "github.com/cosmos/ibc-go/v11/modules/apps/27-gmp/types"
	channeltypesv2 "github.com/cosmos/ibc-go/v11/modules/core/04-channel/v2/types"
	hostv2 "github.com/cosmos/ibc-go/v11/modules/core/24-host/v2"
	ibctesting "github.com/cosmos/ibc-go/v11/testing"

	"verif/harness/kit"
)

const c39Rule = "pure part: families of (client, sender, salt) triples built so that weaker encodings of the triple coincide (all cuts of one string, digits moving between client id and sender, salts containing the other fields, empty salts, embedded big-endian / 1-byte / little-endian / decimal length words, lengths differing by 256·k, one-byte neighbours, random); every member is derived through BuildAddressPredictable, compared with a length-prefixed reference derivation and entered into one global address table (collision = two distinct triples, one address); " +
	"stateful part: PRNG-determined histories of GMP packets A→B over two IBC v2 client pairs (MsgSendCall or MsgSendPacket, protobuf/JSON/ABI encodings, senders × salts × destination clients incl. repeats) whose payload is a message list of one of 14 shapes (authorised sends, overdraw at first/last position, foreign signer first/last/only, signer = GMP account of a sibling triple, two signers with the account first/second, zero signers, single-input multisend, empty list), plus sends whose packet sender is not the tx signer; " +
	"distinct = (family, shape) for the pure part and (send kind, encoding, payload shape, repeat-of-triple, outcome) for packets"

// handlerTap observes every message-handler invocation of a chain through the MsgServiceRouter's circuit-breaker extension point.
type handlerTap struct{ log []string }

func (h *handlerTap) IsAllowed(ctx context.Context, typeURL string) (bool, error) {
	if sdk.UnwrapSDKContext(ctx).ExecMode() == sdk.ExecModeFinalize {
		h.log = append(h.log, typeURL)
	}
	return true, nil
}

type addrTable struct {
	byAddr map[string]Triple // address -> first triple seen with it
	perSig map[string]int
}

// violate records at most max violations per signature (a systematic defect would otherwise fill the evidence with one class).
func (a *addrTable) violate(c *kit.Check, max int, sig, what string, wit any) {
	if a.perSig == nil {
		a.perSig = map[string]int{}
	}
	a.perSig[sig]++
	if a.perSig[sig] > max {
		c.Inc("violations_of_a_recorded_class_not_repeated")
		return
	}
	c.Violate(sig, what, wit)
}

// enter records addr for t; returns the other triple if addr is already taken by a different triple.
func (a *addrTable) enter(addr []byte, t Triple) (Triple, bool) {
	k := string(addr)
	if o, ok := a.byAddr[k]; ok {
		if o.Key() != t.Key() {
			return o, true
		}
		return Triple{}, false
	}
	a.byAddr[k] = t
	return Triple{}, false
}

func TestC39(t *testing.T) {
	c := kit.NewCheck(t, "C39", "exploration", c39Rule)
	defer c.Finish()
	c.Assume("the SDK message router, bank module and signature verification are the trusted base; 'a message executes' is observed as its handler being reached (MsgServiceRouter circuit-breaker tap) or any state change outside the ibc store")
	c.Assume("the only multi-signer message type registered in testing/simapp is bank MsgMultiSend (its handler refuses several inputs), so a two-signer message that slipped through authentication shows as a reached handler, not as a balance change")
	c.Floor("pure_triples_derived", 4000)
	c.Floor("pure_confusable_pairs", 250000)
	c.Floor("recv_authorised_executed", 30)
	c.Floor("recv_unauthorised_rejected", 28)
	c.Floor("recv_two_signer_rejected", 10)
	c.Floor("recv_atomic_none", 12)
	c.Floor("send_sender_not_signer_rejected", 11)
	c.Floor("send_sender_is_signer_accepted", 70)
	c.Floor("mapping_entries_checked", 30)
	c.Floor("mapping_reused_unchanged", 40)

	tab := &addrTable{byAddr: map[string]Triple{}}

	// ---------------- pure part
	nPure := c.N(400, 5000)
	for i := 0; i < nPure; i++ {
		if c.SkipCase(i) {
			continue
		}
		r := c.CaseRng(i)
		f := GenFamily(r, i%NFamilies)
		c39Pure(c, tab, f, r)
		if i < 2*NFamilies && i%NFamilies < 3 {
			var ex []string
			for j, tr := range f.Triples {
				if j < 4 {
					ex = append(ex, tr.short())
				}
			}
			c.Sample(map[string]any{"family": f.Name, "members": len(f.Triples), "examples": ex})
		}
	}

	// ---------------- stateful part
	nSt := c.N(10, 70)
	for i := 0; i < nSt; i++ {
		id := 100000 + i
		if c.SkipCase(id) {
			continue
		}
		r := c.CaseRng(id)
		err := kit.Try(func() {
			s := newGmpSim(c, t, r, tab)
			n := 22 + r.Intn(8)
			for j := 0; j < n; j++ {
				s.step()
			}
			s.endChecks()
			if i < 1 {
				c.Sample(map[string]any{"case": c.CaseID(id), "packets": s.trace})
			}
		})
		if err != nil {
			c.Inconcl(err.Error())
		}
	}
}

func c39Pure(c *kit.Check, tab *addrTable, f Family, r *kit.Rng) {
	type der struct {
		t    Triple
		addr []byte
	}
	var ds []der
	for _, tr := range f.Triples {
		id := gmptypes.NewAccountIdentifier(tr.Client, tr.Sender, tr.Salt)
		addr, err := gmptypes.BuildAddressPredictable(&id)
		if err != nil {
			c.Inc("pure_triples_outside_domain")
			continue
		}
		c.Inc("pure_triples_derived")
		ds = append(ds, der{tr, append([]byte(nil), addr...)})
		if len(addr) != 32 {
			c.Violate("C39|address-length", fmt.Sprintf("derived address has %d bytes for %s", len(addr), tr.short()), nil)
		}
		if !bytes.Equal(addr, ModelAddr(tr)) {
			tab.violate(c, 2, "C39|address-differs-from-length-prefixed-model|"+f.Name, fmt.Sprintf("BuildAddressPredictable%s = %x, reference derivation over the length-prefixed triple = %x", tr.short(), addr, ModelAddr(tr)), map[string]any{"client": tr.Client, "sender_hex": hex.EncodeToString([]byte(tr.Sender)), "salt_hex": hex.EncodeToString(tr.Salt)})
		}
		if o, clash := tab.enter(addr, tr); clash {
			tab.violate(c, 3, "C39|address-collision|"+f.Name, fmt.Sprintf("distinct triples %s and %s derive the same address %x", o.short(), tr.short(), addr),
				map[string]any{"a": map[string]string{"client": o.Client, "sender_hex": hex.EncodeToString([]byte(o.Sender)), "salt_hex": hex.EncodeToString(o.Salt)},
					"b": map[string]string{"client": tr.Client, "sender_hex": hex.EncodeToString([]byte(tr.Sender)), "salt_hex": hex.EncodeToString(tr.Salt)}})
		}
	}
	// same triple, same address: re-derive in another order from fresh copies of the inputs
	kit.Shuffle(r, ds)
	for _, d := range ds {
		id := gmptypes.NewAccountIdentifier(strings.Clone(d.t.Client), strings.Clone(d.t.Sender), bytes.Clone(d.t.Salt))
		addr, err := gmptypes.BuildAddressPredictable(&id)
		if err != nil || !bytes.Equal(addr, d.addr) {
			c.Violate("C39|derivation-not-deterministic", fmt.Sprintf("second derivation of %s gave %x (err %v), first gave %x", d.t.short(), addr, err, d.addr), nil)
		}
		c.Inc("pure_rederived_equal")
	}
	n := len(ds)
	c.Obs("pure_confusable_pairs", int64(n*(n-1)/2))
	if n >= 2 {
		c.Eval("pure|" + f.Name + "|" + f.Shape + fmt.Sprintf("|m=%d", n/4))
	} else {
		c.Eval("")
	}
}

// ---------------------------------------------------------------------------------------------
// stateful part

type gmpSim struct {
	c     *kit.Check
	r     *kit.Rng
	w     *kit.World
	a, b  *kit.Chain
	paths []*ibctesting.Path
	tap   *handlerTap
	tab   *addrTable
	// stored[tripleKey] = bech32 address first seen stored on B for this triple
	stored map[string]string
	used   map[string]int
	salts  [][]byte
	pool   []poolEntry
	trace  []string
}

type poolEntry struct {
	path, sender int
	salt         []byte
}

const c39Denom = "stake"

func newGmpSim(c *kit.Check, t *testing.T, r *kit.Rng, tab *addrTable) *gmpSim {
	s := &gmpSim{c: c, r: r, tab: tab, stored: map[string]string{}, used: map[string]int{}}
	s.w = kit.NewWorld(t, 2)
	s.a, s.b = s.w.Chains[0], s.w.Chains[1]
	for i := 0; i < 2; i++ {
		p := ibctesting.NewPath(s.a.TestChain, s.b.TestChain)
		p.SetupV2()
		s.paths = append(s.paths, p)
	}
	s.tap = &handlerTap{}
	s.b.Sim.MsgServiceRouter().SetCircuit(s.tap)
	// salts: empty, short, maximal, and salts equal to other fields of the triple
	s.salts = [][]byte{nil, []byte("s"), []byte("salt"), r.Bytes(32), []byte(s.paths[1].EndpointB.ClientID), []byte(s.a.Addr(1).String()[:32]), {0}, {0, 0, 0, 0, 0, 0, 0, 1}}
	return s
}

func (s *gmpSim) model(dst string, sender string, salt []byte) (Triple, sdk.AccAddress) {
	tr := Triple{dst, sender, salt}
	return tr, sdk.AccAddress(ModelAddr(tr))
}

func coins(n int64) sdk.Coins { return sdk.NewCoins(sdk.NewCoin(c39Denom, sdkmath.NewInt(n))) }

type plMsg struct {
	msg     proto.Message
	signers []sdk.AccAddress
	// transfers the message performs when executed: from -> amount, to -> amount
	from sdk.AccAddress
	amt  int64
	to   []sdk.AccAddress
	toA  []int64
}

func send(from, to sdk.AccAddress, n int64) plMsg {
	return plMsg{msg: banktypes.NewMsgSend(from, to, coins(n)), signers: []sdk.AccAddress{from}, from: from, amt: n, to: []sdk.AccAddress{to}, toA: []int64{n}}
}

func multi(ins []sdk.AccAddress, inA []int64, outs []sdk.AccAddress, outA []int64) plMsg {
	m := &banktypes.MsgMultiSend{}
	for i := range ins {
		m.Inputs = append(m.Inputs, banktypes.NewInput(ins[i], coins(inA[i])))
	}
	for i := range outs {
		m.Outputs = append(m.Outputs, banktypes.NewOutput(outs[i], coins(outA[i])))
	}
	p := plMsg{msg: m, signers: ins, to: outs, toA: outA}
	if len(ins) == 1 {
		p.from, p.amt = ins[0], inA[0]
	}
	return p
}

var c39Shapes = []string{"ok1", "ok3", "ok-multisend-1in", "overdraw-last", "overdraw-first", "foreign-only", "foreign-last", "foreign-first", "sibling-last", "sibling-only",
	"two-signers-acct-first", "two-signers-acct-second", "zero-signers", "empty"}

func (s *gmpSim) step() {
	r, a, b := s.r, s.a, s.b
	// most packets come from a small pool of (path, sender, salt) so that triples are used repeatedly
	if len(s.pool) < 5 || r.Chance(1, 8) {
		s.pool = append(s.pool, poolEntry{r.Intn(len(s.paths)), r.Intn(4), kit.Pick(r, s.salts)})
	}
	pe := kit.Pick(r, s.pool)
	pi, si, salt := pe.path, pe.sender, pe.salt
	p := s.paths[pi]
	srcClient, dstClient := p.EndpointA.ClientID, p.EndpointB.ClientID
	signer := a.Acct(si)
	signerAddr := signer.SenderAccount.GetAddress().String()
	enc := kit.Pick(r, []string{gmptypes.EncodingProtobuf, gmptypes.EncodingJSON, gmptypes.EncodingABI})
	viaCall := r.Bool()
	shape := kit.Pick(r, c39Shapes)
	if r.Chance(1, 3) {
		shape = kit.Pick(r, c39Shapes[:3])
	}

	// ---- hostile send: packet sender differs from the tx signer
	if r.Chance(1, 6) {
		s.hostileSend(p, signer, salt, enc)
		return
	}

	tr, acct := s.model(dstClient, signerAddr, salt)
	repeat := s.used[tr.Key()] > 0
	// fund the account (sometimes only after its first use, sometimes before it exists)
	if b.Bal(acct, c39Denom).LT(sdkmath.NewInt(1000)) && (repeat || r.Chance(3, 4)) {
		b.Fund(acct, c39Denom, 5000)
	}
	bal := b.Bal(acct, c39Denom).Int64()
	foreign := b.Addr(5)
	// sibling: the GMP account of a neighbouring triple (other salt / other client / other sender), funded
	var sibT Triple
	switch r.Intn(3) {
	case 0:
		sibT = Triple{dstClient, signerAddr, append(bytes.Clone(salt), 'x')}
	case 1:
		sibT = Triple{s.paths[1-pi].EndpointB.ClientID, signerAddr, salt}
	default:
		sibT = Triple{dstClient, a.Addr(si + 1).String(), salt}
	}
	sib := sdk.AccAddress(ModelAddr(sibT))
	r1, r2 := b.Addr(1), b.Addr(2)
	x, y := int64(1+r.Intn(40)), int64(1+r.Intn(40))
	var msgs []plMsg
	switch shape {
	case "ok1":
		msgs = []plMsg{send(acct, r1, x)}
	case "ok3":
		msgs = []plMsg{send(acct, r1, x), send(acct, r2, y), send(acct, r1, 1)}
	case "ok-multisend-1in":
		msgs = []plMsg{multi([]sdk.AccAddress{acct}, []int64{x + y}, []sdk.AccAddress{r1, r2}, []int64{x, y})}
	case "overdraw-last":
		msgs = []plMsg{send(acct, r1, x), send(acct, r2, y), send(acct, r1, bal+1)}
	case "overdraw-first":
		msgs = []plMsg{send(acct, r1, bal+1), send(acct, r2, y)}
	case "foreign-only":
		msgs = []plMsg{send(foreign, r1, x)}
	case "foreign-last":
		msgs = []plMsg{send(acct, r1, x), send(foreign, r2, y)}
	case "foreign-first":
		msgs = []plMsg{send(foreign, r2, y), send(acct, r1, x)}
	case "sibling-last", "sibling-only":
		if b.Bal(sib, c39Denom).LT(sdkmath.NewInt(100)) {
			b.Fund(sib, c39Denom, 3000)
		}
		if shape == "sibling-only" {
			msgs = []plMsg{send(sib, r1, x)}
		} else {
			msgs = []plMsg{send(acct, r1, x), send(sib, r2, y)}
		}
	case "two-signers-acct-first":
		msgs = []plMsg{send(acct, r1, x), multi([]sdk.AccAddress{acct, foreign}, []int64{x, y}, []sdk.AccAddress{r2}, []int64{x + y})}
	case "two-signers-acct-second":
		msgs = []plMsg{multi([]sdk.AccAddress{foreign, acct}, []int64{x, y}, []sdk.AccAddress{r2}, []int64{x + y})}
	case "zero-signers":
		msgs = []plMsg{send(acct, r1, x), multi(nil, nil, []sdk.AccAddress{r2}, []int64{y})}
	case "empty":
	}
	if len(msgs) > 1 && r.Chance(1, 5) && !strings.HasPrefix(shape, "overdraw") && shape != "ok3" {
		// same set, other order (position of the offending message must not matter)
		msgs[0], msgs[len(msgs)-1] = msgs[len(msgs)-1], msgs[0]
		shape += "-swapped"
	}
	var pm []proto.Message
	for _, m := range msgs {
		pm = append(pm, m.msg)
	}
	payload, err := gmptypes.SerializeCosmosTx(b.Sim.AppCodec(), pm)
	if err != nil {
		panic(kit.Abort{Msg: "serialize: " + err.Error()})
	}
	// ground truth of authorisation, from what the harness put into the payload
	authorised := true
	twoSigner := false
	for _, m := range msgs {
		if len(m.signers) != 1 || !m.signers[0].Equals(acct) {
			authorised = false
		}
		if len(m.signers) != 1 {
			twoSigner = true
		}
	}
	// model of full execution: sequential balance check of the account
	wouldSucceed := authorised && len(msgs) > 0
	run := bal
	expRecv := map[string]int64{}
	for _, m := range msgs {
		if !authorised {
			break
		}
		if m.amt > run {
			wouldSucceed = false
			break
		}
		run -= m.amt
		for i, to := range m.to {
			expRecv[string(to)] += m.toA[i]
		}
	}

	timeout := uint64(s.w.Coord.CurrentTime.Add(time.Hour).Unix())
	receiver := ""
	if r.Bool() {
		receiver = r1.String()
	}
	var so *kit.Outcome
	kind := "call"
	if viaCall {
		so = a.Deliver(signer, gmptypes.NewMsgSendCall(srcClient, signerAddr, receiver, payload, salt, timeout, enc, ""))
	} else {
		kind = "sendpacket"
		pd := gmptypes.NewGMPPacketData(signerAddr, receiver, salt, payload, "")
		bz, err := gmptypes.MarshalPacketData(&pd, gmptypes.Version, enc)
		if err != nil {
			panic(kit.Abort{Msg: "marshal: " + err.Error()})
		}
		so = a.Deliver(signer, channeltypesv2.NewMsgSendPacket(srcClient, timeout, signerAddr, channeltypesv2.NewPayload(gmptypes.PortID, gmptypes.PortID, gmptypes.Version, enc, bz)))
	}
	if !so.OK() {
		// a legitimate extra rejection is not a verdict on the property
		s.c.Inc("send_honest_rejected")
		s.c.Eval("")
		s.trace = append(s.trace, fmt.Sprintf("%s %s %s: send rejected: %s", kind, enc, shape, clip(so.Log)))
		return
	}
	s.c.Inc("send_sender_is_signer_accepted")
	pk, err := ibctesting.ParseV2PacketFromEvents(so.Res.Events)
	if err != nil {
		panic(kit.Abort{Msg: "no packet in send events: " + err.Error()})
	}

	// ---- receive on B
	watch := []sdk.AccAddress{acct, foreign, sib, r1, r2}
	pre := map[string]sdkmath.Int{}
	for _, w := range watch {
		pre[string(w)] = b.Bal(w, c39Denom)
	}
	if err := p.EndpointB.UpdateClient(); err != nil {
		panic(kit.Abort{Msg: err.Error()})
	}
	proof, ph := a.QueryProof(hostv2.PacketCommitmentKey(pk.SourceClient, pk.Sequence))
	rel := b.Acct(9)
	mark := len(s.tap.log)
	ro := b.Deliver(rel, channeltypesv2.NewMsgRecvPacket(pk, proof, ph, rel.SenderAccount.GetAddress().String()))
	var reached []string
	for _, u := range s.tap.log[mark:] {
		if strings.HasPrefix(u, "/cosmos.bank.") {
			reached = append(reached, u)
		}
	}
	s.used[tr.Key()]++
	class := fmt.Sprintf("pkt|%s|%s|%s|rep=%v|auth=%v", kind, enc, shape, repeat, authorised)
	if !ro.OK() {
		// the packet was not received at all: nothing executed; not what the statement forbids, but worth a note
		if len(ro.Diff) != 0 {
			s.c.Violate("C39|failed-recv-tx-changed-state", fmt.Sprintf("%s: failed MsgRecvPacket left a state change:%s", shape, ro.DiffString()), nil)
		}
		s.c.Inconcl(fmt.Sprintf("%s: MsgRecvPacket failed: %s", shape, clip(ro.Log)))
		s.c.Eval(class + "|recv-tx-failed")
		return
	}
	ackBz, err := ibctesting.ParseAckV2FromEvents(ro.Res.Events)
	if err != nil {
		panic(kit.Abort{Msg: "no ack in recv events: " + err.Error()})
	}
	var ack channeltypesv2.Acknowledgement
	if err := proto.Unmarshal(ackBz, &ack); err != nil || len(ack.AppAcknowledgements) != 1 {
		panic(kit.Abort{Msg: "undecodable ack"})
	}
	success := !bytes.Equal(ack.AppAcknowledgements[0], channeltypesv2.ErrorAcknowledgement[:])
	var nonCore []kit.KV
	for _, kv := range ro.Diff {
		if kv.Store != "ibc" {
			nonCore = append(nonCore, kv)
		}
	}
	delta := map[string]int64{}
	for _, w := range watch {
		delta[string(w)] = b.Bal(w, c39Denom).Sub(pre[string(w)]).Int64()
	}
	witness := map[string]any{"shape": shape, "kind": kind, "encoding": enc, "dest_client": dstClient, "sender": signerAddr, "salt_hex": hex.EncodeToString(salt), "account": acct.String(), "handlers_reached": reached, "ack_success": success}

	if !authorised {
		// ⇒ nothing of the payload may execute
		ok := true
		if success {
			ok = false
			s.c.Violate("C39|unauthorised-payload-success-ack|"+shapeClass(shape), fmt.Sprintf("%s: payload with a message not signed by exactly the account %s was acknowledged as success", shape, acct), witness)
		}
		if len(nonCore) != 0 {
			ok = false
			s.c.Violate("C39|unauthorised-payload-changed-state|"+shapeClass(shape), fmt.Sprintf("%s: unauthorised payload changed state:%s", shape, diffStr(nonCore)), witness)
		}
		if len(reached) != 0 {
			ok = false
			s.c.Violate("C39|unauthorised-payload-reached-handler|"+shapeClass(shape), fmt.Sprintf("%s: message handlers %v ran for a payload that contains a message without exactly one signer = the account", shape, reached), witness)
		}
		if ok {
			s.c.Inc("recv_unauthorised_rejected")
			if twoSigner {
				s.c.Inc("recv_two_signer_rejected")
			}
		}
	} else if success {
		// all messages, exactly
		s.c.Inc("recv_authorised_executed")
		if !wouldSucceed {
			s.c.Violate("C39|success-ack-but-model-fails|"+shapeClass(shape), fmt.Sprintf("%s: success acknowledgement although the message list cannot execute completely (balance %d)", shape, bal), witness)
		}
		var spent int64
		for _, m := range msgs {
			spent += m.amt
		}
		exp := map[string]int64{string(acct): -spent}
		for k, v := range expRecv {
			exp[k] += v
		}
		for _, w := range watch {
			if delta[string(w)] != exp[string(w)] {
				s.c.Violate("C39|not-atomic-or-wrong-effects|"+shapeClass(shape), fmt.Sprintf("%s: success acknowledgement but balance of %s changed by %d, all-messages model says %d", shape, w, delta[string(w)], exp[string(w)]), witness)
			}
		}
		if len(reached) != len(msgs) {
			s.c.Violate("C39|handler-count|"+shapeClass(shape), fmt.Sprintf("%s: %d handlers reached for %d messages", shape, len(reached), len(msgs)), witness)
		}
	} else {
		// authorised but failed (overdraw, empty list, …): none of it
		if len(nonCore) != 0 {
			s.c.Violate("C39|not-atomic|"+shapeClass(shape), fmt.Sprintf("%s: error acknowledgement but state changed:%s", shape, diffStr(nonCore)), witness)
		} else {
			s.c.Inc("recv_atomic_none")
		}
		for _, w := range watch {
			if delta[string(w)] != 0 {
				s.c.Violate("C39|not-atomic|"+shapeClass(shape), fmt.Sprintf("%s: error acknowledgement but balance of %s changed by %d", shape, w, delta[string(w)]), witness)
			}
		}
		if wouldSucceed {
			s.c.Inc("recv_authorised_but_rejected")
		}
	}
	s.checkMapping(ro, tr)
	s.c.Eval(class + fmt.Sprintf("|ok=%v", success))
	s.trace = append(s.trace, fmt.Sprintf("%s %s salt=%x dst=%s sender=A%d %s: authorised=%v ack_success=%v handlers=%d nonCoreDiff=%d", kind, enc, salt, dstClient, si, shape, authorised, success, len(reached), len(nonCore)))
	if r.Chance(1, 3) {
		s.queryStability()
	}
}

func shapeClass(shape string) string { return strings.TrimSuffix(shape, "-swapped") }

// hostileSend: the GMP packet data names a sender other than the account that signs the transaction.
func (s *gmpSim) hostileSend(p *ibctesting.Path, signer ibctesting.SenderAccount, salt []byte, enc string) {
	r, a, b := s.r, s.a, s.b
	victim := a.Addr(6 + r.Intn(2)).String()
	signerAddr := signer.SenderAccount.GetAddress().String()
	_, vacct := s.model(p.EndpointB.ClientID, victim, salt)
	payload, _ := gmptypes.SerializeCosmosTx(b.Sim.AppCodec(), []proto.Message{banktypes.NewMsgSend(vacct, b.Addr(3), coins(7))})
	timeout := uint64(s.w.Coord.CurrentTime.Add(time.Hour).Unix())
	var so *kit.Outcome
	var kind string
	switch r.Intn(3) {
	case 0:
		// MsgSendPacket signed (and "signer" field) by the attacker, GMP sender = victim
		kind = "MsgSendPacket"
		pd := gmptypes.NewGMPPacketData(victim, "", salt, payload, "")
		bz, err := gmptypes.MarshalPacketData(&pd, gmptypes.Version, enc)
		if err != nil {
			panic(kit.Abort{Msg: err.Error()})
		}
		so = a.Deliver(signer, channeltypesv2.NewMsgSendPacket(p.EndpointA.ClientID, timeout, signerAddr, channeltypesv2.NewPayload(gmptypes.PortID, gmptypes.PortID, gmptypes.Version, enc, bz)))
	case 1:
		// MsgSendCall naming the victim as sender, signed by the attacker only
		kind = "MsgSendCall"
		so = a.Deliver(signer, gmptypes.NewMsgSendCall(p.EndpointA.ClientID, victim, "", payload, salt, timeout, enc, ""))
	default:
		// two payloads in one packet: an honest one and one naming the victim
		kind = "MsgSendPacket-2-payloads"
		pd1 := gmptypes.NewGMPPacketData(signerAddr, "", salt, payload, "")
		pd2 := gmptypes.NewGMPPacketData(victim, "", salt, payload, "")
		bz1, _ := gmptypes.MarshalPacketData(&pd1, gmptypes.Version, enc)
		bz2, _ := gmptypes.MarshalPacketData(&pd2, gmptypes.Version, enc)
		so = a.Deliver(signer, channeltypesv2.NewMsgSendPacket(p.EndpointA.ClientID, timeout, signerAddr,
			channeltypesv2.NewPayload(gmptypes.PortID, gmptypes.PortID, gmptypes.Version, enc, bz1),
			channeltypesv2.NewPayload(gmptypes.PortID, gmptypes.PortID, gmptypes.Version, enc, bz2)))
	}
	if so.OK() {
		s.c.Violate("C39|send-accepted-with-sender-not-signer|"+kind, fmt.Sprintf("%s naming GMP sender %s was accepted in a transaction signed only by %s", kind, victim, signerAddr),
			map[string]any{"kind": kind, "encoding": enc, "victim": victim, "signer": signerAddr, "diff": so.DiffString()})
	} else {
		s.c.Inc("send_sender_not_signer_rejected")
		if len(so.Diff) != 0 {
			s.c.Violate("C39|rejected-send-changed-state|"+kind, fmt.Sprintf("rejected %s left a state change:%s", kind, so.DiffString()), nil)
		}
	}
	s.c.Eval(fmt.Sprintf("hostile-send|%s|%s|accepted=%v", kind, enc, so.OK()))
	s.trace = append(s.trace, fmt.Sprintf("hostile %s %s: accepted=%v", kind, enc, so.OK()))
}

// checkMapping inspects what the receive wrote into the gmp store: every stored account must be the reference address of the
// triple stored with it, an existing entry must never change, and no address may serve two triples.
func (s *gmpSim) checkMapping(ro *kit.Outcome, cur Triple) {
	for _, kv := range ro.DiffIn("gmp") {
		if kv.New == nil {
			s.c.Violate("C39|mapping-entry-deleted", fmt.Sprintf("gmp store key %x deleted", kv.Key), nil)
			continue
		}
		var acc gmptypes.ICS27Account
		if err := proto.Unmarshal(kv.New, &acc); err != nil || acc.AccountId == nil {
			s.c.Inconcl("undecodable gmp store value")
			continue
		}
		tr := Triple{acc.AccountId.ClientId, acc.AccountId.Sender, acc.AccountId.Salt}
		s.c.Inc("mapping_entries_checked")
		if kv.Old != nil && !bytes.Equal(kv.Old, kv.New) {
			s.c.Violate("C39|mapping-changed-after-use", fmt.Sprintf("stored account of %s changed", tr.short()), map[string]any{"old": hex.EncodeToString(kv.Old), "new": hex.EncodeToString(kv.New)})
		}
		want := sdk.AccAddress(ModelAddr(tr)).String()
		if acc.Address != want {
			s.c.Violate("C39|stored-address-differs-from-model", fmt.Sprintf("stored account of %s is %s, reference derivation %s", tr.short(), acc.Address, want), nil)
		}
		if prev, ok := s.stored[tr.Key()]; ok && prev != acc.Address {
			s.c.Violate("C39|mapping-changed-after-use", fmt.Sprintf("triple %s first mapped to %s, now to %s", tr.short(), prev, acc.Address), nil)
		}
		s.stored[tr.Key()] = acc.Address
		if addr, err := sdk.AccAddressFromBech32(acc.Address); err == nil {
			if o, clash := s.tab.enter(addr, tr); clash {
				s.c.Violate("C39|address-collision|on-chain", fmt.Sprintf("on-chain accounts of %s and %s share address %s", o.short(), tr.short(), acc.Address), nil)
			}
		}
	}
	if prev, ok := s.stored[cur.Key()]; ok && s.used[cur.Key()] > 1 {
		// repeated use: the committed entry still reads the same
		ctx := s.b.GetContext()
		got, err := s.b.Sim.GMPKeeper.GetOrComputeICS27Address(ctx, &gmptypes.AccountIdentifier{ClientId: cur.Client, Sender: cur.Sender, Salt: cur.Salt})
		if err != nil || got != prev {
			s.c.Violate("C39|mapping-changed-after-use", fmt.Sprintf("triple %s mapped to %s, after reuse the keeper answers %s (%v)", cur.short(), prev, got, err), nil)
		} else {
			s.c.Inc("mapping_reused_unchanged")
		}
	}
}

// queryStability asks the keeper for used and unused triples and compares with the reference derivation.
func (s *gmpSim) queryStability() {
	ctx := s.b.GetContext()
	keys := make([]string, 0, len(s.stored))
	for k := range s.stored {
		keys = append(keys, k)
	}
	sort.Strings(keys)
	for i := 0; i < 3; i++ {
		tr := Triple{kit.Pick(s.r, s.paths).EndpointB.ClientID, s.a.Addr(s.r.Intn(8)).String(), kit.Pick(s.r, s.salts)}
		got, err := s.b.Sim.GMPKeeper.GetOrComputeICS27Address(ctx, &gmptypes.AccountIdentifier{ClientId: tr.Client, Sender: tr.Sender, Salt: tr.Salt})
		want := sdk.AccAddress(ModelAddr(tr)).String()
		if err != nil || got != want {
			s.c.Violate("C39|keeper-address-differs-from-model", fmt.Sprintf("keeper address of %s is %s (%v), reference %s", tr.short(), got, err, want), nil)
		}
		if prev, ok := s.stored[tr.Key()]; ok && prev != got {
			s.c.Violate("C39|mapping-changed-after-use", fmt.Sprintf("triple %s stored as %s, keeper now answers %s", tr.short(), prev, got), nil)
		}
		s.c.Inc("keeper_queries")
	}
}

func (s *gmpSim) endChecks() {
	// the whole committed table once more: every entry is still the one first seen
	for _, v := range s.b.StoreMap("gmp") {
		var acc gmptypes.ICS27Account
		if err := proto.Unmarshal(v, &acc); err != nil || acc.AccountId == nil {
			continue
		}
		tr := Triple{acc.AccountId.ClientId, acc.AccountId.Sender, acc.AccountId.Salt}
		if prev, ok := s.stored[tr.Key()]; !ok || prev != acc.Address {
			s.c.Violate("C39|mapping-changed-after-use", fmt.Sprintf("final table: %s maps to %s, first seen %q", tr.short(), acc.Address, prev), nil)
		}
		s.c.Inc("final_table_entries")
	}
}

func clip(s string) string {
	if len(s) > 160 {
		return s[:160] + "…"
	}
	return s
}

func diffStr(d []kit.KV) string {
	s := ""
	for i, kv := range d {
		if i > 6 {
			s += " …"
			break
		}
		s += " " + kv.String()
	}
	return s
}
