package gmpcb

import (
	"bytes"
	"encoding/json"
	"errors"
	"fmt"
	"sort"
	"strconv"
	"strings"
	"testing"

	dbm "github.com/cosmos/cosmos-db"

	"cosmossdk.io/log/v2"
	sdkmath "cosmossdk.io/math"

	"github.com/cosmos/cosmos-sdk/client"
	simtestutil "github.com/cosmos/cosmos-sdk/testutil/sims"
	sdk "github.com/cosmos/cosmos-sdk/types"
	minttypes "github.com/cosmos/cosmos-sdk/x/mint/types"

	abci "github.com/cometbft/cometbft/abci/types"

	gmp "github.com/cosmos/ibc-go/v11/modules/apps/27-gmp"
	gmptypes "github.com/cosmos/ibc-go/v11/modules/apps/27-gmp/types"
	ibccallbacks "github.com/cosmos/ibc-go/v11/modules/apps/callbacks"
	cbsimapp "github.com/cosmos/ibc-go/v11/modules/apps/callbacks/testing/simapp"
	ibccallbacksv2 "github.com/cosmos/ibc-go/v11/modules/apps/callbacks/v2"
	"github.com/cosmos/ibc-go/v11/modules/apps/transfer"
	transfertypes "github.com/cosmos/ibc-go/v11/modules/apps/transfer/types"
	transferv2 "github.com/cosmos/ibc-go/v11/modules/apps/transfer/v2"
	clienttypes "github.com/cosmos/ibc-go/v11/modules/core/02-client/types"
	channeltypes "github.com/cosmos/ibc-go/v11/modules/core/04-channel/types"
	channeltypesv2 "github.com/cosmos/ibc-go/v11/modules/core/04-channel/v2/types"
	porttypes "github.com/cosmos/ibc-go/v11/modules/core/05-port/types"
	"github.com/cosmos/ibc-go/v11/modules/core/api"
	"github.com/cosmos/ibc-go/v11/modules/core/exported"
	ibctesting "github.com/cosmos/ibc-go/v11/testing"

	"verif/harness/kit"
)

// DefaultMaxCallbackGas is the value hard-wired in the callbacks simapp.
const DefaultMaxCallbackGas = uint64(1_000_000)

// CBWorld is a pair of chains running the callbacks simapp (modules/apps/callbacks/testing/simapp), with
// observation taps around the callbacks middleware and a steerable contract keeper.
type CBWorld struct {
	T      *testing.T
	Coord  *ibctesting.Coordinator
	Chains []*CBChain
	MaxGas uint64
}

type CBChain struct {
	*ibctesting.TestChain
	W     *CBWorld
	App   *cbsimapp.SimApp
	Name  string
	Watch []string
	noise map[string]struct{}

	gas uint64 // gas limit of the next signed transaction (0 = library default)

	frames []*frame
	// Obs: every contract-keeper invocation observed on this chain
	Obs []*CBObs
	// Frames that completed, in order (finalize mode only)
	Done []*frame
	// Script maps a callback address that cannot carry a script (GMP uses the packet sender) to a script
	Script map[string]string
	// AsyncMW is the v2 callbacks middleware around the asynchronously acknowledging stub application (port AsyncPort)
	AsyncMW *ibccallbacksv2.IBCMiddleware
}

var cbWatch = []string{"ibc", "transfer", "gmp", "bank", "icacontroller", "icahost", "upgrade"}

// contractStore is a watched store nobody else writes in this world: it holds the contract's own state.
const contractStore = "icahost"

// frame is one entry into an application stack (from core, or from the application through the ICS4 wrapper).
type frame struct {
	Kind          string // send | recv | ack | timeout
	V             int
	ctx           sdk.Context
	RemainAtEntry uint64
	ConsumedAfter uint64
	Panicked      any
	Obs           []*CBObs
	Finalize      bool
}

// CBObs is what the contract keeper saw when it was called, and what the tap measured around it.
type CBObs struct {
	Type string // send_packet | acknowledgement_packet | timeout_packet | receive_packet
	Beh  string
	Tag  string
	Keys int
	// LimitSeen: limit of the gas meter handed to the contract
	LimitSeen uint64
	// InnerAtEntry/InnerAtExit: consumption on the contract's meter
	InnerAtEntry, InnerAtExit uint64
	PastLimit                 bool
	// OuterRemainAtEntry / OuterConsumedAtEntry: the transaction's gas meter at the moment the contract started
	OuterRemainAtEntry   uint64
	OuterConsumedAtEntry uint64
	// StackRemainAtEntry: the transaction's remaining gas when the application stack was entered
	StackRemainAtEntry uint64
	// OuterConsumedAfter: the transaction's gas meter when the application stack returned (or unwound)
	OuterConsumedAfter uint64
	HaveOuter          bool
	Finalize           bool
	Scripted           bool // the behaviour script addressed this callback type
	Finished           bool // the behaviour ran to its end (no out-of-gas interruption before the scripted outcome)
}

func zeroInflation(app *cbsimapp.SimApp, gen map[string]json.RawMessage) {
	var mg minttypes.GenesisState
	app.AppCodec().MustUnmarshalJSON(gen[minttypes.ModuleName], &mg)
	mg.Minter.Inflation = sdkmath.LegacyZeroDec()
	mg.Params.InflationMin = sdkmath.LegacyZeroDec()
	mg.Params.InflationMax = sdkmath.LegacyZeroDec()
	mg.Params.InflationRateChange = sdkmath.LegacyZeroDec()
	gen[minttypes.ModuleName] = app.AppCodec().MustMarshalJSON(&mg)
}

// NewCBWorld builds two chains. maxGas == DefaultMaxCallbackGas keeps the simapp's own middleware instances (only wrapped by
// taps); any other value rebuilds the transfer (v1, v2) and GMP (v2) stacks with callbacks middleware constructed through the
// public constructors with that maximum.
func NewCBWorld(t *testing.T, maxGas uint64) *CBWorld {
	creator := func() (ibctesting.TestingApp, map[string]json.RawMessage) {
		app := cbsimapp.NewSimApp(log.NewNopLogger(), dbm.NewMemDB(), nil, true, simtestutil.EmptyAppOptions{})
		gen := app.DefaultGenesis()
		zeroInflation(app, gen)
		return app, gen
	}
	coord := ibctesting.NewCustomAppCoordinator(t, 2, creator)
	w := &CBWorld{T: t, Coord: coord, MaxGas: maxGas}
	for i := 1; i <= 2; i++ {
		tc := coord.GetChain(ibctesting.GetChainID(i))
		ch := &CBChain{TestChain: tc, W: w, Name: string(rune('A' + i - 1)), Watch: cbWatch, Script: map[string]string{}}
		ch.App = tc.App.(*cbsimapp.SimApp)
		tc.TB = kit.PanicTB{TB: t}
		tc.TxConfig = gasTxConfig{TxConfig: tc.TxConfig, gas: &ch.gas}
		ch.wire(maxGas)
		ch.installContract()
		w.Chains = append(w.Chains, ch)
	}
	for _, ch := range w.Chains {
		ch.measureNoise()
	}
	return w
}

// ---------------------------------------------------------------------------------------------
// transactions with a chosen gas limit

type gasTxConfig struct {
	client.TxConfig
	gas *uint64
}

func (g gasTxConfig) NewTxBuilder() client.TxBuilder {
	return &gasBuilder{TxBuilder: g.TxConfig.NewTxBuilder(), gas: g.gas}
}

type gasBuilder struct {
	client.TxBuilder
	gas *uint64
}

func (b *gasBuilder) SetGasLimit(l uint64) {
	if *b.gas != 0 {
		l = *b.gas
	}
	b.TxBuilder.SetGasLimit(l)
}

// the library draws a wall-clock-random memo (its length changes the ante handler's gas); keep transactions reproducible
func (b *gasBuilder) SetMemo(string) { b.TxBuilder.SetMemo("") }

type CBOutcome struct {
	Res       *abci.ExecTxResult
	Err       error
	Code      uint32
	Log       string
	GasWanted uint64
	GasUsed   uint64
	Diff      []kit.KV
	Frames    []*frame
	Obs       []*CBObs
}

func (o *CBOutcome) OK() bool { return o.Err == nil && o.Code == 0 }

// Deliver signs msgs with sender and the given gas limit (0 = default 10M), runs them in their own block and reports.
func (c *CBChain) Deliver(sender ibctesting.SenderAccount, gas uint64, msgs ...sdk.Msg) *CBOutcome {
	pre := c.Snapshot()
	mo, mf := len(c.Obs), len(c.Done)
	c.gas = gas
	res, err := c.TestChain.SendMsgsWithSender(sender, msgs...)
	c.gas = 0
	o := &CBOutcome{Res: res, Err: err}
	if res != nil {
		o.Code, o.Log, o.GasWanted, o.GasUsed = res.Code, res.Log, uint64(res.GasWanted), uint64(res.GasUsed)
	} else if err != nil {
		o.Code, o.Log = 1, err.Error()
	}
	if res != nil {
		o.Diff = c.DiffSnap(pre, c.Snapshot())
	}
	for _, ob := range c.Obs[mo:] {
		if ob.Finalize {
			o.Obs = append(o.Obs, ob)
		}
	}
	o.Frames = append(o.Frames, c.Done[mf:]...)
	if acc := c.App.AccountKeeper.GetAccount(c.GetContext(), sender.SenderAccount.GetAddress()); acc != nil {
		_ = sender.SenderAccount.SetSequence(acc.GetSequence())
	}
	return o
}

func (c *CBChain) Acct(i int) ibctesting.SenderAccount {
	return c.SenderAccounts[i%len(c.SenderAccounts)]
}
func (c *CBChain) Addr(i int) sdk.AccAddress { return c.Acct(i).SenderAccount.GetAddress() }
func (c *CBChain) Commit()                   { c.W.Coord.CommitBlock(c.TestChain) }
func (c *CBChain) Bal(addr sdk.AccAddress, denom string) sdkmath.Int {
	return c.App.BankKeeper.GetBalance(c.GetContext(), addr, denom).Amount
}

// ---------------------------------------------------------------------------------------------
// snapshots (as in kit/world.go, for the callbacks simapp)

func (c *CBChain) StoreMap(store string) map[string][]byte {
	m := map[string][]byte{}
	key := c.App.GetKey(store)
	if key == nil {
		return m
	}
	it := c.App.CommitMultiStore().GetKVStore(key).Iterator(nil, nil)
	defer it.Close()
	for ; it.Valid(); it.Next() {
		m[string(it.Key())] = bytes.Clone(it.Value())
	}
	return m
}

func (c *CBChain) StoreGet(store string, key []byte) []byte {
	return c.App.CommitMultiStore().GetKVStore(c.App.GetKey(store)).Get(key)
}

func (c *CBChain) Snapshot() kit.Snapshot {
	s := kit.Snapshot{}
	for _, st := range c.Watch {
		s[st] = c.StoreMap(st)
	}
	return s
}

func nkey(store string, key []byte) string { return store + "\x00" + string(key) }

func (c *CBChain) DiffSnap(a, b kit.Snapshot) []kit.KV {
	var out []kit.KV
	for st, bm := range b {
		am := a[st]
		for k, nv := range bm {
			ov, ok := am[k]
			if ok && bytes.Equal(ov, nv) {
				continue
			}
			if _, n := c.noise[nkey(st, []byte(k))]; n {
				continue
			}
			out = append(out, kit.KV{Store: st, Key: []byte(k), Old: ov, New: nv})
		}
		for k, ov := range am {
			if _, ok := bm[k]; !ok {
				if _, n := c.noise[nkey(st, []byte(k))]; n {
					continue
				}
				out = append(out, kit.KV{Store: st, Key: []byte(k), Old: ov, New: nil})
			}
		}
	}
	sort.Slice(out, func(i, j int) bool {
		if out[i].Store != out[j].Store {
			return out[i].Store < out[j].Store
		}
		return bytes.Compare(out[i].Key, out[j].Key) < 0
	})
	return out
}

func (c *CBChain) measureNoise() {
	c.noise = map[string]struct{}{}
	a := c.Snapshot()
	c.Commit()
	b := c.Snapshot()
	c.Commit()
	d := c.Snapshot()
	for _, kv := range append(c.DiffSnap(a, b), c.DiffSnap(b, d)...) {
		c.noise[nkey(kv.Store, kv.Key)] = struct{}{}
	}
}

// ---------------------------------------------------------------------------------------------
// taps

func (c *CBChain) enter(kind string, v int, ctx sdk.Context) *frame {
	f := &frame{Kind: kind, V: v, ctx: ctx, RemainAtEntry: ctx.GasMeter().GasRemaining(), Finalize: ctx.ExecMode() == sdk.ExecModeFinalize}
	c.frames = append(c.frames, f)
	return f
}

// leave must be deferred directly by the tap method: it notes a propagating panic and lets it continue.
func (c *CBChain) leave(f *frame) {
	r := recover()
	f.ConsumedAfter = f.ctx.GasMeter().GasConsumed()
	f.Panicked = r
	for _, ob := range f.Obs {
		ob.OuterConsumedAfter = f.ConsumedAfter
	}
	if n := len(c.frames); n > 0 && c.frames[n-1] == f {
		c.frames = c.frames[:n-1]
	}
	if f.Finalize {
		c.Done = append(c.Done, f)
	}
	f.ctx = sdk.Context{}
	if r != nil {
		panic(r)
	}
}

func (c *CBChain) curFrame() *frame {
	if n := len(c.frames); n > 0 {
		return c.frames[n-1]
	}
	return nil
}

// wire wraps (max == default) or rebuilds (otherwise) the application stacks that carry the callbacks middleware.
func (c *CBChain) wire(maxGas uint64) {
	app := c.App
	ibck := app.IBCKeeper
	old := ibck.PortKeeper.Router
	var transferStack porttypes.IBCModule
	if maxGas == DefaultMaxCallbackGas {
		transferStack, _ = old.Route(transfertypes.ModuleName)
	} else {
		sb := porttypes.NewIBCStackBuilder(ibck.ChannelKeeper)
		sb.Base(transfer.NewIBCModule(app.TransferKeeper)).Next(ibccallbacks.NewIBCMiddleware(app.MockContractKeeper, maxGas))
		transferStack = sb.Build()
	}
	nr := porttypes.NewRouter()
	for _, k := range old.Keys() {
		m, _ := old.Route(k)
		if k == transfertypes.ModuleName {
			nr.AddRoute(k, &v1tap{inner: transferStack, c: c})
		} else {
			nr.AddRoute(k, m)
		}
	}
	nr.Seal()
	ibck.PortKeeper.Router = nr
	// the transfer keeper sends through the callbacks middleware: tap in between
	app.TransferKeeper.WithICS4Wrapper(&ics4tap{inner: app.TransferKeeper.GetICS4Wrapper(), c: c})

	old2 := ibck.ChannelKeeperV2.Router
	nr2 := api.NewRouter()
	var t2, g2 api.IBCModule
	if maxGas == DefaultMaxCallbackGas {
		t2, g2 = old2.Route(transfertypes.PortID), old2.Route(gmptypes.PortID)
	} else {
		t2 = ibccallbacksv2.NewIBCMiddleware(transferv2.NewIBCModule(app.TransferKeeper), ibck.ChannelKeeperV2, app.MockContractKeeper, ibck.ChannelKeeperV2, maxGas)
		g2 = ibccallbacksv2.NewIBCMiddleware(gmp.NewIBCModule(app.GMPKeeper), ibck.ChannelKeeperV2, app.MockContractKeeper, ibck.ChannelKeeperV2, maxGas)
	}
	// a stub application that acknowledges asynchronously, under the real middleware (public constructor)
	c.AsyncMW = ibccallbacksv2.NewIBCMiddleware(asyncApp{}, ibck.ChannelKeeperV2, app.MockContractKeeper, ibck.ChannelKeeperV2, maxGas)
	nr2.AddRoute(AsyncPort, &v2tap{inner: c.AsyncMW, c: c})
	nr2.AddRoute(transfertypes.PortID, &v2tap{inner: t2, c: c})
	nr2.AddRoute(gmptypes.PortID, &v2tap{inner: g2, c: c})
	ibck.ChannelKeeperV2.Router = nr2
}

type ics4tap struct {
	inner porttypes.ICS4Wrapper
	c     *CBChain
}

func (w *ics4tap) SendPacket(ctx sdk.Context, sourcePort, sourceChannel string, timeoutHeight clienttypes.Height, timeoutTimestamp uint64, data []byte) (uint64, error) {
	f := w.c.enter("send", 1, ctx)
	defer w.c.leave(f)
	return w.inner.SendPacket(ctx, sourcePort, sourceChannel, timeoutHeight, timeoutTimestamp, data)
}

func (w *ics4tap) WriteAcknowledgement(ctx sdk.Context, packet exported.PacketI, ack exported.Acknowledgement) error {
	return w.inner.WriteAcknowledgement(ctx, packet, ack)
}

func (w *ics4tap) GetAppVersion(ctx sdk.Context, portID, channelID string) (string, bool) {
	return w.inner.GetAppVersion(ctx, portID, channelID)
}

type v1tap struct {
	inner porttypes.IBCModule
	c     *CBChain
}

var (
	_ porttypes.IBCModule             = (*v1tap)(nil)
	_ porttypes.PacketDataUnmarshaler = (*v1tap)(nil)
)

func (w *v1tap) OnChanOpenInit(ctx sdk.Context, order channeltypes.Order, hops []string, portID, channelID string, cp channeltypes.Counterparty, version string) (string, error) {
	return w.inner.OnChanOpenInit(ctx, order, hops, portID, channelID, cp, version)
}

func (w *v1tap) OnChanOpenTry(ctx sdk.Context, order channeltypes.Order, hops []string, portID, channelID string, cp channeltypes.Counterparty, cpVersion string) (string, error) {
	return w.inner.OnChanOpenTry(ctx, order, hops, portID, channelID, cp, cpVersion)
}

func (w *v1tap) OnChanOpenAck(ctx sdk.Context, portID, channelID, cpChannelID, cpVersion string) error {
	return w.inner.OnChanOpenAck(ctx, portID, channelID, cpChannelID, cpVersion)
}

func (w *v1tap) OnChanOpenConfirm(ctx sdk.Context, portID, channelID string) error {
	return w.inner.OnChanOpenConfirm(ctx, portID, channelID)
}

func (w *v1tap) OnChanCloseInit(ctx sdk.Context, portID, channelID string) error {
	return w.inner.OnChanCloseInit(ctx, portID, channelID)
}

func (w *v1tap) OnChanCloseConfirm(ctx sdk.Context, portID, channelID string) error {
	return w.inner.OnChanCloseConfirm(ctx, portID, channelID)
}

func (w *v1tap) OnRecvPacket(ctx sdk.Context, channelVersion string, packet channeltypes.Packet, relayer sdk.AccAddress) exported.Acknowledgement {
	f := w.c.enter("recv", 1, ctx)
	defer w.c.leave(f)
	return w.inner.OnRecvPacket(ctx, channelVersion, packet, relayer)
}

func (w *v1tap) OnAcknowledgementPacket(ctx sdk.Context, channelVersion string, packet channeltypes.Packet, ack []byte, relayer sdk.AccAddress) error {
	f := w.c.enter("ack", 1, ctx)
	defer w.c.leave(f)
	return w.inner.OnAcknowledgementPacket(ctx, channelVersion, packet, ack, relayer)
}

func (w *v1tap) OnTimeoutPacket(ctx sdk.Context, channelVersion string, packet channeltypes.Packet, relayer sdk.AccAddress) error {
	f := w.c.enter("timeout", 1, ctx)
	defer w.c.leave(f)
	return w.inner.OnTimeoutPacket(ctx, channelVersion, packet, relayer)
}

func (w *v1tap) SetICS4Wrapper(wrapper porttypes.ICS4Wrapper) { w.inner.SetICS4Wrapper(wrapper) }

func (w *v1tap) UnmarshalPacketData(ctx sdk.Context, portID, channelID string, bz []byte) (any, string, error) {
	if u, ok := w.inner.(porttypes.PacketDataUnmarshaler); ok {
		return u.UnmarshalPacketData(ctx, portID, channelID, bz)
	}
	return nil, "", errors.New("underlying module does not unmarshal packet data")
}

// AsyncPort is the port of the asynchronously acknowledging stub application.
const AsyncPort = "c40async"

// asyncApp accepts every packet and defers the acknowledgement; its packet data is a JSON object read like a memo.
type asyncApp struct{}

type asyncData map[string]any

func (d asyncData) GetCustomPacketData(key string) any { return d[key] }

func (asyncApp) OnSendPacket(sdk.Context, string, string, uint64, channeltypesv2.Payload, sdk.AccAddress) error {
	return nil
}

func (asyncApp) OnRecvPacket(sdk.Context, string, string, uint64, channeltypesv2.Payload, sdk.AccAddress) channeltypesv2.RecvPacketResult {
	return channeltypesv2.RecvPacketResult{Status: channeltypesv2.PacketStatus_Async}
}

func (asyncApp) OnTimeoutPacket(sdk.Context, string, string, uint64, channeltypesv2.Payload, sdk.AccAddress) error {
	return nil
}

func (asyncApp) OnAcknowledgementPacket(sdk.Context, string, string, uint64, []byte, channeltypesv2.Payload, sdk.AccAddress) error {
	return nil
}

func (asyncApp) UnmarshalPacketData(payload channeltypesv2.Payload) (any, error) {
	d := asyncData{}
	if err := json.Unmarshal(payload.Value, &d); err != nil {
		return nil, err
	}
	return d, nil
}

type v2tap struct {
	inner api.IBCModule
	c     *CBChain
}

var _ api.IBCModule = (*v2tap)(nil)

func (w *v2tap) OnSendPacket(ctx sdk.Context, srcClient, dstClient string, seq uint64, payload channeltypesv2.Payload, signer sdk.AccAddress) error {
	f := w.c.enter("send", 2, ctx)
	defer w.c.leave(f)
	return w.inner.OnSendPacket(ctx, srcClient, dstClient, seq, payload, signer)
}

func (w *v2tap) OnRecvPacket(ctx sdk.Context, srcClient, dstClient string, seq uint64, payload channeltypesv2.Payload, relayer sdk.AccAddress) channeltypesv2.RecvPacketResult {
	f := w.c.enter("recv", 2, ctx)
	defer w.c.leave(f)
	return w.inner.OnRecvPacket(ctx, srcClient, dstClient, seq, payload, relayer)
}

func (w *v2tap) OnTimeoutPacket(ctx sdk.Context, srcClient, dstClient string, seq uint64, payload channeltypesv2.Payload, relayer sdk.AccAddress) error {
	f := w.c.enter("timeout", 2, ctx)
	defer w.c.leave(f)
	return w.inner.OnTimeoutPacket(ctx, srcClient, dstClient, seq, payload, relayer)
}

func (w *v2tap) OnAcknowledgementPacket(ctx sdk.Context, srcClient, dstClient string, seq uint64, ack []byte, payload channeltypesv2.Payload, relayer sdk.AccAddress) error {
	f := w.c.enter("ack", 2, ctx)
	defer w.c.leave(f)
	return w.inner.OnAcknowledgementPacket(ctx, srcClient, dstClient, seq, ack, payload, relayer)
}

func (w *v2tap) UnmarshalPacketData(payload channeltypesv2.Payload) (any, error) {
	if u, ok := w.inner.(api.PacketDataUnmarshaler); ok {
		return u.UnmarshalPacketData(payload)
	}
	return nil, errors.New("underlying module does not unmarshal packet data")
}

// ---------------------------------------------------------------------------------------------
// the contract: its behaviour is scripted in the callback address "c40|<behaviour>|<keys>|<tag>"

// Behaviours of the scripted contract.
const (
	BehOK         = "ok"       // write state, return nil
	BehExact      = "exact"    // write state, consume exactly the rest of the gas limit, return nil
	BehError      = "error"    // write state, return an error
	BehPanic      = "panic"    // write state, panic
	BehBurnAll    = "burnall"  // write state, consume far more than the limit (out-of-gas panic)
	BehOverByOne  = "over1"    // write state, consume the rest of the limit and one more unit (out-of-gas panic)
	BehOogAsError = "oogerror" // write state, run out of gas, recover inside the contract keeper and return an error
	BehOogAsOK    = "oogok"    // write state, run out of gas, recover inside the contract keeper and report success
	contractFrom  = 6          // account the contract spends from
	contractTo    = 7          // account the contract pays
	contractCoins = int64(3)   // amount of stake per call
)

var errContract = errors.New("scripted contract error")

// ContractAddr scripts behaviour beh for callback type typ (send|ack|timeout|recv).
func ContractAddr(typ, beh string, keys int, tag string) string {
	return fmt.Sprintf("c40|%s=%s|%d|%s", typ, beh, keys, tag)
}

func ContractKey(tag string, i int) []byte { return []byte(fmt.Sprintf("c40/%s/%d", tag, i)) }

func (c *CBChain) installContract() {
	k := c.App.MockContractKeeper
	k.IBCSendPacketCallbackFn = func(ctx sdk.Context, _, _ string, _ clienttypes.Height, _ uint64, _ []byte, contractAddress, _, _ string) error {
		return c.contract(ctx, "send", contractAddress)
	}
	k.IBCOnAcknowledgementPacketCallbackFn = func(ctx sdk.Context, _ channeltypes.Packet, _ []byte, _ sdk.AccAddress, contractAddress, _, _ string) error {
		return c.contract(ctx, "ack", contractAddress)
	}
	k.IBCOnTimeoutPacketCallbackFn = func(ctx sdk.Context, _ channeltypes.Packet, _ sdk.AccAddress, contractAddress, _, _ string) error {
		return c.contract(ctx, "timeout", contractAddress)
	}
	k.IBCReceivePacketCallbackFn = func(ctx sdk.Context, _ exported.PacketI, _ exported.Acknowledgement, contractAddress, _ string) error {
		return c.contract(ctx, "recv", contractAddress)
	}
}

func (c *CBChain) contract(ctx sdk.Context, typ, addr string) (err error) {
	if s, ok := c.Script[addr]; ok {
		addr = s
	}
	parts := strings.SplitN(addr, "|", 4)
	if len(parts) != 4 || parts[0] != "c40" {
		return nil
	}
	// the script applies to one callback type; for the other types the contract succeeds without touching state
	beh, keys, scripted := BehOK, 0, false
	if tb := strings.SplitN(parts[1], "=", 2); len(tb) == 2 && tb[0] == typ {
		beh, scripted = tb[1], true
		keys, _ = strconv.Atoi(parts[2])
	}
	gm := ctx.GasMeter()
	ob := &CBObs{Type: typ, Beh: beh, Tag: parts[3], Keys: keys, Scripted: scripted, LimitSeen: gm.Limit(), InnerAtEntry: gm.GasConsumed(), Finalize: ctx.ExecMode() == sdk.ExecModeFinalize}
	if f := c.curFrame(); f != nil {
		ob.HaveOuter = true
		ob.OuterRemainAtEntry = f.ctx.GasMeter().GasRemaining()
		ob.OuterConsumedAtEntry = f.ctx.GasMeter().GasConsumed()
		ob.StackRemainAtEntry = f.RemainAtEntry
		f.Obs = append(f.Obs, ob)
	}
	c.Obs = append(c.Obs, ob)
	defer func() {
		ob.PastLimit = gm.IsPastLimit()
		ob.InnerAtExit = gm.GasConsumed()
	}()
	// the contract's own state changes
	st := ctx.KVStore(c.App.GetKey(contractStore))
	for i := 0; i < keys; i++ {
		st.Set(ContractKey(ob.Tag, i), []byte(typ))
	}
	if keys%2 == 1 {
		if e := c.App.BankKeeper.SendCoins(ctx, c.Addr(contractFrom), c.Addr(contractTo), sdk.NewCoins(sdk.NewCoin(sdk.DefaultBondDenom, sdkmath.NewInt(contractCoins)))); e != nil {
			return e
		}
	}
	ob.Finished = true
	switch ob.Beh {
	case BehExact:
		gm.ConsumeGas(gm.GasRemaining(), "contract: exactly the limit")
		return nil
	case BehError:
		return errContract
	case BehPanic:
		panic("scripted contract panic")
	case BehBurnAll:
		gm.ConsumeGas(gm.Limit()*8+1_000_000, "contract: burn everything")
		return nil
	case BehOverByOne:
		gm.ConsumeGas(gm.GasRemaining(), "contract: up to the limit")
		gm.ConsumeGas(1, "contract: one more")
		return nil
	case BehOogAsError:
		defer func() {
			if r := recover(); r != nil {
				err = errContract
			}
		}()
		gm.ConsumeGas(gm.GasRemaining()+1, "contract: out of gas, swallowed by the contract keeper")
		return nil
	case BehOogAsOK:
		defer func() { _ = recover() }()
		gm.ConsumeGas(gm.GasRemaining()+1, "contract: out of gas, swallowed by the contract keeper, success reported")
		return nil
	}
	return nil
}
