package gmpcb

import (
	"bytes"
	"fmt"
	"math"
	"strconv"
	"strings"
	"testing"
	"time"

	"github.com/cosmos/gogoproto/proto"

	sdkmath "cosmossdk.io/math"

	storetypes "github.com/cosmos/cosmos-sdk/store/v2/types"
	sdk "github.com/cosmos/cosmos-sdk/types"
	banktypes "github.com/cosmos/cosmos-sdk/x/bank/types"

	gmptypes "github.com/cosmos/ibc-go/v11/modules/apps/27-gmp/types"
	cbtypes "github.com/cosmos/ibc-go/v11/modules/apps/callbacks/types"
	transfertypes "github.com/cosmos/ibc-go/v11/modules/apps/transfer/types"
	clienttypes "github.com/cosmos/ibc-go/v11/modules/core/02-client/types"
	channeltypes "github.com/cosmos/ibc-go/v11/modules/core/04-channel/types"
	channeltypesv2 "github.com/cosmos/ibc-go/v11/modules/core/04-channel/v2/types"
	porttypes "github.com/cosmos/ibc-go/v11/modules/core/05-port/types"
	host "github.com/cosmos/ibc-go/v11/modules/core/24-host"
	hostv2 "github.com/cosmos/ibc-go/v11/modules/core/24-host/v2"
	ibctesting "github.com/cosmos/ibc-go/v11/testing"

	"verif/harness/kit"
)

const c40Rule = "fault matrix = application {ICS-20 over IBC v1, ICS-20 over IBC v2, GMP over IBC v2, asynchronously acknowledging stub over IBC v2} x callback type {send, ack of a success, ack of an error (refund), timeout (refund), receive, asynchronous write-acknowledgement (stub only)} x contract behaviour {ok, consume exactly the limit, error, panic, burn far beyond the limit, limit+1, out of gas swallowed into an error, out of gas swallowed into success} x user gas limit {small, absent, \"0\", = max, max+1, 2^64-1} x relayer/user transaction gas {generous, tight: remaining < commit limit at the callback, then retried at commit-1 / commit / commit+1 and finally with generous gas} x chain maximum {1,000,000 as wired in the callbacks simapp, 300,000 (thorough: also 60,000) through rebuilt stacks}; every cell is a real packet life cycle driven by signed transactions with a chosen gas limit; the oracles read the contract keeper's gas meter, the transaction's gas meter at the contract's start and at the stack's return, the transaction result and the exact state diff. " +
	"Plus boundary-biased (remaining, user, max) triples through GetCallbackData / GetSourceCallbackData / GetDestCallbackData against cap(user,max) and min(remaining, cap). distinct = matrix cell x observed regime (retryable / not, aborted / isolated / persisted)"

// capGas is the commit limit of the statement: the user-requested limit capped at the chain maximum (0 or absent or above max ⇒ max).
func capGas(user, max uint64) uint64 {
	if user == 0 || user > max {
		return max
	}
	return user
}

func minU(a, b uint64) uint64 {
	if a < b {
		return a
	}
	return b
}

func TestC40(t *testing.T) {
	c := kit.NewCheck(t, "C40", "fault_enumeration", c40Rule)
	defer c.Finish()
	c.Assume("callbacks simapp of the repository (modules/apps/callbacks/testing/simapp) with its mock ContractKeeper's function fields replaced by a scripted contract; for the non-default maximum the stacks are rebuilt with the public middleware constructors")
	c.Assume("the SDK's transaction atomicity and gas metering of the ante handler are the trusted base; gas observations are taken from the same gas meters the code under test uses, read by the harness's taps")
	for k, v := range map[string]int64{"pure_triples": 2000, "pure_via_context": 280, "cells": 330, "gas_bound_checks": 670, "limit_equals_min_remaining_cap": 670,
		"limit_capped_by_remaining": 200, "src_failure_isolated": 115, "src_retryable_oog_aborted": 60, "retry_after_abort_succeeded": 40, "src_nonretryable_oog_isolated": 70,
		"dest_failure_error_ack_no_app_change": 80, "ok_callback_persisted": 85, "send_failure_rejected": 50, "boundary_remaining_eq_commit": 30,
		"obs_v1_ack": 80, "obs_v2_ack": 80, "obs_gmp_ack": 14, "obs_v1_timeout": 28, "obs_v2_timeout": 28, "obs_v1_recv": 70, "obs_v2_recv": 70, "obs_gmp_recv": 35, "obs_async_wack": 60, "async_failure_isolated": 20, "async_retryable_oog_aborted": 15, "obs_v1_send": 110, "obs_v2_send": 110} {
		c.Floor(k, v)
	}
	c.Exhaustive = true

	c40Pure(c, t)

	// matrix
	maxes := []uint64{DefaultMaxCallbackGas, 300_000}
	if c.Thorough() {
		maxes = append(maxes, 60_000)
	}
	for wi, max := range maxes {
		id := 200000 + wi
		c.SetCase(c.CaseID(id))
		// replay: a violation names its matrix cell ("…|max=<max>"), or the world
		if c.OnlyCase != "" && c.OnlyCase != c.CaseID(id) && !strings.HasSuffix(c.OnlyCase, fmt.Sprintf("|max=%d", max)) {
			continue
		}
		r := c.CaseRng(id)
		err := kit.Try(func() {
			m := newC40(c, t, r, max)
			m.runMatrix(wi == 0)
		})
		if err != nil {
			c.Inconcl(fmt.Sprintf("world max=%d: %v", max, err))
		}
	}
}

// ---------------------------------------------------------------------------------------------
// (i) exact limits through the exported functions

type memoProvider struct {
	memo map[string]any
}

func (m memoProvider) GetCustomPacketData(key string) any { return m.memo[key] }

func c40Pure(c *kit.Check, t *testing.T) {
	n := c.N(6000, 20000)
	r := c.CaseRng(0)
	c.SetCase("pure")
	if c.OnlyCase != "" && c.OnlyCase != "pure" {
		return
	}
	rel := func(base uint64) uint64 {
		switch r.Intn(8) {
		case 0:
			return base - 1
		case 1:
			return base + 1
		case 2:
			return base
		case 3:
			return 0
		case 4:
			return math.MaxUint64
		default:
			return r.Boundary64()
		}
	}
	for i := 0; i < n; i++ {
		max := r.Boundary64()
		if r.Chance(1, 3) {
			max = kit.Pick(r, []uint64{1, 1_000_000, 300_000, math.MaxUint64, math.MaxUint64 - 1})
		}
		user := rel(max)
		cp := capGas(user, max)
		rem := rel(cp)
		if r.Chance(1, 4) {
			rem = rel(user)
		}
		key := kit.Pick(r, []string{cbtypes.SourceCallbackKey, cbtypes.DestinationCallbackKey})
		// how the user limit is written
		var field, form string
		switch {
		case user == 0 && r.Chance(1, 3):
			field, form = "", "absent"
		case user == 0 && r.Bool():
			field, form = `, "gas_limit": ""`, "empty"
		default:
			field, form = fmt.Sprintf(`, "gas_limit": "%d"`, user), "decimal"
		}
		memo := fmt.Sprintf(`{"%s": {"address": "contract"%s}, "other": 1}`, key, field)
		var pd any
		var src string
		switch r.Intn(4) {
		case 0:
			pd, src = transfertypes.NewFungibleTokenPacketData("stake", "1", "s", "r", memo), "ics20-v1-data"
		case 1:
			pd, src = transfertypes.NewInternalTransferRepresentation(transfertypes.Token{Denom: transfertypes.NewDenom("stake"), Amount: "1"}, "s", "r", memo), "ics20-internal"
		case 2:
			if key == cbtypes.SourceCallbackKey {
				// GMP takes the source callback from the sender, never a user limit
				user, cp, form = 0, max, "gmp-auto"
				if rem > cp && r.Bool() {
					rem = cp - uint64(r.Intn(2))
				}
			}
			pd, src = gmptypes.NewGMPPacketData("sender", "", nil, []byte("p"), memo), "gmp"
		default:
			cbd := map[string]any{"address": "contract"}
			if form != "absent" {
				cbd["gas_limit"] = strings.TrimSuffix(strings.TrimPrefix(strings.TrimPrefix(field, `, "gas_limit": `), `"`), `"`)
			}
			pd, src = memoProvider{memo: map[string]any{key: cbd}}, "plain-provider"
		}
		data, isCb, err := cbtypes.GetCallbackData(pd, "v", "port", rem, max, key)
		c.Inc("pure_triples")
		relUM, relRC := cmp3(user, max), cmp3(rem, cp)
		if user == 0 {
			relUM = "0"
		}
		class := fmt.Sprintf("pure|%s|%s|%s|u%sm|r%sc", src, key, form, relUM, relRC)
		if !isCb || err != nil {
			c40Cap.violate(c, "C40|callback-data-rejected|"+src, fmt.Sprintf("GetCallbackData(rem=%d, user=%d (%s), max=%d) = isCb %v, err %v for a well-formed callback memo", rem, user, form, max, isCb, err), nil)
			c.Eval(class)
			continue
		}
		wantExec := minU(rem, cp)
		if data.CommitGasLimit != cp {
			c40Cap.violate(c, "C40|commit-limit-not-capped-user-limit|u"+relUM+"m", fmt.Sprintf("commit gas limit %d, expected cap(user=%d, max=%d) = %d (remaining %d, %s)", data.CommitGasLimit, user, max, cp, rem, src), map[string]any{"remaining": rem, "user": user, "max": max})
		}
		if data.ExecutionGasLimit != wantExec {
			c40Cap.violate(c, "C40|execution-limit-not-min-remaining-cap|u"+relUM+"m|r"+relRC+"c", fmt.Sprintf("execution gas limit %d, expected min(remaining=%d, cap(user=%d, max=%d)=%d) = %d (%s)", data.ExecutionGasLimit, rem, user, max, cp, wantExec, src), map[string]any{"remaining": rem, "user": user, "max": max})
		}
		if i < 3 {
			c.Sample(map[string]any{"pure": fmt.Sprintf("rem=%d user=%d(%s) max=%d -> exec=%d commit=%d", rem, user, form, max, data.ExecutionGasLimit, data.CommitGasLimit)})
		}
		c.Eval(class)
	}

	// through a context's gas meter and the real ICS-20 stack as unmarshaler
	err := kit.Try(func() {
		w := NewCBWorld(t, DefaultMaxCallbackGas)
		a, b := w.Chains[0], w.Chains[1]
		p := ibctesting.NewTransferPath(a.TestChain, b.TestChain)
		p.Setup()
		stack, _ := a.App.IBCKeeper.PortKeeper.Router.Route(transfertypes.ModuleName)
		um := stack.(porttypes.PacketDataUnmarshaler)
		nctx := c.N(900, 3000)
		for i := 0; i < nctx; i++ {
			max := kit.Pick(r, []uint64{1_000_000, 300_000, 50_000, math.MaxUint64})
			user := rel(max)
			if r.Bool() {
				user = uint64(r.Intn(2_000_000))
			}
			cp := capGas(user, max)
			key := kit.Pick(r, []string{cbtypes.SourceCallbackKey, cbtypes.DestinationCallbackKey})
			memo := fmt.Sprintf(`{"%s": {"address": "contract", "gas_limit": "%d"}}`, key, user)
			data := transfertypes.NewFungibleTokenPacketData("stake", "1", a.Addr(0).String(), b.Addr(0).String(), memo).GetBytes()
			pk := channeltypes.NewPacket(data, 1, p.EndpointA.ChannelConfig.PortID, p.EndpointA.ChannelID, p.EndpointA.ChannelConfig.PortID, p.EndpointA.ChannelID, clienttypes.NewHeight(1, 100), 0)
			var gm storetypes.GasMeter
			form := "limited"
			if r.Chance(1, 8) {
				gm, form = storetypes.NewInfiniteGasMeter(), "infinite"
			} else {
				// limits around the cap plus the couple of thousand gas the version lookup costs
				lim := cp + uint64(r.Intn(6000))
				if r.Bool() && cp > 3000 {
					lim = cp - uint64(r.Intn(3000))
				}
				if r.Chance(1, 6) {
					lim = uint64(r.Intn(5000))
				}
				gm = storetypes.NewGasMeter(lim)
			}
			ctx := a.GetContext().WithGasMeter(gm)
			var cb cbtypes.CallbackData
			var isCb bool
			var gerr error
			perr := kit.TryAll(func() {
				if key == cbtypes.SourceCallbackKey {
					cb, isCb, gerr = cbtypes.GetSourceCallbackData(ctx, um, pk, max)
				} else {
					cb, isCb, gerr = cbtypes.GetDestCallbackData(ctx, um, pk, max)
				}
			})
			if perr != nil {
				c.Inc("pure_via_context_out_of_gas_before")
				continue
			}
			remAfter := gm.GasRemaining()
			c.Inc("pure_via_context")
			relRC := cmp3(remAfter, cp)
			if !isCb || gerr != nil {
				c40Cap.violate(c, "C40|callback-data-rejected|via-context", fmt.Sprintf("%s callback data rejected: isCb %v err %v", key, isCb, gerr), nil)
				continue
			}
			if cb.CommitGasLimit != cp || cb.ExecutionGasLimit != minU(remAfter, cp) {
				c40Cap.violate(c, "C40|limits-via-context|r"+relRC+"c", fmt.Sprintf("%s: exec %d commit %d, expected min(remaining %d, cap(user %d, max %d) = %d)", key, cb.ExecutionGasLimit, cb.CommitGasLimit, remAfter, user, max, cp), nil)
			}
			c.Eval(fmt.Sprintf("ctx|%s|%s|u%sm|r%sc", key, form, cmp3(user, max), relRC))
		}
	})
	if err != nil {
		c.Inconcl("pure via context: " + err.Error())
	}
}

// sigCap keeps one class of violation from filling the evidence: at most 3 witnesses per signature are recorded, the rest counted.
type sigCap map[string]int

var c40Cap = sigCap{}

func (k sigCap) violate(c *kit.Check, sig, what string, wit any) {
	k[sig]++
	if k[sig] > 3 {
		c.Inc("violations_of_a_recorded_class_not_repeated")
		return
	}
	c.Violate(sig, what, wit)
}

func cmp3(a, b uint64) string {
	switch {
	case a < b:
		return "<"
	case a > b:
		return ">"
	}
	return "="
}

// ---------------------------------------------------------------------------------------------
// (ii), (iii) the in-situ matrix

type cell struct {
	app     string // v1 | v2 | gmp
	typ     string // send | ack | ackerr | timeout | recv
	beh     string
	user    string // small | absent | zero | equal | over | maxu64
	relayer string // generous | tight
}

func (cl cell) id(max uint64) string {
	return fmt.Sprintf("%s|%s|%s|user=%s|gas=%s|max=%d", cl.app, cl.typ, cl.beh, cl.user, cl.relayer, max)
}

// cbType is the contract-side callback type of a matrix type
func (cl cell) cbType() string {
	switch cl.typ {
	case "ackerr":
		return "ack"
	case "wack":
		return "recv"
	}
	return cl.typ
}

type c40 struct {
	c    *kit.Check
	t    *testing.T
	r    *kit.Rng
	w    *CBWorld
	a, b *CBChain
	max  uint64
	p1   *ibctesting.Path // ICS-20 v1 channel
	p2   *ibctesting.Path // IBC v2 client pair
	pre  map[string]uint64
	tag  int
	// gmp
	gmpAcct sdk.AccAddress
	// balances taken right before the delivery under judgement
	lastProbes probes
	start      time.Time
}

type probes struct{ sender, escrow, to, credit balProbe }

var allBehs = []string{BehOK, BehExact, BehError, BehPanic, BehBurnAll, BehOverByOne, BehOogAsError, BehOogAsOK}

func newC40(c *kit.Check, t *testing.T, r *kit.Rng, max uint64) *c40 {
	m := &c40{c: c, t: t, r: r, max: max, pre: map[string]uint64{}, start: time.Now()}
	m.w = NewCBWorld(t, max)
	m.a, m.b = m.w.Chains[0], m.w.Chains[1]
	m.p1 = ibctesting.NewTransferPath(m.a.TestChain, m.b.TestChain)
	m.p1.Setup()
	m.p2 = ibctesting.NewPath(m.a.TestChain, m.b.TestChain)
	m.p2.SetupV2()
	// GMP account of A's account 1 on B, funded
	m.gmpAcct = sdk.AccAddress(ModelAddr(Triple{m.p2.EndpointB.ClientID, m.a.Addr(1).String(), []byte("c40")}))
	fo := m.b.Deliver(m.b.Acct(0), 0, banktypes.NewMsgSend(m.b.Addr(0), m.gmpAcct, sdk.NewCoins(sdk.NewCoin(sdk.DefaultBondDenom, sdkmath.NewInt(1_000_000)))))
	if !fo.OK() {
		panic(kit.Abort{Msg: "cannot fund gmp account: " + fo.Log})
	}
	return m
}

func (m *c40) userVal(kind string) (field string, u uint64) {
	switch kind {
	case "small":
		u = m.max/8 + uint64(m.r.Intn(2000))
	case "absent":
		return "", 0
	case "zero":
		u = 0
	case "equal":
		u = m.max
	case "over":
		u = m.max + 1 + uint64(m.r.Intn(3))
	case "maxu64":
		u = math.MaxUint64
	}
	return fmt.Sprintf(`, "gas_limit": "%d"`, u), u
}

// usersFor is the user-limit dimension of one (world, type): the quick tier enumerates all user kinds for the callback types the
// statement singles out on each side (ack, recv) and the three classes {below max, absent, above max} elsewhere; the thorough
// tier enumerates every kind everywhere.
func (m *c40) usersFor(first bool, typ string) []string {
	all := []string{"small", "absent", "zero", "equal", "over", "maxu64"}
	if m.c.Thorough() {
		return all
	}
	wide := typ == "ack" || typ == "recv"
	switch {
	case first && wide:
		return []string{"small", "absent", "zero", "equal", "over"}
	case first:
		return []string{"small", "absent", "over"}
	case wide:
		return []string{"small", "maxu64"}
	}
	return []string{"small"}
}

func (m *c40) runMatrix(first bool) {
	var cells []cell
	for _, app := range []string{"v1", "v2"} {
		for _, typ := range []string{"ack", "ackerr", "timeout", "recv", "send"} {
			for _, rel := range []string{"generous", "tight"} {
				for _, u := range m.usersFor(first, typ) {
					for _, beh := range allBehs {
						cells = append(cells, cell{app, typ, beh, u, rel})
					}
				}
			}
		}
	}
	// GMP: the source callback address is the packet sender and carries no user limit; the destination callback comes from the memo
	for _, typ := range []string{"ack", "timeout", "send", "recv"} {
		for _, rel := range []string{"generous", "tight"} {
			us := []string{"absent"}
			if typ == "recv" {
				us = []string{"small", "over"}
			}
			for _, u := range us {
				for _, beh := range allBehs {
					if !first && !m.c.Thorough() && typ != "recv" && typ != "ack" {
						continue
					}
					cells = append(cells, cell{"gmp", typ, beh, u, rel})
				}
			}
		}
	}
	// asynchronous write-acknowledgement (destination callback run from the application's later WriteAcknowledgement)
	for _, rel := range []string{"generous", "tight"} {
		for _, u := range m.usersFor(first, "recv") {
			for _, beh := range allBehs {
				cells = append(cells, cell{"async", "wack", beh, u, rel})
			}
		}
	}
	for i, cl := range cells {
		id := cl.id(m.max)
		m.c.SetCase(id)
		if m.c.OnlyCase != "" && m.c.OnlyCase != id && !strings.HasPrefix(m.c.OnlyCase, "s") {
			// replaying one cell still needs the calibration of its (app, type): run the generous ok cell of that group
			if !(cl.relayer == "generous" && cl.beh == BehOK && strings.HasPrefix(m.c.OnlyCase, cl.app+"|"+cl.typ+"|")) {
				continue
			}
		}
		err := kit.Try(func() {
			if cl.app == "async" {
				m.runAsyncCell(cl)
			} else {
				m.runCell(cl)
			}
		})
		if err != nil {
			m.c.Inconcl(id + ": " + err.Error())
		}
		if i%100 == 0 {
			m.t.Logf("progress max=%d cell %d/%d %s t=%s", m.max, i, len(cells), id, time.Since(m.start))
		}
	}
}

// ---- per-cell machinery

type cellRun struct {
	cl      cell
	tag     string
	keys    int
	user    uint64
	commit  uint64
	amt     int64
	regime  []string
	sampled bool
}

func (cr *cellRun) note(s string) { cr.regime = append(cr.regime, s) }

// lifecycle abstracts the three applications: it sends one packet carrying the callback memo and exposes the relay messages.
type lifecycle struct {
	src, dst       *CBChain
	sendMsg        sdk.Msg
	sender         ibctesting.SenderAccount
	commitKey      func() []byte // source packet commitment key (known after the send)
	recvMsg        func() sdk.Msg
	ackMsg         func() sdk.Msg
	timeoutMsg     func() sdk.Msg
	parseSend      func(o *CBOutcome) error
	parseRecv      func(o *CBOutcome) (success bool, err error)
	refundTo       sdk.AccAddress
	escrow         sdk.AccAddress
	refundDenom    string
	recvCredit     sdk.AccAddress // who is credited on the destination when the receive succeeds
	recvDenom      func() string
	recvAmt        int64
	advanceTimeout func()
	updateSrc      func()
	updateDst      func()
}

func (m *c40) runCell(cl cell) {
	// the cell's random choices depend only on (seed, shard, cell)
	m.r = kit.NewRng(m.c.Seed, "C40", "shard", strconv.Itoa(m.c.Shard), cl.id(m.max))
	m.tag++
	cr := &cellRun{cl: cl, tag: fmt.Sprintf("t%d", m.tag), keys: 1 + m.r.Intn(3), amt: int64(10 + m.r.Intn(90))}
	field, u := m.userVal(cl.user)
	cr.user, cr.commit = u, capGas(u, m.max)
	cbKey := cbtypes.SourceCallbackKey
	if cl.typ == "recv" {
		cbKey = cbtypes.DestinationCallbackKey
	}
	script := ContractAddr(cl.cbType(), cl.beh, cr.keys, cr.tag)
	memo := fmt.Sprintf(`{"%s": {"address": "%s"%s}}`, cbKey, script, field)
	var lc *lifecycle
	switch cl.app {
	case "v1":
		lc = m.lifeV1(cl, cr, memo)
	case "v2":
		lc = m.lifeV2(cl, cr, memo)
	default:
		if cbKey == cbtypes.SourceCallbackKey {
			memo = ""
			m.a.Script[m.a.Addr(1).String()] = script
			defer delete(m.a.Script, m.a.Addr(1).String())
		}
		lc = m.lifeGMP(cl, cr, memo)
	}
	m.c.Inc("cells")
	m.c.Inc("cells_" + cl.app)

	// ---- send
	if cl.typ == "send" {
		m.attempts(cr, lc, lc.src, lc.sender, func() sdk.Msg { return lc.sendMsg }, func(o *CBOutcome, final bool) bool { return m.judgeSend(cr, lc, o) })
		m.finish(cr)
		return
	}
	so := lc.src.Deliver(lc.sender, 0, lc.sendMsg)
	if !so.OK() {
		panic(kit.Abort{Msg: "send failed: " + clip(so.Log)})
	}
	m.boundAll(cr, so)
	if err := lc.parseSend(so); err != nil {
		panic(kit.Abort{Msg: "send events: " + err.Error()})
	}
	// ---- timeout
	if cl.typ == "timeout" {
		lc.advanceTimeout()
		lc.updateSrc()
		msg := lc.timeoutMsg()
		m.attempts(cr, lc, lc.src, lc.src.Acct(8), func() sdk.Msg { return msg }, func(o *CBOutcome, final bool) bool { return m.judgeSource(cr, lc, o, true, final) })
		m.finish(cr)
		return
	}
	// ---- receive
	lc.updateDst()
	rmsg := lc.recvMsg()
	if cl.typ == "recv" {
		m.attempts(cr, lc, lc.dst, lc.dst.Acct(8), func() sdk.Msg { return rmsg }, func(o *CBOutcome, final bool) bool { return m.judgeRecv(cr, lc, o, final) })
		m.finish(cr)
		return
	}
	ro := lc.dst.Deliver(lc.dst.Acct(8), 0, rmsg)
	if !ro.OK() {
		panic(kit.Abort{Msg: "recv failed: " + clip(ro.Log)})
	}
	success, err := lc.parseRecv(ro)
	if err != nil {
		panic(kit.Abort{Msg: "recv events: " + err.Error()})
	}
	if success != (cl.typ == "ack") {
		panic(kit.Abort{Msg: fmt.Sprintf("receive acknowledged success=%v in a %s cell", success, cl.typ)})
	}
	// ---- acknowledgement
	lc.dst.Commit()
	lc.updateSrc()
	amsg := lc.ackMsg()
	m.attempts(cr, lc, lc.src, lc.src.Acct(8), func() sdk.Msg { return amsg }, func(o *CBOutcome, final bool) bool { return m.judgeSource(cr, lc, o, cl.typ == "ackerr", final) })
	m.finish(cr)
}

func (m *c40) finish(cr *cellRun) {
	m.c.Eval(cr.cl.id(m.max) + "|" + strings.Join(cr.regime, ","))
	if len(m.c.Samples) < 6 && m.r.Chance(1, 40) {
		m.c.Sample(map[string]any{"cell": cr.cl.id(m.max), "observed": cr.regime, "user_limit": cr.user, "commit_limit": cr.commit})
	}
}

func calKey(cl cell) string { return cl.app + "|" + cl.typ }

// scripted returns the contract observation of this cell's scripted callback in o (nil if the contract never started).
func (m *c40) scripted(cr *cellRun, o *CBOutcome) *CBObs {
	for _, ob := range o.Obs {
		if ob.Scripted && ob.Tag == cr.tag && ob.Type == cr.cl.cbType() {
			return ob
		}
	}
	return nil
}

// attempts delivers the transaction under test according to the cell's gas plan; judge returns true when the step is complete.
func (m *c40) attempts(cr *cellRun, lc *lifecycle, ch *CBChain, signer ibctesting.SenderAccount, mk func() sdk.Msg, judge func(o *CBOutcome, final bool) bool) {
	key := calKey(cr.cl)
	deliver := func(gas uint64, final bool) (*CBOutcome, bool) {
		m.lastProbes = probes{to: probe(ch, ch.Addr(contractTo), sdk.DefaultBondDenom), credit: probe(lc.dst, lc.recvCredit, lc.recvDenom())}
		if lc.refundTo != nil {
			m.lastProbes.sender = probe(lc.src, lc.refundTo, lc.refundDenom)
			m.lastProbes.escrow = probe(lc.src, lc.escrow, lc.refundDenom)
		}
		o := ch.Deliver(signer, gas, mk())
		if ob := m.scripted(cr, o); ob != nil && ob.HaveOuter && o.GasWanted >= ob.OuterRemainAtEntry {
			m.pre[key] = o.GasWanted - ob.OuterRemainAtEntry
		}
		m.boundAll(cr, o)
		return o, judge(o, final)
	}
	pre, ok := m.pre[key]
	if cr.cl.relayer == "generous" || !ok {
		if cr.cl.relayer == "tight" {
			m.c.Inc("tight_without_calibration")
		}
		cr.note("gen")
		if _, done := deliver(0, true); !done {
			cr.note("gen-incomplete")
		}
		return
	}
	// tight: remaining gas at the contract's start below the commit limit
	var r1 uint64
	if m.r.Bool() {
		r1 = cr.commit - 1 - uint64(m.r.Intn(4000))
	} else {
		r1 = cr.commit/2 + uint64(m.r.Intn(int(cr.commit/4)+1))
	}
	g1 := pre + r1
	cr.note("tight")
	o1, done := deliver(g1, false)
	if done {
		return
	}
	if ob := m.scripted(cr, o1); ob != nil && ob.HaveOuter {
		target := cr.commit - 1 + uint64(m.r.Intn(3))
		g2 := g1 - ob.OuterRemainAtEntry + target
		cr.note("boundary")
		o2, done := deliver(g2, false)
		if ob2 := m.scripted(cr, o2); ob2 != nil && ob2.HaveOuter {
			switch {
			case ob2.OuterRemainAtEntry == cr.commit:
				m.c.Inc("boundary_remaining_eq_commit")
			case ob2.OuterRemainAtEntry == cr.commit-1:
				m.c.Inc("boundary_remaining_commit_minus_1")
			case ob2.OuterRemainAtEntry == cr.commit+1:
				m.c.Inc("boundary_remaining_commit_plus_1")
			}
		}
		if done {
			return
		}
	}
	cr.note("retry-gen")
	if _, done := deliver(0, true); !done {
		cr.note("retry-incomplete")
	} else if containsStr(cr.regime, "aborted") {
		m.c.Inc("retry_after_abort_succeeded")
	}
}

func containsStr(xs []string, s string) bool {
	for _, x := range xs {
		if x == s {
			return true
		}
	}
	return false
}

// boundAll applies the gas bound (ii) to every contract invocation seen in o (scripted or not).
func (m *c40) boundAll(cr *cellRun, o *CBOutcome) {
	for _, ob := range o.Obs {
		if !ob.HaveOuter {
			continue
		}
		if ob.Tag != cr.tag {
			continue
		}
		// every callback of this packet comes from the same memo entry, hence the same user limit
		cp := cr.commit
		m.c.Inc("gas_bound_checks")
		m.c.Inc("obs_" + cr.cl.app + "_" + ob.Type)
		bound := minU(ob.OuterRemainAtEntry, cp)
		sig := fmt.Sprintf("%s|%s|user=%s", cr.cl.app, ob.Type, cr.cl.user)
		wit := map[string]any{"cell": cr.cl.id(m.max), "limit_seen": ob.LimitSeen, "tx_gas_remaining_at_contract_start": ob.OuterRemainAtEntry, "tx_gas_remaining_at_stack_entry": ob.StackRemainAtEntry, "user_limit": cr.user, "max": m.max, "cap": cp, "tx_gas_wanted": o.GasWanted}
		if ob.LimitSeen > bound {
			c40Cap.violate(m.c, "C40|contract-gas-limit-above-bound|"+sig, fmt.Sprintf("%s: the contract was given a gas limit of %d, more than min(remaining %d, cap(user %d, max %d) = %d)", cr.cl.id(m.max), ob.LimitSeen, ob.OuterRemainAtEntry, cr.user, m.max, cp), wit)
		} else if ob.LimitSeen == bound {
			m.c.Inc("limit_equals_min_remaining_cap")
		} else {
			m.c.Inc("limit_below_min_remaining_cap")
		}
		if ob.LimitSeen > ob.StackRemainAtEntry {
			c40Cap.violate(m.c, "C40|contract-gas-limit-above-remaining|"+sig, fmt.Sprintf("%s: contract gas limit %d exceeds the gas remaining when the stack was entered %d", cr.cl.id(m.max), ob.LimitSeen, ob.StackRemainAtEntry), wit)
		}
		if ob.OuterRemainAtEntry < cp {
			m.c.Inc("limit_capped_by_remaining")
		}
		if ob.OuterConsumedAfter >= ob.OuterConsumedAtEntry {
			charged := ob.OuterConsumedAfter - ob.OuterConsumedAtEntry
			wit["charged"] = charged
			if charged > bound {
				c40Cap.violate(m.c, "C40|callback-charged-above-bound|"+sig, fmt.Sprintf("%s: the transaction was charged %d gas for the callback, more than min(remaining %d, cap %d)", cr.cl.id(m.max), charged, ob.OuterRemainAtEntry, cp), wit)
			}
			if ob.PastLimit && charged == ob.LimitSeen {
				m.c.Inc("out_of_gas_charged_exactly_limit")
			}
		}
		if o.GasUsed > o.GasWanted && o.OK() {
			c40Cap.violate(m.c, "C40|tx-gas-used-above-wanted|"+sig, fmt.Sprintf("successful tx used %d gas of %d", o.GasUsed, o.GasWanted), wit)
		}
	}
}

// contractWrites reports what of the scripted contract's own writes is in the diff.
func (m *c40) contractWrites(cr *cellRun, ch *CBChain, o *CBOutcome, toBefore sdkmath.Int) (keys int, paid int64) {
	prefix := []byte("c40/" + cr.tag + "/")
	for _, kv := range o.Diff {
		if kv.Store == contractStore && bytes.HasPrefix(kv.Key, prefix) && kv.New != nil {
			keys++
		}
	}
	return keys, ch.Bal(ch.Addr(contractTo), sdk.DefaultBondDenom).Sub(toBefore).Int64()
}

func nonCore(d []kit.KV) []kit.KV {
	var out []kit.KV
	for _, kv := range d {
		if kv.Store != "ibc" {
			out = append(out, kv)
		}
	}
	return out
}

// panickedThroughStack: a panic left the application stack after the scripted contract had started.
func panickedThroughStack(o *CBOutcome, ob *CBObs) any {
	for _, f := range o.Frames {
		for _, fo := range f.Obs {
			if fo == ob && f.Panicked != nil {
				return f.Panicked
			}
		}
	}
	return nil
}

type balProbe struct {
	ch    *CBChain
	addr  sdk.AccAddress
	denom string
	pre   sdkmath.Int
}

func probe(ch *CBChain, addr sdk.AccAddress, denom string) balProbe {
	return balProbe{ch, addr, denom, ch.Bal(addr, denom)}
}
func (p balProbe) delta() int64 { return p.ch.Bal(p.addr, p.denom).Sub(p.pre).Int64() }

// judgeSource judges one delivery of MsgAcknowledgement / MsgTimeout carrying a source callback.
// The probes are taken by the caller through closures: we read balances before delivery via snapshots kept in cr.
func (m *c40) judgeSource(cr *cellRun, lc *lifecycle, o *CBOutcome, refund bool, final bool) bool {
	// balances before this delivery are reconstructed from the diff-free probes taken in deliverProbes
	pr := m.lastProbes
	ob := m.scripted(cr, o)
	id := cr.cl.id(m.max)
	commitGone := lc.src.StoreGet("ibc", lc.commitKey()) == nil
	wit := map[string]any{"cell": id, "tx_ok": o.OK(), "tx_log": clip(o.Log), "gas_wanted": o.GasWanted, "gas_used": o.GasUsed, "user_limit": cr.user, "commit_limit": cr.commit}
	if ob == nil {
		if o.OK() {
			cr.note("callback-not-invoked")
			m.c.Inc("source_callback_not_invoked")
			return true
		}
		m.checkFailedTx(cr, o, commitGone, wit)
		cr.note("failed-before-contract")
		return false
	}
	wit["limit_seen"], wit["past_limit"], wit["remaining_at_contract_start"] = ob.LimitSeen, ob.PastLimit, ob.OuterRemainAtEntry
	retryable := ob.LimitSeen < cr.commit
	failing := ob.PastLimit || cr.cl.beh == BehError || cr.cl.beh == BehPanic || cr.cl.beh == BehOogAsError // a swallowed out-of-gas is past the limit as well
	keys, paid := m.contractWrites(cr, lc.src, o, pr.to.pre)
	sigT := fmt.Sprintf("%s|%s|%s", cr.cl.app, cr.cl.typ, cr.cl.beh)
	switch {
	case ob.PastLimit && retryable:
		// the relayer supplied less than the committed limit: the whole transaction must be aborted so that it can be retried
		if o.OK() {
			c40Cap.violate(m.c, "C40|retryable-out-of-gas-not-aborted|"+sigT, fmt.Sprintf("%s: the callback ran out of gas with execution limit %d < commit limit %d but the transaction was committed", id, ob.LimitSeen, cr.commit), wit)
			return true
		}
		m.checkFailedTx(cr, o, commitGone, wit)
		m.c.Inc("src_retryable_oog_aborted")
		cr.note("aborted")
		if final {
			c40Cap.violate(m.c, "C40|abort-with-generous-gas|"+sigT, fmt.Sprintf("%s: aborted as retryable although the transaction had %d gas", id, o.GasWanted), wit)
		}
		return false
	case failing:
		if !o.OK() {
			if p := panickedThroughStack(o, ob); p != nil {
				c40Cap.violate(m.c, "C40|source-callback-failure-aborted-tx|"+sigT, fmt.Sprintf("%s: the failing callback (limit %d, commit %d, past limit %v) aborted the transaction: %v", id, ob.LimitSeen, cr.commit, ob.PastLimit, p), wit)
				return false
			}
			m.checkFailedTx(cr, o, commitGone, wit)
			if final {
				// 10M gas: nothing but the callback's failure can have rejected the acknowledgement / timeout
				c40Cap.violate(m.c, "C40|source-callback-failure-rejected-tx|"+sigT, fmt.Sprintf("%s: the acknowledgement/timeout transaction failed after the callback failed (limit %d, commit %d): %s", id, ob.LimitSeen, cr.commit, clip(o.Log)), wit)
			}
			cr.note("tx-failed-elsewhere")
			return false
		}
		ok := true
		if !commitGone {
			ok = false
			c40Cap.violate(m.c, "C40|packet-not-completed-after-callback-failure|"+sigT, id+": transaction succeeded but the packet commitment is still there", wit)
		}
		if refund && lc.refundTo != nil && (pr.sender.delta() != cr.amt || pr.escrow.delta() != -cr.amt) {
			ok = false
			c40Cap.violate(m.c, "C40|refund-missing-after-callback-failure|"+sigT, fmt.Sprintf("%s: refund of %d expected, sender %+d escrow %+d", id, cr.amt, pr.sender.delta(), pr.escrow.delta()), wit)
		}
		if keys != 0 || paid != 0 {
			ok = false
			if cr.cl.beh == BehOogAsOK {
				// one class of witness; recorded a few times only so that it cannot crowd out other violations
				m.c.Inc("oog_swallowed_as_success_writes_persisted")
				c40Cap.violate(m.c, "C40|out-of-gas-callback-writes-persisted|contract-keeper-returned-nil-past-its-limit", fmt.Sprintf("%s: the callback ran out of gas (meter past its limit %d = commit limit) and the contract keeper returned nil: the callback's writes persisted (%d keys, %d coins) although the callback is reported as failed with out of gas", id, ob.LimitSeen, keys, paid), wit)
			} else {
				c40Cap.violate(m.c, "C40|failed-callback-writes-persisted|"+sigT, fmt.Sprintf("%s: the failing callback's own writes persisted: %d keys, %d coins paid", id, keys, paid), wit)
			}
		}
		if ok {
			m.c.Inc("src_failure_isolated")
			if ob.PastLimit {
				m.c.Inc("src_nonretryable_oog_isolated")
				cr.note("oog-isolated")
			} else {
				cr.note("failure-isolated")
			}
		}
		return true
	default:
		if !o.OK() {
			if p := panickedThroughStack(o, ob); p != nil {
				// a well-behaved callback does not abort the transaction either
				c40Cap.violate(m.c, "C40|source-callback-success-aborted-tx|"+sigT, fmt.Sprintf("%s: transaction aborted from inside the stack although the callback succeeded within its limit: %v", id, p), wit)
				return false
			}
			m.checkFailedTx(cr, o, commitGone, wit)
			cr.note("tx-failed-elsewhere")
			return false
		}
		if !commitGone {
			c40Cap.violate(m.c, "C40|packet-not-completed|"+sigT, id+": transaction succeeded but the packet commitment is still there", wit)
		}
		if refund && lc.refundTo != nil && (pr.sender.delta() != cr.amt || pr.escrow.delta() != -cr.amt) {
			c40Cap.violate(m.c, "C40|refund-missing|"+sigT, fmt.Sprintf("%s: refund of %d expected, sender %+d escrow %+d", id, cr.amt, pr.sender.delta(), pr.escrow.delta()), wit)
		}
		wantPaid := int64(0)
		if cr.keys%2 == 1 {
			wantPaid = contractCoins
		}
		if keys != cr.keys || paid != wantPaid {
			c40Cap.violate(m.c, "C40|successful-callback-writes-missing|"+sigT, fmt.Sprintf("%s: successful callback wrote %d keys / paid %d, diff shows %d / %d", id, cr.keys, wantPaid, keys, paid), wit)
		} else {
			m.c.Inc("ok_callback_persisted")
		}
		cr.note("persisted")
		return true
	}
}

// checkFailedTx: a failed transaction leaves nothing behind and the packet is still pending.
func (m *c40) checkFailedTx(cr *cellRun, o *CBOutcome, commitGone bool, wit map[string]any) {
	if len(o.Diff) != 0 {
		c40Cap.violate(m.c, "C40|failed-tx-changed-state|"+cr.cl.app+"|"+cr.cl.typ, fmt.Sprintf("%s: failed transaction left a state change:%s", cr.cl.id(m.max), diffStr(o.Diff)), wit)
	}
	if commitGone {
		c40Cap.violate(m.c, "C40|failed-tx-completed-packet|"+cr.cl.app+"|"+cr.cl.typ, cr.cl.id(m.max)+": failed transaction removed the packet commitment", wit)
	}
	m.c.Inc("failed_tx_clean")
}

// judgeRecv judges one delivery of MsgRecvPacket carrying a destination callback.
func (m *c40) judgeRecv(cr *cellRun, lc *lifecycle, o *CBOutcome, final bool) bool {
	pr := m.lastProbes
	ob := m.scripted(cr, o)
	id := cr.cl.id(m.max)
	wit := map[string]any{"cell": id, "tx_ok": o.OK(), "tx_log": clip(o.Log), "gas_wanted": o.GasWanted, "gas_used": o.GasUsed, "user_limit": cr.user, "commit_limit": cr.commit}
	sigT := fmt.Sprintf("%s|recv|%s", cr.cl.app, cr.cl.beh)
	if !o.OK() {
		if len(o.Diff) != 0 {
			c40Cap.violate(m.c, "C40|failed-tx-changed-state|"+cr.cl.app+"|recv", fmt.Sprintf("%s: failed transaction left a state change:%s", id, diffStr(o.Diff)), wit)
		}
		if ob == nil {
			cr.note("failed-before-contract")
			return false
		}
		retryable := ob.LimitSeen < cr.commit
		if ob.PastLimit && retryable {
			m.c.Inc("dest_retryable_oog_aborted")
			cr.note("aborted")
			if final {
				c40Cap.violate(m.c, "C40|abort-with-generous-gas|"+sigT, fmt.Sprintf("%s: aborted as retryable although the transaction had %d gas", id, o.GasWanted), wit)
			}
			return false
		}
		if p := panickedThroughStack(o, ob); p != nil {
			c40Cap.violate(m.c, "C40|dest-callback-failure-aborted-tx|"+sigT, fmt.Sprintf("%s: the destination callback (limit %d, commit %d, past limit %v) aborted the receive instead of producing an error acknowledgement: %v", id, ob.LimitSeen, cr.commit, ob.PastLimit, p), wit)
			return false
		}
		if final && (ob.PastLimit || cr.cl.beh == BehError || cr.cl.beh == BehPanic || cr.cl.beh == BehOogAsError) {
			c40Cap.violate(m.c, "C40|dest-callback-failure-rejected-receive|"+sigT, fmt.Sprintf("%s: the receive transaction failed after the destination callback failed instead of writing an error acknowledgement: %s", id, clip(o.Log)), wit)
		}
		cr.note("tx-failed-elsewhere")
		return false
	}
	success, err := lc.parseRecv(o)
	if err != nil {
		m.c.Inconcl(id + ": no acknowledgement in receive events: " + err.Error())
		return true
	}
	if ob == nil {
		cr.note("callback-not-invoked")
		m.c.Inc("dest_callback_not_invoked")
		return true
	}
	wit["limit_seen"], wit["past_limit"], wit["ack_success"] = ob.LimitSeen, ob.PastLimit, success
	failing := ob.PastLimit || cr.cl.beh == BehError || cr.cl.beh == BehPanic || cr.cl.beh == BehOogAsError // a swallowed out-of-gas is past the limit as well
	keys, paid := m.contractWrites(cr, lc.dst, o, pr.to.pre)
	app := nonCore(o.Diff)
	if failing {
		ok := true
		if success {
			ok = false
			c40Cap.violate(m.c, "C40|dest-callback-failed-but-success-ack|"+sigT, id+": the destination callback failed but the packet was acknowledged as success", wit)
		}
		if len(app) != 0 || pr.credit.delta() != 0 || keys != 0 || paid != 0 {
			ok = false
			c40Cap.violate(m.c, "C40|app-state-changed-after-dest-callback-failure|"+sigT, fmt.Sprintf("%s: error acknowledgement expected with no application state change, but:%s (credited %+d)", id, diffStr(app), pr.credit.delta()), wit)
		}
		if ok {
			m.c.Inc("dest_failure_error_ack_no_app_change")
			cr.note("error-ack")
		}
		return true
	}
	if !success {
		c40Cap.violate(m.c, "C40|dest-callback-ok-but-error-ack|"+sigT, id+": the destination callback succeeded within its limit but the packet was acknowledged as error", wit)
		return true
	}
	wantPaid := int64(0)
	if cr.keys%2 == 1 {
		wantPaid = contractCoins
	}
	if pr.credit.delta() != lc.recvAmt {
		c40Cap.violate(m.c, "C40|recv-effects-missing|"+sigT, fmt.Sprintf("%s: receiver credited %+d, expected %+d", id, pr.credit.delta(), lc.recvAmt), wit)
	}
	if keys != cr.keys || paid != wantPaid {
		c40Cap.violate(m.c, "C40|successful-callback-writes-missing|"+sigT, fmt.Sprintf("%s: successful callback wrote %d keys / paid %d, diff shows %d / %d", id, cr.keys, wantPaid, keys, paid), wit)
	} else {
		m.c.Inc("ok_callback_persisted")
	}
	cr.note("persisted")
	return true
}

// judgeSend judges one delivery of the user's send transaction carrying a source callback.
func (m *c40) judgeSend(cr *cellRun, lc *lifecycle, o *CBOutcome) bool {
	pr := m.lastProbes
	ob := m.scripted(cr, o)
	id := cr.cl.id(m.max)
	wit := map[string]any{"cell": id, "tx_ok": o.OK(), "tx_log": clip(o.Log), "gas_wanted": o.GasWanted}
	if !o.OK() {
		if len(o.Diff) != 0 {
			c40Cap.violate(m.c, "C40|failed-tx-changed-state|"+cr.cl.app+"|send", fmt.Sprintf("%s: failed transaction left a state change:%s", id, diffStr(o.Diff)), wit)
		}
		if ob == nil {
			cr.note("failed-before-contract")
			return false
		}
		failing := ob.PastLimit || cr.cl.beh == BehError || cr.cl.beh == BehPanic || cr.cl.beh == BehOogAsError // a swallowed out-of-gas is past the limit as well
		if failing {
			m.c.Inc("send_failure_rejected")
			cr.note("send-rejected")
			// a failing send callback rejects the send: retrying with more gas only helps when gas was the reason
			return !(ob.PastLimit && ob.LimitSeen < cr.commit)
		}
		cr.note("tx-failed-elsewhere")
		return false
	}
	if ob == nil {
		cr.note("callback-not-invoked")
		return true
	}
	keys, paid := m.contractWrites(cr, lc.src, o, pr.to.pre)
	failing := ob.PastLimit || cr.cl.beh == BehError || cr.cl.beh == BehPanic || cr.cl.beh == BehOogAsError // a swallowed out-of-gas is past the limit as well
	if failing {
		// not covered by the statement; recorded
		m.c.Inc("send_failure_but_tx_ok")
		cr.note("send-failure-tx-ok")
		return true
	}
	wantPaid := int64(0)
	if cr.keys%2 == 1 {
		wantPaid = contractCoins
	}
	if keys != cr.keys || paid != wantPaid {
		c40Cap.violate(m.c, "C40|successful-callback-writes-missing|"+cr.cl.app+"|send", fmt.Sprintf("%s: successful callback wrote %d keys / paid %d, diff shows %d / %d", id, cr.keys, wantPaid, keys, paid), wit)
	} else {
		m.c.Inc("ok_callback_persisted")
	}
	cr.note("persisted")
	return true
}

// ---------------------------------------------------------------------------------------------
// the three applications

func (m *c40) lifeV1(cl cell, cr *cellRun, memo string) *lifecycle {
	a, b, p := m.a, m.b, m.p1
	port, chA, chB := p.EndpointA.ChannelConfig.PortID, p.EndpointA.ChannelID, p.EndpointB.ChannelID
	lc := &lifecycle{src: a, dst: b, sender: a.Acct(1)}
	receiver := b.Addr(2).String()
	if cl.typ == "ackerr" {
		receiver = "not-a-valid-address"
	}
	th := clienttypes.NewHeight(1, 10_000_000)
	if cl.typ == "timeout" {
		th = clienttypes.GetSelfHeight(b.GetContext())
	}
	lc.sendMsg = transfertypes.NewMsgTransfer(port, chA, sdk.NewCoin(sdk.DefaultBondDenom, sdkmath.NewInt(cr.amt)), a.Addr(1).String(), receiver, th, 0, memo)
	var pk channeltypes.Packet
	var ackBz []byte
	lc.parseSend = func(o *CBOutcome) (err error) {
		pk, err = ibctesting.ParseV1PacketFromEvents(o.Res.Events)
		return err
	}
	lc.commitKey = func() []byte { return host.PacketCommitmentKey(pk.SourcePort, pk.SourceChannel, pk.Sequence) }
	lc.recvMsg = func() sdk.Msg {
		proof, ph := a.QueryProof(lc.commitKey())
		return channeltypes.NewMsgRecvPacket(pk, proof, ph, b.Addr(8).String())
	}
	lc.parseRecv = func(o *CBOutcome) (bool, error) {
		bz, err := ibctesting.ParseAckFromEvents(o.Res.Events)
		if err != nil {
			return false, err
		}
		ackBz = bz
		var ack channeltypes.Acknowledgement
		if err := transfertypes.ModuleCdc.UnmarshalJSON(bz, &ack); err != nil {
			return false, err
		}
		return ack.Success(), nil
	}
	lc.ackMsg = func() sdk.Msg {
		proof, ph := b.QueryProof(host.PacketAcknowledgementKey(pk.DestinationPort, pk.DestinationChannel, pk.Sequence))
		return channeltypes.NewMsgAcknowledgement(pk, ackBz, proof, ph, a.Addr(8).String())
	}
	lc.timeoutMsg = func() sdk.Msg {
		proof, ph := b.QueryProof(host.PacketReceiptKey(pk.DestinationPort, pk.DestinationChannel, pk.Sequence))
		next, _ := b.App.IBCKeeper.ChannelKeeper.GetNextSequenceRecv(b.GetContext(), port, chB)
		return channeltypes.NewMsgTimeout(pk, next, proof, ph, a.Addr(8).String())
	}
	lc.refundTo, lc.escrow, lc.refundDenom = a.Addr(1), transfertypes.GetEscrowAddress(port, chA), sdk.DefaultBondDenom
	lc.recvCredit, lc.recvAmt = b.Addr(2), cr.amt
	lc.recvDenom = func() string {
		return transfertypes.NewDenom(sdk.DefaultBondDenom, transfertypes.NewHop(port, chB)).IBCDenom()
	}
	lc.advanceTimeout = func() { b.Commit(); b.Commit() }
	lc.updateSrc = func() { must(p.EndpointA.UpdateClient()) }
	lc.updateDst = func() { must(p.EndpointB.UpdateClient()) }
	return lc
}

func must(err error) {
	if err != nil {
		panic(kit.Abort{Msg: err.Error()})
	}
}

func (m *c40) v2Common(lc *lifecycle, p *ibctesting.Path, pk *channeltypesv2.Packet) {
	a, b := m.a, m.b
	var ack channeltypesv2.Acknowledgement
	lc.parseSend = func(o *CBOutcome) (err error) {
		*pk, err = ibctesting.ParseV2PacketFromEvents(o.Res.Events)
		return err
	}
	lc.commitKey = func() []byte { return hostv2.PacketCommitmentKey(pk.SourceClient, pk.Sequence) }
	lc.recvMsg = func() sdk.Msg {
		proof, ph := a.QueryProof(lc.commitKey())
		return channeltypesv2.NewMsgRecvPacket(*pk, proof, ph, b.Addr(8).String())
	}
	lc.parseRecv = func(o *CBOutcome) (bool, error) {
		bz, err := ibctesting.ParseAckV2FromEvents(o.Res.Events)
		if err != nil {
			return false, err
		}
		var k channeltypesv2.Acknowledgement
		if err := proto.Unmarshal(bz, &k); err != nil || len(k.AppAcknowledgements) != 1 {
			return false, fmt.Errorf("undecodable acknowledgement")
		}
		ack = k
		return !bytes.Equal(k.AppAcknowledgements[0], channeltypesv2.ErrorAcknowledgement[:]), nil
	}
	lc.ackMsg = func() sdk.Msg {
		proof, ph := b.QueryProof(hostv2.PacketAcknowledgementKey(pk.DestinationClient, pk.Sequence))
		return channeltypesv2.NewMsgAcknowledgement(*pk, ack, proof, ph, a.Addr(8).String())
	}
	lc.timeoutMsg = func() sdk.Msg {
		proof, ph := b.QueryProof(hostv2.PacketReceiptKey(pk.DestinationClient, pk.Sequence))
		return channeltypesv2.NewMsgTimeout(*pk, proof, ph, a.Addr(8).String())
	}
	lc.advanceTimeout = func() {
		m.w.Coord.IncrementTimeBy(3 * time.Minute)
		b.Commit()
		b.Commit()
	}
	lc.updateSrc = func() { must(p.EndpointA.UpdateClient()) }
	lc.updateDst = func() { must(p.EndpointB.UpdateClient()) }
}

func (m *c40) v2Timeout(cl cell) uint64 {
	if cl.typ == "timeout" {
		return uint64(m.w.Coord.CurrentTime.Add(45 * time.Second).Unix())
	}
	return uint64(m.w.Coord.CurrentTime.Add(2 * time.Hour).Unix())
}

func (m *c40) lifeV2(cl cell, cr *cellRun, memo string) *lifecycle {
	a, b, p := m.a, m.b, m.p2
	lc := &lifecycle{src: a, dst: b, sender: a.Acct(1)}
	receiver := b.Addr(2).String()
	if cl.typ == "ackerr" {
		receiver = "not-a-valid-address"
	}
	d := transfertypes.NewFungibleTokenPacketData(sdk.DefaultBondDenom, fmt.Sprint(cr.amt), a.Addr(1).String(), receiver, memo)
	bz, err := proto.Marshal(&d)
	must(err)
	payload := channeltypesv2.NewPayload(transfertypes.PortID, transfertypes.PortID, transfertypes.V1, transfertypes.EncodingProtobuf, bz)
	lc.sendMsg = channeltypesv2.NewMsgSendPacket(p.EndpointA.ClientID, m.v2Timeout(cl), a.Addr(1).String(), payload)
	pk := &channeltypesv2.Packet{}
	m.v2Common(lc, p, pk)
	lc.refundTo, lc.escrow, lc.refundDenom = a.Addr(1), transfertypes.GetEscrowAddress(transfertypes.PortID, p.EndpointA.ClientID), sdk.DefaultBondDenom
	lc.recvCredit, lc.recvAmt = b.Addr(2), cr.amt
	lc.recvDenom = func() string {
		return transfertypes.NewDenom(sdk.DefaultBondDenom, transfertypes.NewHop(transfertypes.PortID, p.EndpointB.ClientID)).IBCDenom()
	}
	return lc
}

func (m *c40) lifeGMP(cl cell, cr *cellRun, memo string) *lifecycle {
	a, b, p := m.a, m.b, m.p2
	lc := &lifecycle{src: a, dst: b, sender: a.Acct(1)}
	payload, err := gmptypes.SerializeCosmosTx(b.App.AppCodec(), []proto.Message{banktypes.NewMsgSend(m.gmpAcct, b.Addr(3), sdk.NewCoins(sdk.NewCoin(sdk.DefaultBondDenom, sdkmath.NewInt(cr.amt))))})
	must(err)
	lc.sendMsg = gmptypes.NewMsgSendCall(p.EndpointA.ClientID, a.Addr(1).String(), "", payload, []byte("c40"), m.v2Timeout(cl), gmptypes.EncodingProtobuf, memo)
	pk := &channeltypesv2.Packet{}
	m.v2Common(lc, p, pk)
	lc.recvCredit, lc.recvAmt = b.Addr(3), cr.amt
	lc.recvDenom = func() string { return sdk.DefaultBondDenom }
	return lc
}
