package gmpcb

import (
	"crypto/sha256"
	"encoding/binary"
	"fmt"
	"strings"

	"verif/harness/kit"
)

// Triple is one (destination client, sender, salt) account identifier.
type Triple struct {
	Client string
	Sender string
	Salt   []byte
}

// Key is an injective rendering of the triple (every field carries its own length).
func (t Triple) Key() string {
	return fmt.Sprintf("%d:%s|%d:%s|%d:%x", len(t.Client), t.Client, len(t.Sender), t.Sender, len(t.Salt), t.Salt)
}

func (t Triple) short() string {
	cl := func(s string) string {
		if len(s) > 40 {
			return fmt.Sprintf("%q…(%d)", s[:40], len(s))
		}
		return fmt.Sprintf("%q", s)
	}
	return fmt.Sprintf("(%s, %s, salt %s)", cl(t.Client), cl(t.Sender), cl(string(t.Salt)))
}

// ModelAddr is the reference derivation written from the documented pre-image layout
//
//	sha256( sha256("module") || "gmp-accounts" || 0x00 || be64(len c) c || be64(len s) s || be64(len salt) salt )
//
// (the SDK "module address with one derivation key" construction over the length-prefixed triple).
func ModelAddr(t Triple) []byte {
	th := sha256.Sum256([]byte("module"))
	h := sha256.New()
	h.Write(th[:])
	h.Write([]byte("gmp-accounts"))
	h.Write([]byte{0})
	lp := func(b []byte) {
		var l [8]byte
		binary.BigEndian.PutUint64(l[:], uint64(len(b)))
		h.Write(l[:])
		h.Write(b)
	}
	lp([]byte(t.Client))
	lp([]byte(t.Sender))
	lp(t.Salt)
	return h.Sum(nil)
}

// idCharset: characters that are valid in a client identifier, so that every cut of a string made of them
// is a valid client identifier (if long enough) and a valid sender.
const idCharset = "abcdefghijklmnopqrstuvwxyzABCDEFGHIJKLMNOPQRSTUVWXYZ0123456789._+-#[]<>"

func randID(r *kit.Rng, n int) string {
	var sb strings.Builder
	for i := 0; i < n; i++ {
		sb.WriteByte(idCharset[r.Intn(len(idCharset))])
	}
	return sb.String()
}

func be64(n int) []byte {
	var l [8]byte
	binary.BigEndian.PutUint64(l[:], uint64(n))
	return l[:]
}

func le64(n int) []byte {
	var l [8]byte
	binary.LittleEndian.PutUint64(l[:], uint64(n))
	return l[:]
}

func cat(parts ...[]byte) []byte {
	var out []byte
	for _, p := range parts {
		out = append(out, p...)
	}
	return out
}

// Family is a set of distinct triples constructed so that some weaker encoding of the triple (plain
// concatenation, partly prefixed, short or wrapped length prefixes) coincides for several members.
type Family struct {
	Name    string
	Shape   string
	Triples []Triple
}

// clientIDs are realistic destination clients, including pairs where one is a prefix of the other.
var clientIDs = []string{"07-tendermint-0", "07-tendermint-1", "07-tendermint-10", "07-tendermint-100", "07-tendermint-101", "08-wasm-7", "08-wasm-77", "06-solomachine-3", "10-attestations-2", "client-12"}

// GenFamily produces one family of kind k (0..NFamilies-1) from r.
const NFamilies = 8

func GenFamily(r *kit.Rng, k int) Family {
	switch k {
	case 0:
		// every cut of one string into (client, sender, salt): all members share the plain concatenation
		n := 12 + r.Intn(40)
		s := randID(r, n)
		f := Family{Name: "cuts-of-one-string", Shape: fmt.Sprintf("n=%d", n/8)}
		for i := 9; i < n && i <= 64; i++ {
			for j := i + 1; j <= n; j++ {
				if r.Chance(1, 3) || j == n || j == i+1 {
					f.Triples = append(f.Triples, Triple{s[:i], s[i:j], []byte(s[j:])})
				}
			}
		}
		return f
	case 1:
		// realistic identifiers: digits moving between client id and sender, sender and salt ("ab","c") vs ("a","bc")
		base := kit.Pick(r, []string{"07-tendermint-1", "08-wasm-7", "client-12"})
		digits := fmt.Sprintf("%d", r.Intn(1000))
		snd := "cosmos1" + strings.ToLower(randID(r, 10))
		salt := randID(r, r.Intn(6))
		f := Family{Name: "digits-shift", Shape: fmt.Sprintf("d=%d,salt=%d", len(digits), len(salt))}
		all := digits + snd
		for i := 0; i <= len(digits); i++ {
			for j := 0; j <= len(salt); j++ {
				f.Triples = append(f.Triples, Triple{base + all[:i], all[i:] + salt[:j], []byte(salt[j:])})
			}
		}
		return f
	case 2:
		// salts that contain the other fields, empty salts, fields repeated
		c := kit.Pick(r, clientIDs)
		s := "cosmos1" + strings.ToLower(randID(r, 6+r.Intn(30)))
		x := r.Bytes(r.Intn(5))
		f := Family{Name: "salt-contains-fields", Shape: fmt.Sprintf("x=%d", len(x))}
		f.Triples = []Triple{
			{c, s, nil}, {c, s, x}, {c, s, []byte(s)}, {c, s, []byte(c)}, {c, s, []byte(c + s)}, {c, s, []byte(s + c)},
			{c, s + c, []byte(s)}, {c, s + s, nil}, {c, s, cat([]byte(s), x)}, {c, s + string(x), nil}, {c, s + string(x), x},
			{c, s + c + s, nil}, {c, c, []byte(s)}, {c, c + s, nil}, {c, c, nil}, {c, c, []byte(c)}, {c + c, s, nil}, {c, c + c, nil},
		}
		if len(c+s) <= 64 {
			f.Triples = append(f.Triples, Triple{c + s, s, nil}, Triple{c + s, c, []byte(s)})
		}
		return dedup(f)
	case 3:
		// embedded big-endian length words: members agree when the sender and/or salt prefix is dropped
		c := kit.Pick(r, clientIDs)
		s := []byte("cosmos1" + strings.ToLower(randID(r, 4+r.Intn(12))))
		x := r.Bytes(r.Intn(9))
		y := r.Bytes(1 + r.Intn(4))
		f := Family{Name: "embedded-be64-lengths", Shape: fmt.Sprintf("x=%d,y=%d", len(x), len(y))}
		f.Triples = []Triple{
			{c, string(s), x},
			{c, string(cat(s, be64(len(x)), x)), nil},
			{c, string(cat(s, be64(len(x)))), x},
			{c, string(s), cat(be64(len(x)), x)},
			{c, string(cat(s, be64(len(x)), x, be64(0))), nil},
			{c, string(cat(s, be64(len(x)), x)), be64(0)},
			// collide when only the sender's prefix is dropped: c s L(x1) [y L(x) x]  ==  c [s L(x1) y] L(x) x
			{c, string(s), cat(y, be64(len(x)), x)},
			{c, string(cat(s, be64(len(y)+8+len(x)), y)), x},
			{c, string(cat(s, be64(len(y)), y)), be64(0)},
			{c, string(s), cat(y, be64(8), be64(0))},
			// client-prefix-dropped collisions are impossible through the identifier charset; cover sender/salt swaps
			{c, string(cat(be64(len(s)), s)), x},
			{c, string(cat(be64(len(c)), []byte(c), be64(len(s)), s)), x},
		}
		return dedup(f)
	case 4:
		// other length encodings embedded (1 byte, little endian, uvarint, decimal, separators)
		c := kit.Pick(r, clientIDs)
		s := []byte("cosmos1" + strings.ToLower(randID(r, 4+r.Intn(12))))
		x := r.Bytes(r.Intn(9))
		f := Family{Name: "embedded-other-length-encodings", Shape: fmt.Sprintf("x=%d", len(x))}
		seps := [][]byte{{byte(len(x))}, le64(len(x)), []byte(fmt.Sprintf("%d", len(x))), {0}, {'/'}, {'|'}, {0, 0, 0, byte(len(x))}}
		f.Triples = []Triple{{c, string(s), x}, {c, string(cat(s, x)), nil}}
		for _, sp := range seps {
			f.Triples = append(f.Triples,
				Triple{c, string(cat(s, sp, x)), nil}, Triple{c, string(cat(s, sp)), x}, Triple{c, string(s), cat(sp, x)})
		}
		return dedup(f)
	case 5:
		// long fields whose lengths differ by multiples of 256 / 65536 (wrapped or truncated length prefixes):
		// A = (c, S, X) with len S = 256+m and B = (c, S[:m], S[m+1:] ++ [len X] ++ X) where byte S[m] = len(salt_B) mod 256
		c := kit.Pick(r, clientIDs)
		m := 1 + r.Intn(40)
		wrap := kit.Pick(r, []int{256, 256, 512, 65536})
		S := []byte(strings.ToLower(randID(r, wrap+m)))
		X := r.Bytes(r.Intn(6))
		saltB := cat(S[m+1:], []byte{byte(len(X))}, X)
		S[m] = byte(len(saltB) % 256)
		saltB = cat(S[m+1:], []byte{byte(len(X))}, X)
		f := Family{Name: "length-wrap", Shape: fmt.Sprintf("wrap=%d", wrap)}
		f.Triples = []Triple{
			{c, string(S), X}, {c, string(S[:m]), saltB}, {c, string(S[:m]), X}, {c, string(S[:m]), cat(S[m:], X)},
			{c, string(S[:wrap]), X}, {c, string(S[:wrap]), cat(S[wrap:], X)}, {c, string(S), nil},
		}
		return dedup(f)
	case 6:
		// near-identical triples: one field changed by one byte / one bit / case / trailing NUL or space
		c := kit.Pick(r, clientIDs)
		s := "cosmos1" + strings.ToLower(randID(r, 8+r.Intn(30)))
		x := r.Bytes(1 + r.Intn(32))
		f := Family{Name: "one-byte-neighbours", Shape: fmt.Sprintf("x=%d", len(x)/8)}
		f.Triples = []Triple{{c, s, x}, {c, s + "\x00", x}, {c, s, cat(x, []byte{0})}, {c, s + " ", x}, {c, " " + s, x}, {c, strings.ToUpper(s), x},
			{c, s, x[:len(x)-1]}, {c, s[:len(s)-1], x}, {c, s[:len(s)-1], cat([]byte{s[len(s)-1]}, x)}}
		for i := 0; i < 4; i++ {
			y := append([]byte(nil), x...)
			y[r.Intn(len(y))] ^= 1 << uint(r.Intn(8))
			f.Triples = append(f.Triples, Triple{c, s, y})
		}
		for _, c2 := range clientIDs {
			f.Triples = append(f.Triples, Triple{c2, s, x})
		}
		return dedup(f)
	default:
		// unstructured random triples (birthday search over everything seen)
		f := Family{Name: "random", Shape: "rnd"}
		for i := 0; i < 24; i++ {
			var c string
			if r.Bool() {
				c = kit.Pick(r, clientIDs)
			} else {
				c = randID(r, 9+r.Intn(56))
			}
			var s string
			switch r.Intn(3) {
			case 0:
				s = "cosmos1" + strings.ToLower(randID(r, 38))
			case 1:
				s = "0x" + fmt.Sprintf("%x", r.Bytes(20))
			default:
				s = string(r.Bytes(1+r.Intn(64))) + "a"
			}
			f.Triples = append(f.Triples, Triple{c, s, r.Bytes(kit.Pick(r, []int{0, 0, 1, 8, 31, 32, 33, 64}))})
		}
		return dedup(f)
	}
}

func dedup(f Family) Family {
	seen := map[string]struct{}{}
	out := f.Triples[:0]
	for _, t := range f.Triples {
		k := t.Key()
		if _, ok := seen[k]; ok {
			continue
		}
		seen[k] = struct{}{}
		out = append(out, t)
	}
	f.Triples = out
	return f
}
