package rl

import (
	"fmt"
	"math/big"
	"sort"
	"strings"
	"time"

	sdkmath "cosmossdk.io/math"

	sdk "github.com/cosmos/cosmos-sdk/types"
	authtypes "github.com/cosmos/cosmos-sdk/x/auth/types"
	govtypes "github.com/cosmos/cosmos-sdk/x/gov/types"

	pfmtypes "github.com/cosmos/ibc-go/v11/modules/apps/packet-forward-middleware/types"
	rlkeeper "github.com/cosmos/ibc-go/v11/modules/apps/rate-limiting/keeper"
	rltypes "github.com/cosmos/ibc-go/v11/modules/apps/rate-limiting/types"
	transfertypes "github.com/cosmos/ibc-go/v11/modules/apps/transfer/types"
	channeltypes "github.com/cosmos/ibc-go/v11/modules/core/04-channel/types"

	"verif/harness/kit"
	"verif/harness/rl/model/ratelimit"
)

var authority = authtypes.NewModuleAddress(govtypes.ModuleName).String()

const users = 4 // accounts 0..3 send and receive; 5..9 relay

func tokOf(chain int) string { return "utok" + string(rune('a'+chain)) }

// Start funds the user accounts with a native token of modest supply (so that percent quotas bite) and aligns
// the model with the chain's clock.
func (s *Sim) Start() {
	for i, ch := range s.Ch {
		for a := 0; a < users; a++ {
			ch.Fund(ch.Addr(a), tokOf(i), 25000)
		}
	}
	// The test genesis runs InitChain with a zero block time, which leaves the module's hour epoch without a start
	// time (its BeginBlocker then never starts an epoch). Give every chain the epoch a genesis with a real time
	// would have: number = hours since midnight (+24 so that it is non-zero), started on the hour.
	for _, ch := range s.Ch {
		c := ch
		now := s.W.Coord.CurrentTime
		c.InBlock(func(ctx sdk.Context) error {
			return c.Sim.RateLimitKeeper.SetHourEpoch(ctx, rltypes.HourEpoch{EpochNumber: uint64(24 + now.Hour()), EpochStartTime: now.Truncate(time.Hour), Duration: time.Hour, EpochStartHeight: ctx.BlockHeight()})
		})
		c.AddNoise(rltypes.StoreKey, rltypes.HourEpochKey)
	}
	for i, ch := range s.Ch {
		he, _ := ch.Sim.RateLimitKeeper.GetHourEpoch(ch.GetContext())
		s.M[i].Epoch = he.EpochNumber
		s.epoch0[i] = he.EpochNumber
		s.snapSupply(i)
	}
}

func (s *Sim) idsOn(chain int) []string {
	seen := map[string]bool{}
	var out []string
	for _, l := range s.Lanes {
		if sd := l.side(chain); sd >= 0 && !seen[l.Ends[sd].ID] {
			seen[l.Ends[sd].ID] = true
			out = append(out, l.Ends[sd].ID)
		}
	}
	return out
}

// catchUp commits empty blocks until the module's hour epoch is not behind the clock any more, so that a
// keeper-level call made "between blocks" is never in the same block as a window reset.
func (s *Sim) catchUp(chain int) {
	ch := s.Ch[chain]
	for i := 0; ; i++ {
		he, err := ch.Sim.RateLimitKeeper.GetHourEpoch(ch.GetContext())
		if err != nil || !s.W.Coord.CurrentTime.After(he.EpochStartTime.Add(he.Duration)) {
			break
		}
		if i >= 40 {
			s.C.Violate("C41|hour-epoch-does-not-advance", fmt.Sprintf("chain %d: epoch %d started %s, clock %s, 40 blocks later still behind", chain, he.EpochNumber, he.EpochStartTime, s.W.Coord.CurrentTime), nil)
			break
		}
		ch.Commit()
	}
	s.syncEpoch(chain)
}

// admin runs one message of the rate-limit msg server as the authority in its own block.
func (s *Sim) admin(chain int, what string, f func(ctx sdk.Context, srv rltypes.MsgServer) error) bool {
	s.catchUp(chain)
	ch := s.Ch[chain]
	srv := rlkeeper.NewMsgServerImpl(ch.Sim.RateLimitKeeper)
	o := ch.InBlock(func(ctx sdk.Context) error { return f(ctx, srv) })
	s.log("admin chain%d %s ok=%v %s", chain, what, o.Err == nil, clip(o.Log, 90))
	if o.Err != nil && len(o.DiffIn("ratelimit")) != 0 {
		s.C.Violate("C41|rejected-admin-message-changed-state", fmt.Sprintf("chain %d %s failed (%s) but changed the rate-limit store:%s", chain, what, clip(o.Log, 80), o.DiffString()), nil)
	}
	return o.Err == nil
}

func pct(x int64) sdkmath.Int { return sdkmath.NewInt(x) }

func (s *Sim) genQuota() (send, recv int64, hours uint64) {
	g := func() int64 {
		switch s.R.Intn(8) {
		case 0:
			return 0
		case 1:
			return 100
		case 2:
			return 1
		default:
			return int64(2 + s.R.Intn(40))
		}
	}
	send, recv = g(), g()
	if send == 0 && recv == 0 {
		recv = int64(5 + s.R.Intn(30))
	}
	return send, recv, uint64(1 + s.R.Intn(3))
}

func (s *Sim) AddLimit(chain int, k ratelimit.Key, send, recv int64, hours uint64) bool {
	ok := s.admin(chain, fmt.Sprintf("add %s %d/%d/%dh", k, send, recv, hours), func(ctx sdk.Context, srv rltypes.MsgServer) error {
		_, err := srv.AddRateLimit(ctx, &rltypes.MsgAddRateLimit{Signer: authority, Denom: k.Denom, ChannelOrClientId: k.Chan, MaxPercentSend: pct(send), MaxPercentRecv: pct(recv), DurationHours: hours})
		return err
	})
	if ok {
		s.M[chain].Add(k, send, recv, hours, s.supplyOf(chain, k.Denom))
		s.C.Inc("admin_add")
	}
	s.evs = s.evs[:0]
	s.compare(chain, "admin-add")
	return ok
}

func (s *Sim) UpdateLimit(chain int, k ratelimit.Key, send, recv int64, hours uint64) bool {
	ok := s.admin(chain, fmt.Sprintf("update %s %d/%d/%dh", k, send, recv, hours), func(ctx sdk.Context, srv rltypes.MsgServer) error {
		_, err := srv.UpdateRateLimit(ctx, &rltypes.MsgUpdateRateLimit{Signer: authority, Denom: k.Denom, ChannelOrClientId: k.Chan, MaxPercentSend: pct(send), MaxPercentRecv: pct(recv), DurationHours: hours})
		return err
	})
	if ok {
		s.M[chain].Update(k, send, recv, hours, s.supplyOf(chain, k.Denom))
		s.C.Inc("admin_update")
	}
	s.evs = s.evs[:0]
	s.compare(chain, "admin-update")
	return ok
}

func (s *Sim) RemoveLimit(chain int, k ratelimit.Key) bool {
	ok := s.admin(chain, fmt.Sprintf("remove %s", k), func(ctx sdk.Context, srv rltypes.MsgServer) error {
		_, err := srv.RemoveRateLimit(ctx, &rltypes.MsgRemoveRateLimit{Signer: authority, Denom: k.Denom, ChannelOrClientId: k.Chan})
		return err
	})
	if ok {
		s.M[chain].Remove(k)
		s.C.Inc("admin_remove")
	}
	s.evs = s.evs[:0]
	s.compare(chain, "admin-remove")
	return ok
}

func (s *Sim) ResetLimit(chain int, k ratelimit.Key) bool {
	ok := s.admin(chain, fmt.Sprintf("reset %s", k), func(ctx sdk.Context, srv rltypes.MsgServer) error {
		_, err := srv.ResetRateLimit(ctx, &rltypes.MsgResetRateLimit{Signer: authority, Denom: k.Denom, ChannelOrClientId: k.Chan})
		return err
	})
	if ok {
		s.M[chain].Reset(k, s.supplyOf(chain, k.Denom), "reset")
		s.C.Inc("admin_reset")
	}
	s.evs = s.evs[:0]
	s.compare(chain, "admin-reset")
	return ok
}

// limitableDenoms: denominations with supply on the chain that traffic of this workload can carry.
func (s *Sim) limitableDenoms(chain int) []string {
	var out []string
	for _, d := range sortedKeys(s.supply[chain]) {
		if d == sdk.DefaultBondDenom || s.supply[chain][d].Sign() == 0 {
			continue
		}
		if strings.HasPrefix(d, "utok") || strings.HasPrefix(d, "ibc/") {
			out = append(out, d)
		}
	}
	return out
}

func (s *Sim) opAdmin() string {
	chain := s.R.Intn(len(s.Ch))
	m := s.M[chain]
	keys := m.Keys()
	k := s.R.Intn(100)
	switch {
	case len(keys) == 0 || (k < 45 && len(keys) < 10):
		ds := s.limitableDenoms(chain)
		if len(ds) == 0 {
			return ""
		}
		key := ratelimit.Key{Denom: kit.Pick(s.R, ds), Chan: kit.Pick(s.R, s.idsOn(chain))}
		// prefer paths that really carry traffic
		var busy []ratelimit.Key
		for uk := range s.uncounted[chain] {
			if m.Limits[uk] == nil && s.supplyOf(chain, uk.Denom).Sign() > 0 {
				busy = append(busy, uk)
			}
		}
		sort.Slice(busy, func(i, j int) bool { return busy[i].String() < busy[j].String() })
		if len(busy) > 0 && s.R.Intn(10) < 8 {
			key = kit.Pick(s.R, busy)
		}
		a, b, h := s.genQuota()
		if s.AddLimit(chain, key, a, b, h) {
			return "add"
		}
		return "add-rej"
	case k < 68:
		a, b, h := s.genQuota()
		if s.UpdateLimit(chain, kit.Pick(s.R, keys), a, b, h) {
			return "update"
		}
		return "update-rej"
	case k < 80:
		if s.RemoveLimit(chain, kit.Pick(s.R, keys)) {
			return "remove"
		}
		return "remove-rej"
	default:
		if s.ResetLimit(chain, kit.Pick(s.R, keys)) {
			return "reset"
		}
		return "reset-rej"
	}
}

// opLists toggles a whitelisted (sender, receiver) pair or a blacklisted denomination (keeper level: the module has
// no message for them).
func (s *Sim) opLists() string {
	chain := s.R.Intn(len(s.Ch))
	ch := s.Ch[chain]
	m := s.M[chain]
	s.catchUp(chain)
	if s.R.Intn(3) > 0 {
		// pairs of user accounts on adjacent chains, either direction
		l := s.Lanes[s.R.Intn(len(s.Lanes))]
		sd := s.R.Intn(2)
		snd := s.Ch[l.Ends[sd].Chain].Addr(s.R.Intn(users)).String()
		rcv := s.Ch[l.Ends[1-sd].Chain].Addr(s.R.Intn(users)).String()
		key := snd + "\x00" + rcv
		if m.White[key] {
			ch.InBlock(func(ctx sdk.Context) error {
				ch.Sim.RateLimitKeeper.RemoveWhitelistedAddressPair(ctx, snd, rcv)
				return nil
			})
			delete(m.White, key)
			s.log("chain%d whitelist- %s→%s", chain, shortAddr(snd), shortAddr(rcv))
			return "wl-del"
		}
		ch.InBlock(func(ctx sdk.Context) error {
			ch.Sim.RateLimitKeeper.SetWhitelistedAddressPair(ctx, rltypes.WhitelistedAddressPair{Sender: snd, Receiver: rcv})
			return nil
		})
		m.White[key] = true
		s.C.Inc("whitelist_pairs_added")
		s.log("chain%d whitelist+ %s→%s", chain, shortAddr(snd), shortAddr(rcv))
		return "wl-add"
	}
	for _, d := range sortedKeys(m.Black) {
		ch.InBlock(func(ctx sdk.Context) error { ch.Sim.RateLimitKeeper.RemoveDenomFromBlacklist(ctx, d); return nil })
		delete(m.Black, d)
		s.log("chain%d blacklist- %s", chain, clip(d, 16))
		return "bl-del"
	}
	ds := s.limitableDenoms(chain)
	if len(ds) == 0 {
		return ""
	}
	d := kit.Pick(s.R, ds)
	ch.InBlock(func(ctx sdk.Context) error { ch.Sim.RateLimitKeeper.AddDenomToBlacklist(ctx, d); return nil })
	m.Black[d] = true
	s.C.Inc("blacklist_added")
	s.log("chain%d blacklist+ %s", chain, clip(d, 16))
	return "bl-add"
}

func (s *Sim) clearBlacklists() {
	for i, ch := range s.Ch {
		c := ch
		for _, d := range sortedKeys(s.M[i].Black) {
			dd := d
			c.InBlock(func(ctx sdk.Context) error { c.Sim.RateLimitKeeper.RemoveDenomFromBlacklist(ctx, dd); return nil })
			delete(s.M[i].Black, d)
		}
	}
}

// opJump moves the clock across (parts of) hours.
func (s *Sim) opJump() string {
	d := time.Duration(15+s.R.Intn(100)) * time.Minute
	s.W.Coord.IncrementTimeBy(d)
	s.C.Inc("clock_jumps")
	s.log("clock +%s", d)
	if s.R.Bool() {
		for i := range s.Ch {
			s.catchUp(i)
		}
		return "jump-settled"
	}
	return "jump"
}

// spendable returns a non-staking denomination the account holds.
func (s *Sim) spendable(chain, acct int) (string, sdkmath.Int, bool) {
	ch := s.Ch[chain]
	var c []sdk.Coin
	for _, b := range ch.Sim.BankKeeper.GetAllBalances(ch.GetContext(), ch.Addr(acct)) {
		if b.Amount.IsPositive() && b.Denom != sdk.DefaultBondDenom {
			c = append(c, b)
		}
	}
	if len(c) == 0 {
		return "", sdkmath.Int{}, false
	}
	var vouchers []sdk.Coin
	for _, b := range c {
		if strings.HasPrefix(b.Denom, "ibc/") && s.paths[chain][b.Denom] != "" {
			vouchers = append(vouchers, b)
		}
	}
	pool := c
	if len(vouchers) > 0 && s.R.Intn(100) < 55 {
		pool = vouchers
	}
	b := pool[s.R.Intn(len(pool))]
	if strings.HasPrefix(b.Denom, "ibc/") && s.paths[chain][b.Denom] == "" {
		return "", sdkmath.Int{}, false
	}
	return b.Denom, b.Amount, true
}

// aim picks an amount near the quota boundaries of the source or destination path (hint only).
func (s *Sim) aim(src int, sk ratelimit.Key, dst int, dk ratelimit.Key, bal sdkmath.Int) sdkmath.Int {
	var rem *big.Int
	rs, okS := s.M[src].Remaining(sk, ratelimit.Send)
	rr, okR := s.M[dst].Remaining(dk, ratelimit.Recv)
	switch {
	case okS && okR:
		rem = rs
		if k := s.R.Intn(10); (k < 6 && rr.Cmp(rs) < 0) || k >= 8 {
			rem = rr
		}
	case okS:
		rem = rs
	case okR:
		rem = rr
	}
	amt := int64(1 + s.R.Intn(2500))
	if rem != nil && rem.IsInt64() && rem.Int64() > 0 {
		r := rem.Int64()
		switch s.R.Intn(8) {
		case 0:
			amt = r
		case 1:
			amt = r + 1
		case 2:
			amt = r - 1
		case 3:
			amt = r + int64(1+s.R.Intn(500))
		default:
			amt = 1 + int64(s.R.Intn(int(min64(r, 4000))))
		}
	}
	if amt < 1 {
		amt = 1
	}
	a := sdkmath.NewInt(amt)
	if a.GT(bal) {
		a = bal
	}
	return a
}

func min64(a, b int64) int64 {
	if a < b {
		return a
	}
	return b
}

func (s *Sim) badReceiver() string {
	if s.R.Bool() {
		return "not-a-bech32-address"
	}
	return authtypes.NewModuleAddress("distribution").String()
}

type sendPlan struct {
	BadRecvPct, SoonPct, HoursPct int
}

func (s *Sim) opSend(pl sendPlan) string {
	l := s.Lanes[s.R.Intn(len(s.Lanes))]
	side := s.R.Intn(2)
	src, dst := l.Ends[side].Chain, l.Ends[1-side].Chain
	acct := s.R.Intn(users)
	denom, bal, ok := s.spendable(src, acct)
	if !ok {
		return ""
	}
	path := s.pathOf(src, denom)
	full, _ := recvPath(path, l.Ends[side].ID, l.Ends[1-side].ID)
	sk := ratelimit.Key{Denom: denom, Chan: l.Ends[side].ID}
	dk := ratelimit.Key{Denom: bankDenomOf(full), Chan: l.Ends[1-side].ID}
	amt := s.aim(src, sk, dst, dk, bal)
	recv := s.Ch[dst].Addr(s.R.Intn(users)).String()
	cls := "send-" + l.Kind
	// sometimes use a pair that is whitelisted on the source or the destination
	if s.R.Intn(100) < 35 {
		for _, wc := range []int{src, dst} {
			for _, w := range sortedKeys(s.M[wc].White) {
				parts := strings.SplitN(w, "\x00", 2)
				for a := 0; a < users; a++ {
					if s.Ch[src].Addr(a).String() == parts[0] {
						for b := 0; b < users; b++ {
							if s.Ch[dst].Addr(b).String() == parts[1] && s.Ch[src].Bal(s.Ch[src].Addr(a), denom).IsPositive() {
								acct, recv, bal = a, parts[1], s.Ch[src].Bal(s.Ch[src].Addr(a), denom)
							}
						}
					}
				}
			}
		}
		amt = s.aim(src, sk, dst, dk, bal)
	}
	if s.R.Intn(100) < pl.BadRecvPct {
		recv = s.badReceiver()
		cls += "-badrecv"
	}
	hours := 0
	if s.R.Intn(100) < pl.HoursPct {
		hours = 1 + s.R.Intn(2)
	}
	enc := kit.Pick(s.R, []string{transfertypes.EncodingProtobuf, transfertypes.EncodingJSON, transfertypes.EncodingABI})
	o := s.Send(SendOpt{Lane: l, SrcSide: side, Sender: acct, Denom: denom, Amt: amt, Receiver: recv, Soon: s.R.Intn(100) < pl.SoonPct, Hours: hours, Encoding: enc, ViaMsgTransfer: s.R.Intn(3) == 0})
	if o == nil || !o.OK() {
		return cls + "-rej"
	}
	if strings.HasPrefix(denom, "ibc/") {
		cls += "-voucher"
	}
	return cls
}

func (s *Sim) lanesFrom(chain int, kinds ...string) []*Lane {
	var out []*Lane
	for _, l := range s.Lanes {
		if l.side(chain) < 0 {
			continue
		}
		for _, k := range kinds {
			if l.Kind == k {
				out = append(out, l)
			}
		}
	}
	return out
}

// opForward sends a v1 transfer whose memo asks the next chain to forward it on (asynchronous acknowledgement there).
func (s *Sim) opForward(pl sendPlan) string {
	v1 := s.lanesFrom(s.R.Intn(len(s.Ch)), "v1")
	if len(v1) == 0 {
		return ""
	}
	first := v1[s.R.Intn(len(v1))]
	side := s.R.Intn(2)
	src := first.Ends[side].Chain
	cur := first.Ends[1-side].Chain
	acct := s.R.Intn(users)
	denom, bal, ok := s.spendable(src, acct)
	if !ok {
		return ""
	}
	cands := s.lanesFrom(cur, "v1")
	if len(cands) == 0 {
		return ""
	}
	l := cands[s.R.Intn(len(cands))]
	sd := l.side(cur)
	var retries *uint8
	if s.R.Bool() {
		r := uint8(s.R.Intn(2))
		retries = &r
	}
	fm := pfmtypes.ForwardMetadata{Port: port, Channel: l.Ends[sd].ID, Retries: retries}
	if s.R.Intn(100) < 50 {
		fm.Timeout = time.Duration(20+s.R.Intn(40)) * time.Second
	}
	final := l.Ends[1-sd].Chain
	fm.Receiver = s.Ch[final].Addr(s.R.Intn(users)).String()
	bad := s.R.Intn(100) < 45
	if bad {
		fm.Receiver = s.badReceiver()
	}
	memo, err := (&pfmtypes.PacketMetadata{Forward: fm}).ToMemo()
	if err != nil {
		return ""
	}
	path := s.pathOf(src, denom)
	full, _ := recvPath(path, first.Ends[side].ID, first.Ends[1-side].ID)
	amt := s.aim(src, ratelimit.Key{Denom: denom, Chan: first.Ends[side].ID}, cur, ratelimit.Key{Denom: bankDenomOf(full), Chan: first.Ends[1-side].ID}, bal)
	before := len(s.Pkts)
	o := s.Send(SendOpt{Lane: first, SrcSide: side, Sender: acct, Denom: denom, Amt: amt, Receiver: "pfm", Memo: memo, Soon: s.R.Intn(100) < pl.SoonPct/2})
	if o == nil || !o.OK() || len(s.Pkts) == before {
		return "forward-rej"
	}
	s.C.Inc("forward_routes_started")
	cls := "forward"
	if bad {
		cls += "-badfinal"
	}
	if l == first {
		cls += "-back"
	}
	return cls
}

// v1Form renders a packet the way the rate-limit middleware sees it (the v2 middleware converts payloads to this form).
func v1Form(p *TPkt) channeltypes.Packet {
	if !p.IsV2 {
		return p.V1
	}
	data := transfertypes.NewFungibleTokenPacketData(p.Path, p.Amt.String(), p.Sender, p.Receiver, p.Memo)
	return channeltypes.Packet{Sequence: p.Seq, SourcePort: port, SourceChannel: p.V2.SourceClient, DestinationPort: port, DestinationChannel: p.V2.DestinationClient, Data: data.GetBytes()}
}

// opDupUndo replays, at keeper level, a refund callback of the rate limiter for a packet whose fate is already
// settled (a second timeout / error acknowledgement, an error acknowledgement after a success, a second undo of a
// receive): "each packet undone at most once".
func (s *Sim) opDupUndo() string {
	// prefer packets that were refunded inside a window that is still running (the replay then meets live flows)
	live := func(chain int, k ratelimit.Key, d ratelimit.Dir, seq uint64) bool {
		r, l := s.M[chain].Rec(k, d, seq), s.M[chain].Limits[k]
		return r != nil && l != nil && r.State == "undone" && r.Window == l.Window && !l.Tainted
	}
	p := s.pick(func(p *TPkt) bool {
		return (p.Terminal == "timeout" || p.Terminal == "ack-err") && live(p.src(), s.sendKey(p), ratelimit.Send, p.Seq)
	})
	if p != nil && s.R.Intn(4) > 0 {
		return s.dupUndo(p, true)
	}
	p = s.pick(func(p *TPkt) bool {
		return p.Received && !p.AsyncOpen && p.RecvResult == "async" && live(p.dst(), s.recvKey(p), ratelimit.Recv, p.Seq)
	})
	if p != nil && s.R.Intn(4) > 0 {
		return s.dupUndo(p, false)
	}
	p = s.pick(func(p *TPkt) bool { return p.Terminal != "" || (p.Received && !p.AsyncOpen && p.RecvResult != "error") })
	if p == nil {
		return ""
	}
	return s.dupUndo(p, p.Terminal != "" && (s.R.Bool() || !p.Received))
}

func (s *Sim) dupUndo(p *TPkt, sendSide bool) string {
	errAck := channeltypes.NewErrorAcknowledgement(fmt.Errorf("replayed")).Acknowledgement()
	pk := v1Form(p)
	s.evs = s.evs[:0]
	if sendSide {
		chain := p.src()
		s.catchUp(chain)
		ch := s.Ch[chain]
		k := s.sendKey(p)
		how := "timeout"
		o := ch.InBlock(func(ctx sdk.Context) error {
			if s.R.Bool() {
				return ch.Sim.RateLimitKeeper.TimeoutRateLimitedPacket(ctx, pk)
			}
			how = "error-ack"
			return ch.Sim.RateLimitKeeper.AcknowledgeRateLimitedPacket(ctx, pk, errAck)
		})
		u := s.M[chain].UndoSend(k, p.Seq)
		s.countUndo(u)
		s.evs = append(s.evs, mev{Kind: "dup-undo-send", Undo: &u, P: p})
		s.log("dup %s of %v (was %s) at keeper level err=%v", how, p, p.Terminal, o.Err)
		s.C.Inc("duplicate_refund_callbacks_injected")
		s.compare(chain, "dup-undo-send")
		return "dup-undo-send-" + p.Terminal
	}
	chain := p.dst()
	s.catchUp(chain)
	ch := s.Ch[chain]
	k := s.recvKey(p)
	o := ch.InBlock(func(ctx sdk.Context) error { return ch.Sim.RateLimitKeeper.UndoReceivePacket(ctx, pk) })
	u := s.M[chain].UndoRecv(k, p.Seq)
	s.countUndo(u)
	s.evs = append(s.evs, mev{Kind: "dup-undo-recv", Undo: &u, P: p})
	s.log("dup undo-receive of %v (recv %s) at keeper level err=%v", p, p.RecvResult, o.Err)
	s.C.Inc("duplicate_refund_callbacks_injected")
	s.compare(chain, "dup-undo-recv")
	return "dup-undo-recv-" + p.RecvResult
}

// opStale is a short directed history around one rate-limited path: a counted packet P is left in flight, the window
// is ended (update / remove+add / reset by the authority / nothing), new traffic Q is counted, then P times out.
func (s *Sim) opStale() string {
	type cand struct {
		chain int
		k     ratelimit.Key
	}
	var cs []cand
	for i := range s.Ch {
		for _, k := range s.M[i].Keys() {
			l := s.M[i].Limits[k]
			if r, _ := s.M[i].Remaining(k, ratelimit.Send); r != nil && r.Cmp(big.NewInt(40)) > 0 && l.MaxSend > 0 {
				cs = append(cs, cand{i, k})
			}
		}
	}
	if len(cs) == 0 {
		return ""
	}
	c := cs[s.R.Intn(len(cs))]
	var lane *Lane
	for _, l := range s.Lanes {
		if sd := l.side(c.chain); sd >= 0 && l.Ends[sd].ID == c.k.Chan && (lane == nil || s.R.Bool()) {
			lane = l
		}
	}
	if lane == nil {
		return ""
	}
	side := lane.side(c.chain)
	dst := lane.Ends[1-side].Chain
	acct := -1
	for a := 0; a < users; a++ {
		if s.Ch[c.chain].Bal(s.Ch[c.chain].Addr(a), c.k.Denom).GT(sdkmath.NewInt(200)) {
			acct = a
		}
	}
	if acct < 0 || (strings.HasPrefix(c.k.Denom, "ibc/") && s.paths[c.chain][c.k.Denom] == "") {
		return ""
	}
	rem, _ := s.M[c.chain].Remaining(c.k, ratelimit.Send)
	a1 := sdkmath.NewInt(1 + int64(s.R.Intn(int(min64(rem.Int64()/2, 150)))))
	before := len(s.Pkts)
	o := s.Send(SendOpt{Lane: lane, SrcSide: side, Sender: acct, Denom: c.k.Denom, Amt: a1, Receiver: s.Ch[dst].Addr(0).String(), Soon: true})
	if o == nil || !o.OK() || len(s.Pkts) == before {
		return "stale-rej"
	}
	p := s.Pkts[len(s.Pkts)-1]
	how := kit.Pick(s.R, []string{"update", "update", "remove-add", "remove-add", "reset", "none"})
	send, recv, hours := s.genQuota()
	if send < 20 {
		send = 20 + send
	}
	switch how {
	case "update":
		s.UpdateLimit(c.chain, c.k, send, recv, hours)
	case "remove-add":
		s.RemoveLimit(c.chain, c.k)
		s.AddLimit(c.chain, c.k, send, recv, hours)
	case "reset":
		s.ResetLimit(c.chain, c.k)
	}
	if r2, ok := s.M[c.chain].Remaining(c.k, ratelimit.Send); ok && r2.Sign() > 0 {
		a2 := sdkmath.NewInt(1 + int64(s.R.Intn(int(min64(r2.Int64(), 400)))))
		if bal := s.Ch[c.chain].Bal(s.Ch[c.chain].Addr(acct), c.k.Denom); a2.GT(bal) {
			a2 = bal
		}
		if a2.IsPositive() {
			s.Send(SendOpt{Lane: lane, SrcSide: side, Sender: acct, Denom: c.k.Denom, Amt: a2, Receiver: s.Ch[dst].Addr(1).String()})
		}
	}
	s.Advance(p)
	s.Timeout(p)
	s.C.Inc("directed_stale_window_histories_" + how)
	return "stale-" + how + "-" + p.Terminal
}

type Profile struct {
	Send, Forward, Recv, Ack, Timeout, Admin, Lists, Jump, DupUndo, Stale, ToggleRecv, Commit int
	Plan                                                                                      sendPlan
}

func DefaultProfile() Profile {
	return Profile{Send: 26, Forward: 7, Recv: 22, Ack: 16, Timeout: 8, Admin: 11, Lists: 3, Jump: 4, DupUndo: 4, Stale: 3, ToggleRecv: 1, Commit: 1,
		Plan: sendPlan{BadRecvPct: 12, SoonPct: 25, HoursPct: 35}}
}

func okS(o *kit.Outcome) string {
	if o == nil {
		return "nil"
	}
	if o.OK() {
		return "ok"
	}
	return "rej"
}

func (s *Sim) Step(pr Profile) string {
	type op struct {
		w int
		f func() string
	}
	ops := []op{
		{pr.Send, func() string { return s.opSend(pr.Plan) }},
		{pr.Forward, func() string { return s.opForward(pr.Plan) }},
		{pr.Recv, func() string {
			p := s.pick(func(p *TPkt) bool { return !p.Received && p.Terminal == "" && !s.elapsed(p) })
			if p == nil {
				return ""
			}
			o := s.Recv(p)
			// the authority reacts to traffic on a path without a limit
			if o != nil && o.OK() && (p.RecvResult == "success" || p.RecvResult == "async") && s.R.Intn(100) < 40 {
				if k := s.recvKey(p); s.M[p.dst()].Limits[k] == nil && s.supplyOf(p.dst(), k.Denom).Sign() > 0 {
					a, b, h := s.genQuota()
					s.AddLimit(p.dst(), k, a, b, h)
				}
			}
			return "recv-" + okS(o) + "-" + p.RecvResult
		}},
		{pr.Ack, func() string {
			p := s.pick(func(p *TPkt) bool { return p.Received && p.Terminal == "" && (p.AckV1 != nil || p.AckV2 != nil) })
			if p == nil {
				return ""
			}
			o := s.Ack(p)
			return "ack-" + okS(o) + "-" + p.Terminal
		}},
		{pr.Timeout, func() string {
			p := s.pick(func(p *TPkt) bool { return !p.Received && p.Terminal == "" && (s.soon(p) || s.elapsed(p)) })
			if p == nil {
				return ""
			}
			s.Advance(p)
			o := s.Timeout(p)
			if o != nil && o.OK() && p.Terminal == "timeout" && s.R.Intn(5) == 0 {
				s.dupUndo(p, true) // the same timeout reaches the limiter a second time
			}
			cls := "timeout-" + okS(o)
			if p.Hop {
				cls += "-hop"
			}
			return cls
		}},
		{pr.Admin, s.opAdmin},
		{pr.Lists, s.opLists},
		{pr.Jump, s.opJump},
		{pr.DupUndo, s.opDupUndo},
		{pr.Stale, s.opStale},
		{pr.ToggleRecv, func() string {
			c := s.R.Intn(len(s.Ch))
			ch := s.Ch[c]
			on := s.R.Bool()
			s.catchUp(c)
			ch.InBlock(func(ctx sdk.Context) error {
				ch.Sim.TransferKeeper.SetParams(ctx, transfertypes.NewParams(true, on))
				return nil
			})
			return fmt.Sprintf("recv-enabled-%v", on)
		}},
		{pr.Commit, func() string {
			s.Ch[s.R.Intn(len(s.Ch))].Commit()
			return "commit"
		}},
	}
	total := 0
	for _, o := range ops {
		total += o.w
	}
	x := s.R.Intn(total)
	for _, o := range ops {
		if x < o.w {
			var cls string
			if err := kit.Try(func() { cls = o.f() }); err != nil {
				s.log("op aborted: %v", err)
				s.C.Inc("op_aborts")
				return "abort"
			}
			return cls
		}
		x -= o.w
	}
	return ""
}

// Drain relays everything honestly until nothing is outstanding (bounded).
func (s *Sim) Drain() {
	s.clearBlacklists()
	for i, ch := range s.Ch {
		c := ch
		s.catchUp(i)
		c.InBlock(func(ctx sdk.Context) error {
			c.Sim.TransferKeeper.SetParams(ctx, transfertypes.NewParams(true, true))
			return nil
		})
	}
	for round := 0; round < 12; round++ {
		progress := false
		for i := 0; i < len(s.Pkts); i++ {
			p := s.Pkts[i]
			if p.Terminal != "" {
				continue
			}
			_ = kit.Try(func() {
				if !p.Received {
					if s.elapsed(p) {
						if o := s.Timeout(p); o != nil && o.OK() {
							progress = true
						}
						return
					}
					if o := s.Recv(p); o != nil && o.OK() {
						progress = true
					}
				}
				if p.Received && p.Terminal == "" && (p.AckV1 != nil || p.AckV2 != nil) {
					if o := s.Ack(p); o != nil && o.OK() {
						progress = true
					}
				}
			})
		}
		if !progress {
			break
		}
	}
}

// EndChecks: final comparison at quiescence.
func (s *Sim) EndChecks() {
	open := 0
	for _, p := range s.Pkts {
		if p.Terminal == "" {
			open++
		}
	}
	s.C.Obs("packets_unfinished_at_end", int64(open))
	for i := range s.Ch {
		s.catchUp(i)
		s.evs = s.evs[:0]
		s.compare(i, "end")
	}
}

// scenarioZeroValue is a short directed history: every voucher of a rate-limited path leaves the chain, the window
// is restarted by the authority (recording a channel value of zero), and new tokens arrive.
func (s *Sim) scenarioZeroValue() {
	var lane *Lane
	for _, l := range s.Lanes {
		if l.Kind == "v1" && (lane == nil || s.R.Intn(3) == 0) {
			lane = l
		}
	}
	side := s.R.Intn(2)
	src, dst := lane.Ends[side].Chain, lane.Ends[1-side].Chain
	relay := func(p *TPkt) bool {
		s.Recv(p)
		if p.AckV1 == nil {
			return false
		}
		s.Ack(p)
		return p.Terminal == "ack-ok"
	}
	before := len(s.Pkts)
	a1 := sdkmath.NewInt(int64(300 + s.R.Intn(500)))
	s.Send(SendOpt{Lane: lane, SrcSide: side, Sender: 0, Denom: tokOf(src), Amt: a1, Receiver: s.Ch[dst].Addr(0).String()})
	if len(s.Pkts) == before || !relay(s.Pkts[len(s.Pkts)-1]) {
		return
	}
	k := s.recvKey(s.Pkts[len(s.Pkts)-1])
	if !s.AddLimit(dst, k, 100, int64(5+s.R.Intn(30)), 1) {
		return
	}
	before = len(s.Pkts)
	s.Send(SendOpt{Lane: lane, SrcSide: 1 - side, Sender: 0, Denom: k.Denom, Amt: a1, Receiver: s.Ch[src].Addr(1).String()})
	if len(s.Pkts) == before || !relay(s.Pkts[len(s.Pkts)-1]) {
		return
	}
	if !s.ResetLimit(dst, k) {
		return
	}
	before = len(s.Pkts)
	s.Send(SendOpt{Lane: lane, SrcSide: side, Sender: 1, Denom: tokOf(src), Amt: sdkmath.NewInt(int64(50 + s.R.Intn(900))), Receiver: s.Ch[dst].Addr(2).String()})
	if len(s.Pkts) > before {
		relay(s.Pkts[len(s.Pkts)-1])
		s.C.Inc("directed_zero_channel_value_histories")
	}
}
