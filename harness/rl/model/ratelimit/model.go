// Package ratelimit is the reference model of ICS-20 rate limiting used by the C41 monitor. It is written from the
// property statement, not from the module: a rate limit lives on a (denomination, channel-or-client) path and has a
// quota (max percent of sends / receives of the channel value recorded when the window started, duration in hours).
//
//   - an accepted transfer must leave the net flow in its direction within the quota;
//   - the recorded inflow/outflow are the amounts accepted in the current window minus those accepted in this window and
//     later refunded (error acknowledgement or timeout of a send, error acknowledgement written later for an
//     asynchronously acknowledged receive), never below zero, every packet undone at most once;
//   - a window ends at an hour epoch whose number is a multiple of the duration, at an administrative reset, update or
//     removal; a new window starts from zero with the channel value of that moment;
//   - whitelisted (sender, receiver) pairs are not counted, blacklisted denominations are never accepted.
//
// The model has no dependency on ibc-go; amounts are big integers.
package ratelimit

import (
	"fmt"
	"math/big"
	"sort"
)

type Key struct{ Denom, Chan string }

func (k Key) String() string { return k.Denom + "@" + k.Chan }

type Dir int

const (
	Send Dir = iota
	Recv
)

func (d Dir) String() string {
	if d == Send {
		return "send"
	}
	return "recv"
}

// Rec is the fate of one packet the model counted.
type Rec struct {
	Key    Key
	Dir    Dir
	Seq    uint64
	Amt    *big.Int
	Window int
	State  string // counted | undone | final | expired
}

type Limit struct {
	Key              Key
	MaxSend, MaxRecv int64
	Hours            uint64
	Value, In, Out   *big.Int
	Window           int
	// Tainted: a difference between the recorded and the modelled flow was already reported in this window; the
	// harness then follows the recorded values until the next window starts (one defect, one report).
	Tainted bool
}

type Chain struct {
	Limits  map[Key]*Limit
	White   map[string]bool
	Black   map[string]bool
	Epoch   uint64
	windows int
	ended   map[int]string // window serial -> epoch | reset | update | remove
	recs    map[string]*Rec
}

func NewChain() *Chain {
	return &Chain{Limits: map[Key]*Limit{}, White: map[string]bool{}, Black: map[string]bool{}, ended: map[int]string{}, recs: map[string]*Rec{}}
}

func wkey(sender, receiver string) string { return sender + "\x00" + receiver }
func rkey(k Key, d Dir, seq uint64) string {
	return fmt.Sprintf("%s\x00%s\x00%d\x00%d", k.Denom, k.Chan, d, seq)
}

func (c *Chain) Keys() []Key {
	ks := make([]Key, 0, len(c.Limits))
	for k := range c.Limits {
		ks = append(ks, k)
	}
	sort.Slice(ks, func(i, j int) bool { return ks[i].String() < ks[j].String() })
	return ks
}

func (c *Chain) newWindow(l *Limit, supply *big.Int) {
	c.windows++
	l.Window = c.windows
	l.Tainted = false
	l.In, l.Out, l.Value = new(big.Int), new(big.Int), new(big.Int).Set(supply)
}

// ---- administration ----

func (c *Chain) Add(k Key, maxSend, maxRecv int64, hours uint64, supply *big.Int) {
	l := &Limit{Key: k, MaxSend: maxSend, MaxRecv: maxRecv, Hours: hours}
	c.newWindow(l, supply)
	c.Limits[k] = l
}

func (c *Chain) Update(k Key, maxSend, maxRecv int64, hours uint64, supply *big.Int) {
	l := c.Limits[k]
	if l == nil {
		return
	}
	c.ended[l.Window] = "update"
	l.MaxSend, l.MaxRecv, l.Hours = maxSend, maxRecv, hours
	c.newWindow(l, supply)
}

func (c *Chain) Remove(k Key) {
	if l := c.Limits[k]; l != nil {
		c.ended[l.Window] = "remove"
		delete(c.Limits, k)
	}
}

func (c *Chain) Reset(k Key, supply *big.Int, how string) {
	if l := c.Limits[k]; l != nil {
		c.ended[l.Window] = how
		c.newWindow(l, supply)
	}
}

// HourEpoch starts epoch n: every limit whose duration divides n begins a new window.
func (c *Chain) HourEpoch(n uint64, supplyOf func(denom string) *big.Int) (reset []Key) {
	c.Epoch = n
	for _, k := range c.Keys() {
		l := c.Limits[k]
		if l.Hours != 0 && n%l.Hours == 0 {
			c.Reset(k, supplyOf(k.Denom), "epoch")
			reset = append(reset, k)
		}
	}
	return reset
}

// ---- traffic ----

// Admission is the model's view of one transfer the chain accepted.
type Admission struct {
	Key         Key
	Dir         Dir
	Counted     bool     // a limit exists and the pair is not whitelisted
	Whitelisted bool     // a limit exists but the (sender, receiver) pair is whitelisted
	Blacklisted bool     // the denomination is blacklisted: acceptance breaks the model
	Net         *big.Int // net flow in the direction of the transfer after it
	Value       *big.Int
	Percent     int64
	Exceeds     bool // Net*100 > Value*Percent
	AtBoundary  bool // Net*100 == Value*Percent rounded down (exactly at the quota)
}

func (c *Chain) accept(k Key, d Dir, seq uint64, amt *big.Int, sender, receiver string, final bool) Admission {
	a := Admission{Key: k, Dir: d, Blacklisted: c.Black[k.Denom]}
	l := c.Limits[k]
	if l == nil {
		return a
	}
	if c.White[wkey(sender, receiver)] {
		a.Whitelisted = true
		return a
	}
	a.Counted = true
	if d == Send {
		l.Out = new(big.Int).Add(l.Out, amt)
		a.Net = new(big.Int).Sub(l.Out, l.In)
		a.Percent = l.MaxSend
	} else {
		l.In = new(big.Int).Add(l.In, amt)
		a.Net = new(big.Int).Sub(l.In, l.Out)
		a.Percent = l.MaxRecv
	}
	a.Value = new(big.Int).Set(l.Value)
	lhs := new(big.Int).Mul(a.Net, big.NewInt(100))
	rhs := new(big.Int).Mul(l.Value, big.NewInt(a.Percent))
	a.Exceeds = lhs.Cmp(rhs) > 0
	a.AtBoundary = new(big.Int).Quo(rhs, big.NewInt(100)).Cmp(a.Net) == 0
	st := "counted"
	if final {
		st = "final"
	}
	c.recs[rkey(k, d, seq)] = &Rec{Key: k, Dir: d, Seq: seq, Amt: new(big.Int).Set(amt), Window: l.Window, State: st}
	return a
}

// AcceptSend: the chain accepted an outgoing transfer on path k.
func (c *Chain) AcceptSend(k Key, seq uint64, amt *big.Int, sender, receiver string) Admission {
	return c.accept(k, Send, seq, amt, sender, receiver, false)
}

// AcceptRecv: the chain accepted (credited) an incoming transfer; async = the acknowledgement will be written later.
func (c *Chain) AcceptRecv(k Key, seq uint64, amt *big.Int, sender, receiver string, async bool) Admission {
	return c.accept(k, Recv, seq, amt, sender, receiver, !async)
}

// Remaining returns how much more can flow in direction d before the quota is exceeded (harness hint only).
func (c *Chain) Remaining(k Key, d Dir) (*big.Int, bool) {
	l := c.Limits[k]
	if l == nil {
		return nil, false
	}
	pct, net := l.MaxSend, new(big.Int).Sub(l.Out, l.In)
	if d == Recv {
		pct, net = l.MaxRecv, new(big.Int).Sub(l.In, l.Out)
	}
	th := new(big.Int).Quo(new(big.Int).Mul(l.Value, big.NewInt(pct)), big.NewInt(100))
	return th.Sub(th, net), true
}

// Undo is the model's view of one refund event (timeout / error acknowledgement of a send, error acknowledgement
// written for an asynchronously acknowledged receive), including duplicates injected by the harness.
type Undo struct {
	Key     Key
	Dir     Dir
	Seq     uint64
	Amt     *big.Int
	Applied bool   // the packet was counted in the current window and is refunded now
	Stale   string // "", or how the window that counted the (never refunded) packet ended: epoch|reset|update|remove
	Again   bool   // the packet had already been refunded or finalised
}

func (c *Chain) undo(k Key, d Dir, seq uint64) Undo {
	u := Undo{Key: k, Dir: d, Seq: seq}
	r := c.recs[rkey(k, d, seq)]
	if r == nil {
		return u
	}
	u.Amt = r.Amt
	if r.State != "counted" {
		u.Again = r.State == "undone" || r.State == "final"
		return u
	}
	l := c.Limits[k]
	if l == nil || l.Window != r.Window {
		u.Stale = c.ended[r.Window]
		r.State = "expired"
		return u
	}
	u.Applied = true
	r.State = "undone"
	if d == Send {
		l.Out = new(big.Int).Sub(l.Out, r.Amt)
	} else {
		l.In = new(big.Int).Sub(l.In, r.Amt)
	}
	return u
}

func (c *Chain) UndoSend(k Key, seq uint64) Undo { return c.undo(k, Send, seq) }
func (c *Chain) UndoRecv(k Key, seq uint64) Undo { return c.undo(k, Recv, seq) }

// Final: the packet reached a successful end (success acknowledgement); it can never be refunded.
func (c *Chain) Final(k Key, d Dir, seq uint64) {
	if r := c.recs[rkey(k, d, seq)]; r != nil && r.State == "counted" {
		r.State = "final"
	}
}

// Rec returns the record of a packet, if the model counted it.
func (c *Chain) Rec(k Key, d Dir, seq uint64) *Rec { return c.recs[rkey(k, d, seq)] }

// Adopt overwrites the flows with the observed ones after a reported difference (one defect, one report).
func (l *Limit) Adopt(in, out, value *big.Int) {
	l.In, l.Out, l.Value = new(big.Int).Set(in), new(big.Int).Set(out), new(big.Int).Set(value)
}
