package rl

import (
	"fmt"
	"strings"
	"testing"

	"verif/harness/kit"
	"verif/harness/rl/model/ratelimit"
)

const c41Rule = "cases = PRNG-determined histories on three real chains (A-B with v1 channel, its v2 alias and a v2 client pair; B-C with v1 channel and alias): ICS-20 transfers of native tokens of small supply and of vouchers in both directions " +
	"(amounts aimed below / exactly at / one above the remaining quota), failing receivers, disabled receives, forward memos (asynchronous acknowledgements, hop timeouts and retries), success and error acknowledgements, timeouts, clock jumps across hour epochs, " +
	"MsgAddRateLimit / MsgUpdateRateLimit / MsgRemoveRateLimit / MsgResetRateLimit by the authority, whitelisted pairs, blacklisted denominations, keeper-level replays of refund callbacks for settled packets, and directed histories that end a window while a counted packet is in flight; " +
	"after every block the real Flow of every rate limit is compared with a reference model written from the statement; one evaluation = one operation whose blocks were compared with the model (plus one per whole case); distinct = distinct (previous operation class > operation/outcome class) pairs and distinct whole-case traces; trivial = empty commits, aborted operations, cases without both an administrative operation and a refund"

func TestC41(t *testing.T) {
	c := kit.NewCheck(t, "C41", "exploration", c41Rule)
	defer c.Finish()
	c.Assume("bank supply, SDK tx atomicity, light-client proof verification and the module's hour-epoch counter (read as the clock of the windows) are the trusted base; application stack as wired in testing/simapp (rate-limit → packet-forward → transfer; transfer v2 behind rate-limit v2)")
	c.Assume("administrative messages are executed through the module's msg server with the authority address in their own block; whitelist / blacklist entries are set at keeper level (the module has no message for them)")
	for k, v := range map[string]int64{
		"flows_compared": 2500, "admissions_judged_send": 70, "admissions_judged_recv": 12, "admissions_exactly_at_quota": 5,
		"refunds_in_window_send": 10, "refunds_in_window_recv": 1, "hour_epochs": 40, "window_resets_at_epoch": 70,
		"admin_add": 45, "admin_update": 12, "admin_remove": 7, "admin_reset": 10,
		"recv_error": 30, "recv_async": 14, "async_acks_error": 11, "duplicate_refund_callbacks_injected": 18, "refund_events_for_finished_packets": 4,
		"packets_v1": 80, "packets_alias": 40, "packets_v2": 20,
		"sends_refused_by_quota": 9, "receives_refused_by_quota": 12, "sends_refused_by_blacklist": 5, "accepted_uncounted_send": 10,
		"directed_zero_channel_value_histories": 1, "directed_stale_window_histories_update": 1, "directed_stale_window_histories_remove-add": 1,
	} {
		c.Floor(k, v)
	}
	n := c.N(10, 28)
	for i := 0; i < n; i++ {
		if c.SkipCase(i) {
			continue
		}
		r := c.CaseRng(i)
		var classes []string
		nontrivial := false
		err := kit.Try(func() {
			s := NewSim(c, r, Line3())
			s.Start()
			if i%4 == 1 {
				s.scenarioZeroValue()
			}
			s.initialLimits()
			pr := DefaultProfile()
			nops := 110 + r.Intn(60)
			admin, refunds := 0, 0
			for j := 0; j < nops; j++ {
				cls := s.Step(pr)
				if cls == "" {
					continue
				}
				// one evaluation per operation whose block(s) were compared with the model; its class is the
				// operation/outcome class in the context of the previous one (commit-only operations are trivial)
				if cls == "commit" || cls == "abort" {
					c.Eval("")
				} else if len(classes) > 0 {
					c.Eval(classes[len(classes)-1] + ">" + cls)
				} else {
					c.Eval(">" + cls)
				}
				classes = append(classes, cls)
				switch {
				case cls == "add" || cls == "update" || cls == "remove" || cls == "reset" || strings.HasPrefix(cls, "stale-"):
					admin++
				}
				if strings.HasPrefix(cls, "timeout-ok") || strings.Contains(cls, "ack-err") {
					refunds++
				}
			}
			s.Drain()
			s.EndChecks()
			nontrivial = admin > 0 && refunds > 0
			if i < 2 {
				tr := s.trace
				if len(tr) > 30 {
					tr = tr[:30]
				}
				c.Sample(map[string]any{"case": c.CaseID(i), "ops": tr})
			}
		})
		c.Inc("cases")
		if err != nil {
			c.Inconcl(err.Error())
			continue
		}
		if nontrivial {
			c.Eval(fmt.Sprint(classes))
		} else {
			c.Eval("")
		}
	}
}

// initialLimits puts rate limits on the native token of every chain on some of its channels / clients.
func (s *Sim) initialLimits() {
	for i := range s.Ch {
		for _, id := range s.idsOn(i) {
			if s.R.Intn(100) < 90 {
				send, recv, h := s.genQuota()
				if send == 0 {
					send = 10
				}
				s.AddLimit(i, ratelimit.Key{Denom: tokOf(i), Chan: id}, send, recv, h)
			}
		}
	}
}
