// Package rl drives ICS-20 transfers (v1, v2 client pairs, v2 over aliases, packet forwarding) through the
// rate-limiting middleware of real SimApp chains and monitors the rate-limit accounting (C41) and the agreement
// between the denomination the limiter charges and the one ICS-20 moves (C42).
// The lane / truth-log / relaying code is adapted from package xfer.
package rl

import (
	"crypto/sha256"
	"encoding/hex"
	"encoding/json"
	"fmt"
	"math/big"
	"sort"
	"strconv"
	"strings"
	"time"

	"github.com/cosmos/gogoproto/proto"

	sdkmath "cosmossdk.io/math"

	sdk "github.com/cosmos/cosmos-sdk/types"

	abci "github.com/cometbft/cometbft/abci/types"

	transfertypes "github.com/cosmos/ibc-go/v11/modules/apps/transfer/types"
	clienttypes "github.com/cosmos/ibc-go/v11/modules/core/02-client/types"
	channeltypes "github.com/cosmos/ibc-go/v11/modules/core/04-channel/types"
	channeltypesv2 "github.com/cosmos/ibc-go/v11/modules/core/04-channel/v2/types"
	host "github.com/cosmos/ibc-go/v11/modules/core/24-host"
	hostv2 "github.com/cosmos/ibc-go/v11/modules/core/24-host/v2"
	ibctesting "github.com/cosmos/ibc-go/v11/testing"

	"verif/harness/kit"
	"verif/harness/rl/model/ratelimit"
)

const port = "transfer"

// Link is a transfer connection between two chains: a v1 UNORDERED transfer channel (also usable
// through its v2 alias) and optionally an IBC v2 client pair.
type Link struct {
	X, Y int
	P    *ibctesting.Path
	V2   *ibctesting.Path
}

type End struct {
	Chain int
	ID    string
}

// Lane = a link used in one protocol flavour (v1 | alias | v2).
type Lane struct {
	L    *Link
	Kind string
	Ends [2]End
}

func (l *Lane) ep(i int) *ibctesting.Endpoint {
	p := l.L.P
	if l.Kind == "v2" {
		p = l.L.V2
	}
	if i == 0 {
		return p.EndpointA
	}
	return p.EndpointB
}

func (l *Lane) side(chain int) int {
	if l.Ends[0].Chain == chain {
		return 0
	}
	if l.Ends[1].Chain == chain {
		return 1
	}
	return -1
}

// TPkt is the truth about one ICS-20 packet that some chain really committed.
type TPkt struct {
	Lane     *Lane
	SrcSide  int
	Seq      uint64
	V1       channeltypes.Packet
	V2       channeltypesv2.Packet
	IsV2     bool
	Path     string // denomination path carried in the packet
	Amt      sdkmath.Int
	Sender   string
	Receiver string
	Memo     string
	BankSrc  string // bank denom the source moved (ICS-20 rules; C42 observes it from balances instead)
	Hop      bool   // sent by the forward middleware

	Received   bool
	RecvResult string // success | error | async
	AsyncOpen  bool   // received asynchronously, acknowledgement not yet written
	AckSuccess *bool
	AckV1      []byte
	AckV2      *channeltypesv2.Acknowledgement
	Terminal   string // "" | ack-ok | ack-err | timeout
}

func (p *TPkt) src() int      { return p.Lane.Ends[p.SrcSide].Chain }
func (p *TPkt) dst() int      { return p.Lane.Ends[1-p.SrcSide].Chain }
func (p *TPkt) srcID() string { return p.Lane.Ends[p.SrcSide].ID }
func (p *TPkt) dstID() string { return p.Lane.Ends[1-p.SrcSide].ID }
func (p *TPkt) String() string {
	return fmt.Sprintf("%s[%d→%d %s#%d %s %s]", p.Lane.Kind, p.src(), p.dst(), p.srcID(), p.Seq, p.Amt, clip(p.Path, 40))
}

// Sim is a world of chains with transfer lanes, the truth log and one rate-limit model per chain.
type Sim struct {
	C     *kit.Check
	W     *kit.World
	Ch    []*kit.Chain
	R     *kit.Rng
	Links []*Link
	Lanes []*Lane
	Pkts  []*TPkt
	trace []string
	paths []map[string]string // per chain: voucher bank denom -> full path (harness knowledge)

	M         []*ratelimit.Chain    // per chain reference model
	supply    []map[string]*big.Int // per chain: supply of every denom at the end of the last observed block
	epoch0    []uint64
	uncounted map[int]map[ratelimit.Key]int // paths that carried accepted traffic without a rate limit (aims the admin op)
	evs       []any                         // model events of the transaction being observed (for the classification of a difference)
	Mode      string

	curKind   string
	pendingV2 *ftpd
	quiet     bool // C42 probes: truth log only, no C41 model
}

func (s *Sim) log(format string, a ...any) {
	if len(s.trace) < 1500 {
		s.trace = append(s.trace, fmt.Sprintf(format, a...))
	}
}

func (s *Sim) tail(n int) []string {
	t := s.trace
	if len(t) > n {
		t = t[len(t)-n:]
	}
	return append([]string(nil), t...)
}

type Topology struct {
	Chains  int
	Links   [][2]int
	V2On    map[int]bool
	WideIDs bool
}

func Triangle() Topology {
	return Topology{Chains: 3, Links: [][2]int{{0, 1}, {1, 2}, {2, 0}}, V2On: map[int]bool{0: true}}
}

func Line3() Topology {
	return Topology{Chains: 3, Links: [][2]int{{0, 1}, {1, 2}}, V2On: map[int]bool{0: true}}
}

func NewSim(c *kit.Check, r *kit.Rng, topo Topology) *Sim {
	w := kit.NewWorld(c.T, topo.Chains)
	s := &Sim{C: c, W: w, Ch: w.Chains, R: r, uncounted: map[int]map[ratelimit.Key]int{}}
	for i, lk := range topo.Links {
		a, b := s.Ch[lk[0]].TestChain, s.Ch[lk[1]].TestChain
		p := ibctesting.NewTransferPath(a, b)
		if topo.WideIDs {
			// identifiers that are textual prefixes of one another on the chain in the middle (channel-K towards one neighbour,
			// channel-K<digits> towards the other), as on any chain with more than ten channels; allocation stays the keeper's own
			p.DisableUniqueChannelIDs()
			k := uint64(1 + r.Intn(9))
			seqs := [][2]uint64{{20 + uint64(r.Intn(5)), k}, {k*10 + uint64(r.Intn(10)), 30 + uint64(r.Intn(5))}, {40 + uint64(r.Intn(5)), 50 + uint64(r.Intn(5))}}
			if r.Intn(3) == 0 {
				seqs[1][0] = k*100 + uint64(r.Intn(100))
			}
			for e, ch := range []*kit.Chain{s.Ch[lk[0]], s.Ch[lk[1]]} {
				n := seqs[i%len(seqs)][e]
				ch.InBlock(func(ctx sdk.Context) error {
					ch.App.GetIBCKeeper().ChannelKeeper.SetNextChannelSequence(ctx, n)
					return nil
				})
			}
		}
		p.Setup()
		l := &Link{X: lk[0], Y: lk[1], P: p}
		if topo.V2On[i] {
			v := ibctesting.NewPath(a, b)
			v.SetupV2()
			l.V2 = v
		}
		s.Links = append(s.Links, l)
		ends := [2]End{{lk[0], p.EndpointA.ChannelID}, {lk[1], p.EndpointB.ChannelID}}
		s.Lanes = append(s.Lanes, &Lane{L: l, Kind: "v1", Ends: ends}, &Lane{L: l, Kind: "alias", Ends: ends})
		if l.V2 != nil {
			s.Lanes = append(s.Lanes, &Lane{L: l, Kind: "v2", Ends: [2]End{{lk[0], l.V2.EndpointA.ClientID}, {lk[1], l.V2.EndpointB.ClientID}}})
		}
	}
	n := len(s.Ch)
	s.paths = make([]map[string]string, n)
	s.M = make([]*ratelimit.Chain, n)
	s.supply = make([]map[string]*big.Int, n)
	s.epoch0 = make([]uint64, n)
	for i, ch := range s.Ch {
		s.paths[i] = map[string]string{}
		s.M[i] = ratelimit.NewChain()
		idx := i
		ch.OnTx = func(o *kit.Outcome) { s.observe(idx, o) }
	}
	return s
}

// ---------------------------------------------------------------------------------------------
// denomination model (ICS-20 rules written from the spec; only used for slash-free base denominations)

func isHopID(s string) bool {
	return channeltypes.IsValidChannelID(s) || clienttypes.IsValidClientID(s)
}

func splitTrace(path string) (hops [][2]string, base string) {
	parts := strings.Split(path, "/")
	i := 0
	for i+2 <= len(parts)-1 && parts[i] == port && isHopID(parts[i+1]) {
		hops = append(hops, [2]string{parts[i], parts[i+1]})
		i += 2
	}
	return hops, strings.Join(parts[i:], "/")
}

func voucherOf(fullPath string) string {
	h := sha256.Sum256([]byte(fullPath))
	return "ibc/" + strings.ToUpper(hex.EncodeToString(h[:]))
}

func bankDenomOf(fullPath string) string {
	hops, _ := splitTrace(fullPath)
	if len(hops) == 0 {
		return fullPath
	}
	return voucherOf(fullPath)
}

// recvPath: the full path of the token on the destination after receiving `path` sent from srcID to dstID.
func recvPath(path, srcID, dstID string) (string, bool) {
	pre := port + "/" + srcID + "/"
	if strings.HasPrefix(path, pre) {
		return path[len(pre):], true
	}
	return port + "/" + dstID + "/" + path, false
}

func (s *Sim) pathOf(chain int, bank string) string {
	if !strings.HasPrefix(bank, "ibc/") {
		return bank
	}
	return s.paths[chain][bank]
}

// ---------------------------------------------------------------------------------------------
// sending

type SendOpt struct {
	Lane           *Lane
	SrcSide        int
	Sender         int
	Denom          string // bank denom on the source
	Amt            sdkmath.Int
	Receiver       string
	Memo           string
	Soon           bool
	Hours          int    // 0 = never (v1 height far away) / a few hours (v2)
	Encoding       string // v2 payload encoding
	ViaMsgTransfer bool   // alias / v2 lanes: send with MsgTransfer (UseAliasing / client id) instead of MsgSendPacket
}

func (s *Sim) timeoutFor(l *Lane, srcSide int, soon bool, hours int) (clienttypes.Height, uint64) {
	now := s.W.Coord.CurrentTime
	if l.Kind != "v1" {
		if soon {
			return clienttypes.ZeroHeight(), uint64(now.Unix()) + uint64(20+s.R.Intn(40))
		}
		if hours == 0 {
			hours = 1 + s.R.Intn(3)
		}
		return clienttypes.ZeroHeight(), uint64(now.Unix()) + 3600*uint64(hours) - uint64(s.R.Intn(1800))
	}
	dst := s.Ch[l.Ends[1-srcSide].Chain]
	rev := clienttypes.ParseChainID(dst.ChainID)
	if soon {
		if s.R.Bool() {
			return clienttypes.NewHeight(rev, uint64(dst.App.LastBlockHeight())+uint64(3+s.R.Intn(4))), 0
		}
		return clienttypes.ZeroHeight(), uint64(now.Add(time.Duration(20+s.R.Intn(40)) * time.Second).UnixNano())
	}
	if hours > 0 {
		return clienttypes.ZeroHeight(), uint64(now.Add(time.Duration(hours)*time.Hour - time.Duration(s.R.Intn(1800))*time.Second).UnixNano())
	}
	return clienttypes.NewHeight(rev, uint64(dst.App.LastBlockHeight())+100000), 0
}

// Send submits a transfer and returns the outcome; the packet itself is picked up by observe().
func (s *Sim) Send(o SendOpt) *kit.Outcome {
	src := o.Lane.Ends[o.SrcSide].Chain
	ch := s.Ch[src]
	th, tt := s.timeoutFor(o.Lane, o.SrcSide, o.Soon, o.Hours)
	sender := ch.Addr(o.Sender).String()
	coin := sdk.Coin{Denom: o.Denom, Amount: o.Amt}
	var msg sdk.Msg
	switch {
	case o.Lane.Kind == "v1":
		msg = transfertypes.NewMsgTransfer(port, o.Lane.Ends[o.SrcSide].ID, coin, sender, o.Receiver, th, tt, o.Memo)
	case o.ViaMsgTransfer:
		path := s.pathOf(src, o.Denom)
		s.pendingV2 = &ftpd{Denom: path, Amount: coin.Amount.String(), Sender: sender, Receiver: o.Receiver, Memo: o.Memo}
		msg = transfertypes.NewMsgTransferWithEncoding(port, o.Lane.Ends[o.SrcSide].ID, coin, sender, o.Receiver, clienttypes.ZeroHeight(), tt, o.Memo, o.Encoding, o.Lane.Kind == "alias")
	default:
		path := s.pathOf(src, o.Denom)
		data := transfertypes.NewFungibleTokenPacketData(path, coin.Amount.String(), sender, o.Receiver, o.Memo)
		enc := o.Encoding
		if enc == "" {
			enc = transfertypes.EncodingProtobuf
		}
		var bz []byte
		var err error
		switch enc {
		case transfertypes.EncodingJSON:
			bz, err = json.Marshal(data)
		case transfertypes.EncodingABI:
			bz, err = transfertypes.EncodeABIFungibleTokenPacketData(&data)
		default:
			bz, err = proto.Marshal(&data)
		}
		if err != nil {
			s.log("encode failed: %v", err)
			return nil
		}
		s.pendingV2 = &ftpd{Denom: path, Amount: coin.Amount.String(), Sender: sender, Receiver: o.Receiver, Memo: o.Memo}
		pl := channeltypesv2.NewPayload(port, port, transfertypes.V1, enc, bz)
		msg = channeltypesv2.NewMsgSendPacket(o.Lane.Ends[o.SrcSide].ID, tt, sender, pl)
	}
	s.curKind = "send"
	out := ch.Deliver(ch.Acct(o.Sender), msg)
	s.curKind, s.pendingV2 = "", nil
	s.log("send %s chain%d %s acct%d %s -> %s memo=%q ok=%v %s", o.Lane.Kind, src, o.Lane.Ends[o.SrcSide].ID, o.Sender, clip(coin.String(), 40), shortAddr(o.Receiver), clip(o.Memo, 50), out.OK(), clip(out.Log, 110))
	return out
}

func clip(s string, n int) string {
	if len(s) > n {
		return s[:n] + "…"
	}
	return s
}

func shortAddr(a string) string {
	if len(a) > 14 {
		return a[:10] + "…" + a[len(a)-4:]
	}
	return a
}

// ---------------------------------------------------------------------------------------------
// relaying

func (s *Sim) update(l *Lane, side int) error {
	var err error
	if e := kit.Try(func() { err = l.ep(side).UpdateClient() }); e != nil {
		return e
	}
	return err
}

func (s *Sim) relayer(chain int) (ibctesting.SenderAccount, string) {
	a := s.Ch[chain].Acct(5 + s.R.Intn(5))
	return a, a.SenderAccount.GetAddress().String()
}

func (s *Sim) deliver(chain int, acct ibctesting.SenderAccount, msg sdk.Msg, kind string, p *TPkt) *kit.Outcome {
	s.curKind = kind
	defer func() { s.curKind = "" }()
	o := s.Ch[chain].Deliver(acct, msg)
	s.log("%s %v on chain%d ok=%v %s", kind, p, chain, o.OK(), clip(o.Log, 100))
	return o
}

func (s *Sim) Recv(p *TPkt) *kit.Outcome {
	dside := 1 - p.SrcSide
	if err := s.update(p.Lane, dside); err != nil {
		s.log("update failed: %v", err)
	}
	acct, addr := s.relayer(p.dst())
	var msg sdk.Msg
	if p.IsV2 {
		proof, ph := s.Ch[p.src()].QueryProof(hostv2.PacketCommitmentKey(p.V2.SourceClient, p.Seq))
		msg = channeltypesv2.NewMsgRecvPacket(p.V2, proof, ph, addr)
	} else {
		proof, ph := s.Ch[p.src()].QueryProof(host.PacketCommitmentKey(p.V1.SourcePort, p.V1.SourceChannel, p.Seq))
		msg = channeltypes.NewMsgRecvPacket(p.V1, proof, ph, addr)
	}
	return s.deliver(p.dst(), acct, msg, "recv", p)
}

func (s *Sim) Ack(p *TPkt) *kit.Outcome {
	if err := s.update(p.Lane, p.SrcSide); err != nil {
		s.log("update failed: %v", err)
	}
	acct, addr := s.relayer(p.src())
	var msg sdk.Msg
	if p.IsV2 {
		if p.AckV2 == nil {
			return nil
		}
		proof, ph := s.Ch[p.dst()].QueryProof(hostv2.PacketAcknowledgementKey(p.V2.DestinationClient, p.Seq))
		msg = channeltypesv2.NewMsgAcknowledgement(p.V2, *p.AckV2, proof, ph, addr)
	} else {
		if p.AckV1 == nil {
			return nil
		}
		proof, ph := s.Ch[p.dst()].QueryProof(host.PacketAcknowledgementKey(p.V1.DestinationPort, p.V1.DestinationChannel, p.Seq))
		msg = channeltypes.NewMsgAcknowledgement(p.V1, p.AckV1, proof, ph, addr)
	}
	return s.deliver(p.src(), acct, msg, "ack", p)
}

func (s *Sim) Timeout(p *TPkt) *kit.Outcome {
	if err := s.update(p.Lane, p.SrcSide); err != nil {
		s.log("update failed: %v", err)
	}
	acct, addr := s.relayer(p.src())
	var msg sdk.Msg
	if p.IsV2 {
		proof, ph := s.Ch[p.dst()].QueryProof(hostv2.PacketReceiptKey(p.V2.DestinationClient, p.Seq))
		msg = channeltypesv2.NewMsgTimeout(p.V2, proof, ph, addr)
	} else {
		proof, ph := s.Ch[p.dst()].QueryProof(host.PacketReceiptKey(p.V1.DestinationPort, p.V1.DestinationChannel, p.Seq))
		msg = channeltypes.NewMsgTimeout(p.V1, 1, proof, ph, addr)
	}
	return s.deliver(p.src(), acct, msg, "timeout", p)
}

func (s *Sim) elapsed(p *TPkt) bool {
	d := s.Ch[p.dst()]
	t := d.LatestCommittedHeader.GetTime()
	if p.IsV2 {
		return uint64(t.Unix()) >= p.V2.TimeoutTimestamp
	}
	th := p.V1.TimeoutHeight
	if !th.IsZero() && uint64(d.App.LastBlockHeight()) >= th.RevisionHeight {
		return true
	}
	return p.V1.TimeoutTimestamp != 0 && uint64(t.UnixNano()) >= p.V1.TimeoutTimestamp
}

func (s *Sim) soon(p *TPkt) bool {
	d := s.Ch[p.dst()]
	if p.IsV2 {
		return int64(p.V2.TimeoutTimestamp)-s.W.Coord.CurrentTime.Unix() < 200
	}
	if !p.V1.TimeoutHeight.IsZero() && int64(p.V1.TimeoutHeight.RevisionHeight)-d.App.LastBlockHeight() < 12 {
		return true
	}
	return p.V1.TimeoutTimestamp != 0 && int64(p.V1.TimeoutTimestamp)-s.W.Coord.CurrentTime.UnixNano() < int64(200*time.Second)
}

func (s *Sim) Advance(p *TPkt) {
	for i := 0; i < 45 && !s.elapsed(p); i++ {
		s.Ch[p.dst()].Commit()
	}
}

// ---------------------------------------------------------------------------------------------
// event parsing (truth log of what chains really emitted)

func attr(ev abci.Event, key string) (string, bool) {
	for _, a := range ev.Attributes {
		if a.Key == key {
			return a.Value, true
		}
	}
	return "", false
}

type ftpd struct {
	Denom    string `json:"denom"`
	Amount   string `json:"amount"`
	Sender   string `json:"sender"`
	Receiver string `json:"receiver"`
	Memo     string `json:"memo"`
}

func (s *Sim) laneFor(chain int, id, kind string) (*Lane, int) {
	for _, l := range s.Lanes {
		if l.Kind != kind {
			continue
		}
		if sd := l.side(chain); sd >= 0 && l.Ends[sd].ID == id {
			return l, sd
		}
	}
	return nil, -1
}

func sortedKeys[V any](m map[string]V) []string {
	ks := make([]string, 0, len(m))
	for k := range m {
		ks = append(ks, k)
	}
	sort.Strings(ks)
	return ks
}

func parseU(s string) uint64 { n, _ := strconv.ParseUint(s, 10, 64); return n }

func (s *Sim) lookupSent(chain int, id string, seq uint64, v2 bool) *TPkt {
	for _, q := range s.Pkts {
		if q.src() == chain && q.srcID() == id && q.Seq == seq && q.IsV2 == v2 {
			return q
		}
	}
	return nil
}

func (s *Sim) pick(f func(p *TPkt) bool) *TPkt {
	var c []*TPkt
	for _, p := range s.Pkts {
		if f(p) {
			c = append(c, p)
		}
	}
	if len(c) == 0 {
		return nil
	}
	return c[s.R.Intn(len(c))]
}
