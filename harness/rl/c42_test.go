package rl

import (
	"fmt"
	"strings"
	"testing"

	sdkmath "cosmossdk.io/math"

	sdk "github.com/cosmos/cosmos-sdk/types"

	rlkeeper "github.com/cosmos/ibc-go/v11/modules/apps/rate-limiting/keeper"
	rltypes "github.com/cosmos/ibc-go/v11/modules/apps/rate-limiting/types"
	transfertypes "github.com/cosmos/ibc-go/v11/modules/apps/transfer/types"

	"verif/harness/kit"
)

const c42Rule = "cases = worlds of three real chains (A-B: v1 channel, its v2 alias, v2 client pair; B-C: v1 channel and alias; channel identifiers differ between the two ends); per case a series of probes, each for one generated denomination " +
	"(plain native, native with '/' that is not a trace, native shaped like port/channel-N/x or port/clienttype-N/x incl. the lane's own identifiers, vouchers received by earlier probes going onward or returning) on one lane and direction: " +
	"(1) a transfer without limits shows from bank balances which denomination ICS-20 debits on the source and credits on the destination; (2) with generous limits placed on exactly those bank denominations the next transfer must raise their outflow / inflow by its amount and leave a pending marker under that denomination; " +
	"(3) with a 0 % quota on the bank denomination the transfer must be refused on the source, respectively answered with an error acknowledgement on the destination, and the refund must come off the same limit; " +
	"distinct = distinct (denomination shape class, lane kind, outcome) classes; non-trivial = probes whose first transfer was accepted by the origin"

// denomination shapes -----------------------------------------------------------------------------------------

func genWord(r *kit.Rng) string {
	return kit.Pick(r, []string{"foo", "abc", "uatom", "stk", "Bar9", "pool", "gamm"})
}

// genNative returns a native bank denomination and its shape class (known by construction).
func genNative(r *kit.Rng, ids []string) (string, string) {
	hop := func() string {
		switch r.Intn(5) {
		case 0:
			return kit.Pick(r, ids) // an identifier that really exists in this world
		case 1:
			return fmt.Sprintf("07-tendermint-%d", r.Intn(4))
		case 2:
			return fmt.Sprintf("client-%d", r.Intn(3))
		default:
			return fmt.Sprintf("channel-%d", r.Intn(60))
		}
	}
	portS := func() string { return kit.Pick(r, []string{"transfer", "transfer", "pp", "icahost", "x_y"}) }
	switch r.Intn(12) {
	case 0, 1, 2:
		return "u" + genWord(r) + fmt.Sprint(r.Intn(9)), "native-plain"
	case 3:
		return genWord(r) + "/" + genWord(r) + "/" + fmt.Sprint(r.Intn(90)), "native-slashes-not-a-trace"
	case 4:
		return genWord(r) + "/" + genWord(r), "native-two-segments-plain"
	case 5, 6:
		// two segments only: by the path grammar never a trace on the origin, whatever the second segment looks like
		return genWord(r) + "/" + hop(), "native-two-segments-second-is-channel-or-client-id"
	case 7:
		return portS() + "/" + hop() + "/" + portS() + "/" + hop() + "/" + genWord(r), "native-denom-parses-as-trace"
	case 8:
		return portS() + "/" + hop() + "/" + genWord(r) + "/" + genWord(r), "native-denom-parses-as-trace"
	default:
		return portS() + "/" + hop() + "/" + genWord(r), "native-denom-parses-as-trace"
	}
}

// parsesAsTrace: by the ICS-20 path grammar a denomination with at least three segments whose second segment is a
// channel or client identifier carries a hop (harness-side classification of the generated input).
func parsesAsTrace(d string) bool {
	segs := strings.Split(d, "/")
	return len(segs) >= 3 && isHopID(segs[1])
}

// world helpers -------------------------------------------------------------------------------------------------

type probeWorld struct {
	*Sim
	c    *kit.Check
	seen map[string]int
}

type holding struct {
	chain, acct int
	denom, path string
	class       string
	arrival     *Lane
}

// violate lists every signature a few times and counts the repetitions (a defect of one input class shows up in every
// probe of that class; the list must stay readable and must not crowd out other signatures).
func (w *probeWorld) violate(sig, what string, witness any) {
	w.seen[sig]++
	if w.seen[sig] > 3 {
		w.c.Inc("violations_repeating_a_listed_signature")
		return
	}
	w.c.Violate(sig, what, witness)
}

func (w *probeWorld) balances(chain int, addr sdk.AccAddress) sdk.Coins {
	ch := w.Ch[chain]
	return ch.Sim.BankKeeper.GetAllBalances(ch.GetContext(), addr)
}

// moved returns the denominations whose balance changed by exactly delta (positive = gained).
func moved(before, after sdk.Coins, delta sdkmath.Int) (hit []string, other []string) {
	seen := map[string]bool{}
	for _, c := range append(append(sdk.Coins{}, before...), after...) {
		if seen[c.Denom] {
			continue
		}
		seen[c.Denom] = true
		d := after.AmountOf(c.Denom).Sub(before.AmountOf(c.Denom))
		switch {
		case d.Equal(delta):
			hit = append(hit, c.Denom)
		case !d.IsZero():
			other = append(other, fmt.Sprintf("%s:%s", c.Denom, d))
		}
	}
	return
}

func (w *probeWorld) adm(chain int, what string, f func(ctx sdk.Context, srv rltypes.MsgServer) error) bool {
	ch := w.Ch[chain]
	srv := rlkeeper.NewMsgServerImpl(ch.Sim.RateLimitKeeper)
	o := ch.InBlock(func(ctx sdk.Context) error { return f(ctx, srv) })
	w.log("admin chain%d %s ok=%v %s", chain, what, o.Err == nil, clip(o.Log, 80))
	return o.Err == nil
}

func (w *probeWorld) setLimit(chain int, denom, id string, send, recv int64) bool {
	ch := w.Ch[chain]
	if _, found := ch.Sim.RateLimitKeeper.GetRateLimit(ch.GetContext(), denom, id); found {
		return w.adm(chain, fmt.Sprintf("update %s@%s %d/%d", clip(denom, 30), id, send, recv), func(ctx sdk.Context, srv rltypes.MsgServer) error {
			_, err := srv.UpdateRateLimit(ctx, &rltypes.MsgUpdateRateLimit{Signer: authority, Denom: denom, ChannelOrClientId: id, MaxPercentSend: pct(send), MaxPercentRecv: pct(recv), DurationHours: 24})
			return err
		})
	}
	return w.adm(chain, fmt.Sprintf("add %s@%s %d/%d", clip(denom, 30), id, send, recv), func(ctx sdk.Context, srv rltypes.MsgServer) error {
		_, err := srv.AddRateLimit(ctx, &rltypes.MsgAddRateLimit{Signer: authority, Denom: denom, ChannelOrClientId: id, MaxPercentSend: pct(send), MaxPercentRecv: pct(recv), DurationHours: 24})
		return err
	})
}

func (w *probeWorld) dropLimit(chain int, denom, id string) {
	w.adm(chain, "remove "+clip(denom, 30)+"@"+id, func(ctx sdk.Context, srv rltypes.MsgServer) error {
		_, err := srv.RemoveRateLimit(ctx, &rltypes.MsgRemoveRateLimit{Signer: authority, Denom: denom, ChannelOrClientId: id})
		return err
	})
}

func (w *probeWorld) flow(chain int, denom, id string) (in, out sdkmath.Int, ok bool) {
	ch := w.Ch[chain]
	rl, found := ch.Sim.RateLimitKeeper.GetRateLimit(ch.GetContext(), denom, id)
	if !found {
		return sdkmath.ZeroInt(), sdkmath.ZeroInt(), false
	}
	return rl.Flow.Inflow, rl.Flow.Outflow, true
}

func (w *probeWorld) hasSendMarker(chain int, id string, seq uint64, denom string) bool {
	ch := w.Ch[chain]
	all, err := ch.Sim.RateLimitKeeper.GetAllPendingSendPackets(ch.GetContext())
	if err != nil {
		return false
	}
	want := fmt.Sprintf("%s/%d/%s", id, seq, denom)
	for _, m := range all {
		if m == want {
			return true
		}
	}
	return false
}

type leg struct {
	sent     bool
	p        *TPkt
	debited  string // bank denom taken from the sender
	credited string // bank denom given to the receiver ("" = nothing credited)
	recvRes  string
}

// transfer sends amt of denom from (src chain, acct) over lane and, if relay, relays it to the end; it reports from
// bank balances what was debited and credited.
func (w *probeWorld) transfer(lane *Lane, side, acct int, denom string, amt int64, recvAcct int, viaMsgTransfer, relay bool) leg {
	var lg leg
	src, dst := lane.Ends[side].Chain, lane.Ends[1-side].Chain
	sender, receiver := w.Ch[src].Addr(acct), w.Ch[dst].Addr(recvAcct)
	b0 := w.balances(src, sender)
	before := len(w.Pkts)
	o := w.Send(SendOpt{Lane: lane, SrcSide: side, Sender: acct, Denom: denom, Amt: sdkmath.NewInt(amt), Receiver: receiver.String(), ViaMsgTransfer: viaMsgTransfer, Encoding: transfertypes.EncodingJSON})
	if o == nil || !o.OK() || len(w.Pkts) == before {
		return lg
	}
	lg.sent, lg.p = true, w.Pkts[len(w.Pkts)-1]
	hit, other := moved(b0, w.balances(src, sender), sdkmath.NewInt(-amt))
	if len(hit) == 1 && len(other) == 0 {
		lg.debited = hit[0]
	} else {
		lg.debited = fmt.Sprintf("?%v%v", hit, other)
	}
	if !relay {
		return lg
	}
	r0 := w.balances(dst, receiver)
	w.Recv(lg.p)
	lg.recvRes = lg.p.RecvResult
	if hit, _ := moved(r0, w.balances(dst, receiver), sdkmath.NewInt(amt)); len(hit) == 1 {
		lg.credited = hit[0]
	}
	if lg.p.AckV1 != nil || lg.p.AckV2 != nil {
		w.Ack(lg.p)
	}
	return lg
}

// probe runs the three steps for one holding on one lane; it returns the voucher the receiver now holds (if any).
func (w *probeWorld) probe(h holding, lane *Lane, viaMsgTransfer bool) *holding {
	c := w.c
	side := lane.side(h.chain)
	X, Y := h.chain, lane.Ends[1-side].Chain
	idX, idY := lane.Ends[side].ID, lane.Ends[1-side].ID
	class := h.class
	how := lane.Kind
	if viaMsgTransfer && lane.Kind != "v1" {
		how += "-msgtransfer"
	}
	ev := func(outcome string) { c.Eval(class + "|" + how + "|" + outcome) }
	witness := func() map[string]any {
		return map[string]any{"denom": h.denom, "path": h.path, "class": class, "lane": how, "source": fmt.Sprintf("chain%d %s", X, idX), "destination": fmt.Sprintf("chain%d %s", Y, idY), "trace_tail": w.tail(30)}
	}
	bal := w.Ch[X].Bal(w.Ch[X].Addr(h.acct), h.denom)
	if !bal.IsInt64() || bal.Int64() < 8 {
		c.Inc("holding_too_small")
		return nil
	}
	unit := int(min64(bal.Int64()/5, 60))
	a1, a2, a3 := int64(1+w.R.Intn(unit)), int64(1+w.R.Intn(unit)), int64(1+w.R.Intn(unit))
	w.log("--- probe %s %q from chain%d over %s (%s→%s)", class, clip(h.denom, 50), X, how, idX, idY)

	// step 1: no limits — which denominations does ICS-20 move?
	l1 := w.transfer(lane, side, h.acct, h.denom, a1, 2, viaMsgTransfer, true)
	if !l1.sent {
		c.Inc("origin_refused_denomination")
		c.Eval("")
		return nil
	}
	c.Inc("probes")
	c.Inc("probes_" + lane.Kind)
	if l1.debited != h.denom {
		// ICS-20 itself took another denomination than the coin that was asked for: outside this check's reach
		c.Inc("debit_not_identified")
		c.Inconcl(fmt.Sprintf("probe %q: debit not identified (%s)", h.denom, l1.debited))
		return nil
	}
	D, V := l1.debited, l1.credited
	var next *holding
	if V != "" {
		full, home := recvPath(l1.p.Path, idX, idY)
		cls := "voucher-of(" + class + ")"
		if home {
			cls = "returned-home(" + class + ")"
		}
		if strings.HasPrefix(V, "ibc/") {
			w.paths[Y][V] = full
		}
		next = &holding{chain: Y, acct: 2, denom: V, path: full, class: cls, arrival: lane}
		c.Inc("first_leg_credited")
	} else {
		c.Inc("first_leg_not_credited")
	}

	// step 2: generous limits on exactly the bank denominations that moved
	okX := w.setLimit(X, D, idX, 100, 100)
	okY := V != "" && w.setLimit(Y, V, idY, 100, 100)
	if !okX {
		c.Inc("limit_not_addable_on_source")
	}
	_, out0, _ := w.flow(X, D, idX)
	in0, _, _ := w.flow(Y, V, idY)
	l2 := w.transfer(lane, side, h.acct, h.denom, a2, 2, viaMsgTransfer, false)
	if !l2.sent {
		c.Inc("second_transfer_refused")
		ev("second-refused")
		w.cleanup(X, D, idX, Y, V, idY)
		return next
	}
	if okX {
		_, out1, _ := w.flow(X, D, idX)
		c.Inc("send_charge_checks")
		switch {
		case l2.debited != D:
			c.Inc("debit_changed_between_transfers")
		case !out1.Sub(out0).Equal(sdkmath.NewInt(a2)):
			ev("send-charged-elsewhere")
			w.violate("C42|limiter-charges-other-denom|"+class, fmt.Sprintf("send over %s: ICS-20 debited %d of bank denom %q on chain %d, but the outflow of the rate limit on (%q, %s) moved by %s", how, a2, D, X, D, idX, out1.Sub(out0)), witness())
		case !w.hasSendMarker(X, idX, l2.p.Seq, D):
			ev("send-marker-elsewhere")
			w.violate("C42|limiter-records-packet-under-other-denom|"+class, fmt.Sprintf("send over %s: outflow of (%q, %s) rose but no pending marker %s/%d/%s exists", how, D, idX, idX, l2.p.Seq, D), witness())
		default:
			c.Inc("send_charged_to_bank_denom")
		}
	}
	// relay the second transfer and look at the destination
	recvAddr := w.Ch[Y].Addr(2)
	r0 := w.balances(Y, recvAddr)
	w.Recv(l2.p)
	hit, _ := moved(r0, w.balances(Y, recvAddr), sdkmath.NewInt(a2))
	if okY && len(hit) == 1 {
		in1, _, _ := w.flow(Y, V, idY)
		c.Inc("recv_charge_checks")
		switch {
		case hit[0] != V:
			c.Inc("credit_changed_between_transfers")
		case !in1.Sub(in0).Equal(sdkmath.NewInt(a2)):
			ev("recv-charged-elsewhere")
			w.violate("C42|limiter-charges-other-denom|"+class, fmt.Sprintf("receive over %s: ICS-20 credited %d of bank denom %q on chain %d, but the inflow of the rate limit on (%q, %s) moved by %s", how, a2, V, Y, V, idY, in1.Sub(in0)), witness())
		default:
			c.Inc("recv_charged_to_bank_denom")
		}
	}
	if l2.p.AckV1 != nil || l2.p.AckV2 != nil {
		w.Ack(l2.p)
	}

	// step 3a: a 0 % send quota on the bank denomination must stop the transfer at the source
	if okX && w.setLimit(X, D, idX, 0, 100) {
		c.Inc("zero_send_quota_checks")
		l3 := w.transfer(lane, side, h.acct, h.denom, a3, 2, viaMsgTransfer, false)
		if l3.sent {
			ev("zero-send-quota-bypassed")
			w.violate("C42|zero-quota-on-bank-denom-does-not-block|"+class, fmt.Sprintf("send over %s: a 0%% send quota on (%q, %s) did not stop a transfer that debited %q", how, D, idX, l3.debited), witness())
			w.Recv(l3.p)
			if l3.p.AckV1 != nil || l3.p.AckV2 != nil {
				w.Ack(l3.p)
			}
		} else {
			c.Inc("zero_send_quota_blocked")
		}
		w.setLimit(X, D, idX, 100, 100)
	}
	// step 3b: a 0 % receive quota on the credited bank denomination must turn the receive into an error
	// acknowledgement, and the refund must come off the limit that was charged on the source
	if okY && w.setLimit(Y, V, idY, 100, 0) {
		c.Inc("zero_recv_quota_checks")
		_, o0, _ := w.flow(X, D, idX)
		r0 := w.balances(Y, recvAddr)
		l4 := w.transfer(lane, side, h.acct, h.denom, a3, 2, viaMsgTransfer, true)
		if l4.sent {
			gained, _ := moved(r0, w.balances(Y, recvAddr), sdkmath.NewInt(a3))
			if len(gained) > 0 {
				ev("zero-recv-quota-bypassed")
				w.violate("C42|zero-quota-on-bank-denom-does-not-block|"+class, fmt.Sprintf("receive over %s: a 0%% receive quota on (%q, %s) did not stop a receive that credited %v", how, V, idY, gained), witness())
			} else {
				c.Inc("zero_recv_quota_blocked")
				if _, o1, ok := w.flow(X, D, idX); okX && ok && l4.p.Terminal != "" {
					c.Inc("refund_charge_checks")
					if !o1.Equal(o0) {
						ev("refund-charged-elsewhere")
						w.violate("C42|refund-charged-to-other-denom|"+class, fmt.Sprintf("send over %s refused by the destination: outflow of (%q, %s) was %s before the transfer and is %s after its refund", how, D, idX, o0, o1), witness())
					}
				}
			}
		}
	}
	ev("done")
	w.cleanup(X, D, idX, Y, V, idY)
	return next
}

func (w *probeWorld) cleanup(X int, D, idX string, Y int, V, idY string) {
	w.dropLimit(X, D, idX)
	if V != "" {
		w.dropLimit(Y, V, idY)
	}
}

func TestC42(t *testing.T) {
	c := kit.NewCheck(t, "C42", "exploration", c42Rule)
	defer c.Finish()
	c.Assume("bank balances are the ground truth for what ICS-20 moved; rate limits are administered through the module's msg server with the authority address; application stack as wired in testing/simapp")
	for k, v := range map[string]int64{
		"probes": 35, "directed_two_hop_routes": 8, "probes_v1": 20, "probes_alias": 7, "probes_v2": 2, "send_charge_checks": 35, "recv_charge_checks": 20, "send_charged_to_bank_denom": 25, "recv_charged_to_bank_denom": 18,
		"zero_send_quota_checks": 30, "zero_send_quota_blocked": 15, "zero_recv_quota_checks": 20, "zero_recv_quota_blocked": 20, "refund_charge_checks": 15, "origin_refused_denomination": 3,
	} {
		c.Floor(k, v)
	}
	n := c.N(8, 20)
	seen := map[string]int{}
	for i := 0; i < n; i++ {
		if c.SkipCase(i) {
			continue
		}
		r := c.CaseRng(i)
		err := kit.Try(func() {
			topo := Line3()
			topo.WideIDs = i%2 == 1
			s := NewSim(c, r, topo)
			s.quiet = true
			if topo.WideIDs {
				c.Inc("worlds_with_prefix_related_channel_ids")
			}
			w := &probeWorld{Sim: s, c: c, seen: seen}
			var ids []string
			for ch := range s.Ch {
				ids = append(ids, s.idsOn(ch)...)
			}
			var held []holding
			nNative := 10 + r.Intn(4)
			for j := 0; j < nNative; j++ {
				d, class := genNative(r, ids)
				if sdk.ValidateDenom(d) != nil {
					c.Inc("bank_rejects_denom")
					continue
				}
				if parsesAsTrace(d) != (class == "native-denom-parses-as-trace") {
					class = "native-misclassified-by-generator"
				}
				chain := r.Intn(len(s.Ch))
				if kit.Try(func() { s.Ch[chain].Fund(s.Ch[chain].Addr(1), d, 1000) }) != nil {
					c.Inc("fund_failed")
					continue
				}
				lanes := s.lanesFrom(chain, "v1", "v1", "v1", "alias", "v2")
				if class == "native-plain" {
					lanes = s.lanesFrom(chain, "v1", "alias", "alias", "v2", "v2")
				}
				lane := lanes[r.Intn(len(lanes))]
				if nx := w.probe(holding{chain: chain, acct: 1, denom: d, path: d, class: class}, lane, r.Intn(3) == 0); nx != nil {
					held = append(held, *nx)
				}
			}
			// directed route through the chain in the middle: a token of chain 2 reaches chain 1 and goes onward to chain 0 (and the
			// other way round), so that a voucher whose first hop names one channel of chain 1 leaves over its other channel
			for _, route := range [][3]int{{2, 1, 0}, {0, 1, 2}} {
				d := "u" + genWord(r) + fmt.Sprint(r.Intn(9)) + "r"
				if kit.Try(func() { s.Ch[route[0]].Fund(s.Ch[route[0]].Addr(1), d, 1000) }) != nil {
					continue
				}
				var first, second *Lane
				for _, l := range s.lanesFrom(route[0], "v1", "alias") {
					if l.side(route[1]) >= 0 {
						first = l
					}
				}
				kind2 := kit.Pick(r, []string{"v1", "alias"})
				for _, l := range s.lanesFrom(route[1], kind2) {
					if l.side(route[2]) >= 0 {
						second = l
					}
				}
				if first == nil || second == nil {
					continue
				}
				nx := w.probe(holding{chain: route[0], acct: 1, denom: d, path: d, class: "native-plain"}, first, false)
				if nx == nil {
					continue
				}
				nx.class += "-onward"
				c.Inc("directed_two_hop_routes")
				w.probe(*nx, second, false)
			}
			// vouchers received above go onward or return
			for j := 0; j < 8 && len(held) > 0; j++ {
				k := r.Intn(len(held))
				h := held[k]
				held = append(held[:k], held[k+1:]...)
				lanes := s.lanesFrom(h.chain, "v1", "alias", "v2", "v2")
				lane := lanes[r.Intn(len(lanes))]
				if r.Intn(2) == 0 && h.arrival != nil {
					lane = h.arrival
				}
				if lane.L == h.arrival.L && lane.Ends[lane.side(h.chain)].ID == h.arrival.Ends[h.arrival.side(h.chain)].ID {
					h.class += "-back-over-arrival-channel"
				} else {
					h.class += "-onward"
				}
				if nx := w.probe(h, lane, r.Intn(3) == 0); nx != nil && strings.Count(nx.class, "(") < 3 {
					held = append(held, *nx)
				}
			}
			if i < 3 {
				tr := s.trace
				if len(tr) > 24 {
					tr = tr[:24]
				}
				c.Sample(map[string]any{"case": c.CaseID(i), "ops": tr})
			}
		})
		c.Inc("cases")
		if err != nil {
			c.Inconcl(err.Error())
		}
	}
}
