package rl

import (
	"fmt"
	"math/big"
	"strings"

	sdk "github.com/cosmos/cosmos-sdk/types"

	channeltypes "github.com/cosmos/ibc-go/v11/modules/core/04-channel/types"
	channeltypesv2 "github.com/cosmos/ibc-go/v11/modules/core/04-channel/v2/types"

	"verif/harness/kit"
	"verif/harness/rl/model/ratelimit"
)

type mev struct {
	Kind string // send | recv | timeout | ack-err | ack-ok | async-ack-err | async-ack-ok | dup-undo-send | dup-undo-recv
	Adm  *ratelimit.Admission
	Undo *ratelimit.Undo
	P    *TPkt
}

// sigSeen is shared by all cases of a run: every signature is listed a few times, repetitions are counted (a defect
// of one history class shows up again and again; the list must not crowd out other signatures).
var sigSeen = map[string]int{}

func (s *Sim) viol(sig, what string, witness any) {
	sigSeen[sig]++
	if sigSeen[sig] > 4 {
		s.C.Inc("violations_repeating_a_listed_signature")
		return
	}
	s.C.Violate(sig, what, witness)
}

func bigOf(x interface{ BigInt() *big.Int }) *big.Int { return new(big.Int).Set(x.BigInt()) }

func (s *Sim) sendKey(p *TPkt) ratelimit.Key { return ratelimit.Key{Denom: p.BankSrc, Chan: p.srcID()} }

func (s *Sim) recvKey(p *TPkt) ratelimit.Key {
	full, _ := recvPath(p.Path, p.srcID(), p.dstID())
	bank := bankDenomOf(full)
	if strings.HasPrefix(bank, "ibc/") {
		s.paths[p.dst()][bank] = full
	}
	return ratelimit.Key{Denom: bank, Chan: p.dstID()}
}

// snapSupply remembers the supply of every denomination at the end of the block just observed: it is the channel
// value that a window starting before the next transaction must record.
func (s *Sim) snapSupply(chain int) {
	m := map[string]*big.Int{}
	for _, c := range s.Ch[chain].AllSupply() {
		m[c.Denom] = bigOf(c.Amount)
	}
	s.supply[chain] = m
}

func (s *Sim) supplyOf(chain int, denom string) *big.Int {
	if v, ok := s.supply[chain][denom]; ok {
		return v
	}
	return new(big.Int)
}

// syncEpoch lets the model follow the module's hour-epoch clock (the observed time base of the windows).
func (s *Sim) syncEpoch(chain int) {
	ch := s.Ch[chain]
	he, err := ch.Sim.RateLimitKeeper.GetHourEpoch(ch.GetContext())
	if err != nil {
		s.C.Inc("epoch_unreadable")
		return
	}
	m := s.M[chain]
	if s.supply[chain] == nil {
		m.Epoch = he.EpochNumber
		s.snapSupply(chain)
		return
	}
	for n := m.Epoch + 1; n <= he.EpochNumber; n++ {
		reset := m.HourEpoch(n, func(d string) *big.Int { return s.supplyOf(chain, d) })
		s.C.Inc("hour_epochs")
		s.C.Obs("window_resets_at_epoch", int64(len(reset)))
		if len(reset) > 0 {
			s.log("  chain%d epoch %d: new window for %v", chain, n, reset)
		}
	}
}

// observe runs after every transaction of every chain.
func (s *Sim) observe(chain int, o *kit.Outcome) {
	s.C.Inc("txs")
	if s.quiet {
		s.collect(chain, o)
		return
	}
	s.syncEpoch(chain) // the BeginBlocker of this block ran before the transaction
	s.evs = s.evs[:0]
	if !o.OK() {
		if s.curKind != "" {
			s.C.Inc("rejected_" + s.curKind)
			if s.curKind == "send" && strings.Contains(o.Log, "quota") {
				s.C.Inc("sends_refused_by_quota")
			}
			if s.curKind == "send" && strings.Contains(o.Log, "blacklist") {
				s.C.Inc("sends_refused_by_blacklist")
			}
		}
		s.compare(chain, "rejected-"+s.curKind)
		return
	}
	m := s.M[chain]
	var newPkts []*TPkt
	for _, ev := range o.Res.Events {
		if ev.Type != channeltypes.EventTypeSendPacket {
			continue
		}
		if _, isV2 := attr(ev, channeltypesv2.AttributeKeyEncodedPacketHex); isV2 {
			if p := s.newV2Packet(chain, ev, o); p != nil {
				newPkts = append(newPkts, p)
			}
			continue
		}
		if p := s.newV1Packet(chain, ev); p != nil {
			newPkts = append(newPkts, p)
		}
	}
	var wrote []*TPkt
	for _, ev := range o.Res.Events {
		if ev.Type == channeltypes.EventTypeWriteAck {
			wrote = append(wrote, s.noteWrittenAck(chain, ev)...)
		}
	}
	// 1. the sender side learns the fate of a packet
	for _, cb := range o.CBs {
		if cb.Port != port || (cb.Kind != "ack" && cb.Kind != "timeout") {
			continue
		}
		p := s.lookupSent(chain, cb.ID, cb.Seq, cb.V == 2)
		if p == nil || p.Terminal != "" {
			s.C.Inc("terminal_for_unknown_or_finished_packet")
			continue
		}
		failed := cb.Kind == "timeout"
		if cb.Kind == "ack" {
			failed = !ackIsSuccess(cb.Ack, cb.V == 2)
		}
		k := s.sendKey(p)
		if !failed {
			p.Terminal = "ack-ok"
			m.Final(k, ratelimit.Send, p.Seq)
			s.evs = append(s.evs, mev{Kind: "ack-ok", P: p})
			s.C.Inc("terminal_ack_ok")
			continue
		}
		p.Terminal = "ack-err"
		if cb.Kind == "timeout" {
			p.Terminal = "timeout"
		}
		u := m.UndoSend(k, p.Seq)
		s.evs = append(s.evs, mev{Kind: p.Terminal, Undo: &u, P: p})
		s.C.Inc("terminal_" + p.Terminal)
		s.countUndo(u)
	}
	// 2. receives
	for _, cb := range o.CBs {
		if cb.Port != port || cb.Kind != "recv" {
			continue
		}
		var p *TPkt
		for _, q := range s.Pkts {
			if q.dst() == chain && q.dstID() == cb.ID && q.srcID() == cb.CpID && q.Seq == cb.Seq && q.IsV2 == (cb.V == 2) {
				p = q
			}
		}
		if p == nil || p.Received {
			s.C.Inc("recv_of_unknown_or_received_packet")
			continue
		}
		p.Received, p.RecvResult = true, cb.Result
		s.C.Inc("recv_" + cb.Result)
		if cb.Result == "error" {
			s.evs = append(s.evs, mev{Kind: "recv-error", P: p})
			if strings.Contains(string(cb.Ack), "quota") || strings.Contains(o.Res.String(), "rate_limit_exceeded") {
				s.C.Inc("receives_refused_by_quota")
			}
			continue
		}
		p.AsyncOpen = cb.Result == "async"
		a := m.AcceptRecv(s.recvKey(p), p.Seq, bigOf(p.Amt), p.Sender, p.Receiver, p.AsyncOpen)
		s.evs = append(s.evs, mev{Kind: "recv", Adm: &a, P: p})
		s.judgeAdmission(chain, a, p)
	}
	// 3. packets this transaction committed
	for _, p := range newPkts {
		p.Hop = s.curKind != "send"
		a := m.AcceptSend(s.sendKey(p), p.Seq, bigOf(p.Amt), p.Sender, p.Receiver)
		s.evs = append(s.evs, mev{Kind: "send", Adm: &a, P: p})
		s.judgeAdmission(chain, a, p)
		s.C.Inc("packets_" + p.Lane.Kind)
		if p.Hop {
			s.C.Inc("forward_hops")
		}
	}
	// 4. acknowledgements written later for asynchronously acknowledged receives
	for _, p := range wrote {
		if !p.AsyncOpen {
			continue
		}
		p.AsyncOpen = false
		k := s.recvKey(p)
		if p.AckSuccess != nil && *p.AckSuccess {
			m.Final(k, ratelimit.Recv, p.Seq)
			s.evs = append(s.evs, mev{Kind: "async-ack-ok", P: p})
			s.C.Inc("async_acks_success")
			continue
		}
		u := m.UndoRecv(k, p.Seq)
		s.evs = append(s.evs, mev{Kind: "async-ack-err", Undo: &u, P: p})
		s.C.Inc("async_acks_error")
		s.countUndo(u)
	}
	s.compare(chain, s.curKind)
	s.snapSupply(chain)
}

func (s *Sim) countUndo(u ratelimit.Undo) {
	switch {
	case u.Applied:
		s.C.Inc("refunds_in_window_" + u.Dir.String())
	case u.Stale != "":
		s.C.Inc("refunds_of_packets_of_a_window_ended_by_" + u.Stale)
	case u.Again:
		s.C.Inc("refund_events_for_finished_packets")
	default:
		s.C.Inc("refunds_of_uncounted_packets")
	}
}

// judgeAdmission: "a transfer is accepted only if the resulting net flow in its direction stays within the
// configured percentage of the channel value recorded when the window started" (accepted ⇒ within).
func (s *Sim) judgeAdmission(chain int, a ratelimit.Admission, p *TPkt) {
	if a.Blacklisted {
		s.viol("C41|blacklisted-denomination-accepted|"+a.Dir.String(), fmt.Sprintf("chain %d accepted %s of %v although %s is blacklisted", chain, a.Dir, p, clip(a.Key.Denom, 20)), map[string]any{"trace_tail": s.tail(40)})
	}
	if !a.Counted {
		if a.Whitelisted {
			s.C.Inc("accepted_uncounted_whitelisted_pair")
		} else {
			s.C.Inc("accepted_uncounted_" + a.Dir.String())
			if s.uncounted[chain] == nil {
				s.uncounted[chain] = map[ratelimit.Key]int{}
			}
			s.uncounted[chain][a.Key]++
		}
		return
	}
	s.C.Inc("admissions_judged_" + a.Dir.String())
	if a.AtBoundary {
		s.C.Inc("admissions_exactly_at_quota")
	}
	if a.Exceeds {
		sig := "C41|accepted-above-quota|" + a.Dir.String()
		if a.Value.Sign() == 0 {
			sig += "|channel-value-zero"
		}
		s.viol(sig, fmt.Sprintf("chain %d accepted %s of %v on path %s: net flow %s exceeds %d%% of channel value %s", chain, a.Dir, p, a.Key, a.Net, a.Percent, a.Value),
			map[string]any{"trace_tail": s.tail(40)})
	}
}

func evKinds(evs []any) string {
	var ks []string
	for _, e := range evs {
		ks = append(ks, e.(mev).Kind)
	}
	if len(ks) == 0 {
		return "none"
	}
	return strings.Join(ks, "+")
}

// compare: "the recorded inflow and outflow always equal the amounts accepted in the current window minus those
// later refunded or rejected in that window (never below zero ...)": real Flow of every rate limit vs the model.
func (s *Sim) compare(chain int, after string) {
	ch := s.Ch[chain]
	ctx := ch.GetContext()
	m := s.M[chain]
	real := map[ratelimit.Key]bool{}
	for _, rl := range ch.Sim.RateLimitKeeper.GetAllRateLimits(ctx) {
		k := ratelimit.Key{Denom: rl.Path.Denom, Chan: rl.Path.ChannelOrClientId}
		real[k] = true
		l := m.Limits[k]
		if l == nil {
			s.viol("C41|rate-limit-exists-that-nobody-added", fmt.Sprintf("chain %d has a rate limit on %s the model does not know (after %s)", chain, k, after), map[string]any{"trace_tail": s.tail(30)})
			continue
		}
		in, out, val := bigOf(rl.Flow.Inflow), bigOf(rl.Flow.Outflow), bigOf(rl.Flow.ChannelValue)
		if l.Tainted {
			// a difference on this path was reported in this window: follow the recorded values until the next window
			s.C.Inc("flows_skipped_after_reported_difference")
			l.Adopt(in, out, val)
			continue
		}
		s.C.Inc("flows_compared")
		if in.Sign() < 0 || out.Sign() < 0 {
			s.viol("C41|negative-flow", fmt.Sprintf("chain %d path %s: inflow %s outflow %s", chain, k, in, out), map[string]any{"trace_tail": s.tail(30)})
		}
		if rl.Quota.MaxPercentSend.Int64() != l.MaxSend || rl.Quota.MaxPercentRecv.Int64() != l.MaxRecv || rl.Quota.DurationHours != l.Hours {
			s.viol("C41|quota-differs-from-administered", fmt.Sprintf("chain %d path %s: stored quota %v, administered %d/%d/%dh", chain, k, rl.Quota, l.MaxSend, l.MaxRecv, l.Hours), nil)
			l.MaxSend, l.MaxRecv, l.Hours = rl.Quota.MaxPercentSend.Int64(), rl.Quota.MaxPercentRecv.Int64(), rl.Quota.DurationHours
		}
		bad := false
		if val.Cmp(l.Value) != 0 {
			bad = true
			s.viol("C41|channel-value-differs-from-supply-at-window-start", fmt.Sprintf("chain %d path %s: recorded channel value %s, supply when the window started %s (after %s, events %s)", chain, k, val, l.Value, after, evKinds(s.evs)), map[string]any{"trace_tail": s.tail(40)})
		}
		if out.Cmp(l.Out) != 0 {
			bad = true
			s.flowDiffers(chain, k, "outflow", ratelimit.Send, out, l.Out, after)
		}
		if in.Cmp(l.In) != 0 {
			bad = true
			s.flowDiffers(chain, k, "inflow", ratelimit.Recv, in, l.In, after)
		}
		if bad {
			l.Adopt(in, out, val)
			l.Tainted = true
		}
	}
	for _, k := range m.Keys() {
		if !real[k] {
			s.viol("C41|rate-limit-missing", fmt.Sprintf("chain %d: rate limit on %s vanished (after %s)", chain, k, after), map[string]any{"trace_tail": s.tail(30)})
			m.Remove(k)
		}
	}
}

func clamp0(x *big.Int) *big.Int {
	if x.Sign() < 0 {
		return new(big.Int)
	}
	return x
}

// flowDiffers names the class of history behind a difference, from the model's own knowledge of the events of the
// transaction (never from the module's state).
func (s *Sim) flowDiffers(chain int, k ratelimit.Key, which string, dir ratelimit.Dir, real, model *big.Int, after string) {
	verb := "sent"
	if dir == ratelimit.Recv {
		verb = "received"
	}
	sig := ""
	stale, again := new(big.Int), new(big.Int)
	staleKind := ""
	for _, e := range s.evs {
		ev := e.(mev)
		if ev.Undo == nil || ev.Undo.Key != k || ev.Undo.Dir != dir || ev.Undo.Amt == nil {
			continue
		}
		if ev.Undo.Stale != "" {
			stale.Add(stale, ev.Undo.Amt)
			staleKind = ev.Undo.Stale
		}
		if ev.Undo.Again {
			again.Add(again, ev.Undo.Amt)
		}
	}
	switch {
	case stale.Sign() > 0 && clamp0(new(big.Int).Sub(model, stale)).Cmp(real) == 0:
		switch staleKind {
		case "update":
			sig = "C41|undo-of-packet-" + verb + "-before-rate-limit-update"
		case "remove":
			sig = "C41|undo-of-packet-" + verb + "-before-rate-limit-remove-and-readd"
		default:
			sig = "C41|undo-of-packet-" + verb + "-before-window-reset"
		}
	case again.Sign() > 0 && clamp0(new(big.Int).Sub(model, again)).Cmp(real) == 0:
		sig = "C41|packet-undone-twice-or-after-success"
	default:
		sig = "C41|" + which + "-differs-from-model|events=" + evKinds(s.evs)
	}
	s.viol(sig, fmt.Sprintf("chain %d path %s after %s (events %s): recorded %s %s, accepted-minus-refunded in this window %s", chain, k, after, evKinds(s.evs), which, real, model),
		map[string]any{"trace_tail": s.tail(45)})
}

// collect is the reduced observer of the C42 probes: truth log only.
func (s *Sim) collect(chain int, o *kit.Outcome) {
	if !o.OK() {
		return
	}
	for _, ev := range o.Res.Events {
		if ev.Type != channeltypes.EventTypeSendPacket {
			continue
		}
		if _, isV2 := attr(ev, channeltypesv2.AttributeKeyEncodedPacketHex); isV2 {
			s.newV2Packet(chain, ev, o)
		} else {
			s.newV1Packet(chain, ev)
		}
	}
	for _, ev := range o.Res.Events {
		if ev.Type == channeltypes.EventTypeWriteAck {
			s.noteWrittenAck(chain, ev)
		}
	}
	for _, cb := range o.CBs {
		if cb.Kind == "recv" && cb.Port == port {
			for _, q := range s.Pkts {
				if q.dst() == chain && q.dstID() == cb.ID && q.srcID() == cb.CpID && q.Seq == cb.Seq && q.IsV2 == (cb.V == 2) {
					q.Received, q.RecvResult = true, cb.Result
				}
			}
		}
		if (cb.Kind == "ack" || cb.Kind == "timeout") && cb.Port == port {
			if q := s.lookupSent(chain, cb.ID, cb.Seq, cb.V == 2); q != nil {
				q.Terminal = cb.Kind
			}
		}
	}
}

var _ sdk.Msg
