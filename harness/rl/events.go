package rl

import (
	"bytes"
	"encoding/hex"
	"encoding/json"
	"strings"

	"github.com/cosmos/gogoproto/proto"

	sdkmath "cosmossdk.io/math"

	abci "github.com/cometbft/cometbft/abci/types"

	clienttypes "github.com/cosmos/ibc-go/v11/modules/core/02-client/types"
	channeltypes "github.com/cosmos/ibc-go/v11/modules/core/04-channel/types"
	channeltypesv2 "github.com/cosmos/ibc-go/v11/modules/core/04-channel/v2/types"

	"verif/harness/kit"
)

// newV1Packet turns a send_packet event into a truth packet (user transfers and forward hops alike).
func (s *Sim) newV1Packet(chain int, ev abci.Event) *TPkt {
	var pk channeltypes.Packet
	for _, a := range ev.Attributes {
		switch a.Key {
		case channeltypes.AttributeKeyDataHex:
			pk.Data, _ = hex.DecodeString(a.Value)
		case channeltypes.AttributeKeySequence:
			pk.Sequence = parseU(a.Value)
		case channeltypes.AttributeKeySrcPort:
			pk.SourcePort = a.Value
		case channeltypes.AttributeKeySrcChannel:
			pk.SourceChannel = a.Value
		case channeltypes.AttributeKeyDstPort:
			pk.DestinationPort = a.Value
		case channeltypes.AttributeKeyDstChannel:
			pk.DestinationChannel = a.Value
		case channeltypes.AttributeKeyTimeoutHeight:
			pk.TimeoutHeight, _ = clienttypes.ParseHeight(a.Value)
		case channeltypes.AttributeKeyTimeoutTimestamp:
			pk.TimeoutTimestamp = parseU(a.Value)
		}
	}
	if pk.SourcePort != port {
		return nil
	}
	l, side := s.laneFor(chain, pk.SourceChannel, "v1")
	if l == nil {
		return nil
	}
	var d ftpd
	if err := json.Unmarshal(pk.Data, &d); err != nil {
		return nil
	}
	p := &TPkt{Lane: l, SrcSide: side, Seq: pk.Sequence, V1: pk}
	if !s.fill(p, chain, d) {
		return nil
	}
	s.Pkts = append(s.Pkts, p)
	return p
}

func (s *Sim) newV2Packet(chain int, ev abci.Event, o *kit.Outcome) *TPkt {
	hx, _ := attr(ev, channeltypesv2.AttributeKeyEncodedPacketHex)
	bz, err := hex.DecodeString(hx)
	if err != nil {
		return nil
	}
	var pk channeltypesv2.Packet
	if err := proto.Unmarshal(bz, &pk); err != nil || len(pk.Payloads) != 1 || pk.Payloads[0].SourcePort != port {
		return nil
	}
	kind := "v2"
	if channeltypes.IsValidChannelID(pk.SourceClient) {
		kind = "alias"
	}
	l, side := s.laneFor(chain, pk.SourceClient, kind)
	if l == nil || s.pendingV2 == nil {
		return nil
	}
	p := &TPkt{Lane: l, SrcSide: side, Seq: pk.Sequence, V2: pk, IsV2: true}
	if !s.fill(p, chain, *s.pendingV2) {
		return nil
	}
	s.Pkts = append(s.Pkts, p)
	return p
}

func (s *Sim) fill(p *TPkt, chain int, d ftpd) bool {
	amt, ok := sdkmath.NewIntFromString(d.Amount)
	if !ok {
		return false
	}
	p.Path, p.Amt, p.Sender, p.Receiver, p.Memo = d.Denom, amt, d.Sender, d.Receiver, d.Memo
	p.BankSrc = bankDenomOf(d.Denom)
	if strings.HasPrefix(p.BankSrc, "ibc/") {
		s.paths[chain][p.BankSrc] = d.Denom
	}
	return true
}

// noteWrittenAck records the acknowledgement a destination really wrote (synchronously or later) and
// returns the packets it belongs to.
func (s *Sim) noteWrittenAck(chain int, ev abci.Event) []*TPkt {
	var out []*TPkt
	if hx, ok := attr(ev, channeltypesv2.AttributeKeyEncodedAckHex); ok {
		src, _ := attr(ev, channeltypesv2.AttributeKeySrcClient)
		dst, _ := attr(ev, channeltypesv2.AttributeKeyDstClient)
		sq, _ := attr(ev, channeltypesv2.AttributeKeySequence)
		bz, err := hex.DecodeString(hx)
		if err != nil {
			return nil
		}
		var ack channeltypesv2.Acknowledgement
		if err := proto.Unmarshal(bz, &ack); err != nil {
			return nil
		}
		for _, p := range s.Pkts {
			if p.IsV2 && p.dst() == chain && p.dstID() == dst && p.srcID() == src && p.Seq == parseU(sq) {
				a := ack
				p.AckV2 = &a
				ok := !(len(ack.AppAcknowledgements) == 1 && bytes.Equal(ack.AppAcknowledgements[0], channeltypesv2.ErrorAcknowledgement[:]))
				if ok && len(ack.AppAcknowledgements) == 1 {
					ok = ackIsSuccess(ack.AppAcknowledgements[0], true)
				}
				p.AckSuccess = &ok
				out = append(out, p)
			}
		}
		return out
	}
	hx, ok := attr(ev, channeltypes.AttributeKeyAckHex)
	if !ok {
		return nil
	}
	bz, err := hex.DecodeString(hx)
	if err != nil {
		return nil
	}
	src, _ := attr(ev, channeltypes.AttributeKeySrcChannel)
	dst, _ := attr(ev, channeltypes.AttributeKeyDstChannel)
	sq, _ := attr(ev, channeltypes.AttributeKeySequence)
	for _, p := range s.Pkts {
		if !p.IsV2 && p.dst() == chain && p.dstID() == dst && p.srcID() == src && p.Seq == parseU(sq) {
			p.AckV1 = bz
			ok := ackIsSuccess(bz, false)
			p.AckSuccess = &ok
			out = append(out, p)
		}
	}
	return out
}

func ackIsSuccess(ack []byte, v2 bool) bool {
	if v2 && bytes.Equal(ack, channeltypesv2.ErrorAcknowledgement[:]) {
		return false
	}
	var a struct {
		Result []byte `json:"result"`
		Error  string `json:"error"`
	}
	if err := json.Unmarshal(ack, &a); err != nil {
		return false
	}
	return a.Error == "" && a.Result != nil
}
