package ica

import (
	"fmt"
	"testing"
	"time"

	sdkmath "cosmossdk.io/math"

	sdk "github.com/cosmos/cosmos-sdk/types"
	banktypes "github.com/cosmos/cosmos-sdk/x/bank/types"
	"github.com/cosmos/gogoproto/proto"

	controllertypes "github.com/cosmos/ibc-go/v11/modules/apps/27-interchain-accounts/controller/types"
	icatypes "github.com/cosmos/ibc-go/v11/modules/apps/27-interchain-accounts/types"
	channeltypes "github.com/cosmos/ibc-go/v11/modules/core/04-channel/types"
	ibctesting "github.com/cosmos/ibc-go/v11/testing"
)

func TestProbe(t *testing.T) {
	t0 := time.Now()
	e := NewEnv(t, 1)
	a, b := e.Ch[0], e.Ch[1]
	fmt.Println("world", time.Since(t0))
	cid, hid, ica := e.openICA(a, 1, e.Paths[0], channeltypes.ORDERED, icatypes.EncodingProtobuf)
	fmt.Println("open", cid, hid, ica, time.Since(t0))
	b.Fund(ica, "stake", 1000000)
	msg := &banktypes.MsgSend{FromAddress: ica.String(), ToAddress: b.Addr(5).String(), Amount: sdk.NewCoins(sdk.NewCoin("stake", sdkmath.NewInt(7)))}
	data, err := icatypes.SerializeCosmosTx(a.Sim.AppCodec(), []proto.Message{msg}, icatypes.EncodingProtobuf)
	if err != nil {
		t.Fatal(err)
	}
	pd := icatypes.InterchainAccountPacketData{Type: icatypes.EXECUTE_TX, Data: data}
	o := a.Deliver(a.Acct(1), controllertypes.NewMsgSendTx(a.Addr(1).String(), e.Paths[0].EndpointA.ConnectionID, uint64(time.Hour), pd))
	fmt.Println("send", o.OK(), o.Log, o.DiffString())
	pk, err := ibctesting.ParseV1PacketFromEvents(o.Res.Events)
	if err != nil {
		t.Fatal(err)
	}
	y, rm := e.msgRecv(a, pk)
	t1 := time.Now()
	ro := y.Deliver(relayerOf(y), rm)
	fmt.Println("recv", ro.OK(), ro.Log, time.Since(t1))
	for _, kv := range ro.Diff {
		fmt.Println("  ", kv.String())
	}
	for _, cb := range ro.CBs {
		fmt.Println("  cb", cb.Kind, cb.Port, cb.ID, cb.Seq, cb.Result, string(cb.Ack))
	}
	// wrong signer tx
	o2 := a.Deliver(a.Acct(2), controllertypes.NewMsgSendTx(a.Addr(1).String(), e.Paths[0].EndpointA.ConnectionID, uint64(time.Hour), pd))
	fmt.Println("send wrong signer", o2.OK(), o2.Code, o2.Log, len(o2.Diff))

	// list msgs with multiple signers
	cdc := b.Sim.AppCodec()
	ir := b.Sim.InterfaceRegistry()
	for _, url := range ir.ListImplementations(sdk.MsgInterfaceProtoName) {
		m, err := ir.Resolve(url)
		if err != nil {
			continue
		}
		_ = m
		_ = cdc
		fmt.Println("msg", url)
	}
	gp, _ := b.Sim.GovKeeper.Params.Get(b.GetContext())
	fmt.Println("gov", gp.MinDeposit, gp.VotingPeriod, gp.MaxDepositPeriod)
	fmt.Println("total", time.Since(t0))
}
