package ica

import (
	"crypto/sha256"
	"fmt"
	"sort"
	"strings"
	"time"

	sdkmath "cosmossdk.io/math"

	"github.com/cosmos/cosmos-sdk/crypto/keys/secp256k1"
	sdk "github.com/cosmos/cosmos-sdk/types"
	"github.com/cosmos/cosmos-sdk/x/authz"
	banktypes "github.com/cosmos/cosmos-sdk/x/bank/types"
	"github.com/cosmos/gogoproto/proto"

	controllertypes "github.com/cosmos/ibc-go/v11/modules/apps/27-interchain-accounts/controller/types"
	icatypes "github.com/cosmos/ibc-go/v11/modules/apps/27-interchain-accounts/types"
	channeltypes "github.com/cosmos/ibc-go/v11/modules/core/04-channel/types"
	host "github.com/cosmos/ibc-go/v11/modules/core/24-host"
	ibctesting "github.com/cosmos/ibc-go/v11/testing"
	ibcmock "github.com/cosmos/ibc-go/v11/testing/mock"

	"verif/harness/kit"
)

// ---------------------------------------------------------------------------------------------
// C38: histories of registrations, handshake steps in any order, timeouts, reopenings and send attempts,
// judged by monitors that mirror the channel ends, the active-channel mapping and the account mapping from the
// exact per-transaction state diff of both chains.

type actor struct {
	Name string
	Acc  ibctesting.SenderAccount
	Addr sdk.AccAddress
}

type pendingPkt struct {
	Pk      channeltypes.Packet
	Timeout time.Time
}

// mirror is the harness's copy of the relevant state of one chain, maintained from the transaction diffs.
type mirror struct {
	chans      map[string]channeltypes.Channel // "port/id"
	born       map[string]int                  // step at which the end appeared
	active     map[string]string               // controller store: "port/conn" -> channel id
	activeAt   map[string]int                  // step at which the current active channel was set
	addr       map[string]string               // controller store: "port/conn" -> interchain account address
	hostActive map[string]string               // host store
	hostAddr   map[string]string
}

func newMirror() *mirror {
	return &mirror{chans: map[string]channeltypes.Channel{}, born: map[string]int{}, active: map[string]string{}, activeAt: map[string]int{},
		addr: map[string]string{}, hostActive: map[string]string{}, hostAddr: map[string]string{}}
}

type c38Sim struct {
	c   *kit.Check
	e   *Env
	ch  [2]*kit.Chain
	r   *kit.Rng
	mir [2]*mirror

	owners   []*actor // accounts on chain A that own interchain accounts
	intruder *actor   // account on chain A that owns nothing
	intrB    *actor   // account on chain B

	curSigner [2]sdk.AccAddress
	step      int
	trace     []string
	classes   []string
	pending   []*pendingPkt
	actorNo   *int

	hostileJudged int
	monitorEvents int
}

func (s *c38Sim) log(format string, args ...any) {
	if len(s.trace) < 600 {
		s.trace = append(s.trace, fmt.Sprintf("%d: ", s.step)+fmt.Sprintf(format, args...))
	}
}

func (s *c38Sim) viol(sig, format string, args ...any) {
	tail := s.trace
	if len(tail) > 60 {
		tail = tail[len(tail)-60:]
	}
	s.c.Violate("C38|"+sig, fmt.Sprintf(format, args...), map[string]any{"trace_tail": tail})
}

func newActor(ch *kit.Chain, seed uint64, label string, n *int) *actor {
	*n++
	h := sha256.Sum256([]byte(fmt.Sprintf("c38/%d/%s/%d", seed, label, *n)))
	priv := secp256k1.GenPrivKeyFromSecret(h[:])
	addr := sdk.AccAddress(priv.PubKey().Address())
	ch.Fund(addr, denom, 1_000_000_000)
	acc := ch.Sim.AccountKeeper.GetAccount(ch.GetContext(), addr)
	if acc == nil {
		panic(kit.Abort{Msg: "funded account not created"})
	}
	return &actor{Name: fmt.Sprintf("%s%d", label, *n), Acc: ibctesting.SenderAccount{SenderPrivKey: priv, SenderAccount: acc}, Addr: addr}
}

// newC38Sim starts a case on an existing environment with fresh accounts (so that earlier cases cannot interfere).
func newC38Sim(c *kit.Check, e *Env, r *kit.Rng, actorNo *int) *c38Sim {
	s := &c38Sim{c: c, e: e, ch: e.Ch, r: r, actorNo: actorNo}
	nOwners := 2 + r.Intn(2)
	for i := 0; i < nOwners; i++ {
		s.owners = append(s.owners, newActor(e.Ch[0], c.Seed, "owner", actorNo))
	}
	s.intruder = newActor(e.Ch[0], c.Seed, "intruder", actorNo)
	s.intrB = newActor(e.Ch[1], c.Seed, "intruderB", actorNo)
	for i := 0; i < 2; i++ {
		s.mir[i] = newMirror()
		s.loadMirror(i)
		i := i
		e.Ch[i].OnTx = func(o *kit.Outcome) { s.onTx(i, o) }
	}
	return s
}

func (s *c38Sim) detach() {
	for i := 0; i < 2; i++ {
		s.ch[i].OnTx = nil
	}
}

// loadMirror reads the full committed state once (start of a case, and for the final cross-check).
func (s *c38Sim) readState(i int) *mirror {
	m := newMirror()
	ch := s.ch[i]
	for _, ce := range allChannels(ch) {
		m.chans[ce.Port+"/"+ce.ID] = ce.Ch
	}
	for k, v := range ch.StoreMap("icacontroller") {
		if rest, ok := strings.CutPrefix(k, icatypes.ActiveChannelKeyPrefix+"/"); ok {
			m.active[rest] = string(v)
		} else if rest, ok := strings.CutPrefix(k, icatypes.OwnerKeyPrefix+"/"); ok {
			m.addr[rest] = string(v)
		}
	}
	for k, v := range ch.StoreMap("icahost") {
		if rest, ok := strings.CutPrefix(k, icatypes.ActiveChannelKeyPrefix+"/"); ok {
			m.hostActive[rest] = string(v)
		} else if rest, ok := strings.CutPrefix(k, icatypes.OwnerKeyPrefix+"/"); ok {
			m.hostAddr[rest] = string(v)
		}
	}
	return m
}

func (s *c38Sim) loadMirror(i int) { s.mir[i] = s.readState(i) }

// crossCheck compares the diff-maintained mirror with the full store; a mismatch means the tap lost something.
func (s *c38Sim) crossCheck() bool {
	ok := true
	for i := 0; i < 2; i++ {
		full := s.readState(i)
		m := s.mir[i]
		if len(full.chans) != len(m.chans) || len(full.active) != len(m.active) || len(full.addr) != len(m.addr) || len(full.hostActive) != len(m.hostActive) || len(full.hostAddr) != len(m.hostAddr) {
			ok = false
		}
		for k, v := range full.chans {
			if mv, have := m.chans[k]; !have || mv.State != v.State || mv.Version != v.Version || mv.Ordering != v.Ordering {
				ok = false
			}
		}
		for k, v := range full.active {
			if m.active[k] != v {
				ok = false
			}
		}
		for k, v := range full.addr {
			if m.addr[k] != v {
				ok = false
			}
		}
	}
	return ok
}

func isCtrlPort(p string) bool { return strings.HasPrefix(p, icatypes.ControllerPortPrefix) }

func hop0(c channeltypes.Channel) string {
	if len(c.ConnectionHops) > 0 {
		return c.ConnectionHops[0]
	}
	return ""
}

// ---------------------------------------------------------------------------------------------
// the monitor: runs after every transaction of either chain

func (s *c38Sim) onTx(ci int, o *kit.Outcome) {
	s.step++
	m := s.mir[ci]
	ch := s.ch[ci]
	signer := s.curSigner[ci]
	if signer == nil {
		signer = ch.SenderAccount.GetAddress() // helper-sent transaction (client update)
	}
	cdc := ch.Sim.AppCodec()

	type chg struct {
		key      string
		port, id string
		old      *channeltypes.Channel
		nw       *channeltypes.Channel
	}
	var chgs []chg
	touched := map[string]bool{}
	for _, kv := range o.DiffIn("ibc") {
		k := string(kv.Key)
		if strings.HasPrefix(k, "channelEnds/ports/") {
			parts := strings.Split(k, "/")
			if len(parts) != 5 {
				continue
			}
			c := chg{key: parts[2] + "/" + parts[4], port: parts[2], id: parts[4]}
			if prev, ok := m.chans[c.key]; ok {
				p := prev
				c.old = &p
			}
			if len(kv.New) > 0 {
				var nc channeltypes.Channel
				if err := cdc.Unmarshal(kv.New, &nc); err != nil {
					continue
				}
				c.nw = &nc
			}
			chgs = append(chgs, c)
		}
		if strings.HasPrefix(k, "commitments/ports/") && len(kv.Old) == 0 && len(kv.New) > 0 {
			parts := strings.Split(k, "/")
			if len(parts) >= 3 && isCtrlPort(parts[2]) {
				// a packet was committed on an owner's controller port: the transaction must be signed by that owner
				ownerStr := strings.TrimPrefix(parts[2], icatypes.ControllerPortPrefix)
				s.c.Inc("ica_packets_sent")
				s.monitorEvents++
				if signer.String() != ownerStr {
					s.viol("packet-sent-without-owner-signature", "chain %s: packet committed on %s by a transaction signed by %s", ch.Name, parts[2], signer)
				}
			}
		}
	}

	// ---- checks that need the state before the transaction
	for _, c := range chgs {
		if c.old != nil || c.nw == nil {
			continue
		}
		s.monitorEvents++
		switch {
		case isCtrlPort(c.port):
			s.c.Inc("ctrl_channel_ends_created")
			if c.nw.State != channeltypes.INIT {
				s.viol("controller-port-end-not-started-by-init", "chain %s: channel end %s created in state %s on a controller port", ch.Name, c.key, c.nw.State)
			}
			if c.nw.Counterparty.PortId != icatypes.HostPortID {
				s.viol("controller-handshake-with-non-host-counterparty", "chain %s: channel end %s created with counterparty port %q", ch.Name, c.key, c.nw.Counterparty.PortId)
			}
			ak := c.port + "/" + hop0(*c.nw)
			if act, ok := m.active[ak]; ok {
				if ac, ok := m.chans[c.port+"/"+act]; ok && ac.State != channeltypes.CLOSED {
					s.viol("new-channel-while-active-channel-not-closed", "chain %s: %s created for (%s) while its active channel %s is %s", ch.Name, c.key, ak, act, ac.State)
				} else {
					s.c.Inc("new_channel_after_active_closed")
				}
			}
		case c.port == icatypes.HostPortID:
			s.c.Inc("host_channel_ends_created")
			if c.nw.State != channeltypes.TRYOPEN {
				s.viol("host-port-started-handshake", "chain %s: channel end %s created in state %s on the host port", ch.Name, c.key, c.nw.State)
			}
		}
	}
	// ---- apply
	for _, c := range chgs {
		if c.nw == nil {
			delete(m.chans, c.key)
			continue
		}
		if c.old == nil {
			m.born[c.key] = s.step
		}
		m.chans[c.key] = *c.nw
		if isCtrlPort(c.port) {
			touched[c.port+"/"+hop0(*c.nw)] = true
			if c.nw.State == channeltypes.TRYOPEN {
				s.viol("controller-port-end-in-tryopen", "chain %s: channel end %s on a controller port is TRYOPEN", ch.Name, c.key)
			}
		}
		if c.port == icatypes.HostPortID && c.nw.State == channeltypes.INIT {
			s.viol("host-port-started-handshake", "chain %s: channel end %s on the host port is INIT", ch.Name, c.key)
		}
	}
	// ---- mappings of the controller submodule
	for _, kv := range o.DiffIn("icacontroller") {
		k := string(kv.Key)
		if rest, ok := strings.CutPrefix(k, icatypes.ActiveChannelKeyPrefix+"/"); ok {
			s.monitorEvents++
			old, had := m.active[rest]
			nw := string(kv.New)
			port, conn, _ := strings.Cut(rest, "/")
			if len(kv.New) == 0 {
				s.c.Inc("active_mapping_deleted")
				delete(m.active, rest)
				continue
			}
			nc, okc := m.chans[port+"/"+nw]
			if !okc || hop0(nc) != conn {
				s.viol("active-channel-not-a-channel-of-this-owner-and-connection", "chain %s: active channel of (%s) set to %s which is not a channel of that port over that connection", ch.Name, rest, nw)
			}
			if had && old != nw {
				s.c.Inc("active_channel_replaced")
				oc := m.chans[port+"/"+old]
				when := "replacement-started-after-close"
				if m.born[port+"/"+nw] < m.activeAt[rest] {
					when = "replacement-started-before-previous-activation"
				}
				if oc.State != channeltypes.CLOSED {
					s.viol("active-channel-replaced-while-not-closed|"+when, "chain %s: active channel of (%s) replaced %s -> %s while %s is %s", ch.Name, rest, old, nw, old, oc.State)
				}
				if okc {
					if oc.Ordering != nc.Ordering {
						s.viol("reopen-changed-ordering|"+when, "chain %s: (%s) reopened %s (%s) -> %s (%s)", ch.Name, rest, old, oc.Ordering, nw, nc.Ordering)
					}
					om, e1 := icatypes.MetadataFromVersion(oc.Version)
					nm, e2 := icatypes.MetadataFromVersion(nc.Version)
					if e1 != nil || e2 != nil {
						s.viol("reopen-metadata-unreadable|"+when, "chain %s: (%s) version of %s or %s is not ICS-27 metadata", ch.Name, rest, old, nw)
					} else {
						if om.Address != nm.Address {
							s.viol("reopen-changed-account-address|"+when, "chain %s: (%s) reopened with account %s instead of %s", ch.Name, rest, nm.Address, om.Address)
						}
						om.Address, nm.Address = "", ""
						if om != nm {
							s.viol("reopen-changed-metadata|"+when, "chain %s: (%s) reopened %s %+v -> %s %+v", ch.Name, rest, old, om, nw, nm)
						}
					}
					s.c.Inc("reopenings_checked")
				}
			}
			m.active[rest] = nw
			m.activeAt[rest] = s.step
		} else if rest, ok := strings.CutPrefix(k, icatypes.OwnerKeyPrefix+"/"); ok {
			s.monitorEvents++
			old, had := m.addr[rest]
			nw := string(kv.New)
			s.c.Inc("controller_account_writes")
			if had && old != nw {
				s.viol("controller-account-address-changed", "chain %s: interchain account of (%s) changed %s -> %s", ch.Name, rest, old, nw)
			}
			if len(kv.New) == 0 {
				delete(m.addr, rest)
			} else {
				m.addr[rest] = nw
			}
		}
	}
	for _, kv := range o.DiffIn("icahost") {
		k := string(kv.Key)
		if rest, ok := strings.CutPrefix(k, icatypes.ActiveChannelKeyPrefix+"/"); ok {
			old, had := m.hostActive[rest]
			nw := string(kv.New)
			if had && old != nw {
				if oc, ok := m.chans[icatypes.HostPortID+"/"+old]; ok && oc.State != channeltypes.CLOSED {
					// not judged: the statement's "CLOSED" is read on the controller end (see notes)
					s.c.Inc("host_active_replaced_while_host_end_not_closed")
				}
			}
			if len(kv.New) == 0 {
				delete(m.hostActive, rest)
			} else {
				m.hostActive[rest] = nw
			}
		} else if rest, ok := strings.CutPrefix(k, icatypes.OwnerKeyPrefix+"/"); ok {
			s.monitorEvents++
			old, had := m.hostAddr[rest]
			nw := string(kv.New)
			s.c.Inc("host_account_writes")
			if had && old != nw {
				s.viol("host-account-address-changed", "chain %s: interchain account registered for (%s) changed %s -> %s", ch.Name, rest, old, nw)
			}
			if len(kv.New) == 0 {
				delete(m.hostAddr, rest)
			} else {
				m.hostAddr[rest] = nw
			}
		}
	}
	// ---- at most one OPEN channel per (connection, owner)
	for t := range touched {
		port, conn, _ := strings.Cut(t, "/")
		var open []string
		for k, c := range m.chans {
			if strings.HasPrefix(k, port+"/") && hop0(c) == conn && c.State == channeltypes.OPEN {
				open = append(open, k)
			}
		}
		s.c.Inc("open_uniqueness_checks")
		if len(open) > 1 {
			sort.Strings(open)
			s.viol("two-open-channels-for-one-owner-and-connection", "chain %s: (%s) has OPEN channels %v", ch.Name, t, open)
		}
		if len(open) == 1 {
			if act, ok := m.active[t]; !ok || port+"/"+act != open[0] {
				s.viol("open-channel-is-not-the-active-channel", "chain %s: (%s) has OPEN channel %s but active channel %q", ch.Name, t, open[0], m.active[t])
			}
		}
	}
}

// ---------------------------------------------------------------------------------------------
// delivery wrappers

func (s *c38Sim) deliver(ci int, who ibctesting.SenderAccount, msg sdk.Msg) *kit.Outcome {
	s.curSigner[ci] = who.SenderAccount.GetAddress()
	defer func() { s.curSigner[ci] = nil }()
	return s.ch[ci].Deliver(who, msg)
}

func (s *c38Sim) relay(ci int, msg sdk.Msg) *kit.Outcome {
	return s.deliver(ci, relayerOf(s.ch[ci]), msg)
}

func res(o *kit.Outcome) string {
	if o.OK() {
		return "+"
	}
	return "-"
}

func (s *c38Sim) note(kind string, o *kit.Outcome, hostile bool) {
	s.classes = append(s.classes, kind+res(o))
	if hostile {
		s.hostileJudged++
		if o.OK() {
			s.c.Inc("hostile_accepted")
		} else {
			s.c.Inc("hostile_refused")
		}
	}
	l := ""
	if !o.OK() {
		l = " (" + clip(o.Log, 110) + ")"
	}
	s.log("%s %s%s", kind, res(o), l)
}

// ---------------------------------------------------------------------------------------------
// operations

func (s *c38Sim) connOf(k int) (string, string) {
	p := s.e.Paths[k%len(s.e.Paths)]
	return p.EndpointA.ConnectionID, p.EndpointB.ConnectionID
}

func (s *c38Sim) pickConn() int {
	if s.r.Chance(3, 4) {
		return 0
	}
	return s.r.Intn(len(s.e.Paths))
}

func (s *c38Sim) version(k int) string {
	cc, hc := s.connOf(k)
	switch s.r.Intn(8) {
	case 0:
		return ""
	case 1, 2:
		return metaVersion(cc, hc, icatypes.EncodingProto3JSON)
	case 3:
		// metadata naming the other connection (must not be accepted)
		oc, oh := s.connOf(k + 1)
		if oc == cc {
			oc, oh = "connection-77", "connection-78"
		}
		return metaVersion(oc, oh, icatypes.EncodingProtobuf)
	default:
		return metaVersion(cc, hc, icatypes.EncodingProtobuf)
	}
}

func (s *c38Sim) order() channeltypes.Order {
	switch s.r.Intn(10) {
	case 0:
		return channeltypes.NONE
	case 1, 2, 3:
		return channeltypes.UNORDERED
	default:
		return channeltypes.ORDERED
	}
}

func (s *c38Sim) opRegister(o *actor, k int, order channeltypes.Order, version string) {
	cc, _ := s.connOf(k)
	signer := o
	hostile := false
	if s.r.Chance(1, 8) {
		// somebody else signs a registration naming o as owner
		signer = s.intruder
		if s.r.Bool() {
			signer = kit.Pick(s.r, s.owners)
		}
		hostile = signer != o
	}
	out := s.deliver(0, signer.Acc, controllertypes.NewMsgRegisterInterchainAccount(cc, o.Addr.String(), version, order))
	s.note(fmt.Sprintf("register[%s,%s,%s,by=%s]", o.Name, cc, order, signer.Name), out, hostile)
	if out.OK() {
		s.c.Inc("registrations_accepted")
	}
}

// opDirectInit sends a plain MsgChannelOpenInit for an owner's controller port (or the host port), signed by anybody.
func (s *c38Sim) opDirectInit() {
	o := kit.Pick(s.r, s.owners)
	k := s.pickConn()
	cc, _ := s.connOf(k)
	port := portOf(o.Addr)
	cpPort := icatypes.HostPortID
	hostile := false
	switch s.r.Intn(9) {
	case 0:
		cpPort, hostile = "transfer", true
	case 1:
		cpPort, hostile = ibcmock.PortID, true
	case 2:
		cpPort, hostile = portOf(kit.Pick(s.r, s.owners).Addr), true
	case 3:
		cpPort, hostile = icatypes.HostPortID+"x", true
	}
	signer := kit.Pick(s.r, []*actor{s.intruder, o})
	msg := channeltypes.NewMsgChannelOpenInit(port, s.version(k), s.order(), []string{cc}, cpPort, signer.Addr.String())
	if msg.Channel.Ordering == channeltypes.NONE {
		msg.Channel.Ordering = channeltypes.ORDERED
	}
	out := s.deliver(0, signer.Acc, msg)
	s.note(fmt.Sprintf("direct-init[%s,%s,cp=%s,by=%s]", o.Name, cc, cpPort, signer.Name), out, hostile)
}

// opHostInit: a handshake started on a host port (either chain), towards a controller port.
func (s *c38Sim) opHostInit() {
	ci := s.r.Intn(2)
	o := kit.Pick(s.r, s.owners)
	k := s.pickConn()
	cc, hc := s.connOf(k)
	conn := hc
	signer := s.intrB
	if ci == 0 {
		conn, signer = cc, s.intruder
	}
	ver := metaVersion(conn, conn, icatypes.EncodingProtobuf)
	if s.r.Bool() {
		ver = ""
	}
	msg := channeltypes.NewMsgChannelOpenInit(icatypes.HostPortID, ver, channeltypes.ORDERED, []string{conn}, portOf(o.Addr), signer.Addr.String())
	out := s.deliver(ci, signer.Acc, msg)
	s.note(fmt.Sprintf("host-init[chain %s,%s]", s.ch[ci].Name, conn), out, true)
}

// opCtrlTry: a channel end of chain B's mock application names an owner's controller port as counterparty;
// the relayer then asks chain A to answer it with a ChanOpenTry on the controller port (honest proof).
func (s *c38Sim) opCtrlTry() {
	o := kit.Pick(s.r, s.owners)
	k := s.pickConn()
	cc, hc := s.connOf(k)
	port := portOf(o.Addr)
	ver := kit.Pick(s.r, []string{metaVersion(cc, hc, icatypes.EncodingProtobuf), ibcmock.Version})
	order := kit.Pick(s.r, []channeltypes.Order{channeltypes.ORDERED, channeltypes.UNORDERED})
	init := channeltypes.NewMsgChannelOpenInit(ibcmock.PortID, ver, order, []string{hc}, port, s.intrB.Addr.String())
	oi := s.deliver(1, s.intrB.Acc, init)
	if !oi.OK() {
		s.note("ctrl-try-setup", oi, false)
		return
	}
	id, err := ibctesting.ParseChannelIDFromEvents(oi.Res.Events)
	if err != nil {
		return
	}
	y, try := s.e.msgTry(s.ch[1], ibcmock.PortID, id)
	if y != s.ch[0] {
		return
	}
	out := s.relay(0, try)
	s.note(fmt.Sprintf("ctrl-try[%s,%s]", o.Name, cc), out, true)
}

// ctrlChannels lists the controller-port channel ends of chain A (sorted).
func (s *c38Sim) ctrlChannels(pred func(k string, c channeltypes.Channel) bool) []string {
	var out []string
	for k, c := range s.mir[0].chans {
		if isCtrlPort(strings.SplitN(k, "/", 2)[0]) && s.mine(k) && (pred == nil || pred(k, c)) {
			out = append(out, k)
		}
	}
	sortChanKeys(out)
	return out
}

func sortChanKeys(ks []string) {
	sort.Slice(ks, func(i, j int) bool {
		pi, ii := split(ks[i])
		pj, ij := split(ks[j])
		if pi != pj {
			return pi < pj
		}
		return chanNum(ii) < chanNum(ij)
	})
}

// mine: the channel belongs to an owner of this case.
func (s *c38Sim) mine(key string) bool {
	port := strings.SplitN(key, "/", 2)[0]
	for _, o := range s.owners {
		if port == portOf(o.Addr) {
			return true
		}
	}
	return false
}

// hostEndsFor lists B's channel ends whose counterparty is A's (port, id).
func (s *c38Sim) hostEndsFor(port, id string) []string {
	var out []string
	for k, c := range s.mir[1].chans {
		if c.Counterparty.PortId == port && c.Counterparty.ChannelId == id {
			out = append(out, k)
		}
	}
	sort.Slice(out, func(i, j int) bool {
		return chanNum(strings.SplitN(out[i], "/", 2)[1]) < chanNum(strings.SplitN(out[j], "/", 2)[1])
	})
	return out
}

func split(key string) (string, string) {
	p := strings.SplitN(key, "/", 2)
	return p[0], p[1]
}

func (s *c38Sim) doTry(key string) {
	port, id := split(key)
	var y *kit.Chain
	var m *channeltypes.MsgChannelOpenTry
	if err := kit.Try(func() { y, m = s.e.msgTry(s.ch[0], port, id) }); err != nil {
		return
	}
	_ = y
	out := s.relay(1, m)
	st := s.mir[0].chans[key].State
	s.note(fmt.Sprintf("try[%s@%s]", key, st), out, st != channeltypes.INIT)
}

func (s *c38Sim) doAck(key string, hostKey string) {
	port, id := split(key)
	hp, hid := split(hostKey)
	var m *channeltypes.MsgChannelOpenAck
	if err := kit.Try(func() { m = s.e.msgAck(s.ch[0], port, id, hp, hid) }); err != nil {
		return
	}
	st := s.mir[0].chans[key].State
	hst := s.mir[1].chans[hostKey].State
	out := s.relay(0, m)
	s.note(fmt.Sprintf("ack[%s@%s<-%s@%s]", key, st, hostKey, hst), out, st != channeltypes.INIT || hst != channeltypes.TRYOPEN)
}

func (s *c38Sim) doConfirm(hostKey string) {
	hp, hid := split(hostKey)
	var m *channeltypes.MsgChannelOpenConfirm
	if err := kit.Try(func() { m = s.e.msgConfirm(s.ch[1], hp, hid) }); err != nil {
		return
	}
	hst := s.mir[1].chans[hostKey].State
	out := s.relay(1, m)
	s.note(fmt.Sprintf("confirm[%s@%s]", hostKey, hst), out, hst != channeltypes.TRYOPEN)
}

func (s *c38Sim) doCloseConfirm(hostKey string) {
	hp, hid := split(hostKey)
	var m *channeltypes.MsgChannelCloseConfirm
	if err := kit.Try(func() { m = s.e.msgCloseConfirm(s.ch[1], hp, hid) }); err != nil {
		return
	}
	out := s.relay(1, m)
	s.note(fmt.Sprintf("close-confirm[%s]", hostKey), out, false)
}

// progress performs the honest next handshake step of A's controller channel `key` (if any).
func (s *c38Sim) progress(key string) bool {
	c, ok := s.mir[0].chans[key]
	if !ok {
		return false
	}
	port, id := split(key)
	hs := s.hostEndsFor(port, id)
	switch c.State {
	case channeltypes.INIT:
		for _, h := range hs {
			if s.mir[1].chans[h].State == channeltypes.TRYOPEN {
				s.doAck(key, h)
				return true
			}
		}
		s.doTry(key)
		return true
	case channeltypes.OPEN:
		h := c.Counterparty.PortId + "/" + c.Counterparty.ChannelId
		if hc, ok := s.mir[1].chans[h]; ok && hc.State == channeltypes.TRYOPEN {
			s.doConfirm(h)
			return true
		}
	case channeltypes.CLOSED:
		h := c.Counterparty.PortId + "/" + c.Counterparty.ChannelId
		if hc, ok := s.mir[1].chans[h]; ok && hc.State == channeltypes.OPEN {
			s.doCloseConfirm(h)
			return true
		}
	}
	return false
}

// opHandshake: the honest next step of some channel, or an arbitrary (duplicate / out-of-order / mismatched) step.
func (s *c38Sim) opHandshake() {
	all := s.ctrlChannels(nil)
	if len(all) == 0 {
		return
	}
	if s.r.Chance(6, 10) {
		unfinished := s.ctrlChannels(func(k string, c channeltypes.Channel) bool {
			if c.State == channeltypes.INIT {
				return true
			}
			h, ok := s.mir[1].chans[c.Counterparty.PortId+"/"+c.Counterparty.ChannelId]
			return ok && ((c.State == channeltypes.OPEN && h.State == channeltypes.TRYOPEN) || (c.State == channeltypes.CLOSED && h.State == channeltypes.OPEN))
		})
		if len(unfinished) > 0 && s.progress(kit.Pick(s.r, unfinished)) {
			return
		}
	}
	key := kit.Pick(s.r, all)
	port, id := split(key)
	hs := s.hostEndsFor(port, id)
	switch s.r.Intn(3) {
	case 0:
		s.doTry(key)
	case 1:
		if len(hs) == 0 || s.r.Chance(1, 8) {
			// answer with a host end that belongs to another channel
			var any []string
			for k, c := range s.mir[1].chans {
				if strings.HasPrefix(k, icatypes.HostPortID+"/") && s.mine(c.Counterparty.PortId+"/x") {
					any = append(any, k)
				}
			}
			if len(any) == 0 {
				return
			}
			sortChanKeys(any)
			s.doAck(key, kit.Pick(s.r, any))
			return
		}
		s.doAck(key, kit.Pick(s.r, hs))
	default:
		if len(hs) == 0 {
			return
		}
		s.doConfirm(kit.Pick(s.r, hs))
	}
}

func (s *c38Sim) packetData(o *actor, k int) icatypes.InterchainAccountPacketData {
	cc, _ := s.connOf(k)
	from := s.mir[0].addr[portOf(o.Addr)+"/"+cc]
	if from == "" {
		from = o.Addr.String()
	}
	msg := &banktypes.MsgSend{FromAddress: from, ToAddress: s.ch[1].Addr(5).String(), Amount: sdk.NewCoins(sdk.NewCoin(denom, sdkmath.NewInt(int64(1+s.r.Intn(9)))))}
	data, err := icatypes.SerializeCosmosTx(s.ch[0].Sim.AppCodec(), []proto.Message{msg}, icatypes.EncodingProtobuf)
	if err != nil {
		panic(kit.Abort{Msg: err.Error()})
	}
	return icatypes.InterchainAccountPacketData{Type: icatypes.EXECUTE_TX, Data: data}
}

// opSendTx: MsgSendTx naming owner o, signed by o or by somebody else; also wrapped in an authz MsgExec by a stranger.
func (s *c38Sim) opSendTx() {
	o := kit.Pick(s.r, s.owners)
	k := s.pickConn()
	cc, _ := s.connOf(k)
	rel := uint64(24 * time.Hour)
	short := s.r.Chance(2, 5)
	if short {
		rel = uint64(time.Duration(10+s.r.Intn(40)) * time.Second)
	}
	if s.r.Chance(1, 8) {
		// an account that owns no interchain account names itself as owner (and signs)
		o = s.intruder
	}
	msg := controllertypes.NewMsgSendTx(o.Addr.String(), cc, rel, s.packetData(o, k))
	signer := o
	var out *kit.Outcome
	kind := "sendtx"
	switch s.r.Intn(10) {
	case 0, 1:
		signer = s.intruder
	case 2:
		signer = kit.Pick(s.r, s.owners)
	case 3:
		// a stranger executes the owner's MsgSendTx through authz without holding a grant
		signer = s.intruder
		ex := authz.NewMsgExec(signer.Addr, []sdk.Msg{msg})
		out = s.deliver(0, signer.Acc, &ex)
		kind = "sendtx-via-authz-exec"
	}
	if out == nil {
		out = s.deliver(0, signer.Acc, msg)
	}
	s.note(fmt.Sprintf("%s[%s,%s,by=%s,short=%v]", kind, o.Name, cc, signer.Name, short), out, signer != o || o == s.intruder)
	if out.OK() {
		if pk, err := ibctesting.ParseV1PacketFromEvents(out.Res.Events); err == nil {
			s.pending = append(s.pending, &pendingPkt{Pk: pk, Timeout: time.Unix(0, int64(pk.TimeoutTimestamp))})
			s.c.Inc("sendtx_accepted")
		}
	}
}

func (s *c38Sim) dropPending(p *pendingPkt) {
	for i, q := range s.pending {
		if q == p {
			s.pending = append(s.pending[:i], s.pending[i+1:]...)
			return
		}
	}
}

// oldestOn returns the oldest pending packet of the same channel (ORDERED channels deliver in order).
func (s *c38Sim) oldestOn(p *pendingPkt) *pendingPkt {
	for _, q := range s.pending {
		if q.Pk.SourcePort == p.Pk.SourcePort && q.Pk.SourceChannel == p.Pk.SourceChannel {
			return q
		}
	}
	return p
}

func (s *c38Sim) opRelayPacket() {
	if len(s.pending) == 0 {
		return
	}
	p := s.oldestOn(kit.Pick(s.r, s.pending))
	var rm *channeltypes.MsgRecvPacket
	if err := kit.Try(func() { _, rm = s.e.msgRecv(s.ch[0], p.Pk) }); err != nil {
		return
	}
	ro := s.relay(1, rm)
	s.note(fmt.Sprintf("recv[%s/%s#%d]", p.Pk.SourcePort[len(p.Pk.SourcePort)-6:], p.Pk.SourceChannel, p.Pk.Sequence), ro, false)
	if !ro.OK() {
		if !strings.Contains(ro.Log, "timeout") {
			s.dropPending(p)
		}
		return
	}
	ack, err := ibctesting.ParseAckFromEvents(ro.Res.Events)
	if err != nil {
		s.dropPending(p)
		return
	}
	var am *channeltypes.MsgAcknowledgement
	if err := kit.Try(func() { am = s.e.msgAckPacket(s.ch[0], p.Pk, ack) }); err != nil {
		return
	}
	ao := s.relay(0, am)
	s.note("ack-packet", ao, false)
	s.dropPending(p)
}

// opTimeout lets a pending packet's timeout elapse on the host and relays MsgTimeout (closes ORDERED channels).
func (s *c38Sim) opTimeout() {
	if len(s.pending) == 0 {
		return
	}
	var shorts []*pendingPkt
	for _, p := range s.pending {
		if p.Timeout.Sub(s.e.W.Coord.CurrentTime) < time.Hour {
			shorts = append(shorts, p)
		}
	}
	if len(shorts) == 0 {
		return
	}
	s.timeoutPkt(s.oldestOn(kit.Pick(s.r, shorts)))
}

func (s *c38Sim) timeoutPkt(p *pendingPkt) {
	if d := p.Timeout.Sub(s.e.W.Coord.CurrentTime); d > 0 {
		if d > time.Hour {
			return
		}
		s.e.W.Coord.IncrementTimeBy(d + 10*time.Second)
		s.ch[1].Commit()
		s.ch[0].Commit()
	}
	var tm *channeltypes.MsgTimeout
	if err := kit.Try(func() { tm = s.e.msgTimeout(s.ch[0], p.Pk) }); err != nil {
		return
	}
	pre := s.mir[0].chans[p.Pk.SourcePort+"/"+p.Pk.SourceChannel].State
	to := s.relay(0, tm)
	s.note(fmt.Sprintf("timeout[%s/%s#%d]", p.Pk.SourcePort[len(p.Pk.SourcePort)-6:], p.Pk.SourceChannel, p.Pk.Sequence), to, false)
	if to.OK() {
		s.dropPending(p)
		if post := s.mir[0].chans[p.Pk.SourcePort+"/"+p.Pk.SourceChannel].State; pre == channeltypes.OPEN && post == channeltypes.CLOSED {
			s.c.Inc("channels_closed_by_timeout")
		}
	} else if strings.Contains(to.Log, "already") || strings.Contains(to.Log, "closed") || strings.Contains(to.Log, "CLOSED") {
		s.dropPending(p)
	}
}

func (s *c38Sim) opCloseConfirm() {
	closed := s.ctrlChannels(func(k string, c channeltypes.Channel) bool { return c.State == channeltypes.CLOSED })
	if len(closed) == 0 {
		return
	}
	c := s.mir[0].chans[kit.Pick(s.r, closed)]
	s.doCloseConfirm(c.Counterparty.PortId + "/" + c.Counterparty.ChannelId)
}

func (s *c38Sim) opAdvance() {
	s.e.W.Coord.IncrementTimeBy(time.Duration(5+s.r.Intn(60)) * time.Second)
	s.ch[s.r.Intn(2)].Commit()
}

// sendTxAs sends the owner's own MsgSendTx (short timeout on demand) and records the packet.
func (s *c38Sim) sendTxAs(o *actor, k int, short bool) {
	cc, _ := s.connOf(k)
	rel := uint64(24 * time.Hour)
	if short {
		rel = uint64(time.Duration(10+s.r.Intn(40)) * time.Second)
	}
	out := s.deliver(0, o.Acc, controllertypes.NewMsgSendTx(o.Addr.String(), cc, rel, s.packetData(o, k)))
	s.note(fmt.Sprintf("sendtx[%s,%s,by=%s,short=%v]", o.Name, cc, o.Name, short), out, false)
	if out.OK() {
		if pk, err := ibctesting.ParseV1PacketFromEvents(out.Res.Events); err == nil {
			s.pending = append(s.pending, &pendingPkt{Pk: pk, Timeout: time.Unix(0, int64(pk.TimeoutTimestamp))})
			s.c.Inc("sendtx_accepted")
		}
	}
}

// opLifecycle does the most useful honest next thing for one (owner, connection): register, finish the handshake,
// send with a short timeout, let it time out, confirm the closure on the host, reopen (mostly with the old
// parameters, sometimes with other ones).
func (s *c38Sim) opLifecycle() {
	o := kit.Pick(s.r, s.owners)
	k := s.pickConn()
	cc, hc := s.connOf(k)
	port := portOf(o.Addr)
	act, has := s.mir[0].active[port+"/"+cc]
	if !has {
		mine := s.ctrlChannels(func(key string, c channeltypes.Channel) bool {
			return strings.HasPrefix(key, port+"/") && hop0(c) == cc && c.State == channeltypes.INIT
		})
		if len(mine) == 0 {
			s.opRegister(o, k, s.order(), metaVersion(cc, hc, kit.Pick(s.r, []string{icatypes.EncodingProtobuf, icatypes.EncodingProtobuf, icatypes.EncodingProto3JSON})))
			return
		}
		s.progress(kit.Pick(s.r, mine))
		return
	}
	key := port + "/" + act
	ac := s.mir[0].chans[key]
	switch ac.State {
	case channeltypes.OPEN:
		if s.progress(key) { // pending confirm on the host
			return
		}
		for _, p := range s.pending {
			if p.Pk.SourcePort == port && p.Pk.SourceChannel == act && p.Timeout.Sub(s.e.W.Coord.CurrentTime) < time.Hour {
				s.timeoutPkt(s.oldestOn(p))
				return
			}
		}
		s.sendTxAs(o, k, true)
	case channeltypes.CLOSED:
		if s.progress(key) { // close confirmation on the host
			return
		}
		// a replacement already under way?
		repl := s.ctrlChannels(func(k2 string, c channeltypes.Channel) bool {
			return strings.HasPrefix(k2, port+"/") && hop0(c) == cc && c.State == channeltypes.INIT
		})
		if len(repl) > 0 && s.r.Chance(3, 4) {
			s.progress(kit.Pick(s.r, repl))
			return
		}
		ord, ver := ac.Ordering, ""
		if md, err := icatypes.MetadataFromVersion(ac.Version); err == nil {
			ver = metaVersion(md.ControllerConnectionId, md.HostConnectionId, md.Encoding)
			if s.r.Chance(1, 6) {
				ver = ac.Version // including the account address
			}
		}
		switch s.r.Intn(5) {
		case 0:
			if ord == channeltypes.ORDERED {
				ord = channeltypes.UNORDERED
			} else {
				ord = channeltypes.ORDERED
			}
		case 1:
			ver = s.version(k)
		}
		s.opRegister(o, k, ord, ver)
	}
}

// Step performs one PRNG-chosen operation.
func (s *c38Sim) Step() {
	type wop struct {
		w int
		f func()
	}
	ops := []wop{
		{8, func() { k := s.pickConn(); s.opRegister(kit.Pick(s.r, s.owners), k, s.order(), s.version(k)) }},
		{7, s.opDirectInit},
		{20, s.opHandshake},
		{10, s.opSendTx},
		{6, s.opRelayPacket},
		{6, s.opTimeout},
		{3, s.opCloseConfirm},
		{4, s.opHostInit},
		{4, s.opCtrlTry},
		{2, s.opAdvance},
		{30, s.opLifecycle},
	}
	tot := 0
	for _, o := range ops {
		tot += o.w
	}
	n := s.r.Intn(tot)
	for _, o := range ops {
		if n < o.w {
			o.f()
			return
		}
		n -= o.w
	}
}

// Prefix plays a PRNG-parameterised opening: several registrations for one (connection, owner) before any of them
// completes, with equal or different ordering / metadata.
func (s *c38Sim) Prefix() {
	o := s.owners[0]
	k := 0
	ord := s.order()
	if ord == channeltypes.NONE || s.r.Chance(2, 3) {
		ord = channeltypes.ORDERED
	}
	cc, hc := s.connOf(k)
	v := metaVersion(cc, hc, icatypes.EncodingProtobuf)
	s.opRegister(o, k, ord, v)
	n := 1 + s.r.Intn(2)
	for i := 0; i < n; i++ {
		switch s.r.Intn(3) {
		case 0:
			s.opRegister(o, k, ord, v)
		case 1:
			s.opRegister(o, k, s.order(), v)
		default:
			s.opRegister(o, k, s.order(), s.version(k))
		}
		if s.r.Chance(1, 3) {
			s.opHandshake()
		}
	}
}

// Drain completes whatever can be completed honestly (close confirmations first, then handshakes).
func (s *c38Sim) Drain() {
	for round := 0; round < 4; round++ {
		did := false
		for _, k := range s.ctrlChannels(nil) {
			if s.mir[0].chans[k].State == channeltypes.CLOSED && s.progress(k) {
				did = true
			}
		}
		for _, k := range s.ctrlChannels(nil) {
			if s.mir[0].chans[k].State != channeltypes.CLOSED && s.progress(k) {
				did = true
			}
		}
		if !did {
			break
		}
	}
}

func abstractClasses(cl []string) string {
	// op kinds with their outcome, identifiers stripped
	var sb strings.Builder
	for _, c := range cl {
		k := c
		if i := strings.IndexByte(c, '['); i >= 0 {
			k = c[:i] + c[len(c)-1:]
		}
		sb.WriteString(k)
		sb.WriteByte(' ')
	}
	return sb.String()
}

var _ = host.ChannelKey
