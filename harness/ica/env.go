// Package ica holds the runtime monitors for the interchain-accounts properties:
// C37 (host executes only authorized, atomic transactions) and C38 (one active channel, owner-only sends).
package ica

import (
	"fmt"
	"sort"
	"strings"
	"testing"

	sdk "github.com/cosmos/cosmos-sdk/types"

	controllertypes "github.com/cosmos/ibc-go/v11/modules/apps/27-interchain-accounts/controller/types"
	icatypes "github.com/cosmos/ibc-go/v11/modules/apps/27-interchain-accounts/types"
	channeltypes "github.com/cosmos/ibc-go/v11/modules/core/04-channel/types"
	host "github.com/cosmos/ibc-go/v11/modules/core/24-host"
	ibctesting "github.com/cosmos/ibc-go/v11/testing"

	"verif/harness/kit"
)

// Env is a two-chain world (A, B) linked by one or more connections. Either chain can act as controller or host.
type Env struct {
	W     *kit.World
	Ch    [2]*kit.Chain
	Paths []*ibctesting.Path // connection-level paths (clients + connections only); EndpointA on Ch[0], EndpointB on Ch[1]
}

// relayer accounts (never owners, never targets of any message)
const relayerAcct = 9

func NewEnv(t *testing.T, conns int) *Env {
	w := kit.NewWorld(t, 2)
	e := &Env{W: w, Ch: [2]*kit.Chain{w.Chains[0], w.Chains[1]}}
	for i := 0; i < conns; i++ {
		p := ibctesting.NewPath(e.Ch[0].TestChain, e.Ch[1].TestChain)
		p.SetupConnections()
		e.Paths = append(e.Paths, p)
	}
	return e
}

func (e *Env) side(c *kit.Chain) int {
	if c == e.Ch[0] {
		return 0
	}
	return 1
}

func (e *Env) other(c *kit.Chain) *kit.Chain { return e.Ch[1-e.side(c)] }

// endpoint returns the connection endpoint of path p on chain c.
func (e *Env) endpoint(p *ibctesting.Path, c *kit.Chain) *ibctesting.Endpoint {
	if e.side(c) == 0 {
		return p.EndpointA
	}
	return p.EndpointB
}

// pathOfConn finds the path whose connection id on chain c is connID.
func (e *Env) pathOfConn(c *kit.Chain, connID string) *ibctesting.Path {
	for _, p := range e.Paths {
		if e.endpoint(p, c).ConnectionID == connID {
			return p
		}
	}
	return nil
}

// update brings c's client of path p up to the counterparty's latest committed state.
func (e *Env) update(p *ibctesting.Path, c *kit.Chain) {
	if err := e.endpoint(p, c).UpdateClient(); err != nil {
		panic(kit.Abort{Msg: "update client: " + err.Error()})
	}
}

func relayerOf(c *kit.Chain) ibctesting.SenderAccount { return c.Acct(relayerAcct) }

func relayerAddr(c *kit.Chain) string { return c.Addr(relayerAcct).String() }

// getChannel reads a committed channel end.
func getChannel(c *kit.Chain, port, id string) (channeltypes.Channel, bool) {
	return c.App.GetIBCKeeper().ChannelKeeper.GetChannel(c.GetContext(), port, id)
}

// chanEnd is one decoded channel end of a chain.
type chanEnd struct {
	Port, ID string
	Ch       channeltypes.Channel
}

// allChannels decodes every channel end from the committed raw ibc store (no keeper iteration helpers involved).
func allChannels(c *kit.Chain) []chanEnd {
	var out []chanEnd
	for k, v := range c.StoreMap("ibc") {
		if !strings.HasPrefix(k, "channelEnds/ports/") {
			continue
		}
		parts := strings.Split(k, "/")
		// channelEnds/ports/<port>/channels/<id>
		if len(parts) != 5 {
			continue
		}
		var ch channeltypes.Channel
		if err := c.Sim.AppCodec().Unmarshal(v, &ch); err != nil {
			continue
		}
		out = append(out, chanEnd{Port: parts[2], ID: parts[4], Ch: ch})
	}
	sort.Slice(out, func(i, j int) bool {
		if out[i].Port != out[j].Port {
			return out[i].Port < out[j].Port
		}
		return chanNum(out[i].ID) < chanNum(out[j].ID)
	})
	return out
}

func chanNum(id string) int {
	n := 0
	fmt.Sscanf(strings.TrimPrefix(id, "channel-"), "%d", &n)
	return n
}

// ---------------------------------------------------------------------------------------------
// honest message builders (built from the committed state of the proving chain)

// msgTry builds the MsgChannelOpenTry for chain y answering x's channel end (xPort, xID), proving it at y's client.
func (e *Env) msgTry(x *kit.Chain, xPort, xID string) (*kit.Chain, *channeltypes.MsgChannelOpenTry) {
	y := e.other(x)
	xc, ok := getChannel(x, xPort, xID)
	if !ok {
		panic(kit.Abort{Msg: "try: no such channel"})
	}
	p := e.pathOfConn(x, xc.ConnectionHops[0])
	if p == nil {
		panic(kit.Abort{Msg: "try: unknown connection"})
	}
	e.update(p, y)
	proof, h := x.QueryProof(host.ChannelKey(xPort, xID))
	return y, channeltypes.NewMsgChannelOpenTry(xc.Counterparty.PortId, "", xc.Ordering, []string{e.endpoint(p, y).ConnectionID},
		xPort, xID, xc.Version, proof, h, relayerAddr(y))
}

// msgAck builds the MsgChannelOpenAck for x's channel (xPort, xID) from y's end (yPort, yID).
func (e *Env) msgAck(x *kit.Chain, xPort, xID string, yPort, yID string) *channeltypes.MsgChannelOpenAck {
	y := e.other(x)
	xc, ok := getChannel(x, xPort, xID)
	if !ok {
		panic(kit.Abort{Msg: "ack: no such channel"})
	}
	yc, ok := getChannel(y, yPort, yID)
	if !ok {
		panic(kit.Abort{Msg: "ack: no such counterparty channel"})
	}
	p := e.pathOfConn(x, xc.ConnectionHops[0])
	if p == nil {
		panic(kit.Abort{Msg: "ack: unknown connection"})
	}
	e.update(p, x)
	proof, h := y.QueryProof(host.ChannelKey(yPort, yID))
	return channeltypes.NewMsgChannelOpenAck(xPort, xID, yID, yc.Version, proof, h, relayerAddr(x))
}

// msgConfirm builds the MsgChannelOpenConfirm for y's channel (yPort, yID), proving its counterparty end on x.
func (e *Env) msgConfirm(y *kit.Chain, yPort, yID string) *channeltypes.MsgChannelOpenConfirm {
	x := e.other(y)
	yc, ok := getChannel(y, yPort, yID)
	if !ok {
		panic(kit.Abort{Msg: "confirm: no such channel"})
	}
	p := e.pathOfConn(y, yc.ConnectionHops[0])
	if p == nil {
		panic(kit.Abort{Msg: "confirm: unknown connection"})
	}
	e.update(p, y)
	proof, h := x.QueryProof(host.ChannelKey(yc.Counterparty.PortId, yc.Counterparty.ChannelId))
	return channeltypes.NewMsgChannelOpenConfirm(yPort, yID, proof, h, relayerAddr(y))
}

// msgCloseConfirm builds the MsgChannelCloseConfirm for y's channel, proving the closed counterparty end on x.
func (e *Env) msgCloseConfirm(y *kit.Chain, yPort, yID string) *channeltypes.MsgChannelCloseConfirm {
	x := e.other(y)
	yc, ok := getChannel(y, yPort, yID)
	if !ok {
		panic(kit.Abort{Msg: "close confirm: no such channel"})
	}
	p := e.pathOfConn(y, yc.ConnectionHops[0])
	if p == nil {
		panic(kit.Abort{Msg: "close confirm: unknown connection"})
	}
	e.update(p, y)
	proof, h := x.QueryProof(host.ChannelKey(yc.Counterparty.PortId, yc.Counterparty.ChannelId))
	return channeltypes.NewMsgChannelCloseConfirm(yPort, yID, proof, h, relayerAddr(y))
}

// msgRecv builds MsgRecvPacket for a packet committed on x.
func (e *Env) msgRecv(x *kit.Chain, pk channeltypes.Packet) (*kit.Chain, *channeltypes.MsgRecvPacket) {
	y := e.other(x)
	xc, ok := getChannel(x, pk.SourcePort, pk.SourceChannel)
	if !ok {
		panic(kit.Abort{Msg: "recv: no such channel"})
	}
	p := e.pathOfConn(x, xc.ConnectionHops[0])
	e.update(p, y)
	proof, h := x.QueryProof(host.PacketCommitmentKey(pk.SourcePort, pk.SourceChannel, pk.Sequence))
	return y, channeltypes.NewMsgRecvPacket(pk, proof, h, relayerAddr(y))
}

// msgAckPacket builds MsgAcknowledgement for x (source) from the acknowledgement stored on y.
func (e *Env) msgAckPacket(x *kit.Chain, pk channeltypes.Packet, ack []byte) *channeltypes.MsgAcknowledgement {
	y := e.other(x)
	xc, _ := getChannel(x, pk.SourcePort, pk.SourceChannel)
	p := e.pathOfConn(x, xc.ConnectionHops[0])
	e.update(p, x)
	proof, h := y.QueryProof(host.PacketAcknowledgementKey(pk.DestinationPort, pk.DestinationChannel, pk.Sequence))
	return channeltypes.NewMsgAcknowledgement(pk, ack, proof, h, relayerAddr(x))
}

// msgTimeout builds MsgTimeout for x (source) proving non-receipt on y.
func (e *Env) msgTimeout(x *kit.Chain, pk channeltypes.Packet) *channeltypes.MsgTimeout {
	y := e.other(x)
	xc, _ := getChannel(x, pk.SourcePort, pk.SourceChannel)
	p := e.pathOfConn(x, xc.ConnectionHops[0])
	e.update(p, x)
	var key []byte
	if xc.Ordering == channeltypes.ORDERED {
		key = host.NextSequenceRecvKey(pk.DestinationPort, pk.DestinationChannel)
	} else {
		key = host.PacketReceiptKey(pk.DestinationPort, pk.DestinationChannel, pk.Sequence)
	}
	proof, h := y.QueryProof(key)
	next, _ := y.App.GetIBCKeeper().ChannelKeeper.GetNextSequenceRecv(y.GetContext(), pk.DestinationPort, pk.DestinationChannel)
	return channeltypes.NewMsgTimeout(pk, next, proof, h, relayerAddr(x))
}

// ---------------------------------------------------------------------------------------------
// ICA helpers

func metaVersion(ctrlConn, hostConn, encoding string) string {
	return string(icatypes.ModuleCdc.MustMarshalJSON(&icatypes.Metadata{
		Version:                icatypes.Version,
		ControllerConnectionId: ctrlConn,
		HostConnectionId:       hostConn,
		Encoding:               encoding,
		TxType:                 icatypes.TxTypeSDKMultiMsg,
	}))
}

func portOf(owner sdk.AccAddress) string { return icatypes.ControllerPortPrefix + owner.String() }

// openICA registers an interchain account for owner (account index on ctrl) and relays the whole handshake honestly.
// It returns the controller channel id, the host channel id and the interchain account address (taken from the
// host's TRY version, cross-checked by the callers against both keepers).
func (e *Env) openICA(ctrl *kit.Chain, ownerIdx int, p *ibctesting.Path, order channeltypes.Order, encoding string) (string, string, sdk.AccAddress) {
	hostCh := e.other(ctrl)
	owner := ctrl.Addr(ownerIdx)
	cc, hc := e.endpoint(p, ctrl).ConnectionID, e.endpoint(p, hostCh).ConnectionID
	o := ctrl.Deliver(ctrl.Acct(ownerIdx), controllertypes.NewMsgRegisterInterchainAccount(cc, owner.String(), metaVersion(cc, hc, encoding), order))
	if !o.OK() {
		panic(kit.Abort{Msg: "register: " + o.Log})
	}
	chanID, err := ibctesting.ParseChannelIDFromEvents(o.Res.Events)
	if err != nil {
		panic(kit.Abort{Msg: "register: " + err.Error()})
	}
	port := portOf(owner)
	y, try := e.msgTry(ctrl, port, chanID)
	ot := y.Deliver(relayerOf(y), try)
	if !ot.OK() {
		panic(kit.Abort{Msg: "try: " + ot.Log})
	}
	hostChanID, err := ibctesting.ParseChannelIDFromEvents(ot.Res.Events)
	if err != nil {
		panic(kit.Abort{Msg: "try: " + err.Error()})
	}
	oa := ctrl.Deliver(relayerOf(ctrl), e.msgAck(ctrl, port, chanID, icatypes.HostPortID, hostChanID))
	if !oa.OK() {
		panic(kit.Abort{Msg: "ack: " + oa.Log})
	}
	oc := y.Deliver(relayerOf(y), e.msgConfirm(y, icatypes.HostPortID, hostChanID))
	if !oc.OK() {
		panic(kit.Abort{Msg: "confirm: " + oc.Log})
	}
	hch, _ := getChannel(y, icatypes.HostPortID, hostChanID)
	md, err := icatypes.MetadataFromVersion(hch.Version)
	if err != nil {
		panic(kit.Abort{Msg: "host version: " + err.Error()})
	}
	addr, err := sdk.AccAddressFromBech32(md.Address)
	if err != nil {
		panic(kit.Abort{Msg: "host version address: " + err.Error()})
	}
	return chanID, hostChanID, addr
}

func clip(s string, n int) string {
	if len(s) > n {
		return s[:n] + "…"
	}
	return s
}
