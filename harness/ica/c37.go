package ica

import (
	"bytes"
	"crypto/sha256"
	"fmt"
	"sort"
	"strings"
	"time"

	"cosmossdk.io/collections"
	sdkmath "cosmossdk.io/math"

	sdk "github.com/cosmos/cosmos-sdk/types"
	authtypes "github.com/cosmos/cosmos-sdk/x/auth/types"
	"github.com/cosmos/cosmos-sdk/x/authz"
	banktypes "github.com/cosmos/cosmos-sdk/x/bank/types"
	distrtypes "github.com/cosmos/cosmos-sdk/x/distribution/types"
	govtypes "github.com/cosmos/cosmos-sdk/x/gov/types"
	govv1 "github.com/cosmos/cosmos-sdk/x/gov/types/v1"
	stakingtypes "github.com/cosmos/cosmos-sdk/x/staking/types"
	"github.com/cosmos/gogoproto/proto"

	controllertypes "github.com/cosmos/ibc-go/v11/modules/apps/27-interchain-accounts/controller/types"
	hosttypes "github.com/cosmos/ibc-go/v11/modules/apps/27-interchain-accounts/host/types"
	icatypes "github.com/cosmos/ibc-go/v11/modules/apps/27-interchain-accounts/types"
	transfertypes "github.com/cosmos/ibc-go/v11/modules/apps/transfer/types"
	clienttypes "github.com/cosmos/ibc-go/v11/modules/core/02-client/types"
	channeltypes "github.com/cosmos/ibc-go/v11/modules/core/04-channel/types"
	host "github.com/cosmos/ibc-go/v11/modules/core/24-host"
	"github.com/cosmos/ibc-go/v11/modules/core/exported"
	ibctesting "github.com/cosmos/ibc-go/v11/testing"

	"verif/harness/kit"
)

// ---------------------------------------------------------------------------------------------
// C37 world: chain A = controller, chain B = host, three interchain-account lanes.

const (
	denom       = "stake"
	delegUnit   = 1000   // MsgDelegate amounts are delegUnit << position (binary decodable)
	depositUnit = 100000 // MsgDeposit amounts (>= 1% of the minimum deposit) << position
	xferUnit    = 10     // MsgTransfer amounts << position

	acctForeign   = 3 // funded account on B that never authorised anybody
	acctGranter   = 4 // funded account on B that granted a bank SendAuthorization to every interchain account
	acctGranter2  = 5 // funded account on B that granted a SendAuthorization to acctGrantee2 (not an interchain account)
	acctGrantee2  = 6
	acctProposer  = 8
	acctXferRecvA = 7 // receiver of ICS-20 transfers on A
)

type lane struct {
	Name     string
	OwnerIdx int
	Owner    sdk.AccAddress
	Port     string
	Path     *ibctesting.Path
	CtrlConn string
	HostConn string
	Order    channeltypes.Order
	Encoding string
	ChanA    string
	ChanB    string
	ICA      sdk.AccAddress
	fakeSeq  uint64
}

type c37World struct {
	c         *kit.Check
	e         *Env
	a, b      *kit.Chain
	lanes     []*lane
	val       sdk.ValAddress
	prop      uint64
	propEnd   time.Time
	xferChanB string
	escrow    sdk.AccAddress
	curAllow  []string
	tracked   []sdk.AccAddress // delegators / voters / depositors whose staking and gov records are compared
	nonce     int
}

func newC37World(c *kit.Check) *c37World {
	e := NewEnv(c.T, 2)
	x := &c37World{c: c, e: e, a: e.Ch[0], b: e.Ch[1]}
	a, b := x.a, x.b
	mk := func(name string, owner int, p *ibctesting.Path, order channeltypes.Order, enc string) {
		l := &lane{Name: name, OwnerIdx: owner, Owner: a.Addr(owner), Port: portOf(a.Addr(owner)), Path: p, Order: order, Encoding: enc,
			CtrlConn: p.EndpointA.ConnectionID, HostConn: p.EndpointB.ConnectionID, fakeSeq: 1 << 40}
		l.ChanA, l.ChanB, l.ICA = e.openICA(a, owner, p, order, enc)
		// the account registered for (connection, controller port): what the handshake agreed on must be what both keepers store
		ca, ok1 := a.Sim.ICAControllerKeeper.GetInterchainAccountAddress(a.GetContext(), l.CtrlConn, l.Port)
		ha, ok2 := b.Sim.ICAHostKeeper.GetInterchainAccountAddress(b.GetContext(), l.HostConn, l.Port)
		if !ok1 || !ok2 || ca != l.ICA.String() || ha != l.ICA.String() {
			panic(kit.Abort{Msg: fmt.Sprintf("lane %s: registered account disagrees: handshake %s controller %s host %s", name, l.ICA, ca, ha)})
		}
		b.Fund(l.ICA, denom, 1_000_000_000_000)
		x.lanes = append(x.lanes, l)
	}
	mk("ord-proto3", 1, e.Paths[0], channeltypes.ORDERED, icatypes.EncodingProtobuf)
	mk("unord-json", 2, e.Paths[0], channeltypes.UNORDERED, icatypes.EncodingProto3JSON)
	mk("unord-proto3-conn1", 1, e.Paths[1], channeltypes.UNORDERED, icatypes.EncodingProtobuf)
	if x.lanes[0].ICA.Equals(x.lanes[1].ICA) || x.lanes[0].ICA.Equals(x.lanes[2].ICA) || x.lanes[1].ICA.Equals(x.lanes[2].ICA) {
		panic(kit.Abort{Msg: "interchain accounts of different (connection, port) pairs coincide"})
	}

	// ICS-20 channel B<->A for MsgTransfer messages
	pt := ibctesting.NewTransferPath(a.TestChain, b.TestChain)
	pt.Setup()
	x.xferChanB = pt.EndpointB.ChannelID
	x.escrow = transfertypes.GetEscrowAddress(transfertypes.PortID, x.xferChanB)

	vals, err := b.Sim.StakingKeeper.GetAllValidators(b.GetContext())
	if err != nil || len(vals) == 0 {
		panic(kit.Abort{Msg: "no validators"})
	}
	vb, err := sdk.ValAddressFromBech32(vals[0].OperatorAddress)
	if err != nil {
		panic(kit.Abort{Msg: err.Error()})
	}
	x.val = vb

	// authz grants: acctGranter -> every interchain account; acctGranter2 -> acctGrantee2
	limit := sdk.NewCoins(sdk.NewCoin(denom, sdkmath.NewInt(1_000_000_000_000_000)))
	for _, l := range x.lanes {
		g, err := authz.NewMsgGrant(b.Addr(acctGranter), l.ICA, banktypes.NewSendAuthorization(limit, nil), nil)
		if err != nil {
			panic(kit.Abort{Msg: err.Error()})
		}
		if o := b.Deliver(b.Acct(acctGranter), g); !o.OK() {
			panic(kit.Abort{Msg: "grant: " + o.Log})
		}
	}
	g, _ := authz.NewMsgGrant(b.Addr(acctGranter2), b.Addr(acctGrantee2), banktypes.NewSendAuthorization(limit, nil), nil)
	if o := b.Deliver(b.Acct(acctGranter2), g); !o.OK() {
		panic(kit.Abort{Msg: "grant2: " + o.Log})
	}
	x.tracked = []sdk.AccAddress{x.lanes[0].ICA, x.lanes[1].ICA, x.lanes[2].ICA, b.Addr(acctForeign)}
	x.newProposal()
	return x
}

// newProposal submits a text proposal with the full deposit (voting period starts at once).
func (x *c37World) newProposal() {
	b := x.b
	dep := sdk.NewCoins(sdk.NewCoin(denom, sdkmath.NewInt(10_000_000)))
	m, err := govv1.NewMsgSubmitProposal(nil, dep, b.Addr(acctProposer).String(), "verif", fmt.Sprintf("verif proposal %d", x.nonce), "proposal used by C37 vote and deposit messages", false)
	x.nonce++
	if err != nil {
		panic(kit.Abort{Msg: err.Error()})
	}
	o := b.Deliver(b.Acct(acctProposer), m)
	if !o.OK() {
		panic(kit.Abort{Msg: "submit proposal: " + o.Log})
	}
	var id uint64
	_ = b.Sim.GovKeeper.Proposals.Walk(b.GetContext(), nil, func(k uint64, p govv1.Proposal) (bool, error) {
		if k > id {
			id = k
		}
		return false, nil
	})
	p, err := b.Sim.GovKeeper.Proposals.Get(b.GetContext(), id)
	if err != nil || p.Status != govv1.StatusVotingPeriod || p.VotingEndTime == nil {
		panic(kit.Abort{Msg: "proposal not in voting period"})
	}
	x.prop, x.propEnd = id, *p.VotingEndTime
}

// ensureProposal keeps a proposal in its voting period; an expiring one is run out in unjudged blocks first.
func (x *c37World) ensureProposal() {
	if x.propEnd.Sub(x.e.W.Coord.CurrentTime) > 30*time.Minute {
		return
	}
	for i := 0; i < 1000 && !x.e.W.Coord.CurrentTime.After(x.propEnd.Add(10*time.Second)); i++ {
		x.e.W.Coord.IncrementTimeBy(10 * time.Minute)
		x.b.Commit()
	}
	x.b.Commit()
	x.newProposal()
	x.c.Inc("proposals_renewed")
}

func (x *c37World) setAllow(list []string) {
	if cur := x.b.Sim.ICAHostKeeper.GetParams(x.b.GetContext()); cur.HostEnabled && len(cur.AllowMessages) == len(list) && strings.Join(cur.AllowMessages, ",") == strings.Join(list, ",") {
		return
	}
	o := x.b.InBlock(func(ctx sdk.Context) error {
		x.b.Sim.ICAHostKeeper.SetParams(ctx, hosttypes.NewParams(true, list))
		return nil
	})
	if !o.OK() {
		panic(kit.Abort{Msg: "set params: " + o.Log})
	}
	x.curAllow = append([]string{}, list...)
}

// ---------------------------------------------------------------------------------------------
// semantic view of stores that kit.Diff does not watch (staking, gov) plus host params

type sem map[string]string

func (x *c37World) sem() sem {
	b := x.b
	ctx := b.GetContext()
	m := sem{}
	for _, d := range x.tracked {
		amt := "0"
		if del, err := b.Sim.StakingKeeper.GetDelegation(ctx, d, x.val); err == nil {
			if v, err := b.Sim.StakingKeeper.GetValidator(ctx, x.val); err == nil {
				amt = v.TokensFromShares(del.Shares).RoundInt().String()
			}
		}
		m["del/"+d.String()] = amt
		vote := "-"
		if v, err := b.Sim.GovKeeper.Votes.Get(ctx, collections.Join(x.prop, d)); err == nil && len(v.Options) > 0 {
			vote = v.Options[0].Option.String()
		}
		m["vote/"+d.String()] = vote
		dep := "0"
		if dp, err := b.Sim.GovKeeper.Deposits.Get(ctx, collections.Join(x.prop, d)); err == nil {
			dep = sdk.NewCoins(dp.Amount...).AmountOf(denom).String()
		}
		m["dep/"+d.String()] = dep
	}
	p := b.Sim.ICAHostKeeper.GetParams(ctx)
	m["hostparams"] = fmt.Sprintf("%v|%s", p.HostEnabled, strings.Join(p.AllowMessages, ","))
	return m
}

func semDiff(a, b sem) []string {
	var out []string
	for k, v := range b {
		if a[k] != v {
			out = append(out, fmt.Sprintf("%s: %s -> %s", k, a[k], v))
		}
	}
	sort.Strings(out)
	return out
}

func semInt(m sem, k string) sdkmath.Int {
	v, ok := sdkmath.NewIntFromString(m[k])
	if !ok {
		return sdkmath.ZeroInt()
	}
	return v
}

// bitApplied decodes whether the amount unit<<pos is part of the increase of a counter fed only by amounts unit<<i.
func bitApplied(pre, post sdkmath.Int, unit int64, pos int) bool {
	d := post.Sub(pre)
	if !d.IsPositive() {
		return false
	}
	q := d.QuoRaw(unit)
	if !q.IsInt64() {
		return false
	}
	return q.Int64()&(1<<uint(pos)) != 0
}

// ---------------------------------------------------------------------------------------------
// message specifications

type mspec struct {
	Kind    string // send deleg vote deposit transfer grant exec selfexec multisend hostparams bankparams
	Signer  string // ica | foreign | otherica | module | two | grantee2
	Fail    string // "" | funds | validate | noval | noprop | nogrant  (expected to fail during execution; informational only)
	Pos     int
	Msg     proto.Message
	TypeURL string
	Signers []sdk.AccAddress // ground truth: the accounts this message claims to act for
	// granter whose funds legitimately move when the message executes with the lane's account as grantee
	Granter sdk.AccAddress
	applied func(pre, post sem) bool
	Desc    string
}

func coins(n int64) sdk.Coins { return sdk.NewCoins(sdk.NewCoin(denom, sdkmath.NewInt(n))) }

func (x *c37World) fresh(tag string, caseNo, pos int) sdk.AccAddress {
	h := sha256.Sum256([]byte(fmt.Sprintf("c37/%s/%d/%d/%d", tag, x.c.Seed, caseNo, pos)))
	x.nonce++
	h2 := sha256.Sum256(append(h[:], byte(x.nonce), byte(x.nonce>>8), byte(x.nonce>>16)))
	return sdk.AccAddress(h2[:20])
}

func (x *c37World) signerAddr(l *lane, who string, r *kit.Rng) sdk.AccAddress {
	switch who {
	case "ica":
		return l.ICA
	case "foreign":
		return x.b.Addr(acctForeign)
	case "otherica":
		// the interchain account of another (connection, port) pair: other owner on the same connection, or the same owner on another connection
		var others []*lane
		for _, o := range x.lanes {
			if o != l {
				others = append(others, o)
			}
		}
		return kit.Pick(r, others).ICA
	case "module":
		return authtypes.NewModuleAddress(kit.Pick(r, []string{govtypes.ModuleName, stakingtypes.BondedPoolName}))
	}
	panic("unknown signer " + who)
}

// build creates the message of kind for position pos acting for `who`.
func (x *c37World) build(l *lane, caseNo, pos int, kind, who, fail string, r *kit.Rng) *mspec {
	b := x.b
	m := &mspec{Kind: kind, Signer: who, Fail: fail, Pos: pos}
	var from sdk.AccAddress
	if who != "two" && who != "grantee2" {
		from = x.signerAddr(l, who, r)
	}
	recipientGot := func(rcp sdk.AccAddress) func(pre, post sem) bool {
		return func(pre, post sem) bool { return b.Bal(rcp, denom).IsPositive() }
	}
	switch kind {
	case "send":
		rcp := x.fresh("rcp", caseNo, pos)
		amt := coins(int64(1 + r.Intn(1000)))
		switch fail {
		case "funds":
			amt = sdk.NewCoins(sdk.NewCoin(denom, sdkmath.NewIntWithDecimal(1, 30)))
		case "validate":
			amt = sdk.Coins{sdk.Coin{Denom: denom, Amount: sdkmath.ZeroInt()}}
		}
		m.Msg = &banktypes.MsgSend{FromAddress: from.String(), ToAddress: rcp.String(), Amount: amt}
		m.Signers = []sdk.AccAddress{from}
		m.applied = recipientGot(rcp)
	case "deleg":
		val := x.val
		if fail == "noval" {
			val = sdk.ValAddress(x.fresh("val", caseNo, pos))
		}
		m.Msg = &stakingtypes.MsgDelegate{DelegatorAddress: from.String(), ValidatorAddress: val.String(), Amount: sdk.NewCoin(denom, sdkmath.NewInt(delegUnit<<uint(pos)))}
		m.Signers = []sdk.AccAddress{from}
		key := "del/" + from.String()
		m.applied = func(pre, post sem) bool { return bitApplied(semInt(pre, key), semInt(post, key), delegUnit, pos) }
	case "vote":
		prop := x.prop
		if fail == "noprop" {
			prop = 1 << 40
		}
		// choose an option different from the voter's current one so that an executed vote is always visible
		cur := x.sem()["vote/"+from.String()]
		opts := []govv1.VoteOption{govv1.OptionYes, govv1.OptionNo, govv1.OptionAbstain, govv1.OptionNoWithVeto}
		opt := opts[r.Intn(len(opts))]
		for opt.String() == cur {
			opt = opts[r.Intn(len(opts))]
		}
		m.Msg = govv1.NewMsgVote(from, prop, opt, "")
		m.Signers = []sdk.AccAddress{from}
		key := "vote/" + from.String()
		m.applied = func(pre, post sem) bool { return post[key] == opt.String() && pre[key] != post[key] }
	case "deposit":
		m.Msg = govv1.NewMsgDeposit(from, x.prop, coins(depositUnit<<uint(pos)))
		m.Signers = []sdk.AccAddress{from}
		key := "dep/" + from.String()
		m.applied = func(pre, post sem) bool { return bitApplied(semInt(pre, key), semInt(post, key), depositUnit, pos) }
	case "transfer":
		m.Msg = transfertypes.NewMsgTransfer(transfertypes.PortID, x.xferChanB, sdk.NewCoin(denom, sdkmath.NewInt(xferUnit<<uint(pos))), from.String(),
			x.a.Addr(acctXferRecvA).String(), clienttypes.NewHeight(1, 100000000), 0, "")
		m.Signers = []sdk.AccAddress{from}
		preEsc := b.Bal(x.escrow, denom)
		m.applied = func(pre, post sem) bool { return bitApplied(preEsc, b.Bal(x.escrow, denom), xferUnit, pos) }
	case "grant":
		grantee := x.fresh("grantee", caseNo, pos)
		g, err := authz.NewMsgGrant(from, grantee, authz.NewGenericAuthorization("/cosmos.bank.v1beta1.MsgSend"), nil)
		if err != nil {
			panic(kit.Abort{Msg: err.Error()})
		}
		m.Msg = g
		m.Signers = []sdk.AccAddress{from}
		m.applied = func(pre, post sem) bool {
			as, err := b.Sim.AuthzKeeper.GetAuthorizations(b.GetContext(), grantee, from)
			return err == nil && len(as) > 0
		}
	case "exec":
		// authz MsgExec: grantee = `from`, inner MsgSend out of another account
		rcp := x.fresh("rcp", caseNo, pos)
		granter := b.Addr(acctGranter)
		if fail == "nogrant" {
			granter = b.Addr(acctForeign)
		}
		grantee := from
		if who == "grantee2" {
			// a grantee that is not an interchain account but really holds a grant from acctGranter2
			grantee, granter = b.Addr(acctGrantee2), b.Addr(acctGranter2)
		}
		inner := &banktypes.MsgSend{FromAddress: granter.String(), ToAddress: rcp.String(), Amount: coins(int64(1 + r.Intn(500)))}
		ex := authz.NewMsgExec(grantee, []sdk.Msg{inner})
		m.Msg = &ex
		m.Signers = []sdk.AccAddress{grantee}
		if fail == "" && who == "ica" {
			m.Granter = granter
		}
		m.applied = recipientGot(rcp)
	case "selfexec":
		// MsgExec whose inner message is signed by the grantee itself (no grant needed)
		rcp := x.fresh("rcp", caseNo, pos)
		inner := &banktypes.MsgSend{FromAddress: from.String(), ToAddress: rcp.String(), Amount: coins(int64(1 + r.Intn(500)))}
		ex := authz.NewMsgExec(from, []sdk.Msg{inner})
		m.Msg = &ex
		m.Signers = []sdk.AccAddress{from}
		m.applied = recipientGot(rcp)
	case "multisend":
		// two inputs = two signers: the interchain account and a foreign account
		rcp := x.fresh("rcp", caseNo, pos)
		ins := []banktypes.Input{{Address: l.ICA.String(), Coins: coins(5)}, {Address: b.Addr(acctForeign).String(), Coins: coins(5)}}
		if r.Bool() {
			ins[0], ins[1] = ins[1], ins[0]
		}
		m.Msg = &banktypes.MsgMultiSend{Inputs: ins, Outputs: []banktypes.Output{{Address: rcp.String(), Coins: coins(10)}}}
		m.Signers = []sdk.AccAddress{l.ICA, b.Addr(acctForeign)}
		m.applied = recipientGot(rcp)
	case "hostparams":
		// host parameter update signed by the host authority (a module account): would open the allow list
		marker := fmt.Sprintf("/verif.marker.c%d.p%d", caseNo, pos)
		auth := sdk.MustAccAddressFromBech32(b.Sim.ICAHostKeeper.GetAuthority())
		m.Msg = &hosttypes.MsgUpdateParams{Signer: auth.String(), Params: hosttypes.NewParams(true, []string{marker})}
		m.Signers = []sdk.AccAddress{auth}
		m.applied = func(pre, post sem) bool { return strings.Contains(post["hostparams"], marker) }
	default:
		panic("unknown kind " + kind)
	}
	m.TypeURL = "/" + proto.MessageName(m.Msg)
	m.Desc = fmt.Sprintf("%s/%s", kind, who)
	if fail != "" {
		m.Desc += "/" + fail
	}
	return m
}

// modelAllowed is the reference reading of the host allow list: a list consisting of the single entry "*" allows
// every type, any other list allows exactly its members.
func modelAllowed(list []string, url string) bool {
	if len(list) == 1 && list[0] == "*" {
		return true
	}
	for _, s := range list {
		if s == url {
			return true
		}
	}
	return false
}

// ---------------------------------------------------------------------------------------------
// cells of the fault matrix

type badKind struct {
	Name   string
	Kind   string
	Signer string
	Fail   string
	// Auth: the message is of an allowed type and signed only by the lane's account (it may still fail in execution)
	Auth bool
}

var badKinds = []badKind{
	{"foreign-send", "send", "foreign", "", false},
	{"foreign-deleg", "deleg", "foreign", "", false},
	{"foreign-vote", "vote", "foreign", "", false},
	{"foreign-deposit", "deposit", "foreign", "", false},
	{"foreign-transfer", "transfer", "foreign", "", false},
	{"otherica-send", "send", "otherica", "", false},
	{"otherica-deleg", "deleg", "otherica", "", false},
	{"module-send", "send", "module", "", false},
	{"module-hostparams", "hostparams", "module", "", false},
	{"two-signers-multisend", "multisend", "two", "", false},
	{"exec-foreign-grantee", "exec", "grantee2", "", false},
	{"exec-otherica-grantee", "exec", "otherica", "", false},
	{"fail-insufficient-funds", "send", "ica", "funds", true},
	{"fail-validate-basic", "send", "ica", "validate", true},
	{"fail-unknown-validator", "deleg", "ica", "noval", true},
	{"fail-unknown-proposal", "vote", "ica", "noprop", true},
	{"fail-exec-without-grant", "exec", "ica", "nogrant", true},
}

var goodKinds = []string{"send", "send", "deleg", "vote", "deposit", "transfer", "grant", "exec", "selfexec"}

type cell struct {
	Mode string // exact | wildcard | missing-one | single-unrelated | single-own | empty
	N    int
	Bad  string // "" = none, a badKinds name, or "type-not-allowed"
	Pos  int
	Via  string // relay | module
}

func (c cell) String() string {
	return fmt.Sprintf("%s|%s|n=%d|%s@%d", c.Via, c.Mode, c.N, orNone(c.Bad), c.Pos)
}

func orNone(s string) string {
	if s == "" {
		return "none"
	}
	return s
}

// matrix enumerates every cell once per delivery route.
func matrix() []cell {
	var out []cell
	for _, via := range []string{"relay", "module"} {
		for n := 1; n <= 5; n++ {
			for _, mode := range []string{"exact", "wildcard"} {
				for k := 0; k < 4; k++ { // fault-free packets: several fills per shape
					out = append(out, cell{Mode: mode, N: n, Via: via})
				}
				for pos := 0; pos < n; pos++ {
					for _, bk := range badKinds {
						out = append(out, cell{Mode: mode, N: n, Bad: bk.Name, Pos: pos, Via: via})
					}
				}
			}
			for pos := 0; pos < n; pos++ {
				for _, mode := range []string{"missing-one", "single-unrelated", "single-own", "empty"} {
					out = append(out, cell{Mode: mode, N: n, Bad: "type-not-allowed", Pos: pos, Via: via})
				}
			}
		}
	}
	return out
}

func badByName(n string) *badKind {
	for i := range badKinds {
		if badKinds[i].Name == n {
			return &badKinds[i]
		}
	}
	return nil
}

// genPacket fills the cell with concrete messages.
func (x *c37World) genPacket(l *lane, caseNo int, cl cell, r *kit.Rng) []*mspec {
	msgs := make([]*mspec, cl.N)
	voted := map[string]bool{}
	pickGood := func(pos int) *mspec {
		for {
			k := kit.Pick(r, goodKinds)
			if k == "vote" {
				if voted[l.ICA.String()] {
					continue
				}
				voted[l.ICA.String()] = true
			}
			return x.build(l, caseNo, pos, k, "ica", "", r)
		}
	}
	if bk := badByName(cl.Bad); bk != nil && bk.Kind == "vote" && bk.Signer == "ica" {
		voted[l.ICA.String()] = true
	}
	for pos := 0; pos < cl.N; pos++ {
		if pos == cl.Pos {
			if bk := badByName(cl.Bad); bk != nil {
				msgs[pos] = x.build(l, caseNo, pos, bk.Kind, bk.Signer, bk.Fail, r)
				continue
			}
		}
		msgs[pos] = pickGood(pos)
	}
	if cl.Mode == "single-own" && cl.N > 1 {
		// make sure the message at Pos has another type than the one that will be listed
		listed := msgs[(cl.Pos+1)%cl.N].TypeURL
		for tries := 0; msgs[cl.Pos].TypeURL == listed && tries < 50; tries++ {
			if msgs[cl.Pos].Kind == "vote" {
				voted[l.ICA.String()] = false
			}
			msgs[cl.Pos] = pickGood(cl.Pos)
		}
	}
	return msgs
}

func (x *c37World) allowFor(cl cell, msgs []*mspec) []string {
	set := map[string]bool{}
	for _, m := range msgs {
		set[m.TypeURL] = true
	}
	switch cl.Mode {
	case "wildcard":
		return []string{"*"}
	case "empty":
		return []string{}
	case "single-unrelated":
		return []string{"/cosmos.gov.v1.MsgCancelProposal"}
	case "single-own":
		if cl.N == 1 {
			return []string{"/cosmos.bank.v1beta1.MsgSetSendEnabled"}
		}
		return []string{msgs[(cl.Pos+1)%cl.N].TypeURL}
	case "missing-one":
		delete(set, msgs[cl.Pos].TypeURL)
		set["/cosmos.distribution.v1beta1.MsgSetWithdrawAddress"] = true
	default:
		set["/cosmos.distribution.v1beta1.MsgSetWithdrawAddress"] = true
	}
	var out []string
	for k := range set {
		out = append(out, k)
	}
	sort.Strings(out)
	return out
}

// ---------------------------------------------------------------------------------------------
// running and judging one cell

type verdictInfo struct {
	AckOK   bool
	Applied []bool
	Auth    bool
	Why     string
	AppDiff []kit.KV
	SemDiff []string
}

func (x *c37World) runCell(caseNo int, cl cell, r *kit.Rng) string {
	c, a, b := x.c, x.a, x.b
	x.ensureProposal()
	l := kit.Pick(r, x.lanes)
	msgs := x.genPacket(l, caseNo, cl, r)
	allow := x.allowFor(cl, msgs)
	x.setAllow(allow)

	pm := make([]proto.Message, len(msgs))
	var descs []string
	for i, m := range msgs {
		pm[i] = m.Msg
		descs = append(descs, m.Desc)
	}
	data, err := icatypes.SerializeCosmosTx(a.Sim.AppCodec(), pm, l.Encoding)
	if err != nil {
		panic(kit.Abort{Msg: "serialize: " + err.Error()})
	}
	pd := icatypes.InterchainAccountPacketData{Type: icatypes.EXECUTE_TX, Data: data, Memo: ""}

	// ground truth about the packet (from what the harness built)
	auth, why := true, ""
	for _, m := range msgs {
		if !modelAllowed(allow, m.TypeURL) {
			auth, why = false, fmt.Sprintf("type %s of message %d not on the allow list", m.TypeURL, m.Pos)
			break
		}
		for _, s := range m.Signers {
			if !s.Equals(l.ICA) {
				auth, why = false, fmt.Sprintf("message %d (%s) signed by %s, not by the registered account %s", m.Pos, m.Desc, s, l.ICA)
			}
		}
		if !auth {
			break
		}
	}
	legitGranters := map[string]bool{}
	if auth {
		for _, m := range msgs {
			if m.Granter != nil {
				legitGranters[m.Granter.String()] = true
			}
		}
	}

	var o *kit.Outcome
	var ackOK, haveAck bool
	var coreKeys [][]byte
	pre := x.sem()
	switch cl.Via {
	case "relay":
		so := a.Deliver(a.Acct(l.OwnerIdx), controllertypes.NewMsgSendTx(l.Owner.String(), l.CtrlConn, uint64(24*time.Hour), pd))
		if !so.OK() {
			panic(kit.Abort{Msg: "MsgSendTx failed: " + clip(so.Log, 200)})
		}
		pk, err := ibctesting.ParseV1PacketFromEvents(so.Res.Events)
		if err != nil {
			panic(kit.Abort{Msg: err.Error()})
		}
		if pk.SourcePort != l.Port || pk.SourceChannel != l.ChanA || pk.DestinationChannel != l.ChanB {
			panic(kit.Abort{Msg: "packet left on an unexpected channel"})
		}
		y, rm := x.e.msgRecv(a, pk)
		pre = x.sem()
		o = y.Deliver(relayerOf(y), rm)
		if !o.OK() {
			c.Inc("relay_recv_tx_failed")
			panic(kit.Abort{Msg: "recv tx failed: " + clip(o.Log, 200)})
		}
		coreKeys = [][]byte{
			host.PacketAcknowledgementKey(pk.DestinationPort, pk.DestinationChannel, pk.Sequence),
			host.PacketReceiptKey(pk.DestinationPort, pk.DestinationChannel, pk.Sequence),
			host.NextSequenceRecvKey(pk.DestinationPort, pk.DestinationChannel),
		}
		// the acknowledgement the host application returned, cross-checked with the commitment really stored
		stored := b.StoreGet("ibc", coreKeys[0])
		for _, cb := range o.CBs {
			if cb.Kind == "recv" && cb.Port == icatypes.HostPortID && cb.ID == pk.DestinationChannel && cb.Seq == pk.Sequence {
				if !bytes.Equal(stored, channeltypes.CommitAcknowledgement(cb.Ack)) {
					panic(kit.Abort{Msg: "stored acknowledgement differs from the one the application returned"})
				}
				haveAck, ackOK = true, cb.Result == "success"
			}
		}
		c.Inc("relay_cases")
	case "module":
		// the application-callback boundary (ICS-26 OnRecvPacket of the host module as routed by the port router):
		// whatever the callback leaves in the context it was given is kept, so that the host's own all-or-nothing
		// execution is observed without core's second cache layer
		l.fakeSeq++
		pk := channeltypes.NewPacket(pd.GetBytes(), l.fakeSeq, l.Port, l.ChanA, icatypes.HostPortID, l.ChanB, clienttypes.ZeroHeight(), uint64(x.e.W.Coord.CurrentTime.Add(24*time.Hour).UnixNano()))
		cbs, ok := b.App.GetIBCKeeper().PortKeeper.Route(icatypes.HostPortID)
		if !ok {
			panic(kit.Abort{Msg: "no icahost route"})
		}
		hc, _ := getChannel(b, icatypes.HostPortID, l.ChanB)
		var ack exported.Acknowledgement
		o = b.InBlock(func(ctx sdk.Context) error {
			ack = cbs.OnRecvPacket(ctx, hc.Version, pk, b.Addr(relayerAcct))
			return nil
		})
		if o.Err != nil {
			c.Violate("C37|host-callback-panicked|"+cl.Bad, fmt.Sprintf("host OnRecvPacket panicked on %v: %s", descs, clip(o.Log, 300)), nil)
			return "panic"
		}
		if ack == nil {
			panic(kit.Abort{Msg: "host returned an asynchronous acknowledgement"})
		}
		haveAck, ackOK = true, ack.Success()
		c.Inc("module_cases")
	}
	post := x.sem()
	if !haveAck {
		panic(kit.Abort{Msg: "no acknowledgement observed"})
	}

	// ---- what happened
	var appDiff []kit.KV
	for _, kv := range o.Diff {
		isCore := false
		for _, k := range coreKeys {
			if kv.Store == "ibc" && bytes.Equal(kv.Key, k) {
				isCore = true
			}
		}
		if !isCore {
			appDiff = append(appDiff, kv)
		}
	}
	sd := semDiff(pre, post)
	applied := make([]bool, len(msgs))
	nApplied := 0
	for i, m := range msgs {
		applied[i] = m.applied(pre, post)
		if applied[i] {
			nApplied++
		}
	}
	anyEffect := len(appDiff) > 0 || len(sd) > 0 || nApplied > 0
	witness := map[string]any{"cell": cl.String(), "lane": l.Name, "allow": allow, "messages": descs, "ack_success": ackOK, "applied": applied,
		"diff": diffStrings(appDiff), "sem_diff": sd, "registered_account": l.ICA.String()}
	sigTail := cl.Via + "|" + orNone(cl.Bad)

	// V1: executed only if authorized
	if !auth && anyEffect {
		c.Violate("C37|executed-unauthorized|"+sigTail, fmt.Sprintf("packet with %s took effect (%d/%d messages applied, %d keys changed)", why, nApplied, len(msgs), len(appDiff)), witness)
	}
	if !auth && ackOK {
		c.Violate("C37|success-ack-unauthorized|"+sigTail, "packet with "+why+" was acknowledged with a result", witness)
	}
	// V2: all or nothing
	if nApplied != 0 && nApplied != len(msgs) {
		c.Violate("C37|partial-effects|"+sigTail, fmt.Sprintf("%d of %d messages took effect: %v", nApplied, len(msgs), applied), witness)
	}
	if ackOK && nApplied != len(msgs) {
		c.Violate("C37|success-ack-but-not-all-applied|"+sigTail, fmt.Sprintf("result acknowledgement although only %d of %d messages took effect: %v", nApplied, len(msgs), applied), witness)
	}
	if !ackOK && anyEffect {
		c.Violate("C37|error-ack-with-effects|"+sigTail, fmt.Sprintf("error acknowledgement but state changed: %d messages applied, diff %v sem %v", nApplied, diffStrings(appDiff), sd), witness)
	}
	// V3: nobody but the registered account (or an account that granted it an authorization used by an authorized packet) loses funds
	distr := authtypes.NewModuleAddress(distrtypes.ModuleName)
	for _, kv := range o.DiffIn("bank") {
		addr, dn, ok := parseBalanceKey(kv.Key)
		if !ok {
			continue
		}
		oldA, newA := parseAmount(kv.Old), parseAmount(kv.New)
		if !newA.LT(oldA) {
			continue
		}
		c.Inc("balance_decreases_checked")
		if addr.Equals(l.ICA) || legitGranters[addr.String()] || addr.Equals(distr) {
			continue
		}
		c.Violate("C37|funds-left-foreign-account|"+sigTail, fmt.Sprintf("balance of %s (%s) fell from %s to %s in the receive of a packet of account %s", addr, dn, oldA, newA, l.ICA), witness)
	}
	// staking / gov records of accounts other than the registered one must not move
	for _, d := range sd {
		if strings.Contains(d, l.ICA.String()) || strings.HasPrefix(d, "hostparams") {
			continue
		}
		c.Violate("C37|acted-for-foreign-account|"+sigTail, "record of another account changed: "+d, witness)
	}

	// ---- bookkeeping
	outcome := "none"
	if nApplied == len(msgs) {
		outcome = "all"
	} else if nApplied > 0 {
		outcome = "partial"
	}
	switch {
	case !auth:
		c.Inc("unauthorized_packets")
		if !anyEffect && !ackOK {
			c.Inc("unauthorized_refused_clean")
		}
	case ackOK:
		c.Inc("authorized_executed_all")
		if len(legitGranters) > 0 {
			c.Inc("authorized_with_granted_exec")
		}
	default:
		c.Inc("authorized_failed_rolled_back")
	}
	if bk := badByName(cl.Bad); bk != nil && bk.Auth && cl.N > 1 {
		c.Inc("failing_message_among_good_ones")
	}
	if caseNo%97 == 0 {
		c.Sample(witness)
	}
	kinds := make([]string, len(msgs))
	for i, m := range msgs {
		kinds[i] = m.Kind
	}
	return fmt.Sprintf("%s|%s|%s|ack=%v|%s", cl.String(), l.Name, strings.Join(kinds, ","), ackOK, outcome)
}

func diffStrings(d []kit.KV) []string {
	var out []string
	for i, kv := range d {
		if i >= 12 {
			out = append(out, "…")
			break
		}
		out = append(out, kv.String())
	}
	return out
}

// parseBalanceKey decodes a bank balance key 0x02 | len(addr) | addr | denom.
func parseBalanceKey(k []byte) (sdk.AccAddress, string, bool) {
	if len(k) < 3 || k[0] != 0x02 {
		return nil, "", false
	}
	n := int(k[1])
	if len(k) < 2+n+1 {
		return nil, "", false
	}
	return sdk.AccAddress(k[2 : 2+n]), string(k[2+n:]), true
}

func parseAmount(v []byte) sdkmath.Int {
	if len(v) == 0 {
		return sdkmath.ZeroInt()
	}
	i, ok := sdkmath.NewIntFromString(string(v))
	if !ok {
		return sdkmath.ZeroInt()
	}
	return i
}
