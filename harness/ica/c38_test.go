package ica

import (
	"testing"

	"verif/harness/kit"
)

const c38Rule = "cases = PRNG-determined histories on two chains linked by two connections, each with 2-3 fresh owner accounts and strangers: MsgRegisterInterchainAccount (ORDERED/UNORDERED/NONE, default / proto3 / proto3json / foreign-connection metadata, signed by the owner or by somebody else), " +
	"plain MsgChannelOpenInit on an owner's controller port by anybody (host port or a wrong counterparty port), handshake steps relayed with honest proofs in any order with duplicates and mismatched ends, MsgSendTx signed by the owner / another owner / a stranger / a stranger through authz MsgExec, " +
	"packet relay, elapsed timeouts (closing ORDERED channels), close confirmations, reopenings with equal or different ordering and metadata, ChanOpenInit on the host port of either chain, ChanOpenTry on a controller port (answering a mock-port INIT that names it), several registrations before the first one completes; honest drain at the end. " +
	"A case is non-trivial when at least one hostile operation was judged and the monitors saw at least one event; distinct = distinct sequences of (operation kind, outcome)"

func TestC38(t *testing.T) {
	c := kit.NewCheck(t, "C38", "exploration", c38Rule)
	defer c.Finish()
	c.Assume("core channel handshake and packet verification (C05, C12) are the trusted base; proofs are honest")
	c.Assume("'replaced only after it is CLOSED' is read on the controller chain's channel end (the anchors are the controller callbacks); host-side replacements are counted, not judged")
	c.Assume("a new channel end on an owner's port over a connection whose active channel is not CLOSED counts as an attempt to replace the active channel")
	c.Assume("only transactions are monitored (keeper-level legacy entry points of an authentication module are not driven)")
	c.Floor("cases", 9)
	c.Floor("ctrl_channel_ends_created", 60)
	c.Floor("host_channel_ends_created", 60)
	c.Floor("active_channel_replaced", 7)
	c.Floor("reopenings_checked", 7)
	c.Floor("new_channel_after_active_closed", 5)
	c.Floor("channels_closed_by_timeout", 10)
	c.Floor("ica_packets_sent", 35)
	c.Floor("hostile_refused", 90)
	c.Floor("open_uniqueness_checks", 110)
	c.Floor("host_account_writes", 30)
	c.Floor("controller_account_writes", 30)

	n := c.N(36, 100)
	var e *Env
	inWorld := 0
	actorNo := 0
	for i := 0; i < n; i++ {
		if c.SkipCase(i) {
			continue
		}
		r := c.CaseRng(i)
		if e == nil || inWorld >= 6 {
			if err := kit.Try(func() { e = NewEnv(t, 2) }); err != nil {
				c.Inconcl("world setup: " + err.Error())
				e = nil
				continue
			}
			inWorld = 0
		}
		inWorld++
		actorNo = i * 100
		var s *c38Sim
		err := kit.Try(func() {
			s = newC38Sim(c, e, r, &actorNo)
			if r.Chance(1, 2) {
				s.Prefix()
			}
			nops := 35 + r.Intn(45)
			for j := 0; j < nops; j++ {
				s.Step()
			}
			s.Drain()
			if !s.crossCheck() {
				panic(kit.Abort{Msg: "diff-maintained mirror differs from the committed stores"})
			}
		})
		if s != nil {
			s.detach()
		}
		c.Inc("cases")
		if err != nil {
			c.Inconcl(err.Error())
			e = nil // do not reuse a world a helper gave up on
			continue
		}
		if i < 2 {
			tail := s.trace
			if len(tail) > 40 {
				tail = tail[:40]
			}
			c.Sample(map[string]any{"case": c.CaseID(i), "ops": tail})
		}
		if s.hostileJudged > 0 && s.monitorEvents > 0 {
			c.Eval(abstractClasses(s.classes))
		} else {
			c.Eval("")
		}
	}
}
