package ica

import (
	"testing"

	"verif/harness/kit"
)

const c37Rule = "fault matrix = {delivery: real MsgSendTx + relayed MsgRecvPacket, host module OnRecvPacket called at the application-callback boundary} x " +
	"{1..5 messages} x {fault position 0..n-1} x {fault: none; foreign-account signer on bank send / delegate / vote / deposit / ICS-20 transfer; signer = interchain account of another owner or of the same owner on another connection; " +
	"module-account signer (bank send out of gov / bonded pool, host MsgUpdateParams by the authority); two-signer MsgMultiSend; authz MsgExec whose grantee is a foreign grant holder or another interchain account; " +
	"executing failure: insufficient funds, ValidateBasic failure, unknown validator, unknown proposal, MsgExec without grant} x {allow list: exact, wildcard} plus {type missing from the list, single unrelated entry, single own entry, empty list}; " +
	"the remaining messages are PRNG-chosen valid messages of the lane's own account (bank send, delegate, vote, deposit, ICS-20 transfer, authz grant, granted MsgExec, self MsgExec) on a PRNG-chosen lane " +
	"(ORDERED/proto3, UNORDERED/proto3json, second connection); distinct = distinct (cell, lane, message kinds, acknowledgement, applied-set class)"

func TestC37(t *testing.T) {
	c := kit.NewCheck(t, "C37", "fault_enumeration", c37Rule)
	defer c.Finish()
	c.Assume("the SDK message handlers (bank, staking, gov, authz, transfer) are the trusted base: a message they execute has the effect the harness probes for")
	c.Assume("an account that granted the interchain account an authz SendAuthorization on chain has itself authorised the resulting transfer (not counted as acting for another account)")
	c.Assume("allow-list reference: the list [\"*\"] allows every type, any other list allows exactly its members; nested messages of MsgExec are not 'the packet's messages'")
	c.Floor("relay_cases", 200)
	c.Floor("module_cases", 200)
	c.Floor("unauthorized_packets", 280)
	c.Floor("unauthorized_refused_clean", 280)
	c.Floor("authorized_executed_all", 25)
	c.Floor("authorized_with_granted_exec", 5)
	c.Floor("authorized_failed_rolled_back", 100)
	c.Floor("failing_message_among_good_ones", 90)
	c.Floor("balance_decreases_checked", 30)
	c.Exhaustive = true

	var x *c37World
	if err := kit.Try(func() { x = newC37World(c) }); err != nil {
		c.Inconcl("world setup: " + err.Error())
		t.Fatalf("setup failed: %v", err)
	}
	cells := matrix()
	reps := c.N(1, 3)
	caseNo := 0
	for rep := 0; rep < reps; rep++ {
		for _, cl := range cells {
			i := caseNo
			caseNo++
			if c.SkipCase(i) {
				continue
			}
			r := c.CaseRng(i)
			var class string
			err := kit.Try(func() { class = x.runCell(i, cl, r) })
			if err != nil {
				c.Inconcl(cl.String() + ": " + err.Error())
				continue
			}
			c.Eval(class)
		}
	}
}
