package authz

import (
	"fmt"
	"math/big"
	"sort"
	"strings"
	"testing"

	sdkmath "cosmossdk.io/math"

	sdk "github.com/cosmos/cosmos-sdk/types"
	sdkauthz "github.com/cosmos/cosmos-sdk/x/authz"

	transfertypes "github.com/cosmos/ibc-go/v11/modules/apps/transfer/types"
	clienttypes "github.com/cosmos/ibc-go/v11/modules/core/02-client/types"
	ibctesting "github.com/cosmos/ibc-go/v11/testing"

	"verif/harness/kit"
)

const c36Rule = "cases = PRNG-determined histories on a real chain with two v1 transfer channels (also used through their v2 alias) and an IBC v2 client: " +
	"x/authz MsgGrant of TransferAuthorizations (1-3 allocations, 1-3 denominations each, bounded / unbounded (2^256-1) / 2^256-2 limits, receiver allow lists, memo lists incl. '*' and padded entries), re-grants, revokes, and MsgExec transactions of 1-2 MsgTransfers signed by the grantee " +
	"(amounts below / at / one above the remaining limit and the 'entire balance' sentinel; receivers and memos inside, outside and near-misses of the lists; allocated and unallocated channels; strangers without grant); " +
	"after every accepted exec the stored grant is read back and compared with the reference model and the granter's real bank debit is accumulated per (port, channel, denomination); " +
	"distinct = distinct (grant shape, request shape, decision) classes; non-trivial = every authorization decision on a MsgExec"

var msgTransferURL = sdk.MsgTypeURL(&transfertypes.MsgTransfer{})

type world struct {
	c      *kit.Check
	r      *kit.Rng
	w      *kit.World
	a, b   *kit.Chain
	chans  []string // candidate source channels on A (v1 channels, v2 client, a non-existent channel)
	live   map[string]string
	denoms []string
	grants map[[2]int]*MGrant // (granter acct, grantee acct)
	serial int
	trace  []string
}

func (s *world) log(f string, a ...any) {
	if len(s.trace) < 400 {
		s.trace = append(s.trace, fmt.Sprintf(f, a...))
	}
}

func (s *world) tail() []string {
	t := s.trace
	if len(t) > 40 {
		t = t[len(t)-40:]
	}
	return append([]string(nil), t...)
}

func newWorld(c *kit.Check, r *kit.Rng) *world {
	w := kit.NewWorld(c.T, 2)
	s := &world{c: c, r: r, w: w, a: w.Chains[0], b: w.Chains[1], grants: map[[2]int]*MGrant{}, live: map[string]string{}}
	p1 := ibctesting.NewTransferPath(s.a.TestChain, s.b.TestChain)
	p1.Setup()
	p2 := ibctesting.NewTransferPath(s.a.TestChain, s.b.TestChain)
	p2.Setup()
	v2 := ibctesting.NewPath(s.a.TestChain, s.b.TestChain)
	v2.SetupV2()
	s.chans = []string{p1.EndpointA.ChannelID, p2.EndpointA.ChannelID, v2.EndpointA.ClientID, "channel-77"}
	s.live[p1.EndpointA.ChannelID], s.live[p2.EndpointA.ChannelID], s.live[v2.EndpointA.ClientID] = "v1", "v1", "v2"
	s.denoms = []string{sdk.DefaultBondDenom, "uaaa", "ubbb", "gamm/pool/7"}
	for g := 0; g < 4; g++ {
		for _, d := range s.denoms[1:] {
			s.a.Fund(s.a.Addr(g), d, int64(2000+r.Intn(4000)))
		}
	}
	return s
}

func bi(x sdkmath.Int) *big.Int { return new(big.Int).Set(x.BigInt()) }

func (s *world) receivers() []string {
	var out []string
	for i := 0; i < 6; i++ {
		out = append(out, s.b.Addr(i).String())
	}
	return out
}

var memoPool = []string{"", "swap", "{\"forward\":{}}", "note 1", " padded ", "x"}

func (s *world) genLimit() sdkmath.Int {
	max := transfertypes.UnboundedSpendLimit()
	switch s.r.Intn(10) {
	case 0, 1, 2:
		return max
	case 3:
		return max.SubRaw(1)
	case 4:
		return sdkmath.NewInt(1)
	default:
		return sdkmath.NewInt(int64(1 + s.r.Intn(600)))
	}
}

// opGrant: granter g grants grantee e a fresh TransferAuthorization (replacing any previous one).
func (s *world) opGrant() string {
	g, e := s.r.Intn(4), 4+s.r.Intn(4)
	na := 1 + s.r.Intn(3)
	chans := append([]string(nil), s.chans...)
	kit.Shuffle(s.r, chans)
	dup := s.r.Intn(25) == 0
	var allocs []transfertypes.Allocation
	m := &MGrant{}
	shape := ""
	for i := 0; i < na; i++ {
		ch := chans[i]
		if ch == "channel-77" && s.r.Intn(3) > 0 {
			ch = chans[3]
		}
		if dup && i == 1 {
			ch = chans[0]
		}
		nd := 1 + s.r.Intn(3)
		ds := append([]string(nil), s.denoms...)
		kit.Shuffle(s.r, ds)
		var coins sdk.Coins
		port := "transfer"
		if s.r.Intn(10) == 0 {
			port = "xfer"
			shape += "P"
		}
		ma := &MAlloc{Port: port, Channel: ch, Limit: map[string]*big.Int{}, Granted: map[string]*big.Int{}, Spent: map[string]*big.Int{}}
		for _, d := range ds[:nd] {
			l := s.genLimit()
			coins = coins.Add(sdk.NewCoin(d, l))
			ma.Limit[d], ma.Granted[d] = bi(l), bi(l)
			switch {
			case l.Equal(transfertypes.UnboundedSpendLimit()):
				shape += "U"
			case l.GT(sdkmath.NewInt(1 << 40)):
				shape += "H"
			default:
				shape += "b"
			}
		}
		var allow []string
		if s.r.Intn(3) > 0 {
			rs := s.receivers()
			kit.Shuffle(s.r, rs)
			allow = rs[:1+s.r.Intn(3)]
			shape += "a"
		}
		var memos []string
		switch s.r.Intn(4) {
		case 0:
			memos = []string{"*"}
			shape += "*"
		case 1:
			ms := append([]string(nil), memoPool[1:]...)
			kit.Shuffle(s.r, ms)
			memos = ms[:1+s.r.Intn(3)]
			shape += "m"
		}
		ma.Allow, ma.Memos = allow, memos
		allocs = append(allocs, transfertypes.Allocation{SourcePort: port, SourceChannel: ch, SpendLimit: coins, AllowList: allow, AllowedPacketData: memos})
		m.Allocs = append(m.Allocs, ma)
		shape += "|"
	}
	msg, err := sdkauthz.NewMsgGrant(s.a.Addr(g), s.a.Addr(e), transfertypes.NewTransferAuthorization(allocs...), nil)
	if err != nil {
		return ""
	}
	o := s.a.Deliver(s.a.Acct(g), msg)
	s.log("grant g%d->e%d %s ok=%v %s", g, e, shape, o.OK(), clip(o.Log, 100))
	if !o.OK() {
		s.c.Inc("grants_rejected")
		if len(o.Diff) != 0 {
			s.c.Violate("C36|rejected-grant-changed-state", "rejected MsgGrant changed state:"+o.DiffString(), s.tail())
		}
		return "grant-rej"
	}
	s.c.Inc("grants")
	s.serial++
	m.Serial = s.serial
	s.grants[[2]int{g, e}] = m
	s.compareStored(g, e, "after-grant")
	return "grant:" + shape
}

func (s *world) opRevoke() string {
	var keys [][2]int
	for k := range s.grants {
		keys = append(keys, k)
	}
	if len(keys) == 0 {
		return ""
	}
	sort.Slice(keys, func(i, j int) bool { return keys[i][0]*10+keys[i][1] < keys[j][0]*10+keys[j][1] })
	k := keys[s.r.Intn(len(keys))]
	msg := sdkauthz.NewMsgRevoke(s.a.Addr(k[0]), s.a.Addr(k[1]), msgTransferURL)
	o := s.a.Deliver(s.a.Acct(k[0]), &msg)
	s.log("revoke g%d->e%d ok=%v", k[0], k[1], o.OK())
	if o.OK() {
		delete(s.grants, k)
		s.c.Inc("revokes")
	}
	return "revoke"
}

type req struct {
	msg    *transfertypes.MsgTransfer
	class  string
	amount *big.Int
}

// genTransfer builds one MsgTransfer of granter g. It starts from a request that fits the grant and then breaks
// at most one or two dimensions; the model is consulted only to aim at the interesting boundaries (the verdict
// never depends on these hints).
func (s *world) genTransfer(g int, m *MGrant) req {
	ch := s.chans[s.r.Intn(len(s.chans)-1)]
	var al *MAlloc
	if m != nil && len(m.Allocs) > 0 {
		al = m.Allocs[s.r.Intn(len(m.Allocs))]
		ch = al.Channel
	}
	denom := s.denoms[s.r.Intn(len(s.denoms))]
	var rem *big.Int
	if al != nil {
		var ds []string
		for d, v := range al.Limit {
			if v.Sign() > 0 {
				ds = append(ds, d)
			}
		}
		sort.Strings(ds)
		denom = ds[s.r.Intn(len(ds))]
		rem = al.Limit[denom]
	}
	bal := s.a.Bal(s.a.Addr(g), denom)
	// which dimensions to break
	brk := map[string]bool{}
	if s.r.Intn(100) < 55 {
		brk[kit.Pick(s.r, []string{"amount", "amount", "receiver", "memo", "channel", "denom"})] = true
		if s.r.Intn(6) == 0 {
			brk[kit.Pick(s.r, []string{"amount", "receiver", "memo"})] = true
		}
	}
	cls := ""
	if brk["channel"] {
		ch = s.chans[s.r.Intn(len(s.chans))]
		cls += "ch=rand,"
	}
	if brk["denom"] {
		denom = s.denoms[s.r.Intn(len(s.denoms))]
		cls += "d=rand,"
	}
	bounded := rem != nil && !isSentinel(rem) && rem.IsInt64()
	hi := int64(300)
	if bounded && rem.Int64() < hi {
		hi = rem.Int64()
	}
	if bal.IsInt64() && bal.Int64() < hi && bal.Int64() > 0 {
		hi = bal.Int64()
	}
	amt := sdkmath.NewInt(1 + int64(s.r.Intn(int(hi))))
	cls += "amt=n"
	switch {
	case brk["amount"]:
		switch k := s.r.Intn(5); {
		case k == 0 || k == 1:
			amt, cls = transfertypes.UnboundedSpendLimit(), cls[:len(cls)-5]+"amt=MAX"
		case k == 2 && bounded:
			amt, cls = sdkmath.NewIntFromBigInt(rem).AddRaw(1), cls[:len(cls)-5]+"amt=rem+1"
		case k == 3:
			amt, cls = transfertypes.UnboundedSpendLimit().SubRaw(1), cls[:len(cls)-5]+"amt=MAX-1"
		default:
			amt, cls = sdkmath.NewInt(1+int64(s.r.Intn(1200))), cls[:len(cls)-5]+"amt=any"
		}
	case bounded && s.r.Intn(4) == 0:
		amt, cls = sdkmath.NewIntFromBigInt(rem), cls[:len(cls)-5]+"amt=rem"
	case rem != nil && isSentinel(rem) && s.r.Intn(4) == 0:
		amt, cls = transfertypes.UnboundedSpendLimit(), cls[:len(cls)-5]+"amt=MAX"
	}
	recv := s.receivers()[s.r.Intn(6)]
	rc := "r=any"
	if al != nil && len(al.Allow) > 0 {
		recv, rc = al.Allow[s.r.Intn(len(al.Allow))], "r=listed"
		if brk["receiver"] {
			switch s.r.Intn(3) {
			case 0:
				recv, rc = s.receivers()[s.r.Intn(6)], "r=rand"
			case 1:
				recv, rc = recv+" ", "r=padded"
			default:
				recv, rc = strings.ToUpper(recv), "r=upper"
			}
		}
	}
	memo, mc := "", "m=empty"
	listed := al != nil && len(al.Memos) > 0 && al.Memos[0] != "*"
	if listed {
		memo, mc = al.Memos[s.r.Intn(len(al.Memos))], "m=listed"
	} else if al != nil && len(al.Memos) == 1 && s.r.Bool() {
		memo, mc = memoPool[s.r.Intn(len(memoPool))], "m=free"
	}
	if brk["memo"] {
		switch s.r.Intn(3) {
		case 0:
			memo, mc = memoPool[s.r.Intn(len(memoPool))], "m=pool"
		case 1:
			if listed {
				memo, mc = "  "+memo+" ", "m=padded"
			} else {
				memo, mc = " ", "m=blank"
			}
		default:
			memo, mc = memo+"!", "m=other"
		}
	}
	kind := s.live[ch]
	var msg *transfertypes.MsgTransfer
	coin := sdk.Coin{Denom: denom, Amount: amt}
	sender := s.a.Addr(g).String()
	switch {
	case kind == "v2":
		msg = transfertypes.NewMsgTransfer("transfer", ch, coin, sender, recv, clienttypes.ZeroHeight(), uint64(s.w.Coord.CurrentTime.Unix())+3600, memo)
		cls += ",v2"
	case kind == "v1" && s.r.Intn(4) == 0:
		msg = transfertypes.NewMsgTransferAliased("transfer", ch, coin, sender, recv, clienttypes.ZeroHeight(), uint64(s.w.Coord.CurrentTime.Unix())+3600, memo)
		cls += ",alias"
	default:
		msg = transfertypes.NewMsgTransfer("transfer", ch, coin, sender, recv, clienttypes.NewHeight(1, 1000000), 0, memo)
		cls += ",v1"
	}
	if al == nil {
		cls += ",noalloc"
	} else {
		sh := ""
		for _, v := range al.Limit {
			if isSentinel(v) {
				sh = "U" + sh
			} else if v.Sign() > 0 {
				sh += "b"
			}
		}
		cls += ",lim=" + sh
	}
	return req{msg: msg, class: cls + "," + rc + "," + mc, amount: bi(amt)}
}

func (s *world) bals(g int) map[string]*big.Int {
	out := map[string]*big.Int{}
	for _, d := range s.denoms {
		out[d] = bi(s.a.Bal(s.a.Addr(g), d))
	}
	return out
}

// opExec: a grantee (or a stranger) executes 1-2 transfers in the name of a granter.
func (s *world) opExec() string {
	g, e := s.r.Intn(4), 4+s.r.Intn(4)
	// prefer pairs with a grant
	if len(s.grants) > 0 && s.r.Intn(8) > 0 {
		var keys [][2]int
		for k := range s.grants {
			keys = append(keys, k)
		}
		sort.Slice(keys, func(i, j int) bool { return keys[i][0]*10+keys[i][1] < keys[j][0]*10+keys[j][1] })
		k := keys[s.r.Intn(len(keys))]
		g, e = k[0], k[1]
	}
	m := s.grants[[2]int{g, e}]
	n := 1
	if s.r.Intn(4) == 0 {
		n = 2
	}
	var reqs []req
	var msgs []sdk.Msg
	cls := ""
	for i := 0; i < n; i++ {
		q := s.genTransfer(g, m)
		reqs = append(reqs, q)
		msgs = append(msgs, q.msg)
		cls += q.class + ";"
	}
	before := s.bals(g)
	var view []string
	nAllocBefore := 0
	if m != nil {
		view = m.View()
		nAllocBefore = len(m.Allocs)
	}
	exec := sdkauthz.NewMsgExec(s.a.Addr(e), msgs)
	o := s.a.Deliver(s.a.Acct(e), &exec)
	s.c.Inc("exec_decisions")
	s.log("exec e%d for g%d [%s] ok=%v %s | model before: %v", e, g, cls, o.OK(), clip(o.Log, 140), view)
	if !o.OK() {
		s.c.Inc("exec_rejected")
		s.c.Inc("exec_rejected_" + rejectReason(o.Log))
		if len(o.Diff) != 0 {
			s.c.Violate("C36|rejected-exec-changed-state", "rejected MsgExec changed state:"+o.DiffString(), s.tail())
		}
		if m != nil {
			s.compareStored(g, e, "after-rejected-exec")
		}
		return "rej:" + cls
	}
	s.c.Inc("exec_accepted")
	after := s.bals(g)
	if m == nil {
		s.c.Violate("C36|accepted-without-grant", fmt.Sprintf("MsgExec by e%d for g%d accepted although no grant exists: %s", e, g, cls), s.tail())
		return "ACCEPTED-NOGRANT:" + cls
	}
	// expected debit of each message: the amount, or the whole remaining balance for the sentinel
	running := map[string]*big.Int{}
	for d, v := range before {
		running[d] = new(big.Int).Set(v)
	}
	bad := false
	for _, q := range reqs {
		d := q.msg.Token.Denom
		debit := new(big.Int).Set(q.amount)
		if isSentinel(q.amount) {
			debit = new(big.Int).Set(running[d])
			s.c.Inc("sentinel_amount_accepted")
		}
		running[d] = new(big.Int).Sub(running[d], debit)
		j := m.Accept(q.msg.SourcePort, q.msg.SourceChannel, d, q.amount, debit, q.msg.Receiver, q.msg.Memo)
		if j.Open {
			s.c.Inc("accepted_on_open_point(memo up to surrounding white space)")
		}
		for _, p := range j.Problems {
			bad = true
			s.c.Violate("C36|"+p, fmt.Sprintf("exec by e%d for g%d accepted: %s/%s %s%s to %q memo %q; model before: %v", e, g, q.msg.SourcePort, q.msg.SourceChannel, amtS(q.amount), d, q.msg.Receiver, q.msg.Memo, view),
				map[string]any{"trace_tail": s.tail()})
		}
	}
	// the real debit of the granter must be what was accepted
	for _, d := range s.denoms {
		real := new(big.Int).Sub(before[d], after[d])
		want := new(big.Int).Sub(before[d], running[d])
		s.c.Inc("debits_compared")
		if real.Cmp(want) != 0 {
			bad = true
			s.c.Violate("C36|debit-differs-from-accepted-amount", fmt.Sprintf("granter g%d lost %s %s, accepted transfers amount to %s", g, real, d, want), s.tail())
		}
	}
	if len(m.Allocs) < nAllocBefore {
		s.c.Obs("allocations_exhausted", int64(nAllocBefore-len(m.Allocs)))
	}
	if len(m.Allocs) == 0 {
		delete(s.grants, [2]int{g, e})
		s.c.Inc("grants_exhausted")
	}
	if !s.compareStored(g, e, "after-accepted-exec") || bad {
		s.resync(g, e)
	}
	return "ok:" + cls
}

// rejectReason classifies a refusal for the observation counters only (never used in a verdict).
func rejectReason(log string) string {
	for _, k := range [][2]string{
		{"more than spend limit", "spend_limit"}, {"not allowed receiver", "receiver"}, {"not allowed memo", "memo"}, {"memo must be empty", "memo"},
		{"allocation does not exist", "no_allocation"}, {"failed to get grant", "no_grant"}, {"insufficient funds", "insufficient_funds"}, {"spendable balance", "insufficient_funds"},
		{"empty spendable", "insufficient_funds"}, {"counterparty", "no_such_channel"}, {"channel not found", "no_such_channel"},
	} {
		if strings.Contains(log, k[0]) {
			return k[1]
		}
	}
	return "other"
}

func amtS(x *big.Int) string {
	if isSentinel(x) {
		return "MAX "
	}
	return x.String() + " "
}

func clip(s string, n int) string {
	if len(s) > n {
		return s[:n] + "…"
	}
	return s
}

// stored reads the grant back from the chain.
func (s *world) stored(g, e int) (*transfertypes.TransferAuthorization, bool) {
	auth, _ := s.a.Sim.AuthzKeeper.GetAuthorization(s.a.GetContext(), s.a.Addr(e), s.a.Addr(g), msgTransferURL)
	if auth == nil {
		return nil, false
	}
	ta, ok := auth.(*transfertypes.TransferAuthorization)
	return ta, ok
}

func storedView(ta *transfertypes.TransferAuthorization) (views []string, exhaustedPresent []string) {
	for _, al := range ta.Allocations {
		var ks []string
		positive := false
		for _, c := range al.SpendLimit {
			if c.Amount.IsPositive() {
				positive = true
				v := c.Amount.String()
				if c.Amount.Equal(transfertypes.UnboundedSpendLimit()) {
					v = "MAX"
				}
				ks = append(ks, c.Denom+"="+v)
			}
		}
		sort.Strings(ks)
		id := al.SourcePort + "/" + al.SourceChannel
		if !positive {
			exhaustedPresent = append(exhaustedPresent, id)
		}
		views = append(views, id+"{"+strings.Join(ks, ",")+"}allow="+strings.Join(al.AllowList, ",")+"|memos="+strings.Join(al.AllowedPacketData, "\x1f"))
	}
	sort.Strings(views)
	return
}

// compareStored: remaining limits, allocation set and lists as stored must equal the model.
func (s *world) compareStored(g, e int, when string) bool {
	m := s.grants[[2]int{g, e}]
	ta, found := s.stored(g, e)
	s.c.Inc("stored_grants_compared")
	if m == nil || len(m.Allocs) == 0 {
		if found {
			_, ex := storedView(ta)
			sig := "C36|grant-still-stored-after-all-allocations-exhausted"
			if len(ex) == 0 {
				sig = "C36|remaining-limit-differs-from-model"
			}
			s.c.Violate(sig, fmt.Sprintf("%s: grant g%d->e%d should be gone, stored: %v", when, g, e, ta.Allocations), s.tail())
			return false
		}
		return true
	}
	if !found {
		s.c.Violate("C36|grant-missing-although-limit-remains", fmt.Sprintf("%s: grant g%d->e%d vanished, model still has %v", when, g, e, m.View()), s.tail())
		return false
	}
	sv, ex := storedView(ta)
	if len(ex) > 0 {
		s.c.Violate("C36|exhausted-allocation-still-present", fmt.Sprintf("%s: grant g%d->e%d keeps allocation(s) %v with nothing left to spend", when, g, e, ex), s.tail())
		return false
	}
	mv := m.View()
	if strings.Join(sv, "\n") != strings.Join(mv, "\n") {
		s.c.Violate("C36|remaining-limit-differs-from-model", fmt.Sprintf("%s: grant g%d->e%d stored %v, model %v", when, g, e, sv, mv), s.tail())
		return false
	}
	return true
}

// resync rebuilds the model from the stored grant after a reported difference, so that one defect is reported once.
func (s *world) resync(g, e int) {
	ta, found := s.stored(g, e)
	k := [2]int{g, e}
	old := s.grants[k]
	if !found {
		delete(s.grants, k)
		return
	}
	m := &MGrant{}
	for _, al := range ta.Allocations {
		ma := &MAlloc{Port: al.SourcePort, Channel: al.SourceChannel, Limit: map[string]*big.Int{}, Granted: map[string]*big.Int{}, Spent: map[string]*big.Int{}, Allow: al.AllowList, Memos: al.AllowedPacketData}
		for _, c := range al.SpendLimit {
			ma.Limit[c.Denom], ma.Granted[c.Denom] = bi(c.Amount), bi(c.Amount)
		}
		if old != nil {
			if oa := old.find(al.SourcePort, al.SourceChannel); oa != nil {
				ma.Granted, ma.Spent = oa.Granted, oa.Spent
			}
		}
		m.Allocs = append(m.Allocs, ma)
	}
	s.grants[k] = m
}

func TestC36(t *testing.T) {
	c := kit.NewCheck(t, "C36", "exploration", c36Rule)
	defer c.Finish()
	c.Assume("x/authz dispatch (grant lookup, expiry, update/delete of the stored grant as told by Accept), the bank module and SDK tx atomicity are the trusted base")
	c.Assume("a memo equal to an allowed entry up to surrounding white space may be accepted or refused (the statement does not say whether white space belongs to the memo)")
	c.Floor("exec_decisions", 200)
	c.Floor("exec_accepted", 40)
	c.Floor("exec_rejected", 80)
	c.Floor("stored_grants_compared", 150)
	c.Floor("grants_exhausted", 1)
	c.Floor("allocations_exhausted", 4)
	c.Floor("sentinel_amount_accepted", 3)
	n := c.N(6, 40)
	for i := 0; i < n; i++ {
		if c.SkipCase(i) {
			continue
		}
		r := c.CaseRng(i)
		err := kit.Try(func() {
			s := newWorld(c, r)
			nops := 150 + r.Intn(60)
			for j := 0; j < nops; j++ {
				var cls string
				switch k := r.Intn(20); {
				case k < 4 || len(s.grants) == 0:
					cls = s.opGrant()
				case k == 4:
					cls = s.opRevoke()
				default:
					cls = s.opExec()
				}
				if strings.HasPrefix(cls, "ok:") || strings.HasPrefix(cls, "rej:") || strings.HasPrefix(cls, "ACCEPTED") {
					c.Eval(cls)
				}
			}
			if i < 2 {
				t := s.trace
				if len(t) > 25 {
					t = t[:25]
				}
				c.Sample(map[string]any{"case": c.CaseID(i), "ops": t})
			}
		})
		c.Inc("cases")
		if err != nil {
			c.Inconcl(err.Error())
		}
	}
}
