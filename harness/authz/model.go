// Package authz monitors ICS-20 transfer authorizations (property C36): real x/authz grants carrying a
// TransferAuthorization, real MsgExec transactions signed by the grantee, and an independent reference model
// of the remaining spend limits written from the property statement.
package authz

import (
	"math/big"
	"sort"
	"strings"
)

// maxU256 is the "unbounded" / "entire balance" sentinel of ICS-20 (2^256-1), written from the spec.
var maxU256 = new(big.Int).Sub(new(big.Int).Lsh(big.NewInt(1), 256), big.NewInt(1))

func isSentinel(x *big.Int) bool { return x.Cmp(maxU256) == 0 }

// MAlloc is the model of one allocation: remaining limits per denomination on one (port, channel).
type MAlloc struct {
	Port, Channel string
	Limit         map[string]*big.Int // remaining; maxU256 = unbounded
	Granted       map[string]*big.Int // limit at grant time
	Spent         map[string]*big.Int // cumulative real bank debit of the granter observed under this allocation
	Allow         []string            // receivers; empty = anybody
	Memos         []string            // allowed memo strings; empty = only the empty memo; ["*"] = any
}

// MGrant is the model of one (granter, grantee) grant.
type MGrant struct {
	Allocs []*MAlloc
	Serial int
}

func (g *MGrant) find(port, channel string) *MAlloc {
	for _, a := range g.Allocs {
		if a.Port == port && a.Channel == channel {
			return a
		}
	}
	return nil
}

// exhausted: nothing can be spent under the allocation any more.
func (a *MAlloc) exhausted() bool {
	for _, v := range a.Limit {
		if v.Sign() > 0 {
			return false
		}
	}
	return true
}

func (a *MAlloc) receiverAllowed(r string) bool {
	if len(a.Allow) == 0 {
		return true
	}
	for _, x := range a.Allow {
		if x == r {
			return true
		}
	}
	return false
}

// memoAllowed: the statement says "only with allowed memos". Whether surrounding white space is part of a memo is
// left open by the statement, so a memo that equals an allowed entry up to surrounding white space is accepted
// either way (verdict "open"); everything else is decided.
func (a *MAlloc) memoAllowed(m string) (allowed, open bool) {
	if len(a.Memos) == 1 && a.Memos[0] == "*" {
		return true, false
	}
	if len(a.Memos) == 0 {
		if m == "" {
			return true, false
		}
		return false, strings.TrimSpace(m) == ""
	}
	for _, x := range a.Memos {
		if x == m {
			return true, false
		}
	}
	for _, x := range a.Memos {
		if strings.TrimSpace(x) == strings.TrimSpace(m) {
			return false, true
		}
	}
	return false, false
}

// Judgement of one accepted transfer against the model.
type Judgement struct {
	Problems []string // signature suffixes of the statement clauses that the acceptance breaks
	Open     bool     // acceptance depends on a point the statement leaves open
}

// Accept judges a transfer the chain accepted under the grant and moves the model forward by `debit`,
// the amount really taken from the granter (for the sentinel amount: the entire balance).
func (g *MGrant) Accept(port, channel, denom string, amount, debit *big.Int, receiver, memo string) Judgement {
	var j Judgement
	a := g.find(port, channel)
	if a == nil {
		j.Problems = append(j.Problems, "accepted-without-allocation-for-port-channel")
		return j
	}
	if !a.receiverAllowed(receiver) {
		j.Problems = append(j.Problems, "receiver-outside-allow-list-accepted")
	}
	if ok, open := a.memoAllowed(memo); !ok {
		if open {
			j.Open = true
		} else {
			j.Problems = append(j.Problems, "memo-outside-allowed-list-accepted")
		}
	}
	lim, has := a.Limit[denom]
	switch {
	case !has || lim.Sign() == 0:
		j.Problems = append(j.Problems, "denomination-without-remaining-limit-accepted")
	case isSentinel(lim):
		// unbounded: nothing to subtract
	case isSentinel(amount):
		j.Problems = append(j.Problems, "entire-balance-sentinel-accepted-against-bounded-limit")
		a.Limit[denom] = new(big.Int)
	case amount.Cmp(lim) > 0:
		j.Problems = append(j.Problems, "amount-above-remaining-limit-accepted")
		a.Limit[denom] = new(big.Int)
	default:
		a.Limit[denom] = new(big.Int).Sub(lim, amount)
	}
	if _, ok := a.Spent[denom]; !ok {
		a.Spent[denom] = new(big.Int)
	}
	a.Spent[denom].Add(a.Spent[denom], debit)
	if gr, ok := a.Granted[denom]; ok && !isSentinel(gr) && a.Spent[denom].Cmp(gr) > 0 {
		j.Problems = append(j.Problems, "cumulative-debit-above-granted-limit")
	}
	// the allocation disappears when exhausted
	if a.exhausted() {
		for i, x := range g.Allocs {
			if x == a {
				g.Allocs = append(g.Allocs[:i:i], g.Allocs[i+1:]...)
				break
			}
		}
	}
	return j
}

// View is a canonical rendering of remaining limits used to compare the model with the stored grant.
func (a *MAlloc) View() string {
	var ks []string
	for d, v := range a.Limit {
		if v.Sign() > 0 {
			s := v.String()
			if isSentinel(v) {
				s = "MAX"
			}
			ks = append(ks, d+"="+s)
		}
	}
	sort.Strings(ks)
	return a.Port + "/" + a.Channel + "{" + strings.Join(ks, ",") + "}allow=" + strings.Join(a.Allow, ",") + "|memos=" + strings.Join(a.Memos, "\x1f")
}

func (g *MGrant) View() []string {
	var out []string
	for _, a := range g.Allocs {
		out = append(out, a.View())
	}
	sort.Strings(out)
	return out
}
