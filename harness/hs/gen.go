package hs

import (
	"fmt"

	sdk "github.com/cosmos/cosmos-sdk/types"

	connectiontypes "github.com/cosmos/ibc-go/v11/modules/core/03-connection/types"
	channeltypes "github.com/cosmos/ibc-go/v11/modules/core/04-channel/types"
	"github.com/cosmos/ibc-go/v11/modules/core/exported"

	"verif/harness/kit"
)

// cand is one handshake step that harness truth says is the honest next move.
type cand struct {
	kind string
	x, y *chainSt
	a    string // own end (connection id / channel key)
	t    string // counterparty end (connection id / channel key)
	cn   string // own connection id (chan_try)
	dup  bool   // a Try for an end that was already answered (duplicate)
}

func (c cand) String() string { return fmt.Sprintf("%s %s a=%s t=%s", c.kind, c.x.name(), c.a, c.t) }

// connCands enumerates the honest next steps of all connection handshakes in flight.
func (s *Sim) connCands() []cand {
	var out []cand
	for _, x := range s.chains {
		cur := x.cur()
		for _, id := range sortedConnIDs(cur) {
			A := cur.conns[id]
			y := s.connTarget(x, A)
			if y == nil {
				continue
			}
			switch A.State {
			case connectiontypes.INIT:
				for _, tid := range sortedConnIDs(y.cur()) {
					T := y.cur().conns[tid]
					if T.State == connectiontypes.TRYOPEN && T.Counterparty.ConnectionId == id && T.ClientId == A.Counterparty.ClientId && s.connTarget(y, T) == x {
						out = append(out, cand{kind: "conn_ack", x: x, y: y, a: id, t: tid})
					}
				}
			case connectiontypes.TRYOPEN:
				T, ok := y.cur().conns[A.Counterparty.ConnectionId]
				if ok && T.State == connectiontypes.OPEN && T.Counterparty.ConnectionId == id && s.connTarget(y, T) == x {
					out = append(out, cand{kind: "conn_confirm", x: x, y: y, a: id})
				}
			}
		}
		for _, y := range s.chains {
			if y == x {
				continue
			}
			for _, tid := range sortedConnIDs(y.cur()) {
				T := y.cur().conns[tid]
				if T.State != connectiontypes.INIT || s.connTarget(y, T) != x {
					continue
				}
				if t, ok := x.clientTarget[T.Counterparty.ClientId]; !ok || t != y.idx {
					continue
				}
				n := s.tries[fmt.Sprintf("%d|conn|%s", y.idx, tid)]
				out = append(out, cand{kind: "conn_try", x: x, y: y, t: tid, dup: n > 0})
			}
		}
	}
	return out
}

// chanCands enumerates the honest next steps of all channel handshakes in flight (opening and closing).
func (s *Sim) chanCands() []cand {
	var out []cand
	for _, x := range s.chains {
		cur := x.cur()
		for _, k := range sortedChanKeys(cur) {
			A := cur.chans[k]
			y, _, ok := s.chanTarget(x, cur, A)
			if !ok {
				continue
			}
			port, id := splitChanKey(k)
			names := func(T channeltypes.Channel) bool {
				return T.Counterparty.PortId == port && T.Counterparty.ChannelId == id
			}
			switch A.State {
			case channeltypes.INIT:
				for _, tk := range sortedChanKeys(y.cur()) {
					T := y.cur().chans[tk]
					tp, _ := splitChanKey(tk)
					if T.State == channeltypes.TRYOPEN && names(T) && tp == A.Counterparty.PortId {
						if ty, _, ok := s.chanTarget(y, y.cur(), T); ok && ty == x {
							out = append(out, cand{kind: "chan_ack", x: x, y: y, a: k, t: tk})
						}
					}
				}
			case channeltypes.TRYOPEN:
				T, ok := y.cur().chans[chanKey(A.Counterparty.PortId, A.Counterparty.ChannelId)]
				if ok && T.State == channeltypes.OPEN && names(T) {
					out = append(out, cand{kind: "chan_confirm", x: x, y: y, a: k})
				}
			}
			if A.State != channeltypes.CLOSED && A.Counterparty.ChannelId != "" {
				T, ok := y.cur().chans[chanKey(A.Counterparty.PortId, A.Counterparty.ChannelId)]
				if ok && T.State == channeltypes.CLOSED && names(T) {
					out = append(out, cand{kind: "chan_close_confirm", x: x, y: y, a: k})
				}
			}
		}
		for _, y := range s.chains {
			if y == x {
				continue
			}
			for _, tk := range sortedChanKeys(y.cur()) {
				T := y.cur().chans[tk]
				if T.State != channeltypes.INIT {
					continue
				}
				ty, ycn, ok := s.chanTarget(y, y.cur(), T)
				if !ok || ty != x {
					continue
				}
				cn := ycn.Counterparty.ConnectionId
				xc, ok := x.cur().conns[cn]
				if !ok || s.connTarget(x, xc) != y {
					continue
				}
				n := s.tries[fmt.Sprintf("%d|chan|%s", y.idx, tk)]
				out = append(out, cand{kind: "chan_try", x: x, y: y, t: tk, cn: cn, dup: n > 0})
			}
		}
	}
	return out
}

func mutsFor(kind string) []string {
	switch kind {
	case "conn_try":
		return connTryMuts
	case "conn_ack":
		return connAckMuts
	case "conn_confirm":
		return connConfirmMuts
	case "chan_try":
		return chanTryMuts
	case "chan_ack":
		return chanAckMuts
	case "chan_confirm":
		return chanConfirmMuts
	case "chan_close_confirm":
		return proofMuts
	}
	return nil
}

// run performs candidate c, honestly (mut "") or with one mutation.
func (s *Sim) run(c cand, mut string) *kit.Outcome {
	switch c.kind {
	case "conn_try":
		return s.doConnTry(c.x, c.y, c.t, mut)
	case "conn_ack":
		return s.doConnAck(c.x, c.a, c.t, mut)
	case "conn_confirm":
		return s.doConnConfirm(c.x, c.a, mut)
	case "chan_try":
		o := s.doChanTry(c.x, c.y, c.t, c.cn, mut)
		return o
	case "chan_ack":
		_, tid := splitChanKey(c.t)
		return s.doChanAck(c.x, c.a, tid, mut)
	case "chan_confirm":
		return s.doChanConfirm(c.x, c.a, mut)
	case "chan_close_confirm":
		return s.doChanCloseConfirm(c.x, c.a, mut)
	}
	return nil
}

// pickCand prefers first-time steps over duplicate Trys (dupPct % of the time a duplicate is allowed).
func (s *Sim) pickCand(cs []cand, dupPct int) (cand, bool) {
	var fresh []cand
	for _, c := range cs {
		if !c.dup {
			fresh = append(fresh, c)
		}
	}
	if len(cs) == 0 {
		return cand{}, false
	}
	if len(fresh) == 0 || s.R.Chance(dupPct, 100) {
		return kit.Pick(s.R, cs), true
	}
	return kit.Pick(s.R, fresh), true
}

// ---------------------------------------------------------------------------------------------
// inits

func (s *Sim) randomLinkSide() (*chainSt, string, string) {
	l := kit.Pick(s.R, s.links)
	side := s.R.Intn(2)
	x := s.chains[[]int{l.a, l.b}[side]]
	return x, l.ep[side].ClientID, l.ep[1-side].ClientID
}

func (s *Sim) connInit(mut string) {
	x, cid, cpid := s.randomLinkSide()
	s.doConnInit(x, cid, cpid, mut)
}

// crossingConnInit: both chains of a link open towards each other before either is answered.
func (s *Sim) crossingConnInit() {
	l := kit.Pick(s.R, s.links)
	o1 := s.doConnInit(s.chains[l.a], l.ep[0].ClientID, l.ep[1].ClientID, "")
	o2 := s.doConnInit(s.chains[l.b], l.ep[1].ClientID, l.ep[0].ClientID, "")
	if o1.OK() && o2.OK() {
		s.C.Inc("crossing_init_cases")
	}
}

type openConn struct {
	x  *chainSt
	id string
	y  *chainSt
}

// connsFor lists connections of all chains usable for channel handshakes (state OPEN unless any is set).
func (s *Sim) connsFor(any bool) []openConn {
	var out []openConn
	for _, x := range s.chains {
		for _, id := range sortedConnIDs(x.cur()) {
			e := x.cur().conns[id]
			y := s.connTarget(x, e)
			if y == nil || (!any && e.State != connectiontypes.OPEN) {
				continue
			}
			out = append(out, openConn{x, id, y})
		}
	}
	return out
}

func (s *Sim) chanInitParams() (port, cpPort string, order channeltypes.Order, version string) {
	order = channeltypes.UNORDERED
	if s.R.Chance(2, 5) {
		order = channeltypes.ORDERED
	}
	switch s.R.Intn(10) {
	case 0, 1, 2:
		port, cpPort = portTransfer, portTransfer
		version = kit.Pick(s.R, []string{"", "ics20-1", "ics20-1", "ics20-2"})
		if s.R.Chance(3, 4) {
			order = channeltypes.UNORDERED
		}
	case 3:
		port, cpPort = portMock, portTransfer
		order = channeltypes.UNORDERED
		version = "ics20-1"
	case 4:
		port, cpPort = portTransfer, portMock
		order = channeltypes.UNORDERED
	default:
		port, cpPort = portMock, portMock
		version = kit.Pick(s.R, []string{"", "mock-version", "mock-version", "app-v7"})
	}
	return
}

func (s *Sim) chanInit(mut string) {
	cs := s.connsFor(s.R.Chance(1, 6))
	if len(cs) == 0 {
		return
	}
	c := kit.Pick(s.R, cs)
	port, cpPort, order, version := s.chanInitParams()
	s.doChanInit(c.x, c.id, port, cpPort, order, version, mut)
}

// crossingChanInit: both ends of an OPEN connection pair open a channel towards each other before either is answered.
func (s *Sim) crossingChanInit() {
	cs := s.connsFor(false)
	if len(cs) == 0 {
		return
	}
	c := kit.Pick(s.R, cs)
	e := c.x.cur().conns[c.id]
	cp, ok := c.y.cur().conns[e.Counterparty.ConnectionId]
	if !ok || cp.State != connectiontypes.OPEN {
		return
	}
	port, cpPort, order, version := s.chanInitParams()
	o1 := s.doChanInit(c.x, c.id, port, cpPort, order, version, "")
	o2 := s.doChanInit(c.y, e.Counterparty.ConnectionId, cpPort, port, order, version, "")
	if o1.OK() && o2.OK() {
		s.C.Inc("crossing_init_cases")
	}
}

// ---------------------------------------------------------------------------------------------
// hostile steps on arbitrary targets (wrong state / wrong counterparty)

func (s *Sim) wrongTargetConn() {
	if ls := s.losers(true); len(ls) > 0 && s.R.Chance(1, 3) {
		c := kit.Pick(s.R, ls)
		s.doConnConfirm(c.x, c.a, "confirm-loser")
		return
	}
	if ms := s.misdirected(true); len(ms) > 0 && s.R.Chance(1, 3) {
		s.run(kit.Pick(s.R, ms), "ack-with-siblings-answer")
		return
	}
	x := kit.Pick(s.R, s.chains)
	ids := sortedConnIDs(x.cur())
	var y *chainSt
	for {
		y = kit.Pick(s.R, s.chains)
		if y != x {
			break
		}
	}
	yids := sortedConnIDs(y.cur())
	switch s.R.Intn(3) {
	case 0:
		if len(yids) > 0 {
			s.doConnTry(x, y, kit.Pick(s.R, yids), "wrong-target")
		}
	case 1:
		if len(ids) > 0 {
			a := kit.Pick(s.R, ids)
			ty := s.connTarget(x, x.cur().conns[a])
			if ty == nil {
				return
			}
			tids := append(sortedConnIDs(ty.cur()), "connection-90")
			s.doConnAck(x, a, kit.Pick(s.R, tids), "wrong-target")
		}
	default:
		if len(ids) > 0 {
			s.doConnConfirm(x, kit.Pick(s.R, ids), "wrong-target")
		}
	}
}

func (s *Sim) wrongTargetChan() {
	if ls := s.losers(false); len(ls) > 0 && s.R.Chance(1, 3) {
		c := kit.Pick(s.R, ls)
		s.doChanConfirm(c.x, c.a, "confirm-loser")
		return
	}
	if ms := s.misdirected(false); len(ms) > 0 && s.R.Chance(1, 3) {
		s.run(kit.Pick(s.R, ms), "ack-with-siblings-answer")
		return
	}
	x := kit.Pick(s.R, s.chains)
	ks := sortedChanKeys(x.cur())
	switch s.R.Intn(5) {
	case 0:
		var y *chainSt
		for {
			y = kit.Pick(s.R, s.chains)
			if y != x {
				break
			}
		}
		yks := sortedChanKeys(y.cur())
		cs := sortedConnIDs(x.cur())
		if len(yks) > 0 && len(cs) > 0 {
			s.doChanTry(x, y, kit.Pick(s.R, yks), kit.Pick(s.R, cs), "wrong-target")
		}
	case 1:
		if len(ks) > 0 {
			a := kit.Pick(s.R, ks)
			y, _, ok := s.chanTarget(x, x.cur(), x.cur().chans[a])
			if !ok {
				return
			}
			tid := "channel-90"
			if yks := sortedChanKeys(y.cur()); len(yks) > 0 && s.R.Chance(9, 10) {
				_, tid = splitChanKey(kit.Pick(s.R, yks))
			}
			s.doChanAck(x, a, tid, "wrong-target")
		}
	case 2:
		if len(ks) > 0 {
			a := kit.Pick(s.R, ks)
			if _, _, ok := s.chanTarget(x, x.cur(), x.cur().chans[a]); ok {
				s.doChanConfirm(x, a, "wrong-target")
			}
		}
	case 3:
		if len(ks) > 0 {
			a := kit.Pick(s.R, ks)
			if _, _, ok := s.chanTarget(x, x.cur(), x.cur().chans[a]); ok {
				s.doChanCloseConfirm(x, a, "wrong-target")
			}
		}
	default:
		if len(ks) > 0 {
			s.doChanCloseInit(x, kit.Pick(s.R, ks), "any-state")
		}
	}
}

// losers lists TRYOPEN ends whose INIT counterpart went OPEN with a *different* TRYOPEN end (a duplicate Try lost the race);
// a hostile relayer still tries to confirm them with a perfectly valid proof of the (OPEN) counterparty end.
func (s *Sim) losers(conn bool) []cand {
	var out []cand
	for _, x := range s.chains {
		cur := x.cur()
		if conn {
			for _, id := range sortedConnIDs(cur) {
				A := cur.conns[id]
				y := s.connTarget(x, A)
				if y == nil || A.State != connectiontypes.TRYOPEN {
					continue
				}
				if T, ok := y.cur().conns[A.Counterparty.ConnectionId]; ok && T.State == connectiontypes.OPEN && T.Counterparty.ConnectionId != id {
					out = append(out, cand{kind: "conn_confirm", x: x, y: y, a: id})
				}
			}
			continue
		}
		for _, k := range sortedChanKeys(cur) {
			A := cur.chans[k]
			y, _, ok := s.chanTarget(x, cur, A)
			if !ok || A.State != channeltypes.TRYOPEN {
				continue
			}
			_, id := splitChanKey(k)
			if T, ok := y.cur().chans[chanKey(A.Counterparty.PortId, A.Counterparty.ChannelId)]; ok && T.State == channeltypes.OPEN && T.Counterparty.ChannelId != id {
				out = append(out, cand{kind: "chan_confirm", x: x, y: y, a: k})
			}
		}
	}
	return out
}

// misdirected lists (INIT end A of x, TRYOPEN end T of y) where T answers a *sibling* of A (another end of x over the same
// clients / connection and port): a hostile relayer acknowledges A with a perfectly valid proof of T.
func (s *Sim) misdirected(conn bool) []cand {
	var out []cand
	for _, x := range s.chains {
		cur := x.cur()
		if conn {
			for _, id := range sortedConnIDs(cur) {
				A := cur.conns[id]
				y := s.connTarget(x, A)
				if y == nil || A.State != connectiontypes.INIT {
					continue
				}
				for _, tid := range sortedConnIDs(y.cur()) {
					T := y.cur().conns[tid]
					if T.State == connectiontypes.TRYOPEN && T.Counterparty.ConnectionId != id && T.ClientId == A.Counterparty.ClientId && T.Counterparty.ClientId == A.ClientId {
						out = append(out, cand{kind: "conn_ack", x: x, y: y, a: id, t: tid})
					}
				}
			}
			continue
		}
		for _, k := range sortedChanKeys(cur) {
			A := cur.chans[k]
			y, cn, ok := s.chanTarget(x, cur, A)
			if !ok || A.State != channeltypes.INIT {
				continue
			}
			port, id := splitChanKey(k)
			for _, tk := range sortedChanKeys(y.cur()) {
				T := y.cur().chans[tk]
				tp, _ := splitChanKey(tk)
				if T.State == channeltypes.TRYOPEN && tp == A.Counterparty.PortId && T.Counterparty.PortId == port && T.Counterparty.ChannelId != id &&
					len(T.ConnectionHops) == 1 && T.ConnectionHops[0] == cn.Counterparty.ConnectionId {
					out = append(out, cand{kind: "chan_ack", x: x, y: y, a: k, t: tk})
				}
			}
		}
	}
	return out
}

// siblingsConn: two INIT ends on one chain over the same clients, one of them answered; the other is acknowledged with the
// proof of the answer to its sibling (then everything proceeds honestly).
func (s *Sim) siblingsConn() {
	x, cid, cpid := s.randomLinkSide()
	before := sortedConnIDs(x.cur())
	if !s.doConnInit(x, cid, cpid, "").OK() {
		return
	}
	a := newID(before, sortedConnIDs(x.cur()))
	before = sortedConnIDs(x.cur())
	if !s.doConnInit(x, cid, cpid, "").OK() {
		return
	}
	b := newID(before, sortedConnIDs(x.cur()))
	if a == "" || b == "" {
		return
	}
	y := s.chains[x.clientTarget[cid]]
	s.doConnTry(y, x, kit.Pick(s.R, []string{a, b}), "")
	s.C.Inc("sibling_scenarios")
	for _, c := range s.misdirected(true) {
		if c.x == x && (c.a == a || c.a == b) {
			s.run(c, "ack-with-siblings-answer")
		}
	}
}

func (s *Sim) siblingsChan() {
	cs := s.connsFor(false)
	if len(cs) == 0 {
		return
	}
	c := kit.Pick(s.R, cs)
	port, cpPort, order, version := s.chanInitParams()
	before := sortedChanKeys(c.x.cur())
	if !s.doChanInit(c.x, c.id, port, cpPort, order, version, "").OK() {
		return
	}
	a := newID(before, sortedChanKeys(c.x.cur()))
	before = sortedChanKeys(c.x.cur())
	if !s.doChanInit(c.x, c.id, port, cpPort, order, version, "").OK() {
		return
	}
	b := newID(before, sortedChanKeys(c.x.cur()))
	if a == "" || b == "" {
		return
	}
	ycn := c.x.cur().conns[c.id].Counterparty.ConnectionId
	s.doChanTry(c.y, c.x, kit.Pick(s.R, []string{a, b}), ycn, "")
	s.C.Inc("sibling_scenarios")
	for _, cd := range s.misdirected(false) {
		if cd.x == c.x && (cd.a == a || cd.a == b) {
			s.run(cd, "ack-with-siblings-answer")
		}
	}
}

// raceConn: one INIT end is answered by two Trys, acknowledges one of them, then both TRYOPEN ends ask for confirmation.
func (s *Sim) raceConn() {
	x, cid, cpid := s.randomLinkSide()
	before := sortedConnIDs(x.cur())
	if o := s.doConnInit(x, cid, cpid, ""); !o.OK() {
		return
	}
	id := newID(before, sortedConnIDs(x.cur()))
	y := s.chains[x.clientTarget[cid]]
	if id == "" {
		return
	}
	s.doConnTry(y, x, id, "")
	s.doConnTry(y, x, id, "")
	var ts []string
	for _, c := range s.connCands() {
		if c.kind == "conn_ack" && c.x == x && c.a == id {
			ts = append(ts, c.t)
		}
	}
	if len(ts) < 2 {
		return
	}
	s.C.Inc("race_scenarios")
	s.doConnAck(x, id, kit.Pick(s.R, ts), "")
	for _, t := range ts {
		s.doConnConfirm(y, t, "confirm-after-race")
	}
	// the loser also tries to get acknowledged
	for _, t := range ts {
		s.doConnAck(x, id, t, "ack-after-race")
	}
}

// raceChan: the same race for a channel end.
func (s *Sim) raceChan() {
	cs := s.connsFor(false)
	if len(cs) == 0 {
		return
	}
	c := kit.Pick(s.R, cs)
	port, cpPort, order, version := s.chanInitParams()
	before := sortedChanKeys(c.x.cur())
	if o := s.doChanInit(c.x, c.id, port, cpPort, order, version, ""); !o.OK() {
		return
	}
	k := newID(before, sortedChanKeys(c.x.cur()))
	if k == "" {
		return
	}
	ycn := c.x.cur().conns[c.id].Counterparty.ConnectionId
	s.doChanTry(c.y, c.x, k, ycn, "")
	s.doChanTry(c.y, c.x, k, ycn, "")
	var ts []string
	for _, cd := range s.chanCands() {
		if cd.kind == "chan_ack" && cd.x == c.x && cd.a == k {
			ts = append(ts, cd.t)
		}
	}
	if len(ts) < 2 {
		return
	}
	s.C.Inc("race_scenarios")
	_, tid := splitChanKey(kit.Pick(s.R, ts))
	s.doChanAck(c.x, k, tid, "")
	for _, t := range ts {
		s.doChanConfirm(c.y, t, "confirm-after-race")
	}
	for _, t := range ts {
		_, tid := splitChanKey(t)
		s.doChanAck(c.x, k, tid, "ack-after-race")
	}
}

func newID(before, after []string) string {
	old := map[string]bool{}
	for _, b := range before {
		old[b] = true
	}
	for _, a := range after {
		if !old[a] {
			return a
		}
	}
	return ""
}

// ---------------------------------------------------------------------------------------------
// steps

// Profile = percentages of the step kinds.
type Profile struct {
	Init, Crossing, Honest, Mutated, WrongTarget, Replay, Close, DupPct int
}

func (s *Sim) stepConn(p Profile) {
	roll := s.R.Intn(100)
	cs := s.connCands()
	switch {
	case roll < p.Init:
		if s.R.Chance(1, 3) {
			s.connInit(kit.Pick(s.R, connInitMuts))
		} else {
			s.connInit("")
		}
	case roll < p.Init+p.Crossing:
		switch s.R.Intn(4) {
		case 0:
			s.raceConn()
		case 1:
			s.siblingsConn()
		default:
			s.crossingConnInit()
		}
	case roll < p.Init+p.Crossing+p.Honest:
		if c, ok := s.pickCand(cs, p.DupPct); ok {
			s.run(c, "")
		} else {
			s.connInit("")
		}
	case roll < p.Init+p.Crossing+p.Honest+p.Mutated:
		if c, ok := s.pickCand(cs, 30); ok {
			s.run(c, kit.Pick(s.R, mutsFor(c.kind)))
		} else {
			s.connInit(kit.Pick(s.R, connInitMuts))
		}
	case roll < p.Init+p.Crossing+p.Honest+p.Mutated+p.WrongTarget:
		s.wrongTargetConn()
	default:
		s.replay()
	}
}

func (s *Sim) stepChan(p Profile) {
	roll := s.R.Intn(100)
	cs := s.chanCands()
	switch {
	case roll < p.Init:
		if s.R.Chance(1, 3) {
			s.chanInit(kit.Pick(s.R, chanInitMuts))
		} else {
			s.chanInit("")
		}
	case roll < p.Init+p.Crossing:
		switch s.R.Intn(4) {
		case 0:
			s.raceChan()
		case 1:
			s.siblingsChan()
		default:
			s.crossingChanInit()
		}
	case roll < p.Init+p.Crossing+p.Honest:
		if c, ok := s.pickCand(cs, p.DupPct); ok {
			s.run(c, "")
		} else {
			s.chanInit("")
		}
	case roll < p.Init+p.Crossing+p.Honest+p.Mutated:
		if c, ok := s.pickCand(cs, 30); ok {
			s.run(c, kit.Pick(s.R, mutsFor(c.kind)))
		} else {
			s.chanInit(kit.Pick(s.R, chanInitMuts))
		}
	case roll < p.Init+p.Crossing+p.Honest+p.Mutated+p.WrongTarget:
		s.wrongTargetChan()
	case roll < p.Init+p.Crossing+p.Honest+p.Mutated+p.WrongTarget+p.Close:
		var open []cand
		for _, x := range s.chains {
			for _, k := range sortedChanKeys(x.cur()) {
				if x.cur().chans[k].State != channeltypes.CLOSED {
					open = append(open, cand{x: x, a: k})
				}
			}
		}
		if len(open) > 0 {
			c := kit.Pick(s.R, open)
			s.doChanCloseInit(c.x, c.a, "")
		}
	default:
		s.replay()
	}
}

// drain finishes, honestly, every handshake that harness truth says can still make progress.
func (s *Sim) drain(conn bool, max int) {
	failed := map[string]bool{}
	for i := 0; i < max; i++ {
		var cs []cand
		if conn {
			cs = s.connCands()
		} else {
			cs = s.chanCands()
		}
		var todo []cand
		for _, c := range cs {
			// an honest step may legitimately be refused (e.g. an application callback says no): do not retry it
			if !c.dup && !failed[c.String()] {
				todo = append(todo, c)
			}
		}
		if len(todo) == 0 {
			return
		}
		c := todo[0]
		o := s.run(c, "")
		s.C.Inc("drain_steps")
		if o == nil || !o.OK() {
			failed[c.String()] = true
			s.C.Inc("drain_steps_refused")
		}
	}
}

// openConnections opens n connections honestly (used by C12 cases, where connections are only the substrate).
func (s *Sim) openConnections(n int) {
	for i := 0; i < n; i++ {
		if s.R.Chance(1, 3) {
			s.crossingConnInit()
		} else {
			s.connInit("")
		}
	}
	s.drain(true, 12*n+12)
}

// ---------------------------------------------------------------------------------------------
// harness-side injection of connection ends (C13: channels only on single-version connections)

func (s *Sim) inject(x *chainSt, id string, e connectiontypes.ConnectionEnd) {
	s.quiet = true
	x.k.InBlock(func(ctx sdk.Context) error {
		x.k.Sim.IBCKeeper.ConnectionKeeper.SetConnection(ctx, id, e)
		return nil
	})
	x.hist = append(x.hist, x.read())
	s.quiet = false
	s.tracef("%s@%d inject %s versions=%s", x.name(), x.cur().ver, id, versStr(e.Versions))
}

var injectedVersionLists = [][]*connectiontypes.Version{
	{},
	{ver("1", fO, fU), ver("1", fO, fU)},
	{ver("1", fO), ver("2", fU)},
	{ver("1", fO)},
	{ver("1", fU)},
	{ver("1")},
	{ver("1", "ORDER_DAG")},
	{ver("1", fO, fU), ver("2", fO, fU), ver("3", fO, fU)},
	{ver("1", fO, fU)}, // control: exactly one version with both orderings
	{ver("1", fU, fO)}, // control
}

func versionsAllow(vs []*connectiontypes.Version, order channeltypes.Order) bool {
	if len(vs) != 1 {
		return false
	}
	_, ok := setOf(vs[0].Features)[orderFeature[order]]
	return ok
}

// chanVersionScenario: on an honestly opened connection pair, replace this chain's connection end by one with a
// doctored version list and try to start (ChanOpenInit) and to answer (ChanOpenTry, with an honest fresh proof) a
// channel over it; then restore the end and repeat the identical Try as a control.
func (s *Sim) chanVersionScenario() {
	var pairs []openConn
	for _, c := range s.connsFor(false) {
		e := c.x.cur().conns[c.id]
		cp, ok := c.y.cur().conns[e.Counterparty.ConnectionId]
		if ok && cp.State == connectiontypes.OPEN && cp.Counterparty.ConnectionId == c.id && s.connTarget(c.y, cp) == c.x {
			pairs = append(pairs, c)
		}
	}
	if len(pairs) == 0 {
		return
	}
	c := kit.Pick(s.R, pairs)
	x, y := c.x, c.y
	orig := x.cur().conns[c.id]
	ycn := orig.Counterparty.ConnectionId
	yv := y.cur().conns[ycn].Versions
	s.C.Inc("chanver_scenarios")
	for n := 0; n < 3; n++ {
		vs := kit.Pick(s.R, injectedVersionLists)
		order := kit.Pick(s.R, []channeltypes.Order{channeltypes.ORDERED, channeltypes.UNORDERED})
		bad := !versionsAllow(vs, order)
		mod := orig
		mod.Versions = vs
		// the counterparty starts a channel honestly over its untouched end (if its own version allows the ordering)
		var tk string
		if versionsAllow(yv, order) {
			before := len(y.cur().chans)
			o := s.doChanInit(y, ycn, portMock, portMock, order, "", "")
			if o.OK() && len(y.cur().chans) == before+1 {
				for _, k := range sortedChanKeys(y.cur()) {
					if _, ok := y.hist[len(y.hist)-2].chans[k]; !ok {
						tk = k
					}
				}
			}
		}
		s.inject(x, c.id, mod)
		o := s.doChanInit(x, c.id, portMock, portMock, order, "", "conn-versions-doctored")
		s.noteChanVer("init", bad, o)
		if tk != "" {
			o = s.doChanTry(x, y, tk, c.id, "conn-versions-doctored")
			s.noteChanVer("try", bad, o)
		}
		s.inject(x, c.id, orig)
		if tk != "" && bad && versionsAllow(orig.Versions, order) {
			o = s.doChanTry(x, y, tk, c.id, "")
			if o.OK() {
				s.C.Inc("chanver_try_control_accepted")
			} else {
				s.C.Inc("chanver_try_control_rejected")
			}
		}
	}
}

func (s *Sim) noteChanVer(step string, bad bool, o *kit.Outcome) {
	switch {
	case bad && !o.OK():
		s.C.Inc("chanver_" + step + "_refused_on_bad_versions")
	case !bad && o.OK():
		s.C.Inc("chanver_" + step + "_accepted_on_good_versions")
	case !bad && !o.OK():
		s.C.Inc("chanver_" + step + "_refused_on_good_versions")
	}
	// bad && accepted is reported by the generic monitor chanOnConn
}

var _ = exported.LocalhostClientID
