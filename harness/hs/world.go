// Package hs drives hostile connection- and channel-handshake histories over real chains and
// monitors the handshake properties C12 (channel ends) and C13 (connection ends, version negotiation).
//
// Ground truth (tap T-truth) is kept by the harness itself: after every block that carried a transaction
// every connection end and channel end of the chain is read from the raw committed IBC store and appended
// to a per-chain history, so "what did the counterparty end look like at proof height h" (= committed
// version h-1 of the counterparty chain) is answered from the harness's own log, never from the code under test.
package hs

import (
	"fmt"
	"os"
	"sort"
	"strings"

	sdk "github.com/cosmos/cosmos-sdk/types"

	clienttypes "github.com/cosmos/ibc-go/v11/modules/core/02-client/types"
	connectiontypes "github.com/cosmos/ibc-go/v11/modules/core/03-connection/types"
	channeltypes "github.com/cosmos/ibc-go/v11/modules/core/04-channel/types"
	host "github.com/cosmos/ibc-go/v11/modules/core/24-host"
	"github.com/cosmos/ibc-go/v11/modules/core/exported"
	ibctesting "github.com/cosmos/ibc-go/v11/testing"

	"verif/harness/kit"
)

const (
	connPrefix = "connections/"
	chanPrefix = "channelEnds/ports/"
	ibcStore   = "ibc"
)

// snap is every connection end and channel end of one chain at one committed version.
type snap struct {
	ver   int64
	conns map[string]connectiontypes.ConnectionEnd
	chans map[string]channeltypes.Channel // key "port/channel-id"
}

func chanKey(port, id string) string { return port + "/" + id }

func splitChanKey(k string) (string, string) {
	i := strings.LastIndex(k, "/")
	return k[:i], k[i+1:]
}

// chainSt is the harness's knowledge about one chain.
type chainSt struct {
	k    *kit.Chain
	idx  int
	hist []*snap // ascending versions; one entry per block that carried a tx (empty blocks change nothing)
	// harness truth about light clients living on this chain: which chain they were created for
	clientTarget map[string]int
	eps          map[string]*ibctesting.Endpoint
	heights      map[string][]uint64 // consensus heights the relayer installed, per client
	sent         []sdk.Msg           // every handshake message delivered here (for replays)
}

func (cs *chainSt) name() string { return cs.k.Name }

func prefixEnd(p []byte) []byte {
	e := append([]byte{}, p...)
	for i := len(e) - 1; i >= 0; i-- {
		if e[i] < 0xff {
			e[i]++
			return e[:i+1]
		}
	}
	return nil
}

// read decodes all connection and channel ends from the committed raw store.
func (cs *chainSt) read() *snap {
	s := &snap{ver: cs.k.App.LastBlockHeight(), conns: map[string]connectiontypes.ConnectionEnd{}, chans: map[string]channeltypes.Channel{}}
	kvs := cs.k.Sim.CommitMultiStore().GetKVStore(cs.k.Sim.GetKey(ibcStore))
	it := kvs.Iterator([]byte(connPrefix), prefixEnd([]byte(connPrefix)))
	for ; it.Valid(); it.Next() {
		var e connectiontypes.ConnectionEnd
		if err := e.Unmarshal(it.Value()); err != nil {
			panic(kit.Abort{Msg: "undecodable connection end: " + err.Error()})
		}
		s.conns[strings.TrimPrefix(string(it.Key()), connPrefix)] = e
	}
	it.Close()
	it = kvs.Iterator([]byte(chanPrefix), prefixEnd([]byte(chanPrefix)))
	for ; it.Valid(); it.Next() {
		var e channeltypes.Channel
		if err := e.Unmarshal(it.Value()); err != nil {
			panic(kit.Abort{Msg: "undecodable channel end: " + err.Error()})
		}
		rest := strings.TrimPrefix(string(it.Key()), chanPrefix)
		parts := strings.SplitN(rest, "/channels/", 2)
		if len(parts) != 2 {
			continue
		}
		s.chans[chanKey(parts[0], parts[1])] = e
	}
	it.Close()
	return s
}

func (cs *chainSt) cur() *snap { return cs.hist[len(cs.hist)-1] }

// at returns the state of the chain at committed version v (nil when v is before the baseline or in the future).
func (cs *chainSt) at(v int64) *snap {
	if v > cs.k.App.LastBlockHeight() || len(cs.hist) == 0 || v < cs.hist[0].ver {
		return nil
	}
	i := sort.Search(len(cs.hist), func(i int) bool { return cs.hist[i].ver > v })
	return cs.hist[i-1]
}

// rawAt reads one key of the IBC store at a historical version (used to cross-check the history).
func (cs *chainSt) rawAt(v int64, key []byte) (val []byte, ok bool) {
	err := kit.TryAll(func() {
		ms, e := cs.k.Sim.CommitMultiStore().CacheMultiStoreWithVersion(v)
		if e != nil {
			return
		}
		val = ms.GetKVStore(cs.k.Sim.GetKey(ibcStore)).Get(key)
		ok = true
	})
	if err != nil {
		return nil, false
	}
	return val, ok
}

// ---------------------------------------------------------------------------------------------

// opMeta is what the relayer says about the message it is about to deliver (for classes and traces only;
// monitors never use it to decide a verdict).
type opMeta struct {
	kind  string // conn_init, conn_try, …, chan_close_confirm, replay
	label string // "" honest, otherwise the mutation / hostility label
	pre   string // state of the targeted end before the message, as the harness knows it
}

// Sim is one world + history + monitors.
type Sim struct {
	C       *kit.Check
	W       *kit.World
	R       *kit.Rng
	prop    string
	chains  []*chainSt
	links   []*link
	meta    *opMeta
	trace   []string
	classes []string
	quiet   bool // harness-side state injection in progress: history is rebased, monitors stay silent

	tries map[string]int // "<chain>|conn|<id>" / "<chain>|chan|<key>" → number of Try messages accepted for it
}

// link is one pair of light clients between two chains.
type link struct {
	a, b int
	ep   [2]*ibctesting.Endpoint // ep[0] lives on chain a and tracks b; ep[1] lives on b and tracks a
}

func NewSim(c *kit.Check, r *kit.Rng, nChains int) *Sim {
	w := kit.NewWorld(c.T, nChains)
	s := &Sim{C: c, W: w, R: r, prop: c.Prop, tries: map[string]int{}}
	for i, k := range w.Chains {
		cs := &chainSt{k: k, idx: i, clientTarget: map[string]int{}, eps: map[string]*ibctesting.Endpoint{}, heights: map[string][]uint64{}}
		cs.hist = []*snap{cs.read()}
		s.chains = append(s.chains, cs)
		k.OnTx = func(o *kit.Outcome) { s.onTx(cs, o) }
	}
	return s
}

// addLink creates a fresh pair of 07-tendermint clients between chains a and b.
func (s *Sim) addLink(a, b int) *link {
	p := ibctesting.NewPath(s.chains[a].k.TestChain, s.chains[b].k.TestChain)
	p.SetupClients()
	l := &link{a: a, b: b, ep: [2]*ibctesting.Endpoint{p.EndpointA, p.EndpointB}}
	for side, ci := range []int{a, b} {
		cs := s.chains[ci]
		ep := l.ep[side]
		cs.clientTarget[ep.ClientID] = []int{b, a}[side]
		cs.eps[ep.ClientID] = ep
		cs.heights[ep.ClientID] = []uint64{ep.GetClientLatestHeight().GetRevisionHeight()}
	}
	s.links = append(s.links, l)
	return l
}

// update brings client clientID on chain x up to date with the chain it tracks; remembers the new consensus height.
func (s *Sim) update(x *chainSt, clientID string) bool {
	ep := x.eps[clientID]
	if ep == nil {
		return false
	}
	if err := ep.UpdateClient(); err != nil {
		return false
	}
	h := ep.GetClientLatestHeight().GetRevisionHeight()
	hs := x.heights[clientID]
	if len(hs) == 0 || hs[len(hs)-1] != h {
		x.heights[clientID] = append(hs, h)
	}
	return true
}

func (s *Sim) signer(x *chainSt) string { return x.k.SenderAccount.GetAddress().String() }

// deliver sends one message of the hostile relayer in its own block.
func (s *Sim) deliver(x *chainSt, m *opMeta, msgs ...sdk.Msg) *kit.Outcome {
	s.meta = m
	o := x.k.Deliver(x.k.DefaultSender(), msgs...)
	s.meta = nil
	if m.kind != "replay" {
		x.sent = append(x.sent, msgs...)
	}
	return o
}

func (s *Sim) tracef(format string, a ...any) {
	s.trace = append(s.trace, fmt.Sprintf(format, a...))
	if traceOut {
		fmt.Println("TRACE " + s.trace[len(s.trace)-1])
	}
}

var traceOut = os.Getenv("HS_TRACE") != ""

func (s *Sim) traceTail(n int) []string {
	if len(s.trace) <= n {
		return s.trace
	}
	return s.trace[len(s.trace)-n:]
}

// target resolves, from harness truth only, the chain a connection end of x talks to.
func (s *Sim) connTarget(x *chainSt, e connectiontypes.ConnectionEnd) *chainSt {
	if e.ClientId == exported.LocalhostClientID {
		return nil
	}
	i, ok := x.clientTarget[e.ClientId]
	if !ok {
		return nil
	}
	return s.chains[i]
}

// chanTarget resolves the chain and the connection end a channel end of x runs over (state sn of x).
func (s *Sim) chanTarget(x *chainSt, sn *snap, e channeltypes.Channel) (*chainSt, connectiontypes.ConnectionEnd, bool) {
	if len(e.ConnectionHops) != 1 {
		return nil, connectiontypes.ConnectionEnd{}, false
	}
	cn, ok := sn.conns[e.ConnectionHops[0]]
	if !ok {
		return nil, cn, false
	}
	y := s.connTarget(x, cn)
	return y, cn, y != nil
}

func revisionOf(x *chainSt) uint64 { return clienttypes.ParseChainID(x.k.ChainID) }

// truthAt maps a proof height to the counterparty state it proves: height h ↔ committed version h-1.
func truthAt(y *chainSt, h clienttypes.Height) *snap {
	if h.RevisionNumber != revisionOf(y) || h.RevisionHeight == 0 {
		return nil
	}
	return y.at(int64(h.RevisionHeight) - 1)
}

func connKeyBytes(id string) []byte       { return host.ConnectionKey(id) }
func chanKeyBytes(port, id string) []byte { return host.ChannelKey(port, id) }
