package hs

import (
	"bytes"
	"fmt"
	"sort"

	"github.com/cosmos/gogoproto/proto"

	sdk "github.com/cosmos/cosmos-sdk/types"

	clienttypes "github.com/cosmos/ibc-go/v11/modules/core/02-client/types"
	connectiontypes "github.com/cosmos/ibc-go/v11/modules/core/03-connection/types"
	channeltypes "github.com/cosmos/ibc-go/v11/modules/core/04-channel/types"
	"github.com/cosmos/ibc-go/v11/modules/core/exported"

	"verif/harness/kit"
)

// feature names of ICS-3 versions that stand for the two channel orderings (from the spec, not from the code)
var orderFeature = map[channeltypes.Order]string{
	channeltypes.ORDERED:   "ORDER_ORDERED",
	channeltypes.UNORDERED: "ORDER_UNORDERED",
}

func pbEqual(a, b proto.Message) bool {
	x, _ := proto.Marshal(a)
	y, _ := proto.Marshal(b)
	return bytes.Equal(x, y)
}

func msgKind(m sdk.Msg) string {
	switch m.(type) {
	case *connectiontypes.MsgConnectionOpenInit:
		return "conn_init"
	case *connectiontypes.MsgConnectionOpenTry:
		return "conn_try"
	case *connectiontypes.MsgConnectionOpenAck:
		return "conn_ack"
	case *connectiontypes.MsgConnectionOpenConfirm:
		return "conn_confirm"
	case *channeltypes.MsgChannelOpenInit:
		return "chan_init"
	case *channeltypes.MsgChannelOpenTry:
		return "chan_try"
	case *channeltypes.MsgChannelOpenAck:
		return "chan_ack"
	case *channeltypes.MsgChannelOpenConfirm:
		return "chan_confirm"
	case *channeltypes.MsgChannelCloseInit:
		return "chan_close_init"
	case *channeltypes.MsgChannelCloseConfirm:
		return "chan_close_confirm"
	}
	return ""
}

func describe(m sdk.Msg) string {
	switch m := m.(type) {
	case *connectiontypes.MsgConnectionOpenInit:
		return fmt.Sprintf("conn_init(client=%s cp=%s v=%s delay=%d)", m.ClientId, m.Counterparty.ClientId, verStr(m.Version), m.DelayPeriod)
	case *connectiontypes.MsgConnectionOpenTry:
		return fmt.Sprintf("conn_try(client=%s cp=%s/%s vs=%s delay=%d h=%s)", m.ClientId, m.Counterparty.ClientId, m.Counterparty.ConnectionId, versStr(m.CounterpartyVersions), m.DelayPeriod, m.ProofHeight)
	case *connectiontypes.MsgConnectionOpenAck:
		return fmt.Sprintf("conn_ack(%s cp=%s v=%s h=%s)", m.ConnectionId, m.CounterpartyConnectionId, verStr(m.Version), m.ProofHeight)
	case *connectiontypes.MsgConnectionOpenConfirm:
		return fmt.Sprintf("conn_confirm(%s h=%s)", m.ConnectionId, m.ProofHeight)
	case *channeltypes.MsgChannelOpenInit:
		return fmt.Sprintf("chan_init(%s %s hops=%v cpport=%s v=%q)", m.PortId, m.Channel.Ordering, m.Channel.ConnectionHops, m.Channel.Counterparty.PortId, m.Channel.Version)
	case *channeltypes.MsgChannelOpenTry:
		return fmt.Sprintf("chan_try(%s %s hops=%v cp=%s/%s cpv=%q h=%s)", m.PortId, m.Channel.Ordering, m.Channel.ConnectionHops, m.Channel.Counterparty.PortId, m.Channel.Counterparty.ChannelId, m.CounterpartyVersion, m.ProofHeight)
	case *channeltypes.MsgChannelOpenAck:
		return fmt.Sprintf("chan_ack(%s/%s cp=%s cpv=%q h=%s)", m.PortId, m.ChannelId, m.CounterpartyChannelId, m.CounterpartyVersion, m.ProofHeight)
	case *channeltypes.MsgChannelOpenConfirm:
		return fmt.Sprintf("chan_confirm(%s/%s h=%s)", m.PortId, m.ChannelId, m.ProofHeight)
	case *channeltypes.MsgChannelCloseInit:
		return fmt.Sprintf("chan_close_init(%s/%s)", m.PortId, m.ChannelId)
	case *channeltypes.MsgChannelCloseConfirm:
		return fmt.Sprintf("chan_close_confirm(%s/%s h=%s)", m.PortId, m.ChannelId, m.ProofHeight)
	case *clienttypes.MsgUpdateClient:
		return "update_client(" + m.ClientId + ")"
	}
	return sdk.MsgTypeURL(m)
}

func (s *Sim) violate(sig, what string, extra map[string]any) {
	w := map[string]any{"trace_tail": s.traceTail(40)}
	for k, v := range extra {
		w[k] = v
	}
	s.C.Violate(sig, what, w)
}

// onTx runs after every delivered transaction of every chain (relayer messages and helper-sent client updates).
func (s *Sim) onTx(x *chainSt, o *kit.Outcome) {
	prev := x.cur()
	cur := x.read()
	if cur.ver <= prev.ver {
		// cannot happen (every tx is its own block); keep the history monotone
		s.C.Inc("history_same_version")
		x.hist[len(x.hist)-1] = cur
	} else {
		x.hist = append(x.hist, cur)
	}
	kinds := ""
	hand := false
	for _, m := range o.Msgs {
		if k := msgKind(m); k != "" {
			hand = true
			kinds += k + ";"
		}
	}
	lbl, pre := "", ""
	if s.meta != nil {
		lbl, pre = s.meta.label, s.meta.pre
	}
	res := "ok"
	if !o.OK() {
		res = "rejected"
	}
	if hand || !o.OK() {
		d := ""
		for _, m := range o.Msgs {
			d += describe(m) + " "
		}
		s.tracef("%s@%d %s[%s] -> %s", x.name(), o.Height, d, lbl, res)
	}
	if s.quiet {
		return
	}
	if hand {
		s.C.Inc("handshake_msgs")
		cls := fmt.Sprintf("%s|pre=%s|%s|%s", kinds, pre, lbl, res)
		s.C.Eval(cls)
		s.classes = append(s.classes, kinds+res)
		if o.OK() {
			s.C.Inc("accepted_handshake_msgs")
			if lbl != "" {
				s.C.Inc("accepted_hostile_msgs")
			}
		}
	}
	if o.OK() {
		s.noteTries(x, prev, o)
	}
	// failed transactions leave no trace in the watched stores
	if !o.OK() {
		if hand {
			s.C.Inc("rejected_handshake_msgs")
			s.C.Inc("rejected_" + kinds)
		}
		if len(o.Diff) != 0 {
			s.violate(s.prop+"|rejected-with-state-change|"+kinds, fmt.Sprintf("rejected tx on %s changed state:%s", x.name(), o.DiffString()), map[string]any{"log": o.Log})
		} else if hand {
			s.C.Inc("rejected_empty_diff_checked")
		}
	}
	if s.prop == "C12" {
		s.monChannels(x, o, prev, cur)
	} else {
		s.monConns(x, o, prev, cur)
	}
}

// ---------------------------------------------------------------------------------------------
// C12

func chanAllowed(a, b channeltypes.State) bool {
	switch {
	case a == channeltypes.UNINITIALIZED && (b == channeltypes.INIT || b == channeltypes.TRYOPEN):
		return true // creation of an end by OpenInit / OpenTry
	case a == channeltypes.INIT && b == channeltypes.OPEN:
		return true
	case a == channeltypes.TRYOPEN && b == channeltypes.OPEN:
		return true
	case a != channeltypes.CLOSED && a != channeltypes.UNINITIALIZED && b == channeltypes.CLOSED:
		return true
	}
	return false
}

func (s *Sim) monChannels(x *chainSt, o *kit.Outcome, prev, cur *snap) {
	opened := map[string]bool{}
	if o.OK() {
		for _, m := range o.Msgs {
			switch m := m.(type) {
			case *channeltypes.MsgChannelOpenAck:
				k := chanKey(m.PortId, m.ChannelId)
				opened[k] = true
				s.chanOpenAccepted(x, prev, cur, k, channeltypes.INIT, channeltypes.TRYOPEN, m.ProofHeight, "ack")
			case *channeltypes.MsgChannelOpenConfirm:
				k := chanKey(m.PortId, m.ChannelId)
				opened[k] = true
				s.chanOpenAccepted(x, prev, cur, k, channeltypes.TRYOPEN, channeltypes.OPEN, m.ProofHeight, "confirm")
			case *channeltypes.MsgChannelCloseConfirm:
				s.chanCloseConfirmAccepted(x, prev, m)
			case *channeltypes.MsgChannelCloseInit:
				s.C.Inc("close_init_accepted")
			}
		}
	}
	keys := map[string]struct{}{}
	for k := range prev.chans {
		keys[k] = struct{}{}
	}
	for k := range cur.chans {
		keys[k] = struct{}{}
	}
	for k := range keys {
		p, pok := prev.chans[k]
		c, cok := cur.chans[k]
		ps, cs := channeltypes.UNINITIALIZED, channeltypes.UNINITIALIZED
		if pok {
			ps = p.State
		}
		if cok {
			cs = c.State
		}
		if ps == cs {
			if pok && cok && ps == channeltypes.CLOSED && !pbEqual(&p, &c) {
				s.violate("C12|closed-end-modified", fmt.Sprintf("%s %s: CLOSED end rewritten %v -> %v", x.name(), k, p, c), nil)
			}
			continue
		}
		s.C.Inc("chan_state_transitions")
		s.C.Inc("chan_" + ps.String() + "->" + cs.String())
		if !chanAllowed(ps, cs) {
			sig := "C12|transition|" + ps.String() + "->" + cs.String()
			if ps == channeltypes.CLOSED {
				sig = "C12|closed-not-terminal|->" + cs.String()
			}
			s.violate(sig, fmt.Sprintf("%s %s moved %s -> %s", x.name(), k, ps, cs), map[string]any{"before": p.String(), "after": c.String()})
		}
		if cs == channeltypes.OPEN {
			s.C.Inc("chan_ends_reaching_open")
			if !opened[k] {
				s.violate("C12|open-without-proof-message", fmt.Sprintf("%s %s became OPEN in a tx that carried no accepted OpenAck/OpenConfirm for it", x.name(), k), nil)
			}
		}
	}
	s.checkOpenPairs()
}

// chanOpenAccepted judges an accepted ChanOpenAck / ChanOpenConfirm against harness truth.
func (s *Sim) chanOpenAccepted(x *chainSt, prev, cur *snap, k string, wantPre, wantCp channeltypes.State, h clienttypes.Height, via string) {
	s.C.Inc("chan_" + via + "_accepted")
	p, pok := prev.chans[k]
	if !pok || p.State != wantPre {
		st := channeltypes.UNINITIALIZED
		if pok {
			st = p.State
		}
		s.violate("C12|"+via+"-accepted|prestate="+st.String(), fmt.Sprintf("%s %s: Open%s accepted while the end was %s", x.name(), k, via, st), nil)
	}
	e, ok := cur.chans[k]
	if !ok || e.State != channeltypes.OPEN {
		return
	}
	port, id := splitChanKey(k)
	y, cn, ok := s.chanTarget(x, cur, e)
	if !ok {
		s.C.Inconcl("channel end " + k + " runs over a connection the harness cannot resolve")
		return
	}
	sigp := "C12|open-via-" + via + "|"
	t := truthAt(y, h)
	if t == nil {
		s.violate(sigp+"no-counterparty-state-at-proof-height", fmt.Sprintf("%s %s OPEN with proof height %s at which %s has no state", x.name(), k, h, y.name()), nil)
		return
	}
	cpk := chanKey(e.Counterparty.PortId, e.Counterparty.ChannelId)
	cp, found := t.chans[cpk]
	s.crossCheckChan(y, t, e.Counterparty.PortId, e.Counterparty.ChannelId, h)
	s.C.Inc("open_proof_checks")
	s.C.Inc("open_proof_checks_via_" + via)
	if uint64(y.k.App.LastBlockHeight()) > h.RevisionHeight+1 {
		s.C.Inc("open_proof_checks_with_old_height")
	}
	if !found {
		s.violate(sigp+"counterparty-end-absent", fmt.Sprintf("%s %s OPEN but %s had no end %s at version %d", x.name(), k, y.name(), cpk, t.ver), nil)
		return
	}
	if now, ok := y.cur().chans[cpk]; ok && now.State != cp.State {
		s.C.Inc("open_while_counterparty_moved_on")
	}
	ex := map[string]any{"end": e.String(), "counterparty_at_proof_height": cp.String(), "proof_height": h.String()}
	if cp.State != wantCp {
		s.violate(sigp+"counterparty-state="+cp.State.String(), fmt.Sprintf("%s %s OPEN but counterparty %s was %s (want %s) at proof height", x.name(), k, cpk, cp.State, wantCp), ex)
	}
	if cp.Ordering != e.Ordering {
		s.violate(sigp+"ordering-mismatch", fmt.Sprintf("%s %s OPEN %s but counterparty ordering %s", x.name(), k, e.Ordering, cp.Ordering), ex)
	}
	if cp.Counterparty.PortId != port || cp.Counterparty.ChannelId != id {
		s.violate(sigp+"counterparty-names-other-end", fmt.Sprintf("%s %s OPEN but counterparty end names %s/%s", x.name(), k, cp.Counterparty.PortId, cp.Counterparty.ChannelId), ex)
	}
	if len(cp.ConnectionHops) != 1 || cp.ConnectionHops[0] != cn.Counterparty.ConnectionId {
		s.violate(sigp+"connection-hops-mismatch", fmt.Sprintf("%s %s OPEN over %v (counterparty connection %s) but counterparty hops %v", x.name(), k, e.ConnectionHops, cn.Counterparty.ConnectionId, cp.ConnectionHops), ex)
	}
	if cp.Version != e.Version {
		s.violate(sigp+"version-mismatch", fmt.Sprintf("%s %s OPEN with version %q but counterparty version %q", x.name(), k, e.Version, cp.Version), ex)
	}
}

func (s *Sim) chanCloseConfirmAccepted(x *chainSt, prev *snap, m *channeltypes.MsgChannelCloseConfirm) {
	s.C.Inc("close_confirm_accepted")
	k := chanKey(m.PortId, m.ChannelId)
	p, ok := prev.chans[k]
	if !ok {
		s.violate("C12|close-confirm|no-such-end", fmt.Sprintf("%s %s: CloseConfirm accepted for an absent end", x.name(), k), nil)
		return
	}
	y, _, ok := s.chanTarget(x, prev, p)
	if !ok {
		s.C.Inconcl("close-confirm on an end whose connection the harness cannot resolve")
		return
	}
	t := truthAt(y, m.ProofHeight)
	cpk := chanKey(p.Counterparty.PortId, p.Counterparty.ChannelId)
	if t == nil {
		s.violate("C12|close-confirm|no-counterparty-state-at-proof-height", fmt.Sprintf("%s %s closed with proof height %s", x.name(), k, m.ProofHeight), nil)
		return
	}
	cp, found := t.chans[cpk]
	s.crossCheckChan(y, t, p.Counterparty.PortId, p.Counterparty.ChannelId, m.ProofHeight)
	s.C.Inc("close_confirm_checks")
	if !found || cp.State != channeltypes.CLOSED {
		st := "absent"
		if found {
			st = cp.State.String()
		}
		s.violate("C12|close-confirm|counterparty-"+st, fmt.Sprintf("%s %s: CloseConfirm accepted while counterparty %s was %s at proof height %s", x.name(), k, cpk, st, m.ProofHeight),
			map[string]any{"end": p.String()})
	}
}

// crossCheckChan compares the harness history with the raw historical store (guards the T-truth tap itself).
func (s *Sim) crossCheckChan(y *chainSt, t *snap, port, id string, h clienttypes.Height) {
	raw, ok := y.rawAt(int64(h.RevisionHeight)-1, chanKeyBytes(port, id))
	if !ok {
		s.C.Inc("history_crosscheck_unavailable")
		return
	}
	e, found := t.chans[chanKey(port, id)]
	var want []byte
	if found {
		want, _ = proto.Marshal(&e)
	}
	if !bytes.Equal(raw, want) {
		s.C.Inc("history_mismatch")
		s.C.Inconcl(fmt.Sprintf("harness history of %s disagrees with its store at version %d for %s/%s", y.name(), h.RevisionHeight-1, port, id))
		return
	}
	s.C.Inc("history_crosschecked")
}

func (s *Sim) crossCheckConn(y *chainSt, t *snap, id string, h clienttypes.Height) {
	raw, ok := y.rawAt(int64(h.RevisionHeight)-1, connKeyBytes(id))
	if !ok {
		s.C.Inc("history_crosscheck_unavailable")
		return
	}
	e, found := t.conns[id]
	var want []byte
	if found {
		want, _ = proto.Marshal(&e)
	}
	if !bytes.Equal(raw, want) {
		s.C.Inc("history_mismatch")
		s.C.Inconcl(fmt.Sprintf("harness history of %s disagrees with its store at version %d for %s", y.name(), h.RevisionHeight-1, id))
		return
	}
	s.C.Inc("history_crosschecked")
}

// checkOpenPairs: whenever an end and the end it names on the counterparty chain are both OPEN,
// they agree on ordering, version and each other's identifiers.
func (s *Sim) checkOpenPairs() {
	for _, x := range s.chains {
		cur := x.cur()
		keys := make([]string, 0, len(cur.chans))
		for k := range cur.chans {
			keys = append(keys, k)
		}
		sort.Strings(keys)
		for _, k := range keys {
			e := cur.chans[k]
			if e.State != channeltypes.OPEN {
				continue
			}
			y, _, ok := s.chanTarget(x, cur, e)
			if !ok {
				continue
			}
			cpk := chanKey(e.Counterparty.PortId, e.Counterparty.ChannelId)
			cp, found := y.cur().chans[cpk]
			if !found || cp.State != channeltypes.OPEN {
				continue
			}
			s.C.Inc("both_open_checks")
			port, id := splitChanKey(k)
			ex := map[string]any{"end": e.String(), "counterparty": cp.String()}
			if cp.Ordering != e.Ordering {
				s.violate("C12|both-open|ordering-disagree", fmt.Sprintf("%s %s and %s %s both OPEN with orderings %s / %s", x.name(), k, y.name(), cpk, e.Ordering, cp.Ordering), ex)
			}
			if cp.Version != e.Version {
				s.violate("C12|both-open|version-disagree", fmt.Sprintf("%s %s and %s %s both OPEN with versions %q / %q", x.name(), k, y.name(), cpk, e.Version, cp.Version), ex)
			}
			if cp.Counterparty.PortId != port || cp.Counterparty.ChannelId != id {
				s.violate("C12|both-open|identifiers-disagree", fmt.Sprintf("%s %s names %s %s, which is OPEN and names %s/%s", x.name(), k, y.name(), cpk, cp.Counterparty.PortId, cp.Counterparty.ChannelId), ex)
			}
		}
	}
}

// ---------------------------------------------------------------------------------------------
// C13

func connAllowed(a, b connectiontypes.State) bool {
	switch {
	case a == connectiontypes.UNINITIALIZED && (b == connectiontypes.INIT || b == connectiontypes.TRYOPEN):
		return true
	case a == connectiontypes.INIT && b == connectiontypes.OPEN:
		return true
	case a == connectiontypes.TRYOPEN && b == connectiontypes.OPEN:
		return true
	}
	return false
}

func (s *Sim) monConns(x *chainSt, o *kit.Outcome, prev, cur *snap) {
	opened := map[string]bool{}
	if o.OK() {
		for _, m := range o.Msgs {
			switch m := m.(type) {
			case *connectiontypes.MsgConnectionOpenInit:
				s.C.Inc("conn_init_accepted")
				if m.ClientId == exported.LocalhostClientID {
					s.violate("C13|localhost|conn-init-accepted", "ConnOpenInit naming the localhost client was accepted on "+x.name(), nil)
				}
			case *connectiontypes.MsgConnectionOpenTry:
				if m.ClientId == exported.LocalhostClientID {
					s.violate("C13|localhost|conn-try-accepted", "ConnOpenTry naming the localhost client was accepted on "+x.name(), nil)
				}
				s.connTryAccepted(x, prev, cur, m)
			case *connectiontypes.MsgConnectionOpenAck:
				opened[m.ConnectionId] = true
				s.connOpenAccepted(x, prev, cur, m.ConnectionId, connectiontypes.INIT, connectiontypes.TRYOPEN, m.ProofHeight, "ack")
			case *connectiontypes.MsgConnectionOpenConfirm:
				opened[m.ConnectionId] = true
				s.connOpenAccepted(x, prev, cur, m.ConnectionId, connectiontypes.TRYOPEN, connectiontypes.OPEN, m.ProofHeight, "confirm")
			case *channeltypes.MsgChannelOpenInit:
				s.chanOnConn(x, prev, m.Channel.Ordering, m.Channel.ConnectionHops, "chan-init")
			case *channeltypes.MsgChannelOpenTry:
				s.chanOnConn(x, prev, m.Channel.Ordering, m.Channel.ConnectionHops, "chan-try")
			case *channeltypes.MsgChannelOpenAck:
				if e, ok := cur.chans[chanKey(m.PortId, m.ChannelId)]; ok {
					s.chanOnConn(x, prev, e.Ordering, e.ConnectionHops, "chan-ack")
				}
			case *channeltypes.MsgChannelOpenConfirm:
				if e, ok := cur.chans[chanKey(m.PortId, m.ChannelId)]; ok {
					s.chanOnConn(x, prev, e.Ordering, e.ConnectionHops, "chan-confirm")
				}
			}
		}
	}
	keys := map[string]struct{}{}
	for k := range prev.conns {
		keys[k] = struct{}{}
	}
	for k := range cur.conns {
		keys[k] = struct{}{}
	}
	for k := range keys {
		p, pok := prev.conns[k]
		c, cok := cur.conns[k]
		ps, cs := connectiontypes.UNINITIALIZED, connectiontypes.UNINITIALIZED
		if pok {
			ps = p.State
		}
		if cok {
			cs = c.State
		}
		if ps == cs {
			if pok && cok && ps == connectiontypes.OPEN && !pbEqual(&p, &c) {
				s.violate("C13|open-end-modified", fmt.Sprintf("%s %s: OPEN connection end rewritten %v -> %v", x.name(), k, p, c), nil)
			}
			continue
		}
		s.C.Inc("conn_state_transitions")
		s.C.Inc("conn_" + ps.String() + "->" + cs.String())
		if ps == connectiontypes.OPEN {
			s.violate("C13|leaves-open|->"+cs.String(), fmt.Sprintf("%s %s left OPEN for %s", x.name(), k, cs), nil)
		} else if !connAllowed(ps, cs) {
			s.violate("C13|transition|"+ps.String()+"->"+cs.String(), fmt.Sprintf("%s %s moved %s -> %s", x.name(), k, ps, cs), nil)
		}
		if !pok && cok && c.ClientId == exported.LocalhostClientID {
			s.violate("C13|localhost|end-created", fmt.Sprintf("%s %s: a handshake created a connection end over the localhost client", x.name(), k), nil)
		}
		if cs == connectiontypes.OPEN {
			s.C.Inc("conn_ends_reaching_open")
			if !opened[k] {
				s.violate("C13|open-without-proof-message", fmt.Sprintf("%s %s became OPEN in a tx that carried no accepted OpenAck/OpenConfirm for it", x.name(), k), nil)
			}
		}
	}
}

func (s *Sim) prefixOf(x *chainSt) []byte { return x.k.GetPrefix().KeyPrefix }

// connOpenAccepted judges an accepted ConnOpenAck / ConnOpenConfirm against harness truth.
func (s *Sim) connOpenAccepted(x *chainSt, prev, cur *snap, id string, wantPre, wantCp connectiontypes.State, h clienttypes.Height, via string) {
	s.C.Inc("conn_" + via + "_accepted")
	p, pok := prev.conns[id]
	if !pok || p.State != wantPre {
		st := connectiontypes.UNINITIALIZED
		if pok {
			st = p.State
		}
		s.violate("C13|"+via+"-accepted|prestate="+st.String(), fmt.Sprintf("%s %s: Open%s accepted while the end was %s", x.name(), id, via, st), nil)
	}
	e, ok := cur.conns[id]
	if !ok || e.State != connectiontypes.OPEN {
		return
	}
	sigp := "C13|open-via-" + via + "|"
	if e.ClientId == exported.LocalhostClientID {
		s.violate("C13|localhost|open", fmt.Sprintf("%s %s opened over the localhost client", x.name(), id), nil)
		return
	}
	y := s.connTarget(x, e)
	if y == nil {
		s.C.Inconcl("connection end " + id + " uses a client the harness did not create")
		return
	}
	t := truthAt(y, h)
	if t == nil {
		s.violate(sigp+"no-counterparty-state-at-proof-height", fmt.Sprintf("%s %s OPEN with proof height %s at which %s has no state", x.name(), id, h, y.name()), nil)
		return
	}
	cpid := e.Counterparty.ConnectionId
	cp, found := t.conns[cpid]
	s.crossCheckConn(y, t, cpid, h)
	s.C.Inc("open_proof_checks")
	s.C.Inc("open_proof_checks_via_" + via)
	if uint64(y.k.App.LastBlockHeight()) > h.RevisionHeight+1 {
		s.C.Inc("open_proof_checks_with_old_height")
	}
	if !found {
		s.violate(sigp+"counterparty-end-absent", fmt.Sprintf("%s %s OPEN but %s had no end %s at version %d", x.name(), id, y.name(), cpid, t.ver), nil)
		return
	}
	ex := map[string]any{"end": e.String(), "counterparty_at_proof_height": cp.String(), "proof_height": h.String()}
	if cp.State != wantCp {
		s.violate(sigp+"counterparty-state="+cp.State.String(), fmt.Sprintf("%s %s OPEN but counterparty %s was %s (want %s) at proof height", x.name(), id, cpid, cp.State, wantCp), ex)
	}
	if cp.ClientId != e.Counterparty.ClientId || cp.Counterparty.ClientId != e.ClientId {
		s.violate(sigp+"client-pair-mismatch", fmt.Sprintf("%s %s OPEN with clients (%s,%s) but counterparty end has (%s,%s)", x.name(), id, e.ClientId, e.Counterparty.ClientId, cp.Counterparty.ClientId, cp.ClientId), ex)
	}
	if tgt, ok := y.clientTarget[cp.ClientId]; !ok || tgt != x.idx {
		s.violate(sigp+"counterparty-client-tracks-other-chain", fmt.Sprintf("%s %s OPEN but counterparty client %s on %s does not track %s", x.name(), id, cp.ClientId, y.name(), x.name()), ex)
	}
	if cp.Counterparty.ConnectionId != id {
		s.violate(sigp+"counterparty-names-other-end", fmt.Sprintf("%s %s OPEN but counterparty end names %s", x.name(), id, cp.Counterparty.ConnectionId), ex)
	}
	if !bytes.Equal(cp.Counterparty.Prefix.KeyPrefix, s.prefixOf(x)) || !bytes.Equal(e.Counterparty.Prefix.KeyPrefix, s.prefixOf(y)) {
		s.violate(sigp+"prefix-mismatch", fmt.Sprintf("%s %s OPEN with prefixes %q/%q", x.name(), id, e.Counterparty.Prefix.KeyPrefix, cp.Counterparty.Prefix.KeyPrefix), ex)
	}
	if cp.DelayPeriod != e.DelayPeriod {
		s.violate(sigp+"delay-period-mismatch", fmt.Sprintf("%s %s OPEN with delay %d but counterparty delay %d", x.name(), id, e.DelayPeriod, cp.DelayPeriod), ex)
	}
	if len(e.Versions) != 1 || len(cp.Versions) != 1 || !sameVersion(e.Versions[0], cp.Versions[0]) {
		s.violate(sigp+"version-mismatch", fmt.Sprintf("%s %s OPEN with versions %s but counterparty versions %s", x.name(), id, versStr(e.Versions), versStr(cp.Versions)), ex)
	} else if via == "ack" && pok {
		// negotiated version: identifier supported by both sides, features = intersection of what this side
		// proposed at INIT and what the counterparty chain supports
		s.C.Inc("negotiated_version_checks")
		if !refNegotiatedOK(p.Versions, connectiontypes.GetCompatibleVersions(), e.Versions[0]) {
			s.violate(sigp+"version-not-intersection", fmt.Sprintf("%s %s negotiated %s from proposal %s", x.name(), id, verStr(e.Versions[0]), versStr(p.Versions)), ex)
		}
	}
}

func (s *Sim) connTryAccepted(x *chainSt, prev, cur *snap, m *connectiontypes.MsgConnectionOpenTry) {
	s.C.Inc("conn_try_accepted")
	var created []string
	for id := range cur.conns {
		if _, ok := prev.conns[id]; !ok {
			created = append(created, id)
		}
	}
	if len(created) != 1 {
		return
	}
	e := cur.conns[created[0]]
	tgt, ok := x.clientTarget[m.ClientId]
	if !ok {
		s.C.Inc("conn_try_accepted_unknown_client")
		return
	}
	y := s.chains[tgt]
	t := truthAt(y, m.ProofHeight)
	if t == nil {
		s.C.Inc("conn_try_accepted_no_truth")
		return
	}
	T, found := t.conns[m.Counterparty.ConnectionId]
	if !found {
		s.C.Inc("conn_try_accepted_no_truth")
		return
	}
	s.C.Inc("negotiated_version_checks")
	if len(e.Versions) != 1 || !refNegotiatedOK(connectiontypes.GetCompatibleVersions(), T.Versions, e.Versions[0]) {
		s.violate("C13|try|version-not-intersection", fmt.Sprintf("%s %s stored versions %s for counterparty proposal %s", x.name(), created[0], versStr(e.Versions), versStr(T.Versions)),
			map[string]any{"end": e.String(), "counterparty_at_proof_height": T.String()})
	}
}

// chanOnConn: a channel handshake step was accepted on chain x over connection hops[0]; the connection must carry
// exactly one version, and that version must list the channel's ordering.
func (s *Sim) chanOnConn(x *chainSt, prev *snap, order channeltypes.Order, hops []string, via string) {
	s.C.Inc("chan_on_conn_checks")
	if len(hops) != 1 {
		s.violate("C13|"+via+"|hops="+fmt.Sprint(len(hops)), fmt.Sprintf("%s: channel step accepted with hops %v", x.name(), hops), nil)
		return
	}
	cn, ok := prev.conns[hops[0]]
	if !ok {
		s.violate("C13|"+via+"|connection-absent", fmt.Sprintf("%s: channel step accepted over absent connection %s", x.name(), hops[0]), nil)
		return
	}
	if len(cn.Versions) != 1 {
		s.violate(fmt.Sprintf("C13|%s|connection-versions=%d", via, len(cn.Versions)), fmt.Sprintf("%s: channel step accepted over %s which has versions %s", x.name(), hops[0], versStr(cn.Versions)), nil)
		return
	}
	if _, ok := setOf(cn.Versions[0].Features)[orderFeature[order]]; !ok {
		s.violate("C13|"+via+"|ordering-feature-missing", fmt.Sprintf("%s: %s channel step accepted over %s whose version is %s", x.name(), order, hops[0], verStr(cn.Versions[0])), nil)
	}
}

// noteTries remembers which INIT ends have already been answered by an accepted Try (relayer bookkeeping only).
func (s *Sim) noteTries(x *chainSt, prev *snap, o *kit.Outcome) {
	for _, m := range o.Msgs {
		switch m := m.(type) {
		case *connectiontypes.MsgConnectionOpenTry:
			if t, ok := x.clientTarget[m.ClientId]; ok {
				s.tries[fmt.Sprintf("%d|conn|%s", t, m.Counterparty.ConnectionId)]++
			}
		case *channeltypes.MsgChannelOpenTry:
			if len(m.Channel.ConnectionHops) == 1 {
				if cn, ok := prev.conns[m.Channel.ConnectionHops[0]]; ok {
					if t, ok := x.clientTarget[cn.ClientId]; ok {
						s.tries[fmt.Sprintf("%d|chan|%s", t, chanKey(m.Channel.Counterparty.PortId, m.Channel.Counterparty.ChannelId))]++
					}
				}
			}
		}
	}
}
