package hs

import (
	"fmt"

	connectiontypes "github.com/cosmos/ibc-go/v11/modules/core/03-connection/types"

	"verif/harness/kit"
)

var (
	pureIDs   = []string{"1", "1", "2", "3", "x", "10"}
	pureFeats = []string{fO, fU, "ORDER_DAG", "A", "b"}
)

func genVersion(r *kit.Rng) *connectiontypes.Version {
	n := r.Intn(4)
	if r.Chance(1, 6) {
		n = 0
	}
	var fs []string
	for i := 0; i < n; i++ {
		fs = append(fs, kit.Pick(r, pureFeats))
	}
	return connectiontypes.NewVersion(kit.Pick(r, pureIDs), fs)
}

func genList(r *kit.Rng) []*connectiontypes.Version {
	n := r.Intn(5)
	var vs []*connectiontypes.Version
	for i := 0; i < n; i++ {
		vs = append(vs, genVersion(r))
	}
	if r.Chance(1, 4) {
		vs = append(vs, connectiontypes.GetCompatibleVersions()...)
	}
	return vs
}

// pureVersions checks the exported negotiation helpers against the set-based reference model.
func pureVersions(c *kit.Check) {
	n := c.N(4000, 20000)
	for i := 0; i < n; i++ {
		r := kit.NewRng(c.Seed, "C13-pure", fmt.Sprint(c.Shard), fmt.Sprint(i))
		c.SetCase(fmt.Sprintf("s%d-pure%d", c.Shard, i))
		sup, cp := genList(r), genList(r)
		if r.Chance(1, 3) {
			sup = connectiontypes.GetCompatibleVersions()
		}
		dup := hasDupIDs(sup) || hasDupIDs(cp)
		c.Inc("pick_version_cases")
		var v *connectiontypes.Version
		var err error
		if p := kit.TryAll(func() { v, err = connectiontypes.PickVersion(sup, cp) }); p != nil {
			c.Violate("C13|pick-version|panic", fmt.Sprintf("PickVersion(%s, %s): %v", versStr(sup), versStr(cp), p), nil)
			continue
		}
		out := "err"
		if err == nil {
			out = "ok"
			c.Inc("pick_version_success")
			if dup {
				c.Inc("pick_version_success_with_repeated_ids")
			}
			if !refNegotiatedOK(sup, cp, v) {
				c.Violate("C13|pick-version|not-intersection", fmt.Sprintf("PickVersion(%s, %s) = %s", versStr(sup), versStr(cp), verStr(v)),
					map[string]any{"supported": versStr(sup), "counterparty": versStr(cp), "picked": verStr(v)})
			}
		} else {
			c.Inc("pick_version_failure")
			if !dup && refSomeCommon(sup, cp) {
				c.Violate("C13|pick-version|failed-despite-common-version", fmt.Sprintf("PickVersion(%s, %s) failed: %v", versStr(sup), versStr(cp), err), nil)
			}
		}
		c.Eval(fmt.Sprintf("pick|%d|%d|dup=%v|%s", len(sup), len(cp), dup, out))

		// feature-set intersection
		a, b := genVersion(r).Features, genVersion(r).Features
		got := connectiontypes.GetFeatureSetIntersection(a, b)
		c.Inc("intersection_cases")
		if !setOf(got).eq(setOf(a).inter(setOf(b))) {
			c.Violate("C13|feature-intersection|wrong-set", fmt.Sprintf("GetFeatureSetIntersection(%v, %v) = %v", a, b, got), nil)
		}
		if len(got) > 0 {
			c.Inc("intersection_nonempty")
		}

		// IsSupportedVersion: true only if some entry with the identifier covers the features; when every entry with the
		// identifier covers a non-empty feature set it must be true (at the empty feature set either answer is accepted)
		p := genVersion(r)
		if r.Chance(1, 3) && len(sup) > 0 {
			q := kit.Pick(r, sup)
			p = connectiontypes.NewVersion(q.Identifier, append([]string{}, q.Features...))
			if len(p.Features) > 1 && r.Bool() {
				p.Features = p.Features[:len(p.Features)-1]
			}
		}
		ok := connectiontypes.IsSupportedVersion(sup, p)
		c.Inc("is_supported_cases")
		if ok {
			c.Inc("is_supported_true")
			if !refSupportedAny(sup, p) {
				c.Violate("C13|is-supported|true-for-unsupported", fmt.Sprintf("IsSupportedVersion(%s, %s) = true", versStr(sup), verStr(p)), nil)
			}
		} else if len(p.Features) > 0 && refSupportedAll(sup, p) {
			c.Violate("C13|is-supported|false-for-supported", fmt.Sprintf("IsSupportedVersion(%s, %s) = false", versStr(sup), verStr(p)), nil)
		}
		c.Eval(fmt.Sprintf("supported|%d|%d|%v", len(sup), len(p.Features), ok))
	}
}
