package hs

import (
	"strings"
	"testing"

	"verif/harness/kit"
)

const hsRule = "cases = PRNG-determined handshake histories on 2 or 3 real chains joined by 1-2 light-client pairs per chain pair: a hostile relayer builds every " +
	"connection/channel handshake message itself (honest next steps, crossing INITs, duplicate Trys, byte-for-byte replays, steps aimed at ends in the wrong state or at foreign ends, " +
	"and single-field mutations: client ids, counterparty ids, ports, orderings, versions, delay periods, prefixes, connection hops, stale / not-yet-updated / wrong-key / other-chain / " +
	"garbled / height-mismatched proofs) and ends with an honest drain; every accepted message is judged against the harness's own per-height history of all ends; " +
	"distinct = distinct (message kind, state of the targeted end, hostility label, outcome) classes plus distinct per-case outcome traces"

func traceClass(classes []string) string { return "trace:" + strings.Join(classes, ",") }

func worldFor(c *kit.Check, r *kit.Rng) *Sim {
	n := 2
	if r.Chance(1, 4) {
		n = 3
	}
	s := NewSim(c, r, n)
	if n == 2 {
		s.addLink(0, 1)
		if r.Chance(1, 3) {
			s.addLink(0, 1)
		}
	} else {
		s.addLink(0, 1)
		s.addLink(1, 2)
		s.addLink(0, 2)
		c.Inc("three_chain_cases")
	}
	return s
}

func sample(c *kit.Check, i int, s *Sim) {
	if i < 3 {
		tail := s.trace
		if len(tail) > 30 {
			tail = tail[:30]
		}
		c.Sample(map[string]any{"case": c.CaseID(i), "chains": len(s.chains), "links": len(s.links), "ops": tail})
	}
}

func TestC12(t *testing.T) {
	c := kit.NewCheck(t, "C12", "exploration", hsRule)
	defer c.Finish()
	c.Assume("CometBFT/IAVL proof verification, the 07-tendermint light client and the SDK transaction machinery are the trusted base; light clients are honest (updated only with real headers)")
	c.Assume("applications are the mock and transfer stacks wired in testing/simapp; channel ends over connection-localhost are not exercised")
	c.Floor("chan_ends_reaching_open", 110)
	c.Floor("open_proof_checks", 110)
	c.Floor("rejected_handshake_msgs", 250)
	c.Floor("rejected_empty_diff_checked", 250)
	c.Floor("crossing_init_cases", 10)
	c.Floor("race_scenarios", 3)
	c.Floor("sibling_scenarios", 3)
	c.Floor("both_open_checks", 4000)
	c.Floor("close_confirm_checks", 8)
	c.Floor("open_while_counterparty_moved_on", 3)
	c.Floor("history_crosschecked", 120)
	prof := Profile{Init: 12, Crossing: 4, Honest: 36, Mutated: 26, WrongTarget: 10, Replay: 5, Close: 5, DupPct: 15}
	n := c.N(22, 45)
	for i := 0; i < n; i++ {
		if c.SkipCase(i) {
			continue
		}
		r := c.CaseRng(i)
		err := kit.Try(func() {
			s := worldFor(c, r)
			s.openConnections(1 + r.Intn(3))
			switch r.Intn(3) { // while the channel counters of the chains are still aligned
			case 0:
				s.raceChan()
			case 1:
				s.siblingsChan()
			}
			steps := 45 + r.Intn(45)
			for j := 0; j < steps; j++ {
				s.stepChan(prof)
			}
			s.drain(false, 60)
			sample(c, i, s)
			c.Eval(traceClass(s.classes))
		})
		c.Inc("cases")
		if err != nil {
			c.Inconcl(err.Error())
		}
	}
}

func TestC13(t *testing.T) {
	c := kit.NewCheck(t, "C13", "exploration", hsRule+"; pure part: PickVersion / IsSupportedVersion / GetFeatureSetIntersection on generated version lists (repeated identifiers, empty feature sets, unknown identifiers) against a set-based reference model")
	defer c.Finish()
	c.Assume("CometBFT/IAVL proof verification, the 07-tendermint light client and the SDK transaction machinery are the trusted base; light clients are honest (updated only with real headers)")
	c.Assume("the set of versions a chain supports is what connectiontypes.GetCompatibleVersions() reports (configuration, not part of the oracle)")
	c.Floor("conn_ends_reaching_open", 160)
	c.Floor("open_proof_checks", 160)
	c.Floor("negotiated_version_checks", 180)
	c.Floor("rejected_handshake_msgs", 250)
	c.Floor("rejected_empty_diff_checked", 250)
	c.Floor("crossing_init_cases", 10)
	c.Floor("race_scenarios", 6)
	c.Floor("sibling_scenarios", 6)
	c.Floor("localhost_msgs_refused", 9)
	c.Floor("chan_on_conn_checks", 75)
	c.Floor("chanver_init_refused_on_bad_versions", 13)
	c.Floor("chanver_try_refused_on_bad_versions", 9)
	c.Floor("chanver_try_control_accepted", 9)
	c.Floor("pick_version_cases", 1300)
	c.Floor("pick_version_success", 300)
	c.Floor("is_supported_true", 300)
	c.Floor("history_crosschecked", 160)
	pureVersions(c)
	prof := Profile{Init: 14, Crossing: 5, Honest: 36, Mutated: 28, WrongTarget: 10, Replay: 7, DupPct: 15}
	n := c.N(22, 45)
	for i := 0; i < n; i++ {
		if c.SkipCase(i) {
			continue
		}
		r := c.CaseRng(i)
		err := kit.Try(func() {
			s := worldFor(c, r)
			switch r.Intn(3) { // while the connection counters of the chains are still aligned
			case 0:
				s.raceConn()
			case 1:
				s.siblingsConn()
			}
			steps := 40 + r.Intn(40)
			for j := 0; j < steps; j++ {
				s.stepConn(prof)
			}
			s.drain(true, 60)
			// channels over whatever connections exist (any state), honest and mutated
			cprof := Profile{Init: 30, Crossing: 5, Honest: 40, Mutated: 15, WrongTarget: 5, Replay: 5}
			for j := 0; j < 10; j++ {
				s.stepChan(cprof)
			}
			s.chanVersionScenario()
			sample(c, i, s)
			c.Eval(traceClass(s.classes))
		})
		c.Inc("cases")
		if err != nil {
			c.Inconcl(err.Error())
		}
	}
}
