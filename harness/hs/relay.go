package hs

import (
	"fmt"
	"sort"

	sdk "github.com/cosmos/cosmos-sdk/types"

	clienttypes "github.com/cosmos/ibc-go/v11/modules/core/02-client/types"
	connectiontypes "github.com/cosmos/ibc-go/v11/modules/core/03-connection/types"
	channeltypes "github.com/cosmos/ibc-go/v11/modules/core/04-channel/types"
	commitmenttypes "github.com/cosmos/ibc-go/v11/modules/core/23-commitment/types"
	"github.com/cosmos/ibc-go/v11/modules/core/exported"

	"verif/harness/kit"
)

// The hostile relayer builds every handshake message itself from harness truth (the snapshots), optionally
// applies one mutation, and delivers it. Whether a message *should* have been accepted is never decided here:
// the monitors in mon.go judge every accepted message against the history.

const (
	fO = "ORDER_ORDERED"
	fU = "ORDER_UNORDERED"
)

func ver(id string, fs ...string) *connectiontypes.Version { return connectiontypes.NewVersion(id, fs) }

func sortedConnIDs(sn *snap) []string {
	ks := make([]string, 0, len(sn.conns))
	for k := range sn.conns {
		if k != exported.LocalhostConnectionID {
			ks = append(ks, k)
		}
	}
	sort.Strings(ks)
	return ks
}

func sortedChanKeys(sn *snap) []string {
	ks := make([]string, 0, len(sn.chans))
	for k := range sn.chans {
		ks = append(ks, k)
	}
	sort.Strings(ks)
	return ks
}

// ---------------------------------------------------------------------------------------------
// proofs

var proofMuts = []string{"proof-aged", "proof-stale", "proof-noupdate", "proof-otherchain", "proof-garbage", "proof-mismatch", "proof-unknown-height", "proof-wrongkey"}

func isProofMut(m string) bool {
	for _, p := range proofMuts {
		if p == m {
			return true
		}
	}
	return false
}

func (s *Sim) query(y *chainSt, key []byte, h uint64) (proof []byte, ph clienttypes.Height) {
	err := kit.Try(func() { proof, ph = y.k.QueryProofAtHeight(key, int64(h)) })
	if err != nil || len(proof) == 0 {
		return []byte{0x0a, 0x00}, clienttypes.NewHeight(revisionOf(y), h)
	}
	return proof, ph
}

// mkProof produces (proof, proofHeight) for `key` of the chain that client clientID on x tracks.
// mut selects the hostility; "" = update the client and prove at its latest height.
func (s *Sim) mkProof(x *chainSt, clientID string, key []byte, mut string) ([]byte, clienttypes.Height) {
	ti, ok := x.clientTarget[clientID]
	if !ok {
		return s.R.Bytes(40), clienttypes.NewHeight(1, uint64(3+s.R.Intn(20)))
	}
	y := s.chains[ti]
	known := func() []uint64 { return x.heights[clientID] }
	latest := func() uint64 { hs := known(); return hs[len(hs)-1] }
	switch mut {
	case "proof-aged":
		// a correct proof whose height is no longer the counterparty's latest when the message arrives
		s.update(x, clientID)
		p, h := s.query(y, key, latest())
		for i := 1 + s.R.Intn(3); i > 0; i-- {
			y.k.Commit()
		}
		return p, h
	case "proof-noupdate":
		return s.query(y, key, latest())
	case "proof-stale":
		hs := known()
		if len(hs) < 2 {
			return s.query(y, key, latest())
		}
		// an earlier consensus height the client still holds (mostly a recent one)
		n := len(hs) - 1
		if n > 4 && s.R.Chance(3, 4) {
			return s.query(y, key, hs[n-1-s.R.Intn(4)])
		}
		return s.query(y, key, hs[s.R.Intn(n)])
	case "proof-otherchain":
		s.update(x, clientID)
		z := x
		for _, c := range s.chains {
			if c != x && c != y {
				z = c
			}
		}
		p, _ := s.query(z, key, uint64(z.k.App.LastBlockHeight()))
		return p, clienttypes.NewHeight(revisionOf(y), latest())
	case "proof-mismatch":
		s.update(x, clientID)
		hs := known()
		if len(hs) < 2 {
			p, h := s.query(y, key, latest())
			h.RevisionHeight++
			return p, h
		}
		p, _ := s.query(y, key, hs[s.R.Intn(len(hs)-1)])
		return p, clienttypes.NewHeight(revisionOf(y), latest())
	case "proof-unknown-height":
		s.update(x, clientID)
		p, h := s.query(y, key, latest())
		switch s.R.Intn(4) {
		case 0:
			h.RevisionHeight += uint64(1 + s.R.Intn(5))
		case 1:
			h.RevisionNumber++
		case 2:
			h.RevisionNumber = 0
		default:
			h = clienttypes.NewHeight(h.RevisionNumber, s.R.Boundary64())
		}
		return p, h
	case "proof-garbage":
		s.update(x, clientID)
		p, h := s.query(y, key, latest())
		p = append([]byte{}, p...)
		switch s.R.Intn(3) {
		case 0:
			p[s.R.Intn(len(p))] ^= byte(1 << uint(s.R.Intn(8)))
		case 1:
			p = p[:1+s.R.Intn(len(p)-1)]
		default:
			p = s.R.Bytes(1 + s.R.Intn(64))
		}
		return p, h
	}
	s.update(x, clientID)
	return s.query(y, key, latest())
}

// otherKey returns a store key of y different from the honest one (another end of the same or of the other kind).
func (s *Sim) otherKey(y *chainSt, honest []byte) []byte {
	var ks [][]byte
	for _, id := range sortedConnIDs(y.cur()) {
		ks = append(ks, connKeyBytes(id))
	}
	for _, k := range sortedChanKeys(y.cur()) {
		p, id := splitChanKey(k)
		ks = append(ks, chanKeyBytes(p, id))
	}
	ks = append(ks, connKeyBytes("connection-77"), chanKeyBytes("mock", "channel-77"))
	for i := 0; i < 8; i++ {
		k := kit.Pick(s.R, ks)
		if string(k) != string(honest) {
			return k
		}
	}
	return connKeyBytes("connection-78")
}

// proofFor wraps mkProof with the wrong-key mutation.
func (s *Sim) proofFor(x *chainSt, clientID string, key []byte, mut string) ([]byte, clienttypes.Height) {
	if !isProofMut(mut) {
		mut = ""
	}
	if mut == "proof-wrongkey" {
		if ti, ok := x.clientTarget[clientID]; ok {
			key = s.otherKey(s.chains[ti], key)
		}
		mut = ""
	}
	return s.mkProof(x, clientID, key, mut)
}

// ---------------------------------------------------------------------------------------------
// menus

func (s *Sim) initVersion(hostile bool) *connectiontypes.Version {
	if hostile {
		return kit.Pick(s.R, []*connectiontypes.Version{ver("2", fO, fU), ver("1"), ver("1", fO, "ORDER_DAG"), ver("", fO), ver("1", fO, " "), ver("3")})
	}
	return kit.Pick(s.R, []*connectiontypes.Version{nil, nil, ver("1", fO, fU), ver("1", fU, fO), ver("1", fO), ver("1", fU), ver("1", fO, fU)})
}

func (s *Sim) delay() uint64 {
	switch s.R.Intn(4) {
	case 0, 1:
		return 0
	case 2:
		return uint64(1 + s.R.Intn(10))
	}
	return s.R.Boundary64()
}

func (s *Sim) otherClient(x *chainSt, not string) string {
	var ids []string
	for id := range x.eps {
		if id != not {
			ids = append(ids, id)
		}
	}
	sort.Strings(ids)
	ids = append(ids, "07-tendermint-99")
	return kit.Pick(s.R, ids)
}

func (s *Sim) otherConn(sn *snap, not string) string {
	var ids []string
	for _, id := range sortedConnIDs(sn) {
		if id != not {
			ids = append(ids, id)
		}
	}
	ids = append(ids, "connection-99")
	return kit.Pick(s.R, ids)
}

func (s *Sim) otherChanID(sn *snap, not string) string {
	var ids []string
	for _, k := range sortedChanKeys(sn) {
		_, id := splitChanKey(k)
		if id != not {
			ids = append(ids, id)
		}
	}
	ids = append(ids, "channel-99")
	return kit.Pick(s.R, ids)
}

func mutateVersions(r *kit.Rng, vs []*connectiontypes.Version) []*connectiontypes.Version {
	out := append([]*connectiontypes.Version{}, vs...)
	switch r.Intn(6) {
	case 0:
		out = append(out, ver("2", fO))
	case 1:
		out = []*connectiontypes.Version{ver("1", fO)}
	case 2:
		out = []*connectiontypes.Version{ver("1", fU)}
	case 3:
		out = append(out, out...)
	case 4:
		out = []*connectiontypes.Version{ver("1", fU, fO), ver("1", fO, fU)}
	default:
		out = []*connectiontypes.Version{ver("1", fO, fU, "ORDER_DAG")}
	}
	return out
}

func badPrefix(r *kit.Rng) commitmenttypes.MerklePrefix {
	return commitmenttypes.NewMerklePrefix(kit.Pick(r, [][]byte{[]byte("ibcx"), []byte("transfer"), []byte("ib"), {0x01}}))
}

func connState(sn *snap, id string) string {
	if e, ok := sn.conns[id]; ok {
		return e.State.String()
	}
	return "ABSENT"
}

func chanState(sn *snap, k string) string {
	if e, ok := sn.chans[k]; ok {
		return e.State.String()
	}
	return "ABSENT"
}

// ---------------------------------------------------------------------------------------------
// connection handshake messages

var connInitMuts = []string{"client-localhost", "client-other", "client-missing", "cpclient-localhost", "cpclient-other", "prefix", "version-bad", "cpconn-nonempty"}

func (s *Sim) doConnInit(x *chainSt, clientID, cpClientID string, mut string) *kit.Outcome {
	y := s.chains[x.clientTarget[clientID]]
	prefix := y.k.GetPrefix()
	v := s.initVersion(false)
	switch mut {
	case "client-localhost":
		clientID = exported.LocalhostClientID
	case "client-other":
		clientID = s.otherClient(x, clientID)
	case "client-missing":
		clientID = "07-tendermint-98"
	case "cpclient-localhost":
		cpClientID = exported.LocalhostClientID
	case "cpclient-other":
		cpClientID = s.otherClient(y, cpClientID)
	case "prefix":
		prefix = badPrefix(s.R)
	case "version-bad":
		v = s.initVersion(true)
	}
	m := connectiontypes.NewMsgConnectionOpenInit(clientID, cpClientID, prefix, v, s.delay(), s.signer(x))
	if mut == "cpconn-nonempty" {
		m.Counterparty.ConnectionId = "connection-0"
	}
	o := s.deliver(x, &opMeta{kind: "conn_init", label: mut, pre: "-"}, m)
	s.noteLocalhost(mut, o)
	return o
}

func (s *Sim) noteLocalhost(mut string, o *kit.Outcome) {
	if mut == "client-localhost" || mut == "conn-localhost" {
		s.C.Inc("localhost_msgs_sent")
		if !o.OK() {
			s.C.Inc("localhost_msgs_refused")
		}
	}
}

var connTryMuts = append([]string{"client-localhost", "client-other", "cpconn-other", "cpconn-missing", "cpclient-other", "prefix", "versions", "delay"}, proofMuts...)

// doConnTry: chain x answers the connection end tid of chain y.
func (s *Sim) doConnTry(x, y *chainSt, tid string, mut string) *kit.Outcome {
	T := y.cur().conns[tid] // zero value when absent (hostile target)
	clientID := T.Counterparty.ClientId
	if _, ok := x.eps[clientID]; !ok {
		// the end names a client x does not have: use any client of x that tracks y
		for _, id := range s.clientsTracking(x, y) {
			clientID = id
			break
		}
	}
	cpClient, cpConn := T.ClientId, tid
	if cpClient == "" {
		cpClient = "07-tendermint-0"
	}
	prefix := y.k.GetPrefix()
	versions := T.Versions
	if len(versions) == 0 {
		versions = connectiontypes.GetCompatibleVersions()
	}
	delay := T.DelayPeriod
	switch mut {
	case "client-localhost":
		clientID = exported.LocalhostClientID
	case "client-other":
		clientID = s.otherClient(x, clientID)
	case "cpconn-other":
		cpConn = s.otherConn(y.cur(), tid)
	case "cpconn-missing":
		cpConn = "connection-97"
	case "cpclient-other":
		cpClient = s.otherClient(y, cpClient)
	case "prefix":
		prefix = badPrefix(s.R)
	case "versions":
		versions = mutateVersions(s.R, versions)
	case "delay":
		delay = delay + 1 + uint64(s.R.Intn(3))
		if s.R.Chance(1, 4) {
			delay = s.R.Boundary64()
		}
	}
	proofClient := clientID
	if _, ok := x.eps[proofClient]; !ok {
		proofClient = T.Counterparty.ClientId
	}
	proof, h := s.proofFor(x, proofClient, connKeyBytes(cpConn), mut)
	m := connectiontypes.NewMsgConnectionOpenTry(clientID, cpConn, cpClient, prefix, versions, delay, proof, h, s.signer(x))
	o := s.deliver(x, &opMeta{kind: "conn_try", label: mut, pre: connState(y.cur(), tid)}, m)
	s.noteLocalhost(mut, o)
	return o
}

func (s *Sim) clientsTracking(x, y *chainSt) []string {
	var ids []string
	for id, t := range x.clientTarget {
		if t == y.idx {
			ids = append(ids, id)
		}
	}
	sort.Strings(ids)
	return ids
}

var connAckMuts = append([]string{"cpconn-other", "cpconn-missing", "version-sub", "version-other", "conn-localhost"}, proofMuts...)

// doConnAck: chain x acknowledges on its end a that y stored end tid.
func (s *Sim) doConnAck(x *chainSt, a, tid string, mut string) *kit.Outcome {
	A := x.cur().conns[a]
	y := s.connTarget(x, A)
	if y == nil {
		y = s.chains[(x.idx+1)%len(s.chains)]
	}
	T := y.cur().conns[tid]
	var v *connectiontypes.Version
	if len(T.Versions) > 0 {
		v = T.Versions[0]
	} else {
		v = ver("1", fO, fU)
	}
	switch mut {
	case "cpconn-other":
		tid = s.otherConn(y.cur(), tid)
	case "cpconn-missing":
		tid = "connection-96"
	case "version-sub":
		v = kit.Pick(s.R, []*connectiontypes.Version{ver("1", fO), ver("1", fU), ver("1", fU, fO)})
	case "version-other":
		v = kit.Pick(s.R, []*connectiontypes.Version{ver("2", fO, fU), ver("1", fO, fU, "ORDER_DAG"), ver("1")})
	case "conn-localhost":
		a = exported.LocalhostConnectionID
	}
	proof, h := s.proofFor(x, A.ClientId, connKeyBytes(tid), mut)
	m := connectiontypes.NewMsgConnectionOpenAck(a, tid, proof, h, v, s.signer(x))
	o := s.deliver(x, &opMeta{kind: "conn_ack", label: mut, pre: connState(x.cur(), a)}, m)
	s.noteLocalhost(mut, o)
	return o
}

var connConfirmMuts = append([]string{"conn-localhost"}, proofMuts...)

func (s *Sim) doConnConfirm(x *chainSt, a string, mut string) *kit.Outcome {
	A := x.cur().conns[a]
	key := connKeyBytes(A.Counterparty.ConnectionId)
	if mut == "conn-localhost" {
		a = exported.LocalhostConnectionID
	}
	proof, h := s.proofFor(x, A.ClientId, key, mut)
	m := connectiontypes.NewMsgConnectionOpenConfirm(a, proof, h, s.signer(x))
	o := s.deliver(x, &opMeta{kind: "conn_confirm", label: mut, pre: connState(x.cur(), a)}, m)
	s.noteLocalhost(mut, o)
	return o
}

// ---------------------------------------------------------------------------------------------
// channel handshake messages

const (
	portMock     = "mock"
	portTransfer = "transfer"
)

var chanInitMuts = []string{"order-none", "hops-missing", "hops-two", "hops-none", "port-unrouted", "version-bogus", "cpchan-nonempty"}

func (s *Sim) doChanInit(x *chainSt, cn, port, cpPort string, order channeltypes.Order, version string, mut string) *kit.Outcome {
	hops := []string{cn}
	switch mut {
	case "order-none":
		order = channeltypes.NONE
	case "hops-missing":
		hops = []string{"connection-95"}
	case "hops-two":
		hops = []string{cn, cn}
	case "hops-none":
		hops = nil
	case "port-unrouted":
		port = "nowhere"
	case "version-bogus":
		version = "bogus-" + fmt.Sprint(s.R.Intn(10))
	}
	m := channeltypes.NewMsgChannelOpenInit(port, version, order, hops, cpPort, s.signer(x))
	if mut == "cpchan-nonempty" {
		m.Channel.Counterparty.ChannelId = "channel-0"
	}
	return s.deliver(x, &opMeta{kind: "chan_init", label: mut, pre: connState(x.cur(), cn)}, m)
}

var chanTryMuts = append([]string{"order-flip", "cpversion", "cpport", "cpchan-other", "cpchan-missing", "hops-other", "port-other"}, proofMuts...)

// doChanTry: chain x answers the channel end tk of chain y over its connection cn.
func (s *Sim) doChanTry(x, y *chainSt, tk, cn string, mut string) *kit.Outcome {
	T := y.cur().chans[tk]
	cpPort, cpChan := splitChanKey(tk)
	port := T.Counterparty.PortId
	if port == "" {
		port = portMock
	}
	order := T.Ordering
	if order == channeltypes.NONE {
		order = channeltypes.UNORDERED
	}
	cpVersion := T.Version
	switch mut {
	case "order-flip":
		if order == channeltypes.ORDERED {
			order = channeltypes.UNORDERED
		} else {
			order = channeltypes.ORDERED
		}
	case "cpversion":
		cpVersion = kit.Pick(s.R, []string{"", "mock-version", "ics20-1", "other"})
		if cpVersion == T.Version {
			cpVersion += "x"
		}
	case "cpport":
		if cpPort == portMock {
			cpPort = portTransfer
		} else {
			cpPort = portMock
		}
	case "cpchan-other":
		cpChan = s.otherChanID(y.cur(), cpChan)
	case "cpchan-missing":
		cpChan = "channel-94"
	case "hops-other":
		cn = s.otherConn(x.cur(), cn)
	case "port-other":
		if port == portMock {
			port = portTransfer
		} else {
			port = portMock
		}
	}
	clientID := x.cur().conns[cn].ClientId
	proof, h := s.proofFor(x, clientID, chanKeyBytes(cpPort, cpChan), mut)
	m := channeltypes.NewMsgChannelOpenTry(port, "", order, []string{cn}, cpPort, cpChan, cpVersion, proof, h, s.signer(x))
	return s.deliver(x, &opMeta{kind: "chan_try", label: mut, pre: chanState(y.cur(), tk)}, m)
}

var chanAckMuts = append([]string{"cpchan-other", "cpchan-missing", "cpversion", "port-other", "cp-closes-after-proof", "cp-closes-after-proof"}, proofMuts...)

// doChanAck: chain x acknowledges on its end ak that y stored end with channel id tid.
func (s *Sim) doChanAck(x *chainSt, ak, tid string, mut string) *kit.Outcome {
	A := x.cur().chans[ak]
	port, id := splitChanKey(ak)
	y, cn, ok := s.chanTarget(x, x.cur(), A)
	cpVersion := "mock-version"
	if ok {
		if T, found := y.cur().chans[chanKey(A.Counterparty.PortId, tid)]; found {
			cpVersion = T.Version
		}
	}
	switch mut {
	case "cpchan-other":
		if ok {
			tid = s.otherChanID(y.cur(), tid)
		}
	case "cpchan-missing":
		tid = "channel-93"
	case "cpversion":
		cpVersion = kit.Pick(s.R, []string{"", "mock-version", "ics20-1", "other"}) + "y"
	case "port-other":
		if port == portMock {
			port = portTransfer
		} else {
			port = portMock
		}
	}
	proof, h := s.proofFor(x, cn.ClientId, chanKeyBytes(A.Counterparty.PortId, tid), mut)
	if mut == "cp-closes-after-proof" && ok {
		s.doChanCloseInit(y, chanKey(A.Counterparty.PortId, tid), "after-proof")
	}
	m := channeltypes.NewMsgChannelOpenAck(port, id, tid, cpVersion, proof, h, s.signer(x))
	return s.deliver(x, &opMeta{kind: "chan_ack", label: mut, pre: chanState(x.cur(), ak)}, m)
}

var chanConfirmMuts = append([]string{"port-other", "cp-closes-after-proof", "cp-closes-after-proof"}, proofMuts...)

func (s *Sim) doChanConfirm(x *chainSt, ak string, mut string) *kit.Outcome {
	A := x.cur().chans[ak]
	port, id := splitChanKey(ak)
	y, cn, ok := s.chanTarget(x, x.cur(), A)
	key := chanKeyBytes(A.Counterparty.PortId, A.Counterparty.ChannelId)
	if mut == "port-other" {
		if port == portMock {
			port = portTransfer
		} else {
			port = portMock
		}
	}
	proof, h := s.proofFor(x, cn.ClientId, key, mut)
	if mut == "cp-closes-after-proof" && ok {
		s.doChanCloseInit(y, chanKey(A.Counterparty.PortId, A.Counterparty.ChannelId), "after-proof")
	}
	m := channeltypes.NewMsgChannelOpenConfirm(port, id, proof, h, s.signer(x))
	return s.deliver(x, &opMeta{kind: "chan_confirm", label: mut, pre: chanState(x.cur(), ak)}, m)
}

func (s *Sim) doChanCloseInit(x *chainSt, ak string, label string) *kit.Outcome {
	port, id := splitChanKey(ak)
	m := channeltypes.NewMsgChannelCloseInit(port, id, s.signer(x))
	return s.deliver(x, &opMeta{kind: "chan_close_init", label: label, pre: chanState(x.cur(), ak)}, m)
}

func (s *Sim) doChanCloseConfirm(x *chainSt, ak string, mut string) *kit.Outcome {
	A := x.cur().chans[ak]
	port, id := splitChanKey(ak)
	_, cn, _ := s.chanTarget(x, x.cur(), A)
	key := chanKeyBytes(A.Counterparty.PortId, A.Counterparty.ChannelId)
	proof, h := s.proofFor(x, cn.ClientId, key, mut)
	m := channeltypes.NewMsgChannelCloseConfirm(port, id, proof, h, s.signer(x))
	return s.deliver(x, &opMeta{kind: "chan_close_confirm", label: mut, pre: chanState(x.cur(), ak)}, m)
}

// replay re-delivers, byte for byte, a handshake message sent earlier on the same chain.
func (s *Sim) replay() {
	x := kit.Pick(s.R, s.chains)
	if len(x.sent) == 0 {
		return
	}
	m := kit.Pick(s.R, x.sent)
	s.deliver(x, &opMeta{kind: "replay", label: "replay", pre: "?"}, m)
}

var _ sdk.Msg
