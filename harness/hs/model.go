package hs

import (
	"sort"
	"strings"

	connectiontypes "github.com/cosmos/ibc-go/v11/modules/core/03-connection/types"
)

// Reference model of ICS-3 version negotiation, written from the property statement:
// a version = (identifier, feature set); the negotiated version carries an identifier that both sides list
// and, as features, the set intersection of the two sides' feature sets for that identifier.
// Feature sets are compared as sets (order and multiplicity are not part of the statement).

type fset map[string]struct{}

func setOf(fs []string) fset {
	m := fset{}
	for _, f := range fs {
		m[f] = struct{}{}
	}
	return m
}

func (a fset) eq(b fset) bool {
	if len(a) != len(b) {
		return false
	}
	for k := range a {
		if _, ok := b[k]; !ok {
			return false
		}
	}
	return true
}

func (a fset) subsetOf(b fset) bool {
	for k := range a {
		if _, ok := b[k]; !ok {
			return false
		}
	}
	return true
}

func (a fset) inter(b fset) fset {
	m := fset{}
	for k := range a {
		if _, ok := b[k]; ok {
			m[k] = struct{}{}
		}
	}
	return m
}

func (a fset) String() string {
	ks := make([]string, 0, len(a))
	for k := range a {
		ks = append(ks, k)
	}
	sort.Strings(ks)
	return "{" + strings.Join(ks, ",") + "}"
}

func entries(list []*connectiontypes.Version, id string) []fset {
	var out []fset
	for _, v := range list {
		if v != nil && v.Identifier == id {
			out = append(out, setOf(v.Features))
		}
	}
	return out
}

func hasDupIDs(list []*connectiontypes.Version) bool {
	seen := map[string]bool{}
	for _, v := range list {
		if v == nil {
			continue
		}
		if seen[v.Identifier] {
			return true
		}
		seen[v.Identifier] = true
	}
	return false
}

// refNegotiatedOK: may v be the version negotiated between a side supporting `mine` and a side proposing `theirs`?
// For lists that repeat an identifier the statement does not say which entry counts: any pair of entries
// carrying the chosen identifier is accepted.
func refNegotiatedOK(mine, theirs []*connectiontypes.Version, v *connectiontypes.Version) bool {
	if v == nil {
		return false
	}
	got := setOf(v.Features)
	for _, a := range entries(mine, v.Identifier) {
		for _, b := range entries(theirs, v.Identifier) {
			if got.eq(a.inter(b)) {
				return true
			}
		}
	}
	return false
}

// refSomeCommon: with identifier-unique lists, is there an identifier listed by both with a non-empty feature intersection?
func refSomeCommon(mine, theirs []*connectiontypes.Version) bool {
	for _, a := range mine {
		for _, b := range theirs {
			if a != nil && b != nil && a.Identifier == b.Identifier && len(setOf(a.Features).inter(setOf(b.Features))) > 0 {
				return true
			}
		}
	}
	return false
}

// refSupportedAny: proposed is supported by *some* entry of the list (same identifier, features ⊆ entry features).
func refSupportedAny(list []*connectiontypes.Version, p *connectiontypes.Version) bool {
	ps := setOf(p.Features)
	for _, e := range entries(list, p.Identifier) {
		if ps.subsetOf(e) {
			return true
		}
	}
	return false
}

// refSupportedAll: proposed is supported by *every* entry carrying its identifier (and there is one).
func refSupportedAll(list []*connectiontypes.Version, p *connectiontypes.Version) bool {
	es := entries(list, p.Identifier)
	if len(es) == 0 {
		return false
	}
	ps := setOf(p.Features)
	for _, e := range es {
		if !ps.subsetOf(e) {
			return false
		}
	}
	return true
}

func sameVersion(a, b *connectiontypes.Version) bool {
	if a == nil || b == nil {
		return a == b
	}
	return a.Identifier == b.Identifier && setOf(a.Features).eq(setOf(b.Features))
}

func verStr(v *connectiontypes.Version) string {
	if v == nil {
		return "nil"
	}
	return v.Identifier + setOf(v.Features).String()
}

func versStr(vs []*connectiontypes.Version) string {
	s := make([]string, len(vs))
	for i, v := range vs {
		s[i] = verStr(v)
	}
	return "[" + strings.Join(s, " ") + "]"
}
